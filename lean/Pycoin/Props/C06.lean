import Pycoin.Model.Validate
import Pycoin.Proofs.SighashFields
import Pycoin.Props.C04
import Pycoin.Proofs.TamperKinds
/-!
C06 — Validation is tamper-evident: signatures bind what their hash type commits.

The commitment of a legacy signature is the temporary transaction `_signature_hash` builds (`committedLegacy`): two
preimages are equal exactly when these blanked transactions (and the hash-type words) are; read back field by field
this is `legacyFields` (`C06_committed_fields_legacy`, every hash-type word, every script code).  For BIP143 and the
fork-id variants the commitment is the list of the ten items of the message (`C06_committed_iff_bip143`), and — the part
hashes standing for the lists they digest, an explicit hypothesis — the fields `fields143` (`C06_committed_fields_bip143`).
The frame direction runs through the model of `is_solution_ok`: the closures read the state only through the committed
bytes (`C06_oracle_reads_preimage_only`), so a change outside the commitment leaves the verdict as it was
(`C06_uncommitted_change_same_verdict`, with `C06_other_unlocking_data_free` and `C06_none_outputs_free` as instances).
The interpreter is a parameter (`VM`).
-/
namespace Pycoin.Validate
open Pycoin Pycoin.Wire Pycoin.Sighash Pycoin.Spec.Sighash Pycoin.Spec.Wire

/-! ## unknown spent output -/

/-- C06.missing_unspent_false: `is_solution_ok(idx)` is `False`, without running the checker, whenever the spent output of
input `idx` is unknown — the `unspents` list is too short or holds `None` at `idx` — whatever the interpreter would say
and whatever the other unspents are -/
theorem C06_missing_unspent_false (V : VM) (c : Coin) (s : State) (idx : Nat) (h : s.us[idx]?.join = none) :
    isSolutionOk V c s idx = .ok false := by
  unfold isSolutionOk
  by_cases h1 : s.us.length ≤ idx
  · simp [h1]
  · simp [h1, h]

/-- the guards agree: when `is_solution_ok` gets past its guard, `tx_context_for_idx` uses the recorded script unless the
transaction is a coinbase -/
theorem C06_guard_consistent (s : State) (idx : Nat) (o : TxOut) (h : s.us[idx]?.join = some o) (hcb : s.tx.isCoinbase = false) :
    missingUnspent s idx = false := by
  unfold missingUnspent
  have hlt : ¬ s.us.length ≤ idx := by
    intro hle
    rw [List.getElem?_eq_none hle] at h
    cases h
  simp [hcb, hlt, h]

/-- C06.is_solution_ok_catches: `Tx.is_solution_ok` turns `ScriptError` — and nothing else — into `False` (the `except` clauses of
the function as they are in the source now, `Gen/Validate.lean`): this is the case split of `isSolutionOk` (`scriptError` ↦
`False`, any other exception escapes, nothing is ever turned into `True`) -/
theorem C06_is_solution_ok_catches : Gen.Validate.isSolutionOkCatches = ["ScriptError"] := rfl

/-- C06.never_true_on_exception: whatever the interpreter does, `is_solution_ok` returns `True` only when `check_solution`
returned normally -/
theorem C06_true_only_if_check_returns (V : VM) (c : Coin) (s : State) (idx : Nat)
    (h : isSolutionOk V c s idx = .ok true) : checkSolution V c s idx = .ok := by
  unfold isSolutionOk at h
  split at h
  · cases h
  · split at h
    · cases h
    · split at h
      · assumption
      · cases h
      · cases h

/-! ## how the unspents get populated -/

/-- C06.unspents_from_db_sound: when `unspents_from_db` returns, the list has one entry per input, and entry `k` is
exactly the output the database holds for input `k` (`dbOutput`: the stored transaction reports the hash it is filed
under and has an output at `previous_index`) — `None` for a coinbase input and whenever the database has no such
output.  No other value (in particular no placeholder output) is ever recorded. -/
theorem C06_unspents_from_db_sound (db : TxDb) (ign : Bool) :
    ∀ (ins : List TxIn) (us : List (Option TxOut)), unspentsFromDb db ign ins = .ok us →
      us.length = ins.length ∧
      ∀ (k : Nat) (t : TxIn), ins[k]? = some t → us[k]? = some (if t.isCoinbase then none else dbOutput db t) := by
  intro ins
  induction ins with
  | nil =>
    intro us h
    simp only [unspentsFromDb] at h
    cases h
    exact ⟨rfl, by intro k t hk; simp at hk⟩
  | cons a as ih =>
    intro us h
    unfold unspentsFromDb at h
    -- the head entry
    have hhead : ∀ u, (if a.isCoinbase then (.ok none : Except PopErr (Option TxOut))
        else match db a.prevHash with
          | some (h', outs) =>
            if h' = a.prevHash then
              match pyIndex outs a.prevIndex with
              | some o => .ok (some o)
              | none => .error .indexError
            else if ign then .ok none else .error .keyError
          | none => if ign then .ok none else .error .keyError) = .ok u →
        u = (if a.isCoinbase then none else dbOutput db a) := by
      intro u hu
      by_cases hc : a.isCoinbase = true
      · simp only [hc, if_true] at hu ⊢
        cases hu; rfl
      · simp only [hc, Bool.false_eq_true, if_false] at hu ⊢
        unfold dbOutput
        cases hd : db a.prevHash with
        | none =>
          simp only [hd] at hu
          split at hu
          · cases hu; rfl
          · cases hu
        | some p =>
          obtain ⟨h', outs⟩ := p
          simp only [hd] at hu ⊢
          by_cases hh : h' = a.prevHash
          · simp only [hh, if_true] at hu ⊢
            cases hp : pyIndex outs a.prevIndex with
            | none => simp [hp] at hu
            | some o => simp only [hp] at hu; cases hu; rfl
          · simp only [hh, if_false] at hu ⊢
            split at hu
            · cases hu; rfl
            · cases hu
    simp only at h
    split at h
    · cases h
    · rename_i u hu
      split at h
      · cases h
      · rename_i us' hus
        cases h
        obtain ⟨hl, hk⟩ := ih us' hus
        have hu' := hhead u hu
        refine ⟨by simp [hl], ?_⟩
        intro k t hkt
        cases k with
        | zero =>
          simp only [List.getElem?_cons_zero, Option.some.injEq] at hkt ⊢
          subst hkt
          exact hu'
        | succ k =>
          simp only [List.getElem?_cons_succ] at hkt ⊢
          exact hk k t hkt

/-- C06.unknown_output_never_valid: after `unspents_from_db`, an input whose spent output does not exist in the source
data — no transaction under that hash, a transaction reporting another hash, or an index at or beyond its outputs — is
refused by `is_solution_ok` whatever its scriptSig and whatever the interpreter would say -/
theorem C06_unknown_output_never_valid (V : VM) (c : Coin) (db : TxDb) (ign : Bool) (tx : Tx) (us : List (Option TxOut))
    (h : unspentsFromDb db ign tx.ins = .ok us) (idx : Nat) (t : TxIn) (ht : tx.ins[idx]? = some t)
    (hno : dbOutput db t = none) :
    isSolutionOk V c ⟨tx, us⟩ idx = .ok false := by
  apply C06_missing_unspent_false
  have := (C06_unspents_from_db_sound db ign tx.ins us h).2 idx t ht
  show us[idx]?.join = none
  rw [this]
  cases t.isCoinbase <;> simp [hno]

/-- C06.from_db_index_error: a source transaction that is present under the right hash but has no output at
`previous_index` makes `unspents_from_db` raise for the first such input (nothing is recorded), even with `ignore_missing` -/
theorem C06_from_db_index_error (db : TxDb) (ign : Bool) (t : TxIn) (ts : List TxIn) (outs : List TxOut)
    (hc : t.isCoinbase = false) (hd : db t.prevHash = some (t.prevHash, outs)) (hi : pyIndex outs t.prevIndex = none) :
    unspentsFromDb db ign (t :: ts) = .error .indexError := by
  unfold unspentsFromDb
  simp [hc, hd, hi]

/-- C06.set_unspents_length: `set_unspents` refuses a list of the wrong length, and otherwise records it as given: a
`None` entry stays unknown -/
theorem C06_set_unspents (V : VM) (c : Coin) (s : State) (us : List (Option TxOut)) :
    (us.length ≠ s.tx.ins.length → setUnspents s us = .error .valueError) ∧
    (∀ s', setUnspents s us = .ok s' → s'.us = us ∧ ∀ idx, us[idx]?.join = none → isSolutionOk V c s' idx = .ok false) := by
  constructor
  · intro h; simp [setUnspents, h]
  · intro s' h
    unfold setUnspents at h
    split at h
    · cases h
    · cases h
      exact ⟨rfl, fun idx hn => C06_missing_unspent_false V c _ idx hn⟩

/-! ## the per-call cache -/

theorem runCached_inv {α : Type} (f : Nat → α) : ∀ (hts : List Nat) (cache : List (Nat × α)),
    (∀ p ∈ cache, p.2 = f p.1) → runCached f cache hts = hts.map f := by
  intro hts
  induction hts with
  | nil => intro cache _; rfl
  | cons ht hts ih =>
    intro cache hinv
    unfold runCached cachedLookup
    cases hfind : cache.find? (fun p => p.1 == ht) with
    | none =>
      simp only [List.map_cons]
      congr 1
      apply ih
      intro p hp
      simp only [List.mem_cons] at hp
      rcases hp with rfl | hp
      · rfl
      · exact hinv p hp
    | some p =>
      have hmem := List.mem_of_find?_eq_some hfind
      have hk := List.find?_some hfind
      simp only [beq_iff_eq] at hk
      simp only [List.map_cons]
      congr 1
      · rw [hinv p hmem, hk]
      · exact ih cache hinv

/-- C06.cache_transparent: within one `checksigs` execution (the only lifetime the `sighash_cache` dict has: it is created
empty by every call and keyed by the hash type alone, while the script code and the signature list are fixed), every
message handed to `generator.verify` is what recomputing the closure for that hash type returns -/
theorem C06_cache_transparent {α : Type} (f : Nat → α) (hts : List Nat) : runCached f [] hts = hts.map f :=
  runCached_inv f hts [] (by intro p hp; cases hp)

/-! ## the verdict depends on the input's context and on the closure answers only -/

theorem isSolutionOk_eq (V : VM) (c : Coin) (s : State) (idx : Nat) :
    isSolutionOk V c s idx =
      if (s.us[idx]?.join).isSome then
        (match checkSolution V c s idx with
          | .ok => .ok true
          | .scriptError => .ok false
          | .raised t => .error t)
      else .ok false := by
  unfold isSolutionOk
  by_cases h1 : s.us.length ≤ idx
  · simp [h1, List.getElem?_eq_none h1]
  · cases hj : s.us[idx]?.join with
    | none => simp [h1]
    | some o =>
      simp [h1]
      cases checkSolution V c s idx <;> rfl

/-- C06.verdict_frame: let `Q` be the closure calls the interpreter may make (those of the signatures in the input's
unlocking data).  If two states give input `idx` the same context (unlocking script and witness, spent script, sequence,
version, lock time), have its spent output known in both, and the closures answer every query of `Q` alike — which is
the case when what the hash types of `Q` commit to is the same in both (`C06_committed_iff_*`) — then `is_solution_ok`
returns the same verdict.  Every other edit of the transaction or of the unspents is invisible to it. -/
theorem C06_verdict_frame (V : VM) (c : Coin) (Q : Query → Prop)
    (hV : ∀ ctx f g, (∀ q, Q q → f q = g q) → V ctx f = V ctx g)
    (s s' : State) (idx : Nat)
    (hctx : txContextForIdx s idx = txContextForIdx s' idx)
    (hknown : (s.us[idx]?.join).isSome = (s'.us[idx]?.join).isSome)
    (hq : ∀ q, Q q → oracle c s idx q = oracle c s' idx q) :
    isSolutionOk V c s idx = isSolutionOk V c s' idx := by
  have hcs : checkSolution V c s idx = checkSolution V c s' idx := by
    unfold checkSolution
    rw [hctx]
    cases txContextForIdx s' idx with
    | none => rfl
    | some ctx => exact hV ctx _ _ hq
  rw [isSolutionOk_eq, isSolutionOk_eq, hknown, hcs]

/-- the closures answer alike when the digested bytes are the same: a legacy query depends on the transaction only
through the temporary transaction (`legacyTmpTx`), whatever else differs -/
theorem legacy_closure_congr (c : Coin) (tx tx' : Tx) (script : Bytes) (idx ht : Nat)
    (h : ∀ s', legacyTmpTx tx s' idx ht = legacyTmpTx tx' s' idx ht) :
    Sighash.legacyPreimage c tx script idx ht = Sighash.legacyPreimage c tx' script idx ht := by
  unfold Sighash.legacyPreimage
  cases deleteSubscript script Gen.Sighash.strippedSubscript with
  | error e => rfl
  | ok s' => simp only [h s']

/-! ## what a legacy signature commits to -/

/-- the hypotheses under which a (transaction, input, script code) triple is in the property's quantifier -/
structure InScope (tx : Tx) (idx : Nat) (script : Bytes) : Prop where
  wf : tx.WF
  idx : idx < tx.ins.length
  len : LenOk script

/-- C06.committed_iff (legacy): for the same hash-type word, two legacy preimages — of any two transactions, input
positions and script codes in scope (every script code: complete pushes or not) — are equal **iff** the committed projections are equal, where the projection is the
blanked temporary transaction (`committedLegacy`: version, lock time, the kept inputs with outpoint, sequence-or-zero and
the stripped script code at the signed position, the kept outputs).  "⇐" is congruence, "⇒" is unique decoding of the
wire format. -/
theorem C06_committed_iff_legacy (c : Coin) (tx tx' : Tx) (idx idx' : Nat) (script script' : Bytes)
    (hx : InScope tx idx script) (hy : InScope tx' idx' script') (ht : Nat) (hht : ht < 2 ^ 32) :
    Sighash.legacyPreimage c tx script idx ht = Sighash.legacyPreimage c tx' script' idx' ht ↔
      committedLegacy tx script idx ht = committedLegacy tx' script' idx' ht := by
  obtain ⟨hdel, hsl, _⟩ := strip_serializeScriptCode_all script
  obtain ⟨hdel', hsl', _⟩ := strip_serializeScriptCode_all script'
  generalize strippedBody script ++ instrTail script = st at hdel hsl
  generalize strippedBody script' ++ instrTail script' = st' at hdel' hsl'
  have hs : LenOk st := by have := hx.len; unfold LenOk at this ⊢; omega
  have hs' : LenOk st' := by have := hy.len; unfold LenOk at this ⊢; omega
  rw [legacyPreimage_tmp c tx hx.wf idx hx.idx script st hdel hs ht hht,
    legacyPreimage_tmp c tx' hy.wf idx' hy.idx script' st' hdel' hs' ht hht,
    committedLegacy_eq tx idx hx.idx script st hdel ht, committedLegacy_eq tx' idx' hy.idx script' st' hdel' ht]
  cases hb : isBug tx idx ht <;> cases hb' : isBug tx' idx' ht
  · -- neither is the SINGLE-bug case: unique decoding
    simp only [Bool.false_eq_true, if_false]
    have nb : ¬ (fHashSingle ht = true ∧ idx ≥ tx.outs.length) := by
      intro h; simp [isBug, h.1, h.2] at hb
    have nb' : ¬ (fHashSingle ht = true ∧ idx' ≥ tx'.outs.length) := by
      intro h; simp [isBug, h.1, h.2] at hb'
    constructor
    · intro h
      have h1 := Option.some.inj (Except.ok.inj h)
      have h2 := List.append_cancel_right h1
      have := legacy_injective _ _ (tmp_wf tx hx.wf st hs idx ht hx.idx nb) (tmp_wf tx' hy.wf st' hs' idx' ht hy.idx nb')
        (tmp_ins_pos tx st idx ht hx.idx) (tmp_ins_pos tx' st' idx' ht hy.idx) (tmp_nowit tx st idx ht) (tmp_nowit tx' st' idx' ht) h2
      have this : tmpOf tx st idx ht = tmpOf tx' st' idx' ht := this
      rw [this]
    · intro h
      have h1 := Option.some.inj (Except.ok.inj h)
      rw [h1]
  · simp
  · simp
  · simp

/-- C06.committed_all: with SIGHASH_ALL (no NONE/SINGLE/ANYONECANPAY bit pattern) the projection keeps the version, the
lock time, every outpoint and sequence, every output, and the (stripped) script code at the signed position; the
scriptSigs and witnesses of all inputs are dropped -/
theorem C06_committed_all (tx : Tx) (stripped : Bytes) (idx ht : Nat)
    (h1 : fHashNone ht = false) (h2 : fHashSingle ht = false) (h3 : fAnyoneCanPay ht = false) :
    tmpOf tx stripped idx ht =
      ⟨tx.version, tx.ins.mapIdx (fun i t => ⟨t.prevHash, t.prevIndex, if i = idx then stripped else [], t.sequence, []⟩),
       tx.outs, tx.lockTime⟩ := by
  simp [tmpOf, insOf, ins1, ins0, outsOf, zFlag, h1, h2, h3, txInForIdx]

/-- C06.none_frees_outputs: under SIGHASH_NONE the projection does not depend on the outputs at all -/
theorem C06_none_frees_outputs (tx : Tx) (outs' : List TxOut) (stripped : Bytes) (idx ht : Nat) (h : fHashNone ht = true) :
    tmpOf { tx with outs := outs' } stripped idx ht = tmpOf tx stripped idx ht := by
  simp [tmpOf, insOf, ins1, ins0, outsOf, h]

/-- C06.unlocking_data_free: no hash type commits to any input's scriptSig or witness -/
theorem C06_unlocking_data_free (tx : Tx) (f : TxIn → Bytes) (g : TxIn → List Bytes) (stripped : Bytes) (idx ht : Nat) :
    tmpOf { tx with ins := tx.ins.map (fun t => { t with script := f t, witness := g t }) } stripped idx ht =
      tmpOf tx stripped idx ht := by
  have : List.mapIdx (fun i t => txInForIdx i idx t stripped) (tx.ins.map (fun t => { t with script := f t, witness := g t })) =
      List.mapIdx (fun i t => txInForIdx i idx t stripped) tx.ins := by
    apply List.ext_getElem?
    intro i
    simp [List.getElem?_mapIdx, txInForIdx]
    cases tx.ins[i]? <;> rfl
  simp only [tmpOf, insOf, ins1, ins0, outsOf, this]

/-- C06.acp_frees_other_inputs: under ANYONECANPAY the projection keeps a single input, the signed one -/
theorem C06_acp_single_input (tx : Tx) (stripped : Bytes) (idx ht : Nat) (h : fAnyoneCanPay ht = true)
    (hidx : idx < tx.ins.length) :
    (tmpOf tx stripped idx ht).ins =
      [⟨tx.ins[idx].prevHash, tx.ins[idx].prevIndex, stripped, tx.ins[idx].sequence, []⟩] := by
  have hl := ins1_length tx stripped idx ht
  have hlt : idx < (ins1 tx stripped idx ht).length := by omega
  show insOf tx stripped idx ht = _
  unfold insOf
  simp only [h, if_true, List.getElem?_eq_getElem hlt, Option.toList]
  congr 1
  unfold ins1 zeroOtherSequences ins0
  split <;> simp [txInForIdx]

/-! ## what a BIP143 / fork-id signature commits to -/

theorem sha256_len (b : Bytes) : (Pycoin.Hash.sha256 b).length = 32 := by
  simp [Pycoin.Hash.sha256, Pycoin.Hash.u32be]

theorem sha_len (single : Bool) (b : Bytes) : (sha single b).length = 32 := by
  cases single <;> simp [sha, Pycoin.Hash.dsha256, sha256_len]

/-- C06.committed_iff (BIP143, and with `ht | forkid·256` the Bitcoin Cash / Bitcoin Gold variants): two messages are
equal **iff** their ten items are — version, hashPrevouts, hashSequence, the outpoint, the script code, the spent amount,
the sequence, hashOutputs, lock time, hash-type word (`committed143`).  The three part hashes stand for the outpoints,
sequences and outputs they digest (or are zero when the hash type leaves those free); going from equal part hashes to
equal lists is collision resistance (`C06_tamper_fails_partial`). -/
theorem C06_committed_iff_bip143 (single : Bool)
    (tx tx' : Tx) (hwf : tx.WF) (hwf' : tx'.WF) (idx idx' : Nat) (hidx : idx < tx.ins.length) (hidx' : idx' < tx'.ins.length)
    (code code' : Bytes) (hc : LenOk code) (hc' : LenOk code') (amt amt' : Nat) (ha : amt < 2 ^ 64) (ha' : amt' < 2 ^ 64)
    (ht ht' : Nat) (hht : ht < 2 ^ 32) (hht' : ht' < 2 ^ 32) :
    bip143Preimage (sha single) tx idx code amt ht = bip143Preimage (sha single) tx' idx' code' amt' ht' ↔
      committed143 (sha single) tx idx code amt ht = committed143 (sha single) tx' idx' code' amt' ht' :=
  bip143_items_iff (sha single) (sha_len single) tx tx' hwf hwf' idx idx' hidx hidx' code code' hc hc' amt amt' ha ha' ht ht' hht hht'

/-- C06.amount_committed: for witness and fork-id inputs the spent amount is one of the items: changing it alone
changes the message, for every hash type -/
theorem C06_amount_committed (single : Bool) (tx : Tx) (hwf : tx.WF) (idx : Nat) (hidx : idx < tx.ins.length)
    (code : Bytes) (hc : LenOk code) (amt amt' : Nat) (ha : amt < 2 ^ 64) (ha' : amt' < 2 ^ 64) (hne : amt ≠ amt')
    (ht : Nat) (hht : ht < 2 ^ 32) :
    bip143Preimage (sha single) tx idx code amt ht ≠ bip143Preimage (sha single) tx idx code amt' ht := by
  intro h
  have := (C06_committed_iff_bip143 single tx tx hwf hwf idx idx hidx hidx code code hc hc amt amt' ha ha' ht ht hht hht).mp h
  unfold committed143 at this
  rw [List.getElem?_eq_getElem hidx] at this
  injection this with this
  injection this with _ _ _ _ _ _ h7
  exact hne h7

/-- C06.bip143_none_frees_outputs: under SIGHASH_NONE hashOutputs is zero whatever the outputs are -/
theorem C06_bip143_none_frees_outputs (H : Bytes → Bytes) (tx : Tx) (outs' : List TxOut) (idx : Nat) (code : Bytes)
    (amt ht : Nat) (h : fHashNone ht = true) :
    committed143 H { tx with outs := outs' } idx code amt ht = committed143 H tx idx code amt ht := by
  have hs : fHashSingle ht = false := flags_excl ht h
  simp [committed143, Spec.Sighash.hashOutputs, Spec.Sighash.hashPrevouts, Spec.Sighash.hashSequence, h, hs]

/-! ## the committed field set, hash type by hash type -/

/-- C06.committed_fields_legacy: for **every** hash-type word (all 256 bytes, any upper bits), the same input position
of two transactions in scope and any two script codes, the legacy preimages are equal **iff** the listed fields are:
version, lock time, the script code with its OP_CODESEPARATORs removed, the outpoints and sequence numbers of the kept
inputs — all of them, the sequence numbers of the other inputs read as zero under NONE and SINGLE; under ANYONECANPAY
the signed input alone — and the kept outputs — all; none under NONE; under SINGLE the output at the input's position
(the null outputs before it carry only that position).  With SIGHASH_SINGLE and no output at the input's position
nothing at all is committed (`C06_single_bug_commits_nothing`). -/
theorem C06_committed_fields_legacy (c : Coin) (tx tx' : Tx) (idx : Nat) (script script' : Bytes)
    (hx : InScope tx idx script) (hy : InScope tx' idx script') (ht : Nat) (hht : ht < 2 ^ 32)
    (hb : isBug tx idx ht = false) (hb' : isBug tx' idx ht = false) :
    Sighash.legacyPreimage c tx script idx ht = Sighash.legacyPreimage c tx' script' idx ht ↔
      legacyFields tx (strippedBody script ++ instrTail script) idx ht =
      legacyFields tx' (strippedBody script' ++ instrTail script') idx ht := by
  rw [C06_committed_iff_legacy c tx tx' idx idx script script' hx hy ht hht,
    committedLegacy_eq tx idx hx.idx script _ (strip_serializeScriptCode_all script).1 ht,
    committedLegacy_eq tx' idx hy.idx script' _ (strip_serializeScriptCode_all script').1 ht, hb, hb']
  simp only [Bool.false_eq_true, if_false, Except.ok.injEq, Option.some.injEq]
  exact tmpOf_iff_fields tx tx' _ _ idx ht hx.idx hy.idx

/-- C06.single_bug_commits_nothing: with base type SIGHASH_SINGLE and no output at the input's position, the value
`_signature_hash` returns (Bitcoin, Litecoin, Groestlcoin) is the constant `1 << 248` whatever the transaction, the
script code and the other hash-type bits are: a signature over it is valid for **any** other transaction in the same
situation — no field is committed, and pycoin reproduces consensus here -/
theorem C06_single_bug_commits_nothing (c : Coin) (hc : requiresForkId c = false) (tx tx' : Tx) (us us' : List (Option TxOut))
    (script script' : Bytes) (idx idx' ht ht' : Nat) (hs : fHashSingle ht = true) (hs' : fHashSingle ht' = true)
    (hidx : idx ≥ tx.outs.length) (hidx' : idx' ≥ tx'.outs.length) :
    signatureHash c tx us script idx ht = signatureHash c tx' us' script' idx' ht' := by
  rw [(C04_single_out_of_range c hc tx us script idx ht hs hidx).1, (C04_single_out_of_range c hc tx' us' script' idx' ht' hs' hidx').1]

/-- C06.committed_fields_bip143 (⇐, unconditional): equal listed fields give equal BIP143 messages — for every hash type;
with `ht | forkid·256` this is the Bitcoin Cash / Bitcoin Gold digest.  The fields (`fields143`): version, lock time, the
input's outpoint, sequence number, script code and **spent amount**, the hash-type word; every outpoint unless
ANYONECANPAY; every sequence number unless ANYONECANPAY / NONE / SINGLE; every output, under SINGLE the output at the
input's position (nothing when there is none — the item is then 32 zero bytes, no constant as in the legacy digest),
under NONE nothing. -/
theorem C06_fields_imp_preimage_bip143 (H : Bytes → Bytes) (tx tx' : Tx) (idx idx' : Nat) (code code' : Bytes)
    (amt amt' ht ht' : Nat) (h : fields143 tx idx code amt ht = fields143 tx' idx' code' amt' ht') :
    committed143 H tx idx code amt ht = committed143 H tx' idx' code' amt' ht' := by
  rw [committed143_of_fields, committed143_of_fields, h]

/-- C06.committed_fields_bip143 (⇔; the extra hypotheses are about the digest function, not the code: `hP`, `hS`, `hO` —
the part hash does not collide on the two outpoint lists / sequence lists / committed output lists; `hZ` — the digest of
an output is not 32 zero bytes, needed only when under SIGHASH_SINGLE one transaction has the output and the other has
not): the BIP143 messages are equal iff the listed fields are -/
theorem C06_committed_fields_bip143 (single : Bool)
    (tx tx' : Tx) (hwf : tx.WF) (hwf' : tx'.WF) (idx idx' : Nat) (hidx : idx < tx.ins.length) (hidx' : idx' < tx'.ins.length)
    (code code' : Bytes) (hc : LenOk code) (hc' : LenOk code') (amt amt' : Nat) (ha : amt < 2 ^ 64) (ha' : amt' < 2 ^ 64)
    (ht ht' : Nat) (hht : ht < 2 ^ 32) (hht' : ht' < 2 ^ 32)
    (hP : ∀ a b, a = (tx.ins.map outpoint).flatten → b = (tx'.ins.map outpoint).flatten → sha single a = sha single b → a = b)
    (hS : ∀ a b, a = (tx.ins.map fun t => le 4 t.sequence.toNat).flatten →
      b = (tx'.ins.map fun t => le 4 t.sequence.toNat).flatten → sha single a = sha single b → a = b)
    (hO : ∀ l l', outsCommitted tx idx ht = some l → outsCommitted tx' idx' ht' = some l' →
      sha single (l.map txout).flatten = sha single (l'.map txout).flatten → (l.map txout).flatten = (l'.map txout).flatten)
    (hZ : ∀ l, (outsCommitted tx idx ht = some l ∧ outsCommitted tx' idx' ht' = none) ∨
        (outsCommitted tx' idx' ht' = some l ∧ outsCommitted tx idx ht = none) →
        sha single (l.map txout).flatten ≠ Spec.Sighash.zero32) :
    bip143Preimage (sha single) tx idx code amt ht = bip143Preimage (sha single) tx' idx' code' amt' ht' ↔
      fields143 tx idx code amt ht = fields143 tx' idx' code' amt' ht' := by
  rw [C06_committed_iff_bip143 single tx tx' hwf hwf' idx idx' hidx hidx' code code' hc hc' amt amt' ha ha' ht ht' hht hht']
  exact ⟨fields_of_items (sha single) tx tx' hwf hwf' idx idx' code code' amt amt' ht ht' hP hS hO hZ,
    C06_fields_imp_preimage_bip143 (sha single) tx tx' idx idx' code code' amt amt' ht ht'⟩

/-- the flags read the low byte of the hash-type word only: folding a fork id into bits 8… (Bitcoin Gold: 79) changes
none of them, so `fields143 … (ht | forkid·256)` lists the same fields as `fields143 … ht` plus the fork id in the word -/
theorem C06_forkid_flags (ht f : Nat) :
    fAnyoneCanPay (ht ||| (f <<< 8)) = fAnyoneCanPay ht ∧ fHashSingle (ht ||| (f <<< 8)) = fHashSingle ht ∧
    fHashNone (ht ||| (f <<< 8)) = fHashNone ht := by
  have h255 : (ht ||| (f <<< 8)) &&& 0xff = ht &&& 0xff := by
    rw [Nat.and_or_distrib_right]
    have : (f <<< 8) &&& 0xff = 0 := by
      have := Nat.and_two_pow_sub_one_eq_mod (f <<< 8) 8
      simp only [show (2:Nat) ^ 8 - 1 = 0xff from rfl] at this
      rw [this, Nat.shiftLeft_eq]
      omega
    rw [this, Nat.or_zero]
  have key : ∀ m, 0xff &&& m = m → (ht ||| (f <<< 8)) &&& m = ht &&& m := by
    intro m hm
    rw [← hm, ← Nat.and_assoc, ← Nat.and_assoc, h255]
  unfold fAnyoneCanPay fHashSingle fHashNone SIGHASH_ANYONECANPAY
  rw [key 0x80 (by decide), key 0x1f (by decide)]
  exact ⟨rfl, rfl, rfl⟩

/-- an edit of an input that leaves its outpoint and sequence number alone (it may replace the scriptSig and the witness) -/
def UnlockEdit (e : TxIn → TxIn) : Prop :=
  ∀ t, (e t).prevHash = t.prevHash ∧ (e t).prevIndex = t.prevIndex ∧ (e t).sequence = t.sequence

theorem isCoinbase_map (tx : Tx) (e : TxIn → TxIn) (he : UnlockEdit e) :
    ({ tx with ins := tx.ins.map e } : Tx).isCoinbase = tx.isCoinbase := by
  unfold Tx.isCoinbase
  match h : tx.ins with
  | [] => simp
  | [t] => simp [TxIn.isCoinbase, (he t).1, (he t).2.1]
  | t :: u :: r => simp

theorem legacyTmpTx_map (tx : Tx) (e : TxIn → TxIn) (he : UnlockEdit e) (script : Bytes) (idx ht : Nat) :
    legacyTmpTx { tx with ins := tx.ins.map e } script idx ht = legacyTmpTx tx script idx ht := by
  have h : (tx.ins.map e).mapIdx (fun i t => txInForIdx i idx t script) = tx.ins.mapIdx (fun i t => txInForIdx i idx t script) := by
    apply List.ext_getElem?
    intro i
    simp only [List.getElem?_mapIdx, List.getElem?_map]
    cases tx.ins[i]? with
    | none => rfl
    | some t => simp [txInForIdx, (he t).1, (he t).2.1, (he t).2.2]
  unfold legacyTmpTx
  simp only [h]
  rfl

theorem concatM_map {α : Type} (f : α → Except Sighash.Err Bytes) (e : α → α) (h : ∀ a, f (e a) = f a) :
    ∀ l : List α, concatM f (l.map e) = concatM f l
  | [] => rfl
  | a :: as => by simp only [List.map_cons, concatM, h a, concatM_map f e h as]

theorem segwitPreimage_map (c : Coin) (tx : Tx) (us : List (Option TxOut)) (e : TxIn → TxIn) (he : UnlockEdit e)
    (script : Bytes) (idx ht : Nat) (hsame : ∀ t, tx.ins[idx]? = some t → e t = t) :
    segwitPreimage c { tx with ins := tx.ins.map e } us script idx ht = segwitPreimage c tx us script idx ht := by
  have h1 : Sighash.hashPrevouts c { tx with ins := tx.ins.map e } ht = Sighash.hashPrevouts c tx ht := by
    unfold Sighash.hashPrevouts
    simp only
    rw [concatM_map _ e (fun t => by simp only [(he t).1, (he t).2.1])]
  have h2 : Sighash.hashSequence c { tx with ins := tx.ins.map e } ht = Sighash.hashSequence c tx ht := by
    unfold Sighash.hashSequence
    simp only
    rw [concatM_map _ e (fun t => by simp only [(he t).2.2])]
  have h3 : Sighash.hashOutputs c { tx with ins := tx.ins.map e } ht idx = Sighash.hashOutputs c tx ht idx := rfl
  have h4 : (tx.ins.map e)[idx]? = tx.ins[idx]? := by
    rw [List.getElem?_map]
    cases h : tx.ins[idx]? with
    | none => rfl
    | some t => simp [hsame t h]
  unfold segwitPreimage
  simp only [h1, h2, h3, h4]
/-! ## the frame direction: a change outside the commitment leaves the verdict as it was -/

/-- C06.oracle_reads_preimage_only: what a closure of `check_solution` answers depends on the transaction and the
unspents **only through the committed bytes** (`preimageOf`: the legacy message, or the BIP143 message with the fork id
folded in) -/
theorem C06_oracle_reads_preimage_only (c : Coin) (s : State) (idx : Nat) (q : Query) :
    oracle c s idx q =
      match closureCode c q with
      | .error e => .error e
      | .ok code => digestOf c q.witness (preimageOf c s q.witness code idx q.ht) :=
  oracle_reads_preimage_only c s idx q

/-- C06.uncommitted_change_same_verdict: if two states give input `idx` the same context, have its spent output known
in both, and the bytes committed to by every signature the interpreter may check (`Q`) are the same — which, by
`C06_committed_fields_legacy` / `C06_committed_fields_bip143`, is the case exactly when the change is confined to fields
outside the commitment of those hash types — then `is_solution_ok(idx)` returns the same verdict in both -/
theorem C06_uncommitted_change_same_verdict (V : VM) (c : Coin) (Q : Query → Prop)
    (hV : ∀ ctx f g, (∀ q, Q q → f q = g q) → V ctx f = V ctx g)
    (s s' : State) (idx : Nat)
    (hctx : txContextForIdx s idx = txContextForIdx s' idx)
    (hknown : (s.us[idx]?.join).isSome = (s'.us[idx]?.join).isSome)
    (hpre : ∀ q, Q q → ∀ code, closureCode c q = .ok code →
      preimageOf c s q.witness code idx q.ht = preimageOf c s' q.witness code idx q.ht) :
    isSolutionOk V c s idx = isSolutionOk V c s' idx := by
  apply C06_verdict_frame V c Q hV s s' idx hctx hknown
  intro q hq
  rw [C06_oracle_reads_preimage_only, C06_oracle_reads_preimage_only]
  cases hc : closureCode c q with
  | error e => rfl
  | ok code => simp only [hpre q hq code hc]


/-- C06.other_unlocking_data_free: replacing the scriptSig and witness of inputs other than `idx` (any edit that keeps
outpoints and sequence numbers, and is the identity on input `idx`) never changes the verdict for input `idx` — for every
coin class, every hash type of its signatures, and every interpreter that reads the transaction through its context and
closures only -/
theorem C06_other_unlocking_data_free (V : VM) (c : Coin)
    (hV : ∀ ctx f g, (∀ q, f q = g q) → V ctx f = V ctx g)
    (s : State) (idx : Nat) (e : TxIn → TxIn) (he : UnlockEdit e) (hsame : ∀ t, s.tx.ins[idx]? = some t → e t = t) :
    isSolutionOk V c ⟨{ s.tx with ins := s.tx.ins.map e }, s.us⟩ idx = isSolutionOk V c s idx := by
  have h4 : (s.tx.ins.map e)[idx]? = s.tx.ins[idx]? := by
    rw [List.getElem?_map]
    cases h : s.tx.ins[idx]? with
    | none => rfl
    | some t => simp [hsame t h]
  apply C06_uncommitted_change_same_verdict V c (fun _ => True) (fun ctx f g h => hV ctx f g (fun q => h q trivial))
  · unfold txContextForIdx missingUnspent
    simp only [isCoinbase_map s.tx e he, h4]
  · rfl
  · intro q _ code _
    unfold preimageOf
    simp only [segwitPreimage_map c s.tx s.us e he code idx _ hsame]
    unfold Sighash.legacyPreimage
    simp only [legacyTmpTx_map s.tx e he]

/-- C06.none_outputs_free (legacy classes): when every signature the interpreter may check for input `idx` has base type
SIGHASH_NONE, replacing the whole output list leaves the verdict as it was -/
theorem C06_none_outputs_free (V : VM) (c : Coin) (Q : Query → Prop)
    (hV : ∀ ctx f g, (∀ q, Q q → f q = g q) → V ctx f = V ctx g)
    (hQ : ∀ q, Q q → fHashNone q.ht = true)
    (s : State) (idx : Nat) (outs' : List TxOut) (hcb : ({ s.tx with outs := outs' } : Tx).isCoinbase = s.tx.isCoinbase) :
    isSolutionOk V c ⟨{ s.tx with outs := outs' }, s.us⟩ idx = isSolutionOk V c s idx := by
  apply C06_uncommitted_change_same_verdict V c Q hV
  · unfold txContextForIdx missingUnspent
    simp only [hcb]
  · rfl
  · intro q hq code _
    have hn := hQ q hq
    have hs : fHashSingle q.ht = false := flags_excl q.ht hn
    have hm : q.ht &&& 0x1f = 2 := by simpa [fHashNone, SIGHASH_NONE] using hn
    have hf : ∀ f, fHashNone (q.ht ||| (f <<< 8)) = true := fun f => by rw [(C06_forkid_flags q.ht f).2.2]; exact hn
    have hm' : ∀ f, (q.ht ||| (f <<< 8)) &&& 0x1f = 2 := fun f => by simpa [fHashNone, SIGHASH_NONE] using hf f
    unfold preimageOf
    have e1 : ∀ ht, ht &&& 0x1f = 2 → ∀ code, segwitPreimage c { s.tx with outs := outs' } s.us code idx ht = segwitPreimage c s.tx s.us code idx ht := by
      intro ht hht code
      have ho : Sighash.hashOutputs c { s.tx with outs := outs' } ht idx = Sighash.hashOutputs c s.tx ht idx := by
        unfold Sighash.hashOutputs
        simp [parts_eq, hht, c_single, c_none]
      unfold segwitPreimage
      simp only [ho]
      rfl
    have e2 : ∀ code, Sighash.legacyPreimage c { s.tx with outs := outs' } code idx q.ht = Sighash.legacyPreimage c s.tx code idx q.ht := by
      intro code
      unfold Sighash.legacyPreimage legacyTmpTx blank
      simp only [c_mask, c_none, hm, if_true]
    simp only [e1 _ (hm' _), e2]

/-! ## histories on one object -/

/-- a step of a history on one `Tx` object: an observer, or any in-place change of the fields or the unspents -/
inductive Step
  | validate (idx : Nat)                 -- `tx.is_solution_ok(idx)`
  | count                                -- `tx.bad_solution_count()`
  | mutate (f : State → State)           -- any assignment to the transaction's fields / `set_unspents` / `unspents_from_db`

inductive Answer
  | verdict (r : Except String Bool)
  | count (r : Except String Nat)

/-- what a *fresh* object holding the fields `s` answers to an observer -/
def fresh (V : VM) (c : Coin) (s : State) : Step → Option Answer
  | .validate idx => some (.verdict (isSolutionOk V c s idx))
  | .count => some (.count (badSolutionCount V c s))
  | .mutate _ => none

/-- the object after a step: observers keep nothing (`check_solution` builds a new `SolutionChecker` on every call; the
only cache, `sighash_cache`, is local to one `checksigs` execution — `C06_cache_transparent`) -/
def after (s : State) : Step → State
  | .mutate f => f s
  | _ => s

/-- run a history on one object: the answers of its observers, in order -/
def runHistory (V : VM) (c : Coin) : State → List Step → List Answer
  | _, [] => []
  | s, st :: rest => (fresh V c s st).toList ++ runHistory V c (after s st) rest

/-- the fields the object holds before step `k` of the history -/
def stateAt (s : State) : List Step → Nat → State
  | [], _ => s
  | _ :: _, 0 => s
  | st :: rest, k + 1 => stateAt (after s st) rest k

/-- C06.history_fresh: in any history of validations and in-place changes on one object, every verdict is the one a fresh
object built from the fields at that moment gives; in particular repeating a validation, with or without validations of
other inputs in between, repeats the verdict -/
theorem C06_history_fresh (V : VM) (c : Coin) : ∀ (steps : List Step) (s : State),
    runHistory V c s steps = (List.range steps.length).flatMap (fun k =>
      match steps[k]? with
      | some st => (fresh V c (stateAt s steps k) st).toList
      | none => [])
  | [], s => rfl
  | st :: rest, s => by
    rw [runHistory, C06_history_fresh V c rest (after s st)]
    simp only [List.length_cons, List.range_succ_eq_map, List.flatMap_cons, List.getElem?_cons_zero, stateAt,
      List.flatMap_map, List.getElem?_cons_succ]

/-- C06.repeat_same_verdict: observers do not change the object, so asking again gives the same answer -/
theorem C06_repeat_same_verdict (V : VM) (c : Coin) (s : State) (idx : Nat) (between : List Step)
    (hobs : ∀ st ∈ between, ∀ f, st ≠ .mutate f) :
    (runHistory V c s ([.validate idx] ++ between ++ [.validate idx])).head? =
    (runHistory V c s ([.validate idx] ++ between ++ [.validate idx])).getLast? := by
  have hstate : ∀ (l : List Step) (s : State), (∀ st ∈ l, ∀ f, st ≠ .mutate f) →
      runHistory V c s (l ++ [.validate idx]) = runHistory V c s l ++ [.verdict (isSolutionOk V c s idx)] := by
    intro l
    induction l with
    | nil => intro s _; simp [runHistory, fresh]
    | cons a as ih =>
      intro s h
      have ha : after s a = s := by
        cases a with
        | mutate f => exact absurd rfl (h _ (by simp) f)
        | validate i => rfl
        | count => rfl
      simp only [List.cons_append, runHistory, ha, ih s (fun st hst => h st (by simp [hst])), List.append_assoc]
  rw [List.append_assoc, List.cons_append, List.nil_append, runHistory]
  simp only [fresh, Option.toList, after, List.cons_append, List.nil_append, List.head?_cons]
  rw [hstate between s hobs, ← List.cons_append, List.getLast?_append]
  rfl

/-! ## the serialiser of the committed bytes is injective -/

/-- C06.preimage_injective: the legacy message — the wire form of a (blanked) transaction, then the hash type — determines
the transaction and the hash type: no two in-range transactions without witness data and with at least one input, and no
two hash-type words, share a message.  (For BIP143 the ten items are recovered by `C06_committed_iff_bip143`.) -/
theorem C06_preimage_injective (a b : Tx) (ha : a.WF) (hb : b.WF) (ha1 : 1 ≤ a.ins.length) (hb1 : 1 ≤ b.ins.length)
    (hwa : Spec.Wire.hasWitness a = false) (hwb : Spec.Wire.hasWitness b = false) (ht ht' : Nat)
    (hht : ht < 2 ^ 32) (hht' : ht' < 2 ^ 32)
    (h : Spec.Wire.legacy a ++ le 4 ht = Spec.Wire.legacy b ++ le 4 ht') : a = b ∧ ht = ht' := by
  obtain ⟨h1, h2⟩ := List.append_inj' h (by simp [le_length])
  exact ⟨legacy_injective a b ha hb ha1 hb1 hwa hwb h1, le_inj (k := 4) (by omega) (by omega) h2⟩

/-! ## tampering -/

/-- C06.tamper_fails (partial: the two extra hypotheses are cryptographic assumptions, not facts about the code —
`hCR`: the digest function has no collision on the two messages; `hUF`: the signature, valid for the digest it was made
over, is not valid for any other digest under the same key).  If the committed bytes differ, verification of the old
signature against the new message fails. -/
theorem C06_tamper_fails_partial (H : Bytes → Bytes) (verify : Bytes → Bool) (p p' : Bytes)
    (hne : p ≠ p')
    (hCR : H p = H p' → p = p')
    (hUF : ∀ d', d' ≠ H p → verify d' = false) :
    verify (H p') = false :=
  hUF (H p') (fun h => hne (hCR h.symm))

/-! ## tampering, through the interpreter of the code

`stdVM c` (`Model/ValidateVM.lean`) is `SolutionChecker(tx).check_solution(tx_context)` of class `c`: the model of pycoin's
script VM (C03) run with the class's `DEFAULT_FLAGS`, its signature check being `checksig` over the closures of
`check_solution` — key parse, lax DER parse, the digest of the bytes the closure commits to, ECDSA verification.  The theorems
below go through `is_solution_ok` of that interpreter.  Everything structural is proved: which bytes are digested
(`C06_oracle_reads_preimage_only`), that the digest is what ECDSA-verify gets for the key in the script (`chkOf_eq`), that a
refused check makes `CHECKSIG` push false — NULLFAIL is not among the default flags — and the script fail, that the multisig
loop fails when one signature verifies for no key, that the P2SH / witness wrappers compare hashes before anything else
(`Proofs/TamperEval.lean`, `Proofs/SignReject.lean`, `C03M_verify_eq`).  Assumed, and named: `CollisionFree` of the digest
function on the two committed byte strings, `NoForgery` of the signature for the two digests.  Not a hypothesis but a fact
the statements need: the tampered transaction is not of the coinbase shape (then `tx_context_for_idx` hands the interpreter an
empty puzzle script — known finding `coinbase-marker-input-valid`), and the closure answers in the tampered state (fields in
wire range; otherwise `is_solution_ok` raises, which is not a `True` either). -/

open Pycoin.Sign in
/-- C06.valid_imp_verifies (P2PKH): `is_solution_ok` returns `True` for `<sig> <key>` against `DUP HASH160 <h> EQUALVERIFY
CHECKSIG` only if the key hashes to `h` and the signature check — ECDSA over the digest of the bytes the closure of the
*current* state commits to (`chkOf_eq`) — accepts the signature for that key -/
theorem C06_valid_imp_verifies_p2pkh (c : Coin) (st : State) (idx : Nat) (sig key h : Bytes)
    (hi : InputIs st idx (pushesOf [sig, key]) [] (p2pkhScript h)) (hlen : h.length = 20)
    (hs2 : 2 ≤ sig.length) (hs : sig.length ≤ 75) (hk2 : 2 ≤ key.length) (hk : key.length ≤ 75)
    (hv : isSolutionOk (stdVM c) c st idx = .ok true) :
    Hash.hash160 key = h ∧ chkOf (oracle c st idx) sig key (baseCode (p2pkhScript h) [sig]) false = true := by
  refine ⟨?_, ?_⟩
  · by_contra hne
    exact p2pkh_not_valid c st idx sig key h hi hlen hs2 hs hk2 hk (Or.inl hne) hv
  · by_contra hne
    exact p2pkh_not_valid c st idx sig key h hi hlen hs2 hs hk2 hk (Or.inr (by simpa using hne)) hv

open Pycoin.Sign in
/-- C06.tamper_fails (P2PKH; every class; every hash type — the byte `ht` the signature ends in).  Input `idx` carries
`<sig> <key>` and spends `DUP HASH160 <h> EQUALVERIFY CHECKSIG` in both states; it validated in `s`; the bytes its signature
commits to differ in `s'` (`Tampered`: by `C06_tampered_of_fields_legacy` / `_bip143`, a committed field differs).  Then it does
not validate in `s'` — under exactly the two cryptographic hypotheses `hCR` (the digest function does not collide on the
two committed byte strings) and `hUF` (the signature, valid for the digest of `p` under the key, is not valid for the digest
of `p'`). -/
theorem C06_tamper_fails_p2pkh (c : Coin) (s s' : State) (idx : Nat) (sig key h : Bytes) (ht : UInt8) (p p' : Bytes)
    (hi : InputIs s idx (pushesOf [sig, key]) [] (p2pkhScript h))
    (hi' : InputIs s' idx (pushesOf [sig, key]) [] (p2pkhScript h)) (hlen : h.length = 20)
    (hs2 : 2 ≤ sig.length) (hs : sig.length ≤ 75) (hk2 : 2 ≤ key.length) (hk : key.length ≤ 75)
    (hl : sig.getLast? = some ht)
    (hvalid : isSolutionOk (stdVM c) c s idx = .ok true)
    (hT : Tampered c s s' false (baseCode (p2pkhScript h) [sig]) (baseCode (p2pkhScript h) [sig]) idx ht.toNat p p')
    (hCR : CollisionFree (msgHash c false) p p')
    (hUF : NoForgery [key] sig (msgDigest c false p) (msgDigest c false p')) :
    isSolutionOk (stdVM c) c s' idx ≠ .ok true := by
  have hgood := (C06_valid_imp_verifies_p2pkh c s idx sig key h hi hlen hs2 hs hk2 hk hvalid).2
  have hbad := tamper_glue c s s' idx false _ _ sig [key] ht hl p p' hT hCR hUF ⟨key, by simp, hgood⟩ key (by simp)
  exact p2pkh_not_valid c s' idx sig key h hi' hlen hs2 hs hk2 hk (Or.inr hbad)

open Pycoin.Sign in
/-- C06.valid_imp_verifies (P2PK) -/
theorem C06_valid_imp_verifies_p2pk (c : Coin) (st : State) (idx : Nat) (sig key : Bytes)
    (hi : InputIs st idx (pushesOf [sig]) [] (p2pkScript key))
    (hs2 : 2 ≤ sig.length) (hs : sig.length ≤ 75) (hk33 : 33 ≤ key.length) (hk : key.length ≤ 75)
    (hv : isSolutionOk (stdVM c) c st idx = .ok true) :
    chkOf (oracle c st idx) sig key (baseCode (p2pkScript key) [sig]) false = true := by
  by_contra hne
  exact p2pk_not_valid c st idx sig key hi hs2 hs hk33 hk (by simpa using hne) hv

open Pycoin.Sign in
/-- C06.tamper_fails (P2PK): `<sig>` against `<key> CHECKSIG` -/
theorem C06_tamper_fails_p2pk (c : Coin) (s s' : State) (idx : Nat) (sig key : Bytes) (ht : UInt8) (p p' : Bytes)
    (hi : InputIs s idx (pushesOf [sig]) [] (p2pkScript key))
    (hi' : InputIs s' idx (pushesOf [sig]) [] (p2pkScript key))
    (hs2 : 2 ≤ sig.length) (hs : sig.length ≤ 75) (hk33 : 33 ≤ key.length) (hk : key.length ≤ 75)
    (hl : sig.getLast? = some ht)
    (hvalid : isSolutionOk (stdVM c) c s idx = .ok true)
    (hT : Tampered c s s' false (baseCode (p2pkScript key) [sig]) (baseCode (p2pkScript key) [sig]) idx ht.toNat p p')
    (hCR : CollisionFree (msgHash c false) p p')
    (hUF : NoForgery [key] sig (msgDigest c false p) (msgDigest c false p')) :
    isSolutionOk (stdVM c) c s' idx ≠ .ok true := by
  have hgood := C06_valid_imp_verifies_p2pk c s idx sig key hi hs2 hs hk33 hk hvalid
  have hbad := tamper_glue c s s' idx false _ _ sig [key] ht hl p p' hT hCR hUF ⟨key, by simp, hgood⟩ key (by simp)
  exact p2pk_not_valid c s' idx sig key hi' hs2 hs hk33 hk hbad

open Pycoin.Sign in
/-- C06.valid_imp_verifies (P2WPKH): the script code is the implied `DUP HASH160 <h> EQUALVERIFY CHECKSIG`, the closure the
witness one (BIP143) -/
theorem C06_valid_imp_verifies_p2wpkh (c : Coin) (st : State) (idx : Nat) (sig key h : Bytes)
    (hi : InputIs st idx [] [sig, key] (witnessV0Script h)) (hlen : h.length = 20)
    (hs : sig.length ≤ 520) (hk : key.length ≤ 520)
    (hv : isSolutionOk (stdVM c) c st idx = .ok true) :
    Hash.hash160 key = h ∧ chkOf (oracle c st idx) sig key (p2pkhScript h) true = true := by
  refine ⟨?_, ?_⟩
  · by_contra hne
    exact p2wpkh_not_valid c st idx sig key h hi hlen hs hk (Or.inl hne) hv
  · by_contra hne
    exact p2wpkh_not_valid c st idx sig key h hi hlen hs hk (Or.inr (by simpa using hne)) hv

open Pycoin.Sign in
/-- C06.tamper_fails (P2WPKH): empty scriptSig, witness `[sig, key]`, against `OP_0 <h>`; the committed bytes are the BIP143
message (with the spent amount) -/
theorem C06_tamper_fails_p2wpkh (c : Coin) (s s' : State) (idx : Nat) (sig key h : Bytes) (ht : UInt8) (p p' : Bytes)
    (hi : InputIs s idx [] [sig, key] (witnessV0Script h))
    (hi' : InputIs s' idx [] [sig, key] (witnessV0Script h)) (hlen : h.length = 20)
    (hs : sig.length ≤ 520) (hk : key.length ≤ 520)
    (hl : sig.getLast? = some ht)
    (hvalid : isSolutionOk (stdVM c) c s idx = .ok true)
    (hT : Tampered c s s' true (p2pkhScript h) (p2pkhScript h) idx ht.toNat p p')
    (hCR : CollisionFree (msgHash c true) p p')
    (hUF : NoForgery [key] sig (msgDigest c true p) (msgDigest c true p')) :
    isSolutionOk (stdVM c) c s' idx ≠ .ok true := by
  have hgood := (C06_valid_imp_verifies_p2wpkh c s idx sig key h hi hlen hs hk hvalid).2
  have hbad := tamper_glue c s s' idx true _ _ sig [key] ht hl p p' hT hCR hUF ⟨key, by simp, hgood⟩ key (by simp)
  exact p2wpkh_not_valid c s' idx sig key h hi' hlen hs hk (Or.inr hbad)

open Pycoin.Sign in
/-- C06.valid_imp_verifies (P2SH-P2WPKH) -/
theorem C06_valid_imp_verifies_p2sh_p2wpkh (c : Coin) (st : State) (idx : Nat) (sig key h hr : Bytes)
    (hi : InputIs st idx (pushesOf [witnessV0Script h]) [sig, key] (p2shScript hr)) (hlen : h.length = 20)
    (hrlen : hr.length = 20) (hs : sig.length ≤ 520) (hk : key.length ≤ 520)
    (hv : isSolutionOk (stdVM c) c st idx = .ok true) :
    Hash.hash160 (witnessV0Script h) = hr ∧ Hash.hash160 key = h ∧
      chkOf (oracle c st idx) sig key (p2pkhScript h) true = true := by
  refine ⟨?_, ?_, ?_⟩
  · by_contra hne
    exact p2sh_p2wpkh_not_valid c st idx sig key h hr hi hlen hrlen hs hk (Or.inl hne) hv
  · by_contra hne
    exact p2sh_p2wpkh_not_valid c st idx sig key h hr hi hlen hrlen hs hk (Or.inr (Or.inl hne)) hv
  · by_contra hne
    exact p2sh_p2wpkh_not_valid c st idx sig key h hr hi hlen hrlen hs hk (Or.inr (Or.inr (by simpa using hne))) hv

open Pycoin.Sign in
/-- C06.tamper_fails (P2SH-P2WPKH): scriptSig = the push of `OP_0 <h>`, witness `[sig, key]`, against `HASH160 <hr> EQUAL` -/
theorem C06_tamper_fails_p2sh_p2wpkh (c : Coin) (s s' : State) (idx : Nat) (sig key h hr : Bytes) (ht : UInt8) (p p' : Bytes)
    (hi : InputIs s idx (pushesOf [witnessV0Script h]) [sig, key] (p2shScript hr))
    (hi' : InputIs s' idx (pushesOf [witnessV0Script h]) [sig, key] (p2shScript hr)) (hlen : h.length = 20)
    (hrlen : hr.length = 20) (hs : sig.length ≤ 520) (hk : key.length ≤ 520)
    (hl : sig.getLast? = some ht)
    (hvalid : isSolutionOk (stdVM c) c s idx = .ok true)
    (hT : Tampered c s s' true (p2pkhScript h) (p2pkhScript h) idx ht.toNat p p')
    (hCR : CollisionFree (msgHash c true) p p')
    (hUF : NoForgery [key] sig (msgDigest c true p) (msgDigest c true p')) :
    isSolutionOk (stdVM c) c s' idx ≠ .ok true := by
  have hgood := (C06_valid_imp_verifies_p2sh_p2wpkh c s idx sig key h hr hi hlen hrlen hs hk hvalid).2.2
  have hbad := tamper_glue c s s' idx true _ _ sig [key] ht hl p p' hT hCR hUF ⟨key, by simp, hgood⟩ key (by simp)
  exact p2sh_p2wpkh_not_valid c s' idx sig key h hr hi' hlen hrlen hs hk (Or.inr (Or.inr hbad))

open Pycoin.Sign in
/-- C06.valid_imp_verifies (m-of-n multisig, bare / P2SH / P2WSH / P2SH-P2WSH): validation succeeds only if **every** signature
of the unlocking data is accepted by the signature check for one of the listed keys -/
theorem C06_valid_imp_verifies_multisig (c : Coin) (st : State) (idx : Nat) (w : Wrap) (m : Nat) (keys sigsTop : List Bytes)
    (hi : InputIs st idx (w.scriptSig (multisigScriptN m keys) ([] :: sigsTop.reverse))
      (w.wit (multisigScriptN m keys) ([] :: sigsTop.reverse)) (w.spk (multisigScriptN m keys)))
    (ok : w.Ok (multisigScriptN m keys) F0)
    (hm : sigsTop.length = m) (hm1 : 1 ≤ m) (hmn : m ≤ keys.length) (hn : keys.length ≤ 20)
    (hkeys : ∀ k ∈ keys, 2 ≤ k.length ∧ k.length ≤ 75) (hsigs : ∀ sg ∈ sigsTop, 2 ≤ sg.length ∧ sg.length ≤ 75)
    (hv : isSolutionOk (stdVM c) c st idx = .ok true) :
    ∀ sg ∈ sigsTop, ∃ k ∈ keys, chkOf (oracle c st idx) sg k (multisigCode w m keys sigsTop) w.witness = true := by
  intro sg hsg
  by_contra hne
  apply multisig_not_valid c st idx w m keys sigsTop hi ok hm hm1 hmn hn hkeys hsigs _ hv
  refine ⟨sg, hsg, fun k hk => ?_⟩
  cases hc : chkOf (oracle c st idx) sg k (multisigCode w m keys sigsTop) w.witness with
  | false => rfl
  | true => exact absurd ⟨k, hk, hc⟩ hne

open Pycoin.Sign in
/-- C06.tamper_fails (m-of-n multisig: bare, P2SH, P2WSH, P2SH-P2WSH; every `1 ≤ m ≤ n ≤ 20`).  The unlocking data carries the
signatures `sigsTop` (each with its own hash-type byte); the input validated in `s`; for **one** of the signatures, `sg` with
hash-type byte `ht`, the committed bytes differ in `s'`.  Then the input does not validate in `s'`: that signature verifies
for none of the keys (`hUF`, over the whole key list), and the matching loop of `CHECKMULTISIG` gives up. -/
theorem C06_tamper_fails_multisig (c : Coin) (s s' : State) (idx : Nat) (w : Wrap) (m : Nat) (keys sigsTop : List Bytes)
    (sg : Bytes) (ht : UInt8) (p p' : Bytes)
    (hi : InputIs s idx (w.scriptSig (multisigScriptN m keys) ([] :: sigsTop.reverse))
      (w.wit (multisigScriptN m keys) ([] :: sigsTop.reverse)) (w.spk (multisigScriptN m keys)))
    (hi' : InputIs s' idx (w.scriptSig (multisigScriptN m keys) ([] :: sigsTop.reverse))
      (w.wit (multisigScriptN m keys) ([] :: sigsTop.reverse)) (w.spk (multisigScriptN m keys)))
    (ok : w.Ok (multisigScriptN m keys) F0)
    (hm : sigsTop.length = m) (hm1 : 1 ≤ m) (hmn : m ≤ keys.length) (hn : keys.length ≤ 20)
    (hkeys : ∀ k ∈ keys, 2 ≤ k.length ∧ k.length ≤ 75) (hsigs : ∀ x ∈ sigsTop, 2 ≤ x.length ∧ x.length ≤ 75)
    (hsg : sg ∈ sigsTop) (hl : sg.getLast? = some ht)
    (hvalid : isSolutionOk (stdVM c) c s idx = .ok true)
    (hT : Tampered c s s' w.witness (multisigCode w m keys sigsTop) (multisigCode w m keys sigsTop) idx ht.toNat p p')
    (hCR : CollisionFree (msgHash c w.witness) p p')
    (hUF : NoForgery keys sg (msgDigest c w.witness p) (msgDigest c w.witness p')) :
    isSolutionOk (stdVM c) c s' idx ≠ .ok true := by
  have hgood := C06_valid_imp_verifies_multisig c s idx w m keys sigsTop hi ok hm hm1 hmn hn hkeys hsigs hvalid sg hsg
  have hbad := tamper_glue c s s' idx w.witness _ _ sg keys ht hl p p' hT hCR hUF hgood
  exact multisig_not_valid c s' idx w m keys sigsTop hi' ok hm hm1 hmn hn hkeys hsigs ⟨sg, hsg, hbad⟩

/-! ### from a committed field that differs to committed bytes that differ -/

/-- the legacy message of input `idx` for script code `code` and hash-type word `ht`, outside the SIGHASH_SINGLE-without-output
case: the wire form of the blanked transaction, then the hash-type word (`legacyPreimage_tmp`) -/
def legacyMsg (tx : Tx) (code : Bytes) (idx ht : Nat) : Bytes :=
  Spec.Wire.legacy (tmpOf tx (strippedBody code ++ instrTail code) idx ht) ++ le 4 ht

/-- C06.tampered_of_fields (legacy digest: Bitcoin, Litecoin, Groestlcoin, non-witness inputs).  If the fields the hash type
`ht` commits to (`legacyFields`: `C06_committed_fields_legacy`; the script code with its OP_CODESEPARATORs removed is one of
them, so `code'` may be another script: "the script being satisfied") differ between the two states — both in scope, neither in
the SIGHASH_SINGLE-without-output case — then the committed bytes exist in both, are the two legacy messages, and differ: the
hypothesis `Tampered` of `C06_tamper_fails_*`, with **no** further assumption. -/
theorem C06_tampered_of_fields_legacy (c : Coin) (hc : requiresForkId c = false) (s s' : State) (idx : Nat) (code code' : Bytes)
    (ht : Nat) (hx : InScope s.tx idx code) (hy : InScope s'.tx idx code') (hht : ht < 2 ^ 32)
    (hb : isBug s.tx idx ht = false) (hb' : isBug s'.tx idx ht = false)
    (hdiff : legacyFields s.tx (strippedBody code ++ instrTail code) idx ht ≠
      legacyFields s'.tx (strippedBody code' ++ instrTail code') idx ht) :
    Tampered c s s' false code code' idx ht (legacyMsg s.tx code idx ht) (legacyMsg s'.tx code' idx ht) := by
  obtain ⟨hdel, hsl, _⟩ := strip_serializeScriptCode_all code
  obtain ⟨hdel', hsl', _⟩ := strip_serializeScriptCode_all code'
  have hs : LenOk (strippedBody code ++ instrTail code) := by have := hx.len; unfold LenOk at this ⊢; omega
  have hs' : LenOk (strippedBody code' ++ instrTail code') := by have := hy.len; unfold LenOk at this ⊢; omega
  have e1 := legacyPreimage_tmp c s.tx hx.wf idx hx.idx code _ hdel hs ht hht
  have e2 := legacyPreimage_tmp c s'.tx hy.wf idx hy.idx code' _ hdel' hs' ht hht
  rw [hb] at e1
  rw [hb'] at e2
  simp only [Bool.false_eq_true, if_false] at e1 e2
  have hp : ∀ (st : State) (cd : Bytes), preimageOf c st false cd idx ht = Sighash.legacyPreimage c st.tx cd idx ht := by
    intro st cd; simp [preimageOf, hc]
  refine ⟨by rw [hp, e1]; rfl, by rw [hp, e2]; rfl, ?_⟩
  intro heq
  apply hdiff
  apply (C06_committed_fields_legacy c s.tx s'.tx idx code code' hx hy ht hht hb hb').mp
  rw [e1, e2]
  unfold legacyMsg at heq
  rw [heq]

/-- C06.tampered_of_fields (BIP143 message: witness inputs of every class, every input of the fork-id classes; `ht'` = the
hash-type word with the fork id folded in).  If the listed fields (`fields143`, incl. the spent amount) differ, the committed
bytes differ.  Partial: besides collision freeness of the part hash on three more named pairs (`hP`, `hS`, `hO`: the outpoint
lists, the sequence lists, the committed output lists of the two states) it needs `hZ`: the digest of an output list is not
32 zero bytes — used only when, under SIGHASH_SINGLE, one state has the output at the input's position and the other has not. -/
theorem C06_tampered_of_fields_bip143_partial (c : Coin) (s s' : State) (idx : Nat) (w : Bool) (code : Bytes) (ht : Nat)
    (o o' : TxOut) (hkind : w = true ∨ requiresForkId c = true)
    (hfork : ((if w then segwitRequiresForkId c else true) &&
      decide (ht &&& Gen.Sighash.sighashForkid ≠ Gen.Sighash.sighashForkid)) = false)
    (hwf : s.tx.WF) (hwf' : s'.tx.WF) (hidx : idx < s.tx.ins.length) (hidx' : idx < s'.tx.ins.length)
    (hu : s.us[idx]? = some (some o)) (hu' : s'.us[idx]? = some (some o')) (hamt : U64 o.value) (hamt' : U64 o'.value)
    (hcode : LenOk code) (hht : ht ||| (forkId c <<< 8) < 2 ^ 32)
    (hP : CollisionFree (sha (segwitPartsSingleSha c)) (s.tx.ins.map outpoint).flatten (s'.tx.ins.map outpoint).flatten)
    (hS : CollisionFree (sha (segwitPartsSingleSha c)) (s.tx.ins.map fun t => le 4 t.sequence.toNat).flatten
      (s'.tx.ins.map fun t => le 4 t.sequence.toNat).flatten)
    (hO : ∀ l l', outsCommitted s.tx idx (ht ||| (forkId c <<< 8)) = some l →
      outsCommitted s'.tx idx (ht ||| (forkId c <<< 8)) = some l' →
      CollisionFree (sha (segwitPartsSingleSha c)) (l.map txout).flatten (l'.map txout).flatten)
    (hZ : ∀ l, (outsCommitted s.tx idx (ht ||| (forkId c <<< 8)) = some l ∧
          outsCommitted s'.tx idx (ht ||| (forkId c <<< 8)) = none) ∨
        (outsCommitted s'.tx idx (ht ||| (forkId c <<< 8)) = some l ∧
          outsCommitted s.tx idx (ht ||| (forkId c <<< 8)) = none) →
        sha (segwitPartsSingleSha c) (l.map txout).flatten ≠ Spec.Sighash.zero32)
    (hdiff : fields143 s.tx idx code o.value.toNat (ht ||| (forkId c <<< 8)) ≠
      fields143 s'.tx idx code o'.value.toNat (ht ||| (forkId c <<< 8))) :
    Tampered c s s' w code code idx ht
      (bip143Preimage (sha (segwitPartsSingleSha c)) s.tx idx code o.value.toNat (ht ||| (forkId c <<< 8)))
      (bip143Preimage (sha (segwitPartsSingleSha c)) s'.tx idx code o'.value.toNat (ht ||| (forkId c <<< 8))) := by
  have e1 := segwitPreimage_eq c s.tx hwf s.us idx hidx o hu hamt code hcode _ hht
  have e2 := segwitPreimage_eq c s'.tx hwf' s'.us idx hidx' o' hu' hamt' code hcode _ hht
  have hk : (w || requiresForkId c) = true := by rcases hkind with h | h <;> simp [h]
  have hp : ∀ (st : State) (b : Bytes), segwitPreimage c st.tx st.us code idx (ht ||| (forkId c <<< 8)) = .ok b →
      preimageOf c st w code idx ht = .ok (some b) := by
    intro st b hb
    unfold preimageOf
    rw [if_pos hk, if_neg (by rw [hfork]; simp), hb]
  refine ⟨hp s _ e1, hp s' _ e2, ?_⟩
  intro heq
  apply hdiff
  have ha : o.value.toNat < 2 ^ 64 := by have := hamt.1; have := hamt.2; omega
  have ha' : o'.value.toNat < 2 ^ 64 := by have := hamt'.1; have := hamt'.2; omega
  exact (C06_committed_fields_bip143 (segwitPartsSingleSha c) s.tx s'.tx hwf hwf' idx idx hidx hidx' code code hcode hcode
    _ _ ha ha' _ _ hht hht (fun a b ha hb hab => by subst ha; subst hb; exact hP hab)
    (fun a b ha hb hab => by subst ha; subst hb; exact hS hab) (fun l l' hl hl' hab => hO l l' hl hl' hab) hZ).mp heq

open Pycoin.Sign in
/-- **C06.tamper_fails, the property's sentence for a P2PKH input of a legacy-digest class, end to end.**  After signing (`s`:
the input validates), any change of the transaction that leaves the input's unlocking data and spent script alone and changes
a field its hash type `ht` (the last byte of the signature) commits to — `legacyFields`: for SIGHASH_ALL the version, the lock
time, every outpoint and sequence number, every output amount and script — makes `is_solution_ok` not return `True`, under
`CollisionFree` of the class's digest function on {legacy message of `s`, legacy message of `s'`} and `NoForgery` of the
signature for their two digests.  (Hypotheses that are facts about the two states, not assumptions: both in wire range with
the input present, neither in the SIGHASH_SINGLE-without-output case, `s'` not of the coinbase shape — inside `InputIs`.) -/
theorem C06_tamper_fails_p2pkh_fields (c : Coin) (hc : requiresForkId c = false) (s s' : State) (idx : Nat) (sig key h : Bytes)
    (ht : UInt8)
    (hi : InputIs s idx (pushesOf [sig, key]) [] (p2pkhScript h))
    (hi' : InputIs s' idx (pushesOf [sig, key]) [] (p2pkhScript h)) (hlen : h.length = 20)
    (hs2 : 2 ≤ sig.length) (hs : sig.length ≤ 75) (hk2 : 2 ≤ key.length) (hk : key.length ≤ 75)
    (hl : sig.getLast? = some ht)
    (hvalid : isSolutionOk (stdVM c) c s idx = .ok true)
    (hx : InScope s.tx idx (baseCode (p2pkhScript h) [sig])) (hy : InScope s'.tx idx (baseCode (p2pkhScript h) [sig]))
    (hb : isBug s.tx idx ht.toNat = false) (hb' : isBug s'.tx idx ht.toNat = false)
    (hdiff : legacyFields s.tx (strippedBody (baseCode (p2pkhScript h) [sig]) ++ instrTail (baseCode (p2pkhScript h) [sig])) idx ht.toNat ≠
      legacyFields s'.tx (strippedBody (baseCode (p2pkhScript h) [sig]) ++ instrTail (baseCode (p2pkhScript h) [sig])) idx ht.toNat)
    (hCR : CollisionFree (msgHash c false) (legacyMsg s.tx (baseCode (p2pkhScript h) [sig]) idx ht.toNat)
      (legacyMsg s'.tx (baseCode (p2pkhScript h) [sig]) idx ht.toNat))
    (hUF : NoForgery [key] sig (msgDigest c false (legacyMsg s.tx (baseCode (p2pkhScript h) [sig]) idx ht.toNat))
      (msgDigest c false (legacyMsg s'.tx (baseCode (p2pkhScript h) [sig]) idx ht.toNat))) :
    isSolutionOk (stdVM c) c s' idx ≠ .ok true :=
  C06_tamper_fails_p2pkh c s s' idx sig key h ht _ _ hi hi' hlen hs2 hs hk2 hk hl hvalid
    (C06_tampered_of_fields_legacy c hc s s' idx _ _ ht.toNat hx hy
      (by have := ht.toNat_lt; omega) hb hb' hdiff) hCR hUF

/-! ### "the script being satisfied": the data push of the spent script

A change inside the hash push of the recorded spent script — the key hash of P2PKH / P2WPKH, the script hash of P2SH / P2WSH —
makes the input fail whatever else the transaction says, with **no** cryptographic hypothesis: the unlocking data no longer
hashes to the committed value (`hne` is a fact about two byte strings).  For the kinds whose key sits in the script itself
(P2PK, bare multisig) the spent script is the script code and hence committed: `C06_tamper_fails_*` with `Tampered` through
the script code. -/

open Pycoin.Sign in
/-- C06.spent_script_hash (P2PKH): another key hash in the spent script ⇒ `EQUALVERIFY` fails -/
theorem C06_spent_script_hash_fails_p2pkh (c : Coin) (st : State) (idx : Nat) (sig key h' : Bytes)
    (hi : InputIs st idx (pushesOf [sig, key]) [] (p2pkhScript h')) (hlen : h'.length = 20)
    (hs2 : 2 ≤ sig.length) (hs : sig.length ≤ 75) (hk2 : 2 ≤ key.length) (hk : key.length ≤ 75)
    (hne : Hash.hash160 key ≠ h') :
    isSolutionOk (stdVM c) c st idx ≠ .ok true :=
  p2pkh_not_valid c st idx sig key h' hi hlen hs2 hs hk2 hk (Or.inl hne)

open Pycoin.Sign in
/-- C06.spent_script_hash (P2WPKH): another program ⇒ the implied P2PKH script fails at `EQUALVERIFY` -/
theorem C06_spent_script_hash_fails_p2wpkh (c : Coin) (st : State) (idx : Nat) (sig key h' : Bytes)
    (hi : InputIs st idx [] [sig, key] (witnessV0Script h')) (hlen : h'.length = 20)
    (hs : sig.length ≤ 520) (hk : key.length ≤ 520) (hne : Hash.hash160 key ≠ h') :
    isSolutionOk (stdVM c) c st idx ≠ .ok true :=
  p2wpkh_not_valid c st idx sig key h' hi hlen hs hk (Or.inl hne)

open Pycoin.Sign in
/-- C06.spent_script_hash (P2SH, whatever is wrapped: multisig, P2WPKH, P2WSH, …): the scriptSig is push-only data that leaves
`redeem` on top; another script hash in the spent script ⇒ `EQUAL` pushes false, before the redeem script or the witness is
looked at -/
theorem C06_spent_script_hash_fails_p2sh (c : Coin) (st : State) (idx : Nat) (scriptSig redeem hr' : Bytes)
    (stack2 witness : List Bytes)
    (hi : InputIs st idx scriptSig witness (p2shScript hr')) (hrlen : hr'.length = 20) (hs2 : stack2.length ≤ 30)
    (hrun : ∀ chk tx, Spec.Consensus.evalScript chk [] scriptSig F0 tx .base = .ok (redeem :: stack2))
    (hne : Hash.hash160 redeem ≠ hr') :
    isSolutionOk (stdVM c) c st idx ≠ .ok true := by
  apply not_valid_of_spec' c st idx _ _ _ hi
  intro tx
  exact verifyScript_p2sh_mismatch _ scriptSig redeem hr' stack2 witness F0 tx (hrun _ tx) hne hrlen hs2

open Pycoin.Sign in
/-- the hypothesis `hrun` of `C06_spent_script_hash_fails_p2sh` for the scriptSig of a P2SH m-of-n multisig (or any redeem
script of 2..520 bytes after items of 0 or 2..75 bytes) -/
theorem C06_p2sh_scriptSig_runs (items : List Bytes) (redeem : Bytes)
    (hall : ∀ d ∈ items, d.length = 0 ∨ (2 ≤ d.length ∧ d.length ≤ 75)) (hcount : items.length ≤ 100)
    (h2 : 2 ≤ redeem.length) (h : redeem.length ≤ 520) :
    ∀ chk tx, Spec.Consensus.evalScript chk [] (pushesOf items ++ Spec.Consensus.pushData redeem) F0 tx .base = .ok (redeem :: items.reverse) :=
  fun chk tx => evalScript_pushes_pushData chk items redeem F0 tx hall hcount h2 h

open Pycoin.Sign in
/-- C06.spent_script_hash (P2WSH): another program ⇒ WITNESS_PROGRAM_MISMATCH -/
theorem C06_spent_script_hash_fails_p2wsh (c : Coin) (st : State) (idx : Nat) (items : List Bytes) (ws prog' : Bytes)
    (hi : InputIs st idx [] (items ++ [ws]) (witnessV0Script prog')) (hplen : prog'.length = 32)
    (hne : Hash.sha256 ws ≠ prog') :
    isSolutionOk (stdVM c) c st idx ≠ .ok true := by
  apply not_valid_of_spec' c st idx _ _ _ hi
  intro tx
  exact verifyScript_p2wsh_mismatch _ items ws prog' F0 tx rfl hne hplen

open Pycoin.Sign in
/-- C06.tamper_fails (the script being satisfied, legacy digest): the recorded spent script `DUP HASH160 <h> EQUALVERIFY
CHECKSIG` is replaced by `… CHECKSIG NOP`, which the same `<sig> <key>` still *runs* to the same result — yet the input no
longer validates, because the spent script is the script code and the signature commits to it (`hT`: by
`C06_tampered_of_fields_legacy` with `code' ≠ code`, whatever else is unchanged); same two cryptographic hypotheses -/
theorem C06_tamper_fails_p2pkh_script_nop (c : Coin) (s s' : State) (idx : Nat) (sig key h : Bytes) (ht : UInt8) (p p' : Bytes)
    (hi : InputIs s idx (pushesOf [sig, key]) [] (p2pkhScript h))
    (hi' : InputIs s' idx (pushesOf [sig, key]) [] (p2pkhNopScript h)) (hlen : h.length = 20)
    (hs2 : 2 ≤ sig.length) (hs : sig.length ≤ 75) (hk2 : 2 ≤ key.length) (hk : key.length ≤ 75)
    (hl : sig.getLast? = some ht)
    (hvalid : isSolutionOk (stdVM c) c s idx = .ok true)
    (hT : Tampered c s s' false (baseCode (p2pkhScript h) [sig]) (baseCode (p2pkhNopScript h) [sig]) idx ht.toNat p p')
    (hCR : CollisionFree (msgHash c false) p p')
    (hUF : NoForgery [key] sig (msgDigest c false p) (msgDigest c false p')) :
    isSolutionOk (stdVM c) c s' idx ≠ .ok true := by
  have hgood := (C06_valid_imp_verifies_p2pkh c s idx sig key h hi hlen hs2 hs hk2 hk hvalid).2
  have hbad := tamper_glue c s s' idx false _ _ sig [key] ht hl p p' hT hCR hUF ⟨key, by simp, hgood⟩ key (by simp)
  exact p2pkhNop_not_valid c s' idx sig key h hi' hlen hs2 hs hk2 hk (Or.inr hbad)

/-! ## inputs and outputs inserted, removed, reordered: index shifts

A signature travels with its input: after an insertion, removal or reordering the input sits at another position `idx'`,
and what it commits to is read at the **new** position.  Under ANYONECANPAY (base type ALL or NONE) nothing but the input
itself and the outputs-or-nothing is committed, so the position is free; under SINGLE the legacy digest commits to the
position itself (the number of null outputs before the kept one) and to the output found there, the BIP143 message only to the
output found at the new position. -/

theorem single_not_none (ht : Nat) (h : fHashSingle ht = true) : fHashNone ht = false := by
  cases hn : fHashNone ht with
  | false => rfl
  | true => rw [flags_excl ht hn] at h; cases h

/-- C06.moved_input (legacy, ANYONECANPAY with base type ALL or NONE): the blanked transaction of input `t` at position `idx` of
`tx` equals that of the same outpoint and sequence number at any position `idx'` of any `tx'` with the same version, lock time
and (unless NONE) outputs — other inputs inserted, removed or reordered around it do not matter -/
theorem C06_moved_input_acp_legacy (tx tx' : Tx) (st : Bytes) (idx idx' ht : Nat)
    (hacp : fAnyoneCanPay ht = true) (hns : fHashSingle ht = false)
    (hidx : idx < tx.ins.length) (hidx' : idx' < tx'.ins.length)
    (hv : tx.version = tx'.version) (hlt : tx.lockTime = tx'.lockTime)
    (hview : tx.ins[idx].prevHash = tx'.ins[idx'].prevHash ∧ tx.ins[idx].prevIndex = tx'.ins[idx'].prevIndex ∧
      tx.ins[idx].sequence = tx'.ins[idx'].sequence)
    (houts : fHashNone ht = true ∨ tx.outs = tx'.outs) :
    tmpOf tx st idx ht = tmpOf tx' st idx' ht := by
  have h1 := C06_acp_single_input tx st idx ht hacp hidx
  have h2 := C06_acp_single_input tx' st idx' ht hacp hidx'
  have ho : outsOf tx idx ht = outsOf tx' idx' ht := by
    unfold outsOf
    rcases houts with hn | he
    · simp [hn]
    · simp [hns, he]
  unfold tmpOf at h1 h2 ⊢
  simp only at h1 h2
  rw [h1, h2, ho, hv, hlt, hview.1, hview.2.1, hview.2.2]

/-- C06.moved_input (legacy, SINGLE): equal blanked transactions force the same position and the same output there — an
input moved from `idx` to `idx' ≠ idx` commits to something else even if "its" output moved along -/
theorem C06_single_commits_new_index_legacy (tx tx' : Tx) (st st' : Bytes) (idx idx' ht : Nat) (o o' : TxOut)
    (hs : fHashSingle ht = true) (ho : tx.outs[idx]? = some o) (ho' : tx'.outs[idx']? = some o')
    (h : tmpOf tx st idx ht = tmpOf tx' st' idx' ht) : idx = idx' ∧ o = o' := by
  have hn := single_not_none ht hs
  have h3 : outsOf tx idx ht = outsOf tx' idx' ht := by
    have := congrArg Tx.outs h
    simpa [tmpOf] using this
  unfold outsOf at h3
  simp only [hn, hs, ho, ho', Bool.false_eq_true, if_false, if_true] at h3
  have hl := congrArg List.length h3
  simp at hl
  subst hl
  have := List.append_cancel_left h3
  simp at this
  exact ⟨rfl, this⟩

/-- C06.moved_input (BIP143 / fork-id, ANYONECANPAY): the ten items of input `t` at position `idx` equal those at any position
`idx'` of a transaction with the same version and lock time whose committed outputs are the same: all of them (ALL), none
(NONE), or — SINGLE — **the output at the new position** -/
theorem C06_moved_input_acp_bip143 (H : Bytes → Bytes) (tx tx' : Tx) (idx idx' : Nat) (code : Bytes) (amt ht : Nat) (t : TxIn)
    (hacp : fAnyoneCanPay ht = true)
    (hin : tx.ins[idx]? = some t) (hin' : tx'.ins[idx']? = some t)
    (hv : tx.version = tx'.version) (hlt : tx.lockTime = tx'.lockTime)
    (houts : outsCommitted tx idx ht = outsCommitted tx' idx' ht) :
    committed143 H tx idx code amt ht = committed143 H tx' idx' code amt ht := by
  have hO : Spec.Sighash.hashOutputs H tx idx ht = Spec.Sighash.hashOutputs H tx' idx' ht := by
    unfold outsCommitted at houts
    unfold Spec.Sighash.hashOutputs
    cases hs : fHashSingle ht <;> cases hn : fHashNone ht <;> simp only [hs, hn] at houts ⊢
    · simp only [Bool.not_false, Bool.and_self, if_true, Option.some.injEq] at houts ⊢
      rw [houts]
    · simp
    · simp only [Bool.not_true, Bool.false_and, Bool.false_eq_true, if_false, if_true] at houts ⊢
      cases h1 : tx.outs[idx]? <;> cases h2 : tx'.outs[idx']? <;> simp [h1, h2] at houts ⊢
      rw [houts]
    · simp only [Bool.not_true, Bool.false_and, Bool.false_eq_true, if_false, if_true] at houts ⊢
      cases h1 : tx.outs[idx]? <;> cases h2 : tx'.outs[idx']? <;> simp [h1, h2] at houts ⊢
      rw [houts]
  unfold committed143
  simp only [hin, hin', Spec.Sighash.hashPrevouts, Spec.Sighash.hashSequence, hacp, hO, hv, hlt, Bool.not_true,
    Bool.false_and, Bool.false_eq_true, if_false]

/-! ## non-vacuity (evaluated) -/

def exIn (n : UInt8) (q : Int) : TxIn := ⟨List.replicate 32 n, 3, [0x51], q, [[1, 2]]⟩
def exTx : Tx := ⟨2, [exIn 1 0xFFFFFFFF, exIn 2 5, exIn 3 0], [⟨5000, [0x76, 0xa9]⟩, ⟨0, []⟩], 500000⟩
def exCode : Bytes := [0x76, 0xab, 0x02, 0xab, 0xab, 0xac]

-- an output changed: the projection under ALL differs, under NONE it does not; a scriptSig changed: never
#guard (match committedLegacy exTx exCode 1 0x01, committedLegacy { exTx with outs := [⟨5001, [0x76, 0xa9]⟩, ⟨0, []⟩] } exCode 1 0x01 with
  | .ok (some a), .ok (some b) => a != b | _, _ => false)
#guard (match committedLegacy exTx exCode 1 0x02, committedLegacy { exTx with outs := [⟨5001, [0x76, 0xa9]⟩] } exCode 1 0x02 with
  | .ok (some a), .ok (some b) => a == b | _, _ => false)
#guard (match committedLegacy exTx exCode 1 0x01, committedLegacy { exTx with ins := exTx.ins.map fun t => { t with script := [] } } exCode 1 0x01 with
  | .ok (some a), .ok (some b) => a == b | _, _ => false)
#guard (unspentsFromDb (fun h => if h == List.replicate 32 1 then some (h, [⟨5, [0x51]⟩]) else none) true
    [⟨List.replicate 32 1, 0, [], 0, []⟩, ⟨List.replicate 32 2, 0, [], 0, []⟩] matches .ok [some _, none])
#guard (unspentsFromDb (fun h => some (h, [⟨5, [0x51]⟩])) true [⟨List.replicate 32 1, 1, [0x51], 0, []⟩] matches .error .indexError)
#guard runCached (fun ht => ht * 7 + 1) [] [1, 2, 1, 3, 2] = [8, 15, 8, 22, 15]
#guard (isSolutionOk (fun _ _ => .ok) .btc ⟨exTx, [none, some ⟨1, []⟩]⟩ 0 matches .ok false)
#guard (isSolutionOk (fun _ _ => .ok) .btc ⟨exTx, [none, some ⟨1, []⟩]⟩ 2 matches .ok false)
#guard (isSolutionOk (fun _ _ => .ok) .btc ⟨exTx, [none, some ⟨1, []⟩]⟩ 1 matches .ok true)

-- the field view: an output changed is seen under ALL and SINGLE-at-that-position, not under NONE nor SINGLE elsewhere
#guard legacyFields exTx exCode 1 0x01 != legacyFields { exTx with outs := [⟨5000, [0x76, 0xa9]⟩, ⟨1, []⟩] } exCode 1 0x01
#guard legacyFields exTx exCode 1 0x03 != legacyFields { exTx with outs := [⟨5000, [0x76, 0xa9]⟩, ⟨1, []⟩] } exCode 1 0x03
#guard legacyFields exTx exCode 0 0x03 == legacyFields { exTx with outs := [⟨5000, [0x76, 0xa9]⟩, ⟨1, []⟩] } exCode 0 0x03
#guard legacyFields exTx exCode 1 0x82 == legacyFields { exTx with outs := [], ins := exTx.ins.take 2 } exCode 1 0x82
#guard fields143 exTx 1 exCode 7 0x43 == fields143 { exTx with outs := [⟨1, []⟩, ⟨0, []⟩] } 1 exCode 7 0x43
#guard fields143 exTx 1 exCode 7 0x43 != fields143 exTx 1 exCode 8 0x43
#guard (fields143 exTx 2 exCode 7 0x03).map (·.outputs) == some none      -- SINGLE without a matching output: nothing
-- the hypotheses of the frame theorems are satisfiable: an interpreter that asks its closure one question
def exVM : VM := fun ctx f => match f ⟨false, ctx.puzzleScript, [], 1⟩ with | .ok _ => .ok | .error _ => .scriptError
example : ∀ ctx f g, (∀ q, f q = g q) → exVM ctx f = exVM ctx g := fun ctx f g h => by simp [exVM, h]
def exEdit (t : TxIn) : TxIn := if t.prevHash = List.replicate 32 2 then t else { t with script := [0x51], witness := [] }
theorem exEdit_unlock : UnlockEdit exEdit := by
  intro t; unfold exEdit; split <;> exact ⟨rfl, rfl, rfl⟩
example : isSolutionOk exVM .btc ⟨{ exTx with ins := exTx.ins.map exEdit }, [none, some ⟨1, []⟩]⟩ 1 =
    isSolutionOk exVM .btc ⟨exTx, [none, some ⟨1, []⟩]⟩ 1 :=
  C06_other_unlocking_data_free exVM .btc (fun ctx f g h => by simp [exVM, h]) ⟨exTx, [none, some ⟨1, []⟩]⟩ 1 exEdit
    exEdit_unlock (by intro t ht; cases ht; rfl)
#guard (match runHistory exVM .btc ⟨exTx, [none, some ⟨1, []⟩]⟩ [.validate 1, .validate 0, .count, .validate 1] with
  | [.verdict (.ok true), .verdict (.ok false), .count (.ok 2), .verdict (.ok true)] => true | _ => false)

/-! ### non-vacuity of the theorems about the instantiated interpreter: transactions signed by pycoin (key 1001…, hash type ALL),
validated through `stdVM` by evaluation -/

section
open Pycoin.Sign

/-- test helper: bytes from hex -/
def hx (s : String) : Bytes := (Hex.decode s).getD []
def exPrev : Bytes := List.replicate 32 0x21
def exOut : TxOut := ⟨4000, hx "76a914c46c97834f6a1a27794af382f97a241fdcbde98b88ac"⟩
def exK1 : Bytes := hx "039d1abaec9f5715a15c7628244170951e0f85e87f68ca5393d3f9fc3fa23a69c8"
def exK2 : Bytes := hx "0370b55404702ffa86ecfa4e88e0f354004a0965a5eea5fbbd297436001ae920df"
def exK3 : Bytes := hx "031fb966918db3af46c37234b6a4b043719886d6a05859ba32f72742d6141f7ae6"
def exH1 : Bytes := hx "c46c97834f6a1a27794af382f97a241fdcbde98b"
def exH2 : Bytes := hx "6958c12f439e717907b50366d68412a61c06618c"
def exH3 : Bytes := hx "7dc7988037d760a4abc06017cbb68d9756d914ae"
def exSigA : Bytes := hx "3044022064798060462df48a7f381f818ace4fbf75483e854cdc60db77ade0ea9d209108022048776db052f8b4e63beaec4a5f029d25f7dbd2e70fb7a9e66b4f1724a0b512fc01"
def exSigB : Bytes := hx "3045022100c1e04bd9f6b8b108b5e651abc3480ffb9fca741ea4dc844c30f4d82f366556be02203b6026485de36fc63fea3549fe6101a18aa5b40ca997527b6f7fe554e95e104c01"
def exSigW : Bytes := hx "304402205e000751dc1aa072d24211613eb67ed10a926ef3b5b5dd07fdfcdd8fd795702102205380e75aef842e42cdd729d568ff89efb3f582be79d83bcc38fe5a51f43147e501"
def exSigSW : Bytes := hx "30450221009f503322124c0810802a1f69d94d2b7a56ca4cf619e3fe6cb6fd3b678157388402200444a246a7f4d804c4d1556681fd5c85bc13941cc03cfafe5cdba6501bcfc15001"
def exSigM1 : Bytes := hx "304402206eb12f79bf03e8b67e274665673871178c2fecc85f9b1400af16e6dd2cee69dd0220224813f32197bad07ef9b1dafdccc88e6209cb9ea32a51b02c297852b954182801"
def exSigM2 : Bytes := hx "304402200cd309d150ef3e6610e34173586c1b57952c11b350f96cdebde173b5fef76faa02202c61110d285d048fffe39e2e77e1def7adfb64ad193a5e443a6d13bc2e9ad1fc01"
def exSigWM1 : Bytes := hx "3045022100e66894fd1ed9bc5ecb4c1f1523e9a1c5aa51f53594466400548ec098ebcb89b702206606a4f9db1cd33215b82e7a156d0f87b8be77953a1dabfb0b2189cc9264996001"
def exSigWM2 : Bytes := hx "304402205408f88bb352e2f455d17555e4aa8684442798af814665dd8810dc3e5f4edf9402207c25f02c757ccfacfafc78effc01521c7b2858b5dde7ca3835fc72923de659be01"
def exMs : Bytes := multisigScriptN 2 [exK1, exK2, exK3]
/-- one input spending `spk` (10000 units) with the given unlocking data, one output -/
def exState (scriptSig : Bytes) (wit : List Bytes) (spk : Bytes) : State :=
  ⟨⟨1, [⟨exPrev, 0, scriptSig, 4294967295, wit⟩], [exOut], 0⟩, [some ⟨10000, spk⟩]⟩
def exTamper (s : State) : State := { s with tx := { s.tx with lockTime := 1 } }
def exOk (s : State) : Bool := isSolutionOk (stdVM .btc) .btc s 0 == .ok true
def exFails (s : State) : Bool := isSolutionOk (stdVM .btc) .btc s 0 == .ok false

def exP2pkh := exState (pushesOf [exSigA, exK1]) [] (p2pkhScript exH1)
def exP2pk := exState (pushesOf [exSigB]) [] (p2pkScript exK2)
def exP2wpkh := exState [] [exSigW, exK2] (witnessV0Script exH2)
def exP2shP2wpkh := exState (pushesOf [witnessV0Script exH3]) [exSigSW, exK3] (p2shScript (Hash.hash160 (witnessV0Script exH3)))
def exMsItems : List Bytes := [] :: [exSigM2, exSigM1].reverse
def exBare := exState (Wrap.bare.scriptSig exMs exMsItems) (Wrap.bare.wit exMs exMsItems) (Wrap.bare.spk exMs)
def exP2shMs := exState (Wrap.p2sh.scriptSig exMs exMsItems) (Wrap.p2sh.wit exMs exMsItems) (Wrap.p2sh.spk exMs)
def exWItems : List Bytes := [] :: [exSigWM2, exSigWM1].reverse
def exP2wshMs := exState (Wrap.p2wsh.scriptSig exMs exWItems) (Wrap.p2wsh.wit exMs exWItems) (Wrap.p2wsh.spk exMs)

#guard exOk exP2pkh && exFails (exTamper exP2pkh)
#guard exOk exP2pk && exFails (exTamper exP2pk)
#guard exOk exP2wpkh && exFails (exTamper exP2wpkh)
#guard exOk exP2shP2wpkh && exFails (exTamper exP2shP2wpkh)
#guard exOk exBare && exFails (exTamper exBare)
#guard exOk exP2shMs && exFails (exTamper exP2shMs)
#guard exOk exP2wshMs && exFails (exTamper exP2wshMs)

-- the shape hypotheses of `C06_tamper_fails_p2pkh` hold for the signed and the tampered state
example : InputIs exP2pkh 0 (pushesOf [exSigA, exK1]) [] (p2pkhScript exH1) :=
  ⟨by decide, ⟨_, rfl, rfl, rfl⟩, ⟨_, rfl, rfl⟩⟩
example : InputIs (exTamper exP2pkh) 0 (pushesOf [exSigA, exK1]) [] (p2pkhScript exH1) :=
  ⟨by decide, ⟨_, rfl, rfl, rfl⟩, ⟨_, rfl, rfl⟩⟩
-- and the two cryptographic hypotheses hold on this instance (evaluated): the committed bytes differ, their digests differ,
-- the signature verifies for the first digest and not for the second
#guard (match preimageOf .btc exP2pkh false (baseCode (p2pkhScript exH1) [exSigA]) 0 1,
    preimageOf .btc (exTamper exP2pkh) false (baseCode (p2pkhScript exH1) [exSigA]) 0 1 with
  | .ok (some p), .ok (some p') =>
    p != p' && msgHash .btc false p != msgHash .btc false p' && sigVerifies exK1 exSigA (msgDigest .btc false p) &&
      !sigVerifies exK1 exSigA (msgDigest .btc false p')
  | _, _ => false)
#guard (match preimageOf .btc exP2wpkh true (p2pkhScript exH2) 0 1,
    preimageOf .btc { exP2wpkh with us := [some ⟨10001, witnessV0Script exH2⟩] } true (p2pkhScript exH2) 0 1 with
  | .ok (some p), .ok (some p') =>
    p != p' && sigVerifies exK2 exSigW (msgDigest .btc true p) && !sigVerifies exK2 exSigW (msgDigest .btc true p')
  | _, _ => false)
-- the hypotheses of `C06_tamper_fails_p2pkh_fields` on this instance: the committed fields differ, and the committed bytes of the
-- model are the legacy messages named in `hCR` / `hUF`
#guard (let code := baseCode (p2pkhScript exH1) [exSigA]
  legacyFields exP2pkh.tx (strippedBody code ++ instrTail code) 0 1 !=
    legacyFields (exTamper exP2pkh).tx (strippedBody code ++ instrTail code) 0 1)
#guard (let code := baseCode (p2pkhScript exH1) [exSigA]
  match preimageOf .btc exP2pkh false code 0 1, preimageOf .btc (exTamper exP2pkh) false code 0 1 with
  | .ok (some p), .ok (some p') => p == legacyMsg exP2pkh.tx code 0 1 && p' == legacyMsg (exTamper exP2pkh).tx code 0 1
  | _, _ => false)
-- the spent amount is committed for the witness input and not for the legacy one
#guard exFails { exP2wpkh with us := [some ⟨10001, witnessV0Script exH2⟩] }
#guard exOk { exP2pkh with us := [some ⟨10001, p2pkhScript exH1⟩] }
-- the script being satisfied: one bit of the hash / program / key flipped; `NOP` appended (legacy: the script code is committed)
#guard exFails { exP2pkh with us := [some ⟨10000, p2pkhScript (hx "c56c97834f6a1a27794af382f97a241fdcbde98b")⟩] }
#guard exFails { exP2wpkh with us := [some ⟨10000, witnessV0Script (hx "6958c12f439e717907b50366d68412a61c06618d")⟩] }
#guard exFails { exP2shMs with us := [some ⟨10000, p2shScript (List.replicate 20 7)⟩] }
#guard exFails { exP2wshMs with us := [some ⟨10000, witnessV0Script (List.replicate 32 7)⟩] }
#guard exFails { exP2pk with us := [some ⟨10000, p2pkScript exK3⟩] }
#guard exFails { exP2pkh with us := [some ⟨10000, p2pkhNopScript exH1⟩] }
-- (without the commitment to the script code the `NOP` variant would run to true: the interpreter itself accepts it when
-- the signature check is replaced by one that accepts)
#guard (Spec.Consensus.verifyScript (fun _ _ _ _ => true) (pushesOf [exSigA, exK1]) (p2pkhNopScript exH1) [] F0 ⟨1, 0, 0⟩).isNone
-- an input whose transaction is edited into the coinbase shape is the known finding the hypothesis `nocb` excludes
#guard exOk { exP2pkh with tx := { exP2pkh.tx with ins := exP2pkh.tx.ins.map fun t => { t with prevHash := List.replicate 32 0, prevIndex := 4294967295 } } }

end

end Pycoin.Validate
