import Pycoin.Model.Validate
/-!
C06 — Validation is tamper-evident: signatures bind what their hash type commits.
-/
namespace Pycoin.Validate
open Pycoin Pycoin.Sighash

/-- C06.missing_unspent_false: `is_solution_ok(idx)` is `False`, without running the checker, whenever the spent output of
input `idx` is unknown — the `unspents` list is too short or holds `None` at `idx` — whatever the interpreter would say -/
theorem C06_missing_unspent_false (V : VM) (c : Coin) (s : State) (idx : Nat) (h : s.us[idx]?.join = none) :
    isSolutionOk V c s idx = .ok false := by
  unfold isSolutionOk
  by_cases h1 : s.us.length ≤ idx
  · simp [h1]
  · simp [h1, h]

end Pycoin.Validate
