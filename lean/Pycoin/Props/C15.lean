import Pycoin.Model.BlockChain
namespace Pycoin.Chain

/-- placeholder while the correspondence is brought up -/
theorem C15_tmp : (BC.new 0).locked = [] := rfl

end Pycoin.Chain
