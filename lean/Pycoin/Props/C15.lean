import Pycoin.Proofs.ChainNoErr
import Pycoin.Proofs.ChainSpec
import Pycoin.Model.ChainFinderOld
import Pycoin.Spec.Chain
import Pycoin.Proofs.ChainMissing
/-!
C15 — Header-chain tracking reports a heaviest chain whatever the arrival order.
Property theorems (core Lean only).  Histories are arbitrary lists of `add_headers` / `lock_to_index`
calls on a fresh `BlockChain(anchor)`; every call carries its own `set.pop()` ranking and the set iteration
order is a parameter, so each statement holds for every order CPython may choose.

Delivered(history) is `delivered steps` (every header of every `add_headers` batch), Locked(history) is `lockedOf obs`
(the items handed to `did_lock_to_index_f`); `C15_dicts_record_delivered` proves that the dicts record exactly the
delivered headers that are not locked, and `C15_heaviest_over_spec` states maximality against `Spec.Chain` over ALL
delivered headers.  The statements against the specification add the hypothesis `Consistent (deliveredSpec steps)`: a hash
names one header (duplicates are identical).

Hypotheses that remain, both explicit: `Step.avoids anchor0` (no delivered header carries the anchor's own hash:
the anchor is outside the forest) and `runHist … = .ok …` (the model run returns; an `.error` is a Python exception
or a walk that never ends).  `C15_never_raises` discharges the second one for well-formed histories: headers whose
parent relation is acyclic — the explicit hypothesis `Step.wf f`, a rank `f` that drops along every parent link, which
is what the hash property gives — and `lock_to_index(i)` called with `i ≤ length()`.  Nothing is assumed about the finder any more: `C15_chainfinder_inv` proves its
invariant for every forest, batching and pop order, and `lockToIndex_full` that the finder rebuilt by
`lock_to_index` still holds the unlocked remainder of the reported chain.
-/
namespace Pycoin.Chain
open Pycoin.Spec.Chain

/-! ## replaying the returned ops -/

/-- **C15_replay_ops**.  For every history, applying all returned add/remove ops, in order, to an empty list
succeeds (every "add" appends at the stated index, every "remove" takes the last element at the stated index) and
yields exactly the chain read back through `length()` / `hash_for_index(i)`. -/
theorem C15_replay_ops (anchor0 : Nat) (rev : Bool) (steps : List Step) (obs : List Obs) (bc' : BC)
    (hav : ∀ s ∈ steps, s.avoids anchor0)
    (hr : runHist rev (BC.new anchor0) steps = .ok (obs, bc')) :
    ∃ L : List Nat, replay (allOps obs) [] = some L ∧ bc'.length rev = .ok L.length ∧
      ∀ i (hi : i < L.length), bc'.hashForIndex rev i = .ok L[i] := by
  obtain ⟨c', f, r⟩ := run_full anchor0 rev steps (BC.new anchor0) bc' [] obs (Full.init anchor0) hav hr
  have g := f.good
  refine ⟨lockedHashes bc' ++ c'.reverse, by simpa [lockedHashes, BC.new] using r, length_good rev g, ?_⟩
  intro i hi
  obtain ⟨t, ht, e⟩ := tupleForIndex_good rev g i hi
  simp [BC.hashForIndex, ht, bind, Except.bind, e]

/-! ## lookups agree with the reported chain -/

/-- **C15_index_maps_agree**.  After every history there is one duplicate-free list `L` (the locked part followed
by the unlocked part) such that `length()` is its length, `hash_for_index(i)` and the hash of `tuple_for_index(i)` are
`L[i]`, `index_for_hash(h) = i` exactly when `L[i] = h`, and `last_block_hash()` is its last element (the anchor when
it is empty). -/
theorem C15_index_maps_agree (anchor0 : Nat) (rev : Bool) (steps : List Step) (obs : List Obs) (bc' : BC)
    (hav : ∀ s ∈ steps, s.avoids anchor0)
    (hr : runHist rev (BC.new anchor0) steps = .ok (obs, bc')) :
    ∃ L : List Nat, L.Nodup ∧ bc'.length rev = .ok L.length ∧
      (∀ i (hi : i < L.length), bc'.hashForIndex rev i = .ok L[i] ∧
        ∃ t, bc'.tupleForIndex rev i = .ok t ∧ t.1 = L[i]) ∧
      (∀ h i, bc'.indexForHash h = some i ↔ ∃ n : Nat, i = (n : Int) ∧ L[n]? = some h) ∧
      bc'.lastBlockHash rev = .ok (L.getLast?.getD anchor0) := by
  obtain ⟨c', f, _⟩ := run_full anchor0 rev steps (BC.new anchor0) bc' [] obs (Full.init anchor0) hav hr
  have g := f.good
  refine ⟨lockedHashes bc' ++ c'.reverse, g.nodup, length_good rev g, ?_, g.exact, ?_⟩
  · intro i hi
    obtain ⟨t, ht, e⟩ := tupleForIndex_good rev g i hi
    exact ⟨by simp [BC.hashForIndex, ht, bind, Except.bind, e], t, ht, e⟩
  · unfold BC.lastBlockHash
    rw [length_good rev g]
    simp only [bind, Except.bind]
    by_cases hz : (lockedHashes bc' ++ c'.reverse).length = 0
    · have hnil : lockedHashes bc' ++ c'.reverse = [] := List.length_eq_zero_iff.mp hz
      have hl : lockedHashes bc' = [] := (List.append_eq_nil_iff.mp hnil).1
      simp only [hz, if_true, hnil]
      rw [g.parentIs, hl]; simp
    · simp only [hz, if_false]
      have hi : (lockedHashes bc' ++ c'.reverse).length - 1 < (lockedHashes bc' ++ c'.reverse).length := by omega
      obtain ⟨t, ht, e⟩ := tupleForIndex_good rev g _ hi
      simp only [BC.hashForIndex, ht, bind, Except.bind, e]
      rw [List.getLast?_eq_getElem?, List.getElem?_eq_getElem hi]; rfl

/-! ## the model never raises on well-formed histories -/

/-- **C15_never_raises**.  For every history whose delivered headers do not carry the anchor's hash and rank above
their parents for some rank function `f` (acyclicity, the named hypothesis), and whose `lock_to_index(i)` calls satisfy
`i ≤ length()`, every call returns: no `KeyError`/`IndexError`, every upward walk (`meld_new_hashes`, `maximum_path`)
ends within the fuel `len(parent_lookup) + 1`, whatever the pop order. -/
theorem C15_never_raises (f : Nat → Nat) (anchor0 : Nat) (rev : Bool) (steps : List Step)
    (hwf : ∀ s ∈ steps, s.wf f anchor0) (hlk : LocksWithin rev (BC.new anchor0) steps) :
    ∃ obs bc', runHist rev (BC.new anchor0) steps = .ok (obs, bc') := by
  obtain ⟨⟨obs, bc'⟩, h⟩ := run_ok f anchor0 rev steps (BC.new anchor0) [] (Full.init anchor0)
    (by intro k v hk; simp [BC.new, CF.empty, dget] at hk) hwf hlk
  exact ⟨obs, bc', h⟩

theorem Step.wf.avoids {f : Nat → Nat} {anchor0 : Nat} {s : Step} (h : s.wf f anchor0) : s.avoids anchor0 := by
  cases s with
  | add batch rank => exact fun hd hm => (h hd hm).1
  | lock index rank => trivial

/-- **C15_wellformed_history**: everything together, with no hypothesis about the run.  For a well-formed history the
calls return, the returned ops replay to the reported chain, the lookups agree with it, and its unlocked part is a
heaviest chain of registered headers above the current anchor. -/
theorem C15_wellformed_history (f : Nat → Nat) (anchor0 : Nat) (rev : Bool) (steps : List Step)
    (hwf : ∀ s ∈ steps, s.wf f anchor0) (hlk : LocksWithin rev (BC.new anchor0) steps) :
    ∃ obs bc' L c, runHist rev (BC.new anchor0) steps = .ok (obs, bc') ∧
      replay (allOps obs) [] = some L ∧ L = lockedHashes bc' ++ c.reverse ∧ L.Nodup ∧
      bc'.length rev = .ok L.length ∧
      (∀ i (hi : i < L.length), bc'.hashForIndex rev i = .ok L[i]) ∧
      (∀ h i, bc'.indexForHash h = some i ↔ ∃ n : Nat, i = (n : Int) ∧ L[n]? = some h) ∧
      UpPath bc'.finder.parent (c ++ [bc'.parentHash]) ∧
      ∀ c'' : List Nat, UpPath bc'.finder.parent (c'' ++ [bc'.parentHash]) →
        chainWeight bc'.weight c'' ≤ chainWeight bc'.weight c := by
  obtain ⟨obs, bc', hr⟩ := C15_never_raises f anchor0 rev steps hwf hlk
  have hav : ∀ s ∈ steps, s.avoids anchor0 := fun s hs => (hwf s hs).avoids
  obtain ⟨c', fl, r⟩ := run_full anchor0 rev steps (BC.new anchor0) bc' [] obs (Full.init anchor0) hav hr
  have g := fl.good
  refine ⟨obs, bc', lockedHashes bc' ++ c'.reverse, c', hr, by simpa [lockedHashes, BC.new] using r, rfl, g.nodup,
    length_good rev g, ?_, g.exact, g.path, fl.heaviest⟩
  intro i hi
  obtain ⟨t, ht, e⟩ := tupleForIndex_good rev g i hi
  simp [BC.hashForIndex, ht, bind, Except.bind, e]

/-! ## maximum weight -/

/-- **C15_blockchain_over_spec**.  After every history (deliveries and interleaved `lock_to_index` calls, every pop
order), the unlocked chain `c` the BlockChain reports (its cache, tip first) is a chain of registered headers from the
current anchor (`parent_hash`: the anchor the object was created with, or the last locked block), and no chain of
registered headers from that anchor is heavier.  The finder's completeness is no longer a hypothesis: it follows from
`C15_chainfinder_inv`. -/
theorem C15_blockchain_over_spec (anchor0 : Nat) (rev : Bool) (steps : List Step) (obs : List Obs) (bc' : BC)
    (hav : ∀ s ∈ steps, s.avoids anchor0)
    (hr : runHist rev (BC.new anchor0) steps = .ok (obs, bc')) :
    ∃ c : List Nat, curChain bc' c ∧ UpPath bc'.finder.parent (c ++ [bc'.parentHash]) ∧
      ∀ c'' : List Nat, UpPath bc'.finder.parent (c'' ++ [bc'.parentHash]) →
        chainWeight bc'.weight c'' ≤ chainWeight bc'.weight c := by
  obtain ⟨c', f, _⟩ := run_full anchor0 rev steps (BC.new anchor0) bc' [] obs (Full.init anchor0) hav hr
  exact ⟨c', f.good.cur, f.good.path, f.heaviest⟩

/-- **C15_spec_chain_is_model_chain**: the bridge to `Spec/Chain.lean`.  Whenever the dicts record the delivered
headers `D` and the anchor has no entry, a chain of the specification (index order) is, tip first, a chain from the
anchor in the finder's parent relation, and its total weight is what `weight_lookup` sums to. -/
theorem C15_spec_chain_is_model_chain (D : List Hdr) (pl w : Dict Nat)
    (hpl : ∀ hd ∈ D, dget pl hd.hash = some hd.parent ∧ dget w hd.hash = some hd.weight)
    (a : Nat) (c : List Hdr) (hc : IsChainFrom D a c) (ha : dget pl a = none) :
    UpPath pl ((c.map (·.hash)).reverse ++ [a]) ∧ totalWeight c = chainWeight w (c.map (·.hash)).reverse := by
  obtain ⟨l, e⟩ := spec_chain_links D pl w hpl a c hc
  refine ⟨UpPath.of_links _ (by simp) l ?_, e⟩
  intro x hx
  simp at hx; subst hx; exact ha

/-- **C15_heaviest_over_spec_partial**, against `Spec.Chain`: after every history, no chain of the specification
descending from the current anchor is heavier than the reported unlocked chain — for every set `D` of delivered headers
that the finder and `weight_lookup` currently record.  Kept as it was; the hypothesis about `D` is discharged by
`C15_dicts_record_delivered` (the dicts record exactly the delivered headers that are not locked), and
`C15_heaviest_over_spec` below is the statement over ALL delivered headers, with no such hypothesis. -/
theorem C15_heaviest_over_spec_partial (anchor0 : Nat) (rev : Bool) (steps : List Step) (obs : List Obs) (bc' : BC)
    (hav : ∀ s ∈ steps, s.avoids anchor0)
    (hr : runHist rev (BC.new anchor0) steps = .ok (obs, bc'))
    (D : List Hdr)
    (hD : ∀ hd ∈ D, dget bc'.finder.parent hd.hash = some hd.parent ∧ dget bc'.weight hd.hash = some hd.weight) :
    ∃ c, curChain bc' c ∧
      ∀ sc : List Hdr, IsChainFrom D bc'.parentHash sc → totalWeight sc ≤ chainWeight bc'.weight c := by
  obtain ⟨c, hcur, hpath, hmax⟩ := C15_blockchain_over_spec anchor0 rev steps obs bc' hav hr
  refine ⟨c, hcur, ?_⟩
  intro sc hsc
  have hanchor : dget bc'.finder.parent bc'.parentHash = none :=
    UpPath.last_unregistered _ hpath bc'.parentHash (by simp)
  obtain ⟨u, e⟩ := C15_spec_chain_is_model_chain D _ _ hD _ sc hsc hanchor
  rw [e]; exact hmax _ u


/-! ## what the dicts record: Delivered(history) without Locked(history) -/

/-- **C15_dicts_record_delivered**.  After every history, with `delivered steps` the headers of all `add_headers`
batches so far and `lockedOf obs` the items handed to `did_lock_to_index_f` so far:
`_locked_chain` is `lockedOf obs`, a chain of delivered headers from the first anchor;
`parent_lookup` has an entry for a hash only if it is not locked and a delivered header has that hash and parent;
`weight_lookup` has an entry only for the hash and weight of a delivered header;
every delivered header whose hash is not locked has an entry in both — whatever happened in between: duplicates
(registered once), re-delivery of a locked header (skipped by the generator of `add_headers`), orphans, and side
branches below the lock point (`lock_to_index` re-registers every tree of the old finder except the newly locked
hashes; such branches stay recorded, their top is a locked hash or the first anchor, which have no entry, so no
chain from the current anchor reaches them).  `weight_lookup` is never pruned. -/
theorem C15_dicts_record_delivered (anchor0 : Nat) (rev : Bool) (steps : List Step) (obs : List Obs) (bc' : BC)
    (hav : ∀ s ∈ steps, s.avoids anchor0)
    (hr : runHist rev (BC.new anchor0) steps = .ok (obs, bc')) :
    (∀ h p, dget bc'.finder.parent h = some p →
      h ∉ lockedHashes bc' ∧ ∃ hd ∈ delivered steps, hd.hash = h ∧ hd.parent = p) ∧
    (∀ h w, dget bc'.weight h = some w → ∃ hd ∈ delivered steps, hd.hash = h ∧ hd.weight = w) ∧
    (∀ hd ∈ delivered steps, hd.hash ∉ lockedHashes bc' →
      dhas bc'.finder.parent hd.hash = true ∧ dhas bc'.weight hd.hash = true) ∧
    bc'.locked = lockedOf obs ∧ ItemsFrom (delivered steps) anchor0 bc'.locked := by
  obtain ⟨c', f, r, hlk, _, _⟩ := run_rec anchor0 rev steps (BC.new anchor0) bc' [] obs [] (Full.init anchor0)
    (Rec.init anchor0) hav hr
  simp only [List.nil_append] at r
  refine ⟨fun h p hp => ⟨?_, r.parentSound h p hp⟩, r.weightSound,
    fun hd hm hnl => ⟨r.parentCompl hd hm hnl, r.weightCompl hd hm hnl⟩, by simpa [BC.new] using hlk, r.items⟩
  intro hl
  have := f.good.lockedUnreg h hl
  rw [hp] at this; cases this

/-- **C15_dicts_record_delivered_exact**: when a hash names one header (`Consistent`: duplicates are identical),
the entries are the headers themselves: `parent_lookup[h] = p` exactly when `h` is not locked and a delivered header
has hash `h` and parent `p`; every delivered unlocked header is recorded with its own parent and weight; every
locked item is `(hash, parent, weight)` of a delivered header. -/
theorem C15_dicts_record_delivered_exact (anchor0 : Nat) (rev : Bool) (steps : List Step) (obs : List Obs) (bc' : BC)
    (hav : ∀ s ∈ steps, s.avoids anchor0) (hc : Consistent (deliveredSpec steps))
    (hr : runHist rev (BC.new anchor0) steps = .ok (obs, bc')) :
    (∀ h p, dget bc'.finder.parent h = some p ↔
      h ∉ lockedHashes bc' ∧ ∃ hd ∈ deliveredSpec steps, hd.hash = h ∧ hd.parent = p) ∧
    (∀ hd ∈ deliveredSpec steps, hd.hash ∉ lockedHashes bc' →
      dget bc'.finder.parent hd.hash = some hd.parent ∧ dget bc'.weight hd.hash = some hd.weight) ∧
    (∀ it ∈ lockedOf obs, ∃ hd ∈ deliveredSpec steps, it = (hd.hash, hd.parent, some hd.weight)) := by
  obtain ⟨c', f, r, hlk, _, _⟩ := run_rec anchor0 rev steps (BC.new anchor0) bc' [] obs [] (Full.init anchor0)
    (Rec.init anchor0) hav hr
  simp only [List.nil_append] at r
  have rc := r.toC hc
  refine ⟨?_, rc.unlocked, ?_⟩
  · intro h p
    constructor
    · intro hp
      refine ⟨?_, ?_⟩
      · intro hl
        have := f.good.lockedUnreg h hl
        rw [hp] at this; cases this
      · obtain ⟨hd, hm, e1, e2⟩ := r.parentSound h p hp
        exact ⟨hd.toHdr, List.mem_map.mpr ⟨hd, hm, rfl⟩, e1, e2⟩
    · rintro ⟨hnl, hd, hm, rfl, rfl⟩
      exact (rc.unlocked hd hm hnl).1
  · intro it hit
    have hit' : it ∈ bc'.locked := by rw [hlk]; simpa [BC.new] using hit
    obtain ⟨w, e, hm⟩ := rc.item it hit'
    refine ⟨_, hm, ?_⟩
    obtain ⟨a, b, c⟩ := it
    simp only at e; subst e; rfl

/-! ## the reported chain against the specification over ALL delivered headers -/

/-- **C15_heaviest_over_spec** (full).  After every history over headers in which a hash names one header, the
reported chain splits into the locked part `lockedC` (the items handed to `did_lock_to_index_f`) and the unlocked part
`unlockedC` (the cache, read from the anchor upwards) such that, over `deliveredSpec steps` — ALL headers delivered so
far, nothing assumed about what the dicts hold —
* the whole reported chain is a chain of the specification from the first anchor (every element delivered, every
  parent field the hash before it), and the returned ops replay to it from the empty list;
* the current anchor is the last locked hash (the first anchor when nothing is locked);
* the unlocked part is a maximum-total-weight chain of the specification from the current anchor. -/
theorem C15_heaviest_over_spec (anchor0 : Nat) (rev : Bool) (steps : List Step) (obs : List Obs) (bc' : BC)
    (hav : ∀ s ∈ steps, s.avoids anchor0) (hc : Consistent (deliveredSpec steps))
    (hr : runHist rev (BC.new anchor0) steps = .ok (obs, bc')) :
    ∃ lockedC unlockedC : List Hdr,
      lockedC.map (·.hash) = (lockedOf obs).map (·.1) ∧
      bc'.parentHash = ((lockedC.map (·.hash)).getLast?).getD anchor0 ∧
      curChain bc' (unlockedC.map (·.hash)).reverse ∧
      replay (allOps obs) [] = some ((lockedC ++ unlockedC).map (·.hash)) ∧
      IsChainFrom (deliveredSpec steps) anchor0 (lockedC ++ unlockedC) ∧
      IsHeaviestFrom (deliveredSpec steps) bc'.parentHash unlockedC := by
  obtain ⟨c', f, r, hlk, hrep, _⟩ := run_rec anchor0 rev steps (BC.new anchor0) bc' [] obs [] (Full.init anchor0)
    (Rec.init anchor0) hav hr
  simp only [List.nil_append] at r
  obtain ⟨lockedC, unlockedC, h1, h2, h3, h4, _⟩ := state_final rev f r hc
  have hlk' : bc'.locked = lockedOf obs := by simpa [BC.new] using hlk
  refine ⟨lockedC, unlockedC, by rw [h1, lockedHashes, hlk'], by rw [h1]; exact f.good.parentIs, ?_, ?_, h3, h4⟩
  · rw [h2, List.reverse_reverse]; exact f.good.cur
  · rw [List.map_append, h1, h2]
    simpa [lockedHashes, BC.new] using hrep

/-- **C15_heaviest_extending_locked**: the same maximality read from the FIRST anchor — among the chains of the
specification from the first anchor, over all delivered headers, that start with the locked prefix, none is heavier
than the reported chain. -/
theorem C15_heaviest_extending_locked (anchor0 : Nat) (rev : Bool) (steps : List Step) (obs : List Obs) (bc' : BC)
    (hav : ∀ s ∈ steps, s.avoids anchor0) (hc : Consistent (deliveredSpec steps))
    (hr : runHist rev (BC.new anchor0) steps = .ok (obs, bc')) :
    ∃ reported : List Hdr, IsChainFrom (deliveredSpec steps) anchor0 reported ∧
      replay (allOps obs) [] = some (reported.map (·.hash)) ∧
      ∀ sc, IsChainFrom (deliveredSpec steps) anchor0 sc →
        (sc.map (·.hash)).take (lockedOf obs).length = (lockedOf obs).map (·.1) →
        totalWeight sc ≤ totalWeight reported := by
  obtain ⟨lockedC, unlockedC, h1, h2, _, h4, h5, h6⟩ := C15_heaviest_over_spec anchor0 rev steps obs bc' hav hc hr
  refine ⟨lockedC ++ unlockedC, h5, h4, ?_⟩
  intro sc hsc hpre
  have hlen : lockedC.length = (lockedOf obs).length := by
    have := congrArg List.length h1
    simpa using this
  refine heaviest_extending hc anchor0 lockedC unlockedC h5 ?_ sc hsc (by rw [hlen, h1]; exact hpre)
  rw [← h2]; exact h6.2

/-- **C15_heaviest_no_lock**: a history of deliveries only (no `lock_to_index`): the reported chain is a
maximum-total-weight chain of the specification from the anchor among all delivered headers. -/
theorem C15_heaviest_no_lock (anchor0 : Nat) (rev : Bool) (steps : List Step) (obs : List Obs) (bc' : BC)
    (hav : ∀ s ∈ steps, s.avoids anchor0) (hc : Consistent (deliveredSpec steps))
    (hadd : ∀ s ∈ steps, s.isAdd = true)
    (hr : runHist rev (BC.new anchor0) steps = .ok (obs, bc')) :
    ∃ reported : List Hdr, replay (allOps obs) [] = some (reported.map (·.hash)) ∧
      IsHeaviestFrom (deliveredSpec steps) anchor0 reported := by
  obtain ⟨lockedC, unlockedC, h1, h2, _, h4, _, h6⟩ := C15_heaviest_over_spec anchor0 rev steps obs bc' hav hc hr
  have hnil := runHist_no_lock rev steps _ _ _ hadd hr
  rw [hnil] at h1
  have hl : lockedC = [] := by simpa using h1
  subst hl
  simp only [List.map_nil, List.getLast?_nil, Option.getD_none] at h2
  rw [h2] at h6
  exact ⟨unlockedC, by simpa using h4, h6⟩

/-! ## every lookup, every field -/

/-- **C15_lookups_over_spec**.  After every history there is one chain `sc` of the specification from the first anchor
over the delivered headers — the chain the returned ops replay to — such that `length()` is its length; for every
`i < length()`: `tuple_for_index(i)` is `(hash, parent, weight)` of `sc[i]` (locked or not), `hash_for_index(i)` its
hash, the same through the negative index `i - length()`, `index_for_hash` of its hash is `i` and `is_hash_known`
is true; for every hash not on the chain `index_for_hash` is `None` and `is_hash_known` false;
`last_block_hash()` (as written, through `hash_for_index(-1)`) is the last hash, the anchor when the chain is empty;
`locked_length()` is the number of items handed to `did_lock_to_index_f`, `unlocked_length()` the rest. -/
theorem C15_lookups_over_spec (anchor0 : Nat) (rev : Bool) (steps : List Step) (obs : List Obs) (bc' : BC)
    (hav : ∀ s ∈ steps, s.avoids anchor0) (hc : Consistent (deliveredSpec steps))
    (hr : runHist rev (BC.new anchor0) steps = .ok (obs, bc')) :
    ∃ sc : List Hdr, IsChainFrom (deliveredSpec steps) anchor0 sc ∧
      replay (allOps obs) [] = some (sc.map (·.hash)) ∧ bc'.length rev = .ok sc.length ∧
      (∀ i (hi : i < sc.length),
        bc'.tupleForIndex rev i = .ok (sc[i].hash, sc[i].parent, some sc[i].weight) ∧
        bc'.hashForIndex rev i = .ok sc[i].hash ∧
        bc'.tupleForIndexI rev ((i : Int) - sc.length) = .ok (sc[i].hash, sc[i].parent, some sc[i].weight) ∧
        bc'.hashForIndexI rev ((i : Int) - sc.length) = .ok sc[i].hash ∧
        bc'.indexForHash sc[i].hash = some (i : Int) ∧ bc'.isHashKnown sc[i].hash = true) ∧
      (∀ h, h ∉ sc.map (·.hash) → bc'.indexForHash h = none ∧ bc'.isHashKnown h = false) ∧
      bc'.lastBlockHashI rev = .ok (((sc.map (·.hash)).getLast?).getD anchor0) ∧
      bc'.lockedLength = (lockedOf obs).length ∧
      bc'.unlockedLength rev = .ok (sc.length - (lockedOf obs).length) := by
  obtain ⟨c', f, r, hlk, hrep, _⟩ := run_rec anchor0 rev steps (BC.new anchor0) bc' [] obs [] (Full.init anchor0)
    (Rec.init anchor0) hav hr
  simp only [List.nil_append] at r
  have g := f.good
  obtain ⟨lockedC, unlockedC, h1, h2, h3, _, h5⟩ := state_final rev f r hc
  have hlk' : bc'.locked = lockedOf obs := by simpa [BC.new] using hlk
  have hL : (lockedC ++ unlockedC).map (·.hash) = lockedHashes bc' ++ c'.reverse := by rw [List.map_append, h1, h2]
  have hlen : (lockedC ++ unlockedC).length = (lockedHashes bc' ++ c'.reverse).length := by
    rw [← hL, List.length_map]
  refine ⟨lockedC ++ unlockedC, h3, by rw [hL]; simpa [lockedHashes, BC.new] using hrep,
    by rw [hlen]; exact length_good rev g, ?_, ?_, ?_, by simp [BC.lockedLength, hlk'], ?_⟩
  · intro i hi
    have ht := h5 i hi
    have hneg : bc'.tupleForIndexI rev ((i : Int) - (lockedC ++ unlockedC).length) = bc'.tupleForIndex rev i := by
      have := (tupleForIndexI_spec rev g ((i : Int) - (lockedC ++ unlockedC).length)).2 (by omega) (by rw [hlen]; omega)
      rw [this]; congr 1; rw [hlen]; omega
    have hget : (lockedHashes bc' ++ c'.reverse)[i]? = some (lockedC ++ unlockedC)[i].hash := by
      rw [← hL, List.getElem?_map, List.getElem?_eq_getElem hi]; rfl
    have hidx := (g.exact (lockedC ++ unlockedC)[i].hash (i : Int)).mpr ⟨i, rfl, hget⟩
    refine ⟨ht, by simp [BC.hashForIndex, ht, bind, Except.bind], by rw [hneg]; exact ht,
      by unfold BC.hashForIndexI; rw [hneg, ht]; rfl, hidx, ?_⟩
    exact (isHashKnown_good g _).mpr (List.mem_of_getElem? hget)
  · intro h hn
    rw [hL] at hn
    constructor
    · cases hv : bc'.indexForHash h with
      | none => rfl
      | some i =>
        obtain ⟨n, _, hn'⟩ := (g.exact h i).mp hv
        exact absurd (List.mem_of_getElem? hn') hn
    · cases hv : bc'.isHashKnown h with
      | false => rfl
      | true => exact absurd ((isHashKnown_good g h).mp hv) hn
  · rw [lastBlockHashI_eq rev g, hL]
    exact lastBlockHash_good rev g
  · rw [unlockedLength_good rev g, hlen, ← hlk']
    simp [lockedHashes]


/-! ## callbacks -/

/-- **C15_lock_callback**.  In every history, a `lock_to_index(index)` call emits no change ops; it calls
`did_lock_to_index_f` exactly when `index` exceeds the number of blocks locked so far, with the newly locked items and
that number as the starting index, and `index - that number` items.  (Together with `bc'.locked = lockedOf obs` of
`C15_dicts_record_delivered` and `C15_lookups_over_spec`: the items handed over, concatenated, are what
`tuple_for_index` answers below `locked_length()` ever after.) -/
theorem C15_lock_callback (anchor0 : Nat) (rev : Bool) (s1 : List Step) (index : Nat) (rank : List Nat) (s2 : List Step)
    (obs : List Obs) (bc' : BC) (hav : ∀ s ∈ s1, s.avoids anchor0)
    (hr : runHist rev (BC.new anchor0) (s1 ++ .lock index rank :: s2) = .ok (obs, bc')) :
    ∃ obs1 o obs2, obs = obs1 ++ o :: obs2 ∧ obs1.length = s1.length ∧ o.ops = [] ∧
      (index ≤ (lockedOf obs1).length → o.lockCb = none) ∧
      ((lockedOf obs1).length < index →
        ∃ items, o.lockCb = some (items, (lockedOf obs1).length) ∧ (lockedOf obs1).length + items.length = index) := by
  obtain ⟨obs1, bc1, obs2, r1, r2, e, hl⟩ := runHist_append rev s1 _ _ _ _ hr
  unfold runHist at r2
  obtain ⟨⟨o, bcx⟩, h1, r2⟩ := bind_ok r2
  try simp only at r2
  obtain ⟨⟨os, bc2⟩, _, r2⟩ := bind_ok r2
  simp only [Except.ok.injEq, Prod.mk.injEq] at r2
  obtain ⟨rfl, _⟩ := r2
  unfold BC.step at h1
  obtain ⟨⟨cb, bcy⟩, h1a, h1⟩ := bind_ok h1
  simp only [Except.ok.injEq, Prod.mk.injEq] at h1
  obtain ⟨rfl, _⟩ := h1
  obtain ⟨c1, f, _, hlk, _, _⟩ := run_rec anchor0 rev s1 (BC.new anchor0) bc1 [] obs1 [] (Full.init anchor0)
    (Rec.init anchor0) hav r1
  have hlk' : bc1.locked = lockedOf obs1 := by simpa [BC.new] using hlk
  refine ⟨obs1, _, os, e, hl, rfl, ?_, ?_⟩
  · intro hle
    rcases lockToIndex_shape rev rank bc1 bcy c1 index cb f.good.cur h1a with ⟨_, hcb, _⟩ | ⟨hlt, _⟩
    · exact hcb
    · rw [hlk'] at hlt; omega
  · intro hlt
    rcases lockToIndex_shape rev rank bc1 bcy c1 index cb f.good.cur h1a with ⟨hle, _⟩ | ⟨_, hk, hcb, _⟩
    · rw [hlk'] at hle; omega
    · rw [hlk'] at hcb hk
      refine ⟨_, hcb, ?_⟩
      rw [mkItems_length, List.length_take, List.length_reverse]
      omega

/-- **C15_update_q**.  A consumer that feeds the ops of every change callback of a history through `_update_q`
into an initially empty queue: `q.pop()` never fails, and the queue ends as one "add" per block of the reported chain
in index order (every "remove" cancelled the "add" it undoes) — so the queue, too, replays to the reported chain. -/
theorem C15_update_q (anchor0 : Nat) (rev : Bool) (steps : List Step) (obs : List Obs) (bc' : BC)
    (hav : ∀ s ∈ steps, s.avoids anchor0)
    (hr : runHist rev (BC.new anchor0) steps = .ok (obs, bc')) :
    ∃ L : List Nat, replay (allOps obs) [] = some L ∧ qRun [] (obs.map (·.ops)) = .ok (addsOf L) ∧
      replay (addsOf L) [] = some L := by
  obtain ⟨c', _, _, _, hrep, hq⟩ := run_rec anchor0 rev steps (BC.new anchor0) bc' [] obs [] (Full.init anchor0)
    (Rec.init anchor0) hav hr
  exact ⟨lockedHashes bc' ++ c'.reverse, by simpa [lockedHashes, BC.new] using hrep,
    by simpa [lockedHashes, BC.new, addsOf, addsFrom] using hq, replay_addsOf _⟩

/-! ## an object whose locked prefix was preloaded -/

/-- **C15_preloaded_history**.  `preload_locked_blocks(pre)` on a fresh object (`pre` a chain from the anchor with
distinct hashes), then any history: everything above holds with the preloaded headers counted as delivered and
locked — the ops replay from the preloaded chain to the reported chain, which is a chain of the specification from
the first anchor; its unlocked part is a maximum-total-weight chain from the current anchor among all preloaded and
delivered headers; `length()` and every field of `tuple_for_index(i)` agree with it. -/
theorem C15_preloaded_history (anchor0 : Nat) (rev : Bool) (pre : List Header) (steps : List Step) (obs : List Obs)
    (bc' : BC) (hn : (pre.map (·.hash)).Nodup) (hpa : ∀ hd ∈ pre, hd.hash ≠ anchor0)
    (hpc : IsChainFrom (pre.map Header.toHdr) anchor0 (pre.map Header.toHdr))
    (hav : ∀ s ∈ steps, s.avoids anchor0) (hc : Consistent ((pre ++ delivered steps).map Header.toHdr))
    (hr : runHist rev ((BC.new anchor0).preload pre) steps = .ok (obs, bc')) :
    ∃ lockedC unlockedC : List Hdr,
      lockedC.map (·.hash) = pre.map (·.hash) ++ (lockedOf obs).map (·.1) ∧
      replay (allOps obs) (pre.map (·.hash)) = some ((lockedC ++ unlockedC).map (·.hash)) ∧
      IsChainFrom ((pre ++ delivered steps).map Header.toHdr) anchor0 (lockedC ++ unlockedC) ∧
      IsHeaviestFrom ((pre ++ delivered steps).map Header.toHdr) bc'.parentHash unlockedC ∧
      bc'.length rev = .ok (lockedC ++ unlockedC).length ∧
      ∀ i (hi : i < (lockedC ++ unlockedC).length), bc'.tupleForIndex rev i =
        .ok ((lockedC ++ unlockedC)[i].hash, (lockedC ++ unlockedC)[i].parent, some (lockedC ++ unlockedC)[i].weight) := by
  obtain ⟨c', f, r, hlk, hrep, _⟩ := run_rec anchor0 rev steps _ bc' [] obs pre (preload_full anchor0 pre hn)
    (preload_rec anchor0 pre hpa hpc) hav hr
  obtain ⟨lockedC, unlockedC, h1, h2, h3, h4, h5⟩ := state_final rev f r hc
  have hpl : lockedHashes ((BC.new anchor0).preload pre) = pre.map (·.hash) := by
    simp [lockedHashes, BC.preload, Function.comp_def]
  have hL : (lockedC ++ unlockedC).map (·.hash) = lockedHashes bc' ++ c'.reverse := by rw [List.map_append, h1, h2]
  refine ⟨lockedC, unlockedC, ?_, ?_, h3, h4, ?_, h5⟩
  · rw [h1, lockedHashes, hlk]
    simp [BC.preload, Function.comp_def]
  · rw [hL, ← hrep, hpl]; simp
  · have := length_good rev f.good
    rw [this, ← hL, List.length_map]

/-! ## the finder invariant -/

/-- deliver the batches one after the other (each with its own pop ranking) into a fresh finder -/
def loadAll (load : Bool → List Nat → CF → List (Nat × Nat) → Except Err CF) (rev : Bool) :
    CF → List (List (Nat × Nat) × List Nat) → Except Err CF
  | cf, [] => .ok cf
  | cf, (nodes, rank) :: r => do
    let cf' ← load rev rank cf nodes
    loadAll load rev cf' r

/-- the `(hash, parent)` pairs form a forest: some rank decreases along every parent link -/
def Acyclic (nodes : List (Nat × Nat)) : Prop := ∃ f : Nat → Nat, ∀ e ∈ nodes, f e.2 < f e.1

/-- every registered hash lies on a tree that is filed under its top -/
def CF.Covers (cf : CF) : Prop :=
  ∀ h, dhas cf.parent h = true → ∃ b t top s, dget cf.trees b = some t ∧ h ∈ t ∧
    t.getLast? = some top ∧ dget cf.dbt top = some s ∧ b ∈ s

/-- **C15.chainfinder_inv**, the clause: for every forest, every batching and every pop order, the finder ends
sound (trees are the upward paths from the leaves, filed under their tops) and complete (covers every header) -/
def ChainFinderInv (load : Bool → List Nat → CF → List (Nat × Nat) → Except Err CF) : Prop :=
  ∀ (rev : Bool) (batches : List (List (Nat × Nat) × List Nat)) (cf : CF),
    Acyclic (batches.flatMap (·.1)) → loadAll load rev CF.empty batches = .ok cf → FinderSound cf ∧ cf.Covers

theorem loadAll_inv (rev : Bool) : ∀ (batches : List (List (Nat × Nat) × List Nat)) (cf cf' : CF),
    FinderOK cf → loadAll (fun rev rank cf nodes => cf.loadNodes rev rank nodes) rev cf batches = .ok cf' → FinderOK cf'
  | [], cf, cf', fo, hr => by simp only [loadAll, Except.ok.injEq] at hr; subst hr; exact fo
  | (nodes, rank) :: r, cf, cf', fo, hr => by
      unfold loadAll at hr
      obtain ⟨cf1, h1, hr⟩ := bind_ok hr
      exact loadAll_inv rev r cf1 cf' (fo.load rev rank nodes h1) hr

/-- **C15_chainfinder_inv**: for the repaired `meld_new_hashes`, every forest, every batching, every pop order and
either set iteration order, the finder ends sound and complete.  (Proved by induction over the melding loop with the
invariant `InvX` relative to the pending set; the acyclicity hypothesis of the clause is not even needed for this
partial-correctness statement.) -/
theorem C15_chainfinder_inv : ChainFinderInv (fun rev rank cf nodes => cf.loadNodes rev rank nodes) := by
  intro rev batches cf _ hr
  have fo := loadAll_inv rev batches CF.empty cf FinderOK.empty hr
  refine ⟨fo.inv.sound, ?_⟩
  intro h hh
  obtain ⟨v, hv⟩ := (dhas_iff _ _).mp hh
  rcases fo.inv.covers h v hv (by simp) with ⟨b, t, hb, hm⟩ | h'
  · obtain ⟨top, s, hl, hd, hbs⟩ := fo.inv.dcompl b t hb
    exact ⟨b, t, top, s, hb, hm, hl, hd, hbs⟩
  · simp at h'

/-- **C15_missing_parents**.  After every history, the keys of `missing_parents()` that somebody still waits on are
exactly the parents of registered headers that are not registered themselves. -/
theorem C15_missing_parents (anchor0 : Nat) (rev : Bool) (steps : List Step) (obs : List Obs) (bc' : BC)
    (hav : ∀ s ∈ steps, s.avoids anchor0)
    (hr : runHist rev (BC.new anchor0) steps = .ok (obs, bc')) (top : Nat) :
    bc'.finder.waitedOn top = true ↔
      dget bc'.finder.parent top = none ∧ ∃ h, dget bc'.finder.parent h = some top := by
  obtain ⟨_, f, _⟩ := run_full anchor0 rev steps (BC.new anchor0) bc' [] obs (Full.init anchor0) hav hr
  exact f.finder.waitedOn_iff top

/-- the three-header history of DESIGN §8 row 12: `30→20`, then the batch `{20→0, 10→20}` with 10 popped first -/
def witnessBatches : List (List (Nat × Nat) × List Nat) := [([(30, 20)], []), ([(20, 0), (10, 20)], [10, 20])]

/-- **C15_chainfinder_inv_refuted**: the code *before* the repair (`Model/ChainFinderOld.lean`) violates the clause
on the three-header witness: the tree of leaf 30 stays `[30, 20]` although 20 has a registered parent, so
`all_chains_ending_at(0)` misses the chain 0 ← 20 ← 30.  (Kernel evaluation of the model; the same history is in
`corpus/C15.txt` and replayed on the implementation.) -/
theorem C15_chainfinder_inv_refuted :
    ¬ ChainFinderInv (fun rev rank cf nodes => cf.loadNodesOld rev rank nodes) := by
  intro h
  have hac : Acyclic (witnessBatches.flatMap (·.1)) := by
    refine ⟨fun x => if x = 0 then 0 else if x = 20 then 1 else 2, ?_⟩
    intro e he
    simp [witnessBatches] at he
    rcases he with rfl | rfl | rfl <;> simp
  have hrun : loadAll (fun rev rank cf nodes => cf.loadNodesOld rev rank nodes) false CF.empty witnessBatches =
      .ok ⟨[(30, 20), (20, 0), (10, 20)], [(20, [30]), (0, [10])], [(30, [30, 20]), (10, [10, 20, 0])]⟩ := by
    rfl
  have := (h false witnessBatches _ hac hrun).1.tree 30 [30, 20] (by decide)
  simp [UpPath, dget] at this

/-- the repaired code on the same history, by evaluation (an instance of `C15_chainfinder_inv`): both chains are
enumerated under the anchor -/
theorem C15_chainfinder_inv_witness :
    loadAll (fun rev rank cf nodes => cf.loadNodes rev rank nodes) false CF.empty witnessBatches =
      .ok ⟨[(30, 20), (20, 0), (10, 20)], [(0, [30, 10])], [(30, [30, 20, 0]), (10, [10, 20, 0])]⟩ := by
  rfl

/-! ## non-vacuity -/

-- a history with a fork, an orphan resolved later, a duplicate and a lock: the model run returns, so the
-- hypotheses `runHist … = .ok …` of the theorems above are satisfiable
#guard (runHist false (BC.new 0)
    [.add [⟨30, 20, 5⟩] [], .add [⟨20, 0, 1⟩, ⟨10, 20, 1⟩] [10, 20], .lock 1 [], .add [⟨20, 0, 1⟩, ⟨40, 30, 2⟩] []]).toBool
#guard (match runHist false (BC.new 0) [.add [⟨30, 20, 5⟩] [], .add [⟨20, 0, 1⟩, ⟨10, 20, 1⟩] [10, 20]] with
  | .ok (obs, _) => replay (allOps obs) [] == some [20, 30]
  | .error _ => false)

/-- the hypotheses of `C15_never_raises` are satisfiable: the three-header history with `f = id`-like ranks -/
example : ∀ s ∈ [Step.add [⟨30, 20, 5⟩] [], Step.add [⟨20, 0, 1⟩, ⟨10, 20, 1⟩] [10, 20]],
    s.wf (fun x => if x = 0 then 0 else if x = 20 then 1 else 2) 0 := by
  intro s hs
  simp at hs
  rcases hs with rfl | rfl <;> simp [Step.wf]


/-- the history of the first `#guard`: fork, orphan resolved later, lock, re-delivery of the locked header -/
def demoSteps : List Step :=
  [.add [⟨30, 20, 5⟩] [], .add [⟨20, 0, 1⟩, ⟨10, 20, 1⟩] [10, 20], .lock 1 [], .add [⟨20, 0, 1⟩, ⟨40, 30, 2⟩] []]

/-- the hypotheses of `C15_heaviest_over_spec` & co. are satisfiable: duplicates are identical, the anchor is outside -/
example : Consistent (deliveredSpec demoSteps) := by unfold Consistent; decide
example : ∀ s ∈ demoSteps, s.avoids 0 := by
  intro s hs
  simp only [demoSteps, List.mem_cons, List.not_mem_nil, or_false] at hs
  rcases hs with rfl | rfl | rfl | rfl <;> simp [Step.avoids]

-- what the theorems say, evaluated on that history: `_locked_chain` = the callback items; 20 is locked and no
-- longer registered although it was delivered again; the side branch 10 (below the lock point's sibling) is kept;
-- the `_update_q` queue ends as the adds of the reported chain; negative indices; the length observers
#guard (match runHist false (BC.new 0) demoSteps with
  | .ok (obs, bc) =>
    bc.locked == lockedOf obs && (lockedOf obs) == [(20, 0, some 1)] &&
    !dhas bc.finder.parent 20 && dhas bc.finder.parent 10 && dhas bc.finder.parent 30 && dhas bc.finder.parent 40 &&
    dhas bc.weight 20 &&
    (match qRun [] (obs.map (·.ops)) with | .ok q => q == addsOf [20, 30, 40] | .error _ => false) &&
    (match bc.hashForIndexI false (-1), bc.hashForIndexI false (-3), bc.tupleForIndexI false (-2) with
      | .ok a, .ok b, .ok t => a == 40 && b == 20 && t == (30, 20, some 5) | _, _, _ => false) &&
    (match bc.lastBlockHashI false, bc.unlockedLength false with
      | .ok l, .ok u => l == 40 && u == 2 && bc.lockedLength == 1 | _, _ => false) &&
    bc.isHashKnown 30 && !bc.isHashKnown 10 && bc.indexForHash 10 == none && bc.indexForHash 40 == some 2
  | .error _ => false)

-- an index below `-length()`: Python hands the still negative index to `_locked_chain[index]`, which wraps around
-- (outside the property, which speaks of the indices of the chain; compared model vs implementation only)
#guard (match runHist false (BC.new 0) demoSteps with
  | .ok (_, bc) => (match bc.tupleForIndexI false (-4), bc.tupleForIndexI false (-5) with
      | .ok t, .error e => t == (20, 0, some 1) && e == Err.indexError | _, _ => false)
  | .error _ => false)

/-- the hypotheses of `C15_preloaded_history` are satisfiable -/
example : ([⟨20, 0, 1⟩] : List Header).map (·.hash) = [20] ∧
    IsChainFrom (([⟨20, 0, 1⟩] : List Header).map Header.toHdr) 0 (([⟨20, 0, 1⟩] : List Header).map Header.toHdr) :=
  ⟨rfl, IsChainFrom.cons (by simp [Header.toHdr]) rfl (IsChainFrom.nil _)⟩
#guard (match runHist false ((BC.new 0).preload [⟨20, 0, 1⟩]) [.add [⟨30, 20, 5⟩, ⟨20, 0, 1⟩] [], .add [⟨10, 20, 9⟩] []] with
  | .ok (obs, bc) => replay (allOps obs) [20] == some [20, 10] && bc.locked == [(20, 0, some 1)] &&
      !dhas bc.finder.parent 20 && !dhas bc.weight 20
  | .error _ => false)

-- `_update_q` alone: a remove that undoes the newest queued add cancels it; one that does not is queued after
-- putting the popped entry back; popping an empty queue raises
#guard (match updateQ [.add (some 1) 0, .add (some 2) 1] [.remove (some 2) 1, .add (some 3) 1] with
  | .ok q => q == [.add (some 1) 0, .add (some 3) 1] | .error _ => false)
#guard (match updateQ [.add (some 1) 0] [.remove (some 2) 1, .add (some 3) 1] with
  | .ok q => q == [.add (some 1) 0, .remove (some 2) 1, .add (some 3) 1] | .error _ => false)
#guard (match updateQ [] [.remove (some 2) 1] with | .ok _ => false | .error e => e == Err.indexError)

end Pycoin.Chain
