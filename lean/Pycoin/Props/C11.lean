import Pycoin.Proofs.Base58
/-!
C11 — Base58, Base58Check and Bech32/Bech32m codecs are exact and detect corruption.
Property theorems (Base58 half; the Bech32 half is in the second part of this file).
A Python `str` handed to / returned by the Base58 functions is its UTF-8 byte string.
-/
namespace Pycoin.Base58
open Pycoin.Gen.Codecs

/-! ## facts about the generated tables (`decide` over the whole table, re-run whenever the source changes) -/

/-- `BASE58_ALPHABET[d]` for `d < 58` -/
def alphaD (d : Nat) : UInt8 := base58Alphabet.getD d 0

/-- `BASE58_LOOKUP[c]` for `c` in the alphabet -/
def idxD (c : UInt8) : Nat := (lookup58 c).getD 0

/-- the alphabet has 58 distinct characters and `BASE58_BASE = 58` -/
theorem C11_b58_alphabet : base58Alphabet.length = 58 ∧ base58Alphabet.Nodup ∧ base58Base = 58 := by
  decide +kernel

theorem alphabet_table : ∀ d, d < 58 → alphabet58 d = some (alphaD d) ∧ lookup58 (alphaD d) = some d := by
  decide +kernel

def lookupOk (n : Nat) : Bool :=
  match lookup58 (UInt8.ofNat n) with
  | none => !(base58Alphabet.contains (UInt8.ofNat n))
  | some k => decide (k < 58) && alphaD k == UInt8.ofNat n

theorem lookupOk_table : ∀ n, n < 256 → lookupOk n = true := by
  decide +kernel

theorem lookup_table (n : Nat) (hn : n < 256) :
    match lookup58 (UInt8.ofNat n) with
    | none => UInt8.ofNat n ∉ base58Alphabet
    | some k => k < 58 ∧ alphaD k = UInt8.ofNat n := by
  have h := lookupOk_table n hn
  unfold lookupOk at h
  split at h
  · simpa using h
  · simpa using h

theorem alphaD_mem {d : Nat} (h : d < 58) : alphaD d ∈ base58Alphabet := by
  have := (alphabet_table d h).1
  unfold alphabet58 at this
  exact List.mem_of_getElem? this

theorem lookup58_none_iff (c : UInt8) : lookup58 c = none ↔ c ∉ base58Alphabet := by
  have h := lookup_table c.toNat c.toNat_lt
  rw [UInt8.ofNat_toNat] at h
  constructor
  · intro hn; rw [hn] at h; exact h
  · intro hn
    cases hl : lookup58 c with
    | none => rfl
    | some k =>
      rw [hl] at h
      exact absurd (h.2 ▸ alphaD_mem h.1) hn

theorem lookup58_of_mem {c : UInt8} (h : c ∈ base58Alphabet) :
    lookup58 c = some (idxD c) ∧ idxD c < 58 ∧ alphaD (idxD c) = c := by
  have ht := lookup_table c.toNat c.toNat_lt
  rw [UInt8.ofNat_toNat] at ht
  cases hl : lookup58 c with
  | none => exact absurd h ((lookup58_none_iff c).mp hl)
  | some k =>
    rw [hl] at ht
    have hi : idxD c = k := by simp [idxD, hl]
    rw [hi]
    exact ⟨rfl, ht.1, ht.2⟩

/-! ## closed forms of `b2a_base58` and `a2b_base58` -/

theorem byteOf_eq (d : Nat) (h : d < 256) : byteOf d = some (UInt8.ofNat d) := by simp [byteOf, h]

theorem b2a_eq (bs : Bytes) :
    b2a bs = .ok ((encDigits 58 two_le_58 (ofDigits 256 (bs.map (·.toNat))) (lz (bs.map (·.toNat)))).map alphaD) := by
  unfold b2a
  rw [toLong_eq 256 (by decide) _ (fun (x : UInt8) => x.toNat) bs (fun _ _ => rfl)]
  exact fromLong_eq _ _ 58 two_le_58 alphabet58 alphaD (fun d hd => (alphabet_table d hd).1)

theorem a2b_eq (s : Bytes) (h : ∀ c ∈ s, c ∈ base58Alphabet) :
    a2b s = .ok ((encDigits 256 two_le_256 (ofDigits 58 (s.map idxD)) (lz (s.map idxD))).map UInt8.ofNat) := by
  unfold a2b
  rw [toLong_eq 58 (by decide) lookup58 idxD s (fun c hc => (lookup58_of_mem (h c hc)).1)]
  exact fromLong_eq _ _ 256 two_le_256 byteOf UInt8.ofNat byteOf_eq

theorem b2a_mem (bs s : Bytes) (h : b2a bs = .ok s) : ∀ c ∈ s, c ∈ base58Alphabet := by
  rw [b2a_eq] at h
  injection h with h
  subst h
  intro c hc
  obtain ⟨d, hd, rfl⟩ := List.mem_map.mp hc
  exact alphaD_mem (encDigits_lt 58 two_le_58 _ _ d hd)

theorem map_idxD_alphaD (l : List Nat) (h : ∀ d ∈ l, d < 58) : (l.map alphaD).map idxD = l := by
  induction l with
  | nil => rfl
  | cons d ds ih =>
    have hd := h d (by simp)
    have h2 := (alphabet_table d hd).2
    simp only [List.map_cons]
    rw [ih (fun x hx => h x (by simp [hx]))]
    simp [idxD, h2]

theorem map_toNat_ofNat (l : List Nat) (h : ∀ d ∈ l, d < 256) :
    (l.map UInt8.ofNat).map (·.toNat) = l := by
  induction l with
  | nil => rfl
  | cons d ds ih =>
    have hd := h d (by simp)
    simp only [List.map_cons]
    rw [ih (fun x hx => h x (by simp [hx]))]
    simp [UInt8.toNat_ofNat']
    omega

theorem map_ofNat_toNat (bs : Bytes) : (bs.map (·.toNat)).map UInt8.ofNat = bs := by
  induction bs with
  | nil => rfl
  | cons b bs ih => simp only [List.map_cons, ih, UInt8.ofNat_toNat]

theorem map_alphaD_idxD (s : Bytes) (h : ∀ c ∈ s, c ∈ base58Alphabet) : (s.map idxD).map alphaD = s := by
  induction s with
  | nil => rfl
  | cons c cs ih =>
    simp only [List.map_cons]
    rw [ih (fun x hx => h x (by simp [hx])), (lookup58_of_mem (h c (by simp))).2.2]

/-! ## property theorems: Base58 -/

/-- **b58_dec_enc.** For every byte string (any number of leading zero bytes, the empty string included)
`b2a_base58` returns a string over the alphabet and `a2b_base58` maps it back to the same bytes. -/
theorem C11_b58_dec_enc (bs : Bytes) :
    ∃ s, b2a bs = .ok s ∧ (∀ c ∈ s, c ∈ base58Alphabet) ∧ a2b s = .ok bs := by
  refine ⟨_, b2a_eq bs, b2a_mem bs _ (b2a_eq bs), ?_⟩
  rw [a2b_eq _ (b2a_mem bs _ (b2a_eq bs))]
  rw [map_idxD_alphaD _ (encDigits_lt 58 two_le_58 _ _), ofDigits_encDigits, lz_encDigits]
  rw [encDigits_norm 256 two_le_256 _ (by
    intro d hd
    obtain ⟨b, _, rfl⟩ := List.mem_map.mp hd
    exact b.toNat_lt)]
  rw [map_ofNat_toNat]

/-- **b58_enc_dec.** For every string over the alphabet `a2b_base58` succeeds and `b2a_base58` of the result
is the same string. -/
theorem C11_b58_enc_dec (s : Bytes) (h : ∀ c ∈ s, c ∈ base58Alphabet) :
    ∃ bs, a2b s = .ok bs ∧ b2a bs = .ok s := by
  refine ⟨_, a2b_eq s h, ?_⟩
  rw [b2a_eq, map_toNat_ofNat _ (encDigits_lt 256 two_le_256 _ _), ofDigits_encDigits, lz_encDigits]
  rw [encDigits_norm 58 two_le_58 _ (by
    intro d hd
    obtain ⟨c, hc, rfl⟩ := List.mem_map.mp hd
    exact (lookup58_of_mem (h c hc)).2.1)]
  rw [map_alphaD_idxD s h]

/-- **b58_rejects.** `a2b_base58` raises `EncodingError` exactly when some character is outside the alphabet
(and raises nothing else: the other case is `.ok`). -/
theorem C11_b58_rejects (s : Bytes) :
    a2b s = .error .encodingError ↔ ∃ c ∈ s, c ∉ base58Alphabet := by
  constructor
  · intro he
    apply Classical.byContradiction
    intro hn
    have hall : ∀ c ∈ s, c ∈ base58Alphabet := by
      intro c hc
      apply Classical.byContradiction
      intro hc'
      exact hn ⟨c, hc, hc'⟩
    rw [a2b_eq s hall] at he
    cases he
  · intro ⟨c, hc, hn⟩
    unfold a2b
    have : toLong 58 lookup58 s = .error .encodingError :=
      (toLongAux_error 58 lookup58 s 0 0).mpr ⟨c, hc, (lookup58_none_iff c).mpr hn⟩
    rw [this]
    rfl

/-- both encoders are injective (consequence of the round trips): distinct byte strings get distinct texts -/
theorem C11_b58_injective (a b : Bytes) (s : Bytes) (ha : b2a a = .ok s) (hb : b2a b = .ok s) : a = b := by
  obtain ⟨s1, h1, _, h2⟩ := C11_b58_dec_enc a
  obtain ⟨s2, h3, _, h4⟩ := C11_b58_dec_enc b
  rw [ha] at h1; rw [hb] at h3
  injection h1 with h1; injection h3 with h3
  subst h1; subst h3
  rw [h2] at h4
  injection h4

/-! ## Base58Check -/

theorem sha256_length (m : Bytes) : (Hash.sha256 m).length = 32 := by
  simp [Hash.sha256, Hash.u32be]

theorem dsha4_length (m : Bytes) : ((Hash.dsha256 m).take 4).length = 4 := by
  simp [Hash.dsha256, sha256_length]

/-- **b58check_accepts_iff.** `a2b_hashed_base58(s)` returns `d` exactly when the plain decoding of `s` is `d`
followed by the first four bytes of `double_sha256(d)`; every other string — wrong checksum, fewer than four
decoded bytes, a character outside the alphabet — raises `EncodingError`. -/
theorem C11_b58check_accepts_iff (s d : Bytes) :
    a2bHashed s = .ok d ↔ a2b s = .ok (d ++ (Hash.dsha256 d).take 4) := by
  unfold a2bHashed
  cases ha : a2b s with
  | error e => simp [bind, Except.bind]
  | ok data =>
    simp only [bind, Except.bind]
    constructor
    · intro h
      split at h
      · rename_i heq
        injection h with h
        subst h
        rw [heq, List.take_append_drop]
      · cases h
    · intro h
      injection h with h
      subst h
      have hl := dsha4_length d
      have h1 : (d ++ (Hash.dsha256 d).take 4).length - 4 = d.length := by
        rw [List.length_append, hl]; omega
      rw [h1, List.take_left', List.drop_left']
      · simp [pure, Except.pure]
      · rfl
      · rfl

/-- a refused Base58Check string raises `EncodingError` (the only error of the model) -/
theorem C11_b58check_rejects (s : Bytes) :
    a2bHashed s = .error .encodingError ↔ ∀ d, a2b s ≠ .ok (d ++ (Hash.dsha256 d).take 4) := by
  constructor
  · intro h d hd
    rw [← C11_b58check_accepts_iff] at hd
    rw [h] at hd; cases hd
  · intro h
    cases hr : a2bHashed s with
    | error e => cases e; rfl
    | ok d => exact absurd ((C11_b58check_accepts_iff s d).mp hr) (h d)

/-- **b58check_rt.** `a2b_hashed_base58(b2a_hashed_base58(d)) = d` for every byte string. -/
theorem C11_b58check_rt (d : Bytes) : ∃ s, b2aHashed d = .ok s ∧ a2bHashed s = .ok d := by
  obtain ⟨s, h1, _, h2⟩ := C11_b58_dec_enc (d ++ (Hash.dsha256 d).take 4)
  exact ⟨s, h1, (C11_b58check_accepts_iff s d).mpr h2⟩

/-- `is_hashed_base58_valid` is true exactly on the accepted strings -/
theorem C11_b58check_valid_iff (s : Bytes) : isHashedValid s = true ↔ ∃ d, a2bHashed s = .ok d := by
  unfold isHashedValid
  cases a2bHashed s with
  | ok d => simp
  | error e => simp

/-- `parseable_str.parse_b58_double_sha256` agrees with `a2b_hashed_base58` (with `None` for the exception) -/
theorem C11_parse_b58_agrees (s : Bytes) :
    parseB58DoubleSha256 s = (match a2bHashed s with | .ok d => some d | .error _ => none) := by
  unfold parseB58DoubleSha256 parseB58 a2bHashed
  cases ha : a2b s with
  | error e => simp [bind, Except.bind]
  | ok data =>
    simp only [bind, Except.bind]
    by_cases he : data.isEmpty = true
    · have : data = [] := List.isEmpty_iff.mp he
      subst this
      have h4 := dsha4_length []
      have : ¬ (List.take 4 (Hash.dsha256 []) = []) := by
        intro h; rw [h] at h4; cases h4
      simp [this]
    · simp only [he]
      by_cases hc : List.take 4 (Hash.dsha256 (List.take (data.length - 4) data)) = List.drop (data.length - 4) data
      · simp [hc, pure, Except.pure]
      · simp [hc]

/-! ## non-vacuity / examples (evaluated) -/
#guard b2a [0, 0, 1, 2, 3] matches .ok [49, 49, 76, 100, 112]
#guard a2b [49, 49, 76, 100, 112] matches .ok [0, 0, 1, 2, 3]
#guard b2a [] matches .ok []
#guard a2b [48] matches .error .encodingError
#guard a2bHashed [49] matches .error .encodingError

end Pycoin.Base58
