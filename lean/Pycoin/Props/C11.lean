import Pycoin.Proofs.Base58
import Pycoin.Proofs.Bech32Poly
import Pycoin.Proofs.ConvertBits
import Pycoin.Proofs.Bech32Str
import Pycoin.Proofs.Bech32Err
import Pycoin.Proofs.Bech32Err4
import Pycoin.Proofs.ParseableStr
import Pycoin.Gen.Confusables
/-!
C11 — Base58, Base58Check and Bech32/Bech32m codecs are exact and detect corruption.
Property theorems (Base58 half; the Bech32 half is in the second part of this file).
A Python `str` handed to / returned by the Base58 functions is its UTF-8 byte string.
-/
namespace Pycoin.Base58
open Pycoin.Gen.Codecs

/-! ## facts about the generated tables (`decide` over the whole table, re-run whenever the source changes) -/

/-- `BASE58_ALPHABET[d]` for `d < 58` -/
def alphaD (d : Nat) : UInt8 := base58Alphabet.getD d 0

/-- `BASE58_LOOKUP[c]` for `c` in the alphabet -/
def idxD (c : UInt8) : Nat := (lookup58 c).getD 0

/-- the alphabet has 58 distinct characters and `BASE58_BASE = 58` -/
theorem C11_b58_alphabet : base58Alphabet.length = 58 ∧ base58Alphabet.Nodup ∧ base58Base = 58 := by
  decide +kernel

theorem alphabet_table : ∀ d, d < 58 → alphabet58 d = some (alphaD d) ∧ lookup58 (alphaD d) = some d := by
  decide +kernel

def lookupOk (n : Nat) : Bool :=
  match lookup58 (UInt8.ofNat n) with
  | none => !(base58Alphabet.contains (UInt8.ofNat n))
  | some k => decide (k < 58) && alphaD k == UInt8.ofNat n

theorem lookupOk_table : ∀ n, n < 256 → lookupOk n = true := by
  decide +kernel

theorem lookup_table (n : Nat) (hn : n < 256) :
    match lookup58 (UInt8.ofNat n) with
    | none => UInt8.ofNat n ∉ base58Alphabet
    | some k => k < 58 ∧ alphaD k = UInt8.ofNat n := by
  have h := lookupOk_table n hn
  unfold lookupOk at h
  split at h
  · simpa using h
  · simpa using h

theorem alphaD_mem {d : Nat} (h : d < 58) : alphaD d ∈ base58Alphabet := by
  have := (alphabet_table d h).1
  unfold alphabet58 at this
  exact List.mem_of_getElem? this

theorem lookup58_none_iff (c : UInt8) : lookup58 c = none ↔ c ∉ base58Alphabet := by
  have h := lookup_table c.toNat c.toNat_lt
  rw [UInt8.ofNat_toNat] at h
  constructor
  · intro hn; rw [hn] at h; exact h
  · intro hn
    cases hl : lookup58 c with
    | none => rfl
    | some k =>
      rw [hl] at h
      exact absurd (h.2 ▸ alphaD_mem h.1) hn

theorem lookup58_of_mem {c : UInt8} (h : c ∈ base58Alphabet) :
    lookup58 c = some (idxD c) ∧ idxD c < 58 ∧ alphaD (idxD c) = c := by
  have ht := lookup_table c.toNat c.toNat_lt
  rw [UInt8.ofNat_toNat] at ht
  cases hl : lookup58 c with
  | none => exact absurd h ((lookup58_none_iff c).mp hl)
  | some k =>
    rw [hl] at ht
    have hi : idxD c = k := by simp [idxD, hl]
    rw [hi]
    exact ⟨rfl, ht.1, ht.2⟩

/-! ## closed forms of `b2a_base58` and `a2b_base58` -/

theorem byteOf_eq (d : Nat) (h : d < 256) : byteOf d = some (UInt8.ofNat d) := by simp [byteOf, h]

theorem b2a_eq (bs : Bytes) :
    b2a bs = .ok ((encDigits 58 two_le_58 (ofDigits 256 (bs.map (·.toNat))) (lz (bs.map (·.toNat)))).map alphaD) := by
  unfold b2a
  rw [toLong_eq 256 (by decide) _ (fun (x : UInt8) => x.toNat) bs (fun _ _ => rfl)]
  exact fromLong_eq _ _ 58 two_le_58 alphabet58 alphaD (fun d hd => (alphabet_table d hd).1)

theorem a2b_eq (s : Bytes) (h : ∀ c ∈ s, c ∈ base58Alphabet) :
    a2b s = .ok ((encDigits 256 two_le_256 (ofDigits 58 (s.map idxD)) (lz (s.map idxD))).map UInt8.ofNat) := by
  unfold a2b
  rw [toLong_eq 58 (by decide) lookup58 idxD s (fun c hc => (lookup58_of_mem (h c hc)).1)]
  exact fromLong_eq _ _ 256 two_le_256 byteOf UInt8.ofNat byteOf_eq

theorem b2a_mem (bs s : Bytes) (h : b2a bs = .ok s) : ∀ c ∈ s, c ∈ base58Alphabet := by
  rw [b2a_eq] at h
  injection h with h
  subst h
  intro c hc
  obtain ⟨d, hd, rfl⟩ := List.mem_map.mp hc
  exact alphaD_mem (encDigits_lt 58 two_le_58 _ _ d hd)

theorem map_idxD_alphaD (l : List Nat) (h : ∀ d ∈ l, d < 58) : (l.map alphaD).map idxD = l := by
  induction l with
  | nil => rfl
  | cons d ds ih =>
    have hd := h d (by simp)
    have h2 := (alphabet_table d hd).2
    simp only [List.map_cons]
    rw [ih (fun x hx => h x (by simp [hx]))]
    simp [idxD, h2]

theorem map_toNat_ofNat (l : List Nat) (h : ∀ d ∈ l, d < 256) :
    (l.map UInt8.ofNat).map (·.toNat) = l := by
  induction l with
  | nil => rfl
  | cons d ds ih =>
    have hd := h d (by simp)
    simp only [List.map_cons]
    rw [ih (fun x hx => h x (by simp [hx]))]
    simp [UInt8.toNat_ofNat']
    omega

theorem map_ofNat_toNat (bs : Bytes) : (bs.map (·.toNat)).map UInt8.ofNat = bs := by
  induction bs with
  | nil => rfl
  | cons b bs ih => simp only [List.map_cons, ih, UInt8.ofNat_toNat]

theorem map_alphaD_idxD (s : Bytes) (h : ∀ c ∈ s, c ∈ base58Alphabet) : (s.map idxD).map alphaD = s := by
  induction s with
  | nil => rfl
  | cons c cs ih =>
    simp only [List.map_cons]
    rw [ih (fun x hx => h x (by simp [hx])), (lookup58_of_mem (h c (by simp))).2.2]

/-! ## property theorems: Base58 -/

/-- **b58_dec_enc.** For every byte string (any number of leading zero bytes, the empty string included)
`b2a_base58` returns a string over the alphabet and `a2b_base58` maps it back to the same bytes. -/
theorem C11_b58_dec_enc (bs : Bytes) :
    ∃ s, b2a bs = .ok s ∧ (∀ c ∈ s, c ∈ base58Alphabet) ∧ a2b s = .ok bs := by
  refine ⟨_, b2a_eq bs, b2a_mem bs _ (b2a_eq bs), ?_⟩
  rw [a2b_eq _ (b2a_mem bs _ (b2a_eq bs))]
  rw [map_idxD_alphaD _ (encDigits_lt 58 two_le_58 _ _), ofDigits_encDigits, lz_encDigits]
  rw [encDigits_norm 256 two_le_256 _ (by
    intro d hd
    obtain ⟨b, _, rfl⟩ := List.mem_map.mp hd
    exact b.toNat_lt)]
  rw [map_ofNat_toNat]

/-- **b58_enc_dec.** For every string over the alphabet `a2b_base58` succeeds and `b2a_base58` of the result
is the same string. -/
theorem C11_b58_enc_dec (s : Bytes) (h : ∀ c ∈ s, c ∈ base58Alphabet) :
    ∃ bs, a2b s = .ok bs ∧ b2a bs = .ok s := by
  refine ⟨_, a2b_eq s h, ?_⟩
  rw [b2a_eq, map_toNat_ofNat _ (encDigits_lt 256 two_le_256 _ _), ofDigits_encDigits, lz_encDigits]
  rw [encDigits_norm 58 two_le_58 _ (by
    intro d hd
    obtain ⟨c, hc, rfl⟩ := List.mem_map.mp hd
    exact (lookup58_of_mem (h c hc)).2.1)]
  rw [map_alphaD_idxD s h]

/-- **b58_rejects.** `a2b_base58` raises `EncodingError` exactly when some character is outside the alphabet
(and raises nothing else: the other case is `.ok`). -/
theorem C11_b58_rejects (s : Bytes) :
    a2b s = .error .encodingError ↔ ∃ c ∈ s, c ∉ base58Alphabet := by
  constructor
  · intro he
    apply Classical.byContradiction
    intro hn
    have hall : ∀ c ∈ s, c ∈ base58Alphabet := by
      intro c hc
      apply Classical.byContradiction
      intro hc'
      exact hn ⟨c, hc, hc'⟩
    rw [a2b_eq s hall] at he
    cases he
  · intro ⟨c, hc, hn⟩
    unfold a2b
    have : toLong 58 lookup58 s = .error .encodingError :=
      (toLongAux_error 58 lookup58 s 0 0).mpr ⟨c, hc, (lookup58_none_iff c).mpr hn⟩
    rw [this]
    rfl

/-- both encoders are injective (consequence of the round trips): distinct byte strings get distinct texts -/
theorem C11_b58_injective (a b : Bytes) (s : Bytes) (ha : b2a a = .ok s) (hb : b2a b = .ok s) : a = b := by
  obtain ⟨s1, h1, _, h2⟩ := C11_b58_dec_enc a
  obtain ⟨s2, h3, _, h4⟩ := C11_b58_dec_enc b
  rw [ha] at h1; rw [hb] at h3
  injection h1 with h1; injection h3 with h3
  subst h1; subst h3
  rw [h2] at h4
  injection h4

/-! ## Base58Check -/

theorem sha256_length (m : Bytes) : (Hash.sha256 m).length = 32 := by
  simp [Hash.sha256, Hash.u32be]

theorem dsha4_length (m : Bytes) : ((Hash.dsha256 m).take 4).length = 4 := by
  simp [Hash.dsha256, sha256_length]

/-- **b58check_accepts_iff.** `a2b_hashed_base58(s)` returns `d` exactly when the plain decoding of `s` is `d`
followed by the first four bytes of `double_sha256(d)`; every other string — wrong checksum, fewer than four
decoded bytes, a character outside the alphabet — raises `EncodingError`. -/
theorem C11_b58check_accepts_iff (s d : Bytes) :
    a2bHashed s = .ok d ↔ a2b s = .ok (d ++ (Hash.dsha256 d).take 4) := by
  unfold a2bHashed
  cases ha : a2b s with
  | error e => simp [bind, Except.bind]
  | ok data =>
    simp only [bind, Except.bind]
    constructor
    · intro h
      split at h
      · rename_i heq
        injection h with h
        subst h
        rw [heq, List.take_append_drop]
      · cases h
    · intro h
      injection h with h
      subst h
      have hl := dsha4_length d
      have h1 : (d ++ (Hash.dsha256 d).take 4).length - 4 = d.length := by
        rw [List.length_append, hl]; omega
      rw [h1, List.take_left', List.drop_left']
      · simp [pure, Except.pure]
      · rfl
      · rfl

/-- a refused Base58Check string raises `EncodingError` (the only error of the model) -/
theorem C11_b58check_rejects (s : Bytes) :
    a2bHashed s = .error .encodingError ↔ ∀ d, a2b s ≠ .ok (d ++ (Hash.dsha256 d).take 4) := by
  constructor
  · intro h d hd
    rw [← C11_b58check_accepts_iff] at hd
    rw [h] at hd; cases hd
  · intro h
    cases hr : a2bHashed s with
    | error e => cases e; rfl
    | ok d => exact absurd ((C11_b58check_accepts_iff s d).mp hr) (h d)

/-- **b58check_rt.** `a2b_hashed_base58(b2a_hashed_base58(d)) = d` for every byte string. -/
theorem C11_b58check_rt (d : Bytes) : ∃ s, b2aHashed d = .ok s ∧ a2bHashed s = .ok d := by
  obtain ⟨s, h1, _, h2⟩ := C11_b58_dec_enc (d ++ (Hash.dsha256 d).take 4)
  exact ⟨s, h1, (C11_b58check_accepts_iff s d).mpr h2⟩

/-- `is_hashed_base58_valid` is true exactly on the accepted strings -/
theorem C11_b58check_valid_iff (s : Bytes) : isHashedValid s = true ↔ ∃ d, a2bHashed s = .ok d := by
  unfold isHashedValid
  cases a2bHashed s with
  | ok d => simp
  | error e => simp

/-- `parseable_str.parse_b58_double_sha256` agrees with `a2b_hashed_base58` (with `None` for the exception) -/
theorem C11_parse_b58_agrees (s : Bytes) :
    parseB58DoubleSha256 s = (match a2bHashed s with | .ok d => some d | .error _ => none) := by
  unfold parseB58DoubleSha256 parseB58 a2bHashed
  cases ha : a2b s with
  | error e => simp [bind, Except.bind]
  | ok data =>
    simp only [bind, Except.bind]
    by_cases he : data.isEmpty = true
    · have : data = [] := List.isEmpty_iff.mp he
      subst this
      have h4 := dsha4_length []
      have : ¬ (List.take 4 (Hash.dsha256 []) = []) := by
        intro h; rw [h] at h4; cases h4
      simp [this]
    · simp only [he]
      by_cases hc : List.take 4 (Hash.dsha256 (List.take (data.length - 4) data)) = List.drop (data.length - 4) data
      · simp [hc, pure, Except.pure]
      · simp [hc]

/-! ## non-vacuity / examples (evaluated) -/
#guard b2a [0, 0, 1, 2, 3] matches .ok [49, 49, 76, 100, 112]
#guard a2b [49, 49, 76, 100, 112] matches .ok [0, 0, 1, 2, 3]
#guard b2a [] matches .ok []
#guard a2b [48] matches .error .encodingError
#guard a2bHashed [49] matches .error .encodingError

end Pycoin.Base58

/-! # Bech32 / Bech32m -/
namespace Pycoin.Bech32
open Pycoin.Gen.Codecs

/-- the literals of `bech32_polymod` in the source are the ones the model uses; the generator has the five words
the `range(5)` loop reads; the two constants differ -/
theorem C11_bech32_tables :
    polymodStart = 1 ∧ polymodTopShift = 25 ∧ polymodMask = 0x1FFFFFF ∧ polymodSymShift = 5 ∧
    polymodRange = 5 ∧ bech32Generator.length = 5 ∧ bech32mConst ≠ 1 ∧ bech32mConst < 2 ^ 30 ∧
    bech32Charset.length = 32 ∧ bech32Charset.Nodup ∧ bech32MaxLength = 90 ∧ encBech32 ≠ encBech32m := by
  decide +kernel

/-- **linearity of `bech32_polymod` over GF(2)**: running the rounds on the xor of two start values and the
symbol-wise xor of two equally long sequences gives the xor of the two results (any generator words). -/
theorem C11_bech32_polymod_linear (xs ys : List Nat) (h : xs.length = ys.length) (a b : Nat) :
    (List.zipWith (· ^^^ ·) xs ys).foldl polymodStep (a ^^^ b) =
      xs.foldl polymodStep a ^^^ ys.foldl polymodStep b :=
  foldl_polymodStep_xor xs ys h a b

/-- **bech32_checksum_ok.** For every hrp (any code points), every data list (any non-negative integers) and both
encodings: `bech32_verify_checksum(hrp, data + bech32_create_checksum(hrp, data, spec)) == spec`. -/
theorem C11_bech32_checksum_ok (hrp : List Char) (data : List Nat) (spec : Encoding) :
    verifyChecksum hrp (data ++ createChecksum hrp data spec) = some spec := by
  unfold verifyChecksum
  simp only [polymod_with_checksum]
  have hne : bech32mConst ≠ 1 := by decide
  cases spec <;> simp [specConst, hne]

/-- the checksum is the *only* six-symbol suffix accepted for that encoding: if `data ++ l` verifies as `spec`
with `l` six symbols below 32, then `l` is `bech32_create_checksum(hrp, data, spec)` -/
theorem C11_bech32_checksum_unique (hrp : List Char) (data l : List Nat) (spec : Encoding) (hl : l.length = 6)
    (hlt : ∀ x ∈ l, x < 32) (h : verifyChecksum hrp (data ++ l) = some spec) :
    l = createChecksum hrp data spec := by
  apply checksum_unique hrp data l spec hl hlt
  unfold verifyChecksum at h
  have hne : bech32mConst ≠ 1 := by decide
  simp only at h
  split at h
  · rename_i h1
    injection h with h; subst h; exact h1
  · split at h
    · rename_i h1 h2
      injection h with h; subst h; exact h2
    · cases h

/-! ## convertbits -/

/-- **convertbits_rt.** For every byte list: `convertbits(data, 8, 5, True)` succeeds with 5-bit groups and
`convertbits(_, 5, 8, False)` of the result is the original byte list. -/
theorem C11_convertbits_rt (data : List Nat) (hd : ∀ x ∈ data, x < 256) :
    ∃ R, convertbits data 8 5 pos5 true = some R ∧ (∀ r ∈ R, r < 32) ∧
      R.length = (data.length * 8 + 4) / 5 ∧ convertbits R 5 8 pos8 false = some data :=
  convertbits_8_5_8 data hd

/-- the other direction: whenever 5→8 without padding succeeds, 8→5 with padding returns the original groups
(so the 5-bit form of a byte string is unique) -/
theorem C11_convertbits_rt_conv (data R : List Nat) (h : convertbits data 5 8 pos8 false = some R) :
    (∀ r ∈ R, r < 256) ∧ R.length = data.length * 5 / 8 ∧ convertbits R 8 5 pos5 true = some data := by
  have := convertbits_5_8_5 data R h
  exact ⟨this.1, this.2.1, this.2.2.2⟩

/-- a value that does not fit in `frombits` bits is refused -/
theorem C11_convertbits_range (data : List Nat) (f t : Nat) (ht : 0 < t) (pad : Bool)
    (h : ∃ x ∈ data, 2 ^ f ≤ x) : convertbits data f t ht pad = none :=
  convertbits_none_of_big f t ht data pad h

/-! ## bech32_encode / bech32_decode -/

/-- `bech32_decode(bech32_encode(hrp, data, spec)) = (hrp, data, spec)` for every non-empty lower-case hrp over
33..126, data symbols below 32, total length at most 90 -/
theorem C11_bech32_rt (hrp : List Char) (data : List Nat) (spec : Encoding)
    (hne : hrp ≠ []) (hh : ∀ c ∈ hrp, hrpCharOk c = true) (hd : ∀ d ∈ data, d < 32)
    (hlen : hrp.length + 1 + data.length + 6 ≤ 90) :
    ∃ s, bech32Encode hrp data spec = .ok s ∧ bech32Decode s = some (hrp, data, spec) :=
  ⟨_, bech32Encode_eq hrp data spec hd, bech32Decode_encode hrp data spec hne hh hd hlen⟩

/-- every accepted string is, up to case, the encoding of what was returned: the decoder accepts nothing but
`bech32_encode` outputs (written in one case) -/
theorem C11_bech32_rt_conv (t hrp : List Char) (data : List Nat) (spec : Encoding)
    (h : bech32Decode t = some (hrp, data, spec)) :
    bech32Encode hrp data spec = .ok (lower t) ∧ (lower t = t ∨ upper t = t) ∧ t.length ≤ 90 := by
  obtain ⟨_, hcase, hlen, _, _, hd, _, heq⟩ := bech32Decode_some t hrp data spec h
  exact ⟨by rw [bech32Encode_eq hrp data spec hd, heq], hcase, hlen⟩

/-! ## segwit addresses -/

/-- what BIP173/BIP350 allow: non-empty hrp over code points 33..126 without upper-case letters, witness version
0..16, a program of 2..40 bytes (20 or 32 for version 0), and a resulting address of at most 90 characters -/
def Allowed (hrp : List Char) (ver : Nat) (prog : List Nat) : Prop :=
  hrp ≠ [] ∧ (∀ c ∈ hrp, hrpCharOk c = true) ∧ ver ≤ 16 ∧ (∀ b ∈ prog, b < 256) ∧
  2 ≤ prog.length ∧ prog.length ≤ 40 ∧ (ver = 0 → prog.length = 20 ∨ prog.length = 32) ∧
  hrp.length + 1 + (1 + (prog.length * 8 + 4) / 5) + 6 ≤ 90

instance (hrp : List Char) (ver : Nat) (prog : List Nat) : Decidable (Allowed hrp ver prog) := by
  unfold Allowed; infer_instance

/-- the checksum constant `encode` uses for a witness version -/
def specOf (ver : Nat) : Encoding := if ver = 0 then .bech32 else .bech32m

theorem decode_of_raw (hrp addr hrpgot : List Char) (data : List Nat) (spec : Encoding)
    (h : bech32Decode addr = some (hrpgot, data, spec)) :
    decode hrp addr =
      if hrpgot ≠ hrp then none
      else match data with
        | [] => none
        | ver :: rest =>
          match convertbits rest 5 8 pos8 false with
          | none => none
          | some decoded =>
            if decoded.length < 2 ∨ decoded.length > 40 then none
            else if ver > 16 then none
            else if ver = 0 ∧ decoded.length ≠ 20 ∧ decoded.length ≠ 32 then none
            else if (ver = 0 ∧ spec ≠ .bech32) ∨ (ver ≠ 0 ∧ spec ≠ .bech32m) then none
            else some (ver, decoded) := by
  simp only [decode, h]
  rfl

theorem segwit_forward (hrp : List Char) (ver : Nat) (prog R : List Nat) (h : Allowed hrp ver prog)
    (hR : convertbits prog 8 5 pos5 true = some R) :
    let s := hrp ++ ['1'] ++ ((ver :: R) ++ createChecksum hrp (ver :: R) (specOf ver)).map charD
    decode hrp s = some (ver, prog) ∧ encode hrp ver prog = .ok (some s) := by
  obtain ⟨hne, hh, hver, hprog, hl2, hl40, hv0, hlen⟩ := h
  obtain ⟨R', hR', hRlt, hRlen, hback⟩ := convertbits_8_5_8 prog hprog
  rw [hR] at hR'
  injection hR' with hR'
  subst hR'
  have hdata : ∀ d ∈ ver :: R, d < 32 := by
    intro d hd
    rcases List.mem_cons.mp hd with rfl | hd
    · omega
    · exact hRlt d hd
  have hlen' : hrp.length + 1 + (ver :: R).length + 6 ≤ 90 := by
    rw [List.length_cons, hRlen]; omega
  have hdec := bech32Decode_encode hrp (ver :: R) (specOf ver) hne hh hdata hlen'
  have hdecode : decode hrp (hrp ++ ['1'] ++ ((ver :: R) ++ createChecksum hrp (ver :: R) (specOf ver)).map charD)
      = some (ver, prog) := by
    rw [decode_of_raw hrp _ _ _ _ hdec]
    simp only [ne_eq, not_true_eq_false, if_false, hback]
    have c1 : ¬ (prog.length < 2 ∨ prog.length > 40) := by omega
    have c2 : ¬ (ver > 16) := by omega
    have c3 : ¬ (ver = 0 ∧ prog.length ≠ 20 ∧ prog.length ≠ 32) := by
      intro ⟨h0, h20, h32⟩
      rcases hv0 h0 with h | h
      · exact h20 h
      · exact h32 h
    have c4 : ¬ ((ver = 0 ∧ specOf ver ≠ .bech32) ∨ (ver ≠ 0 ∧ specOf ver ≠ .bech32m)) := by
      unfold specOf
      by_cases h0 : ver = 0 <;> simp [h0]
    rw [if_neg c1, if_neg c2, if_neg c3, if_neg c4]
  refine ⟨hdecode, ?_⟩
  unfold encode
  simp only [hR]
  have henc := bech32Encode_eq hrp (ver :: R) (specOf ver) hdata
  unfold specOf at henc hdecode
  rw [henc]
  simp only [hdecode]
  simp [specOf]

/-- **segwit_rt.** For every `(hrp, ver, prog)` that BIP173/BIP350 allow, `encode` returns a string `s` (lower case,
at most 90 characters) and `decode(hrp, s) = (ver, prog)`. -/
theorem C11_segwit_rt (hrp : List Char) (ver : Nat) (prog : List Nat) (h : Allowed hrp ver prog) :
    ∃ s, encode hrp ver prog = .ok (some s) ∧ decode hrp s = some (ver, prog) := by
  obtain ⟨R, hR, _⟩ := convertbits_8_5_8 prog h.2.2.2.1
  have := segwit_forward hrp ver prog R h hR
  exact ⟨_, this.2, this.1⟩

/-- **segwit_rt, converse.** Whatever `decode(hrp, t)` accepts is allowed by BIP173/350 and `encode` of the result
is `t` in lower case: the accepted strings are exactly the encodings (in either single case). -/
theorem C11_segwit_rt_conv (hrp t : List Char) (v : Nat) (p : List Nat) (h : decode hrp t = some (v, p)) :
    Allowed hrp v p ∧ encode hrp v p = .ok (some (lower t)) ∧ (lower t = t ∨ upper t = t) := by
  cases hraw : bech32Decode t with
  | none => unfold decode at h; rw [hraw] at h; cases h
  | some r =>
    obtain ⟨hrpgot, data, spec⟩ := r
    rw [decode_of_raw hrp t hrpgot data spec hraw] at h
    split at h
    · cases h
    · rename_i hhrp
      have hhrp' : hrpgot = hrp := by
        apply Classical.byContradiction; intro hn; exact hhrp hn
      subst hhrp'
      split at h
      · cases h
      · rename_i ver rest
        split at h
        · cases h
        · rename_i decoded hconv
          split at h
          · cases h
          · rename_i c1
            split at h
            · cases h
            · rename_i c2
              split at h
              · cases h
              · rename_i c3
                split at h
                · cases h
                · rename_i c4
                  injection h with h
                  simp only [Prod.mk.injEq] at h
                  obtain ⟨hv, hp⟩ := h
                  subst hv; subst hp
                  obtain ⟨_, hcase, hlen, hhl, hhok, hd, hlent, heq⟩ := bech32Decode_some t hrpgot _ spec hraw
                  obtain ⟨hplt, hplen, hpmod, hpconv⟩ := convertbits_5_8_5 rest decoded hconv
                  have hspec : spec = specOf ver := by
                    unfold specOf
                    by_cases h0 : ver = 0
                    · simp only [h0, if_true]
                      apply Classical.byContradiction
                      intro hn; exact c4 (Or.inl ⟨h0, hn⟩)
                    · simp only [h0, if_false]
                      apply Classical.byContradiction
                      intro hn; exact c4 (Or.inr ⟨h0, hn⟩)
                  have hrestlen : (decoded.length * 8 + 4) / 5 = rest.length := by omega
                  have hallowed : Allowed hrpgot ver decoded := by
                    refine ⟨?_, hhok, by omega, hplt, by omega, by omega, ?_, ?_⟩
                    · intro h0; rw [h0] at hhl; simp at hhl
                    · intro h0
                      apply Classical.byContradiction
                      intro hn
                      exact c3 ⟨h0, fun h => hn (Or.inl h), fun h => hn (Or.inr h)⟩
                    · rw [hrestlen]
                      simp only [List.length_cons] at hlent
                      omega
                  refine ⟨hallowed, ?_, hcase⟩
                  have := (segwit_forward hrpgot ver decoded rest hallowed hpconv).2
                  rw [this, heq, hspec]

/-! ## rejection -/

/-- **rejects_mixed_case.** A string with a character that `lower()` changes and one that `upper()` changes is refused. -/
theorem C11_rejects_mixed_case (t : List Char) (h1 : ∃ c ∈ t, c.toLower ≠ c) (h2 : ∃ c ∈ t, c.toUpper ≠ c)
    (hrp : List Char) : bech32Decode t = none ∧ decode hrp t = none := by
  have hl : lower t ≠ t := by
    intro h
    obtain ⟨c, hc, hne⟩ := h1
    exact hne ((map_eq_self _ t).mp h c hc)
  have hu : upper t ≠ t := by
    intro h
    obtain ⟨c, hc, hne⟩ := h2
    exact hne ((map_eq_self _ t).mp h c hc)
  have : bech32Decode t = none := by
    unfold bech32Decode
    rw [if_pos (Or.inr ⟨hl, hu⟩)]
  exact ⟨this, by unfold decode; rw [this]⟩

/-- strings longer than 90 characters, and strings with a code point outside 33..126, are refused -/
theorem C11_rejects_too_long_or_out_of_range (t : List Char)
    (h : t.length > 90 ∨ ∃ c ∈ t, c.toNat < 33 ∨ c.toNat > 126) (hrp : List Char) :
    bech32Decode t = none ∧ decode hrp t = none := by
  have : bech32Decode t = none := by
    cases hd : bech32Decode t with
    | none => rfl
    | some r =>
      obtain ⟨hrp', data, spec⟩ := r
      obtain ⟨hr, _, hlen, _⟩ := bech32Decode_some t hrp' data spec hd
      rcases h with h | ⟨c, hc, h⟩
      · omega
      · have := hr c hc; omega
  exact ⟨this, by unfold decode; rw [this]⟩

/-- **rejects_out_of_range.** A code point outside 33..126 anywhere in the string (hrp, separator region, data part or
checksum) makes `bech32_decode` return `(None, None, None)` at its very first test, before `lower()`/`upper()` are ever
applied and whatever `max_length` is — so Python's non-ASCII case mappings (U+212A KELVIN SIGN ↦ `k`, …) can never
turn such a string into an accepted one. -/
theorem C11_rejects_out_of_range (t : List Char) (c : Char) (hc : c ∈ t) (h : c.toNat < 33 ∨ c.toNat > 126)
    (maxLength : Nat) (hrp : List Char) :
    bech32Decode t maxLength = none ∧ decode hrp t = none ∧ parseBech32 t = none := by
  have hany : t.any (fun x => decide (x.toNat < 33 ∨ x.toNat > 126)) = true := by
    rw [List.any_eq_true]; exact ⟨c, hc, by simpa using h⟩
  have h1 : ∀ m, bech32Decode t m = none := by
    intro m
    unfold bech32Decode
    rw [if_pos (Or.inl hany)]
  refine ⟨h1 _, ?_, ?_⟩
  · unfold decode; rw [h1]
  · unfold parseBech32; rw [h1]

/-- every non-ASCII character that Python's `str.lower()` or `str.upper()` maps into code points 33..126 (table
regenerated from the running Python: KELVIN SIGN, LONG S, DOTLESS I, ß, the ﬀ..ﬆ ligatures) is itself outside 33..126,
hence refused by `C11_rejects_out_of_range` wherever it stands -/
theorem C11_case_confusables_refused :
    ∀ e ∈ Gen.Confusables.caseConfusables, e.1 > 126 := by decide +kernel

/-- **rejects_wrong_const.** A well-formed Bech32 string whose first data symbol is 0 but whose checksum is the
Bech32m one, or whose first symbol is not 0 but whose checksum is the Bech32 one, is refused by `decode`. -/
theorem C11_rejects_wrong_const (hrp t hrpgot : List Char) (ver : Nat) (rest : List Nat) (spec : Encoding)
    (hraw : bech32Decode t = some (hrpgot, ver :: rest, spec))
    (h : (ver = 0 ∧ spec = .bech32m) ∨ (ver ≠ 0 ∧ spec = .bech32)) : decode hrp t = none := by
  rw [decode_of_raw hrp t hrpgot _ spec hraw]
  have hc : (ver = 0 ∧ spec ≠ .bech32) ∨ (ver ≠ 0 ∧ spec ≠ .bech32m) := by
    rcases h with ⟨h0, hs⟩ | ⟨h0, hs⟩
    · left; exact ⟨h0, by rw [hs]; decide⟩
    · right; exact ⟨h0, by rw [hs]; decide⟩
  dsimp only
  repeat' split
  all_goals first | rfl | (rename_i hn; exact absurd hc hn)

/-- **rejects_bad_length.** A well-formed Bech32 string whose program is shorter than 2 or longer than 40 bytes,
or is a version-0 program of a length other than 20 and 32, or whose version exceeds 16, is refused. -/
theorem C11_rejects_bad_length (hrp t hrpgot : List Char) (ver : Nat) (rest prog : List Nat) (spec : Encoding)
    (hraw : bech32Decode t = some (hrpgot, ver :: rest, spec))
    (hconv : convertbits rest 5 8 pos8 false = some prog)
    (h : prog.length < 2 ∨ prog.length > 40 ∨ ver > 16 ∨ (ver = 0 ∧ prog.length ≠ 20 ∧ prog.length ≠ 32)) :
    decode hrp t = none := by
  rw [decode_of_raw hrp t hrpgot _ spec hraw]
  split
  · rfl
  · simp only [hconv]
    by_cases c1 : prog.length < 2 ∨ prog.length > 40
    · rw [if_pos c1]
    · rw [if_neg c1]
      by_cases c2 : ver > 16
      · rw [if_pos c2]
      · rw [if_neg c2]
        have c3 : ver = 0 ∧ prog.length ≠ 20 ∧ prog.length ≠ 32 := by
          rcases h with h | h | h | h
          · exact absurd (Or.inl h) c1
          · exact absurd (Or.inr h) c1
          · exact absurd h c2
          · exact h
        rw [if_pos c3]

/-- an address without any data symbol (only the checksum) is refused -/
theorem C11_rejects_no_version (hrp t hrpgot : List Char) (spec : Encoding)
    (hraw : bech32Decode t = some (hrpgot, [], spec)) : decode hrp t = none := by
  rw [decode_of_raw hrp t hrpgot _ spec hraw]
  split <;> rfl

/-- **rejects_bad_padding.** If the 5-bit groups after the version leave 5 or more spare bits, or spare bits that
are not all zero, `decode` refuses (`N` is the number the groups spell, `b` the number of spare bits). -/
theorem C11_rejects_bad_padding (hrp t hrpgot : List Char) (ver : Nat) (rest : List Nat) (spec : Encoding)
    (hraw : bech32Decode t = some (hrpgot, ver :: rest, spec))
    (h : rest.length * 5 % 8 ≥ 5 ∨ Base58.ofDigits 32 rest % 2 ^ (rest.length * 5 % 8) ≠ 0) :
    decode hrp t = none := by
  rw [decode_of_raw hrp t hrpgot _ spec hraw]
  have hd : ∀ x ∈ rest, x < 2 ^ 5 := by
    have := (bech32Decode_some t hrpgot _ spec hraw).2.2.2.2.2.1
    intro x hx; exact this x (List.mem_cons_of_mem _ hx)
  obtain ⟨R, b, hb, hlen, _, _, hres⟩ := convertbits_nopad 5 8 pos8 rest hd
  have hbeq : b = rest.length * 5 % 8 := by omega
  have hcond : b ≥ 5 ∨ Base58.ofDigits (2 ^ 5) rest % 2 ^ b ≠ 0 := by
    rw [hbeq]; exact h
  rw [if_pos hcond] at hres
  split
  · rfl
  · simp only [hres]

/-! ## error detection -/

theorem xor_left_cancel {a b c : Nat} (h : a ^^^ b = a ^^^ c) : b = c := by
  have := congrArg (a ^^^ ·) h
  simpa [← Nat.xor_assoc] using this

theorem specConst_other (s s' : Encoding) (h : s' ≠ s) : specConst s' = specConst s ^^^ crossT := by
  cases s <;> cases s' <;> first | exact absurd rfl h | decide

/-- **error detection, reduction.** Let `xs` be a word accepted with constant `s` (`xs` = expanded hrp, data and
checksum) and `e` any error word of the same length (`corrupt xs e` xors them symbol by symbol, which covers every
substitution of symbols).  Then the corrupted word is accepted with the same constant exactly when the syndrome of `e`
is 0, and with the other constant exactly when the syndrome is `1 xor BECH32M_CONST`.  So "every corruption in a
set `E` of error words is refused" is the finite statement "no `e ∈ E` has syndrome 0 or `crossT`". -/
theorem C11_errdetect_reduction (xs e : List Nat) (hl : xs.length = e.length) (s : Encoding)
    (hx : polymod xs = specConst s) :
    (polymod (corrupt xs e) = specConst s ↔ syndrome e = 0) ∧
    (∀ s', s' ≠ s → (polymod (corrupt xs e) = specConst s' ↔ syndrome e = crossT)) := by
  rw [polymod_corrupt xs e hl, hx]
  constructor
  · constructor
    · intro h
      exact xor_left_cancel (a := specConst s) (by rw [h, Nat.xor_zero])
    · intro h; rw [h, Nat.xor_zero]
  · intro s' hs'
    rw [specConst_other s s' hs']
    constructor
    · intro h; exact xor_left_cancel h
    · intro h; rw [h]

/-- **one substituted symbol** among the last 89 symbols of an accepted word is refused under both constants
(syndromes of all 89 × 31 single errors evaluated in the kernel) -/
theorem C11_errdetect_w1 (xs : List Nat) (s : Encoding) (hx : polymod xs = specConst s)
    (a j v : Nat) (hj : j < 89) (hv1 : 1 ≤ v) (hv : v < 32) (hl : xs.length = a + 1 + j) (s' : Encoding) :
    polymod (corrupt xs (List.replicate a 0 ++ v :: List.replicate j 0)) ≠ specConst s' := by
  have hred := C11_errdetect_reduction xs (List.replicate a 0 ++ v :: List.replicate j 0) (by simp; omega) s hx
  rw [syndrome_single_word] at hred
  have hne := single_ne j v hj hv1 hv
  by_cases hs : s' = s
  · subst hs; intro h; exact hne.1 (hred.1.mp h)
  · intro h; exact hne.2 ((hred.2 s' hs).mp h)

/-- **two substituted symbols** among the last 89 symbols of an accepted word are refused under both constants
(the single-error syndromes are pairwise distinct, and no two differ by `crossT`: kernel evaluation) -/
theorem C11_errdetect_w2 (xs : List Nat) (s : Encoding) (hx : polymod xs = specConst s)
    (a g j v1 v2 : Nat) (hj : g + (j + 1) < 89) (h1 : 1 ≤ v1) (h1' : v1 < 32) (h2 : 1 ≤ v2) (h2' : v2 < 32)
    (hl : xs.length = a + 1 + g + 1 + j) (s' : Encoding) :
    polymod (corrupt xs (List.replicate a 0 ++ v1 :: (List.replicate g 0 ++ v2 :: List.replicate j 0))) ≠ specConst s' := by
  have hred := C11_errdetect_reduction xs
    (List.replicate a 0 ++ v1 :: (List.replicate g 0 ++ v2 :: List.replicate j 0)) (by simp; omega) s hx
  rw [syndrome_double_word] at hred
  have hne := single_pair_ne (g + (j + 1)) v1 j v2 hj h1 h1' (by omega) h2 h2' (by omega)
  by_cases hs : s' = s
  · subst hs; intro h; exact hne.1 (hred.1.mp h)
  · intro h; exact hne.2 ((hred.2 s' hs).mp h)

/-- the finite statement behind BIP173's guarantee: no non-zero error word of weight ≤ 4 spanning at most 89 symbols
has syndrome 0 (it is a statement about the generator words only; `weight` = number of non-zero symbols,
`Proofs/Bech32Err4.lean`) -/
def NoZeroSyndrome : Prop :=
  ∀ e : List Nat, e.length ≤ 89 → (∀ x ∈ e, x < 32) → 1 ≤ weight e → weight e ≤ 4 → syndrome e ≠ 0

/-- **minimum distance 5 within the BIP173 length limit** — `NoZeroSyndrome` holds for the generator words that
`bech32_polymod` has now.  Weights 1–2: `singles_table_w1/_w2`.  Weights 3–4 (`Proofs/Bech32Err4.lean`): the syndrome
is the xor of the single-error syndromes `v·x^j mod g` of its non-zero symbols; shifting all positions down (a round
with a zero symbol is injective) puts the lowest error at position 0, where its syndrome is the symbol itself, i.e.
lives in the lowest five bits; multiplying by a scalar of GF(32) (`sigma`, commutes with a round on the whole table)
makes one of the other symbols 1.  What is left is finite: for 1 ≤ k < l ≤ 88 and d in 1..31 the 118 668 values
`(single k 1 xor single l d) >> 5` avoid the 2 729 keys `single j v >> 5` (and 0).  The table of the 89 × 31
single-error syndromes is regenerated from the real `bech32_polymod` by the translator (`Gen/Bech32Syn.lean`),
re-derived from the model in the kernel (`synRows_rowsFrom`), and the avoidance is evaluated in the kernel
(`synChunkA..D`) through bit-set filters each proved to contain every key (`synFilters_ok`). -/
theorem C11_bech32_min_distance_5 : NoZeroSyndrome := syndrome_ne_zero_le4

/-- **up to four substitutions** (hypothesis-free; replaces the former `C11_errdetect_le4_partial`).  Any 1..4 substituted symbols within the last 89 symbols of a word
accepted with constant `s` — `xs` = expanded hrp ++ data ++ checksum, so for every string up to the BIP173 limit of 90
characters all of the data part and checksum, whatever the hrp — give a word that is *not accepted with the same
constant*.  `corrupt xs e` xors symbol-wise, which covers every substitution.  Acceptance under the *other* constant is
not excluded (and happens): see `C11_errdetect_any4_refuted`. -/
theorem C11_errdetect_le4 (xs : List Nat) (s : Encoding) (hx : polymod xs = specConst s)
    (a : Nat) (e : List Nat) (he : e.length ≤ 89) (hlt : ∀ x ∈ e, x < 32) (hw1 : 1 ≤ weight e) (hw4 : weight e ≤ 4)
    (hl : xs.length = a + e.length) :
    polymod (corrupt xs (List.replicate a 0 ++ e)) ≠ specConst s := by
  have hred := C11_errdetect_reduction xs (List.replicate a 0 ++ e) (by simp; omega) s hx
  rw [syndrome_replicate_append] at hred
  intro h
  exact syndrome_ne_zero_le4 e he hlt hw1 hw4 (hred.1.mp h)

/-- non-vacuity: a weight-4 error word of 89 symbols satisfies the hypotheses (and has a non-zero syndrome) -/
example : let e := 3 :: 0 :: 7 :: (List.replicate 84 0 ++ [1, 31])
    e.length ≤ 89 ∧ (∀ x ∈ e, x < 32) ∧ weight e = 4 ∧ syndrome e ≠ 0 := by decide +kernel

/-- number of positions in which two strings of the same length differ -/
def hamming (a b : List Char) : Nat := ((a.zip b).filter (fun p => p.1 != p.2)).length

/-- the clause of the property read literally: whatever differs in 1..4 characters from an accepted address is refused -/
def ErrDetect4 : Prop :=
  ∀ hrp t t' : List Char, decode hrp t ≠ none → t'.length = t.length → 1 ≤ hamming t t' → hamming t t' ≤ 4 →
    decode hrp t' = none

theorem decode_accepts_160 (hrp t : List Char) (ver : Nat) (rest : List Nat) (spec : Encoding)
    (hraw : bech32Decode t = some (hrp, ver :: rest, spec)) (hlen : rest.length = 32) (hv : ver ≤ 16)
    (hspec : spec = specOf ver) : decode hrp t ≠ none := by
  have hd : ∀ x ∈ rest, x < 2 ^ 5 := by
    have := (bech32Decode_some t hrp _ spec hraw).2.2.2.2.2.1
    intro x hx; exact this x (List.mem_cons_of_mem _ hx)
  obtain ⟨R, b, hb, hlenR, _, _, hres⟩ := convertbits_nopad 5 8 pos8 rest hd
  have hb0 : b = 0 := by omega
  subst hb0
  have hcond : ¬ (0 ≥ 5 ∨ Base58.ofDigits (2 ^ 5) rest % 2 ^ 0 ≠ 0) := by
    simp [Nat.mod_one]
  rw [if_neg hcond] at hres
  have hR : R.length = 20 := by omega
  rw [decode_of_raw hrp t hrp _ spec hraw]
  simp only [ne_eq, not_true_eq_false, if_false, hres, hR]
  have c4 : ¬ ((ver = 0 ∧ spec ≠ .bech32) ∨ (ver ≠ 0 ∧ spec ≠ .bech32m)) := by
    rw [hspec]; unfold specOf
    by_cases h0 : ver = 0 <;> simp [h0]
  have c2 : ¬ (ver > 16) := by omega
  simp [c2, c4]

def witnessA : List Char := "bc1qw508d6qejxtdg4y5r3zarvary0c5xw7kv8f3t4".toList
def witnessB : List Char := "bc1rw508d6nejxtdg4y5rezarvaay0c5xw7kv8f3t4".toList

theorem witnessA_raw : bech32Decode witnessA = some (['b', 'c'],
    [0, 14, 20, 15, 7, 13, 26, 0, 25, 18, 6, 11, 13, 8, 21, 4, 20, 3, 17, 2, 29, 3, 12, 29, 3, 4, 15, 24, 20, 6, 14, 30, 22],
    .bech32) := by decide +kernel

theorem witnessB_raw : bech32Decode witnessB = some (['b', 'c'],
    [3, 14, 20, 15, 7, 13, 26, 19, 25, 18, 6, 11, 13, 8, 21, 4, 20, 3, 25, 2, 29, 3, 12, 29, 29, 4, 15, 24, 20, 6, 14, 30, 22],
    .bech32m) := by decide +kernel

/-- **the literal clause is false** (for pycoin as for every BIP350 decoder): the BIP173 example address
`bc1qw508d6qejxtdg4y5r3zarvary0c5xw7kv8f3t4` (v0, Bech32) and `bc1rw508d6nejxtdg4y5rezarvaay0c5xw7kv8f3t4`, which differs
from it in four characters, are both accepted by `decode("bc", ·)` — the second as a version-3 Bech32m address.  Four
substitutions that include the version symbol can move a string from one checksum constant to the other; BIP350 does
not promise otherwise.  Replayed on the implementation by `corpus/C11.txt`. -/
theorem C11_errdetect_any4_refuted : ¬ ErrDetect4 := by
  intro H
  have hA := decode_accepts_160 ['b', 'c'] witnessA 0 _ .bech32 witnessA_raw (by decide) (by decide) (by decide)
  have hB := decode_accepts_160 ['b', 'c'] witnessB 3 _ .bech32m witnessB_raw (by decide) (by decide) (by decide)
  exact hB (H ['b', 'c'] witnessA witnessB hA (by decide) (by decide) (by decide))

/-! ## non-vacuity (evaluated) -/
#guard decide (Allowed ['b', 'c'] 0 (List.replicate 20 7))
#guard (encode ['b', 'c'] 0 (List.replicate 20 7)) matches .ok (some _)
#guard (encode ['B', 'c'] 0 (List.replicate 20 7)) matches .ok none
#guard (encode ['b', 'c'] 32 (List.replicate 20 7)) matches .error .indexError
#guard (bech32Decode "A12UEL5L".toList) matches some (['a'], [], .bech32)
#guard (bech32Decode "A1LQFN3A".toList) matches some (['a'], [], .bech32m)
#guard (bech32Decode "a12UEL5L".toList) matches none
#guard (decode ['b', 'c'] "BC1QW508D6QEJXTDG4Y5R3ZARVARY0C5XW7KV8F3T4".toList) matches some (0, _)
#guard (decode ['b', 'c'] "bc1qw508d6qejxtdg4y5r3zarvary0c5xw7kemeawh".toList) matches none   -- v0 with the Bech32m constant
#guard (decode ['b', 'c'] "bc1zw508d6qejxtdg4y5r3zarvaryvqyzf3du".toList) matches none        -- non-zero padding

end Pycoin.Bech32

/-! # parseable_str: the per-string cache -/
namespace Pycoin.Pstr
open Pycoin

/-- the cache keys read off the source (`Gen/PstrKeys.lean`) are pairwise different: the cache is keyed by decoder
identity.  Fails to elaborate as soon as two decoders share a key. -/
theorem C11_pstr_keys_distinct : ∀ d d', key d = key d' → d = d' := by
  intro d d'
  cases d <;> cases d' <;> first | (intro _; rfl) | (intro h; exact absurd h (by decide))

/-- **cache transparency.** Whatever decoders (`parse_b58`, `parse_b58_double_sha256`, the Groestlcoin
`parse_b58_groestl`, `parse_bech32`) are applied, in whatever order and however often, to ONE `parseable_str`
object starting from an empty cache, every answer is the answer the decoder gives on a fresh string. -/
theorem C11_pstr_cache_transparent (tb : Bytes) (tc : List Char) (steps : List Dec) :
    runSeq tb tc steps [] = steps.map (fun d => pure d tb tc) :=
  runSeq_spec C11_pstr_keys_distinct tb tc steps [] (inv_nil tb tc)

/-- the uncached `parse_b58_double_sha256` is the decoder of the Base58 half (and hence accepts exactly the strings
`a2b_hashed_base58` accepts: `C11_parse_b58_agrees`) -/
theorem C11_pstr_b58sha_is_hashed (tb : Bytes) (tc : List Char) :
    pure .b58sha tb tc = .bytes (Base58.parseB58DoubleSha256 tb) := by
  unfold pure checkHashed Base58.parseB58DoubleSha256
  cases Base58.parseB58 tb <;> rfl

end Pycoin.Pstr
