import Pycoin.Model.Base58
import Pycoin.Model.Bech32
namespace Pycoin.Base58
theorem C11_placeholder : True := trivial
end Pycoin.Base58
