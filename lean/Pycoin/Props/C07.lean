import Pycoin.Model.Tx
import Pycoin.Model.Spendable
import Pycoin.Spec.Wire
import Pycoin.Proofs.Prefix
import Pycoin.Proofs.TxWire
import Pycoin.Proofs.TxParse
import Pycoin.Proofs.History
/-!
C07 — Transactions round-trip through the wire format and have stable ids.
Property theorems over `Model/Tx.lean` / `Model/Spendable.lean`, with `Spec/Wire.lean` as the wire format.
`Tx.WF` = every field in its wire range (Proofs/TxWire.lean).
-/
namespace Pycoin
open Pycoin.Wire

/-! ## compact-size integers -/

/-- C07.compact_size: every count and length in 0..2^64−1 is written in the standard compactSize form (1, 3, 5 or 9
bytes with the boundaries at 0xfc/0xfd, 0xffff/0x10000, 2^32−1/2^32) and parses back, whatever follows -/
theorem C07_compact_size_rt (n : Nat) (hn : n < 2 ^ 64) (rest : Bytes) :
    streamSatoshiInt n = .ok (Spec.Wire.compactSize n) ∧
      parseSatoshiInt none (Spec.Wire.compactSize n ++ rest) = .ok (n, rest) := by
  have h := streamSatoshiInt_eq n hn
  exact ⟨h, satoshiInt_law n _ rest trivial h⟩

/-- values outside 0..2^64−1 are refused (`struct.error`), never truncated -/
theorem C07_compact_size_range (v : Int) (h : v < 0 ∨ 18446744073709551616 ≤ v) :
    streamSatoshiInt v = .error .structError := by
  unfold streamSatoshiInt packLE
  rcases h with h | h
  · have h1 : v < 253 := by omega
    have h2 : ¬ (0 ≤ v ∧ v < ((256 ^ 1 : Nat) : Int)) := by omega
    simp only [h1, if_true, h2, if_false]
  · have h1 : ¬ v < 253 := by omega
    have h2 : ¬ v ≤ 65535 := by omega
    have h3 : ¬ v ≤ 0xFFFFFFFF := by omega
    have h4 : ¬ (0 ≤ v ∧ v < ((256 ^ 8 : Nat) : Int)) := by
      have : ((256 ^ 8 : Nat) : Int) = 18446744073709551616 := by decide
      omega
    simp only [h1, h2, h3, if_false, h4, Except.map]

#guard Spec.Wire.compactSize 0xFC == [0xFC]
#guard Spec.Wire.compactSize 0xFD == [0xFD, 0xFD, 0x00]
#guard Spec.Wire.compactSize 0xFFFF == [0xFD, 0xFF, 0xFF]
#guard Spec.Wire.compactSize 0x10000 == [0xFE, 0x00, 0x00, 0x01, 0x00]
#guard Spec.Wire.compactSize 0xFFFFFFFF == [0xFE, 0xFF, 0xFF, 0xFF, 0xFF]
#guard Spec.Wire.compactSize 0x100000000 == [0xFF, 0, 0, 0, 0, 1, 0, 0, 0]


/-- what the registered compact-size streamer writes for the boundary values (probed from the source on every run)
is the standard encoding; the array count of `parse_struct` is read as a compact size -/
theorem C07_compact_probes :
    (∀ p ∈ Gen.Formats.compactProbes, Spec.Wire.compactSize p.1 = p.2) ∧ Gen.Formats.arrayCountIsCompactInt = true := by
  decide +kernel

/-! ## serialisation equals the wire format -/

theorem hasWitnessData_eq (tx : Tx) : tx.hasWitnessData = Spec.Wire.hasWitness tx := by
  unfold Tx.hasWitnessData Spec.Wire.hasWitness
  congr 1
  funext t
  cases t.witness <;> simp

theorem streamStruct_L_eq (v : Int) (h : U32 v) :
    streamStruct tbl ['L'] [.int v] = .ok (Spec.Wire.le 4 v.toNat) := by
  simp [streamStruct, tbl_L, streamLetter, packLE4_eq v h]

theorem streamStruct_I_eq (n : Nat) (h : n < 2 ^ 64) :
    streamStruct tbl ['I'] [.int n] = .ok (Spec.Wire.compactSize n) := by
  have := streamSatoshiInt_eq n h
  simp only [streamStruct, tbl_I, streamLetter, this, List.append_nil]

/-- `Tx.stream(include_witness_data=iwd)` is the BIP144 form when witness data is included and present, the legacy
form otherwise -/
theorem stream_eq_spec (tx : Tx) (hwf : tx.WF) (iwd : Bool) :
    tx.stream false iwd =
      .ok (if (iwd && Spec.Wire.hasWitness tx) = true then Spec.Wire.bip144 tx else Spec.Wire.legacy tx) := by
  have hins := streamList_eq (fun t : TxIn => t.stream false) Spec.Wire.txin tx.ins
    (fun t ht => TxIn.stream_eq t (hwf.ins t ht))
  have houts := streamList_eq TxOut.stream Spec.Wire.txout tx.outs (fun t ht => TxOut.stream_eq t (hwf.outs t ht))
  have hwit := streamList_eq (fun t : TxIn => Tx.streamWitness t.witness) (fun t => Spec.Wire.witness t.witness) tx.ins
    (fun t ht => streamWitness_eq t.witness (hwf.ins t ht).witnessCount (hwf.ins t ht).witnessItems)
  unfold Tx.stream
  rw [hasWitnessData_eq]
  simp only [Gen.Formats.tx_stream_version, Gen.Formats.tx_stream_lenTxsIn, Gen.Formats.tx_stream_lenTxsOut,
    Gen.Formats.tx_stream_lockTime, streamStruct_L_eq _ hwf.version, streamStruct_L_eq _ hwf.lockTime,
    streamStruct_I_eq _ hwf.inCount, streamStruct_I_eq _ hwf.outCount, hins, houts, bind, Except.bind, pure, Except.pure]
  by_cases hw : (iwd && Spec.Wire.hasWitness tx) = true
  · simp only [hw, if_true, hwit, Spec.Wire.bip144, List.append_assoc]
  · simp only [hw, if_false, Spec.Wire.legacy, List.append_assoc, List.nil_append, Bool.false_eq_true]

/-- C07.ser_is_wire: the bytes equal the standard wire format — BIP144 extended form when some witness is
non-empty, legacy form otherwise -/
theorem C07_ser_is_wire (tx : Tx) (hwf : tx.WF) : tx.stream = .ok (Spec.Wire.ser tx) := by
  rw [stream_eq_spec tx hwf true]
  simp [Spec.Wire.ser]

theorem asBin_eq_stream (tx : Tx) : tx.asBin = tx.stream := by
  unfold Tx.asBin
  cases tx.stream <;> rfl

/-! ## round trip -/

theorem Tx.WF.parseable {tx : Tx} (hwf : tx.WF) :
    (∀ t ∈ tx.ins, t.prevHash.length = 32 ∧ LenOk t.script ∧ ∀ w ∈ t.witness, LenOk w) ∧
      ∀ o ∈ tx.outs, LenOk o.script :=
  ⟨fun t ht => ⟨(hwf.ins t ht).hash, (hwf.ins t ht).script, (hwf.ins t ht).witnessItems⟩,
   fun o ho => (hwf.outs o ho).script⟩

theorem parse_cases (c : Coin) : Tx.parse c = Tx.parseLtc ∨ Tx.parse c = Tx.parseBtc true := by
  cases c
  · right; rfl
  · left; rfl
  · right; rfl
  · right; rfl
  · right; rfl

/-- C07.tx_parse_ser: for every transaction with at least one input and fields in range, of every class,
parsing the serialisation (followed by anything) yields the transaction and leaves what followed -/
theorem C07_tx_parse_ser (c : Coin) (tx : Tx) (hwf : tx.WF) (hne : 1 ≤ tx.ins.length) (rest : Bytes) :
    ∃ b, tx.stream = .ok b ∧ Tx.parse c (b ++ rest) = .ok (tx, rest) := by
  refine ⟨_, C07_ser_is_wire tx hwf, ?_⟩
  have hne' : tx.ins ≠ [] := by
    intro h; rw [h] at hne; simp at hne
  rcases parse_cases c with h | h <;> rw [h]
  · exact Tx.parseLtc_stream tx _ rest hwf.parseable.1 hwf.parseable.2 hne' (C07_ser_is_wire tx hwf)
  · exact Tx.parseBtc_stream tx _ rest hwf.parseable.1 hwf.parseable.2 hne' (C07_ser_is_wire tx hwf)

/-- the law in `PrefixLaw` form -/
theorem tx_law (c : Coin) : PrefixLaw (fun tx : Tx => tx.stream) (Tx.parse c) (fun tx => tx.WF ∧ 1 ≤ tx.ins.length) := by
  intro tx b rest ⟨hwf, hne⟩ h
  obtain ⟨b', hb', hp⟩ := C07_tx_parse_ser c tx hwf hne rest
  have h : tx.stream = .ok b := h
  rw [h] at hb'
  have := Except.ok.inj hb'
  subst this
  exact hp

/-- bytes that are the wire encoding of some in-range transaction with at least one input -/
def Canonical (b : Bytes) : Prop := ∃ tx : Tx, tx.WF ∧ 1 ≤ tx.ins.length ∧ b = Spec.Wire.ser tx

/-- C07.reser_id: parsing canonical bytes consumes them all, and re-serialising the result returns them unchanged -/
theorem C07_reser_id (c : Coin) (b : Bytes) (hc : Canonical b) (tx : Tx) (rest : Bytes)
    (hp : Tx.parse c b = .ok (tx, rest)) : rest = [] ∧ tx.stream = .ok b := by
  obtain ⟨tx', hwf, hne, rfl⟩ := hc
  have h := tx_law c tx' _ [] ⟨hwf, hne⟩ (C07_ser_is_wire tx' hwf)
  rw [List.append_nil, hp] at h
  have h := Except.ok.inj h
  injection h with h1 h2
  subst h1 h2
  exact ⟨rfl, C07_ser_is_wire tx hwf⟩

/-- `ser` is injective: different transactions have different serialisations -/
theorem ser_injective (a b : Tx) (ha : a.WF) (hb : b.WF) (ha1 : 1 ≤ a.ins.length) (hb1 : 1 ≤ b.ins.length)
    (h : Spec.Wire.ser a = Spec.Wire.ser b) : a = b :=
  (tx_law .btc).injective a b _ ⟨ha, ha1⟩ ⟨hb, hb1⟩ (C07_ser_is_wire a ha) (by rw [h]; exact C07_ser_is_wire b hb)

/-! ## ids -/

/-- C07.txid_def: the transaction id is the double SHA-256 of the witness-stripped (legacy) serialisation
(single SHA-256 for the Groestlcoin class), shown reversed in hex -/
theorem C07_txid_def (c : Coin) (tx : Tx) (hwf : tx.WF) :
    Tx.hash c tx = .ok (Tx.idDigest c (Spec.Wire.legacy tx)) ∧
    Tx.id c tx = .ok (Tx.b2hRev (Tx.idDigest c (Spec.Wire.legacy tx))) ∧
    (c.singleSha = false → Tx.hash c tx = .ok (Spec.Wire.txid tx)) := by
  have h : Tx.hash c tx = .ok (Tx.idDigest c (Spec.Wire.legacy tx)) := by
    unfold Tx.hash
    rw [stream_eq_spec tx hwf false]
    simp [Except.map]
  refine ⟨h, ?_, ?_⟩
  · simp [Tx.id, h, Except.map]
  · intro hs
    rw [h]
    simp [Tx.idDigest, hs, Spec.Wire.txid]

/-- without witness data, `stream` does not look at the witness stacks -/
theorem stream_nowit_strip (tx : Tx) : tx.stream false false = (Spec.Wire.stripWitness tx).stream false false := by
  unfold Tx.stream Spec.Wire.stripWitness
  simp only [Bool.false_and, List.length_map, Bool.false_eq_true, if_false]
  have : streamList (fun t : TxIn => t.stream false) (tx.ins.map fun t => { t with witness := [] }) =
      streamList (fun t : TxIn => t.stream false) tx.ins := by
    rw [streamList_map]; rfl
  rw [this]

/-- C07.txid_witness_independent: transactions that differ only in witness data have the same id (all inputs,
no range hypothesis) -/
theorem C07_txid_witness_independent (c : Coin) (a b : Tx)
    (h : Spec.Wire.stripWitness a = Spec.Wire.stripWitness b) : Tx.id c a = Tx.id c b := by
  unfold Tx.id Tx.hash
  rw [stream_nowit_strip a, stream_nowit_strip b, h]

/-- C07.wtxid_covers_witness: the witness id is the digest of the full serialisation, and two different
transactions — in particular two that differ only in witness data — are hashed from different byte strings
(equal witness ids would be a SHA-256 collision) -/
theorem C07_wtxid_covers_witness (c : Coin) (a b : Tx) (ha : a.WF) (hb : b.WF) (ha1 : 1 ≤ a.ins.length)
    (hb1 : 1 ≤ b.ins.length) (hne : a ≠ b) :
    Tx.wHash c a = .ok (Tx.idDigest c (Spec.Wire.ser a)) ∧ Tx.wHash c b = .ok (Tx.idDigest c (Spec.Wire.ser b)) ∧
      Spec.Wire.ser a ≠ Spec.Wire.ser b := by
  refine ⟨?_, ?_, fun h => hne (ser_injective a b ha hb ha1 hb1 h)⟩
  · simp [Tx.wHash, asBin_eq_stream, C07_ser_is_wire a ha, Except.map]
  · simp [Tx.wHash, asBin_eq_stream, C07_ser_is_wire b hb, Except.map]

/-! ## hex and binary forms -/

theorem val_digit : ∀ n : Fin 16, Hex.val? (Hex.digit n.val) = some n.val := by decide

theorem decode_encode : ∀ b : Bytes, Hex.decodeChars (Hex.encodeChars b) = some b
  | [] => rfl
  | x :: bs => by
    have h1 := val_digit ⟨x.toNat / 16, by have := x.toNat_lt; omega⟩
    have h2 := val_digit ⟨x.toNat % 16, by omega⟩
    simp only at h1 h2
    simp only [Hex.encodeChars, Hex.decodeChars, h1, h2, decode_encode bs, bind, Option.bind, pure]
    have : 16 * (x.toNat / 16) + x.toNat % 16 = x.toNat := by omega
    rw [this, UInt8.ofNat_toNat]

theorem h2b_b2h (b : Bytes) : Tx.h2b (Tx.b2h b) = .ok b := by
  simp [Tx.h2b, Tx.b2h, decode_encode]

theorem txOut_parse_nil : TxOut.parse [] = .error .structError := by
  simp [TxOut.parse, Gen.Formats.txOut_parse, parseStruct, parseStructGo, tbl_Q, parseLetter, unpackLE]

theorem parseUnspents_nil (n : Nat) (hn : 1 ≤ n) : ∃ e, Tx.parseUnspents n [] = .error e := by
  cases n with
  | zero => omega
  | succ k => exact ⟨.structError, by simp [Tx.parseUnspents, parseN, txOut_parse_nil]⟩

theorem fromBin_ser (c : Coin) (tx : Tx) (hwf : tx.WF) (hne : 1 ≤ tx.ins.length) :
    Tx.fromBin c (Spec.Wire.ser tx) = .ok (tx, []) := by
  have h := tx_law c tx _ [] ⟨hwf, hne⟩ (C07_ser_is_wire tx hwf)
  rw [List.append_nil] at h
  obtain ⟨e, he⟩ := parseUnspents_nil tx.ins.length hne
  simp [Tx.fromBin, h, he]

/-- C07.bin_rt: `from_bin(as_bin(tx)) = tx` (no unspents) -/
theorem C07_bin_rt (c : Coin) (tx : Tx) (hwf : tx.WF) (hne : 1 ≤ tx.ins.length) :
    ∃ b, tx.asBin = .ok b ∧ Tx.fromBin c b = .ok (tx, []) :=
  ⟨_, by rw [asBin_eq_stream]; exact C07_ser_is_wire tx hwf, fromBin_ser c tx hwf hne⟩

/-- C07.hex_rt: `from_hex(as_hex(tx)) = tx`, and the hex text is that of the wire format -/
theorem C07_hex_rt (c : Coin) (tx : Tx) (hwf : tx.WF) (hne : 1 ≤ tx.ins.length) :
    tx.asHex = .ok (Tx.b2h (Spec.Wire.ser tx)) ∧ Tx.fromHex c (Tx.b2h (Spec.Wire.ser tx)) = .ok (tx, []) := by
  constructor
  · simp [Tx.asHex, asBin_eq_stream, C07_ser_is_wire tx hwf, Except.map]
  · simp [Tx.fromHex, h2b_b2h, fromBin_ser c tx hwf hne]

/-! ## the unspents extension -/

theorem missingUnspents_all_present (tx : Tx) (us : List TxOut) (hlen : us.length = tx.ins.length) :
    tx.missingUnspents (us.map some) = false := by
  unfold Tx.missingUnspents
  split
  · rfl
  · have h1 : ((us.map some).length != tx.ins.length) = false := by simp [hlen]
    rw [h1, Bool.false_or, List.any_eq_false]
    intro idx hidx
    have hi : idx < us.length := by rw [hlen]; exact List.mem_range.mp hidx
    simp [hi]

/-- C07.unspents_ext_rt: a transaction streamed with its spent outputs appended (`include_unspents=True`) reads back
with the same transaction and the same unspents, for non-zero amounts -/
theorem C07_unspents_ext_rt (c : Coin) (tx : Tx) (hwf : tx.WF) (hne : 1 ≤ tx.ins.length) (us : List TxOut)
    (hlen : us.length = tx.ins.length) (hus : ∀ u ∈ us, u.WF ∧ u.value ≠ 0) :
    ∃ b, tx.asBin (us.map some) true = .ok b ∧ Tx.fromBin c b = .ok (tx, us.map some) := by
  have hext := streamList_eq TxOut.stream Spec.Wire.txout us (fun u hu => TxOut.stream_eq u (hus u hu).1)
  have hsu : Tx.streamUnspents (us.map some) = .ok (us.map Spec.Wire.txout).flatten := by
    unfold Tx.streamUnspents
    rw [streamList_map]
    exact hext
  refine ⟨Spec.Wire.ser tx ++ (us.map Spec.Wire.txout).flatten, ?_, ?_⟩
  · simp [Tx.asBin, C07_ser_is_wire tx hwf, missingUnspents_all_present tx us hlen, hsu, bind, Except.bind, pure, Except.pure]
  · have h := tx_law c tx _ (us.map Spec.Wire.txout).flatten ⟨hwf, hne⟩ (C07_ser_is_wire tx hwf)
    have h2 := parseN_txOut us _ [] (fun u hu => (hus u hu).1.script) hext
    rw [List.append_nil] at h2
    have h3 : us.map (fun o => if o.value = 0 then none else some o) = us.map some := by
      apply List.map_congr_left
      intro u hu
      simp [(hus u hu).2]
    simp [Tx.fromBin, h, Tx.parseUnspents, ← hlen, h2, h3]

/-! ## spendables -/

structure Spendable.WF (s : Spendable) : Prop where
  value : U64 s.coinValue
  script : LenOk s.script
  hash : s.txHash.length = 32
  index : U32 s.txOutIndex
  available : U64 s.blockIndexAvailable
  seemsSpent : s.doesSeemSpent = 0 ∨ s.doesSeemSpent = 1
  spent : U64 s.blockIndexSpent

/-- C07.spendable_dict_rt: `from_dict(as_dict(s)) = s` for every spendable -/
theorem C07_spendable_dict_rt (s : Spendable) : Spendable.fromDict s.asDict = .ok s := by
  cases s
  simp [Spendable.fromDict, Spendable.asDict, Tx.b2hRev, h2b_b2h, bind, Except.bind, pure, Except.pure]
  rw [← Tx.b2h, h2b_b2h]
  simp

theorem streamSatoshiInt_eq_int (v : Int) (h : U64 v) :
    streamSatoshiInt v = .ok (Spec.Wire.compactSize v.toNat) := by
  have h0 := h.1
  have h1 := h.2
  have e : v = ((v.toNat : Nat) : Int) := (Int.toNat_of_nonneg h0).symm
  have hn : v.toNat < 2 ^ 64 := by omega
  have := streamSatoshiInt_eq v.toNat hn
  rw [← e] at this
  exact this

/-- C07.spendable_bin_rt: the binary spendable form (`as_bin(as_spendable=True)`) parses back, whatever follows -/
theorem C07_spendable_bin_rt (s : Spendable) (h : s.WF) (rest : Bytes) :
    ∃ b, s.asBin true = .ok b ∧ Spendable.parse (b ++ rest) = .ok (s, rest) ∧ Spendable.fromBin b = .ok s := by
  have hh : List.take 32 s.txHash = s.txHash := List.take_of_length_le (by rw [h.hash]; exact Nat.le_refl _)
  let vals : List Val := [.int s.coinValue, .bytes s.script, .bytes s.txHash, .int s.txOutIndex,
    .int s.blockIndexAvailable, .bool (s.doesSeemSpent != 0), .int s.blockIndexSpent]
  -- the whole record streams under the parse format
  have hall : ∃ b, streamStruct tbl F.spendable_parse vals = .ok b ∧ s.asBin true = .ok b := by
    cases hx : streamStruct tbl F.spendable_parse vals with
    | error e =>
      simp only [vals, Gen.Formats.spendable_parse, streamStruct, tbl_Q, tbl_S, tbl_hash, tbl_L, tbl_I, tbl_b, streamLetter,
        packLE8_eq _ h.value, packLE4_eq _ h.index, streamSatoshiString_eq _ (lenOk_lt h.script),
        streamSatoshiInt_eq_int _ h.available, streamSatoshiInt_eq_int _ h.spent, hh] at hx
      cases hx
    | ok b =>
      refine ⟨b, rfl, ?_⟩
      simp only [vals, Gen.Formats.spendable_parse, streamStruct, tbl_Q, tbl_S, tbl_hash, tbl_L, tbl_I, tbl_b, streamLetter,
        packLE8_eq _ h.value, packLE4_eq _ h.index, streamSatoshiString_eq _ (lenOk_lt h.script),
        streamSatoshiInt_eq_int _ h.available, streamSatoshiInt_eq_int _ h.spent, hh] at hx
      have hx := Except.ok.inj hx
      subst hx
      simp only [Spendable.asBin, Spendable.stream, TxOut.stream, Gen.Formats.txOut_stream, Gen.Formats.spendable_stream,
        streamStruct, tbl_Q, tbl_S, tbl_hash, tbl_L, tbl_I, tbl_b, streamLetter,
        packLE8_eq _ h.value, packLE4_eq _ h.index, streamSatoshiString_eq _ (lenOk_lt h.script),
        streamSatoshiInt_eq_int _ h.available, streamSatoshiInt_eq_int _ h.spent, hh, bind, Except.bind, pure, Except.pure,
        if_true, List.append_assoc, List.append_nil]
  obtain ⟨b, hb, hab⟩ := hall
  have hwf : StructWF tbl F.spendable_parse vals := by
    simp only [vals, Gen.Formats.spendable_parse, StructWF, tbl_Q, tbl_S, tbl_hash, tbl_L, tbl_I, tbl_b, LetterWF]
    refine ⟨by decide, ⟨_, rfl, trivial⟩, by decide, ⟨_, rfl, h.script⟩, by decide, ⟨_, rfl, h.hash⟩, by decide, ⟨_, rfl, trivial⟩,
      by decide, ⟨_, rfl, trivial⟩, by decide, ⟨_, rfl, trivial⟩, by decide, ⟨_, rfl, trivial⟩, trivial⟩
  have hp : ∀ r, Spendable.parse (b ++ r) = .ok (s, r) := by
    intro r
    have := parseStruct_streamStruct tbl _ _ b r hwf hb
    unfold Spendable.parse
    rw [this]
    simp only [vals]
    have hd : (if (s.doesSeemSpent != 0) = true then (1 : Int) else 0) = s.doesSeemSpent := by
      rcases h.seemsSpent with h0 | h1
      · rw [h0]; rfl
      · rw [h1]; rfl
    cases s
    simp only at hd ⊢
    rw [hd]
  refine ⟨b, hab, hp rest, ?_⟩
  have := hp []
  rw [List.append_nil] at this
  simp [Spendable.fromBin, this]

/-! ## spendable text form -/

namespace Spendable

theorem digitVal_digitChar : ∀ n : Fin 10, digitVal? (Nat.digitChar n.val) = some n.val := by decide

theorem decGo_append (c : Char) : ∀ (l : List Char) (acc : Nat),
    decGo (l ++ [c]) acc = (decGo l acc).bind (fun m => (digitVal? c).map (fun d => 10 * m + d))
  | [], acc => by
    cases h : digitVal? c <;> simp [decGo, h]
  | x :: xs, acc => by
    cases h : digitVal? x <;> simp [decGo, h, decGo_append c xs]

theorem decGo_toDigits (n : Nat) : decGo (Nat.toDigits 10 n) 0 = some n := by
  induction n using Nat.strongRecOn with
  | _ n ih =>
    rw [Nat.toDigits_eq_if (by decide)]
    split
    · rename_i h
      have := digitVal_digitChar ⟨n, h⟩
      simp only at this
      simp [decGo, this]
    · rename_i h
      rw [decGo_append, ih (n / 10) (by omega)]
      have := digitVal_digitChar ⟨n % 10, by omega⟩
      simp only at this
      simp [this]
      omega

theorem decToNat_natToDec (n : Nat) : decToNat? (natToDec n) = some n := by
  unfold decToNat? natToDec
  split
  · rename_i h; exact absurd h Nat.toDigits_ne_nil
  · exact decGo_toDigits n

theorem natToDec_digits (n : Nat) : ∀ c ∈ natToDec n, c.isDigit = true :=
  fun _ hc => Nat.isDigit_of_mem_toDigits (by decide) (by decide) hc

theorem pyInt_intToDec (v : Int) : pyInt? (intToDec v) = .ok v := by
  unfold intToDec
  split
  · rename_i h
    simp only [pyInt?, if_true, decToNat_natToDec]
    have e : -(v.natAbs : Int) = v := by
      rw [Int.ofNat_natAbs_of_nonpos (Int.le_of_lt h)]
      exact Int.neg_neg v
    rw [e]
  · rename_i h
    cases hd : natToDec v.toNat with
    | nil => exact absurd hd Nat.toDigits_ne_nil
    | cons c r =>
      have hc : c.isDigit = true := natToDec_digits v.toNat c (by rw [hd]; simp)
      have h1 : ¬ c = '-' := by intro e; subst e; revert hc; decide
      have h2 : ¬ c = '+' := by intro e; subst e; revert hc; decide
      simp only [pyInt?, h1, h2, if_false]
      rw [← hd, decToNat_natToDec]
      simp only
      rw [Int.toNat_of_nonneg (Int.not_lt.mp h)]

theorem intToDec_noSlash (v : Int) : '/' ∉ intToDec v := by
  unfold intToDec
  intro h
  split at h
  · rcases List.mem_cons.mp h with h | h
    · revert h; decide
    · have := natToDec_digits _ _ h; revert this; decide
  · have := natToDec_digits _ _ h; revert this; decide

theorem digit_noSlash : ∀ n : Fin 16, Hex.digit n.val ≠ '/' := by decide

theorem encodeChars_noSlash : ∀ b : Bytes, '/' ∉ Hex.encodeChars b
  | [] => by simp [Hex.encodeChars]
  | x :: bs => by
    have h1 := digit_noSlash ⟨x.toNat / 16, by have := x.toNat_lt; omega⟩
    have h2 := digit_noSlash ⟨x.toNat % 16, by omega⟩
    simp only at h1 h2
    simp only [Hex.encodeChars, List.mem_cons, not_or]
    exact ⟨fun e => h1 e.symm, fun e => h2 e.symm, encodeChars_noSlash bs⟩

theorem splitGo_noSep (c : Char) : ∀ (p cur : List Char), c ∉ p → splitGo c p cur = [cur.reverse ++ p]
  | [], cur, _ => by simp [splitGo]
  | x :: xs, cur, h => by
    have hx : ¬ x = c := fun e => h (by simp [e])
    simp only [splitGo, hx, if_false]
    rw [splitGo_noSep c xs (x :: cur) (fun hm => h (by simp [hm]))]
    simp

theorem splitGo_sep (c : Char) : ∀ (p cur r : List Char), c ∉ p →
    splitGo c (p ++ c :: r) cur = (cur.reverse ++ p) :: splitGo c r []
  | [], cur, r, _ => by simp [splitGo]
  | x :: xs, cur, r, h => by
    have hx : ¬ x = c := fun e => h (by simp [e])
    simp only [List.cons_append, splitGo, hx, if_false]
    rw [splitGo_sep c xs (x :: cur) r (fun hm => h (by simp [hm]))]
    simp

end Spendable

theorem h2b_encode (b : Bytes) : Tx.h2b (Hex.encodeChars b) = .ok b := h2b_b2h b

/-- C07.spendable_text_rt: `from_text(as_text(s)) = s` for every spendable whose spent flag is 0 or 1 (what a `bool`
argument stores); integers of any size -/
theorem C07_spendable_text_rt (s : Spendable) (hd : s.doesSeemSpent = 0 ∨ s.doesSeemSpent = 1) :
    Spendable.fromText s.asText = .ok s := by
  open Spendable in
  unfold Spendable.fromText Spendable.asText Spendable.split
  simp only [Spendable.join, Tx.b2hRev, Tx.b2h]
  rw [splitGo_sep '/' _ [] _ (encodeChars_noSlash _), splitGo_sep '/' _ [] _ (intToDec_noSlash _),
    splitGo_sep '/' _ [] _ (encodeChars_noSlash _), splitGo_sep '/' _ [] _ (intToDec_noSlash _),
    splitGo_sep '/' _ [] _ (intToDec_noSlash _), splitGo_sep '/' _ [] _ (intToDec_noSlash _),
    splitGo_noSep '/' _ [] (intToDec_noSlash _)]
  simp only [List.reverse_nil, List.nil_append, List.cons_append, List.take_succ_cons, List.take_zero,
    pyInt_intToDec, h2b_encode, bind, Except.bind, pure, Except.pure, List.reverse_reverse]
  have : (if s.doesSeemSpent = 0 then (0 : Int) else 1) = s.doesSeemSpent := by
    rcases hd with h | h <;> rw [h] <;> rfl
  cases s
  simp only at this ⊢
  rw [this]

/-! ## histories on one object -/

/-- C07.ids_after_mutation: after ANY history of observers and in-place mutators on one transaction object, `id`,
`hash`, `w_id`, `w_hash`, `blanked_hash`, `as_bin`, `as_hex` answer what the stateless functions give on the fields
as they are at that moment — i.e. what a fresh object built from the current fields answers.  (The model has no
cache; the harness holds the implementation to the same.) -/
theorem C07_ids_after_mutation (c : Coin) (st : History.St) (hist : List History.Step) :
    History.run c st (hist ++ [.obs .id]) = History.run c st hist ++ [.chars (Tx.id c (History.after c st hist).tx)] ∧
    History.run c st (hist ++ [.obs .hash]) = History.run c st hist ++ [.bytes (Tx.hash c (History.after c st hist).tx)] ∧
    History.run c st (hist ++ [.obs .wId]) = History.run c st hist ++ [.chars (Tx.wId c (History.after c st hist).tx)] ∧
    History.run c st (hist ++ [.obs .wHash]) = History.run c st hist ++ [.bytes (Tx.wHash c (History.after c st hist).tx)] ∧
    History.run c st (hist ++ [.obs .blankedHash]) =
      History.run c st hist ++ [.bytes (Tx.blankedHash c (History.after c st hist).tx)] ∧
    History.run c st (hist ++ [.obs .asBin]) = History.run c st hist ++ [.bytes (History.after c st hist).tx.asBin] ∧
    History.run c st (hist ++ [.obs .asHex]) = History.run c st hist ++ [.chars (History.after c st hist).tx.asHex] :=
  ⟨History.run_append_obs c _ hist st, History.run_append_obs c _ hist st, History.run_append_obs c _ hist st,
   History.run_append_obs c _ hist st, History.run_append_obs c _ hist st, History.run_append_obs c _ hist st,
   History.run_append_obs c _ hist st⟩

/-- … and for in-range fields the witness id after a history is the digest of the wire form of the current fields -/
theorem C07_wid_after_mutation (c : Coin) (st : History.St) (hist : List History.Step)
    (hwf : (History.after c st hist).tx.WF) :
    History.run c st (hist ++ [.obs .wHash]) =
      History.run c st hist ++ [.bytes (.ok (Tx.idDigest c (Spec.Wire.ser (History.after c st hist).tx)))] := by
  rw [History.run_append_obs]
  simp [History.observe, Tx.wHash, asBin_eq_stream, C07_ser_is_wire _ hwf, Except.map]

/-! ## non-vacuity -/

def exIn : TxIn := ⟨List.replicate 32 0x11, 7, [0x51], 0xFFFFFFFE, [[], [1, 2], []]⟩
def exTx : Tx := ⟨2, [exIn, { exIn with witness := [] }], [⟨18446744073709551615, [0x6a]⟩], 500000⟩

def exSp : Spendable := ⟨18446744073709551615, [0x51, 0x52], List.replicate 32 0xab, 4294967295, 253, 1, 65536⟩
#guard (match exSp.asBin true with | .ok b => (match Spendable.fromBin b with | .ok s => s == exSp | _ => false) | _ => false)
#guard (match Spendable.fromText exSp.asText with | .ok s => s == exSp | _ => false)
#guard (match Spendable.fromDict exSp.asDict with | .ok s => s == exSp | _ => false)
#guard (exTx.stream matches .ok _)
#guard (match exTx.stream with | .ok b => b == Spec.Wire.ser exTx | _ => false)
#guard (match Tx.parse .btc (Spec.Wire.ser exTx ++ [9]) with | .ok (t, r) => t == exTx && r == [9] | _ => false)
#guard (match Tx.parse .ltc (Spec.Wire.ser exTx ++ [9]) with | .ok (t, r) => t == exTx && r == [9] | _ => false)
example : exTx.WF ∧ 1 ≤ exTx.ins.length := by
  refine ⟨⟨by decide, by decide, by decide, by decide, ?_, ?_⟩, by decide⟩
  · intro t ht
    simp only [exTx, List.mem_cons, List.not_mem_nil, or_false] at ht
    rcases ht with rfl | rfl <;>
      exact ⟨by decide, by decide, by decide, by decide, by decide, by decide⟩
  · intro o ho
    simp only [exTx, List.mem_cons, List.not_mem_nil, or_false] at ho
    subst ho
    exact ⟨by decide, by decide⟩

end Pycoin
