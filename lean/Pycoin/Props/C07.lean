import Pycoin.Model.Tx
import Pycoin.Model.Spendable
import Pycoin.Spec.Wire
import Pycoin.Proofs.Prefix
namespace Pycoin
open Pycoin.Wire

/-- compact-size integers parse back, whatever follows -/
theorem C07_compact_size_rt (n : Nat) (b rest : Bytes) (h : streamSatoshiInt n = .ok b) :
    parseSatoshiInt none (b ++ rest) = .ok (n, rest) := satoshiInt_law n b rest trivial h

end Pycoin
