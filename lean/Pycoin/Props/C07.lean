import Pycoin.Model.Tx
import Pycoin.Model.Spendable
import Pycoin.Spec.Wire
import Pycoin.Proofs.Prefix
import Pycoin.Proofs.TxWire
import Pycoin.Proofs.TxParse
/-!
C07 — Transactions round-trip through the wire format and have stable ids.
Property theorems over `Model/Tx.lean` / `Model/Spendable.lean`, with `Spec/Wire.lean` as the wire format.
`Tx.WF` = every field in its wire range (Proofs/TxWire.lean).
-/
namespace Pycoin
open Pycoin.Wire

/-! ## serialisation equals the wire format -/

theorem hasWitnessData_eq (tx : Tx) : tx.hasWitnessData = Spec.Wire.hasWitness tx := by
  unfold Tx.hasWitnessData Spec.Wire.hasWitness
  congr 1
  funext t
  cases t.witness <;> simp

theorem streamStruct_L_eq (v : Int) (h : U32 v) :
    streamStruct tbl ['L'] [.int v] = .ok (Spec.Wire.le 4 v.toNat) := by
  simp [streamStruct, tbl_L, streamLetter, packLE4_eq v h]

theorem streamStruct_I_eq (n : Nat) (h : n < 2 ^ 64) :
    streamStruct tbl ['I'] [.int n] = .ok (Spec.Wire.compactSize n) := by
  have := streamSatoshiInt_eq n h
  simp only [streamStruct, tbl_I, streamLetter, this, List.append_nil]

/-- `Tx.stream(include_witness_data=iwd)` is the BIP144 form when witness data is included and present, the legacy
form otherwise -/
theorem stream_eq_spec (tx : Tx) (hwf : tx.WF) (iwd : Bool) :
    tx.stream false iwd =
      .ok (if (iwd && Spec.Wire.hasWitness tx) = true then Spec.Wire.bip144 tx else Spec.Wire.legacy tx) := by
  have hins := streamList_eq (fun t : TxIn => t.stream false) Spec.Wire.txin tx.ins
    (fun t ht => TxIn.stream_eq t (hwf.ins t ht))
  have houts := streamList_eq TxOut.stream Spec.Wire.txout tx.outs (fun t ht => TxOut.stream_eq t (hwf.outs t ht))
  have hwit := streamList_eq (fun t : TxIn => Tx.streamWitness t.witness) (fun t => Spec.Wire.witness t.witness) tx.ins
    (fun t ht => streamWitness_eq t.witness (hwf.ins t ht).witnessCount (hwf.ins t ht).witnessItems)
  unfold Tx.stream
  rw [hasWitnessData_eq]
  simp only [Gen.Formats.tx_stream_version, Gen.Formats.tx_stream_lenTxsIn, Gen.Formats.tx_stream_lenTxsOut,
    Gen.Formats.tx_stream_lockTime, streamStruct_L_eq _ hwf.version, streamStruct_L_eq _ hwf.lockTime,
    streamStruct_I_eq _ hwf.inCount, streamStruct_I_eq _ hwf.outCount, hins, houts, bind, Except.bind, pure, Except.pure]
  by_cases hw : (iwd && Spec.Wire.hasWitness tx) = true
  · simp only [hw, if_true, hwit, Spec.Wire.bip144, List.append_assoc]
  · simp only [hw, if_false, Spec.Wire.legacy, List.append_assoc, List.nil_append, Bool.false_eq_true]

/-- C07.ser_is_wire: the bytes equal the standard wire format — BIP144 extended form when some witness is
non-empty, legacy form otherwise -/
theorem C07_ser_is_wire (tx : Tx) (hwf : tx.WF) : tx.stream = .ok (Spec.Wire.ser tx) := by
  rw [stream_eq_spec tx hwf true]
  simp [Spec.Wire.ser]

theorem asBin_eq_stream (tx : Tx) : tx.asBin = tx.stream := by
  unfold Tx.asBin
  cases tx.stream <;> rfl

/-! ## round trip -/

theorem Tx.WF.parseable {tx : Tx} (hwf : tx.WF) :
    (∀ t ∈ tx.ins, t.prevHash.length = 32 ∧ LenOk t.script ∧ ∀ w ∈ t.witness, LenOk w) ∧
      ∀ o ∈ tx.outs, LenOk o.script :=
  ⟨fun t ht => ⟨(hwf.ins t ht).hash, (hwf.ins t ht).script, (hwf.ins t ht).witnessItems⟩,
   fun o ho => (hwf.outs o ho).script⟩

theorem parse_cases (c : Coin) : Tx.parse c = Tx.parseLtc ∨ Tx.parse c = Tx.parseBtc true := by
  cases c
  · right; rfl
  · left; rfl
  · right; rfl
  · right; rfl
  · right; rfl

/-- C07.tx_parse_ser: for every transaction with at least one input and fields in range, of every class,
parsing the serialisation (followed by anything) yields the transaction and leaves what followed -/
theorem C07_tx_parse_ser (c : Coin) (tx : Tx) (hwf : tx.WF) (hne : 1 ≤ tx.ins.length) (rest : Bytes) :
    ∃ b, tx.stream = .ok b ∧ Tx.parse c (b ++ rest) = .ok (tx, rest) := by
  refine ⟨_, C07_ser_is_wire tx hwf, ?_⟩
  have hne' : tx.ins ≠ [] := by
    intro h; rw [h] at hne; simp at hne
  rcases parse_cases c with h | h <;> rw [h]
  · exact Tx.parseLtc_stream tx _ rest hwf.parseable.1 hwf.parseable.2 hne' (C07_ser_is_wire tx hwf)
  · exact Tx.parseBtc_stream tx _ rest hwf.parseable.1 hwf.parseable.2 hne' (C07_ser_is_wire tx hwf)

/-- the law in `PrefixLaw` form -/
theorem tx_law (c : Coin) : PrefixLaw (fun tx : Tx => tx.stream) (Tx.parse c) (fun tx => tx.WF ∧ 1 ≤ tx.ins.length) := by
  intro tx b rest ⟨hwf, hne⟩ h
  obtain ⟨b', hb', hp⟩ := C07_tx_parse_ser c tx hwf hne rest
  have h : tx.stream = .ok b := h
  rw [h] at hb'
  have := Except.ok.inj hb'
  subst this
  exact hp

/-- bytes that are the wire encoding of some in-range transaction with at least one input -/
def Canonical (b : Bytes) : Prop := ∃ tx : Tx, tx.WF ∧ 1 ≤ tx.ins.length ∧ b = Spec.Wire.ser tx

/-- C07.reser_id: parsing canonical bytes consumes them all, and re-serialising the result returns them unchanged -/
theorem C07_reser_id (c : Coin) (b : Bytes) (hc : Canonical b) (tx : Tx) (rest : Bytes)
    (hp : Tx.parse c b = .ok (tx, rest)) : rest = [] ∧ tx.stream = .ok b := by
  obtain ⟨tx', hwf, hne, rfl⟩ := hc
  have h := tx_law c tx' _ [] ⟨hwf, hne⟩ (C07_ser_is_wire tx' hwf)
  rw [List.append_nil, hp] at h
  have h := Except.ok.inj h
  injection h with h1 h2
  subst h1 h2
  exact ⟨rfl, C07_ser_is_wire tx hwf⟩

/-- `ser` is injective: different transactions have different serialisations -/
theorem ser_injective (a b : Tx) (ha : a.WF) (hb : b.WF) (ha1 : 1 ≤ a.ins.length) (hb1 : 1 ≤ b.ins.length)
    (h : Spec.Wire.ser a = Spec.Wire.ser b) : a = b :=
  (tx_law .btc).injective a b _ ⟨ha, ha1⟩ ⟨hb, hb1⟩ (C07_ser_is_wire a ha) (by rw [h]; exact C07_ser_is_wire b hb)

/-! ## ids -/

/-- C07.txid_def: the transaction id is the double SHA-256 of the witness-stripped (legacy) serialisation
(single SHA-256 for the Groestlcoin class), shown reversed in hex -/
theorem C07_txid_def (c : Coin) (tx : Tx) (hwf : tx.WF) :
    Tx.hash c tx = .ok (Tx.idDigest c (Spec.Wire.legacy tx)) ∧
    Tx.id c tx = .ok (Tx.b2hRev (Tx.idDigest c (Spec.Wire.legacy tx))) ∧
    (c.singleSha = false → Tx.hash c tx = .ok (Spec.Wire.txid tx)) := by
  have h : Tx.hash c tx = .ok (Tx.idDigest c (Spec.Wire.legacy tx)) := by
    unfold Tx.hash
    rw [stream_eq_spec tx hwf false]
    simp [Except.map]
  refine ⟨h, ?_, ?_⟩
  · simp [Tx.id, h, Except.map]
  · intro hs
    rw [h]
    simp [Tx.idDigest, hs, Spec.Wire.txid]

/-- without witness data, `stream` does not look at the witness stacks -/
theorem stream_nowit_strip (tx : Tx) : tx.stream false false = (Spec.Wire.stripWitness tx).stream false false := by
  unfold Tx.stream Spec.Wire.stripWitness
  simp only [Bool.false_and, List.length_map, Bool.false_eq_true, if_false]
  have : streamList (fun t : TxIn => t.stream false) (tx.ins.map fun t => { t with witness := [] }) =
      streamList (fun t : TxIn => t.stream false) tx.ins := by
    rw [streamList_map]; rfl
  rw [this]

/-- C07.txid_witness_independent: transactions that differ only in witness data have the same id (all inputs,
no range hypothesis) -/
theorem C07_txid_witness_independent (c : Coin) (a b : Tx)
    (h : Spec.Wire.stripWitness a = Spec.Wire.stripWitness b) : Tx.id c a = Tx.id c b := by
  unfold Tx.id Tx.hash
  rw [stream_nowit_strip a, stream_nowit_strip b, h]

/-- C07.wtxid_covers_witness: the witness id is the digest of the full serialisation, and two different
transactions — in particular two that differ only in witness data — are hashed from different byte strings
(equal witness ids would be a SHA-256 collision) -/
theorem C07_wtxid_covers_witness (c : Coin) (a b : Tx) (ha : a.WF) (hb : b.WF) (ha1 : 1 ≤ a.ins.length)
    (hb1 : 1 ≤ b.ins.length) (hne : a ≠ b) :
    Tx.wHash c a = .ok (Tx.idDigest c (Spec.Wire.ser a)) ∧ Tx.wHash c b = .ok (Tx.idDigest c (Spec.Wire.ser b)) ∧
      Spec.Wire.ser a ≠ Spec.Wire.ser b := by
  refine ⟨?_, ?_, fun h => hne (ser_injective a b ha hb ha1 hb1 h)⟩
  · simp [Tx.wHash, asBin_eq_stream, C07_ser_is_wire a ha, Except.map]
  · simp [Tx.wHash, asBin_eq_stream, C07_ser_is_wire b hb, Except.map]

/-! ## non-vacuity -/

def exIn : TxIn := ⟨List.replicate 32 0x11, 7, [0x51], 0xFFFFFFFE, [[], [1, 2], []]⟩
def exTx : Tx := ⟨2, [exIn, { exIn with witness := [] }], [⟨18446744073709551615, [0x6a]⟩], 500000⟩

#guard (exTx.stream matches .ok _)
#guard (match exTx.stream with | .ok b => b == Spec.Wire.ser exTx | _ => false)
#guard (match Tx.parse .btc (Spec.Wire.ser exTx ++ [9]) with | .ok (t, r) => t == exTx && r == [9] | _ => false)
#guard (match Tx.parse .ltc (Spec.Wire.ser exTx ++ [9]) with | .ok (t, r) => t == exTx && r == [9] | _ => false)
example : exTx.WF ∧ 1 ≤ exTx.ins.length := by
  refine ⟨⟨by decide, by decide, by decide, by decide, ?_, ?_⟩, by decide⟩
  · intro t ht
    simp only [exTx, List.mem_cons, List.not_mem_nil, or_false] at ht
    rcases ht with rfl | rfl <;>
      exact ⟨by decide, by decide, by decide, by decide, by decide, by decide⟩
  · intro o ho
    simp only [exTx, List.mem_cons, List.not_mem_nil, or_false] at ho
    subst ho
    exact ⟨by decide, by decide⟩

end Pycoin
