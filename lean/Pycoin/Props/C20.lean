import Pycoin.Model.TxCheck
import Pycoin.Model.CoinbaseTx
import Pycoin.Proofs.History
/-!
C20 — Context-free transaction checks accept exactly the well-formed transactions.
Property theorems over `Model/TxCheck.lean` (core Lean only).
-/
namespace Pycoin.TxCheck
open Pycoin Pycoin.Wire

/-! ## the property's vocabulary (written from the statement, not from the code) -/

/-- the null outpoint: zero hash **and** index 0xffffffff -/
def IsNull (t : TxIn) : Prop := t.prevHash = zero32 ∧ t.prevIndex = 0xFFFFFFFF

/-- a coinbase transaction: exactly one input, spending the null outpoint -/
def IsCoinbase (tx : Tx) : Prop := ∃ t, tx.ins = [t] ∧ IsNull t

def valuesSum (l : List TxOut) : Int := (l.map (·.value)).sum

/-- none of the defects listed by the property (the size clause is separate) -/
structure NoDefect (c : Coin) (tx : Tx) : Prop where
  ins_ne : tx.ins ≠ []
  outs_ne : tx.outs ≠ []
  values : ∀ o ∈ tx.outs, 0 ≤ o.value ∧ o.value ≤ c.maxMoney
  totals : ∀ k, valuesSum (tx.outs.take k) ≤ c.maxMoney
  nodup : (tx.ins.map outpoint).Nodup
  coinbaseScript : IsCoinbase tx → ∀ t ∈ tx.ins, 2 ≤ t.script.length ∧ t.script.length ≤ 100
  noNull : ¬ IsCoinbase tx → ∀ t ∈ tx.ins, ¬ IsNull t

/-! ## helper lemmas -/

theorem txIn_isCoinbase_iff (t : TxIn) : t.isCoinbase = true ↔ IsNull t := by
  simp [TxIn.isCoinbase, IsNull]

theorem tx_isCoinbase_iff (tx : Tx) : tx.isCoinbase = true ↔ IsCoinbase tx := by
  unfold Tx.isCoinbase IsCoinbase
  split
  · rename_i t h
    simp [h, txIn_isCoinbase_iff]
  · rename_i h
    constructor
    · intro hf; cases hf
    · rintro ⟨t, ht, _⟩; exact absurd ht (h t)

theorem check_ok_iff (c : Coin) (tx : Tx) (ids : List Nat) :
    check c tx ids = .ok () ↔
      checkInoutCount tx = .ok () ∧ checkTxsOut c tx = .ok () ∧ checkTxsIn tx ids = .ok () ∧
        checkSizeLimit c tx = .ok () := by
  unfold check
  cases h1 : checkInoutCount tx <;> cases h2 : checkTxsOut c tx <;> cases h3 : checkTxsIn tx ids <;>
    cases h4 : checkSizeLimit c tx <;> simp [bind, Except.bind]

theorem valuesSum_cons (o : TxOut) (os : List TxOut) : valuesSum (o :: os) = o.value + valuesSum os := by
  simp [valuesSum]

theorem checkTxsOutGo_ok (m : Nat) : ∀ (outs : List TxOut) (acc : Int),
    checkTxsOutGo m acc outs = .ok () ↔
      (∀ o ∈ outs, 0 ≤ o.value ∧ o.value ≤ m) ∧
        ∀ k, 1 ≤ k → k ≤ outs.length → acc + valuesSum (outs.take k) ≤ m
  | [], acc => by
    simp only [checkTxsOutGo, List.not_mem_nil, false_imp_iff, implies_true, List.length_nil, true_and, true_iff]
    intro k h1 h2; omega
  | o :: os, acc => by
    unfold checkTxsOutGo
    by_cases hv : o.value < 0 ∨ o.value > (m : Int)
    · simp only [hv, if_true]
      constructor
      · intro h; cases h
      · rintro ⟨h, _⟩
        have := h o (by simp)
        omega
    · simp only [hv, if_false]
      by_cases ht : acc + o.value > (m : Int)
      · simp only [ht, if_true]
        constructor
        · intro h; cases h
        · rintro ⟨_, h⟩
          have := h 1 (by omega) (by simp)
          simp [valuesSum] at this
          omega
      · simp only [ht, if_false]
        rw [checkTxsOutGo_ok m os (acc + o.value)]
        constructor
        · rintro ⟨h1, h2⟩
          refine ⟨?_, ?_⟩
          · intro x hx
            rcases List.mem_cons.mp hx with rfl | hx
            · omega
            · exact h1 x hx
          · intro k hk1 hk2
            cases k with
            | zero => omega
            | succ k =>
              rw [List.take_succ_cons, valuesSum_cons]
              cases k with
              | zero => simp [valuesSum]; omega
              | succ k =>
                have := h2 (k + 1) (by omega) (by simpa using hk2)
                omega
        · rintro ⟨h1, h2⟩
          refine ⟨fun x hx => h1 x (List.mem_cons_of_mem _ hx), ?_⟩
          intro k hk1 hk2
          have := h2 (k + 1) (by omega) (by simpa using hk2)
          rw [List.take_succ_cons, valuesSum_cons] at this
          omega

theorem checkRefs_ok : ∀ (ts : List TxIn) (refs : List (Bytes × Int)),
    checkRefs refs ts = .ok () ↔
      (∀ t ∈ ts, ¬ IsNull t) ∧ (∀ t ∈ ts, outpoint t ∉ refs) ∧ (ts.map outpoint).Nodup
  | [], refs => by simp [checkRefs]
  | t :: ts, refs => by
    unfold checkRefs
    by_cases hn : t.isCoinbase = true
    · simp only [hn, if_true]
      constructor
      · intro h; cases h
      · rintro ⟨h, _⟩
        exact absurd ((txIn_isCoinbase_iff t).mp hn) (h t (by simp))
    · have hn' : ¬ IsNull t := fun h => hn ((txIn_isCoinbase_iff t).mpr h)
      have hn2 : t.isCoinbase = false := by simpa using hn
      simp only [hn2, Bool.false_eq_true, if_false]
      by_cases hm : outpoint t ∈ refs
      · simp only [hm, if_true]
        constructor
        · intro h; cases h
        · rintro ⟨_, h, _⟩
          exact absurd hm (h t (by simp))
      · simp only [hm, if_false]
        rw [checkRefs_ok ts (outpoint t :: refs)]
        simp only [List.mem_cons, forall_eq_or_imp, List.map_cons, List.nodup_cons, List.mem_map, not_or]
        constructor
        · rintro ⟨h1, h2, h3⟩
          refine ⟨⟨hn', h1⟩, ⟨hm, fun x hx => (h2 x hx).2⟩, ?_, h3⟩
          rintro ⟨x, hx, hxe⟩
          exact (h2 x hx).1 hxe
        · rintro ⟨⟨_, h1⟩, ⟨_, h2⟩, h3, h4⟩
          refine ⟨h1, fun x hx => ⟨fun he => h3 ⟨x, hx, he⟩, h2 x hx⟩, h4⟩

theorem checkRefs_nil_ok (ts : List TxIn) :
    checkRefs [] ts = .ok () ↔ (∀ t ∈ ts, ¬ IsNull t) ∧ (ts.map outpoint).Nodup := by
  rw [checkRefs_ok]; simp

/-- `_check_txs_in` in the property's vocabulary -/
theorem checkTxsIn_ok (tx : Tx) (ids : List Nat) :
    checkTxsIn tx ids = .ok () ↔
      ids.Nodup ∧
      ((IsCoinbase tx ∧ ∀ t ∈ tx.ins, 2 ≤ t.script.length ∧ t.script.length ≤ 100) ∨
       (¬ IsCoinbase tx ∧ (∀ t ∈ tx.ins, ¬ IsNull t) ∧ (tx.ins.map outpoint).Nodup)) := by
  unfold checkTxsIn
  by_cases hid : ids.Nodup
  · simp only [hid, not_true_eq_false, if_false, true_and]
    split
    · rename_i t hins
      by_cases hc : t.isCoinbase = true
      · have hcb : IsCoinbase tx := ⟨t, hins, (txIn_isCoinbase_iff t).mp hc⟩
        simp only [hc, if_true, hcb, true_and, not_true_eq_false, false_and, or_false]
        by_cases hs : 2 ≤ t.script.length ∧ t.script.length ≤ 100
        · simp [hs, hins]
        · simp only [hs, if_false]
          constructor
          · intro h; cases h
          · intro h; exact absurd (h t (by simp [hins])) hs
      · have hcb : ¬ IsCoinbase tx := by
          rintro ⟨t', ht', hn⟩
          rw [hins] at ht'
          injection ht' with ht'
          subst ht'
          exact hc ((txIn_isCoinbase_iff _).mpr hn)
        have hc2 : t.isCoinbase = false := by simpa using hc
        simp only [hc2, Bool.false_eq_true, if_false, hcb, false_and, false_or, not_false_eq_true, true_and]
        rw [checkRefs_nil_ok, hins]
    · rename_i hne
      have hcb : ¬ IsCoinbase tx := by
        rintro ⟨t', ht', _⟩
        exact hne t' ht'
      simp only [hcb, false_and, false_or, not_false_eq_true, true_and]
      rw [checkRefs_nil_ok]
  · simp only [hid, not_false_eq_true, if_true, false_and]
    constructor
    · intro h; cases h
    · intro h; cases h

theorem Except.bind_eq_ok {ε α β : Type} (x : Except ε α) (f : α → Except ε β) (b : β) :
    (x >>= f) = .ok b ↔ ∃ a, x = .ok a ∧ f a = .ok b := by
  cases x <;> simp [bind, Except.bind]

theorem streamList_length_le {α : Type} (s1 s2 : α → Except Err Bytes)
    (h : ∀ a x y, s1 a = .ok x → s2 a = .ok y → x.length ≤ y.length) :
    ∀ (l : List α) (x y : Bytes), streamList s1 l = .ok x → streamList s2 l = .ok y → x.length ≤ y.length
  | [], x, y => by
    intro h1 h2; simp [streamList] at h1 h2; subst h1; simp
  | a :: as, x, y => by
    intro h1 h2
    unfold streamList at h1 h2
    cases hxa : s1 a with
    | error e => simp [hxa] at h1
    | ok xa =>
      cases hxr : streamList s1 as with
      | error e => simp [hxa, hxr] at h1
      | ok xr =>
        cases hya : s2 a with
        | error e => simp [hya] at h2
        | ok ya =>
          cases hyr : streamList s2 as with
          | error e => simp [hya, hyr] at h2
          | ok yr =>
            simp only [hxa, hxr] at h1
            simp only [hya, hyr] at h2
            injection h1 with h1; injection h2 with h2
            subst h1; subst h2
            have := h a xa ya hxa hya
            have := streamList_length_le s1 s2 h as xr yr hxr hyr
            simp only [List.length_append]; omega

theorem asBin_default (tx : Tx) : tx.asBin = tx.stream false true := by
  unfold Tx.asBin
  cases tx.stream false true <;> rfl

/-- the witness-including serialisation is at least as long as the stripped one -/
theorem stream_stripped_le (tx : Tx) (b b' : Bytes)
    (h : tx.stream false false = .ok b) (h' : tx.stream false true = .ok b') : b.length ≤ b'.length := by
  unfold Tx.stream at h h'
  simp only [Except.bind_eq_ok, Bool.false_and, Bool.true_and, Bool.false_eq_true, if_false] at h h'
  obtain ⟨v, hv, nin, hnin, ins, hins, nout, hnout, outs, houts, wit, hwit, lock, hlock, h⟩ := h
  obtain ⟨v', hv', nin', hnin', ins', hins', nout', hnout', outs', houts', wit', hwit', lock', hlock', h'⟩ := h'
  rw [hv] at hv'; rw [hnin] at hnin'; rw [hins] at hins'; rw [hnout] at hnout'; rw [houts] at houts'
  rw [hlock] at hlock'
  injection hv' with hv'; injection hnin' with hnin'; injection hins' with hins'
  injection hnout' with hnout'; injection houts' with houts'; injection hlock' with hlock'
  subst hv' hnin' hins' hnout' houts' hlock'
  simp only [pure, Except.pure] at h h'
  injection h with h; injection h' with h'
  injection hwit with hwit
  subst h h' hwit
  simp only [List.length_append, List.length_nil]
  split <;> simp <;> omega

/-! ## rejection: one theorem per defect listed by the property -/

/-- no inputs -/
theorem C20_check_rejects_no_inputs (c : Coin) (tx : Tx) (ids : List Nat) (h : tx.ins = []) :
    check c tx ids ≠ .ok () := by
  intro hok
  have h1 := ((check_ok_iff c tx ids).mp hok).1
  unfold checkInoutCount at h1
  simp [h, Tx.isCoinbase] at h1
  split at h1 <;> cases h1

/-- no outputs -/
theorem C20_check_rejects_no_outputs (c : Coin) (tx : Tx) (ids : List Nat) (h : tx.outs = []) :
    check c tx ids ≠ .ok () := by
  intro hok
  have h1 := ((check_ok_iff c tx ids).mp hok).1
  simp [checkInoutCount, h] at h1

/-- an output value outside `0..MAX_MONEY` (at any position) -/
theorem C20_check_rejects_value (c : Coin) (tx : Tx) (ids : List Nat) (o : TxOut) (ho : o ∈ tx.outs)
    (h : o.value < 0 ∨ o.value > c.maxMoney) : check c tx ids ≠ .ok () := by
  intro hok
  have h2 := ((check_ok_iff c tx ids).mp hok).2.1
  have := ((checkTxsOutGo_ok c.maxMoney tx.outs 0).mp h2).1 o ho
  omega

/-- a running total above `MAX_MONEY`, reached after any number of outputs -/
theorem C20_check_rejects_total (c : Coin) (tx : Tx) (ids : List Nat) (k : Nat)
    (h : valuesSum (tx.outs.take k) > c.maxMoney) : check c tx ids ≠ .ok () := by
  intro hok
  have h2 := ((check_ok_iff c tx ids).mp hok).2.1
  have h3 := ((checkTxsOutGo_ok c.maxMoney tx.outs 0).mp h2).2
  cases k with
  | zero => simp [valuesSum] at h; omega
  | succ k =>
    by_cases hk : k + 1 ≤ tx.outs.length
    · have := h3 (k + 1) (by omega) hk
      omega
    · have hlen : tx.outs.length ≤ k + 1 := by omega
      rw [List.take_of_length_le hlen] at h
      cases hl : tx.outs.length with
      | zero =>
        have : tx.outs = [] := List.eq_nil_of_length_eq_zero hl
        rw [this] at h; simp [valuesSum] at h; omega
      | succ n =>
        have := h3 (n + 1) (by omega) (by omega)
        rw [← hl, List.take_length] at this
        omega

/-- two inputs spending the same outpoint, at any two positions -/
theorem C20_check_rejects_duplicate (c : Coin) (tx : Tx) (ids : List Nat) (i j : Nat) (hij : i < j)
    (hj : j < tx.ins.length) (h : outpoint tx.ins[i] = outpoint tx.ins[j]) : check c tx ids ≠ .ok () := by
  intro hok
  have h3 := ((check_ok_iff c tx ids).mp hok).2.2.1
  have hnd : ¬ (tx.ins.map outpoint).Nodup := by
    intro hnd
    rw [List.Nodup, List.pairwise_iff_getElem] at hnd
    have := hnd i j (by simp; omega) (by simpa using hj) hij
    simp at this
    exact this h
  rcases ((checkTxsIn_ok tx ids).mp h3).2 with ⟨⟨t, ht, _⟩, _⟩ | ⟨_, _, hn⟩
  · rw [ht] at hj; simp at hj; omega
  · exact hnd hn

/-- a coinbase whose script is shorter than 2 or longer than 100 bytes -/
theorem C20_check_rejects_coinbase_script (c : Coin) (tx : Tx) (ids : List Nat) (hcb : IsCoinbase tx)
    (t : TxIn) (ht : t ∈ tx.ins) (h : t.script.length < 2 ∨ t.script.length > 100) :
    check c tx ids ≠ .ok () := by
  intro hok
  have h3 := ((check_ok_iff c tx ids).mp hok).2.2.1
  rcases ((checkTxsIn_ok tx ids).mp h3).2 with ⟨_, hs⟩ | ⟨hn, _⟩
  · have := hs t ht; omega
  · exact hn hcb

/-- a null outpoint in a transaction that is not a coinbase -/
theorem C20_check_rejects_null_outpoint (c : Coin) (tx : Tx) (ids : List Nat) (hcb : ¬ IsCoinbase tx)
    (t : TxIn) (ht : t ∈ tx.ins) (h : IsNull t) : check c tx ids ≠ .ok () := by
  intro hok
  have h3 := ((check_ok_iff c tx ids).mp hok).2.2.1
  rcases ((checkTxsIn_ok tx ids).mp h3).2 with ⟨hc, _⟩ | ⟨_, hn, _⟩
  · exact hcb hc
  · exact hn t ht h

/-- a witness-stripped serialisation above `MAX_TX_SIZE` (1,000,000) bytes -/
theorem C20_check_rejects_size (c : Coin) (tx : Tx) (ids : List Nat) (b : Bytes)
    (hb : tx.stream false false = .ok b) (h : b.length > c.maxTxSize) : check c tx ids ≠ .ok () := by
  intro hok
  have h4 := ((check_ok_iff c tx ids).mp hok).2.2.2
  unfold checkSizeLimit at h4
  split at h4
  · cases h4
  · rename_i b' hb'
    have hb'' : tx.stream false true = .ok b' := by
      rw [asBin_default] at hb'; exact hb'
    have := stream_stripped_le tx b b' hb hb''
    split at h4
    · cases h4
    · omega

/-! ## acceptance -/

/-- every transaction with none of the listed defects whose total serialisation is at most `MAX_TX_SIZE` is
accepted (`ids.Nodup`: the input list holds distinct objects — see `ids_nodup_of_consistent`) -/
theorem C20_check_accepts (c : Coin) (tx : Tx) (ids : List Nat) (hids : ids.Nodup) (h : NoDefect c tx)
    (b : Bytes) (hb : tx.asBin = .ok b) (hsz : b.length ≤ c.maxTxSize) : check c tx ids = .ok () := by
  rw [check_ok_iff]
  refine ⟨?_, ?_, ?_, ?_⟩
  · unfold checkInoutCount
    have h1 : tx.outs.isEmpty = false := by
      cases ho : tx.outs with
      | nil => exact absurd ho h.outs_ne
      | cons _ _ => rfl
    have h2 : tx.ins.isEmpty = false := by
      cases hi : tx.ins with
      | nil => exact absurd hi h.ins_ne
      | cons _ _ => rfl
    simp [h1, h2]
  · unfold checkTxsOut
    rw [checkTxsOutGo_ok]
    refine ⟨h.values, fun k _ _ => ?_⟩
    have := h.totals k
    omega
  · rw [checkTxsIn_ok]
    refine ⟨hids, ?_⟩
    by_cases hc : IsCoinbase tx
    · exact Or.inl ⟨hc, h.coinbaseScript hc⟩
    · exact Or.inr ⟨hc, h.noNull hc, h.nodup⟩
  · unfold checkSizeLimit
    rw [hb]
    simp; omega

/-- positions holding the same object hold the same fields: if no outpoint occurs twice, no object does -/
theorem ids_nodup_of_consistent (ins : List TxIn) (ids : List Nat) (hlen : ids.length = ins.length)
    (hc : ∀ a ∈ ids.zip ins, ∀ b ∈ ids.zip ins, a.1 = b.1 → a.2 = b.2)
    (hn : (ins.map outpoint).Nodup) : ids.Nodup := by
  induction ins generalizing ids with
  | nil =>
    have : ids = [] := List.eq_nil_of_length_eq_zero (by simpa using hlen)
    subst this; exact List.nodup_nil
  | cons t ts ih =>
    cases ids with
    | nil => simp at hlen
    | cons d ds =>
      simp only [List.map_cons, List.nodup_cons] at hn
      rw [List.nodup_cons]
      refine ⟨?_, ih ds (by simpa using hlen) ?_ hn.2⟩
      · intro hd
        -- some later position holds object `d`, hence fields `t`, hence the same outpoint
        have hlen' : ds.length = ts.length := by simpa using hlen
        obtain ⟨k, hk, hdk⟩ := List.mem_iff_getElem.mp hd
        have hk' : k < ts.length := by omega
        have hmem : (ds[k], ts[k]) ∈ (d :: ds).zip (t :: ts) := by
          simp only [List.zip_cons_cons, List.mem_cons]
          right
          exact List.mem_iff_getElem.mpr ⟨k, by simp; omega, by simp⟩
        have := hc (d, t) (by simp) (ds[k], ts[k]) hmem (by simp [hdk])
        simp at this
        apply hn.1
        rw [this]
        exact List.mem_map.mpr ⟨ts[k], List.getElem_mem _, rfl⟩
      · intro a ha b hb hab
        exact hc a (by simp [ha]) b (by simp [hb]) hab

/-- acceptance for a transaction as `parse` builds it (a fresh object per input) -/
theorem C20_check_accepts_fresh (c : Coin) (tx : Tx) (h : NoDefect c tx)
    (b : Bytes) (hb : tx.asBin = .ok b) (hsz : b.length ≤ c.maxTxSize) :
    check c tx (List.range tx.ins.length) = .ok () :=
  C20_check_accepts c tx _ List.nodup_range h b hb hsz

/-- acceptance when objects are shared: positions holding the same object hold the same fields, so a transaction
without a duplicate outpoint holds no object twice -/
theorem C20_check_accepts_shared (c : Coin) (tx : Tx) (ids : List Nat) (hlen : ids.length = tx.ins.length)
    (hc : ∀ a ∈ ids.zip tx.ins, ∀ b ∈ ids.zip tx.ins, a.1 = b.1 → a.2 = b.2) (h : NoDefect c tx)
    (b : Bytes) (hb : tx.asBin = .ok b) (hsz : b.length ≤ c.maxTxSize) : check c tx ids = .ok () :=
  C20_check_accepts c tx ids (ids_nodup_of_consistent tx.ins ids hlen hc h.nodup) h b hb hsz
/-! ## purity and the coinbase exemption -/

/-- running the check hands the transaction back unchanged (no sub-check assigns to a field; on the implementation
the harness compares `as_bin()` and a deep field snapshot before and after) -/
theorem C20_check_pure (c : Coin) (tx : Tx) (ids : List Nat) :
    (checkSt c tx ids).1 = tx ∧ (checkSt c (checkSt c tx ids).1 ids).2 = (checkSt c tx ids).2 := by
  simp [checkSt]

/-- a coinbase transaction is never counted as having unsigned inputs -/
theorem C20_coinbase_not_unsigned (tx : Tx) (solutionOk : Nat → Bool) (h : IsCoinbase tx) :
    badSolutionCount tx solutionOk = 0 := by
  simp [badSolutionCount, (tx_isCoinbase_iff tx).mpr h]

/-! ## histories on one object -/

/-- C20.check_after_mutation: after ANY history of observers and in-place mutators on one transaction object,
`check()`, `is_coinbase()` and `bad_solution_count()` answer what they answer on a fresh object with the current
fields; in particular every rejection theorem above applies to the fields as they are now, whatever was checked
before (a script grown in place past the size limit is rejected although the earlier check passed) -/
theorem C20_check_after_mutation (c : Coin) (st : History.St) (hist : List History.Step) :
    History.run c st (hist ++ [.obs .check]) =
      History.run c st hist ++
        [.check (check c (History.after c st hist).tx (List.range (History.after c st hist).tx.ins.length))] ∧
    History.run c st (hist ++ [.obs .isCoinbase]) =
      History.run c st hist ++ [.bool (History.after c st hist).tx.isCoinbase] ∧
    History.run c st (hist ++ [.obs .badSolutionCount]) =
      History.run c st hist ++ [History.observe c (History.after c st hist) .badSolutionCount] :=
  ⟨History.run_append_obs c _ hist st, History.run_append_obs c _ hist st, History.run_append_obs c _ hist st⟩

/-- the size rule after a history: the last `check` of a history that leaves a stripped serialisation above the
limit does not answer `ok`, whatever earlier checks answered -/
theorem C20_check_after_mutation_size (c : Coin) (st : History.St) (hist : List History.Step) (b : Bytes)
    (hb : (History.after c st hist).tx.stream false false = .ok b) (h : b.length > c.maxTxSize) :
    (History.run c st (hist ++ [.obs .check])).getLast? ≠ some (.check (.ok ())) := by
  rw [(C20_check_after_mutation c st hist).1]
  simp only [List.getLast?_append, List.getLast?_singleton, Option.some_or]
  intro he
  injection he with he
  injection he with he
  exact C20_check_rejects_size c _ _ b hb h he

/-! ## non-vacuity and boundary evaluations (tests, evaluated by the compiler) -/

def h11 : Bytes := List.replicate 32 0x11
def txOk : Tx := ⟨1, [⟨h11, 0, [], 0xFFFFFFFF, []⟩, ⟨zero32, 0, [0x51], 0xFFFFFFFF, []⟩], [⟨5, [0x51]⟩], 0⟩
def txCb (n : Nat) : Tx := ⟨1, [⟨zero32, 0xFFFFFFFF, List.replicate n 0x51, 0, []⟩], [⟨5, []⟩], 0⟩

#guard check .btc txOk [0, 1] matches .ok ()               -- zero hash with index 0 is not the null outpoint
#guard check .btc txOk [0, 0] matches .error .duplicateInputs
#guard check .btc (txCb 2) [0] matches .ok ()
#guard check .btc (txCb 100) [0] matches .ok ()
#guard check .btc (txCb 1) [0] matches .error .badCoinbaseScriptSize
#guard check .btc (txCb 101) [0] matches .error .badCoinbaseScriptSize
#guard check .btc { txOk with outs := [⟨2100000000000000, []⟩] } [0, 1] matches .ok ()
#guard check .btc { txOk with outs := [⟨2100000000000001, []⟩] } [0, 1] matches .error .valueRange
#guard check .grs { txOk with outs := [⟨2100000000000001, []⟩] } [0, 1] matches .ok ()
#guard check .btc { txOk with outs := [⟨2100000000000000, []⟩, ⟨1, []⟩] } [0, 1] matches .error .totalRange

example : NoDefect .btc txOk := by
  refine ⟨by decide, by decide, by decide, ?_, by decide, ?_, ?_⟩
  · intro k
    match k with
    | 0 => decide
    | k + 1 => simp [txOk, valuesSum, Coin.maxMoney, Gen.TxLimits.btc_maxMoney]
  · rintro ⟨t, ht, _⟩; simp [txOk] at ht
  · intro _ t ht
    simp [txOk] at ht
    rcases ht with rfl | rfl <;> simp [IsNull, h11, zero32]


/-! ## `Tx.coinbase_tx`: the constructed coinbase passes exactly when its script length and amount allow -/

/-- the word `OP_CHECKSIG` compiles to the byte the generated opcode table assigns (0xac) -/
theorem opChecksig_eq : opChecksig = [172] := by decide +kernel

/-- C20.coinbase_tx: the transaction `Tx.coinbase_tx` builds is a coinbase (one input, the exact null outpoint), is
never counted as having unsigned inputs, pays the whole amount to `<sec> OP_CHECKSIG`, and passes `check()` exactly when
the coinbase script has 2..100 bytes and the amount is within 0..MAX_MONEY (its serialisation being within the size limit) -/
theorem C20_coinbase_tx (c : Coin) (sec : Bytes) (v : Int) (cb : Bytes) (ver lt : Int) (solutionOk : Nat → Bool)
    (b : Bytes) (hb : (coinbaseTx sec v cb ver lt).asBin = .ok b) (hsz : b.length ≤ c.maxTxSize) :
    IsCoinbase (coinbaseTx sec v cb ver lt) ∧ badSolutionCount (coinbaseTx sec v cb ver lt) solutionOk = 0 ∧
    (coinbaseTx sec v cb ver lt).outs = [⟨v, UInt8.ofNat sec.length :: sec ++ [172]⟩] ∧
    (check c (coinbaseTx sec v cb ver lt) [0] = .ok () ↔
      2 ≤ cb.length ∧ cb.length ≤ 100 ∧ 0 ≤ v ∧ v ≤ c.maxMoney) := by
  have hcb : IsCoinbase (coinbaseTx sec v cb ver lt) :=
    ⟨coinbaseTxIn cb, rfl, by simp [IsNull, coinbaseTxIn]⟩
  refine ⟨hcb, C20_coinbase_not_unsigned _ solutionOk hcb, by simp [coinbaseTx, payToSecScript, opChecksig_eq], ?_⟩
  rw [check_ok_iff, checkTxsIn_ok]
  have h1 : checkInoutCount (coinbaseTx sec v cb ver lt) = .ok () := by
    simp [checkInoutCount, coinbaseTx]
  have h4 : checkSizeLimit c (coinbaseTx sec v cb ver lt) = .ok () := by
    have : ¬ b.length > c.maxTxSize := by omega
    simp [checkSizeLimit, hb, this]
  have h2 : checkTxsOut c (coinbaseTx sec v cb ver lt) = .ok () ↔ 0 ≤ v ∧ v ≤ c.maxMoney := by
    simp only [checkTxsOut, coinbaseTx, checkTxsOutGo]
    by_cases hv : v < 0 ∨ v > (c.maxMoney : Int)
    · simp only [hv, if_true]
      constructor
      · intro h; cases h
      · intro h; omega
    · have : ¬ (0 + v > (c.maxMoney : Int)) := by omega
      simp only [hv, if_false, this, true_iff]
      omega
  simp only [h1, h4, h2, true_and, and_true, hcb, not_true_eq_false, false_and, or_false]
  have hnd : ([0] : List Nat).Nodup := by decide
  simp only [coinbaseTx, coinbaseTxIn, List.mem_singleton, forall_eq, hnd, true_and]
  constructor
  · rintro ⟨⟨a, b⟩, c, d⟩; exact ⟨c, d, a, b⟩
  · rintro ⟨a, b, c, d⟩; exact ⟨⟨c, d⟩, a, b⟩

end Pycoin.TxCheck
