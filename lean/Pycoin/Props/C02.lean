import Pycoin.Model.Curve
namespace Pycoin.Curve

/-- infinity is a left identity of `Curve.add`, whatever the other operand -/
theorem C02_add_inf_left (c : CurveParams) (P : Pt) : add c none P = .ok P := by
  cases P <;> rfl

end Pycoin.Curve
