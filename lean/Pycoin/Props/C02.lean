import Pycoin.Proofs.Group
/-!
C02 — elliptic-curve arithmetic is the group law.  Property theorems (helper lemmas: `Proofs/Field.lean`,
`Proofs/Group.lean`).

Setting: `c : CurveParams` with `[Good c]` (`p` prime, `Δ = −16(4a³+27b²) ≠ 0` in `ZMod p`),
`W c` the curve `y² = x³ + ax + b` over `ZMod p`, `(W c).Point` Mathlib's group of nonsingular points,
`toPoint c : Pt → (W c).Point` the group element a coordinate pair denotes, `OnCurve c P` = `contains_point`,
`Reduced c P` = coordinates in `[0, p)`.
-/
namespace Pycoin.Curve
open Pycoin

/-! ## (a) inverse_mod -/

/-- `Curve.inverse_mod(a, m)` with `gcd(a, m) = 1`, `m > 1`: the Euclid loop terminates within the fuel the model
gives it (no `outOfFuel`), the `assert d == 1` holds, the result lies in `[1, m−1]` and `a·result ≡ 1 (mod m)`. -/
theorem C02_inverseMod_correct (a m : Int) (hm : 1 < m) (hg : Int.gcd a m = 1) :
    ∃ r, inverseMod a m = .ok r ∧ 1 ≤ r ∧ r < m ∧ (a * r) % m = 1 :=
  inverseMod_spec a m hm hg

/-- over a prime modulus it is the field inverse -/
theorem C02_inverseMod_field (p : Nat) [Fact p.Prime] (a : Int) (ha : (a : ZMod p) ≠ 0) :
    ∃ r, inverseMod a (p : Int) = .ok r ∧ 1 ≤ r ∧ r < p ∧ (r : ZMod p) = (a : ZMod p)⁻¹ :=
  inverseMod_prime p a ha

example : inverseMod (-5) 17 = .ok 10 := by decide

variable (c : CurveParams) [Good c]

/-! ## (b) addition -/

/-- `Curve.add` refines Mathlib's group law: for on-curve operands — unreduced or negative coordinates allowed,
infinity allowed, `P = Q`, `P = −Q`, `y = 0` included — it never raises, the sum is on the curve, denotes
`toPoint P + toPoint Q`, and every computed sum (both operands affine) has coordinates in `[0, p)`. -/
theorem C02_add_refines (P Q : Pt) (hP : OnCurve c P) (hQ : OnCurve c Q) :
    ∃ R, add c P Q = .ok R ∧ OnCurve c R ∧ toPoint c R = toPoint c P + toPoint c Q ∧
      ((P ≠ none → Q ≠ none → Reduced c R) ∧ (Reduced c P → Reduced c Q → Reduced c R)) :=
  add_refines c P Q hP hQ

/-- closure: the sum of two curve points is a curve point (no exception) -/
theorem C02_add_closed (P Q : Pt) (hP : OnCurve c P) (hQ : OnCurve c Q) :
    ∃ R, add c P Q = .ok R ∧ containsPoint c R = true := by
  obtain ⟨R, h1, h2, -⟩ := add_refines c P Q hP hQ
  exact ⟨R, h1, h2⟩

/-- commutativity: both orders denote the same group element; for reduced operands the results are the same
coordinate pair -/
theorem C02_add_comm (P Q : Pt) (hP : OnCurve c P) (hQ : OnCurve c Q) :
    ∃ R R', add c P Q = .ok R ∧ add c Q P = .ok R' ∧ toPoint c R = toPoint c R' ∧
      (Reduced c P → Reduced c Q → R = R') := by
  obtain ⟨R, h1, h2, h3, -, h4⟩ := add_refines c P Q hP hQ
  obtain ⟨R', h1', h2', h3', -, h4'⟩ := add_refines c Q P hQ hP
  have : toPoint c R = toPoint c R' := by rw [h3, h3', add_comm]
  exact ⟨R, R', h1, h1', this, fun rP rQ => toPoint_inj c h2 h2' (h4 rP rQ) (h4' rQ rP) this⟩

/-- associativity: `(P + Q) + R` and `P + (Q + R)` never raise and denote the same group element; for reduced
operands they are the same coordinate pair -/
theorem C02_add_assoc (P Q R : Pt) (hP : OnCurve c P) (hQ : OnCurve c Q) (hR : OnCurve c R) :
    ∃ S U T U', add c P Q = .ok S ∧ add c S R = .ok U ∧ add c Q R = .ok T ∧ add c P T = .ok U' ∧
      toPoint c U = toPoint c U' ∧ (Reduced c P → Reduced c Q → Reduced c R → U = U') := by
  obtain ⟨S, s1, s2, s3, -, s4⟩ := add_refines c P Q hP hQ
  obtain ⟨U, u1, u2, u3, -, u4⟩ := add_refines c S R s2 hR
  obtain ⟨T, t1, t2, t3, -, t4⟩ := add_refines c Q R hQ hR
  obtain ⟨U', v1, v2, v3, -, v4⟩ := add_refines c P T hP t2
  have : toPoint c U = toPoint c U' := by rw [u3, s3, v3, t3, add_assoc]
  exact ⟨S, U, T, U', s1, u1, t1, v1, this,
    fun rP rQ rR => toPoint_inj c u2 v2 (u4 (s4 rP rQ) rR) (v4 rP (t4 rQ rR)) this⟩

omit [Good c] in
/-- infinity is the identity, on both sides, for every operand -/
theorem C02_add_zero (P : Pt) : add c P none = .ok P ∧ add c none P = .ok P := by
  cases P <;> exact ⟨rfl, rfl⟩

/-- `P + (−P) = ∞` with `−P = (x, p − y)` as `Point.__neg__` computes it (also for `y = 0`, where `−P = (x, p)`) -/
theorem C02_add_neg (x y : Int) (h : containsXY c x y = true) :
    neg c (some (x, y)) = .ok (some (x, c.p - y)) ∧ add c (some (x, y)) (some (x, c.p - y)) = .ok none := by
  obtain ⟨hn, hc, ht⟩ := neg_refines c h
  obtain ⟨R, h1, h2, h3, -⟩ := add_refines c (some (x, y)) (some (x, c.p - y)) h hc
  refine ⟨hn, ?_⟩
  rw [h1, toPoint_eq_zero c h2 (by rw [h3, ht, add_neg_cancel])]

/-- negation denotes the group inverse -/
theorem C02_neg_refines (x y : Int) (h : containsXY c x y = true) :
    ∃ N, neg c (some (x, y)) = .ok N ∧ OnCurve c N ∧ toPoint c N = - toPoint c (some (x, y)) :=
  ⟨_, (neg_refines c h).1, (neg_refines c h).2.1, (neg_refines c h).2.2⟩

/-! ## (c) scalar multiplication -/

/-- `Curve.multiply(P, e)` on a curve with an order `n` such that `n • P = ∞`: for every integer `e` — zero,
negative, `≥ n` — the `(e, 3e)` ladder never raises, never runs out of fuel, and returns `e • P`. -/
theorem C02_multiply_correct (P : Pt) (hP : OnCurve c P) (e : Int) (hn0 : c.n ≠ 0)
    (hn : (c.n : Int) • toPoint c P = 0) :
    ∃ R, multiply c P e = .ok R ∧ OnCurve c R ∧ toPoint c R = e • toPoint c P :=
  multiply_refines c P hP e (fun _ => hn) (fun h => absurd h hn0)

/-- the order-less variant (`order=None`): every `e ≥ 0` -/
theorem C02_multiply_orderless (P : Pt) (hP : OnCurve c P) (e : Int) (hn0 : c.n = 0) (he : 0 ≤ e) :
    ∃ R, multiply c P e = .ok R ∧ OnCurve c R ∧ toPoint c R = e • toPoint c P :=
  multiply_refines c P hP e (fun h => absurd hn0 h) (fun _ => he)

omit [Good c] in
/-- … and a negative scalar on an order-less curve is an `AssertionError` (outside the property's quantifier) -/
theorem C02_multiply_orderless_negative (P : Pt) (hP : P ≠ none) (e : Int) (hn0 : c.n = 0) (he : e < 0) :
    multiply c P e = .error .assertion :=
  multiply_negative_orderless c P hP e hn0 he

/-- `order * P = ∞` for every point the order annihilates.  PARTIAL: the property says "for every point of the
curve", i.e. `#E(F_p) = n`, a point count not provable here; the extra hypothesis is `n • P = ∞`
(it holds for every `P ∈ ⟨G⟩` by `C02_order_G_*`). -/
theorem C02_order_mul_partial (P : Pt) (hP : OnCurve c P) (hn0 : c.n ≠ 0) (hn : (c.n : Int) • toPoint c P = 0) (k : Int) :
    multiply c P (k * c.n) = .ok none := by
  obtain ⟨R, h1, h2, h3⟩ := C02_multiply_correct c P hP (k * c.n) hn0 hn
  rw [h1, toPoint_eq_zero c h2 (by rw [h3, mul_zsmul, hn, zsmul_zero])]

end Pycoin.Curve
