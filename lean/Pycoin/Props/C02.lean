import Pycoin.Proofs.Group
import Pycoin.Proofs.GenMul
import Pycoin.Proofs.Sqrt
import Pycoin.Proofs.CurveFacts.secp256k1
import Pycoin.Proofs.CurveFacts.secp256r1
import Pycoin.Proofs.CurveFacts.bls12_381
import Pycoin.Proofs.CurveFacts.Order
import Pycoin.Proofs.NativeGen
import Pycoin.Proofs.NativeFacts
import Pycoin.Proofs.NativeSecp
/-!
C02 — elliptic-curve arithmetic is the group law.  Property theorems (helper lemmas: `Proofs/Field.lean`,
`Proofs/Group.lean`).

Setting: `c : CurveParams` with `[Good c]` (`p` prime, `Δ = −16(4a³+27b²) ≠ 0` in `ZMod p`),
`W c` the curve `y² = x³ + ax + b` over `ZMod p`, `(W c).Point` Mathlib's group of nonsingular points,
`toPoint c : Pt → (W c).Point` the group element a coordinate pair denotes, `OnCurve c P` = `contains_point`,
`Reduced c P` = coordinates in `[0, p)`.
-/
namespace Pycoin.Curve
open Pycoin

/-! ## (a) inverse_mod -/

/-- `Curve.inverse_mod(a, m)` with `gcd(a, m) = 1`, `m > 1`: the Euclid loop terminates within the fuel the model
gives it (no `outOfFuel`), the `assert d == 1` holds, the result lies in `[1, m−1]` and `a·result ≡ 1 (mod m)`. -/
theorem C02_inverseMod_correct (a m : Int) (hm : 1 < m) (hg : Int.gcd a m = 1) :
    ∃ r, inverseMod a m = .ok r ∧ 1 ≤ r ∧ r < m ∧ (a * r) % m = 1 :=
  inverseMod_spec a m hm hg

/-- over a prime modulus it is the field inverse -/
theorem C02_inverseMod_field (p : Nat) [Fact p.Prime] (a : Int) (ha : (a : ZMod p) ≠ 0) :
    ∃ r, inverseMod a (p : Int) = .ok r ∧ 1 ≤ r ∧ r < p ∧ (r : ZMod p) = (a : ZMod p)⁻¹ :=
  inverseMod_prime p a ha

example : inverseMod (-5) 17 = .ok 10 := by decide

variable (c : CurveParams) [Good c]

/-! ## (b) addition -/

/-- `Curve.add` refines Mathlib's group law: for on-curve operands — unreduced or negative coordinates allowed,
infinity allowed, `P = Q`, `P = −Q`, `y = 0` included — it never raises, the sum is on the curve, denotes
`toPoint P + toPoint Q`, and every computed sum (both operands affine) has coordinates in `[0, p)`. -/
theorem C02_add_refines (P Q : Pt) (hP : OnCurve c P) (hQ : OnCurve c Q) :
    ∃ R, add c P Q = .ok R ∧ OnCurve c R ∧ toPoint c R = toPoint c P + toPoint c Q ∧
      ((P ≠ none → Q ≠ none → Reduced c R) ∧ (Reduced c P → Reduced c Q → Reduced c R)) :=
  add_refines c P Q hP hQ

/-- closure: the sum of two curve points is a curve point (no exception) -/
theorem C02_add_closed (P Q : Pt) (hP : OnCurve c P) (hQ : OnCurve c Q) :
    ∃ R, add c P Q = .ok R ∧ containsPoint c R = true := by
  obtain ⟨R, h1, h2, -⟩ := add_refines c P Q hP hQ
  exact ⟨R, h1, h2⟩

/-- commutativity: both orders denote the same group element; for reduced operands the results are the same
coordinate pair -/
theorem C02_add_comm (P Q : Pt) (hP : OnCurve c P) (hQ : OnCurve c Q) :
    ∃ R R', add c P Q = .ok R ∧ add c Q P = .ok R' ∧ toPoint c R = toPoint c R' ∧
      (Reduced c P → Reduced c Q → R = R') := by
  obtain ⟨R, h1, h2, h3, -, h4⟩ := add_refines c P Q hP hQ
  obtain ⟨R', h1', h2', h3', -, h4'⟩ := add_refines c Q P hQ hP
  have : toPoint c R = toPoint c R' := by rw [h3, h3', add_comm]
  exact ⟨R, R', h1, h1', this, fun rP rQ => toPoint_inj c h2 h2' (h4 rP rQ) (h4' rQ rP) this⟩

/-- associativity: `(P + Q) + R` and `P + (Q + R)` never raise and denote the same group element; for reduced
operands they are the same coordinate pair -/
theorem C02_add_assoc (P Q R : Pt) (hP : OnCurve c P) (hQ : OnCurve c Q) (hR : OnCurve c R) :
    ∃ S U T U', add c P Q = .ok S ∧ add c S R = .ok U ∧ add c Q R = .ok T ∧ add c P T = .ok U' ∧
      toPoint c U = toPoint c U' ∧ (Reduced c P → Reduced c Q → Reduced c R → U = U') := by
  obtain ⟨S, s1, s2, s3, -, s4⟩ := add_refines c P Q hP hQ
  obtain ⟨U, u1, u2, u3, -, u4⟩ := add_refines c S R s2 hR
  obtain ⟨T, t1, t2, t3, -, t4⟩ := add_refines c Q R hQ hR
  obtain ⟨U', v1, v2, v3, -, v4⟩ := add_refines c P T hP t2
  have : toPoint c U = toPoint c U' := by rw [u3, s3, v3, t3, add_assoc]
  exact ⟨S, U, T, U', s1, u1, t1, v1, this,
    fun rP rQ rR => toPoint_inj c u2 v2 (u4 (s4 rP rQ) rR) (v4 rP (t4 rQ rR)) this⟩

omit [Good c] in
/-- infinity is the identity, on both sides, for every operand -/
theorem C02_add_zero (P : Pt) : add c P none = .ok P ∧ add c none P = .ok P := by
  cases P <;> exact ⟨rfl, rfl⟩

/-- `P + (−P) = ∞` with `−P = (x, p − y)` as `Point.__neg__` computes it (also for `y = 0`, where `−P = (x, p)`) -/
theorem C02_add_neg (x y : Int) (h : containsXY c x y = true) :
    neg c (some (x, y)) = .ok (some (x, c.p - y)) ∧ add c (some (x, y)) (some (x, c.p - y)) = .ok none := by
  obtain ⟨hn, hc, ht⟩ := neg_refines c h
  obtain ⟨R, h1, h2, h3, -⟩ := add_refines c (some (x, y)) (some (x, c.p - y)) h hc
  refine ⟨hn, ?_⟩
  rw [h1, toPoint_eq_zero c h2 (by rw [h3, ht, add_neg_cancel])]

/-- negation denotes the group inverse -/
theorem C02_neg_refines (x y : Int) (h : containsXY c x y = true) :
    ∃ N, neg c (some (x, y)) = .ok N ∧ OnCurve c N ∧ toPoint c N = - toPoint c (some (x, y)) :=
  ⟨_, (neg_refines c h).1, (neg_refines c h).2.1, (neg_refines c h).2.2⟩

/-! ## (c) scalar multiplication -/

/-- `Curve.multiply(P, e)` on a curve with an order `n` such that `n • P = ∞`: for every integer `e` — zero,
negative, `≥ n` — the `(e, 3e)` ladder never raises, never runs out of fuel, and returns `e • P`. -/
theorem C02_multiply_correct (P : Pt) (hP : OnCurve c P) (e : Int) (hn0 : c.n ≠ 0)
    (hn : (c.n : Int) • toPoint c P = 0) :
    ∃ R, multiply c P e = .ok R ∧ OnCurve c R ∧ toPoint c R = e • toPoint c P :=
  multiply_refines c P hP e (fun _ => hn) (fun h => absurd h hn0)

/-- the order-less variant (`order=None`): every `e ≥ 0` -/
theorem C02_multiply_orderless (P : Pt) (hP : OnCurve c P) (e : Int) (hn0 : c.n = 0) (he : 0 ≤ e) :
    ∃ R, multiply c P e = .ok R ∧ OnCurve c R ∧ toPoint c R = e • toPoint c P :=
  multiply_refines c P hP e (fun h => absurd hn0 h) (fun _ => he)

omit [Good c] in
/-- … and a negative scalar on an order-less curve is an `AssertionError` (outside the property's quantifier) -/
theorem C02_multiply_orderless_negative (P : Pt) (hP : P ≠ none) (e : Int) (hn0 : c.n = 0) (he : e < 0) :
    multiply c P e = .error .assertion :=
  multiply_negative_orderless c P hP e hn0 he

/-- `order * P = ∞` for every point the order annihilates.  PARTIAL (generic curve): the property says "for every point
of the curve", i.e. `#E(F_p) = n`; the extra hypothesis is `n • P = ∞` (it holds for every `P ∈ ⟨G⟩` by `C02_order_G_*`).
For secp256k1 and secp256r1 the point count is proved and the hypothesis disappears: `C02_order_mul_secp256k1` /
`C02_order_mul_secp256r1` below; for BLS12-381 G1 the clause is false (`C02_order_all_points_bls12_381_refuted`). -/
theorem C02_order_mul_partial (P : Pt) (hP : OnCurve c P) (hn0 : c.n ≠ 0) (hn : (c.n : Int) • toPoint c P = 0) (k : Int) :
    multiply c P (k * c.n) = .ok none := by
  obtain ⟨R, h1, h2, h3⟩ := C02_multiply_correct c P hP (k * c.n) hn0 hn
  rw [h1, toPoint_eq_zero c h2 (by rw [h3, mul_zsmul, hn, zsmul_zero])]


/-! ## (d) fixed-base table and blinding -/

/-- `Generator.raw_mul(e) = e • G` for every integer `e`, on a generator with `0 < n ≤ 2²⁵⁶` and `n • G = ∞`
(the 256-entry table loses higher bits of `e mod n`; `n ≤ 2²⁵⁶` is the explicit hypothesis, true of every shipped
curve and of every toy curve) -/
theorem C02_rawMul_correct (hG : containsXY c c.gx c.gy = true) (hn0 : c.n ≠ 0) (hn256 : c.n ≤ 2 ^ 256)
    (hn : (c.n : Int) • toPoint c (basis c) = 0) (e : Int) :
    ∃ R, rawMul c e = .ok R ∧ OnCurve c R ∧ toPoint c R = e • toPoint c (basis c) :=
  rawMul_refines c hG hn0 hn256 hn e

/-- the blinded `Generator.__mul__` denotes `e • G` whatever the blinding factor -/
theorem C02_blindedMul_eq (hG : containsXY c c.gx c.gy = true) (hn0 : c.n ≠ 0) (hn256 : c.n ≤ 2 ^ 256)
    (hn : (c.n : Int) • toPoint c (basis c) = 0) (bf e : Int) :
    ∃ R, mulG c bf e = .ok R ∧ OnCurve c R ∧ toPoint c R = e • toPoint c (basis c) :=
  mulG_refines c hG hn0 hn256 hn bf e

/-- … hence blinded and plain agree as coordinate pairs (both are reduced or infinity) -/
theorem C02_blindedMul_eq_rawMul (hG : containsXY c c.gx c.gy = true) (hn0 : c.n ≠ 0) (hn256 : c.n ≤ 2 ^ 256)
    (hn : (c.n : Int) • toPoint c (basis c) = 0) (bf bf' e : Int) :
    ∃ R R', mulG c bf e = .ok R ∧ mulG c bf' e = .ok R' ∧ toPoint c R = toPoint c R' := by
  obtain ⟨R, h1, -, h3⟩ := mulG_refines c hG hn0 hn256 hn bf e
  obtain ⟨R', h1', -, h3'⟩ := mulG_refines c hG hn0 hn256 hn bf' e
  exact ⟨R, R', h1, h1', by rw [h3, h3']⟩

/-! ## (f) points_for_x -/

/-- `Generator.points_for_x(x)` for `p ≡ 3 (mod 4)` and `α = x³ + ax + b ≠ 0` (true on every curve of odd order):
exactly the two curve points with abscissa `x`, even `y` first, when `α` is a square; `NoSuchPointError`
(a `ValueError`) when it is not, and then the curve has no point with this abscissa. -/
theorem C02_pointsForX_spec (h4 : c.p % 4 = 3) (x : Int) (hα : alphaOf c x ≠ 0) :
    (IsSquare (alphaOf c x) →
      ∃ y0 y1 : Int, pointsForX c x = .ok (some (x, y0), some (x, y1)) ∧
        containsXY c x y0 = true ∧ containsXY c x y1 = true ∧ 0 < y0 ∧ y0 < c.p ∧ 0 < y1 ∧ y1 < c.p ∧
        y0 % 2 = 0 ∧ y0 + y1 = c.p ∧
        ∀ y : Int, 0 ≤ y → y < c.p → containsXY c x y = true → y = y0 ∨ y = y1) ∧
    (¬ IsSquare (alphaOf c x) →
      pointsForX c x = .error .noSuchPoint ∧ ∀ y : Int, containsXY c x y = false) :=
  pointsForX_spec c h4 x hα

/-! ## non-vacuity: a toy curve satisfying every hypothesis (y² = x³ + 3 over F₇, 13 points, G = (1, 2)) -/

def toy7 : CurveParams := { p := 7, a := 0, b := 3, gx := 1, gy := 2, n := 13 }

instance good_toy7 : Good toy7 := Good.of_int toy7 (by decide) (by decide)

example : containsPoint toy7 (some (1, 2)) = true ∧ containsPoint toy7 (some (8, -2)) = true ∧ toy7.p % 4 = 3 := by decide
#guard add toy7 (some (1, 2)) (some (8, -2)) matches .ok none            -- P + (−P), unreduced operand
#guard add toy7 (some (1, 2)) (some (1, 9)) matches .ok (some (6, 3))    -- doubling through x₀ ≡ x₁, unreduced
#guard multiply toy7 (some (1, 2)) 13 matches .ok none
#guard multiply toy7 (some (1, 2)) (-1) matches .ok (some (1, 5))
#guard multiply { toy7 with n := 0 } (some (1, 2)) (-1) matches .error .assertion
#guard pointsForX toy7 1 matches .ok (some (1, 2), some (1, 5))
#guard pointsForX toy7 0 matches .error .noSuchPoint

end Pycoin.Curve

/-! ## (e) the shipped curves: primality by Pratt certificates, order of the generator by evaluation -/
namespace Pycoin.Gen.Curves
open Pycoin.Curve

theorem C02_prime_p_secp256k1 : Nat.Prime secp256k1.p := prime_p_secp256k1
theorem C02_prime_n_secp256k1 : Nat.Prime secp256k1.n := prime_n_secp256k1
theorem C02_prime_p_secp256r1 : Nat.Prime secp256r1.p := prime_p_secp256r1
theorem C02_prime_n_secp256r1 : Nat.Prime secp256r1.n := prime_n_secp256r1
theorem C02_prime_p_bls12_381 : Nat.Prime bls12_381.p := prime_p_bls12_381
theorem C02_prime_n_bls12_381 : Nat.Prime bls12_381.n := prime_n_bls12_381

/-- `n • G = ∞` in Mathlib's group, for the constants the code ships *now* (kernel evaluation of the model ladder) -/
theorem C02_order_G_secp256k1 : (secp256k1.n : Int) • toPoint secp256k1 (basis secp256k1) = 0 := order_G_secp256k1
theorem C02_order_G_secp256r1 : (secp256r1.n : Int) • toPoint secp256r1 (basis secp256r1) = 0 := order_G_secp256r1
theorem C02_order_G_bls12_381 : (bls12_381.n : Int) • toPoint bls12_381 (basis bls12_381) = 0 := order_G_bls12_381

/-- every shipped curve meets the side conditions of the generic theorems: `p ≡ 3 (mod 4)`, `0 < n ≤ 2²⁵⁶`,
`G` on the curve (and `Good`: instances `good_*`) -/
theorem C02_side_conditions :
    (secp256k1.p % 4 = 3 ∧ secp256k1.n ≠ 0 ∧ secp256k1.n ≤ 2 ^ 256 ∧ containsXY secp256k1 secp256k1.gx secp256k1.gy = true) ∧
    (secp256r1.p % 4 = 3 ∧ secp256r1.n ≠ 0 ∧ secp256r1.n ≤ 2 ^ 256 ∧ containsXY secp256r1 secp256r1.gx secp256r1.gy = true) ∧
    (bls12_381.p % 4 = 3 ∧ bls12_381.n ≠ 0 ∧ bls12_381.n ≤ 2 ^ 256 ∧ containsXY bls12_381 bls12_381.gx bls12_381.gy = true) := by
  refine ⟨⟨?_, ?_, ?_, G_on_curve_secp256k1⟩, ⟨?_, ?_, ?_, G_on_curve_secp256r1⟩, ⟨?_, ?_, ?_, G_on_curve_bls12_381⟩⟩ <;>
    decide +kernel

/-- scalar multiples of the generator are annihilated by the order: the hypothesis `n • P = ∞` of
`C02_multiply_correct` / `C02_order_mul_partial` holds on the whole subgroup `⟨G⟩` -/
theorem C02_order_subgroup_secp256k1 (k : Int) :
    (secp256k1.n : Int) • (k • toPoint secp256k1 (basis secp256k1)) = 0 := by
  rw [smul_comm, order_G_secp256k1, zsmul_zero]

theorem C02_order_subgroup_secp256r1 (k : Int) :
    (secp256r1.n : Int) • (k • toPoint secp256r1 (basis secp256r1)) = 0 := by
  rw [smul_comm, order_G_secp256r1, zsmul_zero]

theorem C02_order_subgroup_bls12_381 (k : Int) :
    (bls12_381.n : Int) • (k • toPoint bls12_381 (basis bls12_381)) = 0 := by
  rw [smul_comm, order_G_bls12_381, zsmul_zero]

/-! ### `#E(F_p) = n` for secp256k1 and secp256r1 (no Hasse bound needed)

`E` injects into `Option (ZMod p × Bool)` (abscissa, and which of the at most two ordinates), so `#E ≤ 2p + 1 < 3n`;
`G ≠ ∞` has prime order `n`, so `n ∣ #E` (Lagrange) and `#E ∈ {n, 2n}`; `#E = 2n` would give a point of order two
(Cauchy), i.e. a point with `y = 0`, i.e. a root of `x³ + ax + b` modulo `p` — excluded by a generated certificate
checked in the kernel (`noroot_*`: an inverse of `X^p − X` modulo the cubic; a root `r` has `r^p = r`).
`Proofs/CurveCard.lean`, `Proofs/CubicRoot.lean`, `Proofs/CurveFacts/Order.lean`. -/

/-- the number of points of secp256k1 over `F_p`, infinity included, is the order `n` the code ships -/
theorem C02_card_points_secp256k1 : Nat.card (W secp256k1).Point = secp256k1.n := card_secp256k1
theorem C02_card_points_secp256r1 : Nat.card (W secp256r1).Point = secp256r1.n := card_secp256r1

/-- `n • P = ∞` for **every** point of the curve (not only `P ∈ ⟨G⟩`) -/
theorem C02_order_all_points_secp256k1 (P : (W secp256k1).Point) : (secp256k1.n : Int) • P = 0 := order_all_secp256k1 P
theorem C02_order_all_points_secp256r1 (P : (W secp256r1).Point) : (secp256r1.n : Int) • P = 0 := order_all_secp256r1 P

/-- every point other than infinity has order exactly `n`: the group is cyclic of prime order, generated by any of them -/
theorem C02_point_order_secp256k1 (P : (W secp256k1).Point) (hP : P ≠ 0) : addOrderOf P = secp256k1.n :=
  addOrderOf_secp256k1 P hP
theorem C02_point_order_secp256r1 (P : (W secp256r1).Point) (hP : P ≠ 0) : addOrderOf P = secp256r1.n :=
  addOrderOf_secp256r1 P hP

/-- no point of the curve has `y ≡ 0`: `x³ + ax + b ≠ 0` for every `x` (the side condition of `C02_pointsForX_spec`) -/
theorem C02_alpha_ne_zero_secp256k1 (x : Int) : alphaOf secp256k1 x ≠ 0 := no_root_secp256k1 _
theorem C02_alpha_ne_zero_secp256r1 (x : Int) : alphaOf secp256r1 x ≠ 0 := no_root_secp256r1 _

/-- **the property's clause at full strength**: `Curve.multiply(P, e)` returns `e • P` for every point `P` of the curve
and every integer `e` — no torsion hypothesis -/
theorem C02_multiply_correct_secp256k1 (P : Pt) (hP : OnCurve secp256k1 P) (e : Int) :
    ∃ R, multiply secp256k1 P e = .ok R ∧ OnCurve secp256k1 R ∧ toPoint secp256k1 R = e • toPoint secp256k1 P :=
  C02_multiply_correct secp256k1 P hP e (by decide +kernel) (order_all_secp256k1 _)

theorem C02_multiply_correct_secp256r1 (P : Pt) (hP : OnCurve secp256r1 P) (e : Int) :
    ∃ R, multiply secp256r1 P e = .ok R ∧ OnCurve secp256r1 R ∧ toPoint secp256r1 R = e • toPoint secp256r1 P :=
  C02_multiply_correct secp256r1 P hP e (by decide +kernel) (order_all_secp256r1 _)

/-- **`order * P = ∞` for every point of the curve** (and every multiple of the order), as `Curve.multiply` computes it -/
theorem C02_order_mul_secp256k1 (P : Pt) (hP : OnCurve secp256k1 P) (k : Int) :
    multiply secp256k1 P (k * secp256k1.n) = .ok none :=
  C02_order_mul_partial secp256k1 P hP (by decide +kernel) (order_all_secp256k1 _) k

theorem C02_order_mul_secp256r1 (P : Pt) (hP : OnCurve secp256r1 P) (k : Int) :
    multiply secp256r1 P (k * secp256r1.n) = .ok none :=
  C02_order_mul_partial secp256r1 P hP (by decide +kernel) (order_all_secp256r1 _) k

/-- `points_for_x(x)` without the side condition: for every `x`, the two points (even `y` first) or `NoSuchPointError` -/
theorem C02_pointsForX_spec_secp256k1 (x : Int) :
    (IsSquare (alphaOf secp256k1 x) →
      ∃ y0 y1 : Int, pointsForX secp256k1 x = .ok (some (x, y0), some (x, y1)) ∧
        containsXY secp256k1 x y0 = true ∧ containsXY secp256k1 x y1 = true ∧ 0 < y0 ∧ y0 < secp256k1.p ∧
        0 < y1 ∧ y1 < secp256k1.p ∧ y0 % 2 = 0 ∧ y0 + y1 = secp256k1.p ∧
        ∀ y : Int, 0 ≤ y → y < secp256k1.p → containsXY secp256k1 x y = true → y = y0 ∨ y = y1) ∧
    (¬ IsSquare (alphaOf secp256k1 x) →
      pointsForX secp256k1 x = .error .noSuchPoint ∧ ∀ y : Int, containsXY secp256k1 x y = false) :=
  C02_pointsForX_spec secp256k1 (by decide +kernel) x (no_root_secp256k1 _)

theorem C02_pointsForX_spec_secp256r1 (x : Int) :
    (IsSquare (alphaOf secp256r1 x) →
      ∃ y0 y1 : Int, pointsForX secp256r1 x = .ok (some (x, y0), some (x, y1)) ∧
        containsXY secp256r1 x y0 = true ∧ containsXY secp256r1 x y1 = true ∧ 0 < y0 ∧ y0 < secp256r1.p ∧
        0 < y1 ∧ y1 < secp256r1.p ∧ y0 % 2 = 0 ∧ y0 + y1 = secp256r1.p ∧
        ∀ y : Int, 0 ≤ y → y < secp256r1.p → containsXY secp256r1 x y = true → y = y0 ∨ y = y1) ∧
    (¬ IsSquare (alphaOf secp256r1 x) →
      pointsForX secp256r1 x = .error .noSuchPoint ∧ ∀ y : Int, containsXY secp256r1 x y = false) :=
  C02_pointsForX_spec secp256r1 (by decide +kernel) x (no_root_secp256r1 _)

/-- sanity check of the counting argument on a curve small enough to count by hand (a test of non-vacuity):
`y² = x³ + 3` over `F₇` has 13 points, the order `toy7` declares -/
example : Nat.card (W toy7).Point = 13 :=
  card_point_eq toy7 (by decide) (by decide) (order_of_eval toy7 (by decide) (by decide +kernel)) (by decide) (by decide)
    (no_root_of_cert toy7 ⟨0, 0, 2⟩ (by decide +kernel))

/-- REFUTED on BLS12-381 G1 (known finding `bls12-381-cofactor`): the curve has a cofactor, the point `(0, 2)` lies on
it and `r • (0, 2) ≠ ∞`; so "order • P = ∞ for every curve point" is false there … -/
theorem C02_order_all_points_bls12_381_refuted :
    ¬ ∀ P : Pt, OnCurve bls12_381 P → (bls12_381.n : Int) • toPoint bls12_381 P = 0 :=
  fun h => order_not_all_points_bls12_381 (h (some (0, 2)) cofactor_point_on_curve_bls12_381)

/-- … and `Curve.multiply`, which reduces the scalar modulo the order first, returns infinity for `r * (0, 2)`:
it does not compute `e • P` for every curve point of this curve (replayed on the implementation by the corpus) -/
theorem C02_multiply_all_points_bls12_381_refuted :
    ¬ ∀ (P : Pt) (e : Int), OnCurve bls12_381 P →
        ∃ R, multiply bls12_381 P e = .ok R ∧ toPoint bls12_381 R = e • toPoint bls12_381 P := by
  intro h
  obtain ⟨R, h1, h2⟩ := h (some (0, 2)) bls12_381.n cofactor_point_on_curve_bls12_381
  have hm : multiply bls12_381 (some (0, 2)) bls12_381.n = .ok none := by
    unfold multiply
    have hz : Pycoin.fmod (bls12_381.n : Int) (bls12_381.n : Int) = 0 := by
      rw [fmod_natCast]; exact Int.emod_self
    have hn : bls12_381.n ≠ 0 := by decide +kernel
    simp [hn, hz]
  rw [hm] at h1
  cases h1
  rw [toPoint_none] at h2
  exact order_not_all_points_bls12_381 h2.symm

end Pycoin.Gen.Curves

/-! ## (g) the OpenSSL-accelerated classes (`native/openssl.py`, `native/bignum.py`)

The glue is modelled statement by statement (`Model/NativeCurve.lean`: `Ossl.multiply`, `Ossl.rawMul`, `Ossl.inverseMod`,
`BignumType`), with libcrypto a PARAMETER `L : LibCrypto`.  What libcrypto is assumed to do is the hypothesis
`LibCryptoOk L c` (`Proofs/NativeContract.lean`: `EC_POINT_mul` computes `e • P` for a finite reduced curve point and
`0 < e < n`; `EC_POINT_get_affine_coordinates` fails on infinity and leaves the outputs alone; `BN_mod_inverse` is the
inverse or NULL; `BN_mpi2bn` decodes MPI) — trusted base, stated as a hypothesis, not an axiom; satisfiable
(`C02_openssl_contract_satisfiable_*`); its observable clauses are probed on the real library on every run.
`CurveFits c`: `p` and `n` are below the size `BN_mpi2bn`'s `int len` can carry (2³⁴ bits). -/
namespace Pycoin.Native
open Pycoin Pycoin.Curve

section generic
variable {c : CurveParams} [Good c] {L : LibCrypto}

/-- the generic code over a method table, instantiated with the pure methods, IS the pure model (so the theorems of
sections (a)–(f) speak about the same description of the source the native theorems use) -/
theorem C02_methods_pure (P Q : Pt) (bf e : Int) :
    Gen.add (pureMethods c) c P Q = Curve.add c P Q ∧ Gen.mulG (pureMethods c) c bf e = Curve.mulG c bf e ∧
    Gen.sharedPublicKey (pureMethods c) c e Q = Curve.sharedPublicKey c e Q ∧
    Gen.generatorInit (pureMethods c) c bf = Curve.generatorInit c bf :=
  ⟨Gen.add_pure c P Q, Gen.mulG_pure c bf e, Gen.sharedPublicKey_pure c e Q, Gen.generatorInit_pure c bf⟩

/-- **`Optimizations.multiply(P, e)` computes `e • P`**: for every curve point `P` killed by the prime order — coordinates
unreduced or negative, a zero coordinate, infinity — and EVERY integer `e` (zero, negative, multiples of `n`, `≥ 2²⁵⁶`)
it never raises and returns a reduced curve point denoting `e • P` in Mathlib's group -/
theorem C02_openssl_multiply_correct (hL : LibCryptoOk L c) (fits : CurveFits c) (hn : c.n.Prime) (P : Pt)
    (hP : OnCurve c P) (hT : (c.n : Int) • toPoint c P = 0) (e : Int) :
    ∃ R, Ossl.multiply L c P e = .ok R ∧ OnCurve c R ∧ Reduced c R ∧ toPoint c R = e • toPoint c P := by
  obtain ⟨den, spec⟩ := hL
  exact ossl_multiply_spec spec fits hn P hP hT e

/-- **identical coordinates for identical inputs**: OpenSSL `multiply` = pure `multiply` with the coordinates reduced
mod `p` (the pure ladder hands an unreduced operand back as given when `e ≡ 1`) … -/
theorem C02_openssl_multiply (hL : LibCryptoOk L c) (fits : CurveFits c) (hn : c.n.Prime) (P : Pt)
    (hP : OnCurve c P) (hT : (c.n : Int) • toPoint c P = 0) (e : Int) :
    Ossl.multiply L c P e = (Curve.multiply c P e).map (reducePt c) := by
  obtain ⟨den, spec⟩ := hL
  exact ossl_multiply_eq_map spec fits hn P hP hT e

/-- … and the very same pair when the operand is reduced -/
theorem C02_openssl_multiply_reduced (hL : LibCryptoOk L c) (fits : CurveFits c) (ok : ECDSAOk c) (P : Pt)
    (hP : OnCurve c P) (rP : Reduced c P) (hT : (c.n : Int) • toPoint c P = 0) (e : Int) :
    Ossl.multiply L c P e = Curve.multiply c P e := by
  obtain ⟨den, spec⟩ := hL
  exact ossl_multiply_eq spec fits ok P hP rP hT e

/-- `Optimizations.raw_mul(e) = Generator.raw_mul(e)` for every integer `e` -/
theorem C02_openssl_rawMul (hL : LibCryptoOk L c) (fits : CurveFits c) (ok : ECDSAOk c) (e : Int) :
    Ossl.rawMul L c e = Curve.rawMul c e := by
  obtain ⟨den, spec⟩ := hL
  exact ossl_rawMul_eq spec fits ok e

/-- the blinded `Generator.__mul__` of the OpenSSL class = that of the pure class, for every blinding factor -/
theorem C02_openssl_blindedMul (hL : LibCryptoOk L c) (fits : CurveFits c) (ok : ECDSAOk c) (bf e : Int) :
    Gen.mulG (Ossl.methods L c) c bf e = Curve.mulG c bf e := by
  obtain ⟨den, spec⟩ := hL
  exact ossl_mulG_eq spec fits ok bf e

/-- `Optimizations.inverse_mod(a, m) = Curve.inverse_mod(a, m)` for every modulus `m > 1` and EVERY operand: the inverse in
`[1, m)` when `gcd(a, m) = 1`, `AssertionError` when not (`Fits`: the operands have fewer than 2³⁴ bits) -/
theorem C02_openssl_inverseMod (hL : LibCryptoOk L c) (a m : Int) (hm : 1 < m) (fa : Fits a) (fm : Fits m) :
    Ossl.inverseMod L a m = Curve.inverseMod a m := by
  obtain ⟨den, spec⟩ := hL
  exact ossl_inverseMod_eq spec a m hm fa fm

/-- what the glue did on operands without an inverse BEFORE the repair (`BN_mod_inverse`'s NULL was not looked at): the
operand came back unchanged where the pure class raises `AssertionError` (fixed defect `openssl-inverse-unchecked`) -/
theorem C02_openssl_inverseMod_before_fix (hL : LibCryptoOk L c) (a m : Int) (hm : 1 < m) (fa : Fits a) (fm : Fits m)
    (hg : Int.gcd a m ≠ 1) :
    Ossl.inverseModUnchecked L a m = .ok a ∧ Curve.inverseMod a m = .error .assertion := by
  obtain ⟨den, spec⟩ := hL
  exact ⟨ossl_inverseModUnchecked_not_coprime spec a m hm fa fm hg, inverseMod_not_coprime a m hm hg⟩

/-- `Point + Point` in the OpenSSL class (`Curve.add` calling OpenSSL's `inverse_mod`) = pure `Curve.add`, for all operands
whose coordinates fit a bignum — on or off the curve, every branch -/
theorem C02_openssl_add (hL : LibCryptoOk L c) (fits : CurveFits c) (P Q : Pt) (fP : CoordFits P) (fQ : CoordFits Q) :
    Gen.add (Ossl.methods L c) c P Q = Curve.add c P Q := by
  obtain ⟨den, spec⟩ := hL
  exact ossl_add_eq spec fits P Q fP fQ

/-- `generate_shared_public_key` through the OpenSSL class: the pure result, coordinates reduced; `NoSuchPointError` off
the curve in both -/
theorem C02_openssl_shared (hL : LibCryptoOk L c) (fits : CurveFits c) (ok : ECDSAOk c) (d : Int) (Q : Pt)
    (hQn : OnCurve c Q → (c.n : Int) • toPoint c Q = 0) :
    Gen.sharedPublicKey (Ossl.methods L c) c d Q = (Curve.sharedPublicKey c d Q).map (reducePt c) := by
  obtain ⟨den, spec⟩ := hL
  exact ossl_shared_eq spec fits ok d Q hQn

/-- the constructor of the OpenSSL class (table of doublings through OpenSSL's `inverse_mod`, `raw_mul(-bf)` through
`EC_POINT_mul`) accepts and rejects what the pure constructor does -/
theorem C02_openssl_generatorInit (hL : LibCryptoOk L c) (fits : CurveFits c) (ok : ECDSAOk c) (bf : Int) :
    Gen.generatorInit (Ossl.methods L c) c bf = Curve.generatorInit c bf := by
  obtain ⟨den, spec⟩ := hL
  exact ossl_generatorInit_eq spec fits ok bf

end generic

open Pycoin.Gen.Curves

/-- non-vacuity: an executable libcrypto (the pure model playing it) satisfies the contract on both curves that have an
OpenSSL class -/
theorem C02_openssl_contract_satisfiable_secp256k1 : LibCryptoOk (pureLib secp256k1) secp256k1 := pureLib_ok_secp256k1
theorem C02_openssl_contract_satisfiable_secp256r1 : LibCryptoOk (pureLib secp256r1) secp256r1 := pureLib_ok_secp256r1

/-- **the clause at full strength on the shipped curves**: for every libcrypto meeting the contract, every point of the
curve and every integer, the OpenSSL class returns the coordinates the pure class returns (reduced mod `p`) -/
theorem C02_openssl_multiply_secp256k1 {L : LibCrypto} (hL : LibCryptoOk L secp256k1) (P : Pt)
    (hP : OnCurve secp256k1 P) (e : Int) :
    Ossl.multiply L secp256k1 P e = (Curve.multiply secp256k1 P e).map (reducePt secp256k1) :=
  C02_openssl_multiply hL curveFits_secp256k1 prime_n_secp256k1 P hP (order_all_secp256k1 _) e

theorem C02_openssl_multiply_secp256r1 {L : LibCrypto} (hL : LibCryptoOk L secp256r1) (P : Pt)
    (hP : OnCurve secp256r1 P) (e : Int) :
    Ossl.multiply L secp256r1 P e = (Curve.multiply secp256r1 P e).map (reducePt secp256r1) :=
  C02_openssl_multiply hL curveFits_secp256r1 prime_n_secp256r1 P hP (order_all_secp256r1 _) e

theorem C02_openssl_generator_secp256k1 {L : LibCrypto} (hL : LibCryptoOk L secp256k1) (bf e : Int) :
    Ossl.rawMul L secp256k1 e = Curve.rawMul secp256k1 e ∧
    Gen.mulG (Ossl.methods L secp256k1) secp256k1 bf e = Curve.mulG secp256k1 bf e :=
  ⟨C02_openssl_rawMul hL curveFits_secp256k1 ecdsaOk_secp256k1 e,
    C02_openssl_blindedMul hL curveFits_secp256k1 ecdsaOk_secp256k1 bf e⟩

theorem C02_openssl_generator_secp256r1 {L : LibCrypto} (hL : LibCryptoOk L secp256r1) (bf e : Int) :
    Ossl.rawMul L secp256r1 e = Curve.rawMul secp256r1 e ∧
    Gen.mulG (Ossl.methods L secp256r1) secp256r1 bf e = Curve.mulG secp256r1 bf e :=
  ⟨C02_openssl_rawMul hL curveFits_secp256r1 ecdsaOk_secp256r1 e,
    C02_openssl_blindedMul hL curveFits_secp256r1 ecdsaOk_secp256r1 bf e⟩

/-! ### the libsecp256k1 class (`native/secp256k1.py`): `__mul__` and `multiply`

libsecp256k1 is ABSENT from the sandbox: glue model and contract `LibSecpOk` (`Proofs/NativeSecp.lean`) are tied to the
source by reading only; the theorems say what follows IF the library does what its documentation says. -/

/-- `Optimizations.__mul__(e)` of the libsecp256k1 class (`secp256k1_ec_pubkey_create`, no blinding) = the blinded
`Generator.__mul__(e)` of the pure class, every integer `e`, every blinding factor -/
theorem C02_libsecp_mul {c : CurveParams} [Good c] {S : LibSecp256k1} (hS : LibSecpOk S c) (ok : ECDSAOk c)
    (hp256 : c.p ≤ 2 ^ 256) (bf e : Int) : Secp.mul S c e = Curve.mulG c bf e := by
  obtain ⟨denP, denS, spec⟩ := hS
  exact secp_mul_eq spec ok hp256 bf e

/-- `Optimizations.multiply(P, e)` of the libsecp256k1 class (`pubkey_parse`, `pubkey_tweak_mul`) = the pure `multiply`
for every REDUCED curve point of the `n`-torsion (infinity included) and every integer `e`.  For unreduced coordinates
the glue does not reduce: negative or `≥ 2²⁵⁶` raises `OverflowError`, `p ≤ x < 2²⁵⁶` makes `pubkey_parse` fail and the
method returns the Python value `False` (model: `MulRes.pyFalse`) — the backends differ there. -/
theorem C02_libsecp_multiply {c : CurveParams} [Good c] {S : LibSecp256k1} (hS : LibSecpOk S c) (ok : ECDSAOk c)
    (hp256 : c.p ≤ 2 ^ 256) (P : Pt) (hP : OnCurve c P) (rP : Reduced c P) (hT : (c.n : Int) • toPoint c P = 0) (e : Int) :
    Secp.multiply S c P e = (Curve.multiply c P e).map MulRes.pt := by
  obtain ⟨denP, denS, spec⟩ := hS
  exact secp_multiply_eq spec ok hp256 P hP rP hT e

theorem C02_libsecp_multiply_secp256k1 {S : LibSecp256k1} (hS : LibSecpOk S secp256k1) (P : Pt)
    (hP : OnCurve secp256k1 P) (rP : Reduced secp256k1 P) (e : Int) :
    Secp.multiply S secp256k1 P e = (Curve.multiply secp256k1 P e).map MulRes.pt :=
  C02_libsecp_multiply hS ecdsaOk_secp256k1 (by decide +kernel) P hP rP (order_all_secp256k1 _) e

/-! evaluated examples (tests): the glue model over the pure-model libcrypto on the toy curve — zero, negative and
over-order scalars, unreduced coordinates, infinity, an operand without inverse -/
#guard Ossl.multiply (pureLib toy7) toy7 (some (8, -5)) 13 matches .ok none
#guard Ossl.multiply (pureLib toy7) toy7 (some (8, -5)) 0 matches .ok none
#guard Ossl.multiply (pureLib toy7) toy7 (some (8, -5)) (-1) matches .ok (some (1, 5))
#guard Ossl.multiply (pureLib toy7) toy7 (some (8, -5)) 14 matches .ok (some (1, 2))
#guard Ossl.multiply (pureLib toy7) toy7 none 5 matches .ok none
#guard Ossl.multiply (pureLib toy7) toy7 (some (1, 3)) 2 matches .error .noSuchPoint
#guard Ossl.rawMul (pureLib toy7) toy7 (2 ^ 256 + 1) == Curve.rawMul toy7 (2 ^ 256 + 1)
#guard Ossl.inverseMod (pureLib toy7) (-5) 17 matches .ok 10
#guard Ossl.inverseMod (pureLib toy7) 34 17 matches .error .assertion
#guard Ossl.inverseModUnchecked (pureLib toy7) 34 17 matches .ok 34

end Pycoin.Native
