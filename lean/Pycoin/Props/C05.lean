import Pycoin.Model.Sign
import Pycoin.Proofs.SignDer
import Pycoin.Proofs.SignEval
import Pycoin.Proofs.SignWrap
import Pycoin.Proofs.SignState
import Pycoin.Proofs.SignParse
import Pycoin.Proofs.SignExisting
import Pycoin.Proofs.SignWho
import Pycoin.Proofs.SignLink
import Pycoin.Proofs.SignOrder
import Pycoin.Proofs.SignKeychain
import Pycoin.Model.SignSecp
import Pycoin.Props.C01
import Pycoin.Props.C10
import Pycoin.Props.C04
import Pycoin.Proofs.SecRt
import Pycoin.Proofs.SolveWrap
import Pycoin.Proofs.SolveFuel
import Pycoin.Proofs.SolveClassify
/-!
C05 — property theorems about the signer model (`Model/Sign.lean`).

* `C05_sig_canonical`, `C05_sig_passes_encoding_checks`, `C05_solver_emits_canonical`: what the signer emits is strict DER
  (BIP66 `IsValidSignatureEncoding` of the consensus specification), low-S (`IsLowDERSignature`'s lax parse + `s ≤ n/2`),
  and ends with the requested hash-type byte (with the fork-id bit on fork-id coins);
* `C05_lowS_preserves_verify` (full, from `C01_verify_neg_s`);
* `C05_p2wpkh_end_to_end`, `C05_p2sh_p2wpkh_end_to_end`, `C05_p2pkh_end_to_end`, `C05_p2pk_end_to_end`: for every secret, tx and
  input, the model's signature is accepted by `VerifyScript` with `CheckSig` = ECDSA-verify (C01) of the C04 digest;
* `C05_witness_digest_is_bip143`, `C05_legacy_digest_is_consensus`: the digest of those theorems is the consensus one (C04);
* `C05_multisig_valid`, `C05_multisig_p2sh_valid`, `C05_multisig_p2wsh_valid`, `C05_multisig_p2sh_p2wsh_valid`: full-script m-of-n for
  all 1 ≤ m ≤ n ≤ 20 (counts 17..20 as the one-byte pushes pycoin emits), the four wrappers; `C05_p2sh_multisig_size`;
* `C05_keychain_get_spec`, `C05_keychain_no_negative_cache`, `C05_keychain_miss_then_hit`, `C05_keychain_add_secret`;
* `C05_p2pkh_valid`, `C05_p2pk_valid`, `C05_p2wpkh_valid`, `C05_p2sh_p2wpkh_valid` (+ `_signed_valid` forms): `VerifyScript` of
  `Spec/Consensus.lean` accepts the solutions, for every flag set under which signature and key pass the encoding rules;
* `C05_ecdsa_chk_accepts`: the emitted signature satisfies `CheckSig` instantiated with ECDSA-verify of the digest the model
  computes (C04's `Model/Sighash.lean` in the driver);
* `C05_multisig_loop_accepts`: the CHECKMULTISIG matching loop accepts signatures laid out in key order (any `m ≤ n`);
* `C05_multisig_end_to_end`: for each of the four wrappers (`Wrap`) and every 1 ≤ m ≤ n ≤ 20, the model's solver output for a
  fresh input whose lookup holds at least m of the listed secrets is accepted by `VerifyScript` with `CheckSig` = ECDSA-verify
  (C01) of the C04 digest; `C05_multisig_wrong_key_rejected_partial`: a signature made with a wrong secret leaves it rejected;
* `C05_partial_passes_partial`, `C05_partial_order_independent_passes_partial`: any sequence of signing passes on the model ends with
  `min m (distinct listed keys supplied)` signatures and `m −` that many placeholders, is accepted exactly when m distinct
  listed keys were supplied, independently of the order of the passes (under two explicit unforgeability-style hypotheses);
  `C05_partial_order_independent_partial`, `C05_partial_placeholders`, `C05_placeholder_invalid_partial`: the combinatorial core;
* `C05_who_signed_exact_partial`: the model of `who_signed` reports exactly the keys that signed; `C05_next_pass_reads_solution`;
* `C05_sign_frame`, `C05_sign_frame_empty`: nothing but script and witness of the chosen, not yet valid inputs changes;
* the solver's symbolic machinery (`Model/Constraints.lean`, `Model/ConstraintSolver.lean`: `DynamicStack`, the traceback hook and
  its five symbolic opcodes, `determine_constraints`, pattern matching, the solver loop, `solve`):
  `C05_constraints_p2pkh/_p2pk/_multisig/_wrapped/_p2wpkh/_p2sh_p2wpkh`: the constraint list of every standard template (multisig by
  induction on the key list, every 1 ≤ m ≤ n ≤ 20, the four wrappers); `C05_solve_constraints_*`: the solver loop on them =
  `solveBase`; `C05_solve_machinery_multisig/_p2pkh/_p2pk/_p2wpkh/_p2sh_p2wpkh`: `Solve.solve` (the machinery) returns what the
  result-level model returns; `C05_solve_machinery_*_end_to_end`: the end-to-end theorems started from the machinery;
  `C05_solve_machinery_eq_result_model_multisig/_p2pk/_p2pkh/_p2wpkh/_p2sh_p2wpkh` (full) and `…_partial` (any base script under the
  four wrappers, given that `Sign.classify` recognises it): `Solve.solve` = `Sign.solve`;
  `C05_solve_machinery_frame`, `C05_solve_machinery_missing_key`: unsolvable ⇒ untouched; `C05_solve_loop_fuel`,
  `C05_constraints_fetch_fuel`: the two fuels suffice.
-/
namespace Pycoin.Sign
open Pycoin Pycoin.Spec.Consensus Pycoin.Curve

/-! ## canonical signatures -/

/-- strict DER, low S, last byte = the hash type -/
def Canonical (ht : Nat) (sig : Bytes) : Prop :=
  isValidSignatureEncoding sig = true ∧ checkLowS sig.dropLast = true ∧ sig.getLast? = some (UInt8.ofNat ht)

theorem lowS_range {n : Nat} {s : Int} (h1 : 1 ≤ s) (h2 : s < n) : 1 ≤ lowS n s ∧ lowS n s < n ∧ 2 * lowS n s ≤ n := by
  unfold lowS; split <;> omega

/-- **Canonical signatures.**  For `r, s` in `[1, n−1]` (what ECDSA signing returns, C01) and a one-byte hash type, the
blob the signer emits — `sigencode_der(r, low-S(s)) + bytes([ht])` — is accepted by the consensus rule
`IsValidSignatureEncoding`, passes `IsLowDERSignature`'s `CheckLowS`, ends with the hash-type byte, and Core's lax parser
reads `(r, low-S(s))` back from it. -/
theorem C05_sig_canonical (r s : Int) (ht : Nat) (hr1 : 1 ≤ r) (hr2 : r < secp256k1N) (hs1 : 1 ≤ s)
    (hs2 : s < secp256k1N) (hht : ht ≤ 255) :
    ∃ sig, binarySignature r (lowS secp256k1N s) ht = .ok sig ∧ Canonical ht sig ∧
      laxDerParse sig.dropLast = some (r.toNat, (lowS secp256k1N s).toNat) ∧ 2 * lowS secp256k1N s ≤ secp256k1N := by
  obtain ⟨l1, l2, l3⟩ := lowS_range hs1 hs2
  generalize lowS secp256k1N s = s' at *
  have hN := secp256k1N_lt
  obtain ⟨rn, rfl⟩ : ∃ rn : Nat, r = rn := ⟨r.toNat, by omega⟩
  obtain ⟨sn, rfl⟩ : ∃ sn : Nat, s' = sn := ⟨s'.toNat, by omega⟩
  have a1 : 1 ≤ rn := by omega
  have a2 : rn < secp256k1N := by omega
  have a3 : 1 ≤ sn := by omega
  have a4 : sn < secp256k1N := by omega
  refine ⟨sigLayout (derBody rn) (derBody sn) ++ [UInt8.ofNat ht], ?_, ⟨?_, ?_, ?_⟩, ?_, l3⟩
  · unfold binarySignature
    rw [sigencodeDer_eq a1 (by omega) a3 (by omega)]
    simp only []
    rw [if_neg (by omega)]
  · have := strict_of_layout (derBody rn) (derBody sn) (UInt8.ofNat ht) (goodBody_derBody a1 (by omega))
      (goodBody_derBody a3 (by omega))
    simpa [sigLayout] using this
  · rw [List.dropLast_concat]
    unfold checkLowS
    rw [laxDerParse_sigLayout a1 a2 a3 a4]
    simp only [decide_eq_true_eq]
    omega
  · simp
  · rw [List.dropLast_concat, laxDerParse_sigLayout a1 a2 a3 a4]
    simp

/-- the six standard hash types -/
def standardHashType (ht : Nat) : Prop := ht = 1 ∨ ht = 2 ∨ ht = 3 ∨ ht = 0x81 ∨ ht = 0x82 ∨ ht = 0x83

theorem isDefinedHashtype_of_last {sig : Bytes} {ht : Nat} (h : sig.getLast? = some (UInt8.ofNat ht))
    (hs : standardHashType ht) : isDefinedHashtypeSignature sig = true := by
  unfold isDefinedHashtypeSignature
  rw [h]
  rcases hs with h | h | h | h | h | h <;> subst h <;> decide

/-- a canonical signature with a standard hash type passes `CheckSignatureEncoding` under every flag set; without STRICTENC
(the fork-id coins' standard set: the fork-id bit is not a "defined" hash type) whatever the hash-type byte is -/
theorem C05_sig_passes_encoding_checks {sig : Bytes} {ht : Nat} (hc : Canonical ht sig) (flags : Flags)
    (hht : standardHashType ht ∨ flags.strictenc = false) : checkSignatureEncoding sig flags = none := by
  obtain ⟨h1, h2, h3⟩ := hc
  unfold checkSignatureEncoding
  have hne : sig.isEmpty = false := by
    cases sig with
    | nil => simp at h3
    | cons a l => rfl
  rcases hht with hs | hs
  · simp [hne, h1, h2, isDefinedHashtype_of_last h3 hs]
  · simp [hne, h1, h2, hs]

/-- on fork-id coins the hash type the solver works with has the fork-id bit, and keeps the ANYONECANPAY bit and the
base type of what was requested -/
theorem C05_forkid_forced (ht : Option Nat) :
    effectiveHashType true ht &&& 0x40 = 0x40 ∧
    effectiveHashType true ht &&& 0x80 = ht.getD 1 &&& 0x80 ∧
    effectiveHashType true ht &&& 0x1f = ht.getD 1 &&& 0x1f ∧
    effectiveHashType false ht = ht.getD 1 := by
  simp only [effectiveHashType, Gen.Sign.SIGHASH_FORKID, Gen.Sign.SIGHASH_ALL, if_true]
  have h64 : ∀ i, Nat.testBit 64 i = decide (i = 6) := by
    intro i
    have : (64 : Nat) = 2 ^ 6 := rfl
    rw [this, Nat.testBit_two_pow]; simp [eq_comm]
  have h128 : ∀ i, Nat.testBit 128 i = decide (i = 7) := by
    intro i
    have : (128 : Nat) = 2 ^ 7 := rfl
    rw [this, Nat.testBit_two_pow]; simp [eq_comm]
  have h31 : ∀ i, Nat.testBit 31 i = decide (i < 5) := by
    intro i
    have : (31 : Nat) = 2 ^ 5 - 1 := rfl
    rw [this, Nat.testBit_two_pow_sub_one]
  refine ⟨?_, ?_, ?_, by simp⟩
  · apply Nat.eq_of_testBit_eq
    intro i
    simp only [Nat.testBit_and, Nat.testBit_or, h64]
    by_cases hi : i = 6 <;> simp [hi]
  · apply Nat.eq_of_testBit_eq
    intro i
    simp only [Nat.testBit_and, Nat.testBit_or, h64, h128]
    by_cases hi : i = 7 <;> simp [hi]
  · apply Nat.eq_of_testBit_eq
    intro i
    simp only [Nat.testBit_and, Nat.testBit_or, h64, h31]
    by_cases hi : i < 5
    · have : i ≠ 6 := by omega
      simp [hi, this]
    · simp [hi]

/-! ### every signature the solver emits is canonical -/

theorem mem_insertSig (a b : Int × Bytes) (l : List (Int × Bytes)) : b ∈ insertSig a l ↔ b = a ∨ b ∈ l := by
  induction l with
  | nil => simp [insertSig]
  | cons c r ih =>
    simp only [insertSig]
    split
    · simp
    · simp [ih]; constructor
      · rintro (h | h | h) <;> simp [h]
      · rintro (h | h | h) <;> simp [h]

theorem mem_sortSigs (b : Int × Bytes) (l : List (Int × Bytes)) : b ∈ sortSigs l ↔ b ∈ l := by
  induction l with
  | nil => simp [sortSigs]
  | cons a r ih => simp [sortSigs, mem_insertSig, ih]

theorem findSignatures_subset (C : Crypto) (digest : Digest) (maxSigs : Nat) (secKeys : List Bytes) :
    ∀ (blobs : List Bytes) (seen : Nat) {sigs : List (Int × Bytes)} {solved : List Bytes},
      findSignatures C digest maxSigs secKeys blobs seen = .ok (sigs, solved) → ∀ p ∈ sigs, p.2 ∈ blobs := by
  intro blobs
  induction blobs with
  | nil => intro seen sigs solved h; simp [findSignatures] at h; simp [h.1]
  | cons b r ih =>
    intro seen sigs solved h p hp
    simp only [findSignatures] at h
    split at h
    · simp at h; rw [h.1] at hp; simp at hp
    · split at h
      · exact List.mem_cons_of_mem _ (ih _ h p hp)
      · split at h
        · cases h
        · split at h
          · cases h
          · rename_i sigs' solved' hrec
            split at h
            · simp at h; rw [← h.1] at hp
              exact List.mem_cons_of_mem _ (ih _ hrec p hp)
            · simp at h
              rw [← h.1] at hp
              rcases List.mem_cons.mp hp with hp | hp
              · rw [hp]; simp
              · exact List.mem_cons_of_mem _ (ih _ hrec p hp)

/-- hypothesis on the ECDSA parameter: signing returns `r, s` in `[1, n−1]` (C01's `sign_verifies`, range half) -/
def SignInRange (C : Crypto) : Prop :=
  ∀ d z r s, C.sign d z = .ok (r, s) → 1 ≤ r ∧ r < C.order ∧ 1 ≤ s ∧ s < C.order

theorem signLoop_mem (C : Crypto) (hN : C.order = secp256k1N) (hC : SignInRange C) (lookup : Lookup) (digest : Digest)
    (ht nSigs : Nat) (solved : List Bytes) :
    ∀ (todo : List (Nat × Bytes)) (ex res : List (Int × Bytes)),
      signLoop C lookup digest ht nSigs solved todo ex = .ok res → ∀ p ∈ res, p ∈ ex ∨ Canonical ht p.2 := by
  intro todo
  induction todo with
  | nil => intro ex res h p hp; simp [signLoop] at h; subst h; exact Or.inl hp
  | cons t r ih =>
    intro ex res h p hp
    obtain ⟨order, k⟩ := t
    simp only [signLoop] at h
    split at h
    · exact ih _ _ h p hp
    · split at h
      · simp at h; subst h; exact Or.inl hp
      · split at h
        · split at h
          · cases h
          · split at h
            · cases h
            · rename_i z _ r' s' hsign
              split at h
              · cases h
              · rename_i bin hbin
                obtain ⟨q1, q2, q3, q4⟩ := hC _ _ _ _ hsign
                rw [hN] at q2 q4 hbin
                have hht : ht ≤ 255 := by
                  unfold binarySignature at hbin
                  split at hbin
                  · cases hbin
                  · split at hbin
                    · cases hbin
                    · omega
                obtain ⟨sig, hsig, hcan, _⟩ := C05_sig_canonical r' s' ht q1 q2 q3 q4 hht
                rw [hsig] at hbin
                cases hbin
                rcases ih _ _ h p hp with hm | hm
                · rcases List.mem_append.mp hm with hm | hm
                  · exact Or.inl hm
                  · simp at hm; subst hm; exact Or.inr hcan
                · exact Or.inr hm
        · split at h
          · cases h
          · exact ih _ _ h p hp

/-- **Every emitted signature is canonical.**  Whatever `signing_solver` returns for a signature variable is an item that
was already in the input's script or witness (re-used because it verifies for a listed key), the placeholder, or a fresh
signature that is strict DER, low-S and carries the requested hash type. -/
theorem C05_solver_emits_canonical (C : Crypto) (hN : C.order = secp256k1N) (hC : SignInRange C) (lookup : Lookup)
    (digest : Digest) (secKeys : List Bytes) (nSigs : Nat) (existing : List Bytes) (ht : Nat) (placeholder : Option Bytes)
    (out : List (Option Bytes))
    (h : signingSolver C lookup digest secKeys nSigs existing ht placeholder = .ok out) :
    ∀ b, some b ∈ out → b ∈ existing ∨ placeholder = some b ∨ Canonical ht b := by
  intro b hb
  unfold signingSolver at h
  split at h
  · cases h
  · rename_i found solved hfind
    split at h
    · cases h
    · rename_i ex hloop
      simp only [Except.ok.injEq] at h
      subst h
      unfold assemble at hb
      have hb' := List.mem_of_mem_take hb
      rcases List.mem_append.mp hb' with hb' | hb'
      · simp only [List.mem_map] at hb'
        obtain ⟨p, hp, hpb⟩ := hb'
        rw [mem_sortSigs] at hp
        simp at hpb
        subst hpb
        have hpad : p ∈ ex ∨ placeholder = some p.2 := by
          cases placeholder with
          | none => exact Or.inl hp
          | some ph =>
            rcases List.mem_append.mp hp with hp | hp
            · exact Or.inl hp
            · right; rw [List.mem_replicate] at hp; rw [hp.2]
        rcases hpad with hpe | hpp
        · rcases signLoop_mem C hN hC lookup digest ht nSigs solved _ _ _ hloop p hpe with hm | hm
          · exact Or.inl (findSignatures_subset C digest nSigs secKeys existing 0 hfind p hm)
          · exact Or.inr (Or.inr hm)
        · exact Or.inr (Or.inl hpp)
      · rw [List.mem_replicate] at hb'
        exact absurd hb'.2 (by simp)

/-- low-S normalisation keeps the verdict of any verifier that cannot tell `s` from `n − s` (helper; the full theorem for
secp256k1, from `C01_verify_neg_s`, is `C05_lowS_preserves_verify` below) -/
theorem lowS_preserves_verify_of_neg (C : Crypto)
    (hneg : ∀ Q z r s, C.verify Q z r ((C.order : Int) - s) = C.verify Q z r s) (Q : Curve.Pt) (z r s : Int) :
    C.verify Q z r (lowS C.order s) = C.verify Q z r s := by
  unfold lowS; split
  · exact hneg Q z r s
  · rfl

/-! ## the consensus specification accepts the solutions -/

/-- **P2PKH.**  The consensus specification accepts `<sig> <key>` against `DUP HASH160 <hash160 key> EQUALVERIFY CHECKSIG`
under every flag set for which signature and key pass the encoding rules, when `checkSig` accepts the signature for the key
and the script code the specification computes. -/
theorem C05_p2pkh_valid (chk : PChk) (sig key h : Bytes) (flags : Flags) (tx : TxCtx)
    (hh : Hash.hash160 key = h) (hlen : h.length = 20)
    (hs2 : 2 ≤ sig.length) (hs : sig.length ≤ 75) (hk2 : 2 ≤ key.length) (hk : key.length ≤ 75)
    (hsig : checkSignatureEncoding sig flags = none) (hkey : checkPubKeyEncoding key flags .base = none)
    (hchk : chk sig key (scriptCodeFor ⟨p2pkhScript h, flags, .base, tx⟩ ⟨[], [], [], 0, 0⟩ [sig]) .base = true) :
    verifyScript chk (pushesOf [sig, key]) (p2pkhScript h) [] flags tx = none := by
  apply verifyScript_plain chk _ _ flags tx [key, sig] [1]
  · exact isPushOnly_pushes _ (by intro d hd; simp at hd; rcases hd with rfl | rfl <;> omega)
  · have := evalScript_two_pushes chk sig key flags tx hs2 hs hk2 hk
    simpa [pushesOf] using this
  · exact evalScript_p2pkh chk sig key h flags tx .base hh hlen hsig hkey hchk
  · simp [castToBool]
  · exact p2pkh_not_witness h hlen
  · exact p2pkh_not_p2sh h hlen

/-- **P2PK.** -/
theorem C05_p2pk_valid (chk : PChk) (sig key : Bytes) (flags : Flags) (tx : TxCtx)
    (hs2 : 2 ≤ sig.length) (hs : sig.length ≤ 75) (hk33 : 33 ≤ key.length) (hk : key.length ≤ 75)
    (hsig : checkSignatureEncoding sig flags = none) (hkey : checkPubKeyEncoding key flags .base = none)
    (hchk : chk sig key (scriptCodeFor ⟨p2pkScript key, flags, .base, tx⟩ ⟨[], [], [], 0, 0⟩ [sig]) .base = true) :
    verifyScript chk (pushesOf [sig]) (p2pkScript key) [] flags tx = none := by
  apply verifyScript_plain chk _ _ flags tx [sig] [1]
  · exact isPushOnly_pushes _ (by intro d hd; simp at hd; subst hd; omega)
  · exact evalScript_one_push chk sig flags tx hs2 hs
  · exact evalScript_p2pk chk sig key flags tx (by omega) hk hsig hkey hchk
  · simp [castToBool]
  · exact p2pk_not_witness key hk33 hk
  · exact p2pk_not_p2sh key hk33

/-- **P2WPKH.**  Empty scriptSig, witness `[sig, key]` against `OP_0 <hash160 key>`; needs the WITNESS flag (with it off the
output is anyone-can-spend and CLEANSTACK fails) and a program that is not all zero bytes (`CastToBool`). -/
theorem C05_p2wpkh_valid (chk : PChk) (sig key h : Bytes) (flags : Flags) (tx : TxCtx)
    (hw : flags.witness = true)
    (hh : Hash.hash160 key = h) (hlen : h.length = 20) (htrue : castToBool h = true)
    (hs : sig.length ≤ 520) (hk : key.length ≤ 520)
    (hsig : checkSignatureEncoding sig flags = none) (hkey : checkPubKeyEncoding key flags .witnessV0 = none)
    (hchk : chk sig key (scriptCodeFor ⟨p2pkhScript h, flags, .witnessV0, tx⟩ ⟨[], [], [], 0, 0⟩ [sig]) .witnessV0 = true) :
    verifyScript chk [] (witnessV0Script h) [sig, key] flags tx = none := by
  unfold verifyScript verifyScriptM
  have hpo : isPushOnly [] = true := by simp [isPushOnly, isPushOnlyAux]
  have hvw : verifyWitnessProgramM (m := Id) (fun a b c d => chk a b c d) [sig, key] 0 h flags tx = none :=
    verifyWitnessProgram_keyhash chk sig key h flags tx hh hlen hs hk hsig hkey hchk
  simp only [evalScriptM_id, hpo]
  simp only [Id.run, bind, pure]
  rw [evalScript_empty]
  simp only []
  rw [evalScript_witnessV0Script chk [] h flags tx (by omega) (by omega) (by simp)]
  simp only [hw, isWitnessProgram_v0 h (by omega) (by omega), htrue, witnessV0_not_p2sh h (Or.inl hlen)]
  simp [hvw]

/-- **P2SH-P2WPKH.**  scriptSig = the push of the redeem script `OP_0 <hash160 key>`, witness `[sig, key]`, against
`HASH160 <hash160 redeem> EQUAL`; needs the P2SH and WITNESS flags. -/
theorem C05_p2sh_p2wpkh_valid (chk : PChk) (sig key h hr : Bytes) (flags : Flags) (tx : TxCtx)
    (hp : flags.p2sh = true) (hw : flags.witness = true)
    (hh : Hash.hash160 key = h) (hlen : h.length = 20) (htrue : castToBool h = true)
    (hhr : Hash.hash160 (witnessV0Script h) = hr) (hrlen : hr.length = 20)
    (hs : sig.length ≤ 520) (hk : key.length ≤ 520)
    (hsig : checkSignatureEncoding sig flags = none) (hkey : checkPubKeyEncoding key flags .witnessV0 = none)
    (hchk : chk sig key (scriptCodeFor ⟨p2pkhScript h, flags, .witnessV0, tx⟩ ⟨[], [], [], 0, 0⟩ [sig]) .witnessV0 = true) :
    verifyScript chk (pushesOf [witnessV0Script h]) (p2shScript hr) [sig, key] flags tx = none := by
  have hrl : (witnessV0Script h).length = 22 := by simp [witnessV0Script, directPush, hlen]
  unfold verifyScript verifyScriptM
  have hpo : isPushOnly (pushesOf [witnessV0Script h]) = true :=
    isPushOnly_pushes _ (by intro d hd; simp at hd; subst hd; omega)
  have hpd : pushesOf [witnessV0Script h] = pushData (witnessV0Script h) := by
    simp [pushesOf, directPush, pushData, hrl, OP_PUSHDATA1]
  have hvw : verifyWitnessProgramM (m := Id) (fun a b c d => chk a b c d) [sig, key] 0 h flags tx = none :=
    verifyWitnessProgram_keyhash chk sig key h flags tx hh hlen hs hk hsig hkey hchk
  simp only [evalScriptM_id, hpo]
  simp only [Id.run, bind, pure]
  rw [evalScript_one_push chk (witnessV0Script h) flags tx (by omega) (by omega)]
  simp only []
  rw [evalScript_p2sh chk (witnessV0Script h) hr [] flags tx hhr hrlen (by simp)]
  simp only [hw, hp, p2sh_not_witness hr hrlen, p2sh_is_p2sh hr hrlen, hpo]
  simp only [castToBool]
  rw [evalScript_witnessV0Script chk [] h flags tx (by omega) (by omega) (by simp)]
  simp only [isWitnessProgram_v0 h (by omega) (by omega), htrue, hpd]
  simp [hvw]


/-- **P2PKH, from the model's own outputs.**  A canonical signature (what `signing_solver` emits, `C05_sig_canonical`) and the
key `public_pair_to_sec` writes for the lookup entry, pushed the way `compile_push_data_list` pushes them, are accepted by the
consensus specification under any flag set — in particular the full standard set when the hash type is one of the six
standard ones, and the standard set without STRICTENC on fork-id coins. -/
theorem C05_p2pkh_signed_valid (chk : PChk) (sig key h : Bytes) (ht : Nat) (x y : Int) (c : Bool) (flags : Flags) (tx : TxCtx)
    (hkeyOf : publicPairToSec x y c = .ok key) (hh : Hash.hash160 key = h) (hlen : h.length = 20)
    (hcan : Canonical ht sig) (hht : standardHashType ht ∨ flags.strictenc = false)
    (hchk : chk sig key (scriptCodeFor ⟨p2pkhScript h, flags, .base, tx⟩ ⟨[], [], [], 0, 0⟩ [sig]) .base = true) :
    ∃ scriptSig, pushAll [some sig, some key] = .ok scriptSig ∧
      verifyScript chk scriptSig (p2pkhScript h) [] flags tx = none := by
  obtain ⟨hk1, _, hk3⟩ := publicPairToSec_shape hkeyOf
  obtain ⟨hs9, hs73⟩ := valid_sig_length hcan.1
  refine ⟨pushesOf [sig, key], ?_, ?_⟩
  · have := pushAll_direct [sig, key] (by intro d hd; simp at hd; rcases hd with rfl | rfl <;> omega)
    simpa using this
  · apply C05_p2pkh_valid chk sig key h flags tx hh hlen (by omega) (by omega) (by omega) (by omega)
      (C05_sig_passes_encoding_checks hcan flags hht)
    · unfold checkPubKeyEncoding; simp [hk1]
    · exact hchk

/-- **P2WPKH, from the model's own outputs** (compressed key, as witness programs require). -/
theorem C05_p2wpkh_signed_valid (chk : PChk) (sig key h : Bytes) (ht : Nat) (x y : Int) (flags : Flags) (tx : TxCtx)
    (hw : flags.witness = true)
    (hkeyOf : publicPairToSec x y true = .ok key) (hh : Hash.hash160 key = h) (hlen : h.length = 20)
    (htrue : castToBool h = true)
    (hcan : Canonical ht sig) (hht : standardHashType ht ∨ flags.strictenc = false)
    (hchk : chk sig key (scriptCodeFor ⟨p2pkhScript h, flags, .witnessV0, tx⟩ ⟨[], [], [], 0, 0⟩ [sig]) .witnessV0 = true) :
    verifyScript chk [] (witnessV0Script h) [sig, key] flags tx = none := by
  obtain ⟨hk1, hk2, hk3⟩ := publicPairToSec_shape hkeyOf
  obtain ⟨hs9, hs73⟩ := valid_sig_length hcan.1
  apply C05_p2wpkh_valid chk sig key h flags tx hw hh hlen htrue (by omega) (by omega)
    (C05_sig_passes_encoding_checks hcan flags hht)
  · unfold checkPubKeyEncoding; simp [hk1, hk2 rfl]
  · exact hchk

/-- the full standard policy flag set -/
def standardFlags : Flags := Flags.ofBits 0xFFFF

example : standardFlags.strictenc = true ∧ standardFlags.lowS = true ∧ standardFlags.cleanstack = true ∧
    standardFlags.witness = true ∧ standardFlags.p2sh = true ∧ standardFlags.nullfail = true := by decide

/-- **m-of-n multisig, the matching loop.**  The signature/key matching loop of `OP_CHECKMULTISIG` in the consensus specification
accepts, for every `m ≤ n` (no bound on `n` is needed here), signatures that pass the encoding rules and verify for a
subsequence of the keys — which is how the solver lays them out: `sig_list` is filled in increasing index of `sec_list`, the
keys top of stack first (`solveBase`, `sortSigs`).  Induction over the keys.
The full scripts around the loop are `C05_multisig_valid` (bare), `C05_multisig_p2sh_valid`, `C05_multisig_p2wsh_valid` and
`C05_multisig_p2sh_p2wsh_valid` below. -/
theorem C05_multisig_loop_accepts (chk : PChk) (flags : Flags) (sv : SigVersion) (code : Bytes) (keys sigs : List Bytes)
    (hemb : Embeds chk code sv sigs keys)
    (hs : ∀ s ∈ sigs, checkSignatureEncoding s flags = none) (hk : ∀ k ∈ keys, checkPubKeyEncoding k flags sv = none) :
    multisigLoop (m := Id) (liftChk chk) flags sv code sigs keys = .ok true :=
  multisigLoop_accepts chk flags sv code keys sigs hemb hs hk

/-- the hypotheses are satisfiable: a 2-of-3 layout where the signatures verify for keys 1 and 3 (top first) -/
example (chk : PChk) (code s1 s3 k1 k2 k3 : Bytes) (h1 : chk s1 k1 code .base = true) (h3 : chk s3 k3 code .base = true) :
    Embeds chk code .base [s1, s3] [k1, k2, k3] :=
  .take h1 (.skip (.take h3 (.nil _)))

/-! ## `checkSig` instantiated: ECDSA-verify of the real digest -/

/-- `CheckSig` as consensus defines it around the two parameters owned by C01 and C04: split off the hash-type byte, parse
the rest laxly, decode the key, take the signature hash of the script code for that hash type (`dig`, in the driver C04's
`Model/Sighash.lean`), ECDSA-verify -/
def ecdsaChk (C : Crypto) (dig : SigVersion → Bytes → Digest) : PChk := fun sig key code sv =>
  match sig.getLast?, laxDerParse sig.dropLast, C.secToPair key with
  | some htb, some (r, s), some Q =>
    match dig sv code htb.toNat with
    | some z => (match C.verify Q z (r : Int) (s : Int) with | .ok b => b | .error _ => false)
    | none => false
  | _, _, _ => false

/-- **The signer's signature satisfies the real `CheckSig`.**  If signing digest `z = dig sv code ht` with the secret gives
`(r, s)` in range, and ECDSA-verify accepts `(r, low-S(s))` for the listed key (C01: `sign_verifies` and
`C05_lowS_preserves_verify`), then `ecdsaChk` accepts the emitted blob for that key and script code — the hypothesis
`hchk` of the `_valid` theorems, now over the digest the model computes itself. -/
theorem C05_ecdsa_chk_accepts (C : Crypto) (hN : C.order = secp256k1N) (dig : SigVersion → Bytes → Digest)
    (sv : SigVersion) (code key sig : Bytes) (Q : Curve.Pt) (z r s : Int) (ht : Nat) (hht : ht ≤ 255)
    (hr1 : 1 ≤ r) (hr2 : r < secp256k1N) (hs1 : 1 ≤ s) (hs2 : s < secp256k1N)
    (hz : dig sv code ht = some z) (hQ : C.secToPair key = some Q)
    (hv : C.verify Q z r (lowS C.order s) = .ok true)
    (hsig : binarySignature r (lowS C.order s) ht = .ok sig) :
    ecdsaChk C dig sig key code sv = true := by
  rw [hN] at hv hsig
  obtain ⟨sig', hsig', hcan, hlax, _⟩ := C05_sig_canonical r s ht hr1 hr2 hs1 hs2 hht
  rw [hsig] at hsig'
  cases hsig'
  obtain ⟨l1, l2, _⟩ := lowS_range hs1 hs2
  unfold ecdsaChk
  have hto : (UInt8.ofNat ht).toNat = ht := by simp [UInt8.toNat_ofNat']; omega
  rw [hcan.2.2, hlax, hQ]
  simp only [hto, hz]
  have e1 : ((r.toNat : Nat) : Int) = r := by omega
  have e2 : (((lowS secp256k1N s).toNat : Nat) : Int) = lowS secp256k1N s := by omega
  rw [e1, e2, hv]

/-- the script code `CheckSig` sees in a witness-v0 script is the script itself -/
theorem scriptCodeFor_witness' (script : Bytes) (flags : Flags) (tx : TxCtx) (sigs : List Bytes) :
    scriptCodeFor ⟨script, flags, .witnessV0, tx⟩ ⟨[], [], [], 0, 0⟩ sigs = script := by
  simp [scriptCodeFor]

/-! ## m-of-n multisig, every `1 ≤ m ≤ n ≤ 20`, the four wrappers -/

/-- **Bare m-of-n multisig, full script, every `1 ≤ m ≤ n ≤ 20`.**  The consensus specification accepts `OP_0 <sig>…` — the dummy
first (NULLDUMMY), signatures in key order — against `m <key>… n CHECKMULTISIG` under every flag set for which signatures and
keys pass the encoding rules, when `CheckSig` accepts the signatures for a subsequence of the keys.  The counts are written as
pycoin's script compiler writes them (`multisigScriptN`): `OP_1 … OP_16`, and for 17..20 the one-byte pushes `01 11 … 01 14`,
which is also the only encoding MINIMALDATA admits (`checkMinimalPush_count`, `checkMinimalPush_count_small`). -/
theorem C05_multisig_valid (chk : PChk) (m : Nat) (keys sigsTop : List Bytes) (flags : Flags) (tx : TxCtx)
    (hm : sigsTop.length = m) (hm1 : 1 ≤ m) (hmn : m ≤ keys.length) (hn : keys.length ≤ 20)
    (hkeys : ∀ k ∈ keys, 2 ≤ k.length ∧ k.length ≤ 75) (hsigs : ∀ s ∈ sigsTop, 2 ≤ s.length ∧ s.length ≤ 75)
    (hse : ∀ s ∈ sigsTop, checkSignatureEncoding s flags = none)
    (hke : ∀ k ∈ keys, checkPubKeyEncoding k flags .base = none)
    (hemb : Embeds chk (scriptCodeFor ⟨multisigScriptN m keys, flags, .base, tx⟩ ⟨[], [], [], 0, 0⟩ sigsTop) .base
      sigsTop keys.reverse) :
    verifyScript chk (pushesOf ([] :: sigsTop.reverse)) (multisigScriptN m keys) [] flags tx = none := by
  have hitems : ∀ d ∈ ([] : Bytes) :: sigsTop.reverse, d.length = 0 ∨ (2 ≤ d.length ∧ d.length ≤ 75) := by
    intro d hd
    rcases List.mem_cons.mp hd with h | h
    · left; rw [h]; rfl
    · right; exact hsigs d (List.mem_reverse.mp h)
  rw [verifyScript_bare_eq chk _ _ flags tx (sigsTop ++ [[]])
    (isPushOnly_pushes _ (fun d hd => by rcases hitems d hd with h | h <;> omega))
    (by have := evalScript_pushes chk ([] :: sigsTop.reverse) flags tx hitems (by simp; omega); simpa using this)
    (multisigN_not_witness m keys (by omega) hkeys) (multisigN_not_p2sh m keys)]
  rw [evalScript_multisigN chk m keys sigsTop flags tx .base hm hm1 hmn hn hkeys
    (multisigLoop_accepts chk flags .base _ keys.reverse sigsTop hemb hse (fun k hk => hke k (List.mem_reverse.mp hk)))]
  exact legacyVerdict_true flags

/-- the `OP_n` form for `n ≤ 16` (the statement this file carried before the counts 17..20 were covered) -/
theorem C05_multisig_valid_opn (chk : PChk) (m : Nat) (keys sigsTop : List Bytes) (flags : Flags) (tx : TxCtx)
    (hm : sigsTop.length = m) (hm1 : 1 ≤ m) (hmn : m ≤ keys.length) (hn : keys.length ≤ 16)
    (hkeys : ∀ k ∈ keys, 2 ≤ k.length ∧ k.length ≤ 75) (hsigs : ∀ s ∈ sigsTop, 2 ≤ s.length ∧ s.length ≤ 75)
    (hse : ∀ s ∈ sigsTop, checkSignatureEncoding s flags = none)
    (hke : ∀ k ∈ keys, checkPubKeyEncoding k flags .base = none)
    (hemb : Embeds chk (scriptCodeFor ⟨multisigScript m keys, flags, .base, tx⟩ ⟨[], [], [], 0, 0⟩ sigsTop) .base
      sigsTop keys.reverse) :
    verifyScript chk (pushesOf ([] :: sigsTop.reverse)) (multisigScript m keys) [] flags tx = none := by
  rw [← multisigScriptN_eq m keys (by omega) hn] at hemb ⊢
  exact C05_multisig_valid chk m keys sigsTop flags tx hm hm1 hmn (by omega) hkeys hsigs hse hke hemb

/-- **P2WSH m-of-n multisig, every `1 ≤ m ≤ n ≤ 20`**: empty scriptSig, witness `[ "" , sig…, witnessScript ]` against
`OP_0 <sha256 witnessScript>`; needs WITNESS and a program that is not all zero bytes.  (The witness script is not a stack
item: no 520-byte limit applies to it, and 20 keys stay far below the 10,000-byte script limit.) -/
theorem C05_multisig_p2wsh_valid (chk : PChk) (m : Nat) (keys sigsTop : List Bytes) (prog : Bytes) (flags : Flags) (tx : TxCtx)
    (hw : flags.witness = true)
    (hprog : Hash.sha256 (multisigScriptN m keys) = prog) (hplen : prog.length = 32) (htrue : castToBool prog = true)
    (hm : sigsTop.length = m) (hm1 : 1 ≤ m) (hmn : m ≤ keys.length) (hn : keys.length ≤ 20)
    (hkeys : ∀ k ∈ keys, 2 ≤ k.length ∧ k.length ≤ 75) (hsigs : ∀ s ∈ sigsTop, s.length ≤ 520)
    (hse : ∀ s ∈ sigsTop, checkSignatureEncoding s flags = none)
    (hke : ∀ k ∈ keys, checkPubKeyEncoding k flags .witnessV0 = none)
    (hemb : Embeds chk (multisigScriptN m keys) .witnessV0 sigsTop keys.reverse) :
    verifyScript chk [] (witnessV0Script prog) (([] : Bytes) :: sigsTop.reverse ++ [multisigScriptN m keys]) flags tx = none := by
  have hitems : ∀ d ∈ ([] : Bytes) :: sigsTop.reverse, d.length ≤ 520 := by
    intro d hd
    rcases List.mem_cons.mp hd with h | h
    · rw [h]; simp
    · exact hsigs d (List.mem_reverse.mp h)
  rw [verifyScript_p2wsh_eq chk _ _ prog flags tx hw hprog hplen htrue hitems]
  have hrev : (([] : Bytes) :: sigsTop.reverse).reverse = sigsTop ++ [[]] := by simp
  rw [hrev, evalScript_multisigN chk m keys sigsTop flags tx .witnessV0 hm hm1 hmn hn hkeys
    (by rw [scriptCodeFor_witness']; exact multisigLoop_accepts chk flags .witnessV0 _ keys.reverse sigsTop hemb hse
          (fun k hk => hke k (List.mem_reverse.mp hk)))]
  exact witnessVerdict_true

/-- the `OP_n` form for `n ≤ 16` -/
theorem C05_multisig_p2wsh_valid_opn (chk : PChk) (m : Nat) (keys sigsTop : List Bytes) (prog : Bytes) (flags : Flags) (tx : TxCtx)
    (hw : flags.witness = true)
    (hprog : Hash.sha256 (multisigScript m keys) = prog) (hplen : prog.length = 32) (htrue : castToBool prog = true)
    (hm : sigsTop.length = m) (hm1 : 1 ≤ m) (hmn : m ≤ keys.length) (hn : keys.length ≤ 16)
    (hkeys : ∀ k ∈ keys, 2 ≤ k.length ∧ k.length ≤ 75) (hsigs : ∀ s ∈ sigsTop, s.length ≤ 520)
    (hse : ∀ s ∈ sigsTop, checkSignatureEncoding s flags = none)
    (hke : ∀ k ∈ keys, checkPubKeyEncoding k flags .witnessV0 = none)
    (hemb : Embeds chk (multisigScript m keys) .witnessV0 sigsTop keys.reverse) :
    verifyScript chk [] (witnessV0Script prog) (([] : Bytes) :: sigsTop.reverse ++ [multisigScript m keys]) flags tx = none := by
  rw [← multisigScriptN_eq m keys (by omega) hn] at hemb hprog ⊢
  exact C05_multisig_p2wsh_valid chk m keys sigsTop prog flags tx hw hprog hplen htrue hm hm1 hmn (by omega) hkeys hsigs hse hke hemb

/-- **P2SH m-of-n multisig.**  scriptSig = `OP_0 <sig>… <redeemScript>`, the redeem script pushed as `CScript << vch` pushes it
(direct push up to 75 bytes, `PUSHDATA1` up to 255, `PUSHDATA2` beyond: `getScriptOp_pushData`), against
`HASH160 <hash160 redeemScript> EQUAL`; needs the P2SH flag.  The redeem script is a stack item: at most 520 bytes (`hsize`), which
is what bounds `n` under P2SH — `C05_p2sh_multisig_size`: 15 compressed or 7 uncompressed keys. -/
theorem C05_multisig_p2sh_valid (chk : PChk) (m : Nat) (keys sigsTop : List Bytes) (hr : Bytes) (flags : Flags) (tx : TxCtx)
    (hp : flags.p2sh = true)
    (hhr : Hash.hash160 (multisigScriptN m keys) = hr) (hrlen : hr.length = 20)
    (hsize : (multisigScriptN m keys).length ≤ 520)
    (hm : sigsTop.length = m) (hm1 : 1 ≤ m) (hmn : m ≤ keys.length) (hn : keys.length ≤ 20)
    (hkeys : ∀ k ∈ keys, 2 ≤ k.length ∧ k.length ≤ 75) (hsigs : ∀ s ∈ sigsTop, 2 ≤ s.length ∧ s.length ≤ 75)
    (hse : ∀ s ∈ sigsTop, checkSignatureEncoding s flags = none)
    (hke : ∀ k ∈ keys, checkPubKeyEncoding k flags .base = none)
    (hemb : Embeds chk (scriptCodeFor ⟨multisigScriptN m keys, flags, .base, tx⟩ ⟨[], [], [], 0, 0⟩ sigsTop) .base
      sigsTop keys.reverse) :
    verifyScript chk (pushesOf ([] :: sigsTop.reverse) ++ pushData (multisigScriptN m keys)) (p2shScript hr) [] flags tx
      = none := by
  have hitems : ∀ d ∈ ([] : Bytes) :: sigsTop.reverse, d.length = 0 ∨ (2 ≤ d.length ∧ d.length ≤ 75) := by
    intro d hd
    rcases List.mem_cons.mp hd with h | h
    · left; rw [h]; rfl
    · right; exact hsigs d (List.mem_reverse.mp h)
  have h2 : 2 ≤ (multisigScriptN m keys).length := by
    have := countPush_length m
    simp [multisigScriptN]; split at this <;> omega
  have hev := evalScript_pushes_pushData chk ([] :: sigsTop.reverse) (multisigScriptN m keys) flags tx hitems
    (by simp; omega) h2 hsize
  have hrev : (([] : Bytes) :: sigsTop.reverse).reverse = sigsTop ++ [[]] := by simp
  rw [hrev] at hev
  rw [verifyScript_p2sh_eq chk _ (multisigScriptN m keys) hr (sigsTop ++ [[]]) flags tx hp
    (isPushOnly_pushes_pushData _ _ (fun d hd => by rcases hitems d hd with h | h <;> omega) hsize)
    hev hhr hrlen (by simp; omega) (multisigN_not_witness m keys (by omega) hkeys)]
  rw [evalScript_multisigN chk m keys sigsTop flags tx .base hm hm1 hmn hn hkeys
    (multisigLoop_accepts chk flags .base _ keys.reverse sigsTop hemb hse (fun k hk => hke k (List.mem_reverse.mp hk)))]
  exact legacyVerdict_true flags

/-- **P2SH-P2WSH m-of-n multisig, every `1 ≤ m ≤ n ≤ 20`**: scriptSig = the push of `OP_0 <sha256 witnessScript>` (34 bytes: a
direct push), witness `[ "", sig…, witnessScript ]`, against `HASH160 <hash160 redeem> EQUAL`; needs P2SH and WITNESS. -/
theorem C05_multisig_p2sh_p2wsh_valid (chk : PChk) (m : Nat) (keys sigsTop : List Bytes) (prog hr : Bytes) (flags : Flags)
    (tx : TxCtx) (hp : flags.p2sh = true) (hw : flags.witness = true)
    (hprog : Hash.sha256 (multisigScriptN m keys) = prog) (hplen : prog.length = 32) (htrue : castToBool prog = true)
    (hhr : Hash.hash160 (witnessV0Script prog) = hr) (hrlen : hr.length = 20)
    (hm : sigsTop.length = m) (hm1 : 1 ≤ m) (hmn : m ≤ keys.length) (hn : keys.length ≤ 20)
    (hkeys : ∀ k ∈ keys, 2 ≤ k.length ∧ k.length ≤ 75) (hsigs : ∀ s ∈ sigsTop, s.length ≤ 520)
    (hse : ∀ s ∈ sigsTop, checkSignatureEncoding s flags = none)
    (hke : ∀ k ∈ keys, checkPubKeyEncoding k flags .witnessV0 = none)
    (hemb : Embeds chk (multisigScriptN m keys) .witnessV0 sigsTop keys.reverse) :
    verifyScript chk (pushesOf [witnessV0Script prog]) (p2shScript hr)
      (([] : Bytes) :: sigsTop.reverse ++ [multisigScriptN m keys]) flags tx = none := by
  have hitems : ∀ d ∈ ([] : Bytes) :: sigsTop.reverse, d.length ≤ 520 := by
    intro d hd
    rcases List.mem_cons.mp hd with h | h
    · rw [h]; simp
    · exact hsigs d (List.mem_reverse.mp h)
  rw [verifyScript_p2sh_p2wsh_eq chk _ _ prog hr flags tx hp hw hprog hplen htrue hhr hrlen hitems]
  have hrev : (([] : Bytes) :: sigsTop.reverse).reverse = sigsTop ++ [[]] := by simp
  rw [hrev, evalScript_multisigN chk m keys sigsTop flags tx .witnessV0 hm hm1 hmn hn hkeys
    (by rw [scriptCodeFor_witness']; exact multisigLoop_accepts chk flags .witnessV0 _ keys.reverse sigsTop hemb hse
          (fun k hk => hke k (List.mem_reverse.mp hk)))]
  exact witnessVerdict_true

/-- **Which (m, n) fit under P2SH.**  The redeem script `m <key>… n CHECKMULTISIG` has `3 + Σ (1 + |key|)` bytes for `n ≤ 16`
(one more per count above 16).  With the 520-byte limit on stack items: all keys compressed (33 bytes) ⇒ exactly `n ≤ 15`; all
keys uncompressed (65 bytes) ⇒ exactly `n ≤ 7`; any `1 ≤ m ≤ n`.  So under P2SH the counts are always `OP_n`; the push counts
17..20 occur only bare and under P2WSH / P2SH-P2WSH, where the script is not a stack item. -/
theorem C05_p2sh_multisig_size (m : Nat) (keys : List Bytes) (hmn : m ≤ keys.length) (hn : keys.length ≤ 20) :
    ((∀ k ∈ keys, k.length = 33) → ((multisigScriptN m keys).length ≤ 520 ↔ keys.length ≤ 15)) ∧
    ((∀ k ∈ keys, k.length = 65) → ((multisigScriptN m keys).length ≤ 520 ↔ keys.length ≤ 7)) := by
  have hl : ∀ c, (∀ k ∈ keys, k.length = c) → (pushesOf keys).length = keys.length * (c + 1) := by
    intro c hc
    clear hmn hn
    induction keys with
    | nil => simp [pushesOf]
    | cons d r ih =>
      have e : pushesOf (d :: r) = directPush d ++ pushesOf r := by simp [pushesOf]
      rw [e, List.length_append, ih (fun k hk => hc k (List.mem_cons_of_mem _ hk))]
      simp [directPush, hc d (by simp), Nat.succ_mul]; omega
  have c1 := countPush_length m
  have c2 := countPush_length keys.length
  constructor
  · intro h
    have := hl 33 h
    simp only [multisigScriptN, List.length_append, List.length_cons, List.length_nil]
    split at c1 <;> split at c2 <;> omega
  · intro h
    have := hl 65 h
    simp only [multisigScriptN, List.length_append, List.length_cons, List.length_nil]
    split at c1 <;> split at c2 <;> omega

/-! ## partial signing -/

/-- **Order independence of partial signing (combinatorial half).**  The list handed to the signature variables depends only
on the *multiset* of `(key index, signature)` pairs collected — re-found in the input plus freshly made — not on the order in
which they were collected, i.e. not on the order of earlier signing passes.
Extra hypothesis relative to the property (hence `_partial`): that two orders of passes lead to the same multiset.  That
hypothesis is discharged from the model in `C05_partial_order_independent_passes_partial` below (sequences of passes, each
re-finding the signatures of the earlier ones by verification), leaving only the two unforgeability-style hypotheses; the
harness checks the full statement on the implementation for every order of passes (n ≤ 4) and sampled beyond. -/
theorem C05_partial_order_independent_partial (nSigs : Nat) (placeholder : Option Bytes) (ex₁ ex₂ : List (Int × Bytes))
    (h : ex₁.Perm ex₂) : assemble nSigs placeholder ex₁ = assemble nSigs placeholder ex₂ := by
  unfold assemble
  have hl : ex₁.length = ex₂.length := h.length_eq
  cases placeholder with
  | none => simp only [sortSigs_eq_of_perm h]
  | some ph =>
    simp only [hl]
    rw [sortSigs_eq_of_perm (List.Perm.append_right _ h)]

/-- **Complete exactly when `m` signatures are there.**  With `j ≤ m` collected signatures (key indices ≥ 0) the result is
`m − j` placeholders followed by the `j` signatures in key-index order: no placeholder iff `j = m`. -/
theorem C05_partial_placeholders (nSigs : Nat) (ph : Bytes) (ex : List (Int × Bytes)) (hidx : ∀ p ∈ ex, 0 ≤ p.1)
    (hle : ex.length ≤ nSigs) :
    assemble nSigs (some ph) ex =
      List.replicate (nSigs - ex.length) (some ph) ++ (sortSigs ex).map (fun t => some t.2) :=
  assemble_placeholders nSigs ph ex hidx hle


/-! ## the placeholder -/

/-- the placeholder is a well-formed signature blob: `r = n − 1`, `s = (n − 1)/2`, hash type 1 -/
theorem placeholder_parses :
    parseSignatureBlob Gen.Sign.defaultPlaceholder = some ((secp256k1N - 1, (secp256k1N - 1) / 2), 1) := by
  decide +kernel

/-- **The placeholder is never taken for a signature.**  That `(n − 1, (n − 1)/2)` verifies for no key and digest is an
instance of ECDSA unforgeability — the explicit hypothesis `hunf` (checked on the implementation for every generated case).
Under it `_find_signatures` finds nothing in a placeholder: it is not counted as a signature of any listed key, so an input
that still holds a placeholder has fewer than `m` signatures and is left failing validation. -/
theorem C05_placeholder_invalid_partial (C : Crypto) (digest : Digest)
    (hunf : ∀ Q z, C.verify Q z ((secp256k1N - 1 : Nat) : Int) (((secp256k1N - 1) / 2 : Nat) : Int) = .ok false)
    (maxSigs : Nat) (secKeys : List Bytes) :
    findSignatures C digest maxSigs secKeys [Gen.Sign.defaultPlaceholder] 0 = .ok ([], []) := by
  have hk : ∀ (keys : List Bytes) (i : Nat),
      findKey C digest ((secp256k1N - 1 : Nat) : Int) (((secp256k1N - 1) / 2 : Nat) : Int) 1 keys i = .ok none := by
    intro keys
    induction keys with
    | nil => intro i; rfl
    | cons k r ih =>
      intro i
      simp only [findKey]
      split
      · rfl
      · split
        · rfl
        · rw [hunf]; exact ih (i + 1)
  simp only [findSignatures]
  split
  · rfl
  · rw [placeholder_parses]
    simp only [hk, findSignatures]

/-! ## end to end: real ECDSA over the real digest (C01, C04, C10 instantiated) -/

abbrev k1 : CurveParams := Gen.Curves.secp256k1

theorem k1_order : secp256k1Crypto.order = secp256k1N := by decide +kernel
theorem k1_n : k1.n = secp256k1N := by decide +kernel

/-- an honest public key `d•G` is a reduced curve point of the `n`-torsion -/
theorem honest_key {d : Int} {Q : Pt} (hpub : mulG k1 0 d = .ok Q) :
    OnCurve k1 Q ∧ Reduced k1 Q ∧ (k1.n : Int) • toPoint k1 Q = 0 := by
  obtain ⟨Q', h1, h2, h3, _, h5⟩ := pubkey_spec Gen.Curves.C01_ecdsaOk_secp256k1 0 d
  rw [hpub] at h1; cases h1
  exact ⟨h2, h3, h5⟩

/-- **Low-S normalisation keeps the signature valid** (full, from `C01_verify_neg_s`): on secp256k1, for a reduced curve
point `Q` of the `n`-torsion (every honest key) and a non-zero digest. -/
theorem C05_lowS_preserves_verify (Q : Pt) (hQ : OnCurve k1 Q) (rQ : Reduced k1 Q)
    (hQn : (k1.n : Int) • toPoint k1 Q = 0) (z r s : Int) (hz : z ≠ 0) :
    secp256k1Crypto.verify Q z r (lowS secp256k1Crypto.order s) = secp256k1Crypto.verify Q z r s := by
  unfold lowS
  split
  · exact C01_verify_neg_s Gen.Curves.C01_ecdsaOk_secp256k1 0 Q hQ rQ hQn z r s hz
  · rfl

/-- what C01 gives for a signature made by the model's signer: ranges, `z ≠ 0`, and ECDSA-verify accepts `(r, low-S(s))`
for the public key `d•G` -/
theorem sign_facts {d z r s : Int} {Q : Pt} (hsign : secp256k1Crypto.sign d z = .ok (r, s)) (hpub : mulG k1 0 d = .ok Q) :
    1 ≤ r ∧ r < secp256k1N ∧ 1 ≤ s ∧ s < secp256k1N ∧
    secp256k1Crypto.verify Q z r (lowS secp256k1Crypto.order s) = .ok true := by
  have hs : ∃ v, RFC6979.signWithRecid k1 0 d z = .ok (r, s, v) := by
    have h : RFC6979.sign k1 0 d z = .ok (r, s) := hsign
    unfold RFC6979.sign Curve.sign at h
    unfold RFC6979.signWithRecid
    split at h
    · cases h
    · rename_i r' s' v' heq
      cases h
      exact ⟨v', heq⟩
  obtain ⟨v, hv⟩ := hs
  obtain ⟨hz, a1, a2, a3, a4, Q', hQ', hver⟩ :=
    C01_sign_verifies_rfc6979 Gen.Curves.C01_ecdsaOk_secp256k1 0 0 0 d z r s v hv
  rw [hpub] at hQ'; cases hQ'
  obtain ⟨o1, o2, o3⟩ := honest_key hpub
  have hn : (Gen.Curves.secp256k1.n : Int) = (secp256k1N : Int) := by rw [show Gen.Curves.secp256k1.n = secp256k1N from k1_n]
  refine ⟨a1, by omega, a3, by omega, ?_⟩
  rw [C05_lowS_preserves_verify Q o1 o2 o3 z r s hz]
  exact hver

/-- the SEC encoding of an honest key decodes back to it (C10's round trip) -/
theorem key_decodes {d x y : Int} {comp : Bool} {key : Bytes} (hpub : mulG k1 0 d = .ok (some (x, y)))
    (hkey : publicPairToSec x y comp = .ok key) : secp256k1Crypto.secToPair key = some (some (x, y)) := by
  obtain ⟨o1, o2, o3⟩ := honest_key hpub
  obtain ⟨x0, x1, y0, y1⟩ := o2
  have hon : containsXY k1 x y = true := o1
  have hkey' : Sec.publicPairToSec x y comp = .ok key := by
    unfold publicPairToSec at hkey
    cases h : Sec.publicPairToSec x y comp with
    | ok b => rw [h] at hkey; cases hkey; rfl
    | error e => rw [h] at hkey; cases hkey
  have hdec : Sec.secToPublicPair k1 key true = .ok (x, y) := by
    cases comp with
    | false =>
      obtain ⟨blob, e1, _, _, _, e5⟩ := Sec.secToPublicPair_uncompressed k1 Pycoin.C10.C10_field_secp256k1.1 x y x0 x1 y0 y1 true
      rw [hkey'] at e1; cases e1; exact e5
    | true =>
      have ypos : 0 < y := y_pos_of_torsion Gen.Curves.C01_ecdsaOk_secp256k1 hon y0 o3
      obtain ⟨blob, e1, _, _, _, e5⟩ :=
        Sec.secToPublicPair_compressed k1 Pycoin.C10.C10_field_secp256k1.1 Pycoin.C10.C10_field_secp256k1.2.1 x y x0 x1 ypos y1 hon true
      rw [hkey'] at e1; cases e1; exact e5
  show secToPublicPair k1 key = _
  unfold secToPublicPair
  rw [hdec]


/-- `CheckSig` of input `idx` of `tx`, fully instantiated: ECDSA-verify (the C01 model of `secp256k1_generator`) of the
digest C04's model computes (legacy / fork-id closure for the base sigversion, BIP143 closure for witness v0) -/
def realChk (coin : Coin) (tx : Tx) (us : List (Option TxOut)) (idx : Nat) : PChk :=
  ecdsaChk secp256k1Crypto (fun sv code => modelSighash coin tx us idx (sv == .witnessV0) code)

/-- signing a fresh single-key input: `signing_solver` returns one canonical signature -/
theorem fresh_signature (lookup : Lookup) (digest : Digest) (key ph : Bytes) (ht : Nat) (e : Entry) (z r s : Int)
    (hl : lookup (Hash.hash160 key) = some e) (hz : digest ht = some z)
    (hsign : secp256k1Crypto.sign e.secret z = .ok (r, s)) (hht : ht ≤ 255)
    (hr1 : 1 ≤ r) (hr2 : r < secp256k1N) (hs1 : 1 ≤ s) (hs2 : s < secp256k1N) :
    ∃ sig, binarySignature r (lowS secp256k1Crypto.order s) ht = .ok sig ∧ Canonical ht sig ∧
      signingSolver secp256k1Crypto lookup digest [key] 1 [] ht (some ph) = .ok [some sig] := by
  obtain ⟨sig, hsig, hcan, _⟩ := C05_sig_canonical r s ht hr1 hr2 hs1 hs2 hht
  rw [← k1_order] at hsig
  refine ⟨sig, hsig, hcan, ?_⟩
  simp [signingSolver, findSignatures, enumFrom, signLoop, hl, hz, hsign, hsig, assemble, sortSigs, insertSig]


theorem ht_le_of_standard {ht : Nat} (h : standardHashType ht) : ht ≤ 255 := by
  rcases h with h | h | h | h | h | h <;> omega

/-- the script code `CheckSig` sees in a witness-v0 script is the script itself -/
theorem scriptCodeFor_witness (script : Bytes) (flags : Flags) (tx : TxCtx) (sigs : List Bytes) :
    scriptCodeFor ⟨script, flags, .witnessV0, tx⟩ ⟨[], [], [], 0, 0⟩ sigs = script := by
  simp [scriptCodeFor]

/-- common core: the solver's fresh signature for key `d•G` satisfies the real `CheckSig` on script code `code` -/
theorem fresh_checks (coin : Coin) (tx : Tx) (us : List (Option TxOut)) (idx : Nat) (lookup : Lookup) (ph : Bytes)
    (d x y z : Int) (comp : Bool) (key code : Bytes) (sv : SigVersion) (ht : Nat) (hht : ht ≤ 255)
    (hpub : mulG k1 0 d = .ok (some (x, y))) (hkey : publicPairToSec x y comp = .ok key)
    (hl : lookup (Hash.hash160 key) = some ⟨d, x, y, comp⟩)
    (hz : modelSighash coin tx us idx (sv == .witnessV0) code ht = some z)
    (hsign : ∃ r s, secp256k1Crypto.sign d z = .ok (r, s)) :
    ∃ sig, Canonical ht sig ∧
      signingSolver secp256k1Crypto lookup (modelSighash coin tx us idx (sv == .witnessV0) code) [key] 1 [] ht (some ph)
        = .ok [some sig] ∧
      realChk coin tx us idx sig key code sv = true := by
  obtain ⟨r, s, hsign⟩ := hsign
  obtain ⟨a1, a2, a3, a4, hver⟩ := sign_facts hsign hpub
  obtain ⟨sig, hsig, hcan, hsolve⟩ := fresh_signature lookup _ key ph ht ⟨d, x, y, comp⟩ z r s hl hz hsign hht a1 a2 a3 a4
  refine ⟨sig, hcan, hsolve, ?_⟩
  exact C05_ecdsa_chk_accepts secp256k1Crypto k1_order _ sv code key sig (some (x, y)) z r s ht hht a1 a2 a3 a4 hz
    (key_decodes hpub hkey) hver hsig

/-- **P2WPKH, end to end.**  For every secret `d` with public key `(x, y) = d•G` (as `Generator.__mul__` computes it), every
transaction and input index, every one-byte hash type: when the lookup holds the key, the digest function (C04's model)
yields `z` and RFC 6979 signing of `z` returns (the C01 side conditions: `z ≠ 0`, nonce loop within its fuel), the model's
`signing_solver` emits a signature `sig` such that the consensus specification accepts witness `[sig, key]` for
`OP_0 <hash160 key>` under every flag set with WITNESS in which the hash type is admissible — with `CheckSig` being
ECDSA-verify of that very digest.  (`castToBool h`: a program of zero bytes would read as false.) -/
theorem C05_p2wpkh_end_to_end (coin : Coin) (tx : Tx) (us : List (Option TxOut)) (idx : Nat) (lookup : Lookup) (ph : Bytes)
    (d x y z : Int) (key h : Bytes) (ht : Nat) (flags : Flags) (txc : TxCtx)
    (hpub : mulG k1 0 d = .ok (some (x, y))) (hkey : publicPairToSec x y true = .ok key)
    (hh : Hash.hash160 key = h) (hlen : h.length = 20) (htrue : castToBool h = true)
    (hl : lookup h = some ⟨d, x, y, true⟩)
    (hz : modelSighash coin tx us idx true (p2pkhScript h) ht = some z)
    (hsign : ∃ r s, secp256k1Crypto.sign d z = .ok (r, s))
    (hw : flags.witness = true) (hht : ht ≤ 255) (hstd : standardHashType ht ∨ flags.strictenc = false) :
    ∃ sig, solveBase secp256k1Crypto lookup (modelSighash coin tx us idx true (p2pkhScript h)) [] ht (some ph) (.p2pkh h)
        = .ok [some sig, some key] ∧
      verifyScript (realChk coin tx us idx) [] (witnessV0Script h) [sig, key] flags txc = none := by
  obtain ⟨sig, hcan, hsolve, hchk⟩ := fresh_checks coin tx us idx lookup ph d x y z true key (p2pkhScript h) .witnessV0 ht hht
    hpub hkey (by rw [hh]; exact hl) hz hsign
  refine ⟨sig, ?_, ?_⟩
  · simp only [solveBase, hl, hkey]
    have : ((SigVersion.witnessV0 == SigVersion.witnessV0) = true) := rfl
    rw [this] at hsolve
    rw [hsolve]; rfl
  · apply C05_p2wpkh_signed_valid (realChk coin tx us idx) sig key h ht x y flags txc hw hkey hh hlen htrue hcan hstd
    rw [scriptCodeFor_witness]
    exact hchk

/-- **P2SH-P2WPKH, end to end** (as above; scriptSig = the push of `OP_0 <hash160 key>`; needs P2SH and WITNESS). -/
theorem C05_p2sh_p2wpkh_end_to_end (coin : Coin) (tx : Tx) (us : List (Option TxOut)) (idx : Nat) (lookup : Lookup)
    (ph : Bytes) (d x y z : Int) (key h hr : Bytes) (ht : Nat) (flags : Flags) (txc : TxCtx)
    (hpub : mulG k1 0 d = .ok (some (x, y))) (hkey : publicPairToSec x y true = .ok key)
    (hh : Hash.hash160 key = h) (hlen : h.length = 20) (htrue : castToBool h = true)
    (hhr : Hash.hash160 (witnessV0Script h) = hr) (hrlen : hr.length = 20)
    (hl : lookup h = some ⟨d, x, y, true⟩)
    (hz : modelSighash coin tx us idx true (p2pkhScript h) ht = some z)
    (hsign : ∃ r s, secp256k1Crypto.sign d z = .ok (r, s))
    (hp : flags.p2sh = true) (hw : flags.witness = true) (hht : ht ≤ 255)
    (hstd : standardHashType ht ∨ flags.strictenc = false) :
    ∃ sig, solveBase secp256k1Crypto lookup (modelSighash coin tx us idx true (p2pkhScript h)) [] ht (some ph) (.p2pkh h)
        = .ok [some sig, some key] ∧
      verifyScript (realChk coin tx us idx) (pushesOf [witnessV0Script h]) (p2shScript hr) [sig, key] flags txc = none := by
  obtain ⟨sig, hcan, hsolve, hchk⟩ := fresh_checks coin tx us idx lookup ph d x y z true key (p2pkhScript h) .witnessV0 ht hht
    hpub hkey (by rw [hh]; exact hl) hz hsign
  obtain ⟨hk1, hk2, hk3⟩ := publicPairToSec_shape hkey
  obtain ⟨hs9, hs73⟩ := valid_sig_length hcan.1
  refine ⟨sig, ?_, ?_⟩
  · simp only [solveBase, hl, hkey]
    have : ((SigVersion.witnessV0 == SigVersion.witnessV0) = true) := rfl
    rw [this] at hsolve
    rw [hsolve]; rfl
  · apply C05_p2sh_p2wpkh_valid (realChk coin tx us idx) sig key h hr flags txc hp hw hh hlen htrue hhr hrlen
      (by omega) (by omega) (C05_sig_passes_encoding_checks hcan flags hstd)
    · unfold checkPubKeyEncoding; simp [hk1, hk2 rfl]
    · rw [scriptCodeFor_witness]; exact hchk

/-- **P2PKH, end to end** (legacy sigversion).  One more side condition than for the witness templates, `hfd`: Core removes
the pushed signature from the script code before hashing (`FindAndDelete`), the signer hashes the script as it stands; the two
agree when the push of the signature does not occur in the puzzle script — always, short of the 20-byte hash beginning with
the signature bytes. -/
theorem C05_p2pkh_end_to_end (coin : Coin) (tx : Tx) (us : List (Option TxOut)) (idx : Nat) (lookup : Lookup) (ph : Bytes)
    (d x y z : Int) (comp : Bool) (key h : Bytes) (ht : Nat) (flags : Flags) (txc : TxCtx)
    (hpub : mulG k1 0 d = .ok (some (x, y))) (hkey : publicPairToSec x y comp = .ok key)
    (hh : Hash.hash160 key = h) (hlen : h.length = 20)
    (hl : lookup h = some ⟨d, x, y, comp⟩)
    (hz : modelSighash coin tx us idx false (p2pkhScript h) ht = some z)
    (hsign : ∃ r s, secp256k1Crypto.sign d z = .ok (r, s))
    (hht : ht ≤ 255) (hstd : standardHashType ht ∨ flags.strictenc = false)
    (hfd : ∀ sig, Canonical ht sig →
      scriptCodeFor ⟨p2pkhScript h, flags, .base, txc⟩ ⟨[], [], [], 0, 0⟩ [sig] = p2pkhScript h) :
    ∃ sig scriptSig,
      solveBase secp256k1Crypto lookup (modelSighash coin tx us idx false (p2pkhScript h)) [] ht (some ph) (.p2pkh h)
        = .ok [some sig, some key] ∧
      pushAll [some sig, some key] = .ok scriptSig ∧
      verifyScript (realChk coin tx us idx) scriptSig (p2pkhScript h) [] flags txc = none := by
  obtain ⟨sig, hcan, hsolve, hchk⟩ := fresh_checks coin tx us idx lookup ph d x y z comp key (p2pkhScript h) .base ht hht
    hpub hkey (by rw [hh]; exact hl) hz hsign
  obtain ⟨sc, hsc, hv⟩ := C05_p2pkh_signed_valid (realChk coin tx us idx) sig key h ht x y comp flags txc hkey hh hlen hcan hstd
    (by rw [hfd sig hcan]; exact hchk)
  refine ⟨sig, sc, ?_, hsc, hv⟩
  simp only [solveBase, hl, hkey]
  have : ((SigVersion.base == SigVersion.witnessV0) = false) := rfl
  rw [this] at hsolve
  rw [hsolve]; rfl

/-- **P2PK, end to end** (legacy sigversion; `hfd` as for P2PKH). -/
theorem C05_p2pk_end_to_end (coin : Coin) (tx : Tx) (us : List (Option TxOut)) (idx : Nat) (lookup : Lookup) (ph : Bytes)
    (d x y z : Int) (comp : Bool) (key : Bytes) (ht : Nat) (flags : Flags) (txc : TxCtx)
    (hpub : mulG k1 0 d = .ok (some (x, y))) (hkey : publicPairToSec x y comp = .ok key)
    (hl : lookup (Hash.hash160 key) = some ⟨d, x, y, comp⟩)
    (hz : modelSighash coin tx us idx false (p2pkScript key) ht = some z)
    (hsign : ∃ r s, secp256k1Crypto.sign d z = .ok (r, s))
    (hht : ht ≤ 255) (hstd : standardHashType ht ∨ flags.strictenc = false)
    (hfd : ∀ sig, Canonical ht sig →
      scriptCodeFor ⟨p2pkScript key, flags, .base, txc⟩ ⟨[], [], [], 0, 0⟩ [sig] = p2pkScript key) :
    ∃ sig scriptSig,
      solveBase secp256k1Crypto lookup (modelSighash coin tx us idx false (p2pkScript key)) [] ht (some ph) (.p2pk key)
        = .ok [some sig] ∧
      pushAll [some sig] = .ok scriptSig ∧
      verifyScript (realChk coin tx us idx) scriptSig (p2pkScript key) [] flags txc = none := by
  obtain ⟨sig, hcan, hsolve, hchk⟩ := fresh_checks coin tx us idx lookup ph d x y z comp key (p2pkScript key) .base ht hht
    hpub hkey hl hz hsign
  obtain ⟨hk1, _, hk3⟩ := publicPairToSec_shape hkey
  obtain ⟨hs9, hs73⟩ := valid_sig_length hcan.1
  have : ((SigVersion.base == SigVersion.witnessV0) = false) := rfl
  rw [this] at hsolve
  refine ⟨sig, pushesOf [sig], ?_, ?_, ?_⟩
  · simp only [solveBase]; exact hsolve
  · have := pushAll_direct [sig] (by intro d hd; simp at hd; subst hd; omega)
    simpa using this
  · apply C05_p2pk_valid (realChk coin tx us idx) sig key flags txc (by omega) (by omega) (by omega) (by omega)
      (C05_sig_passes_encoding_checks hcan flags hstd)
    · unfold checkPubKeyEncoding; simp [hk1]
    · rw [hfd sig hcan]; exact hchk


/-! ## m-of-n with ECDSA and the digest instantiated: end to end, and pass by pass -/

/-- the listed keys `K` (= `sec_list`, i.e. the keys of the script last first) and the secrets that control them -/
structure HonestKeys (K : List Bytes) (d x y : Nat → Int) (comp : Nat → Bool) : Prop where
  pub : ∀ i, i < K.length → mulG k1 0 (d i) = .ok (some (x i, y i))
  sec : ∀ i k, K[i]? = some k → publicPairToSec (x i) (y i) (comp i) = .ok k

/-- `sg i` is what the signer emits with the secret of key `i` for digest `z` and hash type `ht` (RFC 6979: there is one) -/
def SignsWith (K : List Bytes) (d : Nat → Int) (z : Int) (ht : Nat) (sg : Nat → Bytes) : Prop :=
  ∀ i, i < K.length → ∃ r s, secp256k1Crypto.sign (d i) z = .ok (r, s) ∧
    binarySignature r (lowS secp256k1Crypto.order s) ht = .ok (sg i)

/-- what a lookup holds for a listed key is that key's secret -/
def LookupFor (K : List Bytes) (d : Nat → Int) (lookup : Lookup) : Prop :=
  ∀ i k e, K[i]? = some k → lookup (Hash.hash160 k) = some e → e.secret = d i

theorem sv_witness (w : Wrap) : (w.sv == SigVersion.witnessV0) = w.witness := by cases w <;> rfl

theorem getElem?_of_lt {K : List Bytes} {i : Nat} (h : i < K.length) : ∃ k, K[i]? = some k :=
  ⟨K[i], List.getElem?_eq_getElem h⟩

theorem lt_of_getElem? {K : List Bytes} {i : Nat} {k : Bytes} (h : K[i]? = some k) : i < K.length :=
  (List.getElem?_eq_some_iff.mp h).1

/-- C01, C10 and the canonical-signature theorem for one listed key -/
theorem own_facts {K : List Bytes} {d x y : Nat → Int} {comp : Nat → Bool} {sg : Nat → Bytes} {z : Int} {ht : Nat}
    (HK : HonestKeys K d x y comp) (hsg : SignsWith K d z ht sg) (hht : ht ≤ 255) {i : Nat} {k : Bytes}
    (hk : K[i]? = some k) :
    Canonical ht (sg i) ∧ secp256k1Crypto.secToPair k = some (some (x i, y i)) ∧
    ∃ r s : Int, 1 ≤ r ∧ r < secp256k1N ∧ 1 ≤ lowS secp256k1N s ∧ lowS secp256k1N s < secp256k1N ∧
      secp256k1Crypto.sign (d i) z = .ok (r, s) ∧ binarySignature r (lowS secp256k1N s) ht = .ok (sg i) ∧
      secp256k1Crypto.verify (some (x i, y i)) z r (lowS secp256k1N s) = .ok true ∧
      (∀ coin tx us idx sv code, modelSighash coin tx us idx (sv == .witnessV0) code ht = some z →
        realChk coin tx us idx (sg i) k code sv = true) := by
  have hi := lt_of_getElem? hk
  obtain ⟨r, s, hsign, hbin⟩ := hsg i hi
  obtain ⟨a1, a2, a3, a4, hver⟩ := sign_facts hsign (HK.pub i hi)
  obtain ⟨sig, hsig, hcan, _⟩ := C05_sig_canonical r s ht a1 a2 a3 a4 hht
  obtain ⟨l1, l2, _⟩ := lowS_range a3 a4
  have hdec := key_decodes (HK.pub i hi) (HK.sec i k hk)
  rw [k1_order] at hbin hver
  rw [hbin] at hsig; cases hsig
  refine ⟨hcan, hdec, r, s, a1, a2, l1, l2, hsign, hbin, hver, ?_⟩
  intro coin tx us idx sv code hz
  exact C05_ecdsa_chk_accepts secp256k1Crypto k1_order _ sv code k (sg i) (some (x i, y i)) z r s ht hht a1 a2 a3 a4 hz hdec
    (by rw [k1_order]; exact hver) (by rw [k1_order]; exact hbin)

theorem lookupHonest_of {K : List Bytes} {d x y : Nat → Int} {comp : Nat → Bool} {sg : Nat → Bytes} {z : Int} {ht : Nat}
    (HK : HonestKeys K d x y comp) (hsg : SignsWith K d z ht sg) {lookup : Lookup} (hl : LookupFor K d lookup) :
    LookupHonest secp256k1Crypto lookup ht z sg (enumFrom 0 K).reverse := by
  intro p hp
  obtain ⟨_, hK⟩ := enumFrom_get 0 K p (List.mem_reverse.mp hp)
  simp only [Nat.sub_zero] at hK
  have hi := lt_of_getElem? hK
  constructor
  · intro e he
    obtain ⟨r, s, hsign, hbin⟩ := hsg p.1 hi
    exact ⟨r, s, by rw [hl p.1 p.2 e hK he]; exact hsign, hbin⟩
  · intro _
    rw [key_decodes (HK.pub p.1 hi) (HK.sec p.1 p.2 hK)]; rfl

theorem sizesOk_of {keys : List Bytes} {d x y : Nat → Int} {comp : Nat → Bool} {sg : Nat → Bytes} {z : Int} {ht : Nat}
    (HK : HonestKeys keys.reverse d x y comp) (hsg : SignsWith keys.reverse d z ht sg) (hht : ht ≤ 255) {ph : Bytes}
    (hph : 2 ≤ ph.length ∧ ph.length ≤ 75) : SizesOk keys sg ph := by
  refine ⟨?_, ?_, hph⟩
  · intro k hk
    obtain ⟨i, hi⟩ := List.mem_iff_getElem?.mp (List.mem_reverse.mpr hk)
    obtain ⟨_, _, h3⟩ := publicPairToSec_shape (HK.sec i k hi)
    omega
  · intro i hi
    obtain ⟨k, hk⟩ := getElem?_of_lt hi
    obtain ⟨hcan, _⟩ := own_facts HK hsg hht hk
    obtain ⟨h9, h73⟩ := valid_sig_length hcan.1
    omega

theorem keysEncoding_of {keys : List Bytes} {d x y : Nat → Int} {comp : Nat → Bool}
    (HK : HonestKeys keys.reverse d x y comp) (w : Wrap) (flags : Flags) (hcomp : w.witness = true → ∀ i, comp i = true) :
    ∀ k ∈ keys, checkPubKeyEncoding k flags w.sv = none := by
  intro k hk
  obtain ⟨i, hi⟩ := List.mem_iff_getElem?.mp (List.mem_reverse.mpr hk)
  obtain ⟨h1, h2, _⟩ := publicPairToSec_shape (HK.sec i k hi)
  unfold checkPubKeyEncoding
  cases hw : w.witness with
  | false =>
    have : w.sv = .base := by unfold Wrap.sv; rw [hw]; rfl
    simp [h1, this]
  | true => simp [h1, h2 (hcomp hw i)]

/-- the digest `CheckSig` sees for the signature variables `sigs` is the digest that was signed -/
def CodeIs (w : Wrap) (ms : Bytes) (flags : Flags) (txc : TxCtx) (sigs : List Bytes) : Prop :=
  scriptCodeFor ⟨ms, flags, w.sv, txc⟩ ⟨[], [], [], 0, 0⟩ sigs = ms

theorem codeIs_witness (w : Wrap) (ms : Bytes) (flags : Flags) (txc : TxCtx) (sigs : List Bytes) (hw : w.witness = true) :
    CodeIs w ms flags txc sigs := by
  unfold CodeIs
  have : w.sv = .witnessV0 := by unfold Wrap.sv; rw [hw]; rfl
  rw [this]; exact scriptCodeFor_witness' ms flags txc sigs

/-- **m-of-n multisig, end to end, the four wrappers** (bare, P2SH, P2WSH, P2SH-P2WSH; every `1 ≤ m ≤ n ≤ 20`).  For listed keys
`d i • G`, a lookup that holds the secrets of at least `m` of them (and possibly of others), the digest of C04's model and RFC
6979 signing succeeding for it: the model's `solveBase` on the fresh input returns the dummy and `m` signatures — those of the
first `m` listed keys the lookup holds, in script order, no placeholder — and the consensus specification accepts the spend
built from them as `Solver.solve` builds it (`Wrap.scriptSig`, `Wrap.wit`), with `CheckSig` = ECDSA-verify of that very digest.
`hcode`: as for P2PKH, Core deletes the pushed signatures from a legacy script code before hashing; the signer hashes the script
as it stands (for witness scripts this holds by definition: `codeIs_witness`). -/
theorem C05_multisig_end_to_end (w : Wrap) (coin : Coin) (tx : Tx) (us : List (Option TxOut)) (idx : Nat) (lookup : Lookup)
    (ph : Bytes) (m : Nat) (keys : List Bytes) (d x y : Nat → Int) (comp : Nat → Bool) (sg : Nat → Bytes) (z : Int) (ht : Nat)
    (flags : Flags) (txc : TxCtx)
    (hm1 : 1 ≤ m) (hmn : m ≤ keys.length) (hn : keys.length ≤ 20)
    (HK : HonestKeys keys.reverse d x y comp)
    (hz : modelSighash coin tx us idx w.witness (multisigScriptN m keys) ht = some z)
    (hsg : SignsWith keys.reverse d z ht sg) (hl : LookupFor keys.reverse d lookup)
    (henough : m ≤ card keys.reverse.length (inTOf lookup keys.reverse))
    (hht : ht ≤ 255) (hstd : standardHashType ht ∨ flags.strictenc = false)
    (hcomp : w.witness = true → ∀ i, comp i = true)
    (ok : w.Ok (multisigScriptN m keys) flags) (hph : 2 ≤ ph.length ∧ ph.length ≤ 75)
    (hcode : ∀ sigs, (∀ s ∈ sigs, Canonical ht s) → CodeIs w (multisigScriptN m keys) flags txc sigs) :
    ∃ sgn : Nat → Bool, card keys.reverse.length sgn = m ∧ (∀ i, sgn i = true → inTOf lookup keys.reverse i = true) ∧
      solveBase secp256k1Crypto lookup (modelSighash coin tx us idx w.witness (multisigScriptN m keys)) [] ht (some ph)
        (.multisig m keys) = .ok ((stateSolved keys.reverse.length m sg ph sgn).map some) ∧
      verifyScript (realChk coin tx us idx)
        (w.scriptSig (multisigScriptN m keys) (stateSolved keys.reverse.length m sg ph sgn))
        (w.spk (multisigScriptN m keys))
        (w.wit (multisigScriptN m keys) (stateSolved keys.reverse.length m sg ph sgn)) flags txc = none := by
  let sgn := passSet keys.reverse.length m (fun _ => false) (inTOf lookup keys.reverse)
  have hcard : card keys.reverse.length sgn = m := by
    have h1 := pass_card keys.reverse.length m (fun _ => false) (inTOf lookup keys.reverse)
    have h2 := card_union keys.reverse.length (fun _ => false) (inTOf lookup keys.reverse)
    have h3 : card keys.reverse.length (fun i => false || inTOf lookup keys.reverse i) =
        card keys.reverse.length (inTOf lookup keys.reverse) := card_congr (fun i _ => by simp)
    have h0 : card keys.reverse.length (fun _ => false) = 0 := by rw [card_eq_countP]; simp
    show card keys.reverse.length (passSet keys.reverse.length m (fun _ => false) (inTOf lookup keys.reverse)) = m
    omega
  have hsub : ∀ i, sgn i = true → inTOf lookup keys.reverse i = true := by
    intro i hi
    simp only [sgn, passSet, Bool.false_or, List.contains_iff_mem] at hi
    exact (mem_picks hi).2.2
  refine ⟨sgn, hcard, hsub, ?_, ?_⟩
  · rw [solveBase_multisig_fresh keys hz lookup m ph (lookupHonest_of HK hsg hl), stateSolved_map_some]
  · have hsigs := stateSigs_full keys.reverse.length m sg ph sgn hcard
    have hcan : ∀ s ∈ stateSigs keys.reverse.length m sg ph sgn, Canonical ht s := by
      intro s hs
      rw [hsigs] at hs
      obtain ⟨i, hi, rfl⟩ := List.mem_map.mp hs
      obtain ⟨k, hk⟩ := getElem?_of_lt (mem_signedList.mp hi).1
      exact (own_facts HK hsg hht hk).1
    apply state_accept (realChk coin tx us idx) w m keys sg ph sgn flags txc ok hm1 hmn hn (sizesOk_of HK hsg hht hph) hcard
    · intro i hlt _
      obtain ⟨k, hk⟩ := getElem?_of_lt hlt
      exact C05_sig_passes_encoding_checks (own_facts HK hsg hht hk).1 flags hstd
    · exact keysEncoding_of HK w flags hcomp
    · intro i k hk _
      obtain ⟨_, _, r, s, _, _, _, _, _, _, _, hchk⟩ := own_facts HK hsg hht hk
      apply hchk
      rw [hcode _ hcan, sv_witness]
      exact hz

/-! ### pass by pass -/

/-- unforgeability-style hypothesis: the signature made with the secret of listed key `i` does not verify for another listed
key `j` (for given `(r, s, z)` at most the two keys recoverable from them verify at all) -/
def NoCross (K : List Bytes) (d x y : Nat → Int) (z : Int) : Prop :=
  ∀ i j, i < K.length → j < K.length → i ≠ j → ∀ r s, secp256k1Crypto.sign (d i) z = .ok (r, s) →
    secp256k1Crypto.verify (some (x j, y j)) z r (lowS secp256k1Crypto.order s) = .ok false

/-- unforgeability-style hypothesis: the placeholder `(r, s) = (n − 1, (n − 1)/2)` verifies for no key and digest -/
def PlaceholderUnverifiable : Prop :=
  ∀ Q z, secp256k1Crypto.verify Q z ((secp256k1N - 1 : Nat) : Int) (((secp256k1N - 1) / 2 : Nat) : Int) = .ok false

theorem findKey_unverifiable (C : Crypto) (digest : Digest) (r s : Int) (t : Nat)
    (hunf : ∀ Q z, C.verify Q z r s = .ok false) : ∀ (keys : List Bytes) (i : Nat), findKey C digest r s t keys i = .ok none := by
  intro keys
  induction keys with
  | nil => intro i; rfl
  | cons k r' ih =>
    intro i
    simp only [findKey]
    split
    · rfl
    · split
      · rfl
      · rw [hunf]; exact ih (i + 1)

theorem placeholder_dud (hunf : PlaceholderUnverifiable) (dig : Digest) (K : List Bytes) :
    Slot.ok secp256k1Crypto dig K (.dud Gen.Sign.defaultPlaceholder) :=
  ⟨secp256k1N - 1, (secp256k1N - 1) / 2, 1, placeholder_parses, findKey_unverifiable _ _ _ _ _ hunf K 0⟩

theorem placeholder_lax : Gen.Sign.defaultPlaceholder.getLast? = some 1 ∧
    laxDerParse Gen.Sign.defaultPlaceholder.dropLast = some (secp256k1N - 1, (secp256k1N - 1) / 2) ∧
    Gen.Sign.defaultPlaceholder.length = 72 := by
  decide +kernel

/-- the real `CheckSig` rejects the placeholder for every key, script code and signature version -/
theorem realChk_placeholder (hunf : PlaceholderUnverifiable) (coin : Coin) (tx : Tx) (us : List (Option TxOut)) (idx : Nat)
    (k code : Bytes) (sv : SigVersion) : realChk coin tx us idx Gen.Sign.defaultPlaceholder k code sv = false := by
  unfold realChk ecdsaChk
  rw [placeholder_lax.1, placeholder_lax.2.1]
  cases secp256k1Crypto.secToPair k with
  | none => rfl
  | some Q =>
    simp only []
    cases modelSighash coin tx us idx (sv == SigVersion.witnessV0) code (1 : UInt8).toNat with
    | none => rfl
    | some z' => simp only []; rw [hunf]

theorem sigdecodeDerLax_not30 (b0 : UInt8) (l : Bytes) (h0 : b0 ≠ 0x30) : sigdecodeDerLax (b0 :: l) = none := by
  unfold sigdecodeDerLax
  split
  · rename_i heq
    injection heq with h1 _
    exact absurd h1 h0
  · rfl

/-- a multisig script is not taken for a signature by `parse_signature_blob` -/
theorem parseSignatureBlob_multisigScriptN (m : Nat) (keys : List Bytes) (hm : m ≤ 20) :
    parseSignatureBlob (multisigScriptN m keys) = none := by
  have key : ∀ (b0 : UInt8) (t : Bytes), b0 ≠ 0x30 → t ≠ [] → parseSignatureBlob (b0 :: t) = none := by
    intro b0 t h0 ht
    have hd : (b0 :: t).dropLast = b0 :: t.dropLast := by
      cases t with
      | nil => exact absurd rfl ht
      | cons a r => rfl
    unfold parseSignatureBlob
    rw [hd, sigdecodeDerLax_not30 b0 _ h0]
    cases (b0 :: t).getLast? <;> rfl
  by_cases h16 : m ≤ 16
  · have tm : (UInt8.ofNat (0x50 + m)).toNat = 0x50 + m := toNat_ofNat_lt (by omega)
    have e : multisigScriptN m keys = UInt8.ofNat (0x50 + m) :: (pushesOf keys ++ (countPush keys.length ++ [0xae])) := by
      simp [multisigScriptN, countPush, h16]
    rw [e]
    apply key
    · intro h; have := congrArg UInt8.toNat h; rw [tm] at this; simp at this; omega
    · simp
  · have e : multisigScriptN m keys = 0x01 :: (UInt8.ofNat m :: (pushesOf keys ++ (countPush keys.length ++ [0xae]))) := by
      simp [multisigScriptN, countPush, h16]
    rw [e]
    exact key _ _ (by decide) (by simp)

theorem keyFacts_of {K : List Bytes} {d x y : Nat → Int} {comp : Nat → Bool} {sg : Nat → Bytes} {z : Int} {ht : Nat}
    {dig : Digest} (HK : HonestKeys K d x y comp) (hsg : SignsWith K d z ht sg) (hht : ht ≤ 255) (hz : dig ht = some z)
    (hcross : NoCross K d x y z) : KeyFacts secp256k1Crypto dig ht z K sg := by
  refine ⟨hz, ?_⟩
  intro i hi
  obtain ⟨k, hk⟩ := getElem?_of_lt hi
  obtain ⟨_, _, r, s, a1, a2, l1, l2, hsign, hbin, hver, _⟩ := own_facts HK hsg hht hk
  have hN := secp256k1N_lt
  have e1 : ((r.toNat : Nat) : Int) = r := by omega
  have e2 : (((lowS secp256k1N s).toNat : Nat) : Int) = lowS secp256k1N s := by omega
  refine ⟨r.toNat, (lowS secp256k1N s).toNat, ?_, ?_⟩
  · apply parseSignatureBlob_binarySignature (by omega) (by omega) (by omega) (by omega)
    rw [e1, e2]; exact hbin
  · intro j kj hkj
    obtain ⟨_, hdec, _⟩ := own_facts HK hsg hht hkj
    refine ⟨some (x j, y j), hdec, ?_⟩
    rw [e1, e2]
    by_cases hij : i = j
    · subst hij; simp [hver]
    · have := hcross i j hi (lt_of_getElem? hkj) hij r s hsign
      rw [k1_order] at this
      simp [this, hij]

theorem stateSlots_render' (n m : Nat) (sg : Nat → Bytes) (ph : Bytes) (sgn : Nat → Bool) (extra : List Bytes) :
    (stateSlots n m ph sgn extra).map (·.render sg) = stateSolved n m sg ph sgn ++ extra := by
  rw [stateSlots_render, stateSolved_eq]

/-- **Partial signing, pass by pass, on the model** (`_partial`: the two unforgeability-style hypotheses `hcross`, `hunf` are
extra — they cannot be proved, only not refuted).  Any non-empty sequence of signing passes over a fresh m-of-n input, each with
its own lookup holding secrets of listed keys, each reading the blobs the pass before left (the solved items, then the redeem /
witness script): the model ends in the state `runSets …` — the dummy, `m − j` placeholders, and the signatures of the `j` keys
that signed, in key order — where `j = min m (number of distinct listed keys supplied over all passes)`; and the consensus
specification accepts the spend built from it **exactly when** `m` distinct listed keys have been supplied, whatever the
wrapper, with `CheckSig` = ECDSA-verify of the C04 digest.  With fewer, placeholders remain and it is rejected. -/
theorem C05_partial_passes_partial (w : Wrap) (coin : Coin) (tx : Tx) (us : List (Option TxOut)) (idx : Nat)
    (m : Nat) (keys : List Bytes) (d x y : Nat → Int) (comp : Nat → Bool) (sg : Nat → Bytes) (z : Int) (ht : Nat)
    (flags : Flags) (txc : TxCtx) (ls : List Lookup) (hne : ls ≠ [])
    (hm1 : 1 ≤ m) (hmn : m ≤ keys.length) (hn : keys.length ≤ 20)
    (HK : HonestKeys keys.reverse d x y comp)
    (hz : modelSighash coin tx us idx w.witness (multisigScriptN m keys) ht = some z)
    (hsg : SignsWith keys.reverse d z ht sg) (hl : ∀ l ∈ ls, LookupFor keys.reverse d l)
    (hcross : NoCross keys.reverse d x y z) (hunf : PlaceholderUnverifiable)
    (hht : ht ≤ 255) (hstd : standardHashType ht ∨ flags.strictenc = false)
    (hcomp : w.witness = true → ∀ i, comp i = true)
    (ok : w.Ok (multisigScriptN m keys) flags)
    (hcode : ∀ sigs, (∀ s ∈ sigs, Canonical ht s) → CodeIs w (multisigScriptN m keys) flags txc sigs) :
    runPasses secp256k1Crypto (modelSighash coin tx us idx w.witness (multisigScriptN m keys)) ht Gen.Sign.defaultPlaceholder m
        keys (w.extra (multisigScriptN m keys)) ls [] =
      .ok (stateSolved keys.reverse.length m sg Gen.Sign.defaultPlaceholder
        (runSets keys.reverse.length m (ls.map (fun l => inTOf l keys.reverse)) (fun _ => false)) ++
          w.extra (multisigScriptN m keys)) ∧
    card keys.reverse.length (runSets keys.reverse.length m (ls.map (fun l => inTOf l keys.reverse)) (fun _ => false)) =
      min m (card keys.reverse.length (unionSets (ls.map (fun l => inTOf l keys.reverse)) (fun _ => false))) ∧
    (verifyScript (realChk coin tx us idx)
        (w.scriptSig (multisigScriptN m keys) (stateSolved keys.reverse.length m sg Gen.Sign.defaultPlaceholder
          (runSets keys.reverse.length m (ls.map (fun l => inTOf l keys.reverse)) (fun _ => false))))
        (w.spk (multisigScriptN m keys))
        (w.wit (multisigScriptN m keys) (stateSolved keys.reverse.length m sg Gen.Sign.defaultPlaceholder
          (runSets keys.reverse.length m (ls.map (fun l => inTOf l keys.reverse)) (fun _ => false)))) flags txc = none
      ↔ m ≤ card keys.reverse.length (unionSets (ls.map (fun l => inTOf l keys.reverse)) (fun _ => false))) := by
  have F := keyFacts_of HK hsg hht hz hcross
  have h0 : card keys.reverse.length (fun _ => false) ≤ m := by rw [card_eq_countP]; simp
  have hcardeq := runSets_card keys.reverse.length m (ls.map (fun l => inTOf l keys.reverse)) (fun _ => false) h0
  have hph : 2 ≤ Gen.Sign.defaultPlaceholder.length ∧ Gen.Sign.defaultPlaceholder.length ≤ 75 := by
    rw [placeholder_lax.2.2]; omega
  have hextra : ∀ b ∈ w.extra (multisigScriptN m keys), parseSignatureBlob b = none := by
    intro b hb
    have : b = multisigScriptN m keys := by
      cases w <;> simp [Wrap.extra] at hb <;> exact hb
    rw [this]; exact parseSignatureBlob_multisigScriptN m keys (by omega)
  refine ⟨?_, hcardeq, ?_⟩
  · cases ls with
    | nil => exact absurd rfl hne
    | cons l ls' =>
      rw [runPasses_fresh keys F m _ _ (placeholder_dud hunf _ _) hextra l ls'
        (fun l' hl' => lookupHonest_of HK hsg (hl l' hl')), stateSlots_render']
  · generalize hsgn : runSets keys.reverse.length m (ls.map (fun l => inTOf l keys.reverse)) (fun _ => false) = sgn at *
    constructor
    · intro hv
      apply Classical.byContradiction
      intro hlt
      have hfew : card keys.reverse.length sgn < m := by omega
      exact state_reject (realChk coin tx us idx) w m keys sg _ sgn flags txc ok hm1 hmn hn (sizesOk_of HK hsg hht hph) hfew
        (fun k _ => realChk_placeholder hunf coin tx us idx k _ _) hv
    · intro hge
      have hcard : card keys.reverse.length sgn = m := by omega
      have hsigs := stateSigs_full keys.reverse.length m sg Gen.Sign.defaultPlaceholder sgn hcard
      have hcan : ∀ s ∈ stateSigs keys.reverse.length m sg Gen.Sign.defaultPlaceholder sgn, Canonical ht s := by
        intro s hs
        rw [hsigs] at hs
        obtain ⟨i, hi, rfl⟩ := List.mem_map.mp hs
        obtain ⟨k, hk⟩ := getElem?_of_lt (mem_signedList.mp hi).1
        exact (own_facts HK hsg hht hk).1
      apply state_accept (realChk coin tx us idx) w m keys sg _ sgn flags txc ok hm1 hmn hn (sizesOk_of HK hsg hht hph) hcard
      · intro i hlt _
        obtain ⟨k, hk⟩ := getElem?_of_lt hlt
        exact C05_sig_passes_encoding_checks (own_facts HK hsg hht hk).1 flags hstd
      · exact keysEncoding_of HK w flags hcomp
      · intro i k hk _
        obtain ⟨_, _, r, s, _, _, _, _, _, _, _, hchk⟩ := own_facts HK hsg hht hk
        apply hchk
        rw [hcode _ hcan, sv_witness]
        exact hz

/-- **The order of the passes does not matter, on the model** (`_partial`: hypotheses `hcross`, `hunf` as in
`C05_partial_passes_partial`).  For two orderings `ls₁ ~ ls₂` of the same signing passes over a fresh m-of-n input: the number of
signatures present at the end is the same, so the spend is valid after the one exactly when it is valid after the other; and
as long as no more than `m` distinct listed keys are supplied in total, the blobs left are identical byte for byte.  (With more
than `m` keys on offer, which `m` of them sign does depend on the order — every choice is valid.)  This replaces the
hypothesis of `C05_partial_order_independent_partial` (that both orders collect the same multiset) by a derivation from the
model: existing signatures are re-found by verification, RFC 6979 makes each key's signature unique. -/
theorem C05_partial_order_independent_passes_partial (w : Wrap) (coin : Coin) (tx : Tx) (us : List (Option TxOut)) (idx : Nat)
    (m : Nat) (keys : List Bytes) (d x y : Nat → Int) (comp : Nat → Bool) (sg : Nat → Bytes) (z : Int) (ht : Nat)
    (flags : Flags) (txc : TxCtx) (ls₁ ls₂ : List Lookup) (hperm : ls₁.Perm ls₂) (hne : ls₁ ≠ [])
    (hm1 : 1 ≤ m) (hmn : m ≤ keys.length) (hn : keys.length ≤ 20)
    (HK : HonestKeys keys.reverse d x y comp)
    (hz : modelSighash coin tx us idx w.witness (multisigScriptN m keys) ht = some z)
    (hsg : SignsWith keys.reverse d z ht sg) (hl : ∀ l ∈ ls₁, LookupFor keys.reverse d l)
    (hcross : NoCross keys.reverse d x y z) (hunf : PlaceholderUnverifiable)
    (hht : ht ≤ 255) (hstd : standardHashType ht ∨ flags.strictenc = false)
    (hcomp : w.witness = true → ∀ i, comp i = true)
    (ok : w.Ok (multisigScriptN m keys) flags)
    (hcode : ∀ sigs, (∀ s ∈ sigs, Canonical ht s) → CodeIs w (multisigScriptN m keys) flags txc sigs) :
    let run := fun ls => runPasses secp256k1Crypto (modelSighash coin tx us idx w.witness (multisigScriptN m keys)) ht
      Gen.Sign.defaultPlaceholder m keys (w.extra (multisigScriptN m keys)) ls []
    let final := fun (ls : List Lookup) => runSets keys.reverse.length m (ls.map (fun l => inTOf l keys.reverse)) (fun _ => false)
    let valid := fun (ls : List Lookup) => verifyScript (realChk coin tx us idx)
        (w.scriptSig (multisigScriptN m keys) (stateSolved keys.reverse.length m sg Gen.Sign.defaultPlaceholder (final ls)))
        (w.spk (multisigScriptN m keys))
        (w.wit (multisigScriptN m keys) (stateSolved keys.reverse.length m sg Gen.Sign.defaultPlaceholder (final ls)))
        flags txc = none
    card keys.reverse.length (final ls₁) = card keys.reverse.length (final ls₂) ∧ (valid ls₁ ↔ valid ls₂) ∧
    (card keys.reverse.length (unionSets (ls₁.map (fun l => inTOf l keys.reverse)) (fun _ => false)) ≤ m → run ls₁ = run ls₂) := by
  intro run final valid
  have hne2 : ls₂ ≠ [] := by
    intro h; rw [h] at hperm; exact hne hperm.eq_nil
  have hl2 : ∀ l ∈ ls₂, LookupFor keys.reverse d l := fun l hl' => hl l (hperm.mem_iff.mpr hl')
  have hpT : (ls₁.map (fun l => inTOf l keys.reverse)).Perm (ls₂.map (fun l => inTOf l keys.reverse)) := hperm.map _
  have h0 : card keys.reverse.length (fun _ => false) ≤ m := by rw [card_eq_countP]; simp
  obtain ⟨r1, c1, v1⟩ := C05_partial_passes_partial w coin tx us idx m keys d x y comp sg z ht flags txc ls₁ hne hm1 hmn hn HK hz hsg
    hl hcross hunf hht hstd hcomp ok hcode
  obtain ⟨r2, c2, v2⟩ := C05_partial_passes_partial w coin tx us idx m keys d x y comp sg z ht flags txc ls₂ hne2 hm1 hmn hn HK hz
    hsg hl2 hcross hunf hht hstd hcomp ok hcode
  have hu : card keys.reverse.length (unionSets (ls₁.map (fun l => inTOf l keys.reverse)) (fun _ => false)) =
      card keys.reverse.length (unionSets (ls₂.map (fun l => inTOf l keys.reverse)) (fun _ => false)) :=
    card_congr (fun i _ => unionSets_perm hpT _ i)
  refine ⟨runSets_perm_card _ m hpT _ h0, ?_, ?_⟩
  · show valid ls₁ ↔ valid ls₂
    simp only [valid, final]
    rw [v1, v2, hu]
  · intro hfit
    show run ls₁ = run ls₂
    simp only [run]
    rw [r1, r2, stateSolved_congr _ m sg _ (runSets_perm_eq _ m hpT _ hfit)]

/-- **Wrong keys leave the input failing validation** (`_partial`: `hwrong` is unforgeability-style).  Whatever secrets the lookup
maps the listed keys' hashes to — `sg i` is the signature the lookup's entry for key `i` makes, right secret or not — the model's
first pass fills the signature variables with them; if one of those it used verifies for no listed key (a signature made with
another secret: it is valid for *that* secret's key only), the consensus specification rejects the spend, whatever the wrapper
and however many other signatures are good. -/
theorem C05_multisig_wrong_key_rejected_partial (chk : PChk) (w : Wrap) (dig : Digest) (lookup : Lookup) (ph : Bytes) (m : Nat)
    (keys : List Bytes) (sg : Nat → Bytes) (z : Int) (ht : Nat) (flags : Flags) (txc : TxCtx)
    (hm1 : 1 ≤ m) (hmn : m ≤ keys.length) (hn : keys.length ≤ 20) (hz : dig ht = some z)
    (hh : LookupHonest secp256k1Crypto lookup ht z sg (enumFrom 0 keys.reverse).reverse)
    (hs : SizesOk keys sg ph) (ok : w.Ok (multisigScriptN m keys) flags)
    (bad : Nat) (hbad : passSet keys.reverse.length m (fun _ => false) (inTOf lookup keys.reverse) bad = true)
    (hwrong : ∀ k ∈ keys, ∀ code sv, chk (sg bad) k code sv = false) :
    solveBase secp256k1Crypto lookup dig [] ht (some ph) (.multisig m keys) =
      .ok ((stateSolved keys.reverse.length m sg ph
        (passSet keys.reverse.length m (fun _ => false) (inTOf lookup keys.reverse))).map some) ∧
    verifyScript chk
      (w.scriptSig (multisigScriptN m keys) (stateSolved keys.reverse.length m sg ph
        (passSet keys.reverse.length m (fun _ => false) (inTOf lookup keys.reverse))))
      (w.spk (multisigScriptN m keys))
      (w.wit (multisigScriptN m keys) (stateSolved keys.reverse.length m sg ph
        (passSet keys.reverse.length m (fun _ => false) (inTOf lookup keys.reverse)))) flags txc ≠ none := by
  have h0 : card keys.reverse.length (fun _ => false) ≤ m := by rw [card_eq_countP]; simp
  refine ⟨by rw [solveBase_multisig_fresh keys hz lookup m ph hh, stateSolved_map_some], ?_⟩
  apply state_reject_of_bad chk w m keys sg ph _ flags txc ok hm1 hmn hn hs (pass_card_le _ m _ _ h0)
  refine ⟨sg bad, ?_, fun k hk => hwrong k hk _ _⟩
  unfold stateSigs
  apply List.mem_append_right
  apply List.mem_map.mpr
  refine ⟨bad, mem_signedList.mpr ⟨?_, hbad⟩, rfl⟩
  simp only [passSet, Bool.false_or, List.contains_iff_mem] at hbad
  exact (mem_picks hbad).1

/-- **What the next pass reads is what this pass wrote.**  `existing_script` of `Solver.solve` — the data pushes of the scriptSig,
or the witness when there is one — taken from the spend `Solver.solve` builds out of the solved items, is those items followed
by the redeem / witness script: the list `runPasses` hands from one pass to the next in `C05_partial_passes_partial`. -/
theorem C05_next_pass_reads_solution (w : Wrap) (ms : Bytes) (items : List Bytes)
    (hitems : ∀ d ∈ items, d.length = 0 ∨ (2 ≤ d.length ∧ d.length ≤ 75)) (h2 : 2 ≤ ms.length) (h : ms.length ≤ 65535) :
    existingScript (w.scriptSig ms items) (w.wit ms items) = .ok (items ++ w.extra ms) := by
  have hlt : ∀ d ∈ items, d.length < 2 ^ 32 := fun d hd => by rcases hitems d hd with h | h <;> omega
  cases w with
  | bare =>
    have := existingScript_pushAll items hlt _ (pushAll_direct items hitems)
    simpa [Wrap.scriptSig, Wrap.wit, Wrap.witness, Wrap.extra] using this
  | p2sh =>
    have := existingScript_pushAll (items ++ [ms]) (by
      intro d hd
      rcases List.mem_append.mp hd with hd | hd
      · exact hlt d hd
      · simp at hd; subst hd; omega) _ (by
        rw [List.map_append]; exact pushAll_items_redeem items ms hitems h2 h)
    simpa [Wrap.scriptSig, Wrap.wit, Wrap.witness, Wrap.extra] using this
  | p2wsh =>
    exact existingScript_witness _ _ (by simp [Wrap.wit, Wrap.witness])
  | p2shP2wsh =>
    exact existingScript_witness _ _ (by simp [Wrap.wit, Wrap.witness])

/-- **`who_signed` reports exactly the keys that signed** (`_partial`: `hcross`, `hunf` as in `C05_partial_passes_partial`).  For an
m-of-n input in the state `sgn` the model's passes leave (`stateSolved`: dummy, placeholders, signatures by key index), the
model of `public_pairs_signed` (`Model/WhoSigned.lean`) run on what the `OP_CHECKMULTISIG` hook finds — the keys, and the top `m`
stack items — returns the public keys of `sgn`, each exactly once, by key index, with the hash type they signed with; a
placeholder contributes nothing (on fork-id coins its hash type 1 has no digest at all: `sigHashes` maps that to "matches
nothing", which is what the repaired `_handle_checkmultisig` does).  `hdig`: the digest attached to a signature blob (script code
with that one blob deleted, legacy) is the digest that was signed — as `hcode` above.  Recognising the template and unwrapping
P2SH / P2WSH (`sigOpBlobs`) is tied to the implementation by the `c05_who_signed` correspondence. -/
theorem C05_who_signed_exact_partial (m : Nat) (keys : List Bytes) (d x y : Nat → Int) (comp : Nat → Bool) (sg : Nat → Bytes)
    (z : Int) (ht : Nat) (sgn : Nat → Bool) (dig : Bytes → Nat → Option Int)
    (HK : HonestKeys keys.reverse d x y comp) (hsg : SignsWith keys.reverse d z ht sg)
    (hcross : NoCross keys.reverse d x y z) (hunf : PlaceholderUnverifiable) (hht : ht ≤ 255)
    (hc : card keys.reverse.length sgn ≤ m)
    (hdig : ∀ i, i < keys.reverse.length → dig (sg i) ht = some z) :
    whoSignedBlobs secp256k1Crypto dig keys.reverse
        ((stateSolved keys.reverse.length m sg Gen.Sign.defaultPlaceholder sgn).reverse.take m) =
      .ok ((signedList keys.reverse.length sgn).map (fun i => (some (x i, y i), ht))) := by
  rw [stateSolved_take _ m sg _ sgn hc]
  have F := keyFacts_of (dig := fun t => if t = ht then some z else none) HK hsg hht (by simp) hcross
  apply whoSigned_state secp256k1Crypto keys.reverse (fun i => some (x i, y i)) sg _ m sgn dig z ht
  · intro j kj hkj
    exact (own_facts HK hsg hht hkj).2.1
  · intro i hi
    obtain ⟨k, hk⟩ := getElem?_of_lt hi
    obtain ⟨hcan, _⟩ := own_facts HK hsg hht hk
    obtain ⟨h9, _⟩ := valid_sig_length hcan.1
    obtain ⟨r, s, hp, hall⟩ := F.sigs i hi
    refine ⟨by intro h0; rw [h0] at h9; simp at h9, r, s, hp, ?_⟩
    intro j hj
    obtain ⟨kj, hkj⟩ := getElem?_of_lt hj
    obtain ⟨Q, hQ, hv⟩ := hall j kj hkj
    rw [(own_facts HK hsg hht hkj).2.1] at hQ
    cases hQ
    exact hv
  · exact hdig
  · refine ⟨by intro h0; have := placeholder_lax.2.2; rw [h0] at this; simp at this, _, _, _, placeholder_parses, ?_⟩
    intro Q' z'
    exact hunf Q' z'

/-! ### the hypotheses are satisfiable: a 2-of-3 input evaluated on the model (tests by evaluation, not theorems) -/

section nonvacuity

def exKeyOf (d : Int) : Option (Bytes × Entry) :=
  match mulG k1 0 d with
  | .ok (some (x, y)) => (match publicPairToSec x y true with | .ok k => some (k, ⟨d, x, y, true⟩) | _ => none)
  | _ => none

def exKeys : List Bytes := ([11, 22, 33] : List Int).filterMap (fun d => (exKeyOf d).map (·.1))
def exZ : Int := 0x1234567890abcdef1234567890abcdef
def exDig : Digest := fun ht => if ht = 1 then some exZ else none
def exLookup (ds : List Int) : Lookup := fun h => ((ds.filterMap exKeyOf).find? (fun p => Hash.hash160 p.1 = h)).map (·.2)
def exChk : PChk := ecdsaChk secp256k1Crypto (fun _ _ => exDig)

/-- passes with the lookups holding the secrets `order`, over a fresh 2-of-3 input wrapped as `w` -/
def exRun (w : Wrap) (order : List (List Int)) : Except Sign.Err (List Bytes) :=
  runPasses secp256k1Crypto exDig 1 Gen.Sign.defaultPlaceholder 2 exKeys (w.extra (multisigScriptN 2 exKeys)) (order.map exLookup) []

def exValid (w : Wrap) (ex : Except Sign.Err (List Bytes)) : Bool :=
  match ex with
  | .ok blobs =>
    let items := blobs.take 3
    verifyScript exChk (w.scriptSig (multisigScriptN 2 exKeys) items) (w.spk (multisigScriptN 2 exKeys))
      (w.wit (multisigScriptN 2 exKeys) items) standardFlags ⟨1, 0, 0xffffffff⟩ == none
  | .error _ => false

/-- `NoCross` and `PlaceholderUnverifiable` on the example: the signature of one secret verifies for its own key and for neither
of the other two; the placeholder for none -/
def exCross : Bool :=
  ([11, 22, 33] : List Int).all fun di =>
    match secp256k1Crypto.sign di exZ with
    | .ok (r, s) =>
      ([11, 22, 33] : List Int).all fun dj =>
        match mulG k1 0 dj with
        | .ok Q =>
          (match secp256k1Crypto.verify Q exZ r (lowS secp256k1Crypto.order s) with | .ok b => b == (di == dj) | _ => false) &&
          (match secp256k1Crypto.verify Q exZ ((secp256k1N - 1 : Nat) : Int) (((secp256k1N - 1) / 2 : Nat) : Int) with
           | .ok b => !b | _ => false)
        | _ => false
    | _ => false

-- one key: a placeholder remains, rejected; the second key: accepted; either order leaves the same bytes
#guard exKeys.length == 3 && exCross
#guard !exValid .bare (exRun .bare [[33]]) && exValid .bare (exRun .bare [[33], [11]]) &&
  exRun .bare [[33], [11]] == exRun .bare [[11], [33]] && exValid .p2shP2wsh (exRun .p2shP2wsh [[22], [11, 22]])
-- the model's template recogniser reads the scripts of this file, with `OP_n` and with one-byte-push counts
#guard classify (multisigScriptN 2 exKeys) == some (.multisig 2 exKeys)
#guard classify (multisigScriptN 17 (List.replicate 18 (exKeys.headD []))) == some (.multisig 17 (List.replicate 18 (exKeys.headD [])))
-- n = 17 under the full standard flag set (MINIMALDATA included): `01 11` is accepted, `OP_1 … OP_16` cannot say 17
#guard verifyScript (fun _ _ _ _ => true) (pushesOf [[], List.replicate 9 0x30])
    (multisigScriptN 1 (List.replicate 17 (List.replicate 33 2))) [] (Flags.ofBits 0x40) ⟨1, 0, 0⟩ == none

end nonvacuity

section digests
open Pycoin.Sighash

/-- **The digest the witness templates are signed over is the BIP143 digest** (C04): for every well-formed transaction the
`z` of `C05_p2wpkh_end_to_end` / `C05_p2sh_p2wpkh_end_to_end` / `C05_multisig_p2wsh_valid` exists and is the
consensus definition (fork-id variants: `C04_forkid_eq_bch`, `C04_forkid_eq_btg`). -/
theorem C05_witness_digest_is_bip143 (c : Coin) (hc : c ≠ .btg) (tx : Tx) (hwf : tx.WF) (us : List (Option TxOut)) (idx : Nat)
    (hidx : idx < tx.ins.length) (o : TxOut) (hu : us[idx]? = some (some o)) (hamt : U64 o.value) (script : Bytes)
    (hlen : LenOk script) (ht : Nat) (hht : ht < 2 ^ 32) :
    modelSighash c tx us idx true script ht =
      some ((beNat (Spec.Sighash.signatureHashBip143 (sha (segwitSingleSha c)) tx idx script o.value.toNat ht) : Nat) : Int) := by
  unfold modelSighash witnessSighashF
  simp only [if_true]
  rw [C04_bip143_digest_eq c hc tx hwf us idx hidx o hu hamt script hlen ht hht]

/-- **The digest the legacy templates are signed over is Core's legacy `SignatureHash`** (C04), on the coins without
replay protection. -/
theorem C05_legacy_digest_is_consensus (c : Coin) (hc' : requiresForkId c = false) (tx : Tx) (us : List (Option TxOut))
    (hwf : tx.WF) (idx : Nat) (hidx : idx < tx.ins.length) (script : Bytes) (hc : Spec.Sighash.Complete script) (hlen : LenOk script)
    (ht : Nat) (hht : ht < 2 ^ 32) :
    modelSighash c tx us idx false script ht =
      some ((beNat (Spec.Sighash.signatureHashLegacy (sha (legacySingleSha c)) tx idx script ht) : Nat) : Int) := by
  unfold modelSighash sighashF
  simp only [Bool.false_eq_true, if_false, deleteSignatures]
  cases closureDeletesSigs c <;>
    simp [C04_legacy_digest_eq c hc' tx us hwf idx hidx script hc hlen ht hht]


end digests

/-! ## Keychain -/

/-- **Keychain lookups are a function of what was added.**  `get` answers from the cache, else through the registered path of
the hash and the secrets with that fingerprint; it never changes the path table, the script table or the secrets, and the only
thing it stores is more (derived) keys at the end of the cache — a miss stores nothing that a later lookup reads. -/
theorem C05_keychain_get_spec (derive : KeyRec → String → Option KeyRec) (kc kc' : Keychain) (h : Bytes) (r : Option Entry)
    (hg : Keychain.get derive kc h = .ok (kc', r)) :
    kc'.paths = kc.paths ∧ kc'.secrets = kc.secrets ∧ kc'.p2s = kc.p2s ∧ (∃ extra, kc'.cache = kc.cache ++ extra) ∧
    r = assocGet h kc'.cache := by
  unfold Keychain.get at hg
  split at hg
  · rename_i e he
    cases hg
    exact ⟨rfl, rfl, rfl, ⟨[], by simp⟩, he.symm⟩
  · rename_i hnone
    split at hg
    · cases hg
      exact ⟨rfl, rfl, rfl, ⟨[], by simp⟩, hnone.symm⟩
    · split at hg
      · cases hg
      · rename_i kc1 hrun
        cases hg
        obtain ⟨a1, a2, a3, a4⟩ := cacheDerived_spec derive _ _ _ _ _ hrun
        exact ⟨a1, a2, a3, a4, rfl⟩

/-- **No negative caching.**  Whatever lookups (hits or misses) came before — `kc` is any state — once the path of `h` is
registered and a secret with that path's fingerprint whose sub-key hashes to `h` is present (`add_secret`), `get h` answers
with a key.  In particular: miss, `add_secret`, then hit. -/
theorem C05_keychain_no_negative_cache (derive : KeyRec → String → Option KeyRec) (kc : Keychain) (h : Bytes)
    (path : String) (fp : Bytes) (k sub : KeyRec)
    (hpath : kc.paths.find? (·.1 = h) = some (h, path, fp))
    (hk : k ∈ kc.secrets) (hfp : k.fingerprint = fp) (hd : derive k path = some sub)
    (hh : keyHash160 sub true = .ok h ∨ keyHash160 sub false = .ok h) (kc' : Keychain) (r : Option Entry)
    (hg : Keychain.get derive kc h = .ok (kc', r)) : r.isSome = true := by
  unfold Keychain.get at hg
  split at hg
  · cases hg; rfl
  · rw [hpath] at hg
    simp only at hg
    split at hg
    · cases hg
    · rename_i kc1 hrun
      cases hg
      exact cacheDerived_hit derive fp path h k sub hfp hd hh _ _ _ hk hrun

/-- `add_secret` keeps everything that was known and makes the key's own two hashes answer -/
theorem C05_keychain_add_secret (kc kc' : Keychain) (k : KeyRec) (ha : kc.addSecret k = .ok kc') :
    kc'.paths = kc.paths ∧ k ∈ kc'.secrets ∧ (∀ k', k' ∈ kc.secrets → k' ∈ kc'.secrets) ∧
    (∀ h, (assocGet h kc.cache).isSome = true → (assocGet h kc'.cache).isSome = true) := by
  unfold Keychain.addSecret at ha
  obtain ⟨a1, a2, _, hc, hu, _, _, a4⟩ := addKeyToCache_spec ha
  simp only at a1 a2 a4
  refine ⟨a1, ?_, ?_, ?_⟩
  · rw [a2]; split
    · assumption
    · simp
  · intro k' hk'; rw [a2]; split
    · exact hk'
    · exact List.mem_append_left _ hk'
  · intro h hs; rw [a4]; exact assocGet_isSome_append h _ _ hs


/-- the seeded-defect shape, spelled out: a lookup that misses, then `add_secret` of the master whose registered sub-key
hashes to `h`, then the same lookup: it answers -/
theorem C05_keychain_miss_then_hit (derive : KeyRec → String → Option KeyRec) (kc kc1 kc2 kc3 : Keychain) (h : Bytes)
    (path : String) (fp : Bytes) (k sub : KeyRec) (r : Option Entry)
    (hpath : kc.paths.find? (·.1 = h) = some (h, path, fp))
    (hmiss : Keychain.get derive kc h = .ok (kc1, none))
    (hadd : kc1.addSecret k = .ok kc2)
    (hfp : k.fingerprint = fp) (hd : derive k path = some sub)
    (hh : keyHash160 sub true = .ok h ∨ keyHash160 sub false = .ok h)
    (hg : Keychain.get derive kc2 h = .ok (kc3, r)) : r.isSome = true := by
  obtain ⟨p1, _, _, _, _⟩ := C05_keychain_get_spec derive kc kc1 h none hmiss
  obtain ⟨p2, hk, _, _⟩ := C05_keychain_add_secret kc1 kc2 k hadd
  exact C05_keychain_no_negative_cache derive kc2 h path fp k sub (by rw [p2, p1]; exact hpath) hk hfp hd hh kc3 r hg

/-! ## frame -/

/-- what signing must never touch in an input -/
def frameOf (t : TxIn) : Bytes × Int × Int := (t.prevHash, t.prevIndex, t.sequence)

theorem mem_insertNat (a b : Nat) (l : List Nat) : b ∈ insertNat a l ↔ b = a ∨ b ∈ l := by
  induction l with
  | nil => simp [insertNat]
  | cons c r ih =>
    simp only [insertNat]
    split
    · simp
    · simp [ih]; constructor
      · rintro (h | h | h) <;> simp [h]
      · rintro (h | h | h) <;> simp [h]

theorem mem_sortNat (b : Nat) (l : List Nat) : b ∈ sortNat l ↔ b ∈ l := by
  induction l with
  | nil => simp [sortNat]
  | cons a r ih => simp [sortNat, mem_insertNat, ih]

/-- one pass either leaves the inputs alone or rewrites script and witness of input `idx`, and only when it is not valid -/
theorem signOne_frame {a : SignArgs} {us : List (Option TxOut)} {ins ins' : List TxIn} {idx : Nat}
    (h : signOne a us ins idx = .ok ins') :
    ins'.length = ins.length ∧
    (∀ j, (j ≠ idx ∨ a.valid idx = true) → ins'[j]? = ins[j]?) ∧
    (∀ j : Nat, (ins'[j]?).map frameOf = (ins[j]?).map frameOf) := by
  unfold signOne at h
  split at h
  · cases h
  · rename_i tin htin
    split at h
    · cases h; simp
    · rename_i hv
      have key : ∀ (t' : TxIn), frameOf t' = frameOf tin →
          (ins.set idx t').length = ins.length ∧
          (∀ j, (j ≠ idx ∨ a.valid idx = true) → (ins.set idx t')[j]? = ins[j]?) ∧
          (∀ j : Nat, ((ins.set idx t')[j]?).map frameOf = (ins[j]?).map frameOf) := by
        intro t' ht'
        refine ⟨by simp, ?_, ?_⟩
        · intro j hj
          rcases hj with hj | hj
          · rw [List.getElem?_set_ne (Ne.symm hj)]
          · exact absurd hj hv
        · intro j
          by_cases hj : idx = j
          · subst hj
            rw [List.getElem?_set_self' ]
            simp [htin, ht']
          · rw [List.getElem?_set_ne hj]
      split at h <;> simp only [] at h <;> split at h
      all_goals first
        | (cases h; exact key _ rfl)
        | (split at h
           · cases h; simp
           · cases h)

theorem signLoopTx_frame {a : SignArgs} {us : List (Option TxOut)} :
    ∀ (idxs : List Nat) {ins ins' : List TxIn}, signLoopTx a us idxs ins = .ok ins' →
    ins'.length = ins.length ∧
    (∀ j, (j ∉ idxs ∨ a.valid j = true) → ins'[j]? = ins[j]?) ∧
    (∀ j : Nat, (ins'[j]?).map frameOf = (ins[j]?).map frameOf) := by
  intro idxs
  induction idxs with
  | nil => intro ins ins' h; simp [signLoopTx] at h; subst h; simp
  | cons i r ih =>
    intro ins ins' h
    simp only [signLoopTx] at h
    split at h
    · cases h
    · rename_i mid hmid
      obtain ⟨l1, u1, f1⟩ := signOne_frame hmid
      obtain ⟨l2, u2, f2⟩ := ih h
      refine ⟨by omega, ?_, ?_⟩
      · intro j hj
        have hj2 : j ∉ r ∨ a.valid j = true := by
          rcases hj with hj | hj
          · left; intro hm; exact hj (List.mem_cons_of_mem _ hm)
          · right; exact hj
        rw [u2 j hj2]
        apply u1
        rcases hj with hj | hj
        · left; intro he; apply hj; simp [he]
        · by_cases he : j = i
          · right; rw [← he]; exact hj
          · left; exact he
      · intro j; rw [f2 j, f1 j]

/-- the inputs `Solver.sign` is asked to look at -/
def chosen (a : SignArgs) (i : Nat) : Prop :=
  match a.subset with
  | none => True
  | some l => i ∈ l

/-- **Frame.**  Signing returns a transaction with the same version, lock time, outputs and number of inputs; every input
keeps its outpoint and sequence; an input that was not asked for (explicit subset, including the explicitly empty one) or
that was already valid is returned unchanged, script and witness included. -/
theorem C05_sign_frame (a : SignArgs) (tx tx' : Tx) (us : List (Option TxOut)) (h : signTx a tx us = .ok tx') :
    tx'.version = tx.version ∧ tx'.lockTime = tx.lockTime ∧ tx'.outs = tx.outs ∧ tx'.ins.length = tx.ins.length ∧
    (∀ j : Nat, (tx'.ins[j]?).map frameOf = (tx.ins[j]?).map frameOf) ∧
    (∀ j, (¬ chosen a j ∨ a.valid j = true) → tx'.ins[j]? = tx.ins[j]?) := by
  unfold signTx at h
  simp only at h
  split at h
  · cases h
  · split at h
    · cases h
    · rename_i ins hins
      cases h
      obtain ⟨l, u, f⟩ := signLoopTx_frame _ hins
      refine ⟨rfl, rfl, rfl, l, f, ?_⟩
      intro j hj
      apply u
      rcases hj with hj | hj
      · left
        unfold chosen at hj
        split at hj
        · exact absurd trivial hj
        · rename_i l' hl'
          simp only [hl', mem_sortNat]
          exact hj
      · right; exact hj

/-- the explicitly empty subset signs nothing at all -/
theorem C05_sign_frame_empty (a : SignArgs) (tx tx' : Tx) (us : List (Option TxOut)) (hs : a.subset = some [])
    (h : signTx a tx us = .ok tx') : tx' = tx := by
  unfold signTx at h
  simp only [hs, sortNat, signLoopTx] at h
  split at h
  · cases h
  · cases h; rfl


/-! ## the solver's symbolic machinery (`Model/Constraints.lean`, `Model/ConstraintSolver.lean`) -/

section machinery
open Pycoin.Solve

/-- **Constraints of P2PKH.**  `determine_constraints` on `DUP HASH160 <h> EQUALVERIFY CHECKSIG`, whatever the p2sh lookup: the
key is the first atom the empty stack invents (`OP_DUP`), `OP_HASH160` and `OP_EQUALVERIFY` go symbolic on it, `OP_CHECKSIG`
invents the signature atom. -/
theorem C05_constraints_p2pkh (p2sh : Bytes → Option Bytes) (ctx : VM.TxCtx) (h : Bytes) (hlen : h.length = 20) :
    determineConstraints p2sh ctx (p2pkhScript h) =
      .ok [.equal (.const h) (.hash160 (.atom (.x 0))), .isPubkey (.atom (.x 0)), .isSignature (.atom (.x 1)),
           .sigsCorrect [.atom (.x 0)] [.atom (.x 1)] false (p2pkhScript h)] :=
  determineConstraints_bare p2sh ctx _ _ (baseRun_p2pkh h hlen) (scriptHash_p2pkh h) (version_p2pkh h)

/-- **Constraints of P2PK.** -/
theorem C05_constraints_p2pk (p2sh : Bytes → Option Bytes) (ctx : VM.TxCtx) (key : Bytes) (h1 : 1 ≤ key.length)
    (h75 : key.length ≤ 75) :
    determineConstraints p2sh ctx (p2pkScript key) =
      .ok [.isPubkey (.const key), .isSignature (.atom (.x 0)), .sigsCorrect [.const key] [.atom (.x 0)] false (p2pkScript key)] :=
  determineConstraints_bare p2sh ctx _ _ (baseRun_p2pk key h1 h75) (scriptHash_p2pk key h75) (version_p2pk key h1 h75)

/-- **Constraints of bare m-of-n multisig, every `1 ≤ m ≤ n ≤ 20`** (induction on the key list): one `IS_PUBKEY` per key, last
key first; `IS_SIGNATURE` for the atoms `x_0 … x_{m-1}`; the dummy `EQUAL(x_m, b"")`; `SIGNATURES_CORRECT` over the reversed key
list and the `m` signature atoms, with the legacy sighash closure of the whole script. -/
theorem C05_constraints_multisig (p2sh : Bytes → Option Bytes) (ctx : VM.TxCtx) (m : Nat) (keys : List Bytes) (hm1 : 1 ≤ m)
    (hmn : m ≤ keys.length) (hn : keys.length ≤ 20) (hkeys : ∀ k ∈ keys, 1 ≤ k.length ∧ k.length ≤ 75) :
    determineConstraints p2sh ctx (multisigScriptN m keys) =
      .ok (keys.reverse.map (fun k => .isPubkey (.const k)) ++
        (List.range' 0 m).map (fun i => .isSignature (.atom (.x i))) ++
        [.equal (.atom (.x m)) (.const []),
         .sigsCorrect (keys.reverse.map Leaf.const) ((List.range' 0 m).map (fun i => Leaf.atom (.x i))) false
           (multisigScriptN m keys)]) := by
  rw [determineConstraints_bare p2sh ctx _ _ (baseRun_multisig m keys hm1 hmn hn hkeys) (scriptHash_multisig m keys (by omega))
    (version_multisig m keys hm1 (by omega) (by omega) hkeys)]
  simp [multisigConstraints, freshAtoms, Atom.mk, List.map_map, Function.comp_def]

/-- **Constraints under the wrappers** (P2SH, P2WSH, P2SH-P2WSH), for any base script whose own stage is known — in particular
m-of-n multisig for every `1 ≤ m ≤ n ≤ 20`: the base script's constraints with the atoms numbered from 1 (`x_…` under P2SH,
`w_…` under a witness script, BIP143 closure there), then `EQUAL(x_0, redeem script)` and/or `EQUAL(w_0, witness script)`. -/
theorem C05_constraints_wrapped (w : Wrap) (p2sh : Bytes → Option Bytes) (ctx : VM.TxCtx) (ms : Bytes)
    (cs : Nat → Bool → Bool → List Term) (hrun : BaseRun ms cs) (hk : LookupKnows p2sh w ms) (hsz : WrapSizes w ms)
    (hsh : scriptHash ms = none) (hv : VM.witnessProgramVersion ms = none) :
    determineConstraints p2sh ctx (w.spk ms) =
      .ok (match w with
        | .bare => cs 0 false false
        | .p2sh => cs 1 false false ++ [.equal (.atom (.x 0)) (.const ms)]
        | .p2wsh => cs 1 true true ++ [.equal (.atom (.w 0)) (.const ms)]
        | .p2shP2wsh => cs 1 true true ++
            [.equal (.atom (.x 0)) (.const (witnessV0Script (Hash.sha256 ms))), .equal (.atom (.w 0)) (.const ms)]) := by
  cases w with
  | bare => exact determineConstraints_bare p2sh ctx ms cs hrun hsh hv
  | p2sh => exact determineConstraints_p2sh p2sh ctx _ ms (hsz.h160 rfl).1 cs hrun hk (hsz.h160 rfl).2 hv
  | p2wsh => exact determineConstraints_p2wsh p2sh ctx _ ms (hsz.sha rfl) cs hrun hk rfl
  | p2shP2wsh => exact determineConstraints_p2sh_p2wsh p2sh ctx _ _ ms (hsz.h160w rfl) (hsz.sha rfl) cs hrun hk.1 hk.2 rfl

/-- the stage of `m <key>… n CHECKMULTISIG`, for `C05_constraints_wrapped` -/
theorem C05_constraints_multisig_stage (m : Nat) (keys : List Bytes) (hm1 : 1 ≤ m) (hmn : m ≤ keys.length) (hn : keys.length ≤ 20)
    (hkeys : ∀ k ∈ keys, 1 ≤ k.length ∧ k.length ≤ 75) :
    BaseRun (multisigScriptN m keys) (fun r isW wit => multisigConstraints m keys isW r wit) ∧
      scriptHash (multisigScriptN m keys) = none ∧ VM.witnessProgramVersion (multisigScriptN m keys) = none :=
  ⟨baseRun_multisig m keys hm1 hmn hn hkeys, scriptHash_multisig m keys (by omega),
    version_multisig m keys hm1 (by omega) (by omega) hkeys⟩

/-- **Constraints of P2WPKH and P2SH-P2WPKH**: the P2PKH script of the program run on the witness stack `[w_1, w_0]` with the
BIP143 closure; under P2SH also `EQUAL(x_0, OP_0 <program>)`. -/
theorem C05_constraints_p2wpkh (p2sh : Bytes → Option Bytes) (ctx : VM.TxCtx) (prog : Bytes) (hlen : prog.length = 20) :
    determineConstraints p2sh ctx (witnessV0Script prog) =
      .ok [.equal (.const prog) (.hash160 (.atom (.w 0))), .isPubkey (.atom (.w 0)), .isSignature (.atom (.w 1)),
           .sigsCorrect [.atom (.w 0)] [.atom (.w 1)] true (p2pkhScript prog)] :=
  determineConstraints_p2wpkh p2sh ctx prog hlen

theorem C05_constraints_p2sh_p2wpkh (p2sh : Bytes → Option Bytes) (ctx : VM.TxCtx) (h prog : Bytes) (hlen : h.length = 20)
    (hplen : prog.length = 20) (hl : p2sh h = some (witnessV0Script prog)) :
    determineConstraints p2sh ctx (p2shScript h) =
      .ok [.equal (.const prog) (.hash160 (.atom (.w 0))), .isPubkey (.atom (.w 0)), .isSignature (.atom (.w 1)),
           .sigsCorrect [.atom (.w 0)] [.atom (.w 1)] true (p2pkhScript prog),
           .equal (.atom (.x 0)) (.const (witnessV0Script prog))] :=
  determineConstraints_p2sh_p2wpkh p2sh ctx h prog hlen hplen hl

/-- a missing redeem or witness script is the `ValueError` of `determine_constraints` (which `Solver.sign` swallows) -/
theorem C05_constraints_p2sh_unknown (p2sh : Bytes → Option Bytes) (ctx : VM.TxCtx) (h : Bytes) (hlen : h.length = 20)
    (hl : p2sh h = none) : determineConstraints p2sh ctx (p2shScript h) = .error .value := by
  simp [determineConstraints, scriptHash_p2sh h hlen, hl]

/-- **The solver loop on the constraints of the base templates** (with the closing constraints `EQUAL(x_0, …)`, `EQUAL(w_0, …)` of
the wrappers, `cx`/`cw`): which solver fires on which constraint, in the registered order, and what it assigns — the lists
`solve_for_constraints` returns are `solveBase`'s items (atoms by descending number), split by atom letter. -/
theorem C05_solve_constraints_multisig (a : SolveArgs) (ex : List Bytes) (m : Nat) (keys : List Bytes) (isW : Bool) (r : Nat)
    (wit : Bool) (cx cw : Option Bytes) (ph : Bytes) (hph : a.placeholder = some ph)
    (hpos : ((isW = false ∧ cx.isSome) ∨ (isW = true ∧ cw.isSome)) → 0 < r) :
    solveForConstraints a ex (multisigConstraints m keys isW r wit ++ closingTerms cx cw) =
      match solveBase a.C a.lookup (a.sighash wit (multisigScriptN m keys)) ex a.ht a.placeholder (.multisig m keys) with
      | .error e => .error e
      | .ok items => .ok (splitByLetter isW items cx cw) :=
  solveFor_multisig a ex m keys isW r wit cx cw ph hph hpos

theorem C05_solve_constraints_p2pkh (a : SolveArgs) (ex : List Bytes) (h : Bytes) (k g : Atom) (wit : Bool) (cx cw : Option Bytes)
    (ph : Bytes) (hph : a.placeholder = some ph) (hkg : k.number < g.number) (hl : k.isW = g.isW)
    (hpos : ((g.isW = false ∧ cx.isSome) ∨ (g.isW = true ∧ cw.isSome)) → 0 < k.number) :
    solveForConstraints a ex (p2pkhConstraints h k g wit ++ closingTerms cx cw) =
      match solveBase a.C a.lookup (a.sighash wit (p2pkhScript h)) ex a.ht a.placeholder (.p2pkh h) with
      | .error e => .error e
      | .ok items => .ok (splitByLetter g.isW items cx cw) :=
  solveFor_p2pkh a ex h k g wit cx cw ph hph hkg hl hpos

theorem C05_solve_constraints_p2pk (a : SolveArgs) (ex : List Bytes) (key : Bytes) (g : Atom) (wit : Bool) (cx cw : Option Bytes)
    (ph : Bytes) (hph : a.placeholder = some ph)
    (hpos : ((g.isW = false ∧ cx.isSome) ∨ (g.isW = true ∧ cw.isSome)) → 0 < g.number) :
    solveForConstraints a ex (p2pkConstraints key g wit ++ closingTerms cx cw) =
      match solveBase a.C a.lookup (a.sighash wit (p2pkScript key)) ex a.ht a.placeholder (.p2pk key) with
      | .error e => .error e
      | .ok items => .ok (splitByLetter g.isW items cx cw) :=
  solveFor_p2pk a ex key g wit cx cw ph hph hpos

/-- **The machinery returns what the result-level model returns: m-of-n multisig, every `1 ≤ m ≤ n ≤ 20`, the four wrappers.**
`Solve.solve` = `determine_constraints` (symbolic run) + `solve_for_constraints` (pattern matching, solver loop) +
`compile_push_data_list`; the right-hand side is `Sign.solve`'s branch for the wrapper, over `solveBase`. -/
theorem C05_solve_machinery_multisig (w : Wrap) (a : SolveArgs) (ctx : VM.TxCtx) (m : Nat) (keys : List Bytes) (ph : Bytes)
    (script : Bytes) (witness : List Bytes) (hph : a.placeholder = some ph)
    (hm1 : 1 ≤ m) (hmn : m ≤ keys.length) (hn : keys.length ≤ 20) (hkeys : ∀ k ∈ keys, 1 ≤ k.length ∧ k.length ≤ 75)
    (hk : LookupKnows a.p2sh w (multisigScriptN m keys)) (hsz : WrapSizes w (multisigScriptN m keys)) :
    Solve.solve a ctx (w.spk (multisigScriptN m keys)) script witness =
      match existingScript script witness with
      | .error e => .error e
      | .ok existing =>
        match solveBase a.C a.lookup (a.sighash w.witness (multisigScriptN m keys)) existing a.ht a.placeholder (.multisig m keys) with
        | .error e => .error e
        | .ok items =>
          match pushAll (wrapPushes w (multisigScriptN m keys) items) with
          | .error e => .error e
          | .ok sc => .ok (sc, if w.witness then some (items ++ [some (multisigScriptN m keys)]) else none) :=
  solve_wrap w a ctx _ _ (baseOK_multisig a ph hph m keys hm1 hmn hn hkeys) script witness hk hsz
    (scriptHash_multisig m keys (by omega)) (version_multisig m keys hm1 (by omega) (by omega) hkeys)

/-- **… P2PKH** (bare; under a wrapper: `solve_wrap` with `baseOK_p2pkh`) -/
theorem C05_solve_machinery_p2pkh (a : SolveArgs) (ctx : VM.TxCtx) (h ph : Bytes) (script : Bytes) (witness : List Bytes)
    (hph : a.placeholder = some ph) (hlen : h.length = 20) :
    Solve.solve a ctx (p2pkhScript h) script witness =
      match existingScript script witness with
      | .error e => .error e
      | .ok existing =>
        match solveBase a.C a.lookup (a.sighash false (p2pkhScript h)) existing a.ht a.placeholder (.p2pkh h) with
        | .error e => .error e
        | .ok items =>
          match pushAll items with
          | .error e => .error e
          | .ok sc => .ok (sc, none) :=
  solve_bare a ctx _ _ (baseOK_p2pkh a ph hph h hlen) script witness (scriptHash_p2pkh h) (version_p2pkh h)

/-- **… P2PK** -/
theorem C05_solve_machinery_p2pk (a : SolveArgs) (ctx : VM.TxCtx) (key ph : Bytes) (script : Bytes) (witness : List Bytes)
    (hph : a.placeholder = some ph) (h1 : 1 ≤ key.length) (h75 : key.length ≤ 75) :
    Solve.solve a ctx (p2pkScript key) script witness =
      match existingScript script witness with
      | .error e => .error e
      | .ok existing =>
        match solveBase a.C a.lookup (a.sighash false (p2pkScript key)) existing a.ht a.placeholder (.p2pk key) with
        | .error e => .error e
        | .ok items =>
          match pushAll items with
          | .error e => .error e
          | .ok sc => .ok (sc, none) :=
  solve_bare a ctx _ _ (baseOK_p2pk a ph hph key h1 h75) script witness (scriptHash_p2pk key h75) (version_p2pk key h1 h75)

/-- **… P2WPKH** -/
theorem C05_solve_machinery_p2wpkh (a : SolveArgs) (ctx : VM.TxCtx) (prog ph : Bytes) (script : Bytes) (witness : List Bytes)
    (hph : a.placeholder = some ph) (hlen : prog.length = 20) :
    Solve.solve a ctx (witnessV0Script prog) script witness =
      match existingScript script witness with
      | .error e => .error e
      | .ok existing =>
        match solveBase a.C a.lookup (a.sighash true (p2pkhScript prog)) existing a.ht a.placeholder (.p2pkh prog) with
        | .error e => .error e
        | .ok items => .ok ([], some items) :=
  solve_p2wpkh a ctx prog ph hph script witness hlen

/-- **… P2SH-P2WPKH** -/
theorem C05_solve_machinery_p2sh_p2wpkh (a : SolveArgs) (ctx : VM.TxCtx) (h prog ph : Bytes) (script : Bytes)
    (witness : List Bytes) (hph : a.placeholder = some ph) (hlen : h.length = 20) (hplen : prog.length = 20)
    (hl : a.p2sh h = some (witnessV0Script prog)) :
    Solve.solve a ctx (p2shScript h) script witness =
      match existingScript script witness with
      | .error e => .error e
      | .ok existing =>
        match solveBase a.C a.lookup (a.sighash true (p2pkhScript prog)) existing a.ht a.placeholder (.p2pkh prog) with
        | .error e => .error e
        | .ok items =>
          match pushAll [some (witnessV0Script prog)] with
          | .error e => .error e
          | .ok sc => .ok (sc, some items) :=
  solve_p2sh_p2wpkh a ctx h prog ph hph script witness hlen hplen hl

/-- **Unsolvable ⇒ untouched.**  Whatever the puzzle: when the machinery ends with an exception `Solver.sign` catches
(`SolvingError`: the hash lookup misses the key; `ValueError`: the redeem or witness script is not in the p2sh lookup, a key
does not decode, …) the pass leaves every input as it was; when it produces a solution, only script and witness of that input
change. -/
theorem C05_solve_machinery_frame (a : SignArgs) (ctx : Nat → VM.TxCtx) (us : List (Option TxOut)) (ins ins' : List TxIn)
    (idx : Nat) (h : Solve.signOne a ctx us ins idx = .ok ins') :
    ins' = ins ∨ ∃ tin sc w, ins[idx]? = some tin ∧ a.valid idx = false ∧ ins' = ins.set idx { tin with script := sc, witness := w } := by
  unfold Solve.signOne at h
  cases hi : ins[idx]? with
  | none => rw [hi] at h; cases h
  | some tin =>
    rw [hi] at h
    simp only [] at h
    by_cases hv : a.valid idx = true
    · simp only [hv, if_true] at h; cases h; exact Or.inl rfl
    · simp only [hv, Bool.false_eq_true, if_false] at h
      split at h
      · cases h; exact Or.inr ⟨tin, _, tin.witness, rfl, by simpa using hv, rfl⟩
      · split at h
        · cases h; exact Or.inr ⟨tin, _, _, rfl, by simpa using hv, rfl⟩
        · cases h
      · split at h
        · cases h; exact Or.inl rfl
        · cases h

/-- the P2PKH instance: a lookup that does not hold the key makes the machinery raise `SolvingError` (out of
`hash_lookup_solver`), so `Solver.sign` leaves the input alone -/
theorem C05_solve_machinery_missing_key (a : SolveArgs) (ctx : VM.TxCtx) (h ph : Bytes) (script : Bytes) (witness : List Bytes)
    (ex : List Bytes) (hph : a.placeholder = some ph) (hlen : h.length = 20) (hl : a.lookup h = none)
    (hex : existingScript script witness = .ok ex) :
    Solve.solve a ctx (p2pkhScript h) script witness = .error .solving ∧ Err.caughtBySign .solving = true := by
  rw [C05_solve_machinery_p2pkh a ctx h ph script witness hph hlen, hex]
  simp [solveBase, hl, Err.caughtBySign]


/-- what `Solver.sign` hands to `solve` for input `idx`: the secp256k1 operations (C01), the digest of C04's model, the default
placeholder `ph` -/
def machineryArgs (coin : Coin) (tx : Tx) (us : List (Option TxOut)) (idx : Nat) (lookup : Lookup) (p2sh : Bytes → Option Bytes)
    (ht : Nat) (ph : Bytes) : SolveArgs :=
  { C := secp256k1Crypto, lookup := lookup, p2sh := p2sh, sighash := modelSighash coin tx us idx, ht := ht, placeholder := some ph }

/-- **m-of-n multisig, end to end, from the machinery** (the four wrappers, every `1 ≤ m ≤ n ≤ 20`): under the hypotheses of
`C05_multisig_end_to_end` and a p2sh lookup that holds the wrapper's scripts, the symbolic run + solver loop + push compiler
write, for a fresh input, exactly the scriptSig and witness (`Wrap.scriptSig`, `Wrap.wit`) that the consensus specification
accepts — the dummy and the signatures of the first `m` listed keys the lookup holds. -/
theorem C05_solve_machinery_multisig_end_to_end (w : Wrap) (coin : Coin) (tx : Tx) (us : List (Option TxOut)) (idx : Nat)
    (lookup : Lookup) (p2sh : Bytes → Option Bytes) (ctx : VM.TxCtx)
    (ph : Bytes) (m : Nat) (keys : List Bytes) (d x y : Nat → Int) (comp : Nat → Bool) (sg : Nat → Bytes) (z : Int) (ht : Nat)
    (flags : Flags) (txc : TxCtx)
    (hm1 : 1 ≤ m) (hmn : m ≤ keys.length) (hn : keys.length ≤ 20)
    (HK : HonestKeys keys.reverse d x y comp)
    (hz : modelSighash coin tx us idx w.witness (multisigScriptN m keys) ht = some z)
    (hsg : SignsWith keys.reverse d z ht sg) (hl : LookupFor keys.reverse d lookup)
    (henough : m ≤ card keys.reverse.length (inTOf lookup keys.reverse))
    (hht : ht ≤ 255) (hstd : standardHashType ht ∨ flags.strictenc = false)
    (hcomp : w.witness = true → ∀ i, comp i = true)
    (ok : w.Ok (multisigScriptN m keys) flags) (hph : 2 ≤ ph.length ∧ ph.length ≤ 75)
    (hcode : ∀ sigs, (∀ s ∈ sigs, Canonical ht s) → CodeIs w (multisigScriptN m keys) flags txc sigs)
    (hk : LookupKnows p2sh w (multisigScriptN m keys)) :
    ∃ sgn : Nat → Bool, card keys.reverse.length sgn = m ∧ (∀ i, sgn i = true → inTOf lookup keys.reverse i = true) ∧
      Solve.solve (machineryArgs coin tx us idx lookup p2sh ht ph) ctx (w.spk (multisigScriptN m keys)) [] [] =
        .ok (w.scriptSig (multisigScriptN m keys) (stateSolved keys.reverse.length m sg ph sgn),
             if w.witness then some ((w.wit (multisigScriptN m keys) (stateSolved keys.reverse.length m sg ph sgn)).map some) else none) ∧
      verifyScript (realChk coin tx us idx)
        (w.scriptSig (multisigScriptN m keys) (stateSolved keys.reverse.length m sg ph sgn))
        (w.spk (multisigScriptN m keys))
        (w.wit (multisigScriptN m keys) (stateSolved keys.reverse.length m sg ph sgn)) flags txc = none := by
  obtain ⟨sgn, hcard, hsub, hsolve, hver⟩ := C05_multisig_end_to_end w coin tx us idx lookup ph m keys d x y comp sg z ht flags txc
    hm1 hmn hn HK hz hsg hl henough hht hstd hcomp ok hph hcode
  refine ⟨sgn, hcard, hsub, ?_, hver⟩
  have hs := sizesOk_of HK hsg hht hph
  have hkeys : ∀ k ∈ keys, 1 ≤ k.length ∧ k.length ≤ 75 := fun k hk' => ⟨by have := (hs.1 k hk').1; omega, (hs.1 k hk').2⟩
  have hsz : WrapSizes w (multisigScriptN m keys) := ⟨ok.h160, fun h => (ok.wit h).2.1, ok.h160w⟩
  have hlen := multisig_length_le m keys hn (fun k hk' => (hkeys k hk').2)
  rw [C05_solve_machinery_multisig w _ ctx m keys ph [] [] rfl hm1 hmn hn hkeys hk hsz, existingScript_fresh]
  simp only [machineryArgs]
  rw [hsolve]
  simp only
  rw [pushAll_wrap w _ _ hsz (stateSolved_items m keys sg ph sgn hs) ok.inner.2.2 (by omega)]
  cases hw : w.witness <;> simp [Wrap.wit, hw]

/-- **P2WPKH, end to end, from the machinery**: under the hypotheses of `C05_p2wpkh_end_to_end` the machinery writes an empty
scriptSig and the witness `[sig, key]` that the consensus specification accepts. -/
theorem C05_solve_machinery_p2wpkh_end_to_end (coin : Coin) (tx : Tx) (us : List (Option TxOut)) (idx : Nat) (lookup : Lookup)
    (p2sh : Bytes → Option Bytes) (ctx : VM.TxCtx) (ph : Bytes)
    (d x y z : Int) (key h : Bytes) (ht : Nat) (flags : Flags) (txc : TxCtx)
    (hpub : mulG k1 0 d = .ok (some (x, y))) (hkey : publicPairToSec x y true = .ok key)
    (hh : Hash.hash160 key = h) (hlen : h.length = 20) (htrue : castToBool h = true)
    (hl : lookup h = some ⟨d, x, y, true⟩)
    (hz : modelSighash coin tx us idx true (p2pkhScript h) ht = some z)
    (hsign : ∃ r s, secp256k1Crypto.sign d z = .ok (r, s))
    (hw : flags.witness = true) (hht : ht ≤ 255) (hstd : standardHashType ht ∨ flags.strictenc = false) :
    ∃ sig, Solve.solve (machineryArgs coin tx us idx lookup p2sh ht ph) ctx (witnessV0Script h) [] [] = .ok ([], some [some sig, some key]) ∧
      verifyScript (realChk coin tx us idx) [] (witnessV0Script h) [sig, key] flags txc = none := by
  obtain ⟨sig, hsolve, hver⟩ := C05_p2wpkh_end_to_end coin tx us idx lookup ph d x y z key h ht flags txc hpub hkey hh hlen htrue
    hl hz hsign hw hht hstd
  refine ⟨sig, ?_, hver⟩
  rw [C05_solve_machinery_p2wpkh _ ctx h ph [] [] rfl hlen, existingScript_fresh]
  simp only [machineryArgs]
  rw [hsolve]

/-- **P2PKH, end to end, from the machinery** (hypotheses of `C05_p2pkh_end_to_end`). -/
theorem C05_solve_machinery_p2pkh_end_to_end (coin : Coin) (tx : Tx) (us : List (Option TxOut)) (idx : Nat) (lookup : Lookup)
    (p2sh : Bytes → Option Bytes) (ctx : VM.TxCtx) (ph : Bytes)
    (d x y z : Int) (comp : Bool) (key h : Bytes) (ht : Nat) (flags : Flags) (txc : TxCtx)
    (hpub : mulG k1 0 d = .ok (some (x, y))) (hkey : publicPairToSec x y comp = .ok key)
    (hh : Hash.hash160 key = h) (hlen : h.length = 20)
    (hl : lookup h = some ⟨d, x, y, comp⟩)
    (hz : modelSighash coin tx us idx false (p2pkhScript h) ht = some z)
    (hsign : ∃ r s, secp256k1Crypto.sign d z = .ok (r, s))
    (hht : ht ≤ 255) (hstd : standardHashType ht ∨ flags.strictenc = false)
    (hfd : ∀ sig, Canonical ht sig →
      scriptCodeFor ⟨p2pkhScript h, flags, .base, txc⟩ ⟨[], [], [], 0, 0⟩ [sig] = p2pkhScript h) :
    ∃ scriptSig, Solve.solve (machineryArgs coin tx us idx lookup p2sh ht ph) ctx (p2pkhScript h) [] [] = .ok (scriptSig, none) ∧
      verifyScript (realChk coin tx us idx) scriptSig (p2pkhScript h) [] flags txc = none := by
  obtain ⟨sig, sc, hsolve, hpush, hver⟩ := C05_p2pkh_end_to_end coin tx us idx lookup ph d x y z comp key h ht flags txc hpub hkey
    hh hlen hl hz hsign hht hstd hfd
  refine ⟨sc, ?_, hver⟩
  rw [C05_solve_machinery_p2pkh _ ctx h ph [] [] rfl hlen, existingScript_fresh]
  simp only [machineryArgs]
  rw [hsolve]
  simp only
  rw [hpush]

/-! ### the machinery and the result-level `Sign.solve` -/

theorem sign_scriptHash_p2sh (h : Bytes) (hlen : h.length = 20) : scriptHashFromScript (p2shScript h) = some h := by
  have hl : (p2shScript h).length = 23 := by simp [p2shScript, directPush, hlen]
  have hlast : (p2shScript h).getLast? = some 0x87 := by
    rw [show p2shScript h = (0xa9 :: directPush h) ++ [0x87] from by simp [p2shScript], List.getLast?_concat]
  have h1 : (p2shScript h)[1]? = some 0x14 := by simp [p2shScript, directPush, hlen]
  have h0 : (p2shScript h).head? = some 0xa9 := by simp [p2shScript]
  simp only [scriptHashFromScript, hl, hlast, h1, h0, and_self, if_true]
  simp [p2shScript, directPush, slice, hlen]

theorem sign_scriptHash_none (b : UInt8) (tl : Bytes) (hb : b ≠ 0xa9) : scriptHashFromScript (b :: tl) = none := by
  simp [scriptHashFromScript, hb]

theorem sign_isWitnessV0_false (b : UInt8) (tl : Bytes) (hb : b ≠ 0) : isWitnessV0 (b :: tl) = false := by
  unfold isWitnessV0
  cases tl with
  | nil => simp
  | cons c t => simp [hb]

theorem sign_isWitnessV0_true (prog : Bytes) (h2 : 2 ≤ prog.length) (h40 : prog.length ≤ 40) :
    isWitnessV0 (witnessV0Script prog) = true := by
  have hb : (UInt8.ofNat prog.length).toNat = prog.length := by rw [UInt8.toNat_ofNat']; omega
  have hl : (witnessV0Script prog).length = prog.length + 2 := by simp [witnessV0Script, directPush]
  unfold isWitnessV0
  rw [hl]
  simp [witnessV0Script, directPush, hb]
  omega

/-- the machinery's answer in the vocabulary of `Sign.solve`: unsolved witness items dropped -/
def dropNone (r : Bytes × Option (List (Option Bytes))) : Bytes × Option (List Bytes) := (r.1, r.2.map (fun l => l.filterMap id))

/-- **The machinery agrees with the result-level model `Sign.solve`** on a base script under any of the four wrappers
(`_partial`: `hcl` — that `Sign.classify`, the result-level model's own template recogniser, classifies the base script as the
template — is a hypothesis here; the machinery itself does not classify anything). -/
theorem C05_solve_machinery_eq_result_model_partial (w : Wrap) (a : SolveArgs) (ctx : VM.TxCtx) (ms : Bytes) (base : Base)
    (hb : BaseOK a ms base) (script : Bytes) (witness : List Bytes) (hk : LookupKnows a.p2sh w ms) (hsz : WrapSizes w ms)
    (hsh : scriptHash ms = none) (hv : VM.witnessProgramVersion ms = none)
    (hhead : ∃ b tl, ms = b :: tl ∧ b ≠ 0xa9 ∧ b ≠ 0) (hcl : classify ms = some base) :
    (Solve.solve a ctx (w.spk ms) script witness).map dropNone = Sign.solve a (w.spk ms) script witness := by
  obtain ⟨b, tl, hms, hb9, hb0⟩ := hhead
  have hsn : scriptHashFromScript ms = none := by rw [hms]; exact sign_scriptHash_none b tl hb9
  have hw0 : isWitnessV0 ms = false := by rw [hms]; exact sign_isWitnessV0_false b tl hb0
  rw [solve_wrap w a ctx ms base hb script witness hk hsz hsh hv]
  unfold Sign.solve
  cases existingScript script witness with
  | error e => rfl
  | ok existing =>
    simp only []
    cases w with
    | bare =>
      simp only [Wrap.spk, Wrap.witness, wrapPushes, hsn, hw0, hcl, Bool.false_eq_true, if_false]
      cases solveBase a.C a.lookup (a.sighash false ms) existing a.ht a.placeholder base with
      | error e => rfl
      | ok items => simp only []; cases pushAll items <;> rfl
    | p2sh =>
      have hkk : a.p2sh (Hash.hash160 ms) = some ms := hk
      simp only [Wrap.spk, Wrap.witness, wrapPushes, sign_scriptHash_p2sh _ (hsz.h160 rfl).1, hkk, hw0, hcl, Bool.false_eq_true,
        if_false]
      cases solveBase a.C a.lookup (a.sighash false ms) existing a.ht a.placeholder base with
      | error e => rfl
      | ok items => simp only []; cases pushAll (items ++ [some ms]) <;> rfl
    | p2wsh =>
      have hkk : a.p2sh (Hash.sha256 ms) = some ms := hk
      have h32 := hsz.sha rfl
      have hs0 : scriptHashFromScript (witnessV0Script (Hash.sha256 ms)) = none := sign_scriptHash_none 0 _ (by decide)
      simp only [Wrap.spk, Wrap.witness, wrapPushes, hs0, sign_isWitnessV0_true _ (show 2 ≤ (Hash.sha256 ms).length by omega) (by omega),
        if_true, solveWitness, witnessV0_drop2, h32, hkk, hcl]
      cases solveBase a.C a.lookup (a.sighash true ms) existing a.ht a.placeholder base with
      | error e => rfl
      | ok items => simp [pushAll, Script.compilePushDataList, dropNone, Except.map]
    | p2shP2wsh =>
      have hk1 := hk.1
      have hk2 := hk.2
      have h32 := hsz.sha rfl
      simp only [Wrap.spk, Wrap.witness, wrapPushes, sign_scriptHash_p2sh _ (hsz.h160w rfl), hk1,
        sign_isWitnessV0_true _ (show 2 ≤ (Hash.sha256 ms).length by omega) (by omega), if_true, solveWitness,
        witnessV0_drop2, h32, hk2, hcl]
      cases solveBase a.C a.lookup (a.sighash true ms) existing a.ht a.placeholder base with
      | error e => rfl
      | ok items =>
        simp only []
        cases pushAll [some (witnessV0Script (Hash.sha256 ms))] <;> simp [dropNone, Except.map]

/-- `hcl` of `C05_solve_machinery_eq_result_model_partial` is satisfiable (evaluation, a test): a 2-of-3 script, keys of 33 and 65 bytes -/
example : classify (multisigScriptN 2 [List.replicate 33 2, List.replicate 65 4, List.replicate 33 3]) =
    some (.multisig 2 [List.replicate 33 2, List.replicate 65 4, List.replicate 33 3]) := by decide +kernel

theorem classify_p2pkh (h : Bytes) (hlen : h.length = 20) : classify (p2pkhScript h) = some (.p2pkh h) := by
  match h, hlen with
  | [h0, h1, h2, h3, h4, h5, h6, h7, h8, h9, h10, h11, h12, h13, h14, h15, h16, h17, h18, h19], _ => rfl

/-- **P2PKH: the machinery agrees with `Sign.solve`** (full: the result-level model recognises the script by pattern) -/
theorem C05_solve_machinery_eq_result_model_p2pkh (a : SolveArgs) (ctx : VM.TxCtx) (h ph : Bytes) (script : Bytes)
    (witness : List Bytes) (hph : a.placeholder = some ph) (hlen : h.length = 20) :
    (Solve.solve a ctx (p2pkhScript h) script witness).map dropNone = Sign.solve a (p2pkhScript h) script witness :=
  C05_solve_machinery_eq_result_model_partial .bare a ctx _ _ (baseOK_p2pkh a ph hph h hlen) script witness trivial
    ⟨(fun h => by cases h), (fun h => by simp [Wrap.witness] at h), (fun h => by cases h)⟩ (scriptHash_p2pkh h) (version_p2pkh h)
    ⟨0x76, [0xa9, 0x14] ++ h ++ [0x88, 0xac], by simp [p2pkhScript], by decide, by decide⟩ (classify_p2pkh h hlen)

/-- **m-of-n multisig, the four wrappers, every `1 ≤ m ≤ n ≤ 20`, keys of 33 or 65 bytes: the machinery agrees with `Sign.solve`**
(full: `classify_multisig` shows that the result-level model recognises the script). -/
theorem C05_solve_machinery_eq_result_model_multisig (w : Wrap) (a : SolveArgs) (ctx : VM.TxCtx) (m : Nat) (keys : List Bytes)
    (ph : Bytes) (script : Bytes) (witness : List Bytes) (hph : a.placeholder = some ph)
    (hm1 : 1 ≤ m) (hmn : m ≤ keys.length) (hn : keys.length ≤ 20) (hkeys : ∀ k ∈ keys, k.length = 33 ∨ k.length = 65)
    (hk : LookupKnows a.p2sh w (multisigScriptN m keys)) (hsz : WrapSizes w (multisigScriptN m keys)) :
    (Solve.solve a ctx (w.spk (multisigScriptN m keys)) script witness).map dropNone =
      Sign.solve a (w.spk (multisigScriptN m keys)) script witness := by
  have hkeys' : ∀ k ∈ keys, 1 ≤ k.length ∧ k.length ≤ 75 := fun k hk' => by rcases hkeys k hk' with e | e <;> omega
  obtain ⟨b, tl, hc, hb9, hb0, _, _⟩ := countPush_head m (by omega)
  exact C05_solve_machinery_eq_result_model_partial w a ctx _ _ (baseOK_multisig a ph hph m keys hm1 hmn hn hkeys') script witness
    hk hsz (scriptHash_multisig m keys (by omega)) (version_multisig m keys hm1 (by omega) (by omega) hkeys')
    ⟨b, tl ++ (pushesOf keys ++ (countPush keys.length ++ [0xae])), by simp [multisigScriptN, hc], hb9, hb0⟩
    (classify_multisig m keys hm1 hmn hn hkeys)

/-- **P2PK: the machinery agrees with `Sign.solve`** -/
theorem C05_solve_machinery_eq_result_model_p2pk (a : SolveArgs) (ctx : VM.TxCtx) (key ph : Bytes) (script : Bytes)
    (witness : List Bytes) (hph : a.placeholder = some ph) (hk : key.length = 33 ∨ key.length = 65) :
    (Solve.solve a ctx (p2pkScript key) script witness).map dropNone = Sign.solve a (p2pkScript key) script witness := by
  have hb : (UInt8.ofNat key.length).toNat = key.length := by rw [UInt8.toNat_ofNat']; omega
  have h9 : UInt8.ofNat key.length ≠ 0xa9 := by
    intro h; have := congrArg UInt8.toNat h; rw [hb] at this
    have e : (0xa9 : UInt8).toNat = 169 := by decide
    omega
  have h0 : UInt8.ofNat key.length ≠ 0 := by
    intro h; have := congrArg UInt8.toNat h; rw [hb] at this
    have e : (0 : UInt8).toNat = 0 := by decide
    omega
  exact C05_solve_machinery_eq_result_model_partial .bare a ctx _ _ (baseOK_p2pk a ph hph key (by omega) (by omega)) script witness
    trivial ⟨(fun h => by cases h), (fun h => by simp [Wrap.witness] at h), (fun h => by cases h)⟩
    (scriptHash_p2pk key (by omega)) (version_p2pk key (by omega) (by omega))
    ⟨UInt8.ofNat key.length, key ++ [0xac], by simp [p2pkScript, directPush], h9, h0⟩ (classify_p2pk key hk)

/-- **P2WPKH and P2SH-P2WPKH: the machinery agrees with `Sign.solve`** -/
theorem C05_solve_machinery_eq_result_model_p2wpkh (a : SolveArgs) (ctx : VM.TxCtx) (prog ph : Bytes) (script : Bytes)
    (witness : List Bytes) (hph : a.placeholder = some ph) (hlen : prog.length = 20) :
    (Solve.solve a ctx (witnessV0Script prog) script witness).map dropNone = Sign.solve a (witnessV0Script prog) script witness := by
  rw [C05_solve_machinery_p2wpkh a ctx prog ph script witness hph hlen]
  unfold Sign.solve
  have hs0 : scriptHashFromScript (witnessV0Script prog) = none := sign_scriptHash_none 0 _ (by decide)
  cases existingScript script witness with
  | error e => rfl
  | ok existing =>
    simp only [hs0, sign_isWitnessV0_true prog (by omega) (by omega), if_true, solveWitness, witnessV0_drop2, hlen]
    simp only [show (20 : Nat) = 32 ↔ False from by decide, if_false]
    rw [show [0x76, 0xa9, 0x14] ++ prog ++ [0x88, 0xac] = p2pkhScript prog from rfl]
    cases solveBase a.C a.lookup (a.sighash true (p2pkhScript prog)) existing a.ht a.placeholder (.p2pkh prog) with
    | error e => rfl
    | ok items => simp [dropNone, Except.map]

theorem C05_solve_machinery_eq_result_model_p2sh_p2wpkh (a : SolveArgs) (ctx : VM.TxCtx) (h prog ph : Bytes) (script : Bytes)
    (witness : List Bytes) (hph : a.placeholder = some ph) (hlen : h.length = 20) (hplen : prog.length = 20)
    (hl : a.p2sh h = some (witnessV0Script prog)) :
    (Solve.solve a ctx (p2shScript h) script witness).map dropNone = Sign.solve a (p2shScript h) script witness := by
  rw [C05_solve_machinery_p2sh_p2wpkh a ctx h prog ph script witness hph hlen hplen hl]
  unfold Sign.solve
  cases existingScript script witness with
  | error e => rfl
  | ok existing =>
    simp only [sign_scriptHash_p2sh h hlen, hl, sign_isWitnessV0_true prog (by omega) (by omega), if_true, solveWitness,
      witnessV0_drop2, hplen]
    simp only [show (20 : Nat) = 32 ↔ False from by decide, if_false]
    rw [show [0x76, 0xa9, 0x14] ++ prog ++ [0x88, 0xac] = p2pkhScript prog from rfl]
    cases solveBase a.C a.lookup (a.sighash true (p2pkhScript prog)) existing a.ht a.placeholder (.p2pkh prog) with
    | error e => rfl
    | ok items =>
      simp only []
      cases pushAll [some (witnessV0Script prog)] <;> simp [dropNone, Except.map]


/-- **The solver loop needs no more than `len(solutions) + 1` rounds** (Python's `while progress and None in …` has no syntactic
bound): a round that makes progress gives a solved target to a solution that had none, and solved atoms stay solved — so
the fuel `Solve.solveForConstraints` passes is never exhausted: any more fuel returns the same dict. -/
theorem C05_solve_loop_fuel (a : SolveArgs) (ex : List Bytes) (sols : List Sol) (k : Nat) (sv : Solved) :
    solverLoop a ex sols (sols.length + 1 + k) sv = solverLoop a ex sols (sols.length + 1) sv :=
  solverLoop_fuel_aux a ex sols k (sols.length + 1) sv (by omega)

/-- **The fetch loop needs no more than `len(script)` steps**: every decoder advances the program counter, so
`Solve.runStage` never stops for lack of fuel. -/
theorem C05_constraints_fetch_fuel (script : Bytes) (k : Nat) :
    fetchAll script (script.length + k) 0 = fetchAll script script.length 0 :=
  fetchAll_fuel script k script.length 0 (by omega)

end machinery


end Pycoin.Sign
