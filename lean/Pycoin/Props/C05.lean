import Pycoin.Model.Sign
namespace Pycoin.Sign

/-- low-S normalisation yields `2·s ≤ n` for `0 ≤ s ≤ n` -/
theorem C05_lowS_le (n : Nat) (s : Int) (h0 : 0 ≤ s) (hn : s ≤ n) : 2 * lowS n s ≤ n ∧ 0 ≤ lowS n s := by
  unfold lowS; split <;> omega

end Pycoin.Sign
