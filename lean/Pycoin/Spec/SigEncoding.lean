import Pycoin.Spec.ScriptBasics
/-!
Signature and public-key *encoding* rules of Bitcoin Core's interpreter.cpp (BIP62/66/146/143):
`IsValidSignatureEncoding`, `IsLowDERSignature` (with libsecp256k1's lax DER parser of pubkey.cpp, which is
what `CPubKey::CheckLowS` uses), `IsDefinedHashtypeSignature`, `IsCompressedOrUncompressedPubKey`,
`IsCompressedPubKey`, `CheckSignatureEncoding`, `CheckPubKeyEncoding`.
-/
namespace Pycoin.Spec.Consensus

/-- order of the secp256k1 group -/
def secp256k1N : Nat := 0xFFFFFFFFFFFFFFFFFFFFFFFFFFFFFFFEBAAEDCE6AF48A03BBFD25E8CD0364141

/-- byte `i` of `sig` as a number (callers have checked the bounds; out of range reads give 0 and are never reached) -/
def byteAt (sig : Bytes) (i : Nat) : Nat := match sig[i]? with | some b => b.toNat | none => 0

/-- `IsValidSignatureEncoding` (BIP66 strict DER, including the trailing hash-type byte) -/
def isValidSignatureEncoding (sig : Bytes) : Bool :=
  let n := sig.length
  if n < 9 then false
  else if n > 73 then false
  else if byteAt sig 0 != 0x30 then false
  else if byteAt sig 1 != n - 3 then false
  else
    let lenR := byteAt sig 3
    if 5 + lenR ≥ n then false
    else
      let lenS := byteAt sig (5 + lenR)
      if lenR + lenS + 7 != n then false
      else if byteAt sig 2 != 0x02 then false
      else if lenR == 0 then false
      else if byteAt sig 4 &&& 0x80 != 0 then false
      else if lenR > 1 && byteAt sig 4 == 0 && byteAt sig 5 &&& 0x80 == 0 then false
      else if byteAt sig (lenR + 4) != 0x02 then false
      else if lenS == 0 then false
      else if byteAt sig (lenR + 6) &&& 0x80 != 0 then false
      else if lenS > 1 && byteAt sig (lenR + 6) == 0 && byteAt sig (lenR + 7) &&& 0x80 == 0 then false
      else true

/-- drop leading zero bytes -/
def stripZeros : Bytes → Bytes
  | 0 :: rest => stripZeros rest
  | l => l

/-- one DER length as the lax parser reads it for the two INTEGERs: short form, or long form with leading
zeros skipped and at most 3 significant length bytes.  Input: bytes after the tag.  Result: `(len, rest)`. -/
def laxLen (inp : Bytes) : Option (Nat × Bytes) :=
  match inp with
  | [] => none
  | lb :: rest =>
    if lb &&& 0x80 != 0 then
      let k := lb.toNat - 0x80
      if k > rest.length then none else
      let lenField := stripZeros (rest.take k)
      if lenField.length ≥ 4 then none else
      some (beNat lenField, rest.drop k)
    else some (lb.toNat, rest)

/-- `ecdsa_signature_parse_der_lax` (pubkey.cpp).  `none` = parse failure (returns 0); otherwise the pair `(r, s)`
where an out-of-range component (more than 32 significant bytes, or `≥ n`) turns the whole signature into `(0, 0)`,
exactly as the C code overwrites it with a "correctly-parsed but invalid" signature. -/
def laxDerParse (inp : Bytes) : Option (Nat × Nat) :=
  match inp with
  | 0x30 :: rest =>
    -- sequence length: value ignored, long form only skipped over
    match rest with
    | [] => none
    | lb :: rest =>
      let afterSeq : Option Bytes :=
        if lb &&& 0x80 != 0 then
          let k := lb.toNat - 0x80
          if k > rest.length then none else some (rest.drop k)
        else some rest
      match afterSeq with
      | none => none
      | some (0x02 :: rest) =>
        match laxLen rest with
        | none => none
        | some (rlen, rest) =>
          if rlen > rest.length then none else
          let rBytes := stripZeros (rest.take rlen)
          match rest.drop rlen with
          | 0x02 :: rest =>
            match laxLen rest with
            | none => none
            | some (slen, rest) =>
              if slen > rest.length then none else
              let sBytes := stripZeros (rest.take slen)
              let r := beNat rBytes
              let s := beNat sBytes
              if rBytes.length > 32 || sBytes.length > 32 || r ≥ secp256k1N || s ≥ secp256k1N then some (0, 0)
              else some (r, s)
          | _ => none
      | some _ => none
  | _ => none

/-- `CPubKey::CheckLowS(vchSig)`: lax parse, then `!secp256k1_ecdsa_signature_normalize` (i.e. `s ≤ n/2`) -/
def checkLowS (sigNoHashType : Bytes) : Bool :=
  match laxDerParse sigNoHashType with
  | none => false
  | some (_, s) => s ≤ secp256k1N / 2

/-- `IsDefinedHashtypeSignature` -/
def isDefinedHashtypeSignature (sig : Bytes) : Bool :=
  match sig.getLast? with
  | none => false
  | some last =>
    let ht := last.toNat &&& (255 - 0x80)   -- ~SIGHASH_ANYONECANPAY
    !(ht < 1 || ht > 3)

/-- `IsCompressedOrUncompressedPubKey` -/
def isCompressedOrUncompressedPubKey (k : Bytes) : Bool :=
  if k.length < 33 then false
  else match (k[0]? : Option UInt8) with
    | some 0x04 => k.length == 65
    | some 0x02 => k.length == 33
    | some 0x03 => k.length == 33
    | _ => false

/-- `IsCompressedPubKey` -/
def isCompressedPubKey (k : Bytes) : Bool :=
  k.length == 33 && (k[0]? == some 0x02 || k[0]? == some 0x03)

/-- `CheckSignatureEncoding(vchSig, flags, serror)`; `none` = passes -/
def checkSignatureEncoding (sig : Bytes) (flags : Flags) : Option ScriptError :=
  -- Empty signature. Not strictly DER encoded, but allowed to provide a compact way to provide an invalid signature
  if sig.isEmpty then none
  else if (flags.dersig || flags.lowS || flags.strictenc) && !isValidSignatureEncoding sig then some .SIG_DER
  else if flags.lowS && !isValidSignatureEncoding sig then some .SIG_DER          -- first test of IsLowDERSignature
  else if flags.lowS && !checkLowS sig.dropLast then some .SIG_HIGH_S
  else if flags.strictenc && !isDefinedHashtypeSignature sig then some .SIG_HASHTYPE
  else none

/-- `CheckPubKeyEncoding(vchPubKey, flags, sigversion, serror)`; `none` = passes -/
def checkPubKeyEncoding (key : Bytes) (flags : Flags) (sv : SigVersion) : Option ScriptError :=
  if flags.strictenc && !isCompressedOrUncompressedPubKey key then some .PUBKEYTYPE
  else if flags.witnessPubkeytype && sv == .witnessV0 && !isCompressedPubKey key then some .WITNESS_PUBKEYTYPE
  else none

-- r = s = 1
#guard laxDerParse [0x30, 0x06, 0x02, 0x01, 0x01, 0x02, 0x01, 0x01] = some (1, 1)
-- the sequence length is not looked at
#guard laxDerParse [0x30, 0x02, 0x02, 0x01, 0x01, 0x02, 0x01, 0x01] = some (1, 1)
-- "negative" integers are read as unsigned, trailing bytes ignored
#guard laxDerParse [0x30, 0x06, 0x02, 0x01, 0x81, 0x02, 0x01, 0x01, 0xff] = some (0x81, 1)
-- long-form lengths
#guard laxDerParse [0x30, 0x81, 0x00, 0x02, 0x82, 0x00, 0x01, 0x05, 0x02, 0x01, 0x07] = some (5, 7)
#guard laxDerParse [0x30, 0x06, 0x02, 0x01, 0x01, 0x03, 0x01, 0x01] = none
#guard laxDerParse [0x30, 0x06, 0x02, 0x02, 0x01] = none
#guard isValidSignatureEncoding [0x30, 0x06, 0x02, 0x01, 0x01, 0x02, 0x01, 0x01, 0x01]
#guard !isValidSignatureEncoding [0x30, 0x06, 0x02, 0x01, 0x81, 0x02, 0x01, 0x01, 0x01]
#guard isDefinedHashtypeSignature [0x83] && !isDefinedHashtypeSignature [0x84] && !isDefinedHashtypeSignature [0x00]

end Pycoin.Spec.Consensus
