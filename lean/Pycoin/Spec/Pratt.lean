/-!
Pratt primality certificates (import-free, executable; the soundness proof is in `Proofs/Pratt.lean`).

A certificate is a list of entries `(q, a, [(f₁,e₁),…])` claiming `q − 1 = ∏ fᵢ^eᵢ`, every `fᵢ` being `2`
or the `q` of an earlier entry, `a^(q−1) ≡ 1 (mod q)` and `a^((q−1)/fᵢ) ≢ 1 (mod q)` for every `i`
(Lucas' test).
-/
namespace Pycoin.Pratt

structure Entry where
  q : Nat
  a : Nat
  fs : List (Nat × Nat)
  deriving Repr, DecidableEq

/-- `a ^ e % m` by square and multiply; structural on fuel (`fuel ≥ bit length of e`; `fuel = e` is enough).
Written so that every step has a single occurrence of the recursive call (cheap kernel evaluation). -/
def npowMod (a m : Nat) : Nat → Nat → Nat
  | 0, _ => 1 % m
  | f + 1, e =>
    if e = 0 then 1 % m
    else if e % 2 = 1 then ((npowMod a m f (e / 2)) ^ 2 % m) * a % m
    else (npowMod a m f (e / 2)) ^ 2 % m

def powMod (a e m : Nat) : Nat := npowMod a m e e

def prodPow : List (Nat × Nat) → Nat
  | [] => 1
  | (f, e) :: r => f ^ e * prodPow r

def checkEntry (known : List Nat) (en : Entry) : Bool :=
  decide (1 < en.q) && en.fs.all (fun fe => known.contains fe.1) &&
  decide (prodPow en.fs = en.q - 1) &&
  decide (powMod en.a (en.q - 1) en.q = 1) &&
  en.fs.all (fun fe => decide (powMod en.a ((en.q - 1) / fe.1) en.q ≠ 1))

/-- the primes certified by `cert`, starting from `known`; `none` if an entry fails -/
def run : List Entry → List Nat → Option (List Nat)
  | [], known => some known
  | en :: rest, known => if checkEntry known en then run rest (en.q :: known) else none

def certifies (cert : List Entry) (n : Nat) : Bool :=
  match run cert [2] with
  | some ks => ks.contains n
  | none => false

end Pycoin.Pratt
