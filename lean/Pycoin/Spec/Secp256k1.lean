import Pycoin.Spec.SigEncoding
/-!
secp256k1 ECDSA verification and public-key parsing as Bitcoin consensus uses them (libsecp256k1's
`secp256k1_ec_pubkey_parse`, `secp256k1_ecdsa_verify` after `ecdsa_signature_parse_der_lax` and normalisation),
written directly from the definitions (SEC 1 §4.1.4; the curve y² = x³ + 7 over F_p).  Independent of pycoin's
curve code and of its Lean model: it is used to cross-check the signature oracle of the C03 check.

Points are computed in Jacobian coordinates `(X, Y, Z)`, `x = X/Z²`, `y = Y/Z³`, `Z = 0` for the point at infinity.
-/
namespace Pycoin.Spec.Secp256k1
open Pycoin.Spec.Consensus

def p : Nat := 0xFFFFFFFFFFFFFFFFFFFFFFFFFFFFFFFFFFFFFFFFFFFFFFFFFFFFFFFEFFFFFC2F
def n : Nat := secp256k1N
def gx : Nat := 0x79BE667EF9DCBBAC55A06295CE870B07029BFCDB2DCE28D959F2815B16F81798
def gy : Nat := 0x483ADA7726A3C4655DA4FBFC0E1108A8FD17B448A68554199C47D08FFB10D4B8

/-- `a ^ e mod m` by square and multiply; `fuel ≥` number of bits of `e` -/
def powModAux (m : Nat) : Nat → Nat → Nat → Nat → Nat
  | 0, _, _, acc => acc
  | f + 1, a, e, acc =>
    if e = 0 then acc
    else powModAux m f (a * a % m) (e / 2) (if e % 2 = 1 then acc * a % m else acc)

def powMod (a e m : Nat) : Nat := powModAux m 260 (a % m) e (1 % m)

/-- inverse modulo a prime (Fermat) -/
def invMod (a m : Nat) : Nat := powMod a (m - 2) m

def fsub (a b : Nat) : Nat := (a + p - b % p) % p

structure Jac where
  x : Nat
  y : Nat
  z : Nat
  deriving Repr, DecidableEq, Inhabited

def Jac.inf : Jac := ⟨0, 1, 0⟩

def ofAffine (x y : Nat) : Jac := ⟨x % p, y % p, 1⟩

/-- point doubling (a = 0) -/
def dbl (P : Jac) : Jac :=
  if P.z = 0 || P.y = 0 then Jac.inf else
  let a := P.x * P.x % p
  let b := P.y * P.y % p
  let c := b * b % p
  let xb := (P.x + b) % p
  let d := 2 * fsub (fsub (xb * xb % p) a) c % p
  let e := 3 * a % p
  let f := e * e % p
  let x3 := fsub f (2 * d % p)
  let y3 := fsub (e * fsub d x3 % p) (8 * c % p)
  let z3 := 2 * P.y * P.z % p
  ⟨x3, y3, z3⟩

/-- general point addition -/
def add (P Q : Jac) : Jac :=
  if P.z = 0 then Q else if Q.z = 0 then P else
  let z1z1 := P.z * P.z % p
  let z2z2 := Q.z * Q.z % p
  let u1 := P.x * z2z2 % p
  let u2 := Q.x * z1z1 % p
  let s1 := P.y * Q.z % p * z2z2 % p
  let s2 := Q.y * P.z % p * z1z1 % p
  if u1 = u2 then (if s1 = s2 then dbl P else Jac.inf) else
  let h := fsub u2 u1
  let r := fsub s2 s1
  let h2 := h * h % p
  let h3 := h * h2 % p
  let v := u1 * h2 % p
  let x3 := fsub (fsub (r * r % p) h3) (2 * v % p)
  let y3 := fsub (r * fsub v x3 % p) (s1 * h3 % p)
  let z3 := h * P.z % p * Q.z % p
  ⟨x3, y3, z3⟩

/-- `k • P`, most significant bit first over 256 bits -/
def mulAux (P : Jac) (k : Nat) : Nat → Jac → Jac
  | 0, acc => acc
  | i + 1, acc =>
    let acc := dbl acc
    mulAux P k i (if k.testBit i then add acc P else acc)

def mul (k : Nat) (P : Jac) : Jac := mulAux P k 256 Jac.inf

/-- `a • P + b • Q` in one pass (Shamir's trick); equal to `add (mul a P) (mul b Q)` -/
def mul2Aux (P Q PQ : Jac) (a b : Nat) : Nat → Jac → Jac
  | 0, acc => acc
  | i + 1, acc =>
    let acc := dbl acc
    let acc :=
      match a.testBit i, b.testBit i with
      | true, true => add acc PQ
      | true, false => add acc P
      | false, true => add acc Q
      | false, false => acc
    mul2Aux P Q PQ a b i acc

def mul2 (a : Nat) (P : Jac) (b : Nat) (Q : Jac) : Jac := mul2Aux P Q (add P Q) a b 256 Jac.inf

/-- affine coordinates; `none` for the point at infinity -/
def toAffine (P : Jac) : Option (Nat × Nat) :=
  if P.z = 0 then none else
  let zi := invMod P.z p
  let zi2 := zi * zi % p
  some (P.x * zi2 % p, P.y * zi2 % p * zi % p)

def onCurve (x y : Nat) : Bool := y * y % p == (x * x % p * x + 7) % p

/-- `secp256k1_ec_pubkey_parse` after `CPubKey`'s length test: 33 bytes 02/03 (x < p, x³+7 a square), 65 bytes 04 (x, y < p, on the
curve), 65 bytes 06/07 likewise with the low bit of the prefix equal to the parity of y -/
def parsePubKey (k : Bytes) : Option (Nat × Nat) :=
  match k with
  | [] => none
  | pre :: rest =>
    let pre := pre.toNat
    if k.length == 33 && (pre == 2 || pre == 3) then
      let x := beNat rest
      if x ≥ p then none else
      let y2 := (x * x % p * x + 7) % p
      let y := powMod y2 ((p + 1) / 4) p
      if y * y % p != y2 then none
      else some (x, if y % 2 == pre % 2 then y else p - y)
    else if k.length == 65 && (pre == 4 || pre == 6 || pre == 7) then
      let x := beNat (rest.take 32)
      let y := beNat (rest.drop 32)
      if x ≥ p || y ≥ p || !onCurve x y then none
      else if pre != 4 && y % 2 != pre % 2 then none
      else some (x, y)
    else none

/-- ECDSA verification of the digest `h` (a 256-bit number, reduced mod n) -/
def ecdsaVerify (Q : Nat × Nat) (h r s : Nat) : Bool :=
  if r = 0 || r ≥ n || s = 0 || s ≥ n then false else
  let w := invMod s n
  let u1 := h % n * w % n
  let u2 := r * w % n
  match toAffine (mul2 u1 (ofAffine gx gy) u2 (ofAffine Q.1 Q.2)) with
  | none => false
  | some (x, _) => x % n == r

/-- `GenericTransactionSignatureChecker::CheckSig` given the signature hash as a function of the hash-type byte:
key parse, empty signature, lax DER parse of all but the last byte, ECDSA verification -/
def checkSigWith (sighash : Nat → Bytes) (sig pubkey : Bytes) : Bool :=
  match parsePubKey pubkey with
  | none => false
  | some Q =>
    match sig.getLast? with
    | none => false
    | some ht =>
      match laxDerParse sig.dropLast with
      | none => false
      | some (r, s) => ecdsaVerify Q (beNat (sighash ht.toNat)) r s

-- 2G, 3G and n•G
#guard toAffine (dbl (ofAffine gx gy)) =
  some (0xC6047F9441ED7D6D3045406E95C07CD85C778E4B8CEF3CA7ABAC09B95C709EE5, 0x1AE168FEA63DC339A3C58419466CEAEEF7F632653266D0E1236431A950CFE52A)
#guard toAffine (mul 3 (ofAffine gx gy)) =
  some (0xF9308A019258C31049344F85F89D5229B531C845836F99B08601F113BCE036F9, 0x388F7B0F632DE8140FE337E62A37F3566500A99934C2231B6CB9FD7584B8E672)
#guard toAffine (mul n (ofAffine gx gy)) = none
#guard toAffine (add (mul (n - 1) (ofAffine gx gy)) (ofAffine gx gy)) = none
#guard toAffine (mul2 5 (ofAffine gx gy) 7 (dbl (ofAffine gx gy))) = toAffine (mul 19 (ofAffine gx gy))
#guard toAffine (mul2 (n - 3) (ofAffine gx gy) 3 (ofAffine gx gy)) = none
#guard toAffine (mul2 (n - 2) (ofAffine gx gy) 1 (dbl (ofAffine gx gy))) = none
#guard parsePubKey (2 :: beBytes gx 32) = some (gx, gy) && parsePubKey (3 :: beBytes gx 32) = some (gx, p - gy)
#guard parsePubKey (6 :: beBytes gx 32 ++ beBytes gy 32) = some (gx, gy) && parsePubKey (7 :: beBytes gx 32 ++ beBytes gy 32) = none
#guard parsePubKey (4 :: beBytes gx 32) = none && parsePubKey (5 :: beBytes gx 32) = none
-- a signature (r, s) = (x(kG) mod n, (h + r d)/k) for d = 1, k = 2, h = 5 verifies; its malleated twin too; another digest does not
#guard (let r := 0xC6047F9441ED7D6D3045406E95C07CD85C778E4B8CEF3CA7ABAC09B95C709EE5 % n
        let s := (5 + r) * invMod 2 n % n
        ecdsaVerify (gx, gy) 5 r s && ecdsaVerify (gx, gy) 5 r (n - s) && !ecdsaVerify (gx, gy) 6 r s)

end Pycoin.Spec.Secp256k1
