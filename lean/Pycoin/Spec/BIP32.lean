import Pycoin.Py.Bytes
/-!
BIP32 (Hierarchical Deterministic Wallets), written from the BIP text — not from pycoin.

The BIP works in the group of secp256k1 and uses `point(p)` (multiplication of the base point `G` by the integer
`p`), point addition `+`, `ser32`, `ser256`, `serP`, `parse256`, HMAC-SHA512 and HASH160.  The group and the hash
functions are parameters (`Crypto`), so that the same text can be read

* over Mathlib's `WeierstrassCurve.Affine.Point` (the property theorems, `Props/C09.lean`), and
* over the executable curve model (the driver op `bip32_spec_path`, validated against the BIP's test vectors 1–3).
-/
namespace Pycoin.Spec.BIP32
open Pycoin

/-- "Conventions": the curve group with base point `G` of order `n`, and the hash functions -/
structure Crypto (P : Type) where
  /-- the order `n` of `G` -/
  n : Nat
  /-- `point(p)`: the coordinate pair resulting from EC point multiplication of the base point with the integer `p` -/
  point : Nat → P
  /-- `+` on coordinate pairs: the EC group operation -/
  add : P → P → P
  /-- the point at infinity -/
  inf : P
  /-- `serP(P)`: SEC1 compressed form `(0x02 or 0x03) || ser256(x)`, the header byte depending on the parity of `y` -/
  serP : P → Bytes
  /-- HMAC-SHA512(Key, Data) -/
  hmacSha512 : Bytes → Bytes → Bytes
  /-- HASH160 = RIPEMD160 after SHA256 -/
  hash160 : Bytes → Bytes

/-- `ser32(i)`: a 32-bit unsigned integer as a 4-byte sequence, most significant byte first -/
def ser32 (i : Nat) : Bytes := beBytes i 4

/-- `ser256(p)`: the integer `p` as a 32-byte sequence, most significant byte first -/
def ser256 (p : Nat) : Bytes := beBytes p 32

/-- `parse256(p)`: a 32-byte sequence as a 256-bit number, most significant byte first -/
def parse256 (b : Bytes) : Nat := beNat b

/-- extended private key `(k, c)` -/
structure XPrv where
  k : Nat
  c : Bytes
  deriving DecidableEq, Repr

/-- extended public key `(K, c)` -/
structure XPub (P : Type) where
  K : P
  c : Bytes

/-- "child keys with index `i ≥ 2³¹` are hardened" -/
def isHardened (i : Nat) : Bool := decide (2 ^ 31 ≤ i)

/-- the result of a derivation: a key, "the resulting key is invalid, and one should proceed with the next value
for i", or (CKDpub on a hardened index) "return failure" -/
inductive Result (α : Type)
  | ok (a : α)
  | invalid
  | failure

variable {P : Type}

/-- **CKDpriv((k_par, c_par), i) → (k_i, c_i)** -/
def CKDpriv (C : Crypto P) (par : XPrv) (i : Nat) : Result XPrv :=
  let I :=
    if isHardened i then C.hmacSha512 par.c ((0 : UInt8) :: (ser256 par.k ++ ser32 i))
    else C.hmacSha512 par.c (C.serP (C.point par.k) ++ ser32 i)
  let IL := I.take 32
  let IR := I.drop 32
  let ki := (parse256 IL + par.k) % C.n
  if C.n ≤ parse256 IL ∨ ki = 0 then .invalid else .ok ⟨ki, IR⟩

/-- **CKDpub((K_par, c_par), i) → (K_i, c_i)** -/
def CKDpub [DecidableEq P] (C : Crypto P) (par : XPub P) (i : Nat) : Result (XPub P) :=
  if isHardened i then .failure
  else
    let I := C.hmacSha512 par.c (C.serP par.K ++ ser32 i)
    let IL := I.take 32
    let IR := I.drop 32
    let Ki := C.add (C.point (parse256 IL)) par.K
    if C.n ≤ parse256 IL ∨ Ki = C.inf then .invalid else .ok ⟨Ki, IR⟩

/-- **N((k, c)) → (K, c)**: the "neutered" version -/
def neuter (C : Crypto P) (x : XPrv) : XPub P := ⟨C.point x.k, x.c⟩

/-- key identifier: HASH160 of the serialized ECDSA public key `K`; the fingerprint is its first 32 bits -/
def fingerprint (C : Crypto P) (K : P) : Bytes := (C.hash160 (C.serP K)).take 4

/-- master key generation from the seed `S`: `I = HMAC-SHA512(Key = "Bitcoin seed", Data = S)`; `none` when
`parse256(I_L)` is `0` or `≥ n` ("the master key is invalid") -/
def master (C : Crypto P) (S : Bytes) : Option XPrv :=
  let I := C.hmacSha512 "Bitcoin seed".toUTF8.toList S
  let IL := I.take 32
  if parse256 IL = 0 ∨ C.n ≤ parse256 IL then none else some ⟨parse256 IL, I.drop 32⟩

/-- the fields of the serialization format other than the version bytes -/
structure ExtKey (P : Type) where
  depth : Nat
  parentFingerprint : Bytes
  childNumber : Nat
  chainCode : Bytes
  /-- private key `k` or public key `K` -/
  key : Nat ⊕ P

/-- **Serialization format**: 4 bytes version, 1 byte depth, 4 bytes parent fingerprint, 4 bytes child number
(`ser32(i)`), 32 bytes chain code, 33 bytes `serP(K)` or `0x00 || ser256(k)` — 78 bytes -/
def serialize (C : Crypto P) (version : Bytes) (e : ExtKey P) : Bytes :=
  version ++ [UInt8.ofNat e.depth] ++ e.parentFingerprint ++ ser32 e.childNumber ++ e.chainCode ++
    (match e.key with
     | .inl k => (0 : UInt8) :: ser256 k
     | .inr K => C.serP K)

/-- the master node: depth 0, parent fingerprint `0x00000000`, child number 0 -/
def masterKey (x : XPrv) : ExtKey P := ⟨0, [0, 0, 0, 0], 0, x.c, .inl x.k⟩

/-- the child entry of a private parent `(k_par, c_par)` held in `e`, at index `i` -/
def childPriv (C : Crypto P) (e : ExtKey P) (kpar : Nat) (i : Nat) : Result (ExtKey P) :=
  match CKDpriv C ⟨kpar, e.chainCode⟩ i with
  | .ok x => .ok ⟨e.depth + 1, fingerprint C (C.point kpar), i, x.c, .inl x.k⟩
  | .invalid => .invalid
  | .failure => .failure

/-- the child entry of a public parent `(K_par, c_par)` -/
def childPub [DecidableEq P] (C : Crypto P) (e : ExtKey P) (Kpar : P) (i : Nat) : Result (ExtKey P) :=
  match CKDpub C ⟨Kpar, e.chainCode⟩ i with
  | .ok x => .ok ⟨e.depth + 1, fingerprint C Kpar, i, x.c, .inr x.K⟩
  | .invalid => .invalid
  | .failure => .failure

end Pycoin.Spec.BIP32
