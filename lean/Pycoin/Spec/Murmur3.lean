import Pycoin.Py.Bytes
/-!
MurmurHash3 x86_32 written from the reference algorithm (Austin Appleby, `MurmurHash3.cpp`,
`MurmurHash3_x86_32(key, len, seed)`), over 32-bit words, and the BIP37 bit addressing built on it.
Independent of pycoin.  The reference takes `int len`; here `len` is the list length and enters the
finalisation as `len mod 2^32`.  Validated against an independent Python rendering in the C19 harness.
-/
namespace Pycoin.Hash

def mmRotl (x : UInt32) (r : Nat) : UInt32 := (x <<< UInt32.ofNat r) ||| (x >>> UInt32.ofNat (32 - r))

/-- `k1 *= c1; k1 = ROTL32(k1,15); k1 *= c2` -/
def mmMixK (k : UInt32) : UInt32 := mmRotl (k * 0xcc9e2d51) 15 * 0x1b873593

/-- one 4-byte block: `h1 ^= mix(k1); h1 = ROTL32(h1,13); h1 = h1*5+0xe6546b64` -/
def mmBlock (h k : UInt32) : UInt32 := mmRotl (h ^^^ mmMixK k) 13 * 5 + 0xe6546b64

/-- `fmix32` -/
def mmFmix (h : UInt32) : UInt32 :=
  let h := h ^^^ (h >>> 16)
  let h := h * 0x85ebca6b
  let h := h ^^^ (h >>> 13)
  let h := h * 0xc2b2ae35
  h ^^^ (h >>> 16)

/-- the little-endian 4-byte blocks of the key (`getblock32(blocks, i)`) -/
def mmWords : Bytes → List UInt32
  | a :: b :: c :: d :: rest => UInt32.ofNat (leNat [a, b, c, d]) :: mmWords rest
  | _ => []

/-- the 0–3 bytes after the last full block -/
def mmTail : Bytes → Bytes
  | _ :: _ :: _ :: _ :: rest => mmTail rest
  | t => t

/-- body and tail: fold the blocks, then `k1 = tail[0] | tail[1] << 8 | tail[2] << 16; h1 ^= mix(k1)` when a tail exists -/
def mmBody (h : UInt32) (data : Bytes) : UInt32 :=
  let h := (mmWords data).foldl mmBlock h
  match mmTail data with
  | [] => h
  | t => h ^^^ mmMixK (UInt32.ofNat (leNat t))

/-- `MurmurHash3_x86_32(data, len(data), seed)` -/
def murmur3 (data : Bytes) (seed : UInt32) : UInt32 :=
  mmFmix (mmBody seed data ^^^ UInt32.ofNat data.length)

namespace Bip37

/-- seed of hash function `k`: `k * 0xFBA4C795 + nTweak` in 32-bit arithmetic -/
def seed (k : Nat) (tweak : UInt32) : UInt32 := UInt32.ofNat k * 0xFBA4C795 + tweak

/-- bit index of hash function `k` for `item` in a filter of `size` bytes -/
def bitIndex (size : Nat) (tweak : UInt32) (item : Bytes) (k : Nat) : Nat :=
  (murmur3 item (seed k tweak)).toNat % (8 * size)

/-- is bit `i` set: byte `i / 8`, mask `1 << (i % 8)`  (`vData[nIndex >> 3] & (1 << (7 & nIndex))`) -/
def testBit (filter : Bytes) (i : Nat) : Bool :=
  match filter[i / 8]? with
  | some b => b.toNat.testBit (i % 8)
  | none => false

/-- `CBloomFilter::contains`: every one of the `nHash` bits is set -/
def contains (filter : Bytes) (nHash : Nat) (tweak : UInt32) (item : Bytes) : Bool :=
  (List.range nHash).all fun k => testBit filter (bitIndex filter.length tweak item k)

end Bip37
end Pycoin.Hash
