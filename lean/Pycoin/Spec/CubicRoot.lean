/-!
Certificates that a monic cubic `X³ − na·X − nb` has no root modulo a prime `p` (import-free, executable; the
soundness proof is in `Proofs/CubicRoot.lean`).

Elements of `F_p[X]/(X³ − na·X − nb)` are coefficient triples `(c₀, c₁, c₂)` of naturals `< p`.  A root `r` would
satisfy `r^p = r` (Fermat), so it would be a common root of the cubic and of `X^p − X`; the certificate is an inverse
`v` of `X^p − X` in the quotient ring: `v · (X^p − X) = 1` there, which evaluated at `r` reads `0 = 1`.
`X^p` is computed by square and multiply.
-/
namespace Pycoin.CubicRoot

structure Tri where
  c0 : Nat
  c1 : Nat
  c2 : Nat
  deriving DecidableEq, Repr

/-- product in `F_p[X]/(X³ − na·X − nb)`: `X³ = na·X + nb`, `X⁴ = na·X² + nb·X` -/
def mulMod (p na nb : Nat) (u v : Tri) : Tri :=
  ⟨(u.c0 * v.c0 + nb * (u.c1 * v.c2 + u.c2 * v.c1)) % p,
   (u.c0 * v.c1 + u.c1 * v.c0 + na * (u.c1 * v.c2 + u.c2 * v.c1) + nb * (u.c2 * v.c2)) % p,
   (u.c0 * v.c2 + u.c1 * v.c1 + u.c2 * v.c0 + na * (u.c2 * v.c2)) % p⟩

/-- square -/
def sqMod (p na nb : Nat) (u : Tri) : Tri := mulMod p na nb u u

/-- times `X` -/
def mulX (p na nb : Nat) (u : Tri) : Tri := mulMod p na nb u ⟨0, 1, 0⟩

/-- `X ^ e` by square and multiply; structural on fuel (`fuel ≥ e` is enough) -/
def xPow (p na nb : Nat) : Nat → Nat → Tri
  | 0, _ => ⟨1 % p, 0, 0⟩
  | f + 1, e =>
    if e = 0 then ⟨1 % p, 0, 0⟩
    else if e % 2 = 1 then mulX p na nb (sqMod p na nb (xPow p na nb f (e / 2)))
    else sqMod p na nb (xPow p na nb f (e / 2))

/-- `u − X` (for `1 ≤ p`) -/
def subX (p : Nat) (u : Tri) : Tri := ⟨u.c0, (u.c1 + (p - 1)) % p, u.c2⟩

/-- `v` is an inverse of `X^p − X` modulo the cubic and `p` -/
def certifies (p na nb : Nat) (v : Tri) : Bool :=
  decide (1 < p) && decide (mulMod p na nb v (subX p (xPow p na nb p p)) = ⟨1, 0, 0⟩)

end Pycoin.CubicRoot
