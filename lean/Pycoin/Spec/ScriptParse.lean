import Pycoin.Spec.ScriptBasics
/-!
`CScript` parsing helpers of Bitcoin Core (script.cpp / interpreter.cpp): `GetScriptOp`, `CheckMinimalPush`,
`CScript::operator<<(vector)`, `IsPushOnly`, `FindAndDelete`, `IsPayToScriptHash`, `IsWitnessProgram`.
-/
namespace Pycoin.Spec.Consensus

/-- does the list have at least `n` elements (without walking the whole list) -/
def hasAtLeast (l : Bytes) (n : Nat) : Bool :=
  n == 0 || !(l.drop (n - 1)).isEmpty

/-- `GetScriptOp`: decode one instruction at the head of `s`.
Result: `(opcode, pushed data, rest of the script, number of bytes consumed)`; `none` when the script is empty
or the instruction is truncated. -/
def getScriptOp : Bytes → Option (Nat × Bytes × Bytes × Nat)
  | [] => none
  | b :: rest =>
    let opcode := b.toNat
    if opcode ≤ OP_PUSHDATA4 then
      -- size of the length field, then the length
      let lenBytes : Nat :=
        if opcode < OP_PUSHDATA1 then 0 else if opcode = OP_PUSHDATA1 then 1 else if opcode = OP_PUSHDATA2 then 2 else 4
      if !hasAtLeast rest lenBytes then none else
      let nSize : Nat := if opcode < OP_PUSHDATA1 then opcode else leNat (rest.take lenBytes)
      let body := rest.drop lenBytes
      if !hasAtLeast body nSize then none else
      some (opcode, body.take nSize, body.drop nSize, 1 + lenBytes + nSize)
    else
      some (opcode, [], rest, 1)

/-- `CheckMinimalPush(data, opcode)` for `opcode ≤ OP_PUSHDATA4` -/
def checkMinimalPush (data : Bytes) (opcode : Nat) : Bool :=
  match data with
  | [] => opcode == OP_0
  | [b] =>
    if 1 ≤ b.toNat && b.toNat ≤ 16 then false       -- should have used OP_1 .. OP_16
    else if b == 0x81 then false                     -- should have used OP_1NEGATE
    else opcode == 1
  | _ =>
    let n := data.length
    if n ≤ 75 then opcode == n
    else if n ≤ 255 then opcode == OP_PUSHDATA1
    else if n ≤ 65535 then opcode == OP_PUSHDATA2
    else true

/-- `CScript() << vch`: the serialisation of a data push chosen by `CScript::operator<<(const std::vector&)`
(by length only: an empty vector gives the byte `00`, a one-byte vector `01 xx`) -/
def pushData (b : Bytes) : Bytes :=
  let n := b.length
  if n < OP_PUSHDATA1 then UInt8.ofNat n :: b
  else if n ≤ 0xff then UInt8.ofNat OP_PUSHDATA1 :: UInt8.ofNat n :: b
  else if n ≤ 0xffff then UInt8.ofNat OP_PUSHDATA2 :: (leBytes n 2 ++ b)
  else UInt8.ofNat OP_PUSHDATA4 :: (leBytes n 4 ++ b)

/-- `CScript::IsPushOnly`: every instruction decodes and has `opcode ≤ OP_16` (so `OP_RESERVED` counts as a push) -/
def isPushOnlyAux : Nat → Bytes → Bool
  | 0, rest => rest.isEmpty
  | f + 1, rest =>
    if rest.isEmpty then true else
    match getScriptOp rest with
    | none => false
    | some (opcode, _, rest', _) => if opcode > OP_16 then false else isPushOnlyAux f rest'

def isPushOnly (script : Bytes) : Bool := isPushOnlyAux script.length script

/-- `FindAndDelete(script, b)` for non-empty `b`: at every instruction boundary drop all consecutive occurrences
of `b`, then copy one instruction; bytes after an undecodable instruction are copied unchanged. -/
def findAndDeleteAux (b : Bytes) : Nat → Bytes → Bytes
  | 0, rest => rest
  | f + 1, rest =>
    if b.isPrefixOf rest then findAndDeleteAux b f (rest.drop b.length)
    else
      match getScriptOp rest with
      | none => rest
      | some (_, _, rest', size) => rest.take size ++ findAndDeleteAux b f rest'

def findAndDelete (script b : Bytes) : Bytes :=
  if b.isEmpty then script else findAndDeleteAux b (script.length + 1) script

/-- `CScript::IsPayToScriptHash`: exactly `OP_HASH160 0x14 <20 bytes> OP_EQUAL` -/
def isPayToScriptHash (s : Bytes) : Bool :=
  s.length == 23 && s[0]? == some 0xa9 && s[1]? == some 0x14 && s[22]? == some 0x87

/-- `CScript::IsWitnessProgram`: 4..42 bytes, a version opcode (`OP_0`, `OP_1`..`OP_16`) and one direct push of
the remaining `size − 2` bytes.  Result: `(version, program)`. -/
def isWitnessProgram (s : Bytes) : Option (Nat × Bytes) :=
  if s.length < 4 || s.length > 42 then none else
  match s with
  | v :: l :: prog =>
    let v := v.toNat
    if v != OP_0 && (v < OP_1 || v > OP_16) then none
    else if l.toNat + 2 == s.length then some (if v == OP_0 then 0 else v - (OP_1 - 1), prog)
    else none
  | _ => none

#guard getScriptOp [0x02, 0xaa, 0xbb, 0x51] = some (2, [0xaa, 0xbb], [0x51], 3)
#guard getScriptOp [0x02, 0xaa] = none && getScriptOp [0x4c] = none && getScriptOp [0x4d, 0x01] = none
#guard getScriptOp [0x4c, 0x00] = some (0x4c, [], [], 2) && getScriptOp [0x4e, 1, 0, 0, 0, 7, 8] = some (0x4e, [7], [8], 6)
#guard getScriptOp [0x00] = some (0, [], [], 1) && getScriptOp [0xff, 1] = some (255, [], [1], 1)
#guard pushData [] = [0] && pushData [5] = [1, 5] && (pushData (List.replicate 76 7)).take 2 = [0x4c, 76]
#guard findAndDelete [0x51, 0x02, 0x51, 0x51, 0x51] [0x51] = [0x02, 0x51, 0x51]
#guard findAndDelete [0x51, 0x51, 0xac, 0x05, 0x51] [0x51] = [0xac, 0x05, 0x51]
#guard isPushOnly [0x50, 0x60, 0x01, 0x61] && !isPushOnly [0x61] && !isPushOnly [0x02, 0x01]
#guard isWitnessProgram ([0x00, 0x14] ++ List.replicate 20 9) = some (0, List.replicate 20 9)
#guard isWitnessProgram [0x60, 0x02, 1, 2] = some (16, [1, 2]) && isWitnessProgram [0x4f, 0x02, 1, 2] = none

end Pycoin.Spec.Consensus
