/-!
C15 — specification, written from the property (not from pycoin): the forest of headers delivered so
far, chains descending from an anchor, total weight, "a maximum-total-weight chain".
-/
namespace Pycoin.Spec.Chain

structure Hdr where
  hash : Nat
  parent : Nat
  weight : Nat
  deriving Repr, DecidableEq

/-- a hash names one header: duplicates of a header are identical -/
def Consistent (D : List Hdr) : Prop := ∀ a ∈ D, ∀ b ∈ D, a.hash = b.hash → a = b

/-- `c` lists, in index order, delivered headers that descend from `anchor`: the first one's parent is the
anchor, every later one's parent is its predecessor -/
inductive IsChainFrom (D : List Hdr) : Nat → List Hdr → Prop
  | nil (a : Nat) : IsChainFrom D a []
  | cons {a : Nat} {hd : Hdr} {rest : List Hdr} :
      hd ∈ D → hd.parent = a → IsChainFrom D hd.hash rest → IsChainFrom D a (hd :: rest)

def totalWeight (c : List Hdr) : Nat := (c.map (·.weight)).sum

/-- a maximum-total-weight chain descending from the anchor among the delivered headers -/
def IsHeaviestFrom (D : List Hdr) (anchor : Nat) (c : List Hdr) : Prop :=
  IsChainFrom D anchor c ∧ ∀ c', IsChainFrom D anchor c' → totalWeight c' ≤ totalWeight c

end Pycoin.Spec.Chain
