import Pycoin.Spec.Wire
import Pycoin.Model.Block
/-!
C14/C16 — the Bitcoin wire format of block headers, blocks and the message-level structures, written from
the protocol documentation ("Block Headers", "Serialized Blocks", "net_addr", "inv_vect"), not from pycoin.
Only the *structures* `Header`/`Block` are shared with the model.

    header : int32 version | char[32] prev_block | char[32] merkle_root | uint32 time | uint32 bits | uint32 nonce   (80 bytes)
    block  : header | compactSize #tx | tx*
    net_addr (in version): uint64 services (LE) | char[16] IPv6 / IPv4-mapped address | uint16 port (network order)
    inv_vect: uint32 type (LE) | char[32] hash
-/
namespace Pycoin.Spec.Block
open Pycoin Pycoin.Spec.Wire

def header (h : Header) : Bytes :=
  le 4 h.version.toNat ++ h.prev ++ h.merkleRoot ++ le 4 h.timestamp.toNat ++ le 4 h.difficulty.toNat ++ le 4 h.nonce.toNat

def block (b : Pycoin.Block) : Bytes :=
  header b.hdr ++ compactSize b.txs.length ++ (b.txs.map ser).flatten

/-- the block hash: SHA256d of the 80-byte header -/
def blockHash (h : Header) : Bytes := Pycoin.Hash.dsha256 (header h)

/-- `k` bytes, most significant first (network order) -/
def be (k n : Nat) : Bytes := (le k n).reverse

def netAddr (services : Nat) (ip : Bytes) (port : Nat) : Bytes := le 8 services ++ ip ++ be 2 port

def invVect (type : Nat) (hash : Bytes) : Bytes := le 4 type ++ hash

end Pycoin.Spec.Block
