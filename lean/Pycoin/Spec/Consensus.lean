import Pycoin.Spec.ScriptBasics
import Pycoin.Spec.ScriptParse
import Pycoin.Spec.SigEncoding
import Pycoin.Model.Hash
/-!
# Bitcoin Core's script interpreter (pre-taproot) as an executable specification

`EvalScript`, `VerifyWitnessProgram` (witness v0) and `VerifyScript` of Bitcoin Core's `script/interpreter.cpp`,
with Core's order of checks.  Written from Core, not from pycoin; this is the oracle of property C03.

* The stack is a `List Bytes` with the **top of the stack at the head** of the list.
* The signature check itself (`BaseSignatureChecker::CheckSig`: parse, sighash, ECDSA) is the parameter
  `chk : sig → pubkey → scriptCode → sigversion → m Bool`; everything around it is concrete.  It lives in an arbitrary monad `m`
  so that a driver can observe which checks were requested; the specification proper is the instance `m = Id`
  (`evalScript`, `verifyScript`), where `chk` is a pure function.
* `CheckLockTime` / `CheckSequence` are concrete over a `TxCtx` (nVersion, nLockTime, nSequence of the input).
* Vintage: the interpreter of Core 0.13–0.15 (the `script_tests.json` shipped in pycoin's test-suite): an executed
  `OP_CHECKLOCKTIMEVERIFY`/`OP_CHECKSEQUENCEVERIFY` whose flag is off is a NOP that `DISCOURAGE_UPGRADABLE_NOPS` rejects, and the
  witness "exactly one true item" failure is `EVAL_FALSE`.  No `CONST_SCRIPTCODE`, no taproot.
-/
namespace Pycoin.Spec.Consensus
open Pycoin.Hash

/-- what `GenericTransactionSignatureChecker` reads from the spending transaction for CLTV/CSV -/
structure TxCtx where
  /-- `nVersion` read as an unsigned 32-bit number -/
  version : Nat
  lockTime : Nat
  /-- `nSequence` of the input being verified -/
  sequence : Nat
  deriving Repr, DecidableEq, Inhabited

/-- `GenericTransactionSignatureChecker::CheckLockTime` (BIP65) -/
def checkLockTime (tx : TxCtx) (nLockTime : Int) : Bool :=
  let thr : Int := LOCKTIME_THRESHOLD
  let txLock : Int := tx.lockTime
  if !((txLock < thr && nLockTime < thr) || (txLock ≥ thr && nLockTime ≥ thr)) then false
  else if nLockTime > txLock then false
  else if tx.sequence == SEQUENCE_FINAL then false
  else true

/-- `GenericTransactionSignatureChecker::CheckSequence` (BIP112); `nSequence ≥ 0` here -/
def checkSequence (tx : TxCtx) (nSequence : Int) : Bool :=
  if tx.version < 2 then false
  else if tx.sequence &&& SEQUENCE_LOCKTIME_DISABLE_FLAG != 0 then false
  else
    let mask := SEQUENCE_LOCKTIME_TYPE_FLAG ||| SEQUENCE_LOCKTIME_MASK
    let txSeqMasked := tx.sequence &&& mask
    let nSeqMasked := nSequence.toNat &&& mask
    if !((txSeqMasked < SEQUENCE_LOCKTIME_TYPE_FLAG && nSeqMasked < SEQUENCE_LOCKTIME_TYPE_FLAG) ||
         (txSeqMasked ≥ SEQUENCE_LOCKTIME_TYPE_FLAG && nSeqMasked ≥ SEQUENCE_LOCKTIME_TYPE_FLAG)) then false
    else if nSeqMasked > txSeqMasked then false
    else true

/-- `BaseSignatureChecker::CheckSig(vchSig, vchPubKey, scriptCode, sigversion)` -/
abbrev SigChecker (m : Type → Type) := Bytes → Bytes → Bytes → SigVersion → m Bool

/-- the fixed inputs of one `EvalScript` call -/
structure Env where
  script : Bytes
  flags : Flags
  sigversion : SigVersion
  tx : TxCtx

/-- the mutable state of `EvalScript` -/
structure State where
  /-- top of the stack first -/
  stack : List Bytes
  /-- top of the alt stack first -/
  alt : List Bytes := []
  /-- `vfExec`, innermost conditional first -/
  vfExec : List Bool := []
  nOpCount : Nat := 0
  /-- `pbegincodehash` as an offset into the script -/
  codeSep : Nat := 0
  deriving Repr, DecidableEq, Inhabited

abbrev Res := Except ScriptError

/-- decode the top two / three stack items as 4-byte numbers (`bn1` is the deeper one) -/
def num (flags : Flags) (v : Bytes) : Res Int := scriptNum v flags.minimaldata

/-- unary numeric opcodes `OP_1ADD … OP_0NOTEQUAL` -/
def unaryNumOp (opcode : Nat) (bn : Int) : Option Int :=
  if opcode == OP_1ADD then some (bn + 1)
  else if opcode == OP_1SUB then some (bn - 1)
  else if opcode == OP_NEGATE then some (-bn)
  else if opcode == OP_ABS then some (if bn < 0 then -bn else bn)
  else if opcode == OP_NOT then some (if bn == 0 then 1 else 0)
  else if opcode == OP_0NOTEQUAL then some (if bn != 0 then 1 else 0)
  else none

def b2i (b : Bool) : Int := if b then 1 else 0

/-- binary numeric opcodes `OP_ADD … OP_MAX` (`bn1` below `bn2` on the stack) -/
def binaryNumOp (opcode : Nat) (bn1 bn2 : Int) : Option Int :=
  if opcode == OP_ADD then some (bn1 + bn2)
  else if opcode == OP_SUB then some (bn1 - bn2)
  else if opcode == OP_BOOLAND then some (b2i (bn1 != 0 && bn2 != 0))
  else if opcode == OP_BOOLOR then some (b2i (bn1 != 0 || bn2 != 0))
  else if opcode == OP_NUMEQUAL then some (b2i (bn1 == bn2))
  else if opcode == OP_NUMEQUALVERIFY then some (b2i (bn1 == bn2))
  else if opcode == OP_NUMNOTEQUAL then some (b2i (bn1 != bn2))
  else if opcode == OP_LESSTHAN then some (b2i (bn1 < bn2))
  else if opcode == OP_GREATERTHAN then some (b2i (bn1 > bn2))
  else if opcode == OP_LESSTHANOREQUAL then some (b2i (bn1 ≤ bn2))
  else if opcode == OP_GREATERTHANOREQUAL then some (b2i (bn1 ≥ bn2))
  else if opcode == OP_MIN then some (if bn1 < bn2 then bn1 else bn2)
  else if opcode == OP_MAX then some (if bn1 > bn2 then bn1 else bn2)
  else none

/-- the hash opcodes `OP_RIPEMD160 … OP_HASH256` -/
def hashOp (opcode : Nat) (v : Bytes) : Option Bytes :=
  if opcode == OP_RIPEMD160 then some (ripemd160 v)
  else if opcode == OP_SHA1 then some (sha1 v)
  else if opcode == OP_SHA256 then some (sha256 v)
  else if opcode == OP_HASH160 then some (hash160 v)
  else if opcode == OP_HASH256 then some (dsha256 v)
  else none

/-- remove the element at index `n` -/
def eraseAt (l : List Bytes) (n : Nat) : List Bytes := l.take n ++ l.drop (n + 1)

/-- The `switch (opcode)` of `EvalScript` for every opcode except `OP_CHECKSIG(VERIFY)` / `OP_CHECKMULTISIG(VERIFY)`.
Reached when `fExec`, or for `OP_IF … OP_ENDIF` (which includes `OP_VERIF`, `OP_VERNOTIF`) in any branch.
`pcNext` is the offset just after the instruction. -/
def execOp (env : Env) (st : State) (fExec : Bool) (opcode pcNext : Nat) : Res State :=
  let flags := env.flags
  let stk := st.stack
  let iso : Res State := .error .INVALID_STACK_OPERATION
  -- ( -- value )
  if opcode == OP_1NEGATE || (OP_1 ≤ opcode && opcode ≤ OP_16) then
    .ok { st with stack := scriptNumEncode (Int.ofNat opcode - Int.ofNat (OP_1 - 1)) :: stk }
  -- control
  else if opcode == OP_NOP then .ok st
  else if opcode == OP_CHECKLOCKTIMEVERIFY then
    if !flags.checklocktimeverify then
      -- not enabled; treat as a NOP2
      if flags.discourageUpgradableNops then .error .DISCOURAGE_UPGRADABLE_NOPS else .ok st
    else
      match stk with
      | [] => iso
      | top :: _ =>
        -- 5-byte operand; it stays on the stack
        match scriptNum top flags.minimaldata 5 with
        | .error e => .error e
        | .ok nLockTime =>
          if nLockTime < 0 then .error .NEGATIVE_LOCKTIME
          else if !checkLockTime env.tx nLockTime then .error .UNSATISFIED_LOCKTIME
          else .ok st
  else if opcode == OP_CHECKSEQUENCEVERIFY then
    if !flags.checksequenceverify then
      -- not enabled; treat as a NOP3
      if flags.discourageUpgradableNops then .error .DISCOURAGE_UPGRADABLE_NOPS else .ok st
    else
      match stk with
      | [] => iso
      | top :: _ =>
        match scriptNum top flags.minimaldata 5 with
        | .error e => .error e
        | .ok nSequence =>
          if nSequence < 0 then .error .NEGATIVE_LOCKTIME
          -- operand with the disable flag: behaves as a NOP
          else if nSequence.toNat &&& SEQUENCE_LOCKTIME_DISABLE_FLAG != 0 then .ok st
          else if !checkSequence env.tx nSequence then .error .UNSATISFIED_LOCKTIME
          else .ok st
  else if opcode == OP_NOP1 || (OP_NOP4 ≤ opcode && opcode ≤ OP_NOP10) then
    if flags.discourageUpgradableNops then .error .DISCOURAGE_UPGRADABLE_NOPS else .ok st
  else if opcode == OP_IF || opcode == OP_NOTIF then
    -- <expression> if [statements] [else [statements]] endif
    if fExec then
      match stk with
      | [] => .error .UNBALANCED_CONDITIONAL
      | vch :: rest =>
        if env.sigversion == .witnessV0 && flags.minimalif && (vch.length > 1 || (vch.length == 1 && vch != [1])) then
          .error .MINIMALIF
        else
          let fValue := castToBool vch
          let fValue := if opcode == OP_NOTIF then !fValue else fValue
          .ok { st with stack := rest, vfExec := fValue :: st.vfExec }
    else .ok { st with vfExec := false :: st.vfExec }
  else if opcode == OP_ELSE then
    match st.vfExec with
    | [] => .error .UNBALANCED_CONDITIONAL
    | b :: rest => .ok { st with vfExec := (!b) :: rest }
  else if opcode == OP_ENDIF then
    match st.vfExec with
    | [] => .error .UNBALANCED_CONDITIONAL
    | _ :: rest => .ok { st with vfExec := rest }
  else if opcode == OP_VERIFY then
    -- (true -- ) or (false -- false) and return
    match stk with
    | [] => iso
    | top :: rest => if castToBool top then .ok { st with stack := rest } else .error .VERIFY
  else if opcode == OP_RETURN then .error .OP_RETURN
  -- stack ops
  else if opcode == OP_TOALTSTACK then
    match stk with
    | [] => iso
    | top :: rest => .ok { st with stack := rest, alt := top :: st.alt }
  else if opcode == OP_FROMALTSTACK then
    match st.alt with
    | [] => .error .INVALID_ALTSTACK_OPERATION
    | top :: rest => .ok { st with stack := top :: stk, alt := rest }
  else if opcode == OP_2DROP then
    match stk with
    | _ :: _ :: rest => .ok { st with stack := rest }
    | _ => iso
  else if opcode == OP_2DUP then
    -- (x1 x2 -- x1 x2 x1 x2)
    match stk with
    | x2 :: x1 :: rest => .ok { st with stack := x2 :: x1 :: x2 :: x1 :: rest }
    | _ => iso
  else if opcode == OP_3DUP then
    -- (x1 x2 x3 -- x1 x2 x3 x1 x2 x3)
    match stk with
    | x3 :: x2 :: x1 :: rest => .ok { st with stack := x3 :: x2 :: x1 :: x3 :: x2 :: x1 :: rest }
    | _ => iso
  else if opcode == OP_2OVER then
    -- (x1 x2 x3 x4 -- x1 x2 x3 x4 x1 x2)
    match stk with
    | x4 :: x3 :: x2 :: x1 :: rest => .ok { st with stack := x2 :: x1 :: x4 :: x3 :: x2 :: x1 :: rest }
    | _ => iso
  else if opcode == OP_2ROT then
    -- (x1 x2 x3 x4 x5 x6 -- x3 x4 x5 x6 x1 x2)
    match stk with
    | x6 :: x5 :: x4 :: x3 :: x2 :: x1 :: rest => .ok { st with stack := x2 :: x1 :: x6 :: x5 :: x4 :: x3 :: rest }
    | _ => iso
  else if opcode == OP_2SWAP then
    -- (x1 x2 x3 x4 -- x3 x4 x1 x2)
    match stk with
    | x4 :: x3 :: x2 :: x1 :: rest => .ok { st with stack := x2 :: x1 :: x4 :: x3 :: rest }
    | _ => iso
  else if opcode == OP_IFDUP then
    match stk with
    | [] => iso
    | vch :: _ => .ok { st with stack := if castToBool vch then vch :: stk else stk }
  else if opcode == OP_DEPTH then
    .ok { st with stack := scriptNumEncode (Int.ofNat stk.length) :: stk }
  else if opcode == OP_DROP then
    match stk with
    | [] => iso
    | _ :: rest => .ok { st with stack := rest }
  else if opcode == OP_DUP then
    match stk with
    | [] => iso
    | vch :: _ => .ok { st with stack := vch :: stk }
  else if opcode == OP_NIP then
    -- (x1 x2 -- x2)
    match stk with
    | x2 :: _ :: rest => .ok { st with stack := x2 :: rest }
    | _ => iso
  else if opcode == OP_OVER then
    -- (x1 x2 -- x1 x2 x1)
    match stk with
    | x2 :: x1 :: rest => .ok { st with stack := x1 :: x2 :: x1 :: rest }
    | _ => iso
  else if opcode == OP_PICK || opcode == OP_ROLL then
    -- (xn ... x2 x1 x0 n - xn ... x2 x1 x0 xn) / (xn ... x2 x1 x0 n - ... x2 x1 x0 xn)
    match stk with
    | top :: rest@(_ :: _) =>
      match num flags top with
      | .error e => .error e
      | .ok bn =>
        let n := scriptNumGetInt bn
        if n < 0 || n ≥ Int.ofNat rest.length then iso
        else
          match rest[n.toNat]? with
          | none => iso
          | some vch =>
            let rest' := if opcode == OP_ROLL then eraseAt rest n.toNat else rest
            .ok { st with stack := vch :: rest' }
    | _ => iso
  else if opcode == OP_ROT then
    -- (x1 x2 x3 -- x2 x3 x1)
    match stk with
    | x3 :: x2 :: x1 :: rest => .ok { st with stack := x1 :: x3 :: x2 :: rest }
    | _ => iso
  else if opcode == OP_SWAP then
    match stk with
    | x2 :: x1 :: rest => .ok { st with stack := x1 :: x2 :: rest }
    | _ => iso
  else if opcode == OP_TUCK then
    -- (x1 x2 -- x2 x1 x2)
    match stk with
    | x2 :: x1 :: rest => .ok { st with stack := x2 :: x1 :: x2 :: rest }
    | _ => iso
  else if opcode == OP_SIZE then
    match stk with
    | [] => iso
    | top :: _ => .ok { st with stack := scriptNumEncode (Int.ofNat top.length) :: stk }
  -- bitwise logic
  else if opcode == OP_EQUAL || opcode == OP_EQUALVERIFY then
    match stk with
    | vch2 :: vch1 :: rest =>
      let fEqual := vch1 == vch2
      if opcode == OP_EQUALVERIFY then
        if fEqual then .ok { st with stack := rest } else .error .EQUALVERIFY
      else .ok { st with stack := boolBytes fEqual :: rest }
    | _ => iso
  -- numeric
  else if opcode == OP_1ADD || opcode == OP_1SUB || opcode == OP_NEGATE || opcode == OP_ABS || opcode == OP_NOT ||
          opcode == OP_0NOTEQUAL then
    match stk with
    | [] => iso
    | top :: rest =>
      match num flags top with
      | .error e => .error e
      | .ok bn =>
        match unaryNumOp opcode bn with
        | none => .error .BAD_OPCODE
        | some r => .ok { st with stack := scriptNumEncode r :: rest }
  else if OP_ADD ≤ opcode && opcode ≤ OP_MAX then
    -- (the disabled OP_MUL … OP_RSHIFT in this range were rejected before the switch)
    match stk with
    | v2 :: v1 :: rest =>
      match num flags v1, num flags v2 with
      | .error e, _ => .error e
      | _, .error e => .error e
      | .ok bn1, .ok bn2 =>
        match binaryNumOp opcode bn1 bn2 with
        | none => .error .BAD_OPCODE
        | some r =>
          if opcode == OP_NUMEQUALVERIFY then
            if castToBool (scriptNumEncode r) then .ok { st with stack := rest } else .error .NUMEQUALVERIFY
          else .ok { st with stack := scriptNumEncode r :: rest }
    | _ => iso
  else if opcode == OP_WITHIN then
    -- (x min max -- out)
    match stk with
    | v3 :: v2 :: v1 :: rest =>
      match num flags v1, num flags v2, num flags v3 with
      | .error e, _, _ => .error e
      | _, .error e, _ => .error e
      | _, _, .error e => .error e
      | .ok bn1, .ok bn2, .ok bn3 =>
        .ok { st with stack := boolBytes (bn2 ≤ bn1 && bn1 < bn3) :: rest }
    | _ => iso
  -- crypto
  else if OP_RIPEMD160 ≤ opcode && opcode ≤ OP_HASH256 then
    match stk with
    | [] => iso
    | vch :: rest =>
      match hashOp opcode vch with
      | none => .error .BAD_OPCODE
      | some h => .ok { st with stack := h :: rest }
  else if opcode == OP_CODESEPARATOR then
    -- Hash starts after the code separator
    .ok { st with codeSep := pcNext }
  else
    -- OP_RESERVED, OP_VER, OP_VERIF, OP_VERNOTIF, OP_RESERVED1/2, anything above OP_NOP10
    .error .BAD_OPCODE

/-- `scriptCode(pbegincodehash, pend)`, with the pushes of `sigs` removed by `FindAndDelete` in the base sigversion -/
def scriptCodeFor (env : Env) (st : State) (sigs : List Bytes) : Bytes :=
  let code := env.script.drop st.codeSep
  if env.sigversion == .base then sigs.foldl (fun c sig => findAndDelete c (pushData sig)) code else code

section monadic
variable {m : Type → Type} [Monad m]

/-- `OP_CHECKSIG` / `OP_CHECKSIGVERIFY` -/
def execCheckSig (chk : SigChecker m) (env : Env) (st : State) (opcode : Nat) : m (Res State) :=
  match st.stack with
  | vchPubKey :: vchSig :: rest =>
    -- Subset of script starting at the most recent codeseparator; drop the signature in pre-segwit scripts
    let scriptCode := scriptCodeFor env st [vchSig]
    match checkSignatureEncoding vchSig env.flags with
    | some e => pure (.error e)
    | none =>
      match checkPubKeyEncoding vchPubKey env.flags env.sigversion with
      | some e => pure (.error e)
      | none => do
        let fSuccess ← chk vchSig vchPubKey scriptCode env.sigversion
        if !fSuccess && env.flags.nullfail && !vchSig.isEmpty then pure (.error .SIG_NULLFAIL)
        else if opcode == OP_CHECKSIGVERIFY then
          if fSuccess then pure (.ok { st with stack := rest }) else pure (.error .CHECKSIGVERIFY)
        else pure (.ok { st with stack := boolBytes fSuccess :: rest })
  | _ => pure (.error .INVALID_STACK_OPERATION)

/-- the matching loop of `OP_CHECKMULTISIG`: `sigs` and `keys` top-most (= last pushed) first.  Both encodings are
checked for every pair examined; the loop gives up as soon as more signatures than keys remain. -/
def multisigLoop (chk : SigChecker m) (flags : Flags) (sv : SigVersion) (scriptCode : Bytes) :
    List Bytes → List Bytes → m (Res Bool)
  | [], _ => pure (.ok true)
  | _ :: _, [] => pure (.ok false)
  | vchSig :: sigs, vchPubKey :: keys =>
    match checkSignatureEncoding vchSig flags with
    | some e => pure (.error e)
    | none =>
      match checkPubKeyEncoding vchPubKey flags sv with
      | some e => pure (.error e)
      | none => do
        let fOk ← chk vchSig vchPubKey scriptCode sv
        let sigs' := if fOk then sigs else vchSig :: sigs
        -- If there are more signatures left than keys left, then too many signatures have failed.
        if sigs'.length > keys.length then pure (.ok false)
        else multisigLoop chk flags sv scriptCode sigs' keys

/-- `OP_CHECKMULTISIG` / `OP_CHECKMULTISIGVERIFY`: ([sig ...] num_of_signatures [pubkey ...] num_of_pubkeys -- bool) -/
def execCheckMultiSig (chk : SigChecker m) (env : Env) (st : State) (opcode : Nat) : m (Res State) :=
  let flags := env.flags
  let iso : m (Res State) := pure (.error .INVALID_STACK_OPERATION)
  match st.stack with
  | [] => iso
  | vKeys :: r1 =>
    match num flags vKeys with
    | .error e => pure (.error e)
    | .ok bnKeys =>
      let nKeysCount := scriptNumGetInt bnKeys
      if nKeysCount < 0 || nKeysCount > Int.ofNat MAX_PUBKEYS_PER_MULTISIG then pure (.error .PUBKEY_COUNT) else
      let nKeys := nKeysCount.toNat
      let nOpCount := st.nOpCount + nKeys
      if nOpCount > MAX_OPS_PER_SCRIPT then pure (.error .OP_COUNT) else
      -- stack.size() < 2 + nKeys
      if r1.length < nKeys + 1 then iso else
      let keys := r1.take nKeys
      match r1.drop nKeys with
      | [] => iso
      | vSigs :: r2 =>
        match num flags vSigs with
        | .error e => pure (.error e)
        | .ok bnSigs =>
          let nSigsCount := scriptNumGetInt bnSigs
          if nSigsCount < 0 || nSigsCount > nKeysCount then pure (.error .SIG_COUNT) else
          let nSigs := nSigsCount.toNat
          -- stack.size() < 3 + nKeys + nSigs: the signatures *and* the dummy element must be there
          if r2.length < nSigs + 1 then iso else
          let sigs := r2.take nSigs
          let r3 := r2.drop nSigs
          let scriptCode := scriptCodeFor env st sigs
          do
            match ← multisigLoop chk flags env.sigversion scriptCode sigs keys with
            | .error e => pure (.error e)
            | .ok fSuccess =>
              -- If the operation failed, we require that all signatures must be empty vector
              if !fSuccess && flags.nullfail && sigs.any (fun s => !s.isEmpty) then pure (.error .SIG_NULLFAIL) else
              -- the extra (dummy) argument
              match r3 with
              | [] => iso
              | dummy :: r4 =>
                if flags.nulldummy && !dummy.isEmpty then pure (.error .SIG_NULLDUMMY)
                else if opcode == OP_CHECKMULTISIGVERIFY then
                  if fSuccess then pure (.ok { st with stack := r4, nOpCount := nOpCount })
                  else pure (.error .CHECKMULTISIGVERIFY)
                else pure (.ok { st with stack := boolBytes fSuccess :: r4, nOpCount := nOpCount })

/-- one iteration of the `while (pc < pend)` loop after `GetOp` succeeded: `opcode`, its push `data`, and the offset
`pcNext` just after the instruction -/
def stepM (chk : SigChecker m) (env : Env) (st : State) (opcode : Nat) (data : Bytes) (pcNext : Nat) : m (Res State) :=
  let fExec := st.vfExec.all id
  if data.length > MAX_SCRIPT_ELEMENT_SIZE then pure (.error .PUSH_SIZE) else
  -- Note how OP_RESERVED does not count towards the opcode limit.
  let nOpCount := if opcode > OP_16 then st.nOpCount + 1 else st.nOpCount
  if nOpCount > MAX_OPS_PER_SCRIPT then pure (.error .OP_COUNT) else
  if isDisabledOpcode opcode then pure (.error .DISABLED_OPCODE) else
  let st := { st with nOpCount := nOpCount }
  let after : Res State → Res State := fun r =>
    match r with
    | .error e => .error e
    | .ok st' => if st'.stack.length + st'.alt.length > MAX_STACK_SIZE then .error .STACK_SIZE else .ok st'
  if fExec && opcode ≤ OP_PUSHDATA4 then
    if env.flags.minimaldata && !checkMinimalPush data opcode then pure (.error .MINIMALDATA)
    else pure (after (.ok { st with stack := data :: st.stack }))
  else if fExec || (OP_IF ≤ opcode && opcode ≤ OP_ENDIF) then
    if opcode == OP_CHECKSIG || opcode == OP_CHECKSIGVERIFY then
      return after (← execCheckSig chk env st opcode)
    else if opcode == OP_CHECKMULTISIG || opcode == OP_CHECKMULTISIGVERIFY then
      return after (← execCheckMultiSig chk env st opcode)
    else pure (after (execOp env st fExec opcode pcNext))
  else pure (after (.ok st))

/-- the `while (pc < pend)` loop; `rest` = undecoded part of the script, `pc` = its offset; `fuel ≥ rest.length` -/
def evalLoop (chk : SigChecker m) (env : Env) : Nat → Bytes → Nat → State → m (Res State)
  | 0, rest, _, st => pure (if rest.isEmpty then .ok st else .error .UNKNOWN_ERROR)
  | fuel + 1, rest, pc, st =>
    if rest.isEmpty then pure (.ok st) else
    match getScriptOp rest with
    | none => pure (.error .BAD_OPCODE)
    | some (opcode, data, rest', size) => do
      match ← stepM chk env st opcode data (pc + size) with
      | .error e => pure (.error e)
      | .ok st' => evalLoop chk env fuel rest' (pc + size) st'

/-- `EvalScript(stack, script, flags, checker, sigversion, serror)`; returns the final stack (top first) -/
def evalScriptM (chk : SigChecker m) (stack : List Bytes) (script : Bytes) (flags : Flags) (tx : TxCtx)
    (sv : SigVersion) : m (Res (List Bytes)) :=
  if script.length > MAX_SCRIPT_SIZE then pure (.error .SCRIPT_SIZE) else do
  let env : Env := { script := script, flags := flags, sigversion := sv, tx := tx }
  match ← evalLoop chk env script.length script 0 { stack := stack } with
  | .error e => pure (.error e)
  | .ok st => if !st.vfExec.isEmpty then pure (.error .UNBALANCED_CONDITIONAL) else pure (.ok st.stack)

/-- `VerifyWitnessProgram` (witness version 0 defined; 1..16 upgradable).  `witness` = witness stack, bottom first
(as serialised), `none` result = success. -/
def verifyWitnessProgramM (chk : SigChecker m) (witness : List Bytes) (witversion : Nat) (program : Bytes)
    (flags : Flags) (tx : TxCtx) : m (Option ScriptError) :=
  let run (stack : List Bytes) (scriptPubKey : Bytes) : m (Option ScriptError) :=
    -- Disallow stack item size > MAX_SCRIPT_ELEMENT_SIZE in witness stack
    if stack.any (fun it => it.length > MAX_SCRIPT_ELEMENT_SIZE) then pure (some .PUSH_SIZE) else do
    match ← evalScriptM chk stack scriptPubKey flags tx .witnessV0 with
    | .error e => pure (some e)
    | .ok out =>
      -- Scripts inside witness implicitly require cleanstack behaviour
      match out with
      | [top] => if castToBool top then pure none else pure (some .EVAL_FALSE)
      | _ => pure (some .EVAL_FALSE)
  if witversion == 0 then
    if program.length == WITNESS_V0_SCRIPTHASH_SIZE then
      -- Version 0 segregated witness program: SHA256(CScript) inside the program, CScript + inputs in witness
      match witness.reverse with
      | [] => pure (some .WITNESS_PROGRAM_WITNESS_EMPTY)
      | scriptPubKey :: stack =>
        if sha256 scriptPubKey != program then pure (some .WITNESS_PROGRAM_MISMATCH)
        else run stack scriptPubKey
    else if program.length == WITNESS_V0_KEYHASH_SIZE then
      -- Special case for pay-to-pubkeyhash; signature + pubkey in witness
      if witness.length != 2 then pure (some .WITNESS_PROGRAM_MISMATCH)
      else
        let scriptPubKey : Bytes :=
          [UInt8.ofNat OP_DUP, UInt8.ofNat OP_HASH160] ++ pushData program ++ [UInt8.ofNat OP_EQUALVERIFY, UInt8.ofNat OP_CHECKSIG]
        run witness.reverse scriptPubKey
    else pure (some .WITNESS_PROGRAM_WRONG_LENGTH)
  else if flags.discourageUpgradableWitnessProgram then pure (some .DISCOURAGE_UPGRADABLE_WITNESS_PROGRAM)
  else
    -- Higher version witness scripts return true for future softfork compatibility
    pure none

/-- `VerifyScript(scriptSig, scriptPubKey, witness, flags, checker, serror)`; `none` = success.
Core `assert`s `flags.permitted`; outside that the function is total here but not meaningful. -/
def verifyScriptM (chk : SigChecker m) (scriptSig scriptPubKey : Bytes) (witness : List Bytes) (flags : Flags)
    (tx : TxCtx) : m (Option ScriptError) :=
  let truthy (stack : List Bytes) : Bool := match stack with | [] => false | top :: _ => castToBool top
  if flags.sigpushonly && !isPushOnly scriptSig then pure (some .SIG_PUSHONLY) else do
  match ← evalScriptM chk [] scriptSig flags tx .base with
  | .error e => pure (some e)
  | .ok stackCopy =>
  match ← evalScriptM chk stackCopy scriptPubKey flags tx .base with
  | .error e => pure (some e)
  | .ok stack =>
  if !truthy stack then pure (some .EVAL_FALSE) else
  -- Bare witness programs
  let bare : m (Except ScriptError (Bool × List Bytes)) :=
    match (if flags.witness then isWitnessProgram scriptPubKey else none) with
    | some (witversion, program) =>
      -- The scriptSig must be _exactly_ CScript(), otherwise we reintroduce malleability.
      if !scriptSig.isEmpty then pure (.error .WITNESS_MALLEATED) else do
      match ← verifyWitnessProgramM chk witness witversion program flags tx with
      | some e => pure (.error e)
      | none => pure (.ok (true, stack.take 1))   -- stack.resize(1): bypass the cleanstack check
    | none => pure (.ok (false, stack))
  match ← bare with
  | .error e => pure (some e)
  | .ok (hadWitness, stack) =>
  -- Additional validation for spend-to-script-hash transactions:
  let p2sh : m (Except ScriptError (Bool × List Bytes)) :=
    if flags.p2sh && isPayToScriptHash scriptPubKey then
      -- scriptSig must be literals-only or validation fails
      if !isPushOnly scriptSig then pure (.error .SIG_PUSHONLY) else
      -- Restore stack.
      match stackCopy with
      | [] => pure (.error .UNKNOWN_ERROR)   -- cannot happen: the P2SH script would have failed on an empty stack
      | pubKeySerialized :: stack2 => do
        match ← evalScriptM chk stack2 pubKeySerialized flags tx .base with
        | .error e => pure (.error e)
        | .ok stack3 =>
        if !truthy stack3 then pure (.error .EVAL_FALSE) else
        -- P2SH witness program
        match (if flags.witness then isWitnessProgram pubKeySerialized else none) with
        | some (witversion, program) =>
          -- The scriptSig must be _exactly_ a single push of the redeemScript.
          if scriptSig != pushData pubKeySerialized then pure (.error .WITNESS_MALLEATED_P2SH) else do
          match ← verifyWitnessProgramM chk witness witversion program flags tx with
          | some e => pure (.error e)
          | none => pure (.ok (true, stack3.take 1))
        | none => pure (.ok (hadWitness, stack3))
    else pure (.ok (hadWitness, stack))
  match ← p2sh with
  | .error e => pure (some e)
  | .ok (hadWitness, stack) =>
  -- The CLEANSTACK check is only performed after potential P2SH evaluation
  if flags.cleanstack && stack.length != 1 then pure (some .CLEANSTACK)
  else if flags.witness && !hadWitness && !witness.isEmpty then pure (some .WITNESS_UNEXPECTED)
  else pure none

end monadic

/-! ### the specification proper: a pure signature checker -/

/-- `EvalScript` with a pure signature checker -/
def evalScript (chk : Bytes → Bytes → Bytes → SigVersion → Bool) (stack : List Bytes) (script : Bytes) (flags : Flags)
    (tx : TxCtx) (sv : SigVersion) : Res (List Bytes) :=
  Id.run (evalScriptM (m := Id) (fun a b c d => pure (chk a b c d)) stack script flags tx sv)

/-- `VerifyScript` with a pure signature checker; `none` = the spend is valid -/
def verifyScript (chk : Bytes → Bytes → Bytes → SigVersion → Bool) (scriptSig scriptPubKey : Bytes) (witness : List Bytes)
    (flags : Flags) (tx : TxCtx) : Option ScriptError :=
  Id.run (verifyScriptM (m := Id) (fun a b c d => pure (chk a b c d)) scriptSig scriptPubKey witness flags tx)

end Pycoin.Spec.Consensus
