import Pycoin.Py.Bytes
/-!
C14 — specification, written from Bitcoin Core's `merkleblock.cpp` (`CPartialMerkleTree`) and the
BIP37 text, *not* from pycoin.

A block has `n` transactions; `leaf p` is the txid at position `p < n`.  The tree is addressed
by `(height, pos)`: height 0 are the leaves, `treeWidth n h` nodes exist at height `h`, the root
is `(height n, 0)`.  A node whose right child does not exist hashes its left child with itself.
-/
namespace Pycoin.Spec.Merkle

/-- `CalcTreeWidth(height) = (nTransactions + (1 << height) - 1) >> height` -/
def treeWidth (n h : Nat) : Nat := (n + (1 <<< h) - 1) >>> h

/-- `nHeight = 0; while (CalcTreeWidth(nHeight) > 1) nHeight++;` (fuel `n` is enough since `2^n ≥ n`) -/
def heightLoop (n : Nat) : Nat → Nat → Nat
  | 0, h => h
  | f + 1, h => if treeWidth n h > 1 then heightLoop n f (h + 1) else h

def height (n : Nat) : Nat := heightLoop n n 0

/-- `CalcHash(height, pos, vTxid)`: the recursive Bitcoin definition of a merkle node -/
def calcHash (H : Bytes → Bytes) (leaf : Nat → Bytes) (n : Nat) : Nat → Nat → Bytes
  | 0, pos => leaf pos
  | h + 1, pos =>
    let left := calcHash H leaf n h (2 * pos)
    let right := if 2 * pos + 1 < treeWidth n h then calcHash H leaf n h (2 * pos + 1) else left
    H (left ++ right)

/-- the merkle root of `n ≥ 1` transactions -/
def root (H : Bytes → Bytes) (leaf : Nat → Bytes) (n : Nat) : Bytes := calcHash H leaf n (height n) 0

/-- the leaf positions below node `(h, pos)`: `p = pos << h; p < (pos+1) << h && p < nTransactions` -/
def leavesBelow (n h pos : Nat) : List Nat :=
  List.range' (pos <<< h) (min ((pos + 1) <<< h) n - (pos <<< h))

/-- `fParentOfMatch` -/
def parentOfMatch (mtch : Nat → Bool) (n h pos : Nat) : Bool := (leavesBelow n h pos).any mtch

/-- `TraverseAndBuild(height, pos, vTxid, vMatch)`: depth-first; one flag bit per visited node;
a hash for every node that is a leaf or has no matched descendant. Returns (vBits, vHash) of the subtree. -/
def build (H : Bytes → Bytes) (leaf : Nat → Bytes) (mtch : Nat → Bool) (n : Nat) : Nat → Nat → List Bool × List Bytes
  | 0, pos => ([parentOfMatch mtch n 0 pos], [leaf pos])
  | h + 1, pos =>
    if parentOfMatch mtch n (h + 1) pos then
      let l := build H leaf mtch n h (2 * pos)
      if 2 * pos + 1 < treeWidth n h then
        let r := build H leaf mtch n h (2 * pos + 1)
        (true :: (l.1 ++ r.1), l.2 ++ r.2)
      else (true :: l.1, l.2)
    else ([false], [calcHash H leaf n (h + 1) pos])

/-- a byte from its eight bits, least significant first -/
def byteOfBits (b0 b1 b2 b3 b4 b5 b6 b7 : Bool) : Nat :=
  b0.toNat + 2 * b1.toNat + 4 * b2.toNat + 8 * b3.toNat + 16 * b4.toNat + 32 * b5.toNat + 64 * b6.toNat + 128 * b7.toNat

/-- bit `p` of the bit vector; bits past the end are zero padding -/
def bitAt (bits : List Bool) (p : Nat) : Bool := bits[p]?.getD false

/-- byte `i` of the serialised flag bits: `vBytes[p / 8] |= vBits[p] << (p % 8)` -/
def flagByte (bits : List Bool) (i : Nat) : UInt8 :=
  UInt8.ofNat (byteOfBits (bitAt bits (8 * i)) (bitAt bits (8 * i + 1)) (bitAt bits (8 * i + 2)) (bitAt bits (8 * i + 3))
    (bitAt bits (8 * i + 4)) (bitAt bits (8 * i + 5)) (bitAt bits (8 * i + 6)) (bitAt bits (8 * i + 7)))

/-- `vBytes.resize((vBits.size() + 7) / 8)` and the bit placement above -/
def packBits (bits : List Bool) : Bytes := (List.range ((bits.length + 7) / 8)).map (flagByte bits)

/-- the honest BIP37 proof for `n` transactions and a match predicate: (flag bytes, hashes) -/
def proof (H : Bytes → Bytes) (leaf : Nat → Bytes) (mtch : Nat → Bool) (n : Nat) : Bytes × List Bytes :=
  let r := build H leaf mtch n (height n) 0
  (packBits r.1, r.2)

/-- the matched txids in block order: what a verifier must extract -/
def matched (leaf : Nat → Bytes) (mtch : Nat → Bool) (n : Nat) : List Bytes :=
  ((List.range n).filter mtch).map leaf

end Pycoin.Spec.Merkle
