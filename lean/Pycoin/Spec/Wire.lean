import Pycoin.Model.Tx
/-!
The Bitcoin wire format of a transaction, written from the protocol documentation
(developer reference "Raw transaction format", BIP144 "Segregated Witness (Peer Services)"), not from pycoin.
Only the *structures* `Tx`/`TxIn`/`TxOut` are shared with the model; every encoder here is separate.

    legacy :  int32 version | compactSize #in | txin* | compactSize #out | txout* | uint32 lock_time
    BIP144 :  int32 version | 00 | 01 | compactSize #in | txin* | compactSize #out | txout* | witness* | uint32 lock_time
    txin   :  char[32] prev hash | uint32 prev index | compactSize len | script | uint32 sequence
    txout  :  int64 value | compactSize len | pk_script
    witness:  compactSize #items | (compactSize len | item)*          one per txin, in order
    txid   =  SHA256d(legacy form)        wtxid = SHA256d(BIP144 form, or the legacy form when no witness is present)
-/
namespace Pycoin.Spec.Wire
open Pycoin

/-- `k` bytes, least significant first -/
def le : Nat → Nat → Bytes
  | 0, _ => []
  | k + 1, n => UInt8.ofNat (n % 256) :: le k (n / 256)

/-- compactSize unsigned integer: 1, 3, 5 or 9 bytes, the shortest form that fits -/
def compactSize (n : Nat) : Bytes :=
  if n ≤ 0xFC then [UInt8.ofNat n]
  else if n ≤ 0xFFFF then 0xFD :: le 2 n
  else if n ≤ 0xFFFFFFFF then 0xFE :: le 4 n
  else 0xFF :: le 8 n

def varBytes (b : Bytes) : Bytes := compactSize b.length ++ b

def txin (t : TxIn) : Bytes :=
  t.prevHash ++ le 4 t.prevIndex.toNat ++ varBytes t.script ++ le 4 t.sequence.toNat

def txout (t : TxOut) : Bytes := le 8 t.value.toNat ++ varBytes t.script

def witness (w : List Bytes) : Bytes := compactSize w.length ++ (w.map varBytes).flatten

def legacy (tx : Tx) : Bytes :=
  le 4 tx.version.toNat ++ compactSize tx.ins.length ++ (tx.ins.map txin).flatten ++
    compactSize tx.outs.length ++ (tx.outs.map txout).flatten ++ le 4 tx.lockTime.toNat

def bip144 (tx : Tx) : Bytes :=
  le 4 tx.version.toNat ++ [0x00, 0x01] ++ compactSize tx.ins.length ++ (tx.ins.map txin).flatten ++
    compactSize tx.outs.length ++ (tx.outs.map txout).flatten ++
    (tx.ins.map (fun t => witness t.witness)).flatten ++ le 4 tx.lockTime.toNat

/-- some input carries a non-empty witness stack -/
def hasWitness (tx : Tx) : Bool := tx.ins.any (fun t => !t.witness.isEmpty)

/-- the serialisation on the wire: BIP144 form when a witness is present, legacy form otherwise -/
def ser (tx : Tx) : Bytes := if hasWitness tx then bip144 tx else legacy tx

/-- the transaction with every witness stack removed -/
def stripWitness (tx : Tx) : Tx := { tx with ins := tx.ins.map (fun t => { t with witness := [] }) }

def txid (tx : Tx) : Bytes := Pycoin.Hash.dsha256 (legacy tx)
def wtxid (tx : Tx) : Bytes := Pycoin.Hash.dsha256 (ser tx)

end Pycoin.Spec.Wire
