import Pycoin.Py.Bytes
/-!
RIPEMD-160 written from the standard (Dobbertin, Bosselaers, Preneel, "RIPEMD-160: a strengthened
version of RIPEMD", 1996; ISO/IEC 10118-3), over 32-bit words.  Independent of pycoin: the tables
below are the standard's `r, r', s, s', K, K'`.  Validated against `hashlib.new("ripemd160")`
by the C19 correspondence check on every run (op `ripemd160_spec`), not verified.

Written for provability (folds over `List.range`, list tables) rather than speed: it is applied to
32-byte SHA-256 digests almost everywhere (`hash160`).
-/
namespace Pycoin.Hash
namespace Rmd

/-- message word selection `r(j)`, left line -/
def rL : List Nat := [
  0, 1, 2, 3, 4, 5, 6, 7, 8, 9, 10, 11, 12, 13, 14, 15,
  7, 4, 13, 1, 10, 6, 15, 3, 12, 0, 9, 5, 2, 14, 11, 8,
  3, 10, 14, 4, 9, 15, 8, 1, 2, 7, 0, 6, 13, 11, 5, 12,
  1, 9, 11, 10, 0, 8, 12, 4, 13, 3, 7, 15, 14, 5, 6, 2,
  4, 0, 5, 9, 7, 12, 2, 10, 14, 1, 3, 8, 11, 6, 15, 13]

/-- message word selection `r'(j)`, right line -/
def rR : List Nat := [
  5, 14, 7, 0, 9, 2, 11, 4, 13, 6, 15, 8, 1, 10, 3, 12,
  6, 11, 3, 7, 0, 13, 5, 10, 14, 15, 8, 12, 4, 9, 1, 2,
  15, 5, 1, 3, 7, 14, 6, 9, 11, 8, 12, 2, 10, 0, 4, 13,
  8, 6, 4, 1, 3, 11, 15, 0, 5, 12, 2, 13, 9, 7, 10, 14,
  12, 15, 10, 4, 1, 5, 8, 7, 6, 2, 13, 14, 0, 3, 9, 11]

/-- rotation amounts `s(j)`, left line -/
def sL : List Nat := [
  11, 14, 15, 12, 5, 8, 7, 9, 11, 13, 14, 15, 6, 7, 9, 8,
  7, 6, 8, 13, 11, 9, 7, 15, 7, 12, 15, 9, 11, 7, 13, 12,
  11, 13, 6, 7, 14, 9, 13, 15, 14, 8, 13, 6, 5, 12, 7, 5,
  11, 12, 14, 15, 14, 15, 9, 8, 9, 14, 5, 6, 8, 6, 5, 12,
  9, 15, 5, 11, 6, 8, 13, 12, 5, 12, 13, 14, 11, 8, 5, 6]

/-- rotation amounts `s'(j)`, right line -/
def sR : List Nat := [
  8, 9, 9, 11, 13, 15, 15, 5, 7, 7, 8, 11, 14, 14, 12, 6,
  9, 13, 15, 7, 12, 8, 9, 11, 7, 7, 12, 7, 6, 15, 13, 11,
  9, 7, 15, 11, 8, 6, 6, 14, 12, 13, 5, 14, 13, 13, 7, 5,
  15, 5, 8, 11, 14, 14, 6, 14, 6, 9, 12, 9, 12, 5, 15, 8,
  8, 5, 12, 9, 12, 5, 14, 6, 8, 13, 6, 5, 15, 13, 11, 11]

/-- added constants `K(j)` per group of 16 steps, left line -/
def kL : List UInt32 := [0x00000000, 0x5A827999, 0x6ED9EBA1, 0x8F1BBCDC, 0xA953FD4E]

/-- added constants `K'(j)`, right line -/
def kR : List UInt32 := [0x50A28BE6, 0x5C4DD124, 0x6D703EF3, 0x7A6D76E9, 0x00000000]

/-- the nonlinear functions `f(j, x, y, z)`, indexed by group `i = j / 16` -/
def f (i : Nat) (x y z : UInt32) : UInt32 :=
  match i with
  | 0 => x ^^^ y ^^^ z
  | 1 => (x &&& y) ||| (~~~x &&& z)
  | 2 => (x ||| ~~~y) ^^^ z
  | 3 => (x &&& z) ||| (y &&& ~~~z)
  | _ => x ^^^ (y ||| ~~~z)

/-- cyclic left rotation of a 32-bit word -/
def rotl (x : UInt32) (n : Nat) : UInt32 :=
  (x <<< UInt32.ofNat n) ||| (x >>> UInt32.ofNat (32 - n))

structure St where
  a : UInt32
  b : UInt32
  c : UInt32
  d : UInt32
  e : UInt32
  deriving DecidableEq, Repr

/-- one step of one line: `T := rol_s(A + f(B,C,D) + X + K) + E; A := E; E := D; D := rol_10(C); C := B; B := T` -/
def step (i : Nat) (k x : UInt32) (s : Nat) (t : St) : St :=
  ⟨t.e, rotl (t.a + f i t.b t.c t.d + x + k) s + t.e, t.b, rotl t.c 10, t.d⟩

/-- step `j` of both lines over the message block `X` (16 words) -/
def round (X : List UInt32) (p : St × St) (j : Nat) : St × St :=
  (step (j / 16) (kL.getD (j / 16) 0) (X.getD (rL.getD j 0) 0) (sL.getD j 0) p.1,
   step (4 - j / 16) (kR.getD (j / 16) 0) (X.getD (rR.getD j 0) 0) (sR.getD j 0) p.2)

/-- the compression function: 80 steps on each line, then the combination of both lines with the chaining value -/
def compress (h : St) (X : List UInt32) : St :=
  let p := (List.range 80).foldl (round X) (h, h)
  ⟨h.b + p.1.c + p.2.d, h.c + p.1.d + p.2.e, h.d + p.1.e + p.2.a, h.e + p.1.a + p.2.b, h.a + p.1.b + p.2.c⟩

def init : St := ⟨0x67452301, 0xEFCDAB89, 0x98BADCFE, 0x10325476, 0xC3D2E1F0⟩

/-- little-endian 32-bit words of a block: `X_i = b_{4i} + 2^8 b_{4i+1} + 2^16 b_{4i+2} + 2^24 b_{4i+3}` -/
def wordsLE : Bytes → List UInt32
  | a :: b :: c :: d :: rest => UInt32.ofNat (leNat [a, b, c, d]) :: wordsLE rest
  | _ => []

/-- padding: a one bit, zeros up to 56 mod 64, then the bit length mod 2^64 as 8 little-endian bytes -/
def pad (msg : Bytes) : Bytes :=
  msg ++ [0x80] ++ List.replicate ((119 - msg.length % 64) % 64) 0 ++ leBytes (8 * msg.length) 8

/-- process `n` consecutive 64-byte blocks -/
def foldBlocks : Nat → St → Bytes → St
  | 0, s, _ => s
  | n + 1, s, bs => foldBlocks n (compress s (wordsLE (bs.take 64))) (bs.drop 64)

def out (s : St) : Bytes :=
  leBytes s.a.toNat 4 ++ leBytes s.b.toNat 4 ++ leBytes s.c.toNat 4 ++ leBytes s.d.toNat 4 ++ leBytes s.e.toNat 4

end Rmd

/-- RIPEMD-160 of a byte string (the standard's definition) -/
def ripemd160 (msg : Bytes) : Bytes :=
  let p := Rmd.pad msg
  Rmd.out (Rmd.foldBlocks (p.length / 64) Rmd.init p)

end Pycoin.Hash
