import Pycoin.Py.Bytes
import Pycoin.Model.HmacSha256
/-!
RFC 6979 §2.3 and §3.2, written from the RFC text for an arbitrary group order `q` (any `qlen`) and an
arbitrary HMAC (`hmac key msg`, output length `hlen` octets).  Independent of pycoin's code.
-/
namespace Pycoin.Spec.RFC6979
open Pycoin

/-- `qlen`: the binary length of `q` (§2.3.1) -/
def qlen (q : Nat) : Nat := if q = 0 then 0 else Nat.log2 q + 1

/-- `rlen / 8`: `qlen` rounded up to whole octets -/
def rolen (q : Nat) : Nat := (qlen q + 7) / 8

/-- §2.3.2 bits2int on an octet string (blen = 8·length): the leftmost `qlen` bits when `blen > qlen`,
the whole value otherwise -/
def bits2int (q : Nat) (b : Bytes) : Nat :=
  let blen := 8 * b.length
  if blen > qlen q then beNat b / 2 ^ (blen - qlen q) else beNat b

/-- §2.3.3 int2octets: big-endian, exactly `rlen/8` octets (`x < 2^rlen`) -/
def int2octets (q : Nat) (x : Nat) : Bytes := beBytes x (rolen q)

/-- §2.3.4 bits2octets -/
def bits2octets (q : Nat) (b : Bytes) : Bytes := int2octets q (bits2int q b % q)

/-- step h.2: `while tlen < qlen: V = HMAC_K(V); T = T ‖ V`; fuel `qlen + 1` is enough when `hlen > 0` -/
def tLoop (hmac : Bytes → Bytes → Bytes) (q : Nat) (K : Bytes) : Nat → Bytes → Bytes → Bytes × Bytes
  | 0, V, T => (V, T)
  | f + 1, V, T =>
    if 8 * T.length < qlen q then
      let V := hmac K V
      tLoop hmac q K f V (T ++ V)
    else (V, T)

/-- step h, repeated until a suitable `k` is found (fuel: the RFC gives no bound) -/
def hLoop (hmac : Bytes → Bytes → Bytes) (q : Nat) : Nat → Bytes → Bytes → Option Nat
  | 0, _, _ => none
  | f + 1, K, V =>
    let (V, T) := tLoop hmac q K (qlen q + 1) V []
    let k := bits2int q T
    if 1 ≤ k ∧ k < q then some k
    else
      let K := hmac K (V ++ [0])
      let V := hmac K V
      hLoop hmac q f K V

/-- §3.2 with `h1 = H(m)` given (an octet string of `hlen` octets), private key `x` -/
def generateKWith (hmac : Bytes → Bytes → Bytes) (hlen : Nat) (fuel : Nat) (q x : Nat) (h1 : Bytes) : Option Nat :=
  let V : Bytes := List.replicate hlen 1                                  -- b
  let K : Bytes := List.replicate hlen 0                                  -- c
  let K := hmac K (V ++ [0] ++ int2octets q x ++ bits2octets q h1)        -- d
  let V := hmac K V                                                       -- e
  let K := hmac K (V ++ [1] ++ int2octets q x ++ bits2octets q h1)        -- f
  let V := hmac K V                                                       -- g
  hLoop hmac q fuel K V                                                   -- h

def generateK (fuel : Nat) (q x : Nat) (h1 : Bytes) : Option Nat :=
  generateKWith Pycoin.Hash.hmacSha256L 32 fuel q x h1

end Pycoin.Spec.RFC6979
