import Pycoin.Model.Tx
import Pycoin.Model.ScriptStreamer
import Pycoin.Spec.Wire
/-!
The consensus definition of signature hashes, written from the sources of the definitions and not from pycoin:

* legacy (`SigVersion::BASE`): Bitcoin Core `script/interpreter.cpp` — `CTransactionSignatureSerializer`
  (`SerializeScriptCode`, `SerializeInput`, `SerializeOutput`, `Serialize`), `SignatureHash`, `FindAndDelete`,
  `CScript::operator<<(const std::vector<unsigned char>&)`, `GetScriptOp`;
* witness v0: BIP143 "Specification";
* Bitcoin Cash: the UAHF "replay protected sighash" specification (BIP143 digest, `SIGHASH_FORKID = 0x40` mandatory,
  the 24 upper bits of the 4-byte hash type carry the fork value, 0 for BCH);
* Bitcoin Gold: the same with fork id 79 (`nForkHashType = nHashType | (forkId << 8)`);
* Groestlcoin: every double SHA-256 of the above is a single SHA-256.

Only the structures `Tx`/`TxIn`/`TxOut`, the primitive encoders of `Spec/Wire.lean` (`le`, `compactSize`, `varBytes`,
`txout`) and `Spec.getScriptOp` (Core's `GetScriptOp`) are shared.  SHA-256 is `Pycoin.Hash.sha256`.
A transaction is read with its fields in range (`Tx.WF`); integer fields are cast with `toNat`.
-/
namespace Pycoin.Spec.Sighash
open Pycoin Pycoin.Spec.Wire

def SIGHASH_ALL : Nat := 1
def SIGHASH_NONE : Nat := 2
def SIGHASH_SINGLE : Nat := 3
def SIGHASH_FORKID : Nat := 0x40
def SIGHASH_ANYONECANPAY : Nat := 0x80
def OP_CODESEPARATOR : Nat := 0xab

def fAnyoneCanPay (nHashType : Nat) : Bool := nHashType &&& SIGHASH_ANYONECANPAY != 0
def fHashSingle (nHashType : Nat) : Bool := nHashType &&& 0x1f == SIGHASH_SINGLE
def fHashNone (nHashType : Nat) : Bool := nHashType &&& 0x1f == SIGHASH_NONE

/-! ## scripts as instruction sequences -/

/-- how far `GetScriptOp` has moved its iterator when it returns false on a non-empty script: past the opcode, and
past the length field of a PUSHDATA when that field is complete -/
def failAdvance : Bytes → Nat
  | [] => 0
  | op :: r =>
    let w := if op.toNat < 0x4c then 0 else if op.toNat = 0x4c then 1 else if op.toNat = 0x4d then 2 else 4
    if r.length < w then 1 else 1 + w

/-- decode instructions from the front while `GetScriptOp` succeeds: the instructions (opcode, bytes of the whole
instruction) and the undecodable remainder (empty for a script whose pushes are complete) -/
def instructions : Nat → Bytes → List (Nat × Bytes) × Bytes
  | 0, s => ([], s)
  | f + 1, s =>
    match Spec.getScriptOp s with
    | none => ([], s)
    | some (opcode, _, rest) =>
      let r := instructions f rest
      ((opcode, s.take (s.length - rest.length)) :: r.1, r.2)

/-- every push of the script is complete (`GetScriptOp` succeeds up to the end) -/
def Complete (s : Bytes) : Prop := (instructions s.length s).2 = []

instance (s : Bytes) : Decidable (Complete s) := by unfold Complete; infer_instance

/-- `CScript() << vch`: the push instruction chosen from the length alone -/
def pushData (b : Bytes) : Bytes :=
  let n := b.length
  if n < 0x4c then UInt8.ofNat n :: b
  else if n ≤ 0xff then 0x4c :: UInt8.ofNat n :: b
  else if n ≤ 0xffff then 0x4d :: (le 2 n ++ b)
  else 0x4e :: (le 4 n ++ b)

/-- `FindAndDelete(script, b)`: at every instruction boundary skip all consecutive occurrences of the byte
string `b`, then copy one instruction; what follows an undecodable instruction is copied unchanged -/
def findAndDeleteAux (b : Bytes) : Nat → Bytes → Bytes
  | 0, s => s
  | f + 1, s =>
    if b.isPrefixOf s then findAndDeleteAux b f (s.drop b.length)
    else
      match Spec.getScriptOp s with
      | none => s
      | some (_, _, rest) => s.take (s.length - rest.length) ++ findAndDeleteAux b f rest

def findAndDelete (script b : Bytes) : Bytes :=
  if b.isEmpty then script else findAndDeleteAux b (script.length + 1) script

/-- `scriptCode` for a legacy CHECKSIG/CHECKMULTISIG: every signature's push removed -/
def scriptCodeFor (code : Bytes) (sigs : List Bytes) : Bytes :=
  sigs.foldl (fun c sig => findAndDelete c (pushData sig)) code

/-- `SerializeScriptCode`: compact size of `size − #OP_CODESEPARATOR`, then the script with those instructions skipped.
For a script with a truncated final push, the last `write` stops where the failed `GetScriptOp` left the iterator
(Core then writes fewer bytes than announced; such a script can never validate). -/
def serializeScriptCode (code : Bytes) : Bytes :=
  let p := instructions code.length code
  let nSep := (p.1.filter (fun i => i.1 == OP_CODESEPARATOR)).length
  compactSize (code.length - nSep) ++
    ((p.1.filter (fun i => i.1 != OP_CODESEPARATOR)).map (·.2)).flatten ++ p.2.take (failAdvance p.2)

/-! ## legacy: `CTransactionSignatureSerializer` -/

def serializeInput (tx : Tx) (code : Bytes) (nIn nHashType nInput : Nat) : Bytes :=
  let nInput := if fAnyoneCanPay nHashType then nIn else nInput
  match tx.ins[nInput]? with
  | none => []
  | some t =>
    t.prevHash ++ le 4 t.prevIndex.toNat ++
    (if nInput != nIn then compactSize 0 else serializeScriptCode code) ++
    (if nInput != nIn && (fHashSingle nHashType || fHashNone nHashType) then le 4 0 else le 4 t.sequence.toNat)

def serializeOutput (tx : Tx) (nIn nHashType nOutput : Nat) : Bytes :=
  if fHashSingle nHashType && nOutput != nIn then
    le 8 0xffffffffffffffff ++ compactSize 0                  -- `CTxOut()`: nValue = −1, empty script
  else
    match tx.outs[nOutput]? with
    | none => []
    | some o => txout o

/-- `ss << txTmp << nHashType` -/
def legacyPreimage (tx : Tx) (nIn : Nat) (code : Bytes) (nHashType : Nat) : Bytes :=
  let nInputs := if fAnyoneCanPay nHashType then 1 else tx.ins.length
  let nOutputs := if fHashNone nHashType then 0 else if fHashSingle nHashType then nIn + 1 else tx.outs.length
  le 4 tx.version.toNat ++
  compactSize nInputs ++ ((List.range nInputs).map (serializeInput tx code nIn nHashType)).flatten ++
  compactSize nOutputs ++ ((List.range nOutputs).map (serializeOutput tx nIn nHashType)).flatten ++
  le 4 tx.lockTime.toNat ++ le 4 nHashType

/-- `uint256::ONE` as it lies in memory -/
def one : Bytes := 1 :: List.replicate 31 0

/-- `SignatureHash(scriptCode, tx, nIn, nHashType, amount, SigVersion::BASE)`; `H` = the message digest
(double SHA-256; single for Groestlcoin) -/
def signatureHashLegacy (H : Bytes → Bytes) (tx : Tx) (nIn : Nat) (code : Bytes) (nHashType : Nat) : Bytes :=
  if fHashSingle nHashType && decide (nIn ≥ tx.outs.length) then one
  else H (legacyPreimage tx nIn code nHashType)

/-! ## BIP143 -/

def zero32 : Bytes := List.replicate 32 0

def outpoint (t : TxIn) : Bytes := t.prevHash ++ le 4 t.prevIndex.toNat

/-- 2. hashPrevouts -/
def hashPrevouts (H : Bytes → Bytes) (tx : Tx) (nHashType : Nat) : Bytes :=
  if !fAnyoneCanPay nHashType then H (tx.ins.map outpoint).flatten else zero32

/-- 3. hashSequence -/
def hashSequence (H : Bytes → Bytes) (tx : Tx) (nHashType : Nat) : Bytes :=
  if !fAnyoneCanPay nHashType && !fHashSingle nHashType && !fHashNone nHashType then
    H (tx.ins.map (fun t => le 4 t.sequence.toNat)).flatten
  else zero32

/-- 8. hashOutputs -/
def hashOutputs (H : Bytes → Bytes) (tx : Tx) (nIn nHashType : Nat) : Bytes :=
  if !fHashSingle nHashType && !fHashNone nHashType then H (tx.outs.map txout).flatten
  else if fHashSingle nHashType then
    match tx.outs[nIn]? with
    | some o => H (txout o)
    | none => zero32
  else zero32

/-- the ten items of the BIP143 message, for input `nIn` spending `amount` with script code `code` -/
def bip143Preimage (H : Bytes → Bytes) (tx : Tx) (nIn : Nat) (code : Bytes) (amount nHashType : Nat) : Bytes :=
  match tx.ins[nIn]? with
  | none => []
  | some t =>
    le 4 tx.version.toNat ++ hashPrevouts H tx nHashType ++ hashSequence H tx nHashType ++ outpoint t ++
    varBytes code ++ le 8 amount ++ le 4 t.sequence.toNat ++ hashOutputs H tx nIn nHashType ++
    le 4 tx.lockTime.toNat ++ le 4 nHashType

def signatureHashBip143 (H : Bytes → Bytes) (tx : Tx) (nIn : Nat) (code : Bytes) (amount nHashType : Nat) : Bytes :=
  H (bip143Preimage H tx nIn code amount nHashType)

/-! ## fork-id coins -/

/-- replay-protected signature hash: `none` = the signature is refused (fork-id bit missing) -/
def signatureHashForkId (forkValue : Nat) (H : Bytes → Bytes) (tx : Tx) (nIn : Nat) (code : Bytes) (amount nHashType : Nat) :
    Option Bytes :=
  if nHashType &&& SIGHASH_FORKID == 0 then none
  else some (signatureHashBip143 H tx nIn code amount (nHashType ||| (forkValue <<< 8)))

def BCH_FORK_VALUE : Nat := 0
def BTG_FORK_ID : Nat := 79

def dsha (b : Bytes) : Bytes := Pycoin.Hash.sha256 (Pycoin.Hash.sha256 b)

#guard pushData [] = [0] && pushData [5] = [1, 5] && (pushData (List.replicate 76 7)).take 2 = [0x4c, 76]
#guard findAndDelete [0x51, 0x02, 0x51, 0x51, 0x51] [0x51] = [0x02, 0x51, 0x51]
#guard findAndDelete [0x51, 0x51, 0xac, 0x05, 0x51] [0x51] = [0xac, 0x05, 0x51]
#guard serializeScriptCode [0xab, 0x51, 0xab, 0x01, 0xab, 0xab] = [3, 0x51, 0x01, 0xab]
#guard serializeScriptCode [0x05, 0xab, 0xab] = [3, 0x05]
#guard decide (Complete [0x01, 0xab, 0x51]) && !decide (Complete [0x05, 0xab, 0xab])

end Pycoin.Spec.Sighash
