import Pycoin.Py.Bytes
/-!
Bitcoin Core script interpreter (pre-taproot) — basic vocabulary: error codes, verification
flags, opcode numbers, `CScriptNum`, `CastToBool`.

Written from Bitcoin Core's `script/script.h`, `script/script_error.h`, `script/interpreter.{h,cpp}`;
nothing here is taken from pycoin.  Namespace `Pycoin.Spec.Consensus`.
-/
namespace Pycoin.Spec.Consensus

/-- `ScriptError_t` (script_error.h) without the taproot and CONST_SCRIPTCODE additions.  Constructor names are
Core's `SCRIPT_ERR_*` names. -/
inductive ScriptError
  | OK | UNKNOWN_ERROR | EVAL_FALSE | OP_RETURN
  | SCRIPT_SIZE | PUSH_SIZE | OP_COUNT | STACK_SIZE | SIG_COUNT | PUBKEY_COUNT
  | VERIFY | EQUALVERIFY | CHECKMULTISIGVERIFY | CHECKSIGVERIFY | NUMEQUALVERIFY
  | BAD_OPCODE | DISABLED_OPCODE | INVALID_STACK_OPERATION | INVALID_ALTSTACK_OPERATION | UNBALANCED_CONDITIONAL
  | NEGATIVE_LOCKTIME | UNSATISFIED_LOCKTIME
  | SIG_HASHTYPE | SIG_DER | MINIMALDATA | SIG_PUSHONLY | SIG_HIGH_S | SIG_NULLDUMMY | PUBKEYTYPE
  | CLEANSTACK | MINIMALIF | SIG_NULLFAIL
  | DISCOURAGE_UPGRADABLE_NOPS | DISCOURAGE_UPGRADABLE_WITNESS_PROGRAM
  | WITNESS_PROGRAM_WRONG_LENGTH | WITNESS_PROGRAM_WITNESS_EMPTY | WITNESS_PROGRAM_MISMATCH
  | WITNESS_MALLEATED | WITNESS_MALLEATED_P2SH | WITNESS_UNEXPECTED | WITNESS_PUBKEYTYPE
  deriving DecidableEq, Repr, Inhabited

/-- the name used by Core's `script_tests.json` (`FormatScriptError` in script_tests.cpp) -/
def ScriptError.name : ScriptError → String
  | .OK => "OK" | .UNKNOWN_ERROR => "UNKNOWN_ERROR" | .EVAL_FALSE => "EVAL_FALSE" | .OP_RETURN => "OP_RETURN"
  | .SCRIPT_SIZE => "SCRIPT_SIZE" | .PUSH_SIZE => "PUSH_SIZE" | .OP_COUNT => "OP_COUNT" | .STACK_SIZE => "STACK_SIZE"
  | .SIG_COUNT => "SIG_COUNT" | .PUBKEY_COUNT => "PUBKEY_COUNT"
  | .VERIFY => "VERIFY" | .EQUALVERIFY => "EQUALVERIFY" | .CHECKMULTISIGVERIFY => "CHECKMULTISIGVERIFY"
  | .CHECKSIGVERIFY => "CHECKSIGVERIFY" | .NUMEQUALVERIFY => "NUMEQUALVERIFY"
  | .BAD_OPCODE => "BAD_OPCODE" | .DISABLED_OPCODE => "DISABLED_OPCODE"
  | .INVALID_STACK_OPERATION => "INVALID_STACK_OPERATION" | .INVALID_ALTSTACK_OPERATION => "INVALID_ALTSTACK_OPERATION"
  | .UNBALANCED_CONDITIONAL => "UNBALANCED_CONDITIONAL"
  | .NEGATIVE_LOCKTIME => "NEGATIVE_LOCKTIME" | .UNSATISFIED_LOCKTIME => "UNSATISFIED_LOCKTIME"
  | .SIG_HASHTYPE => "SIG_HASHTYPE" | .SIG_DER => "SIG_DER" | .MINIMALDATA => "MINIMALDATA" | .SIG_PUSHONLY => "SIG_PUSHONLY"
  | .SIG_HIGH_S => "SIG_HIGH_S" | .SIG_NULLDUMMY => "SIG_NULLDUMMY" | .PUBKEYTYPE => "PUBKEYTYPE"
  | .CLEANSTACK => "CLEANSTACK" | .MINIMALIF => "MINIMALIF" | .SIG_NULLFAIL => "NULLFAIL"
  | .DISCOURAGE_UPGRADABLE_NOPS => "DISCOURAGE_UPGRADABLE_NOPS"
  | .DISCOURAGE_UPGRADABLE_WITNESS_PROGRAM => "DISCOURAGE_UPGRADABLE_WITNESS_PROGRAM"
  | .WITNESS_PROGRAM_WRONG_LENGTH => "WITNESS_PROGRAM_WRONG_LENGTH"
  | .WITNESS_PROGRAM_WITNESS_EMPTY => "WITNESS_PROGRAM_WITNESS_EMPTY"
  | .WITNESS_PROGRAM_MISMATCH => "WITNESS_PROGRAM_MISMATCH"
  | .WITNESS_MALLEATED => "WITNESS_MALLEATED" | .WITNESS_MALLEATED_P2SH => "WITNESS_MALLEATED_P2SH"
  | .WITNESS_UNEXPECTED => "WITNESS_UNEXPECTED" | .WITNESS_PUBKEYTYPE => "WITNESS_PUBKEYTYPE"

/-- `enum class SigVersion` (pre-taproot) -/
inductive SigVersion
  | base | witnessV0
  deriving DecidableEq, Repr, Inhabited

/-- script verification flags (interpreter.h `SCRIPT_VERIFY_*`), one field per flag -/
structure Flags where
  p2sh : Bool := false                 -- bit 0
  strictenc : Bool := false            -- bit 1
  dersig : Bool := false               -- bit 2
  lowS : Bool := false                 -- bit 3
  nulldummy : Bool := false            -- bit 4
  sigpushonly : Bool := false          -- bit 5
  minimaldata : Bool := false          -- bit 6
  discourageUpgradableNops : Bool := false  -- bit 7
  cleanstack : Bool := false           -- bit 8
  checklocktimeverify : Bool := false  -- bit 9
  checksequenceverify : Bool := false  -- bit 10
  witness : Bool := false              -- bit 11
  discourageUpgradableWitnessProgram : Bool := false  -- bit 12
  minimalif : Bool := false            -- bit 13
  nullfail : Bool := false             -- bit 14
  witnessPubkeytype : Bool := false    -- bit 15
  deriving DecidableEq, Repr, Inhabited

/-- flags from Core's bit mask (`SCRIPT_VERIFY_P2SH = 1 << 0`, …, `SCRIPT_VERIFY_WITNESS_PUBKEYTYPE = 1 << 15`) -/
def Flags.ofBits (n : Nat) : Flags :=
  { p2sh := n.testBit 0, strictenc := n.testBit 1, dersig := n.testBit 2, lowS := n.testBit 3,
    nulldummy := n.testBit 4, sigpushonly := n.testBit 5, minimaldata := n.testBit 6,
    discourageUpgradableNops := n.testBit 7, cleanstack := n.testBit 8, checklocktimeverify := n.testBit 9,
    checksequenceverify := n.testBit 10, witness := n.testBit 11, discourageUpgradableWitnessProgram := n.testBit 12,
    minimalif := n.testBit 13, nullfail := n.testBit 14, witnessPubkeytype := n.testBit 15 }

/-- the combinations `VerifyScript` does not `assert` against: CLEANSTACK ⇒ P2SH ∧ WITNESS, WITNESS ⇒ P2SH -/
def Flags.permitted (f : Flags) : Bool :=
  (!f.cleanstack || (f.p2sh && f.witness)) && (!f.witness || f.p2sh)

/-! ### limits (script.h) -/
def MAX_SCRIPT_ELEMENT_SIZE : Nat := 520
def MAX_OPS_PER_SCRIPT : Nat := 201
def MAX_PUBKEYS_PER_MULTISIG : Nat := 20
def MAX_SCRIPT_SIZE : Nat := 10000
def MAX_STACK_SIZE : Nat := 1000
def LOCKTIME_THRESHOLD : Nat := 500000000
def SEQUENCE_FINAL : Nat := 0xffffffff
def SEQUENCE_LOCKTIME_DISABLE_FLAG : Nat := 2 ^ 31
def SEQUENCE_LOCKTIME_TYPE_FLAG : Nat := 2 ^ 22
def SEQUENCE_LOCKTIME_MASK : Nat := 0x0000ffff
def WITNESS_V0_SCRIPTHASH_SIZE : Nat := 32
def WITNESS_V0_KEYHASH_SIZE : Nat := 20

/-! ### opcodes (script.h `enum opcodetype`) -/
def OP_0 : Nat := 0x00
def OP_PUSHDATA1 : Nat := 0x4c
def OP_PUSHDATA2 : Nat := 0x4d
def OP_PUSHDATA4 : Nat := 0x4e
def OP_1NEGATE : Nat := 0x4f
def OP_RESERVED : Nat := 0x50
def OP_1 : Nat := 0x51
def OP_16 : Nat := 0x60
def OP_NOP : Nat := 0x61
def OP_VER : Nat := 0x62
def OP_IF : Nat := 0x63
def OP_NOTIF : Nat := 0x64
def OP_VERIF : Nat := 0x65
def OP_VERNOTIF : Nat := 0x66
def OP_ELSE : Nat := 0x67
def OP_ENDIF : Nat := 0x68
def OP_VERIFY : Nat := 0x69
def OP_RETURN : Nat := 0x6a
def OP_TOALTSTACK : Nat := 0x6b
def OP_FROMALTSTACK : Nat := 0x6c
def OP_2DROP : Nat := 0x6d
def OP_2DUP : Nat := 0x6e
def OP_3DUP : Nat := 0x6f
def OP_2OVER : Nat := 0x70
def OP_2ROT : Nat := 0x71
def OP_2SWAP : Nat := 0x72
def OP_IFDUP : Nat := 0x73
def OP_DEPTH : Nat := 0x74
def OP_DROP : Nat := 0x75
def OP_DUP : Nat := 0x76
def OP_NIP : Nat := 0x77
def OP_OVER : Nat := 0x78
def OP_PICK : Nat := 0x79
def OP_ROLL : Nat := 0x7a
def OP_ROT : Nat := 0x7b
def OP_SWAP : Nat := 0x7c
def OP_TUCK : Nat := 0x7d
def OP_CAT : Nat := 0x7e
def OP_SUBSTR : Nat := 0x7f
def OP_LEFT : Nat := 0x80
def OP_RIGHT : Nat := 0x81
def OP_SIZE : Nat := 0x82
def OP_INVERT : Nat := 0x83
def OP_AND : Nat := 0x84
def OP_OR : Nat := 0x85
def OP_XOR : Nat := 0x86
def OP_EQUAL : Nat := 0x87
def OP_EQUALVERIFY : Nat := 0x88
def OP_RESERVED1 : Nat := 0x89
def OP_RESERVED2 : Nat := 0x8a
def OP_1ADD : Nat := 0x8b
def OP_1SUB : Nat := 0x8c
def OP_2MUL : Nat := 0x8d
def OP_2DIV : Nat := 0x8e
def OP_NEGATE : Nat := 0x8f
def OP_ABS : Nat := 0x90
def OP_NOT : Nat := 0x91
def OP_0NOTEQUAL : Nat := 0x92
def OP_ADD : Nat := 0x93
def OP_SUB : Nat := 0x94
def OP_MUL : Nat := 0x95
def OP_DIV : Nat := 0x96
def OP_MOD : Nat := 0x97
def OP_LSHIFT : Nat := 0x98
def OP_RSHIFT : Nat := 0x99
def OP_BOOLAND : Nat := 0x9a
def OP_BOOLOR : Nat := 0x9b
def OP_NUMEQUAL : Nat := 0x9c
def OP_NUMEQUALVERIFY : Nat := 0x9d
def OP_NUMNOTEQUAL : Nat := 0x9e
def OP_LESSTHAN : Nat := 0x9f
def OP_GREATERTHAN : Nat := 0xa0
def OP_LESSTHANOREQUAL : Nat := 0xa1
def OP_GREATERTHANOREQUAL : Nat := 0xa2
def OP_MIN : Nat := 0xa3
def OP_MAX : Nat := 0xa4
def OP_WITHIN : Nat := 0xa5
def OP_RIPEMD160 : Nat := 0xa6
def OP_SHA1 : Nat := 0xa7
def OP_SHA256 : Nat := 0xa8
def OP_HASH160 : Nat := 0xa9
def OP_HASH256 : Nat := 0xaa
def OP_CODESEPARATOR : Nat := 0xab
def OP_CHECKSIG : Nat := 0xac
def OP_CHECKSIGVERIFY : Nat := 0xad
def OP_CHECKMULTISIG : Nat := 0xae
def OP_CHECKMULTISIGVERIFY : Nat := 0xaf
def OP_NOP1 : Nat := 0xb0
def OP_CHECKLOCKTIMEVERIFY : Nat := 0xb1
def OP_CHECKSEQUENCEVERIFY : Nat := 0xb2
def OP_NOP4 : Nat := 0xb3
def OP_NOP10 : Nat := 0xb9

/-- the opcodes `EvalScript` rejects wherever they occur (CVE-2010-5137) -/
def isDisabledOpcode (op : Nat) : Bool :=
  op == OP_CAT || op == OP_SUBSTR || op == OP_LEFT || op == OP_RIGHT || op == OP_INVERT || op == OP_AND ||
  op == OP_OR || op == OP_XOR || op == OP_2MUL || op == OP_2DIV || op == OP_MUL || op == OP_DIV ||
  op == OP_MOD || op == OP_LSHIFT || op == OP_RSHIFT

/-! ### `CastToBool` -/

/-- true iff some byte is non-zero, a sign bit alone in the last byte ("negative zero") not counting -/
def castToBool : Bytes → Bool
  | [] => false
  | [b] => b != 0 && b != 0x80
  | b :: rest => b != 0 || castToBool rest

/-! ### `CScriptNum` -/

/-- minimal little-endian bytes of a natural number (no trailing zero byte); `fuel ≥` number of bytes -/
def natLEAux : Nat → Nat → Bytes
  | 0, _ => []
  | f + 1, n => if n = 0 then [] else UInt8.ofNat (n % 256) :: natLEAux f (n / 256)

def natLE (n : Nat) : Bytes := natLEAux n n

/-- `CScriptNum::set_vch`: little-endian sign-magnitude, sign = top bit of the last byte -/
def scriptNumDecode (vch : Bytes) : Int :=
  match vch.getLast? with
  | none => 0
  | some last =>
    let mag := leNat vch
    if last &&& 0x80 != 0 then - Int.ofNat (mag - 0x80 * 256 ^ (vch.length - 1)) else Int.ofNat mag

/-- the minimal-encoding test of the `CScriptNum(vch, fRequireMinimal, nMaxNumSize)` constructor -/
def isMinimalNum (vch : Bytes) : Bool :=
  match vch.reverse with
  | [] => true
  | last :: before =>
    if last &&& 0x7f == 0 then
      match before with
      | [] => false
      | b2 :: _ => b2 &&& 0x80 != 0
    else true

/-- `CScriptNum(vch, fRequireMinimal, nMaxNumSize)`; the `scriptnum_error` exception is caught by `EvalScript`
and becomes `SCRIPT_ERR_UNKNOWN_ERROR` -/
def scriptNum (vch : Bytes) (requireMinimal : Bool) (maxNumSize : Nat := 4) : Except ScriptError Int :=
  if vch.length > maxNumSize then .error .UNKNOWN_ERROR
  else if requireMinimal && !isMinimalNum vch then .error .UNKNOWN_ERROR
  else .ok (scriptNumDecode vch)

/-- `CScriptNum::serialize` -/
def scriptNumEncode (v : Int) : Bytes :=
  if v = 0 then [] else
  let neg := v < 0
  let mag := natLE v.natAbs
  match mag.getLast? with
  | none => []
  | some last =>
    if last &&& 0x80 != 0 then mag ++ [if neg then 0x80 else 0x00]
    else if neg then mag.dropLast ++ [last ||| 0x80]
    else mag

/-- `CScriptNum::getint`: clamp to the `int` range -/
def scriptNumGetInt (v : Int) : Int :=
  if v > 2147483647 then 2147483647 else if v < -2147483648 then -2147483648 else v

def vchFalse : Bytes := []
def vchTrue : Bytes := [1]
def boolBytes (b : Bool) : Bytes := if b then vchTrue else vchFalse

#guard scriptNumEncode 0 = [] && scriptNumEncode 1 = [1] && scriptNumEncode (-1) = [0x81]
#guard scriptNumEncode 127 = [0x7f] && scriptNumEncode 128 = [0x80, 0x00] && scriptNumEncode (-128) = [0x80, 0x80]
#guard scriptNumEncode 255 = [0xff, 0x00] && scriptNumEncode 256 = [0x00, 0x01] && scriptNumEncode (-32768) = [0x00, 0x80, 0x80]
#guard scriptNumDecode [0x80] = 0 && scriptNumDecode [0x00, 0x80] = 0 && scriptNumDecode [0xff, 0xff, 0xff, 0xff] = -2147483647
#guard (scriptNum [0x00] true).toOption = none && (scriptNum [0x80, 0x00] true).toOption = some 128 && (scriptNum [0x00, 0x00] false).toOption = some 0
#guard (scriptNum [1, 2, 3, 4, 5] false).toOption = none && (scriptNum [1, 2, 3, 4, 5] false 5).toOption = some 0x0504030201
#guard castToBool [] = false && castToBool [0x80] = false && castToBool [0x00, 0x80] = false && castToBool [0x80, 0x00] = true
#guard castToBool [0x00, 0x00, 0x01] && castToBool [0x01, 0x80]

end Pycoin.Spec.Consensus
