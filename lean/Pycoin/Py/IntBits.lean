/-!
Python `&`, `|`, `^` on unbounded integers (two's complement with infinitely many sign bits), for
models that keep Python's unmasked accumulators.  Core Lean has `~~~`, `<<<`, `>>>` on `Int`
(same semantics as Python's `~`, `<<`, `>>` for a non-negative shift count) but no binary bitwise
operators; these are defined by cases on the sign, using `~~~(n : Int) = Int.negSucc n`.
Validated against Python by the C19 correspondence check (ops `py_and`, `py_or`, `py_xor`, …).
Import-free.
-/
namespace Pycoin

/-- `m & ~n` on naturals -/
def Nat.andNot (m n : Nat) : Nat := m ^^^ (m &&& n)

/-- Python `a & b` -/
def pyAnd : Int → Int → Int
  | .ofNat m, .ofNat n => .ofNat (m &&& n)
  | .ofNat m, .negSucc n => .ofNat (Nat.andNot m n)
  | .negSucc m, .ofNat n => .ofNat (Nat.andNot n m)
  | .negSucc m, .negSucc n => .negSucc (m ||| n)

/-- Python `a | b` -/
def pyOr : Int → Int → Int
  | .ofNat m, .ofNat n => .ofNat (m ||| n)
  | .ofNat m, .negSucc n => .negSucc (Nat.andNot n m)
  | .negSucc m, .ofNat n => .negSucc (Nat.andNot m n)
  | .negSucc m, .negSucc n => .negSucc (m &&& n)

/-- Python `a ^ b` -/
def pyXor : Int → Int → Int
  | .ofNat m, .ofNat n => .ofNat (m ^^^ n)
  | .ofNat m, .negSucc n => .negSucc (m ^^^ n)
  | .negSucc m, .ofNat n => .negSucc (m ^^^ n)
  | .negSucc m, .negSucc n => .ofNat (m ^^^ n)

/-- Python `~a` (core `Int.not`) -/
abbrev pyNot (a : Int) : Int := ~~~a

/-- Python `a << k`, `k ≥ 0` (core `Int.shiftLeft`: `a * 2^k`) -/
abbrev pyShl (a : Int) (k : Nat) : Int := a <<< k

/-- Python `a >> k`, `k ≥ 0` (core `Int.shiftRight`: floor division by `2^k`) -/
abbrev pyShr (a : Int) (k : Nat) : Int := a >>> k

end Pycoin
