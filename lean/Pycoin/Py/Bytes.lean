/-
Python-semantics helpers shared by every model: byte strings, hex,
int <-> bytes, floor division.  Import-free (core Lean only) so that the
driver links as a plain `lean_exe`.
-/
namespace Pycoin

abbrev Bytes := List UInt8

namespace Hex

def digit (n : Nat) : Char :=
  if n < 10 then Char.ofNat (48 + n) else Char.ofNat (87 + n)

def val? (c : Char) : Option Nat :=
  if '0' ≤ c ∧ c ≤ '9' then some (c.toNat - 48)
  else if 'a' ≤ c ∧ c ≤ 'f' then some (c.toNat - 87)
  else if 'A' ≤ c ∧ c ≤ 'F' then some (c.toNat - 55)
  else none

def encodeChars : Bytes → List Char
  | [] => []
  | b :: bs => digit (b.toNat / 16) :: digit (b.toNat % 16) :: encodeChars bs

/-- lower-case hex; the empty string is written `-` on the wire -/
def encode (b : Bytes) : String :=
  if b.isEmpty then "-" else String.ofList (encodeChars b)

def decodeChars : List Char → Option Bytes
  | [] => some []
  | [_] => none
  | a :: b :: rest => do
    let x ← val? a
    let y ← val? b
    let r ← decodeChars rest
    pure (UInt8.ofNat (16 * x + y) :: r)

def decode (s : String) : Option Bytes :=
  if s = "-" then some [] else decodeChars s.toList

end Hex

/-- little-endian bytes of `n`, exactly `k` of them (high part dropped) -/
def leBytes (n : Nat) : Nat → Bytes
  | 0 => []
  | k + 1 => UInt8.ofNat (n % 256) :: leBytes (n / 256) k

def leNat : Bytes → Nat
  | [] => 0
  | b :: bs => b.toNat + 256 * leNat bs

def beBytes (n : Nat) (k : Nat) : Bytes := (leBytes n k).reverse

def beNat (b : Bytes) : Nat := leNat b.reverse

/-- Python `int.to_bytes(k, 'little')` / `struct.pack('<..')`: refuses values that do not fit -/
def leBytes? (n : Nat) (k : Nat) : Option Bytes :=
  if n < 256 ^ k then some (leBytes n k) else none

def beBytes? (n : Nat) (k : Nat) : Option Bytes :=
  if n < 256 ^ k then some (beBytes n k) else none

/-- Python `//` on integers (floor division) -/
def fdiv (a b : Int) : Int := Int.fdiv a b

/-- Python `%` on integers (sign of the divisor) -/
def fmod (a b : Int) : Int := Int.fmod a b

/-- `bytes[a:b]` for non-negative indices -/
def slice (b : Bytes) (i j : Nat) : Bytes := (b.drop i).take (j - i)

end Pycoin
