import Pycoin.Proofs.ChainInv
/-! `walkUp` and `extendWaiting` under the finder invariant (core Lean only) -/
namespace Pycoin.Chain

theorem nodup_sremove {s : PSet} (x : Nat) (h : s.Nodup) : (sremove s x).Nodup :=
  List.Nodup.sublist List.filter_sublist h

/-- detaching the tree with key `p` from a finder that satisfies the invariant: its hashes are excused from covering -/
theorem InvX.detach {P : List Nat} {cf : CF} (inv : InvX P [] cf) (p : Nat) (t : List Nat) (top : Nat) (s : PSet)
    (ht : dget cf.trees p = some t) (hl : t.getLast? = some top) (hs : dget cf.dbt top = some s) :
    InvX P t { cf with trees := ddel cf.trees p, dbt := dset cf.dbt top (sremove s p) } := by
  refine ⟨?_, ?_, ?_, ?_, ?_⟩
  · intro b t' hb
    simp only at hb ⊢
    rw [dget_ddel] at hb
    by_cases e : p = b
    · simp [e] at hb
    · simp only [e, if_false] at hb; exact inv.tree b t' hb
  · intro top' s' b hd hb
    simp only at hd ⊢
    rw [dget_dset] at hd
    by_cases e : top = top'
    · subst e
      simp only [if_true, Option.some.injEq] at hd; subst hd
      obtain ⟨hb1, hb2⟩ := (mem_sremove s p b).mp hb
      obtain ⟨t', h1, h2⟩ := inv.dsound top s b hs hb1
      exact ⟨t', by rw [dget_ddel_ne _ (Ne.symm hb2)]; exact h1, h2⟩
    · simp only [e, if_false] at hd
      obtain ⟨t', h1, h2⟩ := inv.dsound top' s' b hd hb
      have hne : p ≠ b := by
        intro e2; subst e2
        rw [ht] at h1; injection h1 with h1; subst h1
        rw [hl] at h2; injection h2 with h2; exact e h2
      exact ⟨t', by rw [dget_ddel_ne _ hne]; exact h1, h2⟩
  · intro b t' hb
    simp only at hb ⊢
    rw [dget_ddel] at hb
    by_cases e : p = b
    · simp [e] at hb
    · simp only [e, if_false] at hb
      obtain ⟨top', s', l', d', m'⟩ := inv.dcompl b t' hb
      by_cases e2 : top = top'
      · subst e2
        rw [hs] at d'; injection d' with d'; subst d'
        exact ⟨top, sremove s p, l', dget_dset_self _ _ _, (mem_sremove s p b).mpr ⟨m', Ne.symm e⟩⟩
      · exact ⟨top', s', l', by rw [dget_dset_ne _ _ e2]; exact d', m'⟩
  · intro x v hx hp
    simp only at hx ⊢
    rcases inv.covers x v hx hp with ⟨b, t', hb, hm⟩ | h
    · by_cases e : p = b
      · subst e
        rw [ht] at hb; injection hb with hb; subst hb
        exact Or.inr hm
      · exact Or.inl ⟨b, t', by rw [dget_ddel_ne _ e]; exact hb, hm⟩
    · simp at h
  · intro top' s' hd
    simp only at hd
    rw [dget_dset] at hd
    by_cases e : top = top'
    · simp only [e, if_true, Option.some.injEq] at hd; subst hd
      exact nodup_sremove p (inv.nodup top s hs)
    · simp only [e, if_false] at hd; exact inv.nodup top' s' hd

/-- what `walkUp` returns from a state satisfying the invariant: the path grows by a chain of links whose inner
hashes are melded already, the finder keeps its `parent_lookup` and its invariant, the detached tree (if any) is part
of the new path -/
theorem walkUp_spec (P P' : List Nat) (hsub : ∀ z ∈ P', z ∈ P) :
    ∀ (fuel : Nat) (cf : CF) (path : List Nat) (x : Nat) (path' : List Nat) (cf' : CF),
    InvX P [] cf → x ∉ P' →
    walkUp P' fuel cf path x = .ok (path', cf') →
    ∃ ext, path' = path ++ ext ∧ UpQ cf.parent P' P (x :: ext) ∧ cf'.parent = cf.parent ∧ InvX P ext cf' ∧
      (∀ v, dget cf.parent x = some v → ext ≠ [])
  | 0, _, _, _, _, _, _, _, hr => by simp [walkUp] at hr
  | fuel + 1, cf, path, x, path', cf', inv, hx, hr => by
      unfold walkUp at hr
      split at hr
      · rename_i hnone
        simp only [Except.ok.injEq, Prod.mk.injEq] at hr
        obtain ⟨rfl, rfl⟩ := hr
        exact ⟨[], by simp, by simp [UpQ, hnone], rfl, inv, by intro v hv; rw [hnone] at hv; cases hv⟩
      · rename_i p hp
        split at hr
        · rename_i b pre htree
          dsimp only at hr
          obtain ⟨hhead, hlen, hup⟩ := inv.tree p (b :: pre) htree
          have hb : b = p := by simpa using hhead
          subst hb
          have hlast : (b :: pre).getLast? = some ((b :: pre).getLast (by simp)) := List.getLast?_eq_getLast _
          generalize (b :: pre).getLast (by simp) = top at hr hlast
          split at hr
          · cases hr
          · rename_i s hs
            split at hr
            · simp only [Except.ok.injEq, Prod.mk.injEq] at hr
              obtain ⟨rfl, rfl⟩ := hr
              refine ⟨b :: pre, rfl, ?_, rfl, inv.detach b (b :: pre) top s htree hlast hs, by intro _ _; simp⟩
              have h1 : UpQ cf.parent P' P (b :: pre) := UpQ.mono_in hsub _ hup
              cases pre with
              | nil => simp at hlen
              | cons y r =>
                simp only [UpQ] at h1 ⊢
                exact ⟨hp, hx, h1⟩
            · cases hr
        · split at hr
          · rename_i hpend
            simp only [Except.ok.injEq, Prod.mk.injEq] at hr
            obtain ⟨rfl, rfl⟩ := hr
            refine ⟨[p], rfl, ?_, rfl, inv.weaken (by simp), by intro _ _; simp⟩
            simp only [UpQ]
            exact ⟨hp, hx, Or.inr (hsub p hpend)⟩
          · rename_i hpend
            obtain ⟨ext, e1, e2, e3, e4, _⟩ := walkUp_spec P P' hsub fuel cf (path ++ [p]) p path' cf' inv hpend hr
            refine ⟨p :: ext, by rw [e1]; simp, ?_, e3, e4.weaken (by intro z hz; exact List.mem_cons_of_mem _ hz),
              by intro _ _; simp⟩
            cases ext with
            | nil => simp only [UpQ] at e2 ⊢; exact ⟨hp, hx, e2⟩
            | cons y r => simp only [UpQ] at e2 ⊢; exact ⟨hp, hx, e2⟩

/-- the loop over the waiting descendants: each listed tree grows by `ext`, the entry `bottom` disappears -/
theorem extendWaiting_spec (bottom : Nat) (ext : List Nat) : ∀ (ws : List Nat) (trees trees' : Dict (List Nat)),
    ws.Nodup → bottom ∉ ws → extendWaiting bottom ext ws trees = .ok trees' →
    ∀ k, dget trees' k =
      if k = bottom then (if ws = [] then dget trees bottom else none)
      else if k ∈ ws then (dget trees k).map (· ++ ext) else dget trees k
  | [], trees, trees', _, _, hr, k => by
      simp only [extendWaiting, Except.ok.injEq] at hr; subst hr
      by_cases e : k = bottom <;> simp [e]
  | d :: ds, trees, trees', hn, hb, hr, k => by
      unfold extendWaiting at hr
      split at hr
      · cases hr
      · rename_i prior hprior
        have hn' : ds.Nodup := (List.nodup_cons.mp hn).2
        have hd : d ∉ ds := (List.nodup_cons.mp hn).1
        have hb' : bottom ∉ ds := fun h => hb (List.mem_cons_of_mem _ h)
        have hbd : bottom ≠ d := fun h => hb (by simp [h])
        have ih := extendWaiting_spec bottom ext ds _ trees' hn' hb' hr k
        rw [ih]
        by_cases e : k = bottom
        · subst e
          simp only [if_true, List.cons_ne_nil, if_false]
          by_cases e2 : ds = []
          · simp [e2, dget_ddel_self]
          · simp [e2]
        · simp only [e, if_false]
          by_cases e2 : k ∈ ds
          · have hkd : d ≠ k := fun h => hd (h ▸ e2)
            simp only [e2, if_true, List.mem_cons, or_true]
            rw [dget_ddel_ne _ (Ne.symm e), dget_dset_ne _ _ hkd]
          · simp only [e2, if_false]
            rw [dget_ddel_ne _ (Ne.symm e)]
            by_cases e3 : d = k
            · subst e3
              simp [dget_dset_self, hprior]
            · have : k ∉ d :: ds := by
                intro h; rcases List.mem_cons.mp h with h | h
                · exact e3 h.symm
                · exact e2 h
              simp [this, dget_dset_ne _ _ e3]

end Pycoin.Chain
