import Pycoin.Proofs.SolveRun
import Pycoin.Proofs.SignWrapAll
/-!
C05 — `Solve.determineConstraints` on the standard templates: bare, P2SH, P2WSH, P2SH-P2WSH around any base script whose stage is
known (`BaseRun`), and P2WPKH / P2SH-P2WPKH.
-/
namespace Pycoin.Solve
open Pycoin Pycoin.VM Pycoin.Gen.VM Pycoin.Sign

/-- the stage of `script` on an empty dynamic stack appends the constraints `cs reserve isW witness` -/
def BaseRun (script : Bytes) (cs : Nat → Bool → Bool → List Term) : Prop :=
  ∀ (flags : Nat) (wit : Bool) (ctx : TxCtx) (r : Nat) (isW : Bool) (cons : List Term),
    runStage ⟨script, flags, wit, ctx⟩ r isW [] cons = .ok (cons ++ cs r isW wit)

theorem baseRun_p2pkh (h : Bytes) (hlen : h.length = 20) :
    BaseRun (p2pkhScript h) (fun r isW wit => p2pkhConstraints h (Atom.mk isW r) (Atom.mk isW (r + 1)) wit) :=
  fun flags wit ctx r isW cons => runStage_p2pkh_empty h hlen flags wit ctx r isW cons

theorem baseRun_p2pk (key : Bytes) (h1 : 1 ≤ key.length) (h75 : key.length ≤ 75) :
    BaseRun (p2pkScript key) (fun r isW wit => p2pkConstraints key (Atom.mk isW r) wit) :=
  fun flags wit ctx r isW cons => runStage_p2pk key h1 h75 flags wit ctx r isW cons

theorem baseRun_multisig (m : Nat) (keys : List Bytes) (hm1 : 1 ≤ m) (hmn : m ≤ keys.length) (hn : keys.length ≤ 20)
    (hkeys : ∀ k ∈ keys, 1 ≤ k.length ∧ k.length ≤ 75) :
    BaseRun (multisigScriptN m keys) (fun r isW wit => multisigConstraints m keys isW r wit) :=
  fun flags wit ctx r isW cons => runStage_multisig m keys hm1 hmn hn hkeys flags wit ctx r isW cons

/-! ## what the classifiers of the VM model say about the template scripts -/

theorem scriptHash_p2sh (h : Bytes) (hlen : h.length = 20) : scriptHash (p2shScript h) = some h := by
  have hl : (p2shScript h).length = 23 := by simp [p2shScript, directPush, hlen]
  have hlast : (p2shScript h).getLast? = some 0x87 := by
    rw [show p2shScript h = (0xa9 :: directPush h) ++ [0x87] from by simp [p2shScript], List.getLast?_concat]
  have hp : isPayToScriptHash (p2shScript h) = true := by
    simp only [isPayToScriptHash, hl, hlast]
    simp [p2shScript, directPush, hlen]
    decide
  simp only [scriptHash, hp, if_true, hl]
  simp [p2shScript, directPush, slice, hlen]

theorem isP2sh_false_of_head (script : Bytes) (b : UInt8) (tl : Bytes) (hs : script = b :: tl) (hb : b ≠ 0xa9) :
    scriptHash script = none := by
  have : isPayToScriptHash script = false := by
    subst hs
    simp only [isPayToScriptHash, List.head?_cons]
    have : (some b == some (UInt8.ofNat p2s_OP_HASH160)) = false := by
      simp only [show UInt8.ofNat p2s_OP_HASH160 = 0xa9 from by decide]
      simpa using hb
    simp [this]
  simp [scriptHash, this]

theorem scriptHash_p2pkh (h : Bytes) : scriptHash (p2pkhScript h) = none :=
  isP2sh_false_of_head _ 0x76 ([0xa9, 0x14] ++ h ++ [0x88, 0xac]) (by simp [p2pkhScript]) (by decide)

theorem scriptHash_p2pk (key : Bytes) (h75 : key.length ≤ 75) : scriptHash (p2pkScript key) = none := by
  apply isP2sh_false_of_head _ (UInt8.ofNat key.length) (key ++ [0xac]) (by simp [p2pkScript, directPush])
  intro h
  have := congrArg UInt8.toNat h
  rw [UInt8.toNat_ofNat'] at this
  have e : (0xa9 : UInt8).toNat = 169 := by decide
  omega

theorem scriptHash_witnessV0 (prog : Bytes) : scriptHash (witnessV0Script prog) = none :=
  isP2sh_false_of_head _ 0 (directPush prog) (by simp [witnessV0Script]) (by decide)

theorem countPush_head (m : Nat) (hm : m ≤ 20) : ∃ b tl, countPush m = b :: tl ∧ b ≠ 0xa9 ∧ b ≠ 0 ∧
    (16 < m → b = 1) ∧ (m ≤ 16 → b = UInt8.ofNat (0x50 + m) ∧ tl = []) := by
  by_cases h16 : m ≤ 16
  · refine ⟨UInt8.ofNat (0x50 + m), [], by simp [countPush, h16], ?_, ?_, by omega, fun _ => ⟨rfl, rfl⟩⟩
    · intro h; have := congrArg UInt8.toNat h; rw [UInt8.toNat_ofNat'] at this
      have e : (0xa9 : UInt8).toNat = 169 := by decide
      omega
    · intro h; have := congrArg UInt8.toNat h; rw [UInt8.toNat_ofNat'] at this
      have e : (0 : UInt8).toNat = 0 := by decide
      omega
  · exact ⟨1, [UInt8.ofNat m], by simp [countPush, h16], by decide, by decide, fun _ => rfl, fun h => absurd h h16⟩

theorem scriptHash_multisig (m : Nat) (keys : List Bytes) (hm : m ≤ 20) : scriptHash (multisigScriptN m keys) = none := by
  obtain ⟨b, tl, hc, hb, _, _, _⟩ := countPush_head m hm
  exact isP2sh_false_of_head _ b (tl ++ (pushesOf keys ++ (countPush keys.length ++ [0xae]))) (by simp [multisigScriptN, hc]) hb

theorem version_none_of_head (script : Bytes) (b : UInt8) (tl : Bytes) (hs : script = b :: tl) (h0 : b.toNat ≠ 0)
    (h1 : ¬ (81 ≤ b.toNat ∧ b.toNat ≤ 96)) : witnessProgramVersion script = none := by
  subst hs
  unfold witnessProgramVersion
  simp only []
  split
  · rfl
  · cases tl with
    | nil => rfl
    | cons b1 t =>
      simp only []
      split
      · rfl
      · have e0 : segwit_OP_0 = 0 := rfl
        have e1 : segwit_OP_1 = 81 := rfl
        have e16 : segwit_OP_16 = 96 := rfl
        rw [e0, e1, e16]
        simp only [h0, if_false]
        have : (decide (81 ≤ b.toNat) && decide (b.toNat ≤ 96)) = false := by
          by_cases ha : 81 ≤ b.toNat <;> by_cases hb : b.toNat ≤ 96 <;> simp [ha, hb] <;> omega
        simp [this]

theorem version_p2pkh (h : Bytes) : witnessProgramVersion (p2pkhScript h) = none :=
  version_none_of_head _ 0x76 ([0xa9, 0x14] ++ h ++ [0x88, 0xac]) (by simp [p2pkhScript]) (by decide) (by decide)

theorem version_p2sh (h : Bytes) : witnessProgramVersion (p2shScript h) = none :=
  version_none_of_head _ 0xa9 (directPush h ++ [0x87]) (by simp [p2shScript]) (by decide) (by decide)

theorem version_p2pk (key : Bytes) (h1 : 1 ≤ key.length) (h75 : key.length ≤ 75) :
    witnessProgramVersion (p2pkScript key) = none := by
  have hb : (UInt8.ofNat key.length).toNat = key.length := by rw [UInt8.toNat_ofNat']; omega
  exact version_none_of_head _ (UInt8.ofNat key.length) (key ++ [0xac]) (by simp [p2pkScript, directPush]) (by omega) (by omega)

/-- `m <key>… n CHECKMULTISIG` is no witness program: for `m ≤ 16` the first byte is `OP_m`, but the second byte (the length of
the first key) plus 2 falls short of the script length -/
theorem version_multisig (m : Nat) (keys : List Bytes) (hm1 : 1 ≤ m) (hm : m ≤ 20) (hn1 : 1 ≤ keys.length)
    (hkeys : ∀ k ∈ keys, 1 ≤ k.length ∧ k.length ≤ 75) : witnessProgramVersion (multisigScriptN m keys) = none := by
  by_cases h16 : m ≤ 16
  · match keys, hn1 with
    | k :: ks, _ =>
      have hk := hkeys k (by simp)
      have e : multisigScriptN m (k :: ks) =
          UInt8.ofNat (0x50 + m) :: UInt8.ofNat k.length :: (k ++ (pushesOf ks ++ (countPush (k :: ks).length ++ [0xae]))) := by
        simp [multisigScriptN, countPush, h16, pushesOf, directPush]
      rw [e]
      unfold witnessProgramVersion
      simp only []
      split
      · rfl
      · have hb : (UInt8.ofNat k.length).toNat = k.length := by rw [UInt8.toNat_ofNat']; omega
        have hc := countPush_length (k :: ks).length
        have : (UInt8.ofNat k.length).toNat + 2 ≠
            (UInt8.ofNat (0x50 + m) :: UInt8.ofNat k.length :: (k ++ (pushesOf ks ++ (countPush (k :: ks).length ++ [0xae])))).length := by
          rw [hb]; simp only [List.length_cons, List.length_append, List.length_nil]
          have : 1 ≤ (countPush (ks.length + 1)).length := by rw [countPush_length]; split <;> omega
          simp only [List.length_cons] at hc
          omega
        rw [if_pos this]
  · obtain ⟨b, tl, hc, _, _, hb1, _⟩ := countPush_head m hm
    have hb : b = 1 := hb1 (by omega)
    subst hb
    exact version_none_of_head _ 1 (tl ++ (pushesOf keys ++ (countPush keys.length ++ [0xae]))) (by simp [multisigScriptN, hc])
      (by decide) (by decide)

theorem version_witnessV0 (prog : Bytes) (h2 : 2 ≤ prog.length) (h40 : prog.length ≤ 40) :
    witnessProgramVersion (witnessV0Script prog) = some 0 := by
  have hb : (UInt8.ofNat prog.length).toNat = prog.length := by rw [UInt8.toNat_ofNat']; omega
  have hl : (witnessV0Script prog).length = prog.length + 2 := by simp [witnessV0Script, directPush]
  unfold witnessProgramVersion
  simp only [hl]
  have : ¬ (prog.length + 2 < 4 || prog.length + 2 > 42) = true := by simp; omega
  simp only [this, if_false]
  simp [witnessV0Script, directPush, hb, show segwit_OP_0 = 0 from rfl]

theorem witnessV0_drop2 (prog : Bytes) : (witnessV0Script prog).drop 2 = prog := by simp [witnessV0Script, directPush]

theorem len20Script_eq (prog : Bytes) (hlen : prog.length = 20) : len20Script prog = .ok (p2pkhScript prog) := by
  unfold len20Script
  rw [Script.compilePushData_eq prog (by rw [hlen]; decide), minimalPush_eq_pushData prog (by omega) (by omega),
    pushData_direct prog (by omega)]
  simp [segwitV0Len20Prefix, segwitV0Len20Postfix, p2pkhScript, hlen]

theorem pushAll_single_ok (u : Bytes) (h : u.length < 2 ^ 32) : ∃ sc, pushAll [some u] = .ok sc := by
  refine ⟨Spec.minimalPush u, ?_⟩
  simp [pushAll, Script.compilePushDataList, Script.compilePushData_eq u h, bind, Except.bind, pure, Except.pure]

theorem runFlags_eq : Gen.Solve.runFlags = 2049 := rfl

/-! ## the wrappers -/

/-- a bare script that is neither P2SH nor a witness program: its own stage, then "witness unexpected" -/
theorem determineConstraints_bare (p2sh : Bytes → Option Bytes) (ctx : TxCtx) (script : Bytes)
    (cs : Nat → Bool → Bool → List Term) (hrun : BaseRun script cs) (hsh : scriptHash script = none)
    (hv : witnessProgramVersion script = none) :
    determineConstraints p2sh ctx script = .ok (cs 0 false false) := by
  simp [determineConstraints, hsh, hv, hrun _ false ctx 0 false []]

/-- P2SH around a script that is no witness program and fits a push of the VM -/
theorem determineConstraints_p2sh (p2sh : Bytes → Option Bytes) (ctx : TxCtx) (h u : Bytes) (hlen : h.length = 20)
    (cs : Nat → Bool → Bool → List Term) (hrun : BaseRun u cs) (hl : p2sh h = some u) (hu : u.length ≤ 520)
    (hv : witnessProgramVersion u = none) :
    determineConstraints p2sh ctx (p2shScript h) = .ok (cs 1 false false ++ [.equal (.atom (.x 0)) (.const u)]) := by
  obtain ⟨sc, hsc⟩ := pushAll_single_ok u (by omega)
  have hnot : ¬ (u.length > MAX_BLOB_LENGTH) := by rw [maxBlob]; omega
  simp [determineConstraints, scriptHash_p2sh h hlen, hl, hsc, hv, hnot, runStage_p2sh h u hlen, hrun _ false ctx 1 false []]

/-- P2WPKH: `OP_0 <20 bytes>`, then the P2PKH script on the witness stack `[w_1, w_0]` -/
theorem determineConstraints_p2wpkh (p2sh : Bytes → Option Bytes) (ctx : TxCtx) (prog : Bytes) (hlen : prog.length = 20) :
    determineConstraints p2sh ctx (witnessV0Script prog) = .ok (p2pkhConstraints prog (.w 0) (.w 1) true) := by
  have hv := version_witnessV0 prog (by omega) (by omega)
  simp [determineConstraints, scriptHash_witnessV0, hv, witnessV0_drop2, hlen, len20Script_eq prog hlen,
    runStage_witnessV0 prog (by omega) (by omega), runStage_p2pkh_witness prog hlen]

/-- P2SH-P2WPKH -/
theorem determineConstraints_p2sh_p2wpkh (p2sh : Bytes → Option Bytes) (ctx : TxCtx) (h prog : Bytes) (hlen : h.length = 20)
    (hplen : prog.length = 20) (hl : p2sh h = some (witnessV0Script prog)) :
    determineConstraints p2sh ctx (p2shScript h) =
      .ok (p2pkhConstraints prog (.w 0) (.w 1) true ++ [.equal (.atom (.x 0)) (.const (witnessV0Script prog))]) := by
  have hv := version_witnessV0 prog (by omega) (by omega)
  have hul : (witnessV0Script prog).length = 22 := by simp [witnessV0Script, directPush, hplen]
  obtain ⟨sc, hsc⟩ := pushAll_single_ok (witnessV0Script prog) (by rw [hul]; decide)
  have hnot : ¬ ((witnessV0Script prog).length > MAX_BLOB_LENGTH) := by rw [maxBlob, hul]; omega
  simp [determineConstraints, scriptHash_p2sh h hlen, hl, hsc, hv, hnot, witnessV0_drop2, hplen, len20Script_eq prog hplen,
    runStage_p2sh h _ hlen, runStage_witnessV0 prog (by omega) (by omega), runStage_p2pkh_witness prog hplen]

/-- P2WSH around a witness script found under its SHA-256 -/
theorem determineConstraints_p2wsh (p2sh : Bytes → Option Bytes) (ctx : TxCtx) (prog ws : Bytes) (hlen : prog.length = 32)
    (cs : Nat → Bool → Bool → List Term) (hrun : BaseRun ws cs) (hl : p2sh prog = some ws) (hsha : Hash.sha256 ws = prog) :
    determineConstraints p2sh ctx (witnessV0Script prog) = .ok (cs 1 true true ++ [.equal (.atom (.w 0)) (.const ws)]) := by
  have hv := version_witnessV0 prog (by omega) (by omega)
  simp [determineConstraints, scriptHash_witnessV0, hv, witnessV0_drop2, hlen, hl, hsha,
    runStage_witnessV0 prog (by omega) (by omega), hrun _ true ctx 1 true []]

/-- P2SH-P2WSH -/
theorem determineConstraints_p2sh_p2wsh (p2sh : Bytes → Option Bytes) (ctx : TxCtx) (h prog ws : Bytes) (hlen : h.length = 20)
    (hplen : prog.length = 32) (cs : Nat → Bool → Bool → List Term) (hrun : BaseRun ws cs)
    (hl : p2sh h = some (witnessV0Script prog)) (hlw : p2sh prog = some ws) (hsha : Hash.sha256 ws = prog) :
    determineConstraints p2sh ctx (p2shScript h) =
      .ok (cs 1 true true ++ [.equal (.atom (.x 0)) (.const (witnessV0Script prog)), .equal (.atom (.w 0)) (.const ws)]) := by
  have hv := version_witnessV0 prog (by omega) (by omega)
  have hul : (witnessV0Script prog).length = 34 := by simp [witnessV0Script, directPush, hplen]
  obtain ⟨sc, hsc⟩ := pushAll_single_ok (witnessV0Script prog) (by rw [hul]; decide)
  have hnot : ¬ ((witnessV0Script prog).length > MAX_BLOB_LENGTH) := by rw [maxBlob, hul]; omega
  simp [determineConstraints, scriptHash_p2sh h hlen, hl, hsc, hv, hnot, witnessV0_drop2, hplen, hlw, hsha,
    runStage_p2sh h _ hlen, runStage_witnessV0 prog (by omega) (by omega), hrun _ true ctx 1 true []]

end Pycoin.Solve
