import Pycoin.Model.RFC6979
import Pycoin.Spec.RFC6979
import Pycoin.Proofs.Bytes
import Mathlib.Tactic.Ring
import Mathlib.Tactic.Linarith
/-!
C01 — `rfc6979.deterministic_generate_k` equals the RFC 6979 §3.2 specification of `Spec/RFC6979.lean`
(HMAC-SHA256) for every group order.
-/
namespace Pycoin.RFC6979
open Pycoin Pycoin.Curve Pycoin.Hash

theorem sha256_length (m : Bytes) : (sha256 m).length = 32 := by
  simp [sha256, u32be]

theorem hmac_length (k m : Bytes) : (hmacSha256L k m).length = 32 := by
  unfold hmacSha256L; exact sha256_length _

theorem bitLength_eq_qlen (n : Nat) : bitLength n = Spec.RFC6979.qlen n := rfl

theorem lt_two_pow_bitLength (n : Nat) : n < 2 ^ bitLength n := by
  unfold bitLength
  by_cases h : n = 0
  · simp [h]
  · rw [if_neg h]; exact Nat.lt_log2_self

theorem two_pow_le (n : Nat) (h : n ≠ 0) : 2 ^ (bitLength n - 1) ≤ n := by
  unfold bitLength
  rw [if_neg h]
  simpa using Nat.log2_self_le h

/-- the inner loop, against the `while tlen < qlen` loop of the RFC -/
theorem genT_eq_tLoop (q : Nat) (K : Bytes) (m : Nat) (hm : 256 * m ≥ Spec.RFC6979.qlen q)
    (hm' : ∀ t, t < m → 256 * t < Spec.RFC6979.qlen q) :
    ∀ (j t fuel : Nat) (V T : Bytes), t + j = m → T.length = 32 * t → j + 1 ≤ fuel →
      genT K j V T = Spec.RFC6979.tLoop hmacSha256L q K fuel V T := by
  intro j
  induction j with
  | zero =>
    intro t fuel V T htm hT hf
    obtain ⟨f, rfl⟩ : ∃ f, fuel = f + 1 := ⟨fuel - 1, by omega⟩
    simp only [genT, Spec.RFC6979.tLoop]
    rw [if_neg (by rw [hT]; omega)]
  | succ j ih =>
    intro t fuel V T htm hT hf
    obtain ⟨f, rfl⟩ : ∃ f, fuel = f + 1 := ⟨fuel - 1, by omega⟩
    simp only [genT, Spec.RFC6979.tLoop]
    have := hm' t (by omega)
    rw [if_pos (by rw [hT]; omega)]
    exact ih (t + 1) f _ _ (by omega) (by rw [List.length_append, hT, hmac_length]; ring) (by omega)

theorem kLoop_eq_hLoop (n : Nat) :
    ∀ (fuel : Nat) (K V : Bytes),
      kLoop n (bitLength n) ((bitLength n + 7) / 8) fuel K V =
        match Spec.RFC6979.hLoop hmacSha256L n fuel K V with
        | some k => .ok (k : Int)
        | none => .error .outOfFuel := by
  intro fuel
  induction fuel with
  | zero => intro K V; rfl
  | succ f ih =>
    intro K V
    unfold kLoop Spec.RFC6979.hLoop
    have hq : Spec.RFC6979.qlen n = bitLength n := rfl
    set m := ((bitLength n + 7) / 8 + hashSize - 1) / hashSize with hmdef
    have hm : 256 * m ≥ Spec.RFC6979.qlen n := by
      rw [hq, hmdef]; unfold hashSize; omega
    have hm' : ∀ t, t < m → 256 * t < Spec.RFC6979.qlen n := by
      intro t ht; rw [hq]; rw [hmdef] at ht; unfold hashSize at ht; omega
    have hT := genT_eq_tLoop n K m hm hm' m 0 (Spec.RFC6979.qlen n + 1) V [] (by omega) (by simp)
      (by rw [hq, hmdef]; unfold hashSize; omega)
    rw [← hT]
    generalize genT K m V [] = vt
    obtain ⟨v, t⟩ := vt
    simp only
    have hbits : beNat t >>> (t.length * 8 - bitLength n) = Spec.RFC6979.bits2int n t := by
      unfold Spec.RFC6979.bits2int
      simp only [hq]
      rw [Nat.shiftRight_eq_div_pow]
      by_cases h : 8 * t.length > bitLength n
      · rw [if_pos h]; congr 2; omega
      · rw [if_neg h, show t.length * 8 - bitLength n = 0 by omega]; simp
    rw [hbits]
    by_cases hc : 1 ≤ Spec.RFC6979.bits2int n t ∧ Spec.RFC6979.bits2int n t < n
    · rw [if_pos hc, if_pos hc]
    · rw [if_neg hc, if_neg hc]; exact ih _ _

theorem pow256 (k : Nat) : 256 ^ k = 2 ^ (8 * k) := by
  rw [show (256 : Nat) = 2 ^ 8 by norm_num, ← pow_mul]

theorem toBytesBE_ok (v : Nat) (k : Nat) (h : v < 256 ^ k) : toBytesBE (v : Int) k = .ok (beBytes v k) := by
  unfold toBytesBE
  rw [if_neg (by omega)]
  simp [beBytes?, h]

/-- `deterministic_generate_k(n, d, z)` for `0 ≤ d < n` and `z` the integer of a 32-byte hash `h1`: exactly RFC 6979
§3.2 (`Spec.RFC6979.generateK`, written from the RFC text for general `qlen`) — for every group order `n ≠ 0`,
whatever its bit length (pycoin's "shift, then one conditional subtraction" is `bits2octets`). -/
theorem deterministicK_eq_spec (fuel n : Nat) (hn : n ≠ 0) (d : Nat) (hd : d < n) (h1 : Bytes) (hh : h1.length = 32) :
    deterministicGenerateKFuel fuel n (d : Int) (beNat h1 : Int) =
      match Spec.RFC6979.generateK fuel n d h1 with
      | some k => .ok (k : Int)
      | none => .error .outOfFuel := by
  have hq : Spec.RFC6979.qlen n = bitLength n := rfl
  have hlt := lt_two_pow_bitLength n
  have hle := two_pow_le n hn
  have hbpos : 0 < bitLength n := by
    unfold bitLength; rw [if_neg hn]; omega
  have hsz : 2 ^ bitLength n ≤ 256 ^ ((bitLength n + 7) / 8) := by
    rw [pow256]; exact Nat.pow_le_pow_right (by norm_num) (by omega)
  have h2n : 2 ^ bitLength n ≤ 2 * n := by
    have : 2 ^ bitLength n = 2 * 2 ^ (bitLength n - 1) := by
      rw [← pow_succ']; congr 1; omega
    omega
  have hbe : beNat h1 < 2 ^ 256 := by
    have := leNat_lt h1.reverse
    rw [List.length_reverse, hh, pow256] at this
    exact this
  unfold deterministicGenerateKFuel Spec.RFC6979.generateK Spec.RFC6979.generateKWith
  simp only
  rw [toBytesBE_ok d _ (by omega)]
  simp only
  -- the hash value after the shift is bits2int
  have hv1 : (if 8 * hashSize > bitLength n then (beNat h1 : Int) >>> (8 * hashSize - bitLength n) else (beNat h1 : Int)) =
      ((Spec.RFC6979.bits2int n h1 : Nat) : Int) := by
    unfold Spec.RFC6979.bits2int hashSize
    simp only [hq, hh]
    by_cases hc : 8 * 32 > bitLength n
    · rw [if_pos hc, if_pos hc, Int.shiftRight_eq_div_pow]; norm_cast
    · rw [if_neg hc, if_neg hc]
  rw [hv1]
  have hb2 : Spec.RFC6979.bits2int n h1 < 2 * n := by
    unfold Spec.RFC6979.bits2int
    simp only [hq, hh]
    by_cases hc : 8 * 32 > bitLength n
    · rw [if_pos hc]
      have : beNat h1 / 2 ^ (8 * 32 - bitLength n) < 2 ^ bitLength n := by
        rw [Nat.div_lt_iff_lt_mul (Nat.two_pow_pos _), ← pow_add]
        rw [show bitLength n + (8 * 32 - bitLength n) = 256 by omega]; exact hbe
      omega
    · rw [if_neg hc]
      have : 2 ^ 256 ≤ 2 ^ bitLength n := Nat.pow_le_pow_right (by norm_num) (by omega)
      omega
  have hv2 : (if ((Spec.RFC6979.bits2int n h1 : Nat) : Int) ≥ (n : Int) then ((Spec.RFC6979.bits2int n h1 : Nat) : Int) - n
      else ((Spec.RFC6979.bits2int n h1 : Nat) : Int)) = ((Spec.RFC6979.bits2int n h1 % n : Nat) : Int) := by
    by_cases hc : Spec.RFC6979.bits2int n h1 ≥ n
    · rw [if_pos (by exact_mod_cast hc)]
      have : Spec.RFC6979.bits2int n h1 % n = Spec.RFC6979.bits2int n h1 - n := by
        rw [Nat.mod_eq_sub_mod hc, Nat.mod_eq_of_lt (by omega)]
      rw [this]; omega
    · rw [if_neg (by exact_mod_cast hc), Nat.mod_eq_of_lt (by omega)]
  rw [hv2, toBytesBE_ok _ _ (by have := Nat.mod_lt (Spec.RFC6979.bits2int n h1) (Nat.pos_of_ne_zero hn); omega)]
  simp only
  exact kLoop_eq_hLoop n fuel _ _

end Pycoin.RFC6979
