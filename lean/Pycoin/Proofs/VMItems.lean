import Mathlib.Tactic.SplitIfs
import Pycoin.Proofs.VMInstr4
import Pycoin.Proofs.Bytes
import Mathlib.Tactic.NormNum
/-!
No stack item ever exceeds `MAX_SCRIPT_ELEMENT_SIZE`: every iteration of Core's loop keeps all items of the stack and
the alt stack within 520 bytes (pushes are size-checked, numeric results are at most 5 bytes, hashes 20/32 bytes,
everything else is a copy of an existing item).  Used to know that the signatures handed to `_delete_signature` have a
push encoding (`compile_push_data` raises on ≥ 2³² bytes).
-/
namespace Pycoin.VM
open Pycoin.Spec Pycoin.Gen.VM CondStack Consensus

theorem natLEAux_len : ∀ (f n k : Nat), n < 256 ^ k → (natLEAux f n).length ≤ k := by
  intro f
  induction f with
  | zero => intro n k _; simp [natLEAux]
  | succ f ih =>
    intro n k h
    unfold natLEAux
    by_cases hn : n = 0
    · simp [hn]
    · simp only [hn, if_false, List.length_cons]
      cases k with
      | zero => simp at h; omega
      | succ k =>
        have : n / 256 < 256 ^ k := by
          rw [Nat.pow_succ] at h
          exact Nat.div_lt_of_lt_mul (by omega)
        have := ih (n / 256) k this
        omega

theorem encode_len (v : Int) (k : Nat) (h : v.natAbs < 256 ^ k) : (scriptNumEncode v).length ≤ k + 1 := by
  unfold scriptNumEncode
  by_cases hv : v = 0
  · simp [hv]
  simp only [hv, if_false]
  have hl := natLEAux_len v.natAbs v.natAbs k h
  cases hg : (natLE v.natAbs).getLast? with
  | none => simp
  | some last =>
    simp only []
    have hne : natLE v.natAbs ≠ [] := by intro hh; rw [hh] at hg; cases hg
    have hl' : (natLE v.natAbs).length ≤ k := hl
    have hpos : 0 < (natLE v.natAbs).length := List.length_pos_iff.mpr hne
    split_ifs
    all_goals first
      | omega
      | (simp only [List.length_append, List.length_dropLast, List.length_cons, List.length_nil]; omega)

theorem ripemd160_len (m : Bytes) : (Hash.ripemd160 m).length = 20 := by
  simp [Hash.ripemd160, Hash.Rmd.out]

theorem sha1_len (m : Bytes) : (Hash.sha1 m).length = 20 := by
  simp [Hash.sha1, Hash.u32be]

theorem sha256_len' (m : Bytes) : (Hash.sha256 m).length = 32 := by
  simp [Hash.sha256, Hash.u32be]

theorem hashOp_len (op : Nat) (v h : Bytes) (hh : Consensus.hashOp op v = some h) : h.length ≤ 520 := by
  unfold Consensus.hashOp at hh
  split_ifs at hh <;> simp only [Option.some.injEq] at hh <;> subst hh <;>
    simp [ripemd160_len, sha1_len, sha256_len', Hash.hash160, Hash.dsha256]

/-- every item is at most `MAX_SCRIPT_ELEMENT_SIZE` bytes long -/
def okL (l : List Bytes) : Prop := ∀ x ∈ l, x.length ≤ 520

@[simp] theorem okL_nil : okL [] := by intro x hx; cases hx
@[simp] theorem okL_cons (a : Bytes) (l : List Bytes) : okL (a :: l) ↔ a.length ≤ 520 ∧ okL l := by
  unfold okL; simp [List.forall_mem_cons]

def ItemsOk (st : Consensus.State) : Prop := okL st.stack ∧ okL st.alt

theorem scriptNum_bound (x : Bytes) (m : Bool) (bn : Int) (h : scriptNum x m = .ok bn) : bn.natAbs < 2147483648 := by
  unfold scriptNum at h
  split_ifs at h with h1 h2
  cases h
  have := decode_bound x (by omega)
  omega

theorem enc_small (v : Int) (h : v.natAbs ≤ 4294967296) : (scriptNumEncode v).length ≤ 520 := by
  have h5 : (256 : Nat) ^ 5 = 1099511627776 := by norm_num
  have := encode_len v 5 (by rw [h5]; omega)
  omega

theorem unary_bound (op : Nat) (bn r : Int) (h : unaryNumOp op bn = some r) (hb : bn.natAbs < 2147483648) :
    r.natAbs ≤ 4294967296 := by
  unfold unaryNumOp at h
  split_ifs at h <;> simp only [Option.some.injEq, reduceCtorEq] at h <;> subst h <;> (try split_ifs) <;> omega

theorem b2i_small (c : Bool) : (b2i c).natAbs ≤ 4294967296 := by cases c <;> decide

theorem binary_bound (op : Nat) (a b r : Int) (h : binaryNumOp op a b = some r) (ha : a.natAbs < 2147483648)
    (hb : b.natAbs < 2147483648) : r.natAbs ≤ 4294967296 := by
  unfold binaryNumOp at h
  by_cases c : (op == OP_ADD) = true
  · simp only [c, if_true, Bool.false_eq_true, if_false, Option.some.injEq] at h; subst h
    first | exact b2i_small _ | omega | (split <;> omega)
  simp only [c, Bool.false_eq_true, if_false] at h
  clear c
  by_cases c : (op == OP_SUB) = true
  · simp only [c, if_true, Bool.false_eq_true, if_false, Option.some.injEq] at h; subst h
    first | exact b2i_small _ | omega | (split <;> omega)
  simp only [c, Bool.false_eq_true, if_false] at h
  clear c
  by_cases c : (op == OP_BOOLAND) = true
  · simp only [c, if_true, Bool.false_eq_true, if_false, Option.some.injEq] at h; subst h
    first | exact b2i_small _ | omega | (split <;> omega)
  simp only [c, Bool.false_eq_true, if_false] at h
  clear c
  by_cases c : (op == OP_BOOLOR) = true
  · simp only [c, if_true, Bool.false_eq_true, if_false, Option.some.injEq] at h; subst h
    first | exact b2i_small _ | omega | (split <;> omega)
  simp only [c, Bool.false_eq_true, if_false] at h
  clear c
  by_cases c : (op == OP_NUMEQUAL) = true
  · simp only [c, if_true, Bool.false_eq_true, if_false, Option.some.injEq] at h; subst h
    first | exact b2i_small _ | omega | (split <;> omega)
  simp only [c, Bool.false_eq_true, if_false] at h
  clear c
  by_cases c : (op == OP_NUMEQUALVERIFY) = true
  · simp only [c, if_true, Bool.false_eq_true, if_false, Option.some.injEq] at h; subst h
    first | exact b2i_small _ | omega | (split <;> omega)
  simp only [c, Bool.false_eq_true, if_false] at h
  clear c
  by_cases c : (op == OP_NUMNOTEQUAL) = true
  · simp only [c, if_true, Bool.false_eq_true, if_false, Option.some.injEq] at h; subst h
    first | exact b2i_small _ | omega | (split <;> omega)
  simp only [c, Bool.false_eq_true, if_false] at h
  clear c
  by_cases c : (op == OP_LESSTHAN) = true
  · simp only [c, if_true, Bool.false_eq_true, if_false, Option.some.injEq] at h; subst h
    first | exact b2i_small _ | omega | (split <;> omega)
  simp only [c, Bool.false_eq_true, if_false] at h
  clear c
  by_cases c : (op == OP_GREATERTHAN) = true
  · simp only [c, if_true, Bool.false_eq_true, if_false, Option.some.injEq] at h; subst h
    first | exact b2i_small _ | omega | (split <;> omega)
  simp only [c, Bool.false_eq_true, if_false] at h
  clear c
  by_cases c : (op == OP_LESSTHANOREQUAL) = true
  · simp only [c, if_true, Bool.false_eq_true, if_false, Option.some.injEq] at h; subst h
    first | exact b2i_small _ | omega | (split <;> omega)
  simp only [c, Bool.false_eq_true, if_false] at h
  clear c
  by_cases c : (op == OP_GREATERTHANOREQUAL) = true
  · simp only [c, if_true, Bool.false_eq_true, if_false, Option.some.injEq] at h; subst h
    first | exact b2i_small _ | omega | (split <;> omega)
  simp only [c, Bool.false_eq_true, if_false] at h
  clear c
  by_cases c : (op == OP_MIN) = true
  · simp only [c, if_true, Bool.false_eq_true, if_false, Option.some.injEq] at h; subst h
    first | exact b2i_small _ | omega | (split <;> omega)
  simp only [c, Bool.false_eq_true, if_false] at h
  clear c
  by_cases c : (op == OP_MAX) = true
  · simp only [c, if_true, Bool.false_eq_true, if_false, Option.some.injEq] at h; subst h
    first | exact b2i_small _ | omega | (split <;> omega)
  simp only [c, Bool.false_eq_true, if_false] at h
  clear c
  cases h

theorem boolBytes_small (b : Bool) : (boolBytes b).length ≤ 520 := by cases b <;> decide

theorem depth_small (n : Nat) (h : n ≤ 1000) : (scriptNumEncode (Int.ofNat n)).length ≤ 520 :=
  enc_small _ (by simp only [Int.ofNat_eq_natCast, Int.natAbs_natCast]; omega)

theorem okL_getElem (l : List Bytes) (i : Nat) (v : Bytes) (hl : okL l) (h : l[i]? = some v) : v.length ≤ 520 :=
  hl v (List.mem_of_getElem? h)

theorem okL_eraseAt (l : List Bytes) (n : Nat) (hl : okL l) : okL (eraseAt l n) := by
  intro x hx
  unfold eraseAt at hx
  rcases List.mem_append.mp hx with h | h
  · exact hl x (List.mem_of_mem_take h)
  · exact hl x (List.mem_of_mem_drop h)

set_option maxHeartbeats 16000000 in
/-- no arm of the opcode switch makes an item longer than 520 bytes (given that the result passes the stack-size test) -/
theorem execOp_items (env : Consensus.Env) (st st' : Consensus.State) (f : Bool) (op p : Nat) (hop : op < 256)
    (h : execOp env st f op p = .ok st') (hi : ItemsOk st) (hsz : st'.stack.length ≤ 1000) : ItemsOk st' := by
  rcases st with ⟨stk, alt, vf, n, cs⟩
  obtain ⟨hs, ha⟩ := hi
  simp only at hs ha
  interval_cases op <;>
  (simp [execOp, Consensus.num,
    OP_1NEGATE, OP_1, OP_16, OP_NOP, OP_CHECKLOCKTIMEVERIFY, OP_CHECKSEQUENCEVERIFY, OP_NOP1, OP_NOP4, OP_NOP10, OP_IF, OP_NOTIF,
    OP_ELSE, OP_ENDIF, OP_VERIFY, OP_RETURN, OP_TOALTSTACK, OP_FROMALTSTACK, OP_2DROP, OP_2DUP, OP_3DUP, OP_2OVER, OP_2ROT,
    OP_2SWAP, OP_IFDUP, OP_DEPTH, OP_DROP, OP_DUP, OP_NIP, OP_OVER, OP_PICK, OP_ROLL, OP_ROT, OP_SWAP, OP_TUCK, OP_SIZE,
    OP_EQUAL, OP_EQUALVERIFY, OP_1ADD, OP_1SUB, OP_NEGATE, OP_ABS, OP_NOT, OP_0NOTEQUAL, OP_ADD, OP_MAX, OP_WITHIN,
    OP_RIPEMD160, OP_SHA1, OP_SHA256, OP_HASH160, OP_HASH256, OP_CODESEPARATOR] at h) <;>
  (repeat' (split at h)) <;>
  first
    | (cases h; done)
    | (simp at h; done)
    | skip
  all_goals (first | (simp only [Except.ok.injEq] at h; subst h) | subst h | (obtain ⟨_, rfl⟩ := h) | skip)
  all_goals (simp only [ItemsOk] at ⊢)
  all_goals (try simp only [okL_cons] at hs ha ⊢)
  all_goals (first | (simp_all only [true_and, and_true, and_self]; done) | (simp_all only [true_and, and_true, and_self]) | skip)
  all_goals first
    | exact enc_small _ (unary_bound _ _ _ (by assumption) (scriptNum_bound _ _ _ (by assumption)))
    | exact enc_small _ (binary_bound _ _ _ _ (by assumption) (scriptNum_bound _ _ _ (by assumption)) (scriptNum_bound _ _ _ (by assumption)))
    | exact hashOp_len _ _ _ (by assumption)
    | exact boolBytes_small _
    | exact depth_small _ (by omega)
    | exact enc_small _ (by simp only [Int.natAbs_natCast]; omega)
    | exact enc_small _ (by decide)
    | (decide)
    | exact depth_small _ (by simp only [List.length_cons] at hsz; omega)
    | exact okL_getElem _ _ _ ((okL_cons _ _).mpr hs.2) (by assumption)
    | exact ⟨okL_getElem _ _ _ ((okL_cons _ _).mpr hs.2) (by assumption), okL_eraseAt _ _ ((okL_cons _ _).mpr hs.2)⟩

variable (chk : Bytes → Bytes → Bytes → Bool → Bool) (cfg : Config)

theorem okL_drop (l : List Bytes) (n : Nat) (h : okL l) : okL (l.drop n) := fun x hx => h x (List.mem_of_mem_drop hx)

theorem afterC_ok (r : Res Consensus.State) (st' : Consensus.State) (h : afterC r = .ok st') :
    r = .ok st' ∧ st'.stack.length + st'.alt.length ≤ 1000 := by
  unfold afterC at h
  cases r with
  | error e => cases h
  | ok s =>
    simp only [Consensus.MAX_STACK_SIZE] at h
    by_cases hh : s.stack.length + s.alt.length > 1000
    · simp [hh] at h
    · simp only [hh, if_false, Except.ok.injEq] at h
      subst h
      exact ⟨rfl, by omega⟩

theorem checkSig_items (st st' : Consensus.State) (op : Nat) (h : specCheckSig chk cfg st op = .ok st') (hi : ItemsOk st) :
    ItemsOk st' := by
  rw [specCheckSig_eq] at h
  rcases st with ⟨stk, alt, vf, n, cs⟩
  obtain ⟨hs, ha⟩ := hi
  simp only at hs ha h
  repeat' (split at h)
  all_goals first
    | (cases h; done)
    | skip
  all_goals (simp only [Except.ok.injEq] at h; subst h)
  all_goals (simp only [ItemsOk, okL_cons] at hs ⊢)
  all_goals first
    | exact ⟨hs.2.2, ha⟩
    | exact ⟨⟨boolBytes_small _, hs.2.2⟩, ha⟩

theorem checkMultiSig_items (st st' : Consensus.State) (op : Nat) (h : specCheckMultiSig chk cfg st op = .ok st')
    (hi : ItemsOk st) : ItemsOk st' := by
  rw [specCheckMultiSig_eq] at h
  have key : ∀ (l1 l2 l3 : List Bytes) (a d1 d2 : Bytes) (k1 k2 : Nat), okL (a :: l1) → l1.drop k1 = d1 :: l2 →
      l2.drop k2 = d2 :: l3 → okL l3 := by
    intro l1 l2 l3 a d1 d2 k1 k2 h1 h2 h3
    have e1 : okL (d1 :: l2) := by rw [← h2]; exact okL_drop _ _ ((okL_cons _ _).mp h1).2
    have e2 : okL (d2 :: l3) := by rw [← h3]; exact okL_drop _ _ ((okL_cons _ _).mp e1).2
    exact ((okL_cons _ _).mp e2).2
  rcases st with ⟨stk, alt, vf, n, cs⟩
  obtain ⟨hs, ha⟩ := hi
  simp only at hs ha h
  repeat' (split at h)
  all_goals first
    | (cases h; done)
    | skip
  all_goals (simp only [Except.ok.injEq] at h; subst h)
  all_goals (simp only [ItemsOk, okL_cons])
  all_goals first
    | exact ⟨key _ _ _ _ _ _ _ _ hs (by assumption) (by assumption), ha⟩
    | exact ⟨⟨boolBytes_small _, key _ _ _ _ _ _ _ _ hs (by assumption) (by assumption)⟩, ha⟩

/-- **no item ever exceeds 520 bytes**: one iteration of Core's loop keeps every stack and alt-stack item within
`MAX_SCRIPT_ELEMENT_SIZE` (pushes are size-checked, numbers are at most 5 bytes, hashes 20/32) -/
theorem specStep_items (st st' : Consensus.State) (op : Nat) (data : Bytes) (pcNext : Nat) (hop : op < 256)
    (hd : 0x4e < op → data = [])
    (h : specStep chk cfg st op data pcNext = .ok st') (hi : ItemsOk st) : ItemsOk st' := by
  by_cases h1 : op ≤ 0x4e
  · rw [specStep_push chk cfg st op pcNext data h1] at h
    split_ifs at h with hl _ _ _
    · obtain ⟨he, _⟩ := afterC_ok _ _ h
      cases he
      exact ⟨(okL_cons _ _).mpr ⟨by omega, hi.1⟩, hi.2⟩
    · obtain ⟨he, _⟩ := afterC_ok _ _ h
      cases he
      exact hi
  have h1' : 0x4e < op := by omega
  rw [hd h1'] at h
  by_cases hs : 0xac ≤ op ∧ op ≤ 0xaf
  · rw [specStep_sig chk cfg st op pcNext hs] at h
    split_ifs at h
    · obtain ⟨he, _⟩ := afterC_ok _ _ h
      unfold specSigOp at he
      split_ifs at he
      · exact checkSig_items chk cfg _ _ _ he hi
      · exact checkMultiSig_items chk cfg _ _ _ he hi
    · obtain ⟨he, _⟩ := afterC_ok _ _ h
      cases he
      exact hi
  · rw [specStep_op chk cfg st op pcNext h1' hs] at h
    simp only at h
    generalize (if op > 0x60 then st.nOpCount + 1 else st.nOpCount) = n' at h
    split_ifs at h
    · obtain ⟨he, hsz⟩ := afterC_ok _ _ h
      exact execOp_items _ _ _ _ _ _ hop he hi (by omega)
    · obtain ⟨he, _⟩ := afterC_ok _ _ h
      cases he
      exact hi
end Pycoin.VM
