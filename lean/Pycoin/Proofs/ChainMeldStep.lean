import Pycoin.Proofs.ChainWalk
/-! the state after one turn of `meld_new_hashes` satisfies the invariant again (core Lean only) -/
namespace Pycoin.Chain

theorem setdefault_get (d : Dict PSet) (top k : Nat) :
    dget (if dhas d top = true then d else dset d top []) k = if top = k then some ((dget d top).getD []) else dget d k := by
  by_cases hh : dhas d top = true
  · rw [if_pos hh]
    by_cases e : top = k
    · subst e
      obtain ⟨v, hv⟩ := (dhas_iff d top).mp hh
      rw [if_pos rfl, hv]; rfl
    · simp [e]
  · have hn : dget d top = none := by simpa [dhas_false_iff] using hh
    rw [if_neg hh, dget_dset]
    by_cases e : top = k
    · subst e; rw [if_pos rfl, if_pos rfl, hn]; rfl
    · rw [if_neg e, if_neg e]

theorem nodup_sadd {s : PSet} (x : Nat) (h : s.Nodup) : (sadd s x).Nodup := by
  unfold sadd
  by_cases hx : x ∈ s
  · simp [hx, h]
  · simp only [hx, if_false]
    refine List.nodup_append.mpr ⟨h, by simp, ?_⟩
    intro a ha b hb e
    simp at hb; subst hb; subst e; exact hx ha

theorem nodup_foldl_sadd : ∀ (o : List Nat) (s : PSet), s.Nodup → (o.foldl sadd s).Nodup
  | [], _, h => h
  | a :: r, s, h => nodup_foldl_sadd r (sadd s a) (nodup_sadd a h)

theorem nodup_supdate (rev : Bool) (s o : PSet) (h : s.Nodup) : (supdate rev s o).Nodup :=
  nodup_foldl_sadd _ _ h

theorem getD_nodup {cf : CF} {P X : List Nat} (inv : InvX P X cf) (top : Nat) : ((dget cf.dbt top).getD []).Nodup := by
  cases hd : dget cf.dbt top with
  | none => simp
  | some s => simpa using inv.nodup top s hd

theorem mem_getD {d : Dict PSet} {top b : Nat} (h : b ∈ (dget d top).getD []) : ∃ s, dget d top = some s ∧ b ∈ s := by
  cases hd : dget d top with
  | none => simp [hd] at h
  | some s => exact ⟨s, rfl, by simpa [hd] using h⟩

theorem not_mem_sremove_self (P : List Nat) (h : Nat) : h ∉ sremove P h := by
  intro hm; exact ((mem_sremove P h h).mp hm).2 rfl

/-- other trees (not ending at `h`) stay valid when `h` leaves the pending set -/
theorem UpQ.drop_pending {pl : Dict Nat} {P : List Nat} (h : Nat) (t : List Nat) (hu : UpQ pl P P t)
    (hl : t.getLast? ≠ some h) : UpQ pl (sremove P h) (sremove P h) t := by
  have h1 : UpQ pl (sremove P h) P t := UpQ.mono_in (fun z hz => ((mem_sremove P h z).mp hz).1) t hu
  apply UpQ.change_end t h1
  intro x hx
  rcases UpQ.last t hu x hx with h2 | h2
  · exact Or.inl h2
  · right
    refine (mem_sremove P h x).mpr ⟨h2, ?_⟩
    intro e; subst e; exact hl hx

/-- the turn in which paths were waiting on `h` -/
theorem final_W (rev : Bool) (P : List Nat) (h top : Nat) (ext : List Nat) (W ts : PSet) (cf1 cf' : CF)
    (inv1 : InvX P ext cf1) (hP : h ∈ P)
    (hpar : cf'.parent = cf1.parent)
    (hup : UpQ cf1.parent (sremove P h) (sremove P h) (h :: ext))
    (hl : ext.getLast? = some top) (htop : top ≠ h)
    (hW : dget cf1.dbt h = some W) (hWne : W ≠ [])
    (hts : ts = (dget cf1.dbt top).getD [])
    (T3 : ∀ k, dget cf'.trees k =
      if k = h then none else if k ∈ W then (dget cf1.trees k).map (· ++ ext) else dget cf1.trees k)
    (D3 : ∀ k, dget cf'.dbt k =
      if top = k then some (supdate rev ts W) else if h = k then none else dget cf1.dbt k) :
    InvX (sremove P h) [] cf' := by
  have hextne : ext ≠ [] := by intro e; rw [e] at hl; simp at hl
  have F1 : ∀ b t, dget cf1.trees b = some t → b ≠ h := by
    intro b t hb e; subst e; exact inv1.key_not_pending b t hb hP
  have F2i : ∀ b ∈ W, ∃ t, dget cf1.trees b = some t ∧ t.getLast? = some h := fun b hb => inv1.dsound h W b hW hb
  have F2ii : ∀ b t, dget cf1.trees b = some t → t.getLast? = some h → b ∈ W := by
    intro b t hb hlast
    obtain ⟨top', s, l', d', m'⟩ := inv1.dcompl b t hb
    rw [hlast] at l'; injection l' with l'; subst l'
    rw [hW] at d'; injection d' with d'; subst d'; exact m'
  have lastApp : ∀ t0 : List Nat, (t0 ++ ext).getLast? = some top := by
    intro t0; rw [List.getLast?_append, hl]; rfl
  refine ⟨?_, ?_, ?_, ?_, ?_⟩
  · -- tree
    intro k t hk
    rw [T3] at hk
    by_cases e : k = h
    · simp [e] at hk
    · simp only [e, if_false] at hk
      by_cases ew : k ∈ W
      · simp only [ew, if_true] at hk
        obtain ⟨t0, ht0, hl0⟩ := F2i k ew
        rw [ht0] at hk; simp only [Option.map_some, Option.some.injEq] at hk; subst hk
        obtain ⟨hh, hlen, hu⟩ := inv1.tree k t0 ht0
        obtain ⟨a, ha⟩ := List.getLast?_eq_some_iff.mp hl0
        have hne0 : t0 ≠ [] := by rw [ha]; simp
        refine ⟨by rw [List.head?_append, hh]; rfl, by simp; omega, ?_⟩
        rw [hpar, ha, List.append_assoc]
        have h1 : UpQ cf1.parent (sremove P h) P (a ++ [h]) :=
          UpQ.mono_in (fun z hz => ((mem_sremove P h z).mp hz).1) _ (ha ▸ hu)
        exact UpQ.append h ext a h1 hup
      · simp only [ew, if_false] at hk
        obtain ⟨hh, hlen, hu⟩ := inv1.tree k t hk
        refine ⟨hh, hlen, ?_⟩
        rw [hpar]
        exact UpQ.drop_pending h t hu (fun hlast => ew (F2ii k t hk hlast))
  · -- dsound
    intro top' s' b hd hb
    rw [D3] at hd
    by_cases e : top = top'
    · subst e
      simp only [if_true, Option.some.injEq] at hd; subst hd
      rcases (mem_supdate rev ts W b).mp hb with hb | hb
      · rw [hts] at hb
        obtain ⟨s1, hs1, hb1⟩ := mem_getD hb
        obtain ⟨t, ht, hlt⟩ := inv1.dsound top s1 b hs1 hb1
        have hbh := F1 b t ht
        have hbw : b ∉ W := by
          intro hw
          obtain ⟨t2, ht2, hl2⟩ := F2i b hw
          rw [ht] at ht2; injection ht2 with ht2; subst ht2
          rw [hlt] at hl2; injection hl2 with hl2; exact htop hl2
        exact ⟨t, by rw [T3]; simp [hbh, hbw, ht], hlt⟩
      · obtain ⟨t0, ht0, _⟩ := F2i b hb
        have hbh := F1 b t0 ht0
        exact ⟨t0 ++ ext, by rw [T3]; simp [hbh, hb, ht0], lastApp t0⟩
    · simp only [e, if_false] at hd
      by_cases e2 : h = top'
      · simp [e2] at hd
      · simp only [e2, if_false] at hd
        obtain ⟨t, ht, hlt⟩ := inv1.dsound top' s' b hd hb
        have hbh := F1 b t ht
        have hbw : b ∉ W := by
          intro hw
          obtain ⟨t2, ht2, hl2⟩ := F2i b hw
          rw [ht] at ht2; injection ht2 with ht2; subst ht2
          rw [hlt] at hl2; injection hl2 with hl2; exact e2 hl2.symm
        exact ⟨t, by rw [T3]; simp [hbh, hbw, ht], hlt⟩
  · -- dcompl
    intro k t hk
    rw [T3] at hk
    by_cases e : k = h
    · simp [e] at hk
    · simp only [e, if_false] at hk
      by_cases ew : k ∈ W
      · simp only [ew, if_true] at hk
        obtain ⟨t0, ht0, hl0⟩ := F2i k ew
        rw [ht0] at hk; simp only [Option.map_some, Option.some.injEq] at hk; subst hk
        exact ⟨top, supdate rev ts W, lastApp t0, by rw [D3]; simp, (mem_supdate rev ts W k).mpr (Or.inr ew)⟩
      · simp only [ew, if_false] at hk
        obtain ⟨top', s1, l', d', m'⟩ := inv1.dcompl k t hk
        have hth : h ≠ top' := by
          intro e2; subst e2; exact ew (F2ii k t hk l')
        by_cases e2 : top = top'
        · subst e2
          refine ⟨top, supdate rev ts W, l', by rw [D3]; simp, (mem_supdate rev ts W k).mpr (Or.inl ?_)⟩
          rw [hts, d']; exact m'
        · exact ⟨top', s1, l', by rw [D3]; simp [e2, hth, d'], m'⟩
  · -- covers
    intro x v hx hxp
    rw [hpar] at hx
    left
    obtain ⟨d, hd⟩ : ∃ d, d ∈ W := by
      cases W with
      | nil => exact absurd rfl hWne
      | cons d ds => exact ⟨d, by simp⟩
    obtain ⟨t0, ht0, hl0⟩ := F2i d hd
    have hdh := F1 d t0 ht0
    have Td : dget cf'.trees d = some (t0 ++ ext) := by rw [T3]; simp [hdh, hd, ht0]
    by_cases exh : x = h
    · subst exh
      exact ⟨d, t0 ++ ext, Td, List.mem_append_left _ (List.mem_of_getLast? hl0)⟩
    · have hxP : x ∉ P := fun hm => hxp ((mem_sremove P h x).mpr ⟨hm, exh⟩)
      rcases inv1.covers x v hx hxP with ⟨b, t, hb, hm⟩ | hm
      · have hbh := F1 b t hb
        by_cases ew : b ∈ W
        · exact ⟨b, t ++ ext, by rw [T3]; simp [hbh, ew, hb], List.mem_append_left _ hm⟩
        · exact ⟨b, t, by rw [T3]; simp [hbh, ew, hb], hm⟩
      · exact ⟨d, t0 ++ ext, Td, List.mem_append_right _ hm⟩
  · -- nodup
    intro top' s' hd
    rw [D3] at hd
    by_cases e : top = top'
    · simp only [e, if_true, Option.some.injEq] at hd; subst hd
      exact nodup_supdate rev ts W (hts ▸ getD_nodup inv1 top)
    · simp only [e, if_false] at hd
      by_cases e2 : h = top'
      · simp [e2] at hd
      · simp only [e2, if_false] at hd; exact inv1.nodup top' s' hd

/-- the turn in which nothing was waiting on `h`: `h` becomes a new bottom -/
theorem final_N (P : List Nat) (h top : Nat) (ext : List Nat) (ts : PSet) (cf1 cf' : CF)
    (inv1 : InvX P ext cf1) (hP : h ∈ P)
    (hpar : cf'.parent = cf1.parent)
    (hup : UpQ cf1.parent (sremove P h) (sremove P h) (h :: ext))
    (hl : ext.getLast? = some top) (htop : top ≠ h)
    (hNo : ∀ d ds, dget cf1.dbt h = some (d :: ds) → False)
    (hts : ts = (dget cf1.dbt top).getD [])
    (T3 : ∀ k, dget cf'.trees k = if h = k then some (h :: ext) else dget cf1.trees k)
    (D3 : ∀ k, dget cf'.dbt k = if top = k then some (sadd ts h) else dget cf1.dbt k) :
    InvX (sremove P h) [] cf' := by
  have hextne : ext ≠ [] := by intro e; rw [e] at hl; simp at hl
  have F1 : ∀ b t, dget cf1.trees b = some t → b ≠ h := by
    intro b t hb e; subst e; exact inv1.key_not_pending b t hb hP
  have NoW : ∀ b t, dget cf1.trees b = some t → t.getLast? ≠ some h := by
    intro b t hb hlast
    obtain ⟨top', s, l', d', m'⟩ := inv1.dcompl b t hb
    rw [hlast] at l'; injection l' with l'; subst l'
    cases s with
    | nil => simp at m'
    | cons d ds => exact hNo d ds d'
  have lastPath : (h :: ext).getLast? = some top := by
    rw [show h :: ext = [h] ++ ext from rfl, List.getLast?_append, hl]; rfl
  refine ⟨?_, ?_, ?_, ?_, ?_⟩
  · intro k t hk
    rw [T3] at hk
    by_cases e : h = k
    · subst e
      simp only [if_true, Option.some.injEq] at hk; subst hk
      refine ⟨rfl, ?_, hpar ▸ hup⟩
      cases ext with
      | nil => exact absurd rfl hextne
      | cons y r => simp
    · simp only [e, if_false] at hk
      obtain ⟨hh, hlen, hu⟩ := inv1.tree k t hk
      exact ⟨hh, hlen, hpar ▸ UpQ.drop_pending h t hu (NoW k t hk)⟩
  · intro top' s' b hd hb
    rw [D3] at hd
    by_cases e : top = top'
    · subst e
      simp only [if_true, Option.some.injEq] at hd; subst hd
      rcases (mem_sadd ts h b).mp hb with hb | hb
      · rw [hts] at hb
        obtain ⟨s1, hs1, hb1⟩ := mem_getD hb
        obtain ⟨t, ht, hlt⟩ := inv1.dsound top s1 b hs1 hb1
        exact ⟨t, by rw [T3]; simp [Ne.symm (F1 b t ht), ht], hlt⟩
      · subst hb
        exact ⟨b :: ext, by rw [T3]; simp, lastPath⟩
    · simp only [e, if_false] at hd
      obtain ⟨t, ht, hlt⟩ := inv1.dsound top' s' b hd hb
      exact ⟨t, by rw [T3]; simp [Ne.symm (F1 b t ht), ht], hlt⟩
  · intro k t hk
    rw [T3] at hk
    by_cases e : h = k
    · subst e
      simp only [if_true, Option.some.injEq] at hk; subst hk
      exact ⟨top, sadd ts h, lastPath, by rw [D3]; simp, (mem_sadd ts h h).mpr (Or.inr rfl)⟩
    · simp only [e, if_false] at hk
      obtain ⟨top', s1, l', d', m'⟩ := inv1.dcompl k t hk
      by_cases e2 : top = top'
      · subst e2
        refine ⟨top, sadd ts h, l', by rw [D3]; simp, (mem_sadd ts h k).mpr (Or.inl ?_)⟩
        rw [hts, d']; exact m'
      · exact ⟨top', s1, l', by rw [D3]; simp [e2, d'], m'⟩
  · intro x v hx hxp
    rw [hpar] at hx
    left
    by_cases exh : x = h
    · subst exh
      exact ⟨x, x :: ext, by rw [T3]; simp, by simp⟩
    · have hxP : x ∉ P := fun hm => hxp ((mem_sremove P h x).mpr ⟨hm, exh⟩)
      rcases inv1.covers x v hx hxP with ⟨b, t, hb, hm⟩ | hm
      · exact ⟨b, t, by rw [T3]; simp [Ne.symm (F1 b t hb), hb], hm⟩
      · exact ⟨h, h :: ext, by rw [T3]; simp, List.mem_cons_of_mem _ hm⟩
  · intro top' s' hd
    rw [D3] at hd
    by_cases e : top = top'
    · simp only [e, if_true, Option.some.injEq] at hd; subst hd
      exact nodup_sadd h (hts ▸ getD_nodup inv1 top)
    · simp only [e, if_false] at hd; exact inv1.nodup top' s' hd

end Pycoin.Chain
