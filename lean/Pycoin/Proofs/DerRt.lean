import Pycoin.Proofs.Der
/-!
DER facts used by C01's `Key.sign` / `Key.verify` theorems: the round trip `sigdecode_der(sigencode_der(r, s)) = (r, s)`
(the statement and proof of `C10_der_rt`, kept here so that `Props/C01` does not import `Props/C10`), and the classes of the
exceptions `sigdecode_der` can raise (`UnexpectedDER` and `ValueError` only — exactly what `Key.verify` catches).
-/
namespace Pycoin.Der

theorem sigdecodeDer_sigencodeDer (r s : Int) (hr : 0 ≤ r) (hs : 0 ≤ s)
    (hrs : byteLen r.toNat < 2 ^ 64) (hss : byteLen s.toNat < 2 ^ 64) (broken : Bool) :
    ∃ blob, sigencodeDer r s = .ok blob ∧ sigdecodeDer blob broken = .ok (r, s) := by
  obtain ⟨er, her, hler⟩ := encodeInteger_ok r hr hrs
  obtain ⟨es, hes, hles⟩ := encodeInteger_ok s hs hss
  have h66 : (2 : Nat) ^ 65 + 2 ^ 65 < 2 ^ 70 := by decide
  have h64 : (2 : Nat) ^ 64 + 2 < 2 ^ 70 := by decide
  have htot : (er ++ es).length < 2 ^ 70 := by simp; omega
  obtain ⟨l, hl, -⟩ := encodeLength_ok htot
  have hsmall : ∀ (v : Int), byteLen v.toNat < 2 ^ 64 →
      ∀ n, n ≤ (hexBytes v.toNat).length + 1 → (hexBytes n).length < 128 := by
    intro v hv n hn
    apply hexBytes_small
    have : (hexBytes v.toNat).length < 2 ^ 64 + 1 := by rw [hexBytes_length]; split <;> omega
    omega
  have henc : sigencodeDer r s = .ok ((0x30 : UInt8) :: (l ++ (er ++ es)) ++ []) := by
    have hsum : ([er, es].map List.length).sum = (er ++ es).length := by simp
    simp only [sigencodeDer, her, hes, encodeSequence, hsum, hl]
    simp
  refine ⟨_, henc, ?_⟩
  unfold sigdecodeDer
  rw [removeSequence_encode (er ++ es) l [] hl (hexBytes_small htot)]
  simp only [ne_eq, not_true_eq_false, false_and, if_false]
  rw [removeInteger_encodeInteger r hr er es broken her (hsmall r hrs)]
  simp only
  have : removeInteger es broken = .ok (s, []) := by
    have := removeInteger_encodeInteger s hs es [] broken hes (hsmall s hss)
    simpa using this
  rw [this]
  simp

/-- the exception classes `Key.verify` catches -/
def Caught (e : Err) : Prop := e = .unexpectedDER ∨ e = .valueError

theorem readLength_err (s : Bytes) (e : Err) (h : readLength s = .error e) : Caught e := by
  unfold readLength at h
  split at h
  · cases h; exact Or.inl rfl
  · split at h
    · cases h
    · simp only at h
      split at h
      · cases h; exact Or.inl rfl
      · split at h
        · cases h; exact Or.inr rfl
        · cases h

theorem removeSequence_err (s : Bytes) (e : Err) (h : removeSequence s = .error e) : Caught e := by
  unfold removeSequence at h
  split at h
  · cases h; exact Or.inl rfl
  · split at h
    · rename_i e' he
      cases h; exact readLength_err _ _ he
    · cases h

theorem removeInteger_err (s : Bytes) (b : Bool) (e : Err) (h : removeInteger s b = .error e) : Caught e := by
  unfold removeInteger at h
  split at h
  · cases h; exact Or.inl rfl
  · split at h
    · rename_i e' he
      cases h; exact readLength_err _ _ he
    · split at h
      · cases h; exact Or.inl rfl
      · simp only at h
        split at h
        · cases h; exact Or.inr rfl
        · split at h <;> cases h

/-- `sigdecode_der` raises `UnexpectedDER` or `ValueError`, nothing else, on every byte string -/
theorem sigdecodeDer_err (sig : Bytes) (b : Bool) (e : Err) (h : sigdecodeDer sig b = .error e) : Caught e := by
  unfold sigdecodeDer at h
  split at h
  · rename_i e' he
    cases h; exact removeSequence_err _ _ he
  · split at h
    · cases h; exact Or.inl rfl
    · split at h
      · rename_i e' he
        cases h; exact removeInteger_err _ _ _ he
      · split at h
        · rename_i e' he
          cases h; exact removeInteger_err _ _ _ he
        · split at h
          · cases h; exact Or.inl rfl
          · cases h

end Pycoin.Der
