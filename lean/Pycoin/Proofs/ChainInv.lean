import Pycoin.Proofs.ChainFinderFacts
/-! the ChainFinder invariant with a pending set (core Lean only) -/
namespace Pycoin.Chain

/-- `t` follows `parent_lookup` upwards; its inner hashes are not in `Pin`; its last hash has no entry or is in `Pend` -/
def UpQ (pl : Dict Nat) (Pin Pend : List Nat) : List Nat → Prop
  | [] => False
  | [x] => dget pl x = none ∨ x ∈ Pend
  | x :: y :: r => dget pl x = some y ∧ x ∉ Pin ∧ UpQ pl Pin Pend (y :: r)

theorem UpQ.ne_nil {pl : Dict Nat} {Pin Pend t : List Nat} (h : UpQ pl Pin Pend t) : t ≠ [] := by
  cases t with
  | nil => exact absurd h (by simp [UpQ])
  | cons a r => simp

theorem UpQ.mono_in {pl : Dict Nat} {Pin Pin' Pend : List Nat} (hs : ∀ z ∈ Pin', z ∈ Pin) :
    ∀ (t : List Nat), UpQ pl Pin Pend t → UpQ pl Pin' Pend t
  | [], h => h
  | [_], h => h
  | x :: y :: r, h => by
      simp only [UpQ] at h ⊢
      exact ⟨h.1, fun hx => h.2.1 (hs x hx), UpQ.mono_in hs (y :: r) h.2.2⟩

theorem UpQ.change_end {pl : Dict Nat} {Pin Pend Pend' : List Nat} :
    ∀ (t : List Nat), UpQ pl Pin Pend t → (∀ x, t.getLast? = some x → dget pl x = none ∨ x ∈ Pend') → UpQ pl Pin Pend' t
  | [], h, _ => h
  | [x], _, hl => by simp only [UpQ]; exact hl x (by simp)
  | x :: y :: r, h, hl => by
      simp only [UpQ] at h ⊢
      refine ⟨h.1, h.2.1, UpQ.change_end (y :: r) h.2.2 ?_⟩
      intro z hz; exact hl z (by simpa [List.getLast?_cons_cons] using hz)

theorem UpQ.last {pl : Dict Nat} {Pin Pend : List Nat} :
    ∀ (t : List Nat), UpQ pl Pin Pend t → ∀ x, t.getLast? = some x → dget pl x = none ∨ x ∈ Pend
  | [], h, _, _ => absurd h (by simp [UpQ])
  | [y], h, x, hx => by simp at hx; subst hx; exact h
  | y :: z :: r, h, x, hx => by
      simp only [UpQ] at h
      exact UpQ.last (z :: r) h.2.2 x (by simpa [List.getLast?_cons_cons] using hx)

/-- glue a path that ends in `h` onto a path that starts at `h` -/
theorem UpQ.append {pl : Dict Nat} {Pin Pend Pend' : List Nat} (h : Nat) (r : List Nat) :
    ∀ (a : List Nat), UpQ pl Pin Pend (a ++ [h]) → UpQ pl Pin Pend' (h :: r) → UpQ pl Pin Pend' (a ++ h :: r)
  | [], _, h2 => h2
  | [x], h1, h2 => by
      simp only [List.cons_append, List.nil_append, UpQ] at h1 ⊢
      exact ⟨h1.1, h1.2.1, h2⟩
  | x :: y :: a, h1, h2 => by
      simp only [List.cons_append, UpQ] at h1 ⊢
      exact ⟨h1.1, h1.2.1, UpQ.append h r (y :: a) h1.2.2 h2⟩

theorem UpQ.inner_not_in {pl : Dict Nat} {Pin Pend : List Nat} :
    ∀ (t : List Nat), UpQ pl Pin Pend t → 2 ≤ t.length → ∀ b, t.head? = some b → b ∉ Pin
  | [], _, hl, _, _ => by simp at hl
  | [_], _, hl, _, _ => by simp at hl
  | x :: y :: r, h, _, b, hb => by
      simp at hb; subst hb
      simp only [UpQ] at h; exact h.2.1

theorem UpQ_nil_iff (pl : Dict Nat) : ∀ (t : List Nat), UpQ pl [] [] t ↔ UpPath pl t
  | [] => by simp [UpQ, UpPath]
  | [x] => by simp [UpQ, UpPath]
  | x :: y :: r => by simp [UpQ, UpPath, UpQ_nil_iff pl (y :: r)]

/-- registering new hashes: old paths stay paths, now relative to the new pending set -/
theorem UpQ.register {pl pl' : Dict Nat} {new : List Nat}
    (hext : ∀ k v, dget pl k = some v → dget pl' k = some v)
    (hnew : ∀ x ∈ new, dget pl x = none)
    (hreg : ∀ x, dget pl x = none → dget pl' x = none ∨ x ∈ new) :
    ∀ (t : List Nat), UpQ pl [] [] t → UpQ pl' new new t
  | [], h => h
  | [x], h => by
      simp only [UpQ] at h ⊢
      rcases h with h | h
      · exact hreg x h
      · simp at h
  | x :: y :: r, h => by
      simp only [UpQ] at h ⊢
      refine ⟨hext _ _ h.1, ?_, UpQ.register hext hnew hreg (y :: r) h.2.2⟩
      intro hx
      have := hnew x hx
      rw [h.1] at this; cases this

/-- the invariant of `meld_new_hashes`: `P` is `new_hashes` (registered, not melded yet); `X` excuses some hashes
from the covering clause (used while a tree is detached inside `walkUp`) -/
structure InvX (P X : List Nat) (cf : CF) : Prop where
  tree : ∀ b t, dget cf.trees b = some t → t.head? = some b ∧ 2 ≤ t.length ∧ UpQ cf.parent P P t
  dsound : ∀ top s b, dget cf.dbt top = some s → b ∈ s → ∃ t, dget cf.trees b = some t ∧ t.getLast? = some top
  dcompl : ∀ b t, dget cf.trees b = some t → ∃ top s, t.getLast? = some top ∧ dget cf.dbt top = some s ∧ b ∈ s
  covers : ∀ x v, dget cf.parent x = some v → x ∉ P → (∃ b t, dget cf.trees b = some t ∧ x ∈ t) ∨ x ∈ X
  nodup : ∀ top s, dget cf.dbt top = some s → s.Nodup

theorem InvX.empty : InvX [] [] CF.empty := by
  refine ⟨?_, ?_, ?_, ?_, ?_⟩ <;> simp [CF.empty, dget]

theorem InvX.weaken {P X X' : List Nat} {cf : CF} (h : InvX P X cf) (hs : ∀ z ∈ X, z ∈ X') : InvX P X' cf :=
  ⟨h.tree, h.dsound, h.dcompl, fun x v hx hp => (h.covers x v hx hp).imp id (hs x), h.nodup⟩

/-- a tree key is never pending -/
theorem InvX.key_not_pending {P X : List Nat} {cf : CF} (h : InvX P X cf) (b : Nat) (t : List Nat)
    (ht : dget cf.trees b = some t) : b ∉ P := by
  obtain ⟨h1, h2, h3⟩ := h.tree b t ht
  exact UpQ.inner_not_in t h3 h2 b h1

/-! ### `register` -/

theorem register_snd : ∀ (nodes : List (Nat × Nat)) (pl : Dict Nat) (new : PSet) (k : Nat),
    k ∈ (register pl new nodes).2 → k ∈ new ∨ dget pl k = none
  | [], _, _, _, h => by left; simpa [register] using h
  | (h, p) :: r, pl, new, k, hk => by
      unfold register at hk
      by_cases hh : dhas pl h = true
      · simp only [hh, if_true] at hk
        exact register_snd r pl new k hk
      · simp only [hh] at hk
        rcases register_snd r _ _ k hk with h1 | h1
        · rcases (mem_sadd new h k).mp h1 with h2 | h2
          · exact Or.inl h2
          · subst h2; right
            simpa [dhas_false_iff] using hh
        · right
          rw [dget_dset] at h1
          by_cases e : h = k
          · simp [e] at h1
          · simpa [e] using h1

theorem register_snd_mono : ∀ (nodes : List (Nat × Nat)) (pl : Dict Nat) (new : PSet) (k : Nat),
    k ∈ new → k ∈ (register pl new nodes).2
  | [], _, _, _, h => by simpa [register] using h
  | (h, p) :: r, pl, new, k, hk => by
      unfold register
      by_cases hh : dhas pl h = true
      · simp only [hh, if_true]; exact register_snd_mono r pl new k hk
      · simp only [hh]
        exact register_snd_mono r _ _ k ((mem_sadd new h k).mpr (Or.inl hk))

/-- a hash that gets an entry had one before or is collected in `new_hashes` -/
theorem register_reg : ∀ (nodes : List (Nat × Nat)) (pl : Dict Nat) (new : PSet) (k v : Nat),
    dget (register pl new nodes).1 k = some v → dget pl k = some v ∨ k ∈ (register pl new nodes).2
  | [], _, _, _, _, h => by left; simpa [register] using h
  | (h, p) :: r, pl, new, k, v, hk => by
      unfold register at hk ⊢
      by_cases hh : dhas pl h = true
      · simp only [hh, if_true] at hk ⊢
        exact register_reg r pl new k v hk
      · simp only [hh] at hk ⊢
        rcases register_reg r _ _ k v hk with h1 | h1
        · rw [dget_dset] at h1
          by_cases e : h = k
          · subst e; right
            exact register_snd_mono r _ _ h ((mem_sadd new h h).mpr (Or.inr rfl))
          · left; simpa [e] using h1
        · exact Or.inr h1

/-- every collected hash has an entry afterwards -/
theorem register_snd_reg : ∀ (nodes : List (Nat × Nat)) (pl : Dict Nat) (new : PSet),
    (∀ k ∈ new, ∃ v, dget pl k = some v) → ∀ k ∈ (register pl new nodes).2, ∃ v, dget (register pl new nodes).1 k = some v
  | [], _, _, hn, k, hk => by simpa [register] using hn k (by simpa [register] using hk)
  | (h, p) :: r, pl, new, hn, k, hk => by
      unfold register at hk ⊢
      by_cases hh : dhas pl h = true
      · simp only [hh, if_true] at hk ⊢
        exact register_snd_reg r pl new hn k hk
      · simp only [hh] at hk ⊢
        apply register_snd_reg r _ _ _ k hk
        intro k' hk'
        rcases (mem_sadd new h k').mp hk' with h2 | h2
        · obtain ⟨v, hv⟩ := hn k' h2
          by_cases e : h = k'
          · exact ⟨p, by rw [e]; exact dget_dset_self _ _ _⟩
          · exact ⟨v, by rw [dget_dset_ne _ _ e]; exact hv⟩
        · subst h2; exact ⟨p, dget_dset_self _ _ _⟩

end Pycoin.Chain
