import Pycoin.Props.C11
import Pycoin.Model.Base58Hash
/-!
Base58Check round trips for ANY checksum hash whose result has at least four bytes (C11's `C11_b58check_*`, which speak of
double SHA-256, restated with the hash as a parameter), and their instances for the two `HashKind`s.

Nothing about the hash is used except `∀ d, 4 ≤ (h d).length`.
-/
namespace Pycoin.Base58
open Pycoin.Addr (HashKind)
open Pycoin.Gen.Codecs

section generic
variable (h : Bytes → Bytes) (hlen : ∀ d, 4 ≤ (h d).length)
include hlen

theorem take4_length (d : Bytes) : ((h d).take 4).length = 4 := by
  have := hlen d
  simp only [List.length_take]; omega

/-- plain decoding gives payload ‖ checksum exactly when the checked decoding gives the payload (non-empty data) -/
theorem parseWith_iff (s d : Bytes) :
    parseB58HashedWith h s = some d ↔ a2b s = .ok (d ++ (h d).take 4) := by
  unfold parseB58HashedWith parseB58 Pstr.checkHashed
  cases ha : a2b s with
  | error e => simp
  | ok data =>
    simp only
    constructor
    · intro hh
      split at hh
      · cases hh
      · split at hh
        · rename_i heq
          injection hh with hh
          subst hh
          rw [heq, List.take_append_drop]
        · cases hh
    · intro hh
      injection hh with hh
      subst hh
      have hl := take4_length h hlen d
      have hne : (d ++ (h d).take 4).isEmpty = false := by
        cases hd : d ++ (h d).take 4 with
        | nil =>
          have : (d ++ (h d).take 4).length = 0 := by rw [hd]; rfl
          rw [List.length_append, hl] at this; omega
        | cons _ _ => rfl
      have h1 : (d ++ (h d).take 4).length - 4 = d.length := by
        rw [List.length_append, hl]; omega
      simp only [hne, Bool.false_eq_true, if_false, h1, List.take_left', List.drop_left', if_true]

/-- encode then parse: every payload (the empty one included) -/
theorem parseWith_b2aWith (d : Bytes) :
    ∃ s, b2aHashedWith h d = .ok s ∧ (∀ c ∈ s, c ∈ base58Alphabet) ∧ parseB58HashedWith h s = some d := by
  obtain ⟨s, h1, h2, h3⟩ := C11_b58_dec_enc (d ++ (h d).take 4)
  exact ⟨s, h1, h2, (parseWith_iff h hlen s d).mpr h3⟩

theorem parse_b2aWith {d t : Bytes} (ht : b2aHashedWith h d = .ok t) : parseB58HashedWith h t = some d := by
  obtain ⟨s, h1, _, h3⟩ := parseWith_b2aWith h hlen d
  rw [ht] at h1; injection h1 with h1; subst h1; exact h3

/-- parse then encode: an accepted text is the encoding of its payload -/
theorem b2aWith_parseWith (s d : Bytes) (hp : parseB58HashedWith h s = some d) : b2aHashedWith h d = .ok s := by
  have hraw := (parseWith_iff h hlen s d).mp hp
  have hall : ∀ c ∈ s, c ∈ base58Alphabet := by
    apply Classical.byContradiction
    intro hn
    have : ∃ c ∈ s, c ∉ base58Alphabet := by simpa [Classical.not_forall] using hn
    have := (C11_b58_rejects _).mpr this
    rw [this] at hraw; cases hraw
  obtain ⟨bs, hb1, hb2⟩ := C11_b58_enc_dec _ hall
  rw [hraw] at hb1; injection hb1 with hb1; subst hb1
  exact hb2

end generic

theorem b2aHashedWith_ok (h : Bytes → Bytes) (d : Bytes) : ∃ s, b2aHashedWith h d = .ok s := by
  obtain ⟨s, h1, _⟩ := C11_b58_dec_enc (d ++ (h d).take 4)
  exact ⟨s, h1⟩

theorem sha256_length' (m : Bytes) : (Hash.sha256 m).length = 32 := by
  simp [Hash.sha256, Hash.u32be]

/-- THE fact about the checksum hashes the theorems use: 32 bytes out (the stand-in as the real Groestl hash) -/
theorem hashFn_length (k : HashKind) (d : Bytes) : (hashFn k d).length = 32 := by
  cases k
  · simp [hashFn, Hash.dsha256, sha256_length']
  · simp [hashFn, Pstr.grsHash, sha256_length']

theorem hashFn_len4 (k : HashKind) (d : Bytes) : 4 ≤ (hashFn k d).length := by rw [hashFn_length]; omega

theorem parseK_iff (k : HashKind) (s d : Bytes) :
    parseB58HashedK k s = some d ↔ a2b s = .ok (d ++ (hashFn k d).take 4) :=
  parseWith_iff _ (hashFn_len4 k) s d

theorem parseK_b2aK (k : HashKind) (d : Bytes) :
    ∃ s, b2aHashedK k d = .ok s ∧ (∀ c ∈ s, c ∈ base58Alphabet) ∧ parseB58HashedK k s = some d :=
  parseWith_b2aWith _ (hashFn_len4 k) d

theorem parse_b2aK {k : HashKind} {d t : Bytes} (ht : b2aHashedK k d = .ok t) : parseB58HashedK k t = some d :=
  parse_b2aWith _ (hashFn_len4 k) ht

theorem b2aK_parseK (k : HashKind) (s d : Bytes) (hp : parseB58HashedK k s = some d) : b2aHashedK k d = .ok s :=
  b2aWith_parseWith _ (hashFn_len4 k) s d hp

theorem b2aK_ok (k : HashKind) (d : Bytes) : ∃ s, b2aHashedK k d = .ok s := b2aHashedWith_ok _ d

/-- a text accepted under BOTH checksum hashes carries one payload whose two checksums coincide: acceptance of one
network's text by a network of the other hash kind is a 4-byte collision between the two hashes (probability 2⁻³²
per payload for the real hashes; nothing in the theorems relies on it not happening) -/
theorem parse_both_collision (s d₁ d₂ : Bytes) (h₁ : parseB58HashedK .sha256d s = some d₁)
    (h₂ : parseB58HashedK .groestl s = some d₂) :
    d₁ = d₂ ∧ (hashFn .sha256d d₁).take 4 = (hashFn .groestl d₁).take 4 := by
  have e₁ := (parseK_iff _ s d₁).mp h₁
  have e₂ := (parseK_iff _ s d₂).mp h₂
  rw [e₁] at e₂
  injection e₂ with e₂
  have l₁ := take4_length _ (hashFn_len4 .sha256d) d₁
  have l₂ := take4_length _ (hashFn_len4 .groestl) d₂
  have hlen : d₁.length = d₂.length := by
    have := congrArg List.length e₂
    simp only [List.length_append, l₁, l₂] at this; omega
  have hd := List.append_inj_left e₂ hlen
  subst hd
  exact ⟨rfl, List.append_cancel_left e₂⟩

end Pycoin.Base58
