import Pycoin.Proofs.NativeSecp
/-!
The Generator methods the libsecp256k1 mixin does NOT override (`sign_with_recid`, `possible_public_pairs_for_signature`)
run in the class `GeneratorWithOptimizations(LibSECP256K1Optimizations, <OpenSSL mixin>, Generator)`: `k * self` and
`int * Point` go to libsecp256k1, `inverse_mod` (hence `Curve.add`) to OpenSSL.  Under both contracts they equal the pure
class's.
-/
namespace Pycoin.Native
open Pycoin Pycoin.Curve WeierstrassCurve

variable {c : CurveParams} [Good c] {L : LibCrypto} {den : L.EcPoint → Pt}
  {S : LibSecp256k1} {denP : S.Pubkey → Pt} {denS : S.Sig → Int × Int}

theorem secpM_add (base : Methods) (P Q : Pt) : Gen.add (Secp.methods S c base) c P Q = Gen.add base c P Q := by
  cases P <;> cases Q <;> rfl

theorem secpM_mulG (specS : LibSecpSpec c S denP denS) (ok : ECDSAOk c) (hp256 : c.p ≤ 2 ^ 256) (base : Methods) (bf e : Int) :
    Gen.mulG (Secp.methods S c base) c bf e = Curve.mulG c bf e := by
  unfold Gen.mulG
  simp only [Secp.methods]
  exact secp_mul_eq specS ok hp256 bf e

theorem secpM_inverseN (spec : LibCryptoSpec c L den) (fits : CurveFits c) (ok : ECDSAOk c) (a : Int) (fa : Fits a) :
    Gen.inverseN (Secp.methods S c (Ossl.methods L c)) c a = Curve.inverseN c a :=
  ossl_inverseN_eq spec fits ok a fa

theorem secpM_multiply (specS : LibSecpSpec c S denP denS) (ok : ECDSAOk c) (hp256 : c.p ≤ 2 ^ 256) (base : Methods)
    (P : Pt) (hP : OnCurve c P) (rP : Reduced c P) (hT : (c.n : Int) • toPoint c P = 0) (e : Int) :
    (Secp.methods S c base).multiply P e = Curve.multiply c P e := by
  show (match Secp.multiply S c P e with
    | .error er => Except.error er
    | .ok (.pt R) => .ok R
    | .ok .pyFalse => .error .type) = _
  rw [secp_multiply_eq specS ok hp256 P hP rP hT e]
  cases Curve.multiply c P e <;> rfl

/-- `sign_with_recid` in the class with both mixins -/
theorem secpM_signLoop_eq (spec : LibCryptoSpec c L den) (specS : LibSecpSpec c S denP denS) (fits : CurveFits c)
    (ok : ECDSAOk c) (hp256 : c.p ≤ 2 ^ 256) (bf d z : Int) :
    ∀ (fuel : Nat) (k : Int), (∀ j : Nat, j < fuel → Fits (k + j)) →
      Gen.signLoop (Secp.methods S c (Ossl.methods L c)) c bf d z fuel k = Curve.signLoop c bf d z fuel k := by
  intro fuel
  induction fuel with
  | zero => intro k _; rfl
  | succ f ih =>
    intro k hk
    unfold Gen.signLoop Curve.signLoop
    rw [secpM_mulG specS ok hp256]
    cases hm : Curve.mulG c bf k with
    | error e => rfl
    | ok A =>
      match A with
      | none => rfl
      | some (x, y) =>
        simp only
        have fk : Fits k := by simpa using hk 0 (by omega)
        rw [secpM_inverseN spec fits ok k fk]
        cases hi : Curve.inverseN c k with
        | error e => rfl
        | ok ki =>
          simp only
          rw [ih (k + 1) (fun j hj => by have := hk (j + 1) (by omega); push_cast at this; rw [add_assoc, add_comm 1]; exact this)]

theorem secpM_signWithRecid_eq (spec : LibCryptoSpec c L den) (specS : LibSecpSpec c S denP denS) (fits : CurveFits c)
    (ok : ECDSAOk c) (hp256 : c.p ≤ 2 ^ 256) (bf : Int) (genK : Nat → Int → Int → Except Err Int) (d z : Int)
    (hk : ∀ k, genK c.n d z = .ok k → k.natAbs ≤ 2 * c.n) :
    Gen.signWithRecid (Secp.methods S c (Ossl.methods L c)) c bf genK d z = Curve.signWithRecid c bf genK d z := by
  unfold Gen.signWithRecid Curve.signWithRecid
  by_cases hz : z = 0
  · rw [if_pos hz, if_pos hz]
  rw [if_neg hz, if_neg hz]
  cases hg : genK c.n d z with
  | error e => rfl
  | ok k =>
    simp only
    have hb := hk k hg
    have hnpos := ok.nprime.pos
    exact secpM_signLoop_eq spec specS fits ok hp256 bf d z (c.n + 1) k
      (fun j hj => fits_of_lt_four_mul (m := c.n) (by omega) fits.2)

/-- recovery in the class with both mixins -/
theorem secpM_recover_eq (spec : LibCryptoSpec c L den) (specS : LibSecpSpec c S denP denS) (fits : CurveFits c)
    (ok : ECDSAOk c) (hp256 : c.p ≤ 2 ^ 256) (bf z r s : Int) (par : Option Int) (hr0 : 0 ≤ r)
    (htors : ∀ y, containsXY c r y = true → (c.n : Int) • toPoint c (some (r, y)) = 0) :
    Gen.possiblePublicPairsForSignature (Secp.methods S c (Ossl.methods L c)) c bf z r s par =
      Curve.possiblePublicPairsForSignature c bf z r s par := by
  unfold Gen.possiblePublicPairsForSignature Curve.possiblePublicPairsForSignature
  by_cases hrp : r ≥ c.p
  · rw [if_pos hrp, if_pos hrp]
  rw [if_neg hrp, if_neg hrp]
  cases hpx : pointsForX c r with
  | error e => rfl
  | ok qq =>
    obtain ⟨q0, q1⟩ := qq
    simp only
    have hpts := pointsForX_points r hr0 (by omega) q0 q1 hpx
    rw [secpM_inverseN spec fits ok r (fits_of_range hr0 (by omega) fits.1)]
    cases hi : Curve.inverseN c r with
    | error e => rfl
    | ok invR =>
      simp only
      rw [secpM_mulG specS ok hp256]
      cases hm : Curve.mulG c bf (-(invR * z)) with
      | error e => rfl
      | ok mE =>
        simp only
        have mr := mulG_reduced c ok.gOn ok.gRed ok.nprime.pos.ne' ok.n256 ok.gOrd bf _ mE hm
        have key : ∀ q, q = q0 ∨ q = q1 →
            Gen.recoverStep (Secp.methods S c (Ossl.methods L c)) c (s * invR) mE q =
              Curve.recoverStep c (s * invR) mE q := by
          intro q hq
          obtain ⟨y, rfl, hc, hy0, hyp⟩ := hpts q hq
          have rq : Reduced c (some (r, y)) := ⟨hr0, by omega, by omega, hyp⟩
          unfold Gen.recoverStep Curve.recoverStep
          rw [secpM_multiply specS ok hp256 _ (some (r, y)) hc rq (htors y hc) (s * invR)]
          cases hb : Curve.multiply c (some (r, y)) (s * invR) with
          | error e => rfl
          | ok t =>
            simp only
            have tr : Reduced c t := multiply_reduced c (some (r, y)) hc rq (fun x' y' h => by cases h; exact hy0) _ t hb
            rw [secpM_add]
            exact ossl_add_eq spec fits t mE (coordFits_of_reduced fits tr) (coordFits_of_reduced fits mr)
        have hcongr : ∀ pts : List Pt, (∀ q ∈ pts, q = q0 ∨ q = q1) →
            mapMExcept (Gen.recoverStep (Secp.methods S c (Ossl.methods L c)) c (s * invR) mE) pts =
            mapMExcept (Curve.recoverStep c (s * invR) mE) pts :=
          fun pts hp => mapMExcept_congr _ _ pts (fun q hq => key q (hp q hq))
        cases par with
        | none =>
          simp only
          rw [hcongr [q0, q1] (by simp)]
          rfl
        | some pv =>
          simp only
          by_cases hpar : fmod pv 2 = 1
          · simp only [hpar, if_true]
            rw [hcongr [q1] (by simp)]
            rfl
          · simp only [hpar, if_false]
            rw [hcongr [q0] (by simp)]
            rfl

end Pycoin.Native
