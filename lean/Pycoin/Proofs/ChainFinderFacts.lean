import Pycoin.Proofs.ChainOps
/-! facts about the ChainFinder model that the BlockChain proofs use (core Lean only) -/
namespace Pycoin.Chain

theorem bind_ok {α β : Type} {x : Except Err α} {f : α → Except Err β} {r : β}
    (h : (x >>= f) = .ok r) : ∃ a, x = .ok a ∧ f a = .ok r := by
  cases x with
  | error e => simp [bind, Except.bind] at h
  | ok a => exact ⟨a, rfl, h⟩

/-! ### `register` -/

theorem register_ext : ∀ (nodes : List (Nat × Nat)) (pl : Dict Nat) (new : PSet) (k v : Nat),
    dget pl k = some v → dget (register pl new nodes).1 k = some v
  | [], _, _, _, _, h => by simpa [register] using h
  | (h, p) :: r, pl, new, k, v, hk => by
      unfold register
      by_cases hh : dhas pl h = true
      · simp only [hh, if_true]; exact register_ext r pl new k v hk
      · simp only [hh]
        apply register_ext r
        have : h ≠ k := by
          intro e; subst e
          have := (dhas_iff pl h).mpr ⟨v, hk⟩
          exact hh this
        rw [dget_dset_ne _ _ this]; exact hk

theorem register_new : ∀ (nodes : List (Nat × Nat)) (pl : Dict Nat) (new : PSet) (k v : Nat),
    dget (register pl new nodes).1 k = some v → dget pl k = some v ∨ (k, v) ∈ nodes
  | [], _, _, _, _, h => by left; simpa [register] using h
  | (h, p) :: r, pl, new, k, v, hk => by
      unfold register at hk
      by_cases hh : dhas pl h = true
      · simp only [hh, if_true] at hk
        rcases register_new r pl new k v hk with h1 | h1
        · exact Or.inl h1
        · exact Or.inr (List.mem_cons_of_mem _ h1)
      · simp only [hh] at hk
        rcases register_new r _ _ k v hk with h1 | h1
        · rw [dget_dset] at h1
          by_cases e : h = k
          · simp [e] at h1; subst e; subst h1; right; simp
          · simp [e] at h1; exact Or.inl h1
        · exact Or.inr (List.mem_cons_of_mem _ h1)

/-! ### `meld` leaves `parent_lookup` alone -/

theorem walkUp_parent (pending : PSet) : ∀ (fuel : Nat) (cf : CF) (path : List Nat) (h : Nat) (path' : List Nat) (cf' : CF),
    walkUp pending fuel cf path h = .ok (path', cf') → cf'.parent = cf.parent
  | 0, _, _, _, _, _, hr => by simp [walkUp] at hr
  | fuel + 1, cf, path, h, path', cf', hr => by
      unfold walkUp at hr
      split at hr
      · injection hr with hr; injection hr with h1 h2; subst h2; rfl
      · split at hr
        · dsimp only at hr
          split at hr
          · cases hr
          · split at hr
            · injection hr with hr; injection hr with h1 h2; subst h2; rfl
            · cases hr
        · split at hr
          · injection hr with hr; injection hr with h1 h2; subst h2; rfl
          · exact walkUp_parent pending fuel cf _ _ path' cf' hr

theorem meldOne_parent (rev : Bool) (pending : PSet) (cf cf' : CF) (h : Nat)
    (hr : meldOne rev pending cf h = .ok cf') : cf'.parent = cf.parent := by
  unfold meldOne at hr
  obtain ⟨⟨path, cf1⟩, hw, hr⟩ := bind_ok hr
  have hp := walkUp_parent pending _ cf [h] h path cf1 hw
  simp only at hr
  split at hr
  · cases hr
  · split at hr
    · obtain ⟨trees, _, hr⟩ := bind_ok hr
      injection hr with hr; subst hr; exact hp
    · injection hr with hr; subst hr; exact hp

theorem meld_parent (rev : Bool) (rank : List Nat) : ∀ (n : Nat) (pending : PSet) (cf cf' : CF),
    meld rev rank n pending cf = .ok cf' → cf'.parent = cf.parent
  | 0, _, cf, cf', hr => by simp [meld] at hr; subst hr; rfl
  | n + 1, pending, cf, cf', hr => by
      unfold meld at hr
      split at hr
      · injection hr with hr; subst hr; rfl
      · obtain ⟨cf1, h1, hr⟩ := bind_ok hr
        rw [meld_parent rev rank n _ cf1 cf' hr, meldOne_parent rev _ cf cf1 _ h1]

theorem loadNodes_parent (rev : Bool) (rank : List Nat) (cf cf' : CF) (nodes : List (Nat × Nat))
    (hr : cf.loadNodes rev rank nodes = .ok cf') : cf'.parent = (register cf.parent [] nodes).1 := by
  unfold CF.loadNodes at hr
  exact meld_parent rev rank _ _ _ cf' hr

/-! ### what a sound finder answers -/

/-- every tree is the upward path from its key; every bottom listed under a top has a tree ending at that top -/
structure FinderSound (cf : CF) : Prop where
  tree : ∀ b t, dget cf.trees b = some t → t.head? = some b ∧ UpPath cf.parent t
  dbt : ∀ top s b, dget cf.dbt top = some s → b ∈ s → ∃ t, dget cf.trees b = some t ∧ t.getLast? = some top

theorem mapM_trees_spec (cf : CF) : ∀ (bs : List Nat) (cs : List (List Nat)),
    bs.mapM (fun b => match dget cf.trees b with
      | none => (Except.error Err.keyError : Except Err (List Nat))
      | some t => .ok t) = .ok cs →
    ∀ c ∈ cs, ∃ b ∈ bs, dget cf.trees b = some c
  | [], cs, h, c, hc => by
      simp [List.mapM_nil, pure, Except.pure] at h; subst h; simp at hc
  | b :: bs, cs, h, c, hc => by
      rw [List.mapM_cons] at h
      obtain ⟨t, ht, h⟩ := bind_ok h
      obtain ⟨ts, hts, h⟩ := bind_ok h
      simp [pure, Except.pure] at h; subst h
      cases hb : dget cf.trees b with
      | none => simp [hb] at ht
      | some t' =>
        simp [hb] at ht; subst ht
        rcases List.mem_cons.mp hc with hc | hc
        · subst hc; exact ⟨b, by simp, hb⟩
        · obtain ⟨b', hb', h'⟩ := mapM_trees_spec cf bs ts hts c hc
          exact ⟨b', List.mem_cons_of_mem _ hb', h'⟩

theorem allChains_spec (rev : Bool) (cf : CF) (hs : FinderSound cf) (a : Nat) (cs : List (List Nat))
    (h : cf.allChainsEndingAt rev a = .ok cs) : ∀ c ∈ cs, UpPath cf.parent c ∧ c.getLast? = some a := by
  intro c hc
  unfold CF.allChainsEndingAt at h
  split at h
  · injection h with h; subst h; simp at hc
  · rename_i s hs'
    obtain ⟨b, hb, hbt⟩ := mapM_trees_spec cf _ cs h c hc
    rw [mem_siter] at hb
    obtain ⟨t, ht, hl⟩ := hs.dbt a s b hs' hb
    rw [hbt] at ht; injection ht with ht; subst ht
    exact ⟨(hs.tree b c hbt).2, hl⟩

theorem maximumPath_spec (cf : CF) (hs : FinderSound cf) (h : Nat) (p : List Nat)
    (hr : cf.maximumPath h = .ok p) : UpPath cf.parent p ∧ p.head? = some h := by
  unfold CF.maximumPath at hr
  split at hr
  · rename_i b t ht
    injection hr with hr; subst hr
    have := hs.tree h _ ht
    exact ⟨this.2, this.1⟩
  · exact walkParents_spec _ _ _ _ hr

theorem pickBest_mem (w : Dict Nat) : ∀ (cs : List (List Nat)) (acc : Nat × List Nat),
    (pickBest w cs acc).2 = acc.2 ∨ (pickBest w cs acc).2 ∈ cs
  | [], acc => by simp [pickBest]
  | c :: cs, (mw, best) => by
      unfold pickBest
      split
      · rcases pickBest_mem w cs (chainWeight w c, c) with h | h
        · right; rw [h]; simp
        · right; exact List.mem_cons_of_mem _ h
      · rcases pickBest_mem w cs (mw, best) with h | h
        · left; exact h
        · right; exact List.mem_cons_of_mem _ h

end Pycoin.Chain
