import Pycoin.Proofs.SolveSolver
/-!
C05 — `Solve.solveForConstraints` on the constraints of the three base templates (with the closing constraints of P2SH / P2WSH):
the lists it returns are what the result-level model `Sign.solveBase` computes, split by atom letter.
-/
namespace Pycoin.Solve
open Pycoin Pycoin.Sign

theorem deps_closing (cx cw : Option Bytes) : (closingTerms cx cw).flatMap Term.deps = closingAtoms cx cw := by
  cases cx <;> cases cw <;> rfl

theorem closingDone_solved (cx cw : Option Bytes) : (closingDone cx cw).any (fun q => q.2.isNone) = false := by
  cases cx <;> cases cw <;> rfl

theorem dedup_append_disjoint (l r : List Atom) (hr : r.Nodup) (hd : ∀ a ∈ l, a ∉ r) : dedup (l ++ r) = dedup l ++ r := by
  induction l with
  | nil => simp only [List.nil_append, dedup]; exact dedup_of_nodup r hr
  | cons a t ih =>
    have ha := hd a (by simp)
    have := ih (fun x hx => hd x (List.mem_cons_of_mem _ hx))
    by_cases hm : a ∈ t
    · simp [dedup, hm, this]
    · simp [dedup, hm, ha, this]

theorem mem_dedup (l : List Atom) (k : Atom) (hk : k ∈ l) : k ∈ dedup l := by
  induction l with
  | nil => cases hk
  | cons b t ih =>
    by_cases hb : b ∈ t
    · simp only [dedup, hb, if_true]
      rcases List.mem_cons.mp hk with rfl | h
      · exact ih hb
      · exact ih h
    · simp only [dedup, hb, if_false]
      rcases List.mem_cons.mp hk with rfl | h
      · simp
      · exact List.mem_cons_of_mem _ (ih h)

theorem closingAtoms_nodup (cx cw : Option Bytes) : (closingAtoms cx cw).Nodup := by
  cases cx <;> cases cw <;> simp [closingAtoms]

/-- the generic step from "the first round assigns `vs` to the base atoms `asc`" to the lists `solve_for_constraints` returns -/
theorem solveFor_generic (a : SolveArgs) (ex : List Bytes) (baseCons : List Term) (baseSols : List Sol) (asc : List Atom)
    (cx cw : Option Bytes) (L : Bool) (R : Except Sign.Err (List Bytes))
    (hcol : collectSolutions baseCons = .ok baseSols)
    (hdeps : dedup (baseCons.flatMap Term.deps) = asc)
    (hne : asc ≠ [])
    (hL : ∀ k ∈ asc, k.isW = L) (hasc : asc.Pairwise (fun x y => x.number < y.number))
    (hpos : ((L = false ∧ cx.isSome) ∨ (L = true ∧ cw.isSome)) → ∀ k ∈ asc, 0 < k.number)
    (hpass : ∀ (tail : Solved) (p : Bool), (∀ k ∈ asc, k ∉ Solved.keys tail) →
      solverPass a ex baseSols (asc.map (fun k => (k, none)) ++ tail) p =
        R.map (fun vs => ((asc.zip vs).map (fun q => (q.1, some q.2)) ++ tail, true)))
    (hR : ∀ vs, R = .ok vs → asc.length = vs.length) :
    solveForConstraints a ex (baseCons ++ closingTerms cx cw) =
      R.map (fun vs => splitByLetter L (vs.reverse.map some) cx cw) := by
  have hx0 : cx.isSome → Atom.x 0 ∉ asc := by
    intro hc hm
    cases L with
    | true => have := hL _ hm; simp [Atom.isW] at this
    | false => have := hpos (Or.inl ⟨rfl, hc⟩) _ hm; simp [Atom.number] at this
  have hw0 : cw.isSome → Atom.w 0 ∉ asc := by
    intro hc hm
    cases L with
    | false => have := hL _ hm; simp [Atom.isW] at this
    | true => have := hpos (Or.inr ⟨rfl, hc⟩) _ hm; simp [Atom.number] at this
  have hdisj : ∀ k ∈ asc, k ∉ closingAtoms cx cw := by
    intro k hk hm
    cases cx <;> cases cw <;> simp [closingAtoms] at hm
    · subst hm; exact hw0 rfl hk
    · subst hm; exact hx0 rfl hk
    · rcases hm with rfl | rfl
      · exact hx0 rfl hk
      · exact hw0 rfl hk
  have hdisj' : ∀ k ∈ baseCons.flatMap Term.deps, k ∉ closingAtoms cx cw := by
    intro k hk
    apply hdisj
    rw [← hdeps]
    exact mem_dedup _ _ hk
  have hinit : initialSolved (baseCons ++ closingTerms cx cw) =
      asc.map (fun k => (k, none)) ++ (closingAtoms cx cw).map (fun k => (k, none)) := by
    unfold initialSolved
    rw [List.flatMap_append, deps_closing, dedup_append_disjoint _ _ (closingAtoms_nodup cx cw) hdisj', hdeps, List.map_append]
  have hun : (asc.map (fun k => ((k, none) : Atom × Option Bytes)) ++ (closingAtoms cx cw).map (fun k => (k, none))).any
      (fun q => q.2.isNone) = true := by
    cases asc with
    | nil => exact absurd rfl hne
    | cons k r => simp
  have htailkeys : ∀ k ∈ asc, k ∉ Solved.keys ((closingAtoms cx cw).map (fun k => ((k, none) : Atom × Option Bytes))) := by
    intro k hk
    simp only [Solved.keys, List.map_map]
    have : ((fun p : Atom × Option Bytes => p.1) ∘ fun k : Atom => (k, none)) = id := rfl
    rw [this, List.map_id]
    exact hdisj k hk
  unfold solveForConstraints
  rw [collect_append, hcol, collect_closing]
  simp only [hinit]
  have hp := hpass _ false htailkeys
  cases hRv : R with
  | error e =>
    rw [hRv] at hp
    simp only [Except.map] at hp ⊢
    rw [solverLoop_err a ex _ _ _ e hun (by rw [solverPass_append, hp])]
  | ok vs =>
    rw [hRv] at hp
    simp only [Except.map] at hp ⊢
    have hlen := hR vs hRv
    have hkeysdone : Solved.keys ((asc.zip vs).map (fun q => ((q.1, some q.2) : Atom × Option Bytes))) = asc := by
      simp only [Solved.keys, List.map_map]
      have : ((fun p : Atom × Option Bytes => p.1) ∘ fun p : Atom × Bytes => (p.1, some p.2)) = Prod.fst := rfl
      rw [this, List.map_fst_zip (by omega)]
    have hpassAll : solverPass a ex (baseSols ++ closingSols cx cw)
        (asc.map (fun k => (k, none)) ++ (closingAtoms cx cw).map (fun k => (k, none))) false =
        .ok ((asc.zip vs).map (fun q => (q.1, some q.2)) ++ closingDone cx cw, true || (cx.isSome || cw.isSome)) := by
      rw [solverPass_append, hp]
      simp only
      exact solverPass_closing a ex cx cw _ true (fun h => by rw [hkeysdone]; exact hx0 h) (fun h => by rw [hkeysdone]; exact hw0 h)
    have hsolved : ((asc.zip vs).map (fun q => ((q.1, some q.2) : Atom × Option Bytes)) ++ closingDone cx cw).any
        (fun q => q.2.isNone) = false := by
      rw [List.any_append, closingDone_solved]
      simp
    rw [solverLoop_one a ex _ _ _ _ _ hun hpassAll hsolved]
    simp only
    rw [valuesOf_final asc vs cx cw L hlen hL hasc hpos]

/-! ## `signing_solver` with a placeholder fills every signature variable -/

theorem assemble_some (nSigs : Nat) (ph : Bytes) (ex : List (Int × Bytes)) :
    ∃ vs : List Bytes, assemble nSigs (some ph) ex = vs.map some ∧ vs.length = nSigs := by
  let padded := ex ++ List.replicate (nSigs - ex.length) ((-1 : Int), ph)
  refine ⟨((sortSigs padded).take nSigs).map (fun t : Int × Bytes => t.2), ?_, ?_⟩
  · have hl : (sortSigs padded).length = padded.length := (sortSigs_perm padded).length_eq
    have hp : nSigs ≤ padded.length := by simp [padded]; omega
    show ((sortSigs padded).map (fun t : Int × Bytes => some t.2) ++
      List.replicate (nSigs - ((sortSigs padded).map (fun t : Int × Bytes => some t.2)).length) none).take nSigs = _
    rw [List.take_append_of_le_length (by simp [hl]; exact hp)]
    simp [List.map_take, Function.comp_def]
  · have hl : (sortSigs padded).length = padded.length := (sortSigs_perm padded).length_eq
    have hp : nSigs ≤ padded.length := by simp [padded]; omega
    simp [hl]; exact hp

theorem signingSolver_some {C : Crypto} {lookup : Lookup} {digest : Digest} {keys : List Bytes} {nSigs : Nat}
    {ex : List Bytes} {ht : Nat} {ph : Bytes} {vals : List (Option Bytes)}
    (h : signingSolver C lookup digest keys nSigs ex ht (some ph) = .ok vals) :
    ∃ vs : List Bytes, vals = vs.map some ∧ vs.length = nSigs := by
  unfold signingSolver at h
  split at h
  · cases h
  · split at h
    · cases h
    · rename_i ex' _
      cases h
      exact assemble_some nSigs ph ex'

/-! ## the three base templates -/

theorem fresh_pairwise (isW : Bool) (c n : Nat) : (freshAtoms isW c n).Pairwise (fun x y => x.number < y.number) := by
  unfold freshAtoms
  rw [List.pairwise_map]
  have := List.pairwise_lt_range' (s := c) (n := n) (step := 1)
  exact this.imp (fun {a b} h => by simpa [Atom.mk_number] using h)

theorem fresh_isW (isW : Bool) (c n : Nat) : ∀ k ∈ freshAtoms isW c n, k.isW = isW := by
  intro k hk
  obtain ⟨i, _, rfl⟩ := List.mem_map.mp hk
  exact Atom.mk_isW isW i

theorem fresh_number (isW : Bool) (c n : Nat) : ∀ k ∈ freshAtoms isW c n, c ≤ k.number := by
  intro k hk
  obtain ⟨i, hi, rfl⟩ := List.mem_map.mp hk
  rw [Atom.mk_number]
  exact (List.mem_range'_1.mp hi).1

theorem fresh_succ (isW : Bool) (c n : Nat) : freshAtoms isW c (n + 1) = freshAtoms isW c n ++ [Atom.mk isW (c + n)] := by
  simp [freshAtoms, List.range'_concat]

/-- `<key> CHECKSIG` -/
theorem solveFor_p2pk (a : SolveArgs) (ex : List Bytes) (key : Bytes) (g : Atom) (wit : Bool) (cx cw : Option Bytes) (ph : Bytes)
    (hph : a.placeholder = some ph)
    (hpos : ((g.isW = false ∧ cx.isSome) ∨ (g.isW = true ∧ cw.isSome)) → 0 < g.number) :
    solveForConstraints a ex (p2pkConstraints key g wit ++ closingTerms cx cw) =
      match solveBase a.C a.lookup (a.sighash wit (p2pkScript key)) ex a.ht a.placeholder (.p2pk key) with
      | .error e => .error e
      | .ok items => .ok (splitByLetter g.isW items cx cw) := by
  let R : Except Sign.Err (List Bytes) :=
    match signingSolver a.C a.lookup (a.sighash wit (p2pkScript key)) [key] 1 ex a.ht (some ph) with
    | .error e => .error e
    | .ok vals => .ok (vals.filterMap id)
  have := solveFor_generic a ex (p2pkConstraints key g wit) [.signing [.const key] [g] wit (p2pkScript key)] [g] cx cw g.isW R
    (by simp [p2pkConstraints, collectSolutions, solutionsForConstraint, solverOrder_eq, matchSolver, Leaf.atom?])
    (by simp [p2pkConstraints, Term.deps, dedup]) (by simp) (by simp) (by simp)
    (by intro h k hk; simp at hk; subst hk; exact hpos h)
    (by
      intro tail p htail
      have hg : g ∉ Solved.keys tail := htail g (by simp)
      simp only [List.map_cons, List.map_nil, List.cons_append, List.nil_append, solverPass, Sol.targets, List.any_cons,
        List.any_nil, Bool.or_false, Solved.get_cons_self, Option.join, Sol.deps, List.filterMap_cons, List.filterMap_nil,
        depsUnsolved, Sol.apply, List.mapM_cons, List.mapM_nil, List.length_cons, List.length_nil, hph, R, Leaf.atom?, Leaf.value]
      cases hs : signingSolver a.C a.lookup (a.sighash wit (p2pkScript key)) [key] 1 ex a.ht (some ph) with
      | error e => simp [hs, Except.map]
      | ok vals =>
        obtain ⟨vs, rfl, hlen⟩ := signingSolver_some hs
        match vs, hlen with
        | [v], _ => simp [hs, Solved.update, Solved.set, Except.map])
    (by
      intro vs hvs
      simp only [R] at hvs
      cases hs : signingSolver a.C a.lookup (a.sighash wit (p2pkScript key)) [key] 1 ex a.ht (some ph) with
      | error e => rw [hs] at hvs; cases hvs
      | ok vals =>
        rw [hs] at hvs
        obtain ⟨vs', rfl, hlen⟩ := signingSolver_some hs
        cases hvs
        simp [hlen])
  rw [this]
  simp only [R, solveBase, hph]
  cases hs : signingSolver a.C a.lookup (a.sighash wit (p2pkScript key)) [key] 1 ex a.ht (some ph) with
  | error e => rfl
  | ok vals =>
    obtain ⟨vs, rfl, hlen⟩ := signingSolver_some hs
    match vs, hlen with
    | [v], _ => simp [Except.map]

/-- `DUP HASH160 <h> EQUALVERIFY CHECKSIG` with key atom `k` and signature atom `g` -/
theorem solveFor_p2pkh (a : SolveArgs) (ex : List Bytes) (h : Bytes) (k g : Atom) (wit : Bool) (cx cw : Option Bytes) (ph : Bytes)
    (hph : a.placeholder = some ph) (hkg : k.number < g.number) (hl : k.isW = g.isW)
    (hpos : ((g.isW = false ∧ cx.isSome) ∨ (g.isW = true ∧ cw.isSome)) → 0 < k.number) :
    solveForConstraints a ex (p2pkhConstraints h k g wit ++ closingTerms cx cw) =
      match solveBase a.C a.lookup (a.sighash wit (p2pkhScript h)) ex a.ht a.placeholder (.p2pkh h) with
      | .error e => .error e
      | .ok items => .ok (splitByLetter g.isW items cx cw) := by
  have hne : k ≠ g := fun e => by subst e; omega
  have hne' : g ≠ k := fun e => hne e.symm
  let R : Except Sign.Err (List Bytes) :=
    match a.lookup h with
    | none => .error .solving
    | some e =>
      match publicPairToSec e.x e.y e.compressed with
      | .error er => .error er
      | .ok sec =>
        match signingSolver a.C a.lookup (a.sighash wit (p2pkhScript h)) [sec] 1 ex a.ht (some ph) with
        | .error er => .error er
        | .ok vals => .ok (sec :: vals.filterMap id)
  have := solveFor_generic a ex (p2pkhConstraints h k g wit)
    [.hashLookup h k, .signing [.atom k] [g] wit (p2pkhScript h)] [k, g] cx cw g.isW R
    (by simp [p2pkhConstraints, collectSolutions, solutionsForConstraint, solverOrder_eq, matchSolver, Leaf.atom?])
    (by simp [p2pkhConstraints, Term.deps, dedup, hne]) (by simp) (by simp [hl]) (by simp [hkg])
    (by
      intro hh x hx
      have := hpos hh
      simp at hx
      rcases hx with rfl | rfl
      · exact this
      · omega)
    (by
      intro tail p htail
      have hk : k ∉ Solved.keys tail := htail k (by simp)
      have hg : g ∉ Solved.keys tail := htail g (by simp)
      simp only [List.map_cons, List.map_nil, List.cons_append, List.nil_append, solverPass, Sol.targets, List.any_cons,
        List.any_nil, Bool.or_false, Solved.get_cons_self, Option.join, Sol.deps, List.filterMap_cons, List.filterMap_nil,
        depsUnsolved, Sol.apply, R, Leaf.atom?, Leaf.value]
      cases hlk : a.lookup h with
      | none => simp [Except.map]
      | some e =>
        simp only []
        cases hsec : publicPairToSec e.x e.y e.compressed with
        | error er => simp [Except.map]
        | ok sec =>
          simp only [Option.isSome, Bool.false_eq_true, if_false, Solved.update, Solved.set, if_true,
            Solved.get_cons_ne g k _ _ hne, Solved.get_cons_self, Option.join, List.mapM_cons, List.mapM_nil, hph,
            List.length_cons, List.length_nil]
          cases hs : signingSolver a.C a.lookup (a.sighash wit (p2pkhScript h)) [sec] 1 ex a.ht (some ph) with
          | error er => simp [hs, Except.map, Solved.get, Leaf.value]
          | ok vals =>
            obtain ⟨vs, rfl, hlen⟩ := signingSolver_some hs
            match vs, hlen with
            | [v], _ => simp [hs, Solved.update, Solved.set, Except.map, Solved.get, hne, hne', Leaf.value])
    (by
      intro vs hvs
      simp only [R] at hvs
      cases hlk : a.lookup h with
      | none => rw [hlk] at hvs; cases hvs
      | some e =>
        rw [hlk] at hvs
        simp only [] at hvs
        cases hsec : publicPairToSec e.x e.y e.compressed with
        | error er => rw [hsec] at hvs; cases hvs
        | ok sec =>
          rw [hsec] at hvs
          simp only [] at hvs
          cases hs : signingSolver a.C a.lookup (a.sighash wit (p2pkhScript h)) [sec] 1 ex a.ht (some ph) with
          | error e => rw [hs] at hvs; cases hvs
          | ok vals =>
            rw [hs] at hvs
            obtain ⟨vs', rfl, hlen⟩ := signingSolver_some hs
            cases hvs
            simp [hlen])
  rw [this]
  simp only [R, solveBase, hph]
  cases hlk : a.lookup h with
  | none => rfl
  | some e =>
    simp only []
    cases hsec : publicPairToSec e.x e.y e.compressed with
    | error er => rfl
    | ok sec =>
      simp only []
      cases hs : signingSolver a.C a.lookup (a.sighash wit (p2pkhScript h)) [sec] 1 ex a.ht (some ph) with
      | error e => rfl
      | ok vals =>
        obtain ⟨vs, rfl, hlen⟩ := signingSolver_some hs
        match vs, hlen with
        | [v], _ => simp [Except.map]

end Pycoin.Solve
