import Pycoin.Proofs.ParseKeyRt
/-!
C18 — extended keys: an accepted `xprv`/`xpub`-style text has in-range contents and, unless it belongs to the class of the
open finding `extkey-version-marker-mismatch`, is the very text the node's `hwif` writes.
-/
namespace Pycoin.Addr
open Pycoin.Gen.Networks

/-- the class of the open known finding `extkey-version-marker-mismatch`: the version bytes say *private* while the key
field (bytes 45..77) does not start with `00`, or say *public* while it does -/
def MarkerMismatch (data : Bytes) (prv : Bool) : Prop := ¬ (slice data 45 46 = [0] ↔ prv = true)

/-- contents in range: the point is on the curve with reduced coordinates, a secret exponent lies in `[1, n)` and the
point is its multiple of the generator -/
def KeyObj.InRange (ke : KeyEnv) (k : KeyObj) : Prop :=
  ke.containsPoint k.pub.1 k.pub.2 = true ∧ 0 ≤ k.pub.1 ∧ k.pub.1 < ke.p ∧ 0 ≤ k.pub.2 ∧ k.pub.2 < ke.p ∧
  ∀ se, k.se = some se → 1 ≤ se ∧ se < ke.order ∧ k.pub = ke.mulG se

theorem inRange_private {ke : KeyEnv} (kl : KeyLaws ke) {v : Int} {c : Bool} {k : KeyObj} (h : mkPrivateKey ke v c = .ok k) :
    k.InRange ke ∧ k.se = some v.toNat ∧ k.compressed = c ∧ 1 ≤ v ∧ v < ke.order := by
  obtain ⟨h1, h2, rfl, hc⟩ := mkPrivateKey_inv h
  have hv1 : 1 ≤ v.toNat := by omega
  have hv2 : v.toNat < ke.order := by omega
  obtain ⟨a, b, c', d⟩ := kl.mulG_reduced v.toNat hv1 hv2
  refine ⟨⟨hc, a, b, c', d, ?_⟩, rfl, rfl, h1, h2⟩
  intro se hse
  simp only [Option.some.injEq] at hse
  subst hse
  exact ⟨hv1, hv2, rfl⟩

theorem inRange_sec {ke : KeyEnv} (kl : KeyLaws ke) {sec : Bytes} {k : KeyObj} (h : keyFromSec ke sec = .ok k) :
    k.InRange ke := by
  obtain ⟨hse, -, hon, a, b, c, d, -⟩ := keyFromSec_canon kl h
  exact ⟨hon, a, b, c, d, fun se hs => by rw [hse] at hs; cases hs⟩

/-! ## the prefix table -/

def extTableOk (n : Network) : Bool :=
  decide (n.outBip32Prv = n.parseBip32Prv) && decide (n.outBip32Pub = n.parseBip32Pub) &&
  decide (n.outBip49Prv = n.parseBip49Prv) && decide (n.outBip49Pub = n.parseBip49Pub) &&
  decide (n.outBip84Prv = n.parseBip84Prv) && decide (n.outBip84Pub = n.parseBip84Pub) &&
  decide (n.hashBip32 = n.hashParse) && decide (n.hashBip49 = n.hashParse) && decide (n.hashBip84 = n.hashParse) &&
  [n.parseBip32Prv, n.parseBip32Pub, n.parseBip49Prv, n.parseBip49Pub, n.parseBip84Prv, n.parseBip84Pub].all
    (fun o => match o with | none => true | some p => decide (p.length = 4))

theorem ext_table_ok : ∀ n ∈ all, extTableOk n = true := by decide +kernel

/-- on every network of the table an extended-key prefix `ParseAPI` tests for is 4 bytes long, is the prefix `hwif` of
that kind writes, and `hwif` writes under the checksum hash the parser accepts -/
theorem ext_table (net : Network) (hn : net ∈ all) (kind : Nat) (prv : Bool) (p : Bytes)
    (h : nodeParsePrefix net kind prv = some p) :
    p.length = 4 ∧ nodeOutPrefix net kind prv = some p ∧ nodeOutHash net kind = net.hashParse ∧
      (kind = 32 ∨ kind = 49 ∨ kind = 84) := by
  have t := ext_table_ok net hn
  simp only [extTableOk, Bool.and_eq_true, decide_eq_true_eq, List.all_cons, List.all_nil, Bool.and_true] at t
  obtain ⟨⟨⟨⟨⟨⟨⟨⟨⟨a1, a2⟩, a3⟩, a4⟩, a5⟩, a6⟩, b1⟩, b2⟩, b3⟩, l1, l2, l3, l4, l5, l6⟩ := t
  unfold nodeParsePrefix at h
  split at h
  · rw [h] at l1; exact ⟨by simpa using l1, by simp [nodeOutPrefix, a1, h], by simp [nodeOutHash, b1], by simp⟩
  · rw [h] at l2; exact ⟨by simpa using l2, by simp [nodeOutPrefix, a2, h], by simp [nodeOutHash, b1], by simp⟩
  · rw [h] at l3; exact ⟨by simpa using l3, by simp [nodeOutPrefix, a3, h], by simp [nodeOutHash, b2], by simp⟩
  · rw [h] at l4; exact ⟨by simpa using l4, by simp [nodeOutPrefix, a4, h], by simp [nodeOutHash, b2], by simp⟩
  · rw [h] at l5; exact ⟨by simpa using l5, by simp [nodeOutPrefix, a5, h], by simp [nodeOutHash, b3], by simp⟩
  · rw [h] at l6; exact ⟨by simpa using l6, by simp [nodeOutPrefix, a6, h], by simp [nodeOutHash, b3], by simp⟩
  · cases h

/-! ## the 78-byte layout -/

theorem drop_split (data : Bytes) (i j : Nat) (hij : i ≤ j) : data.drop i = slice data i j ++ data.drop j := by
  unfold slice
  rw [show data.drop j = (data.drop i).drop (j - i) by rw [List.drop_drop]; congr 1; omega, List.take_append_drop]

theorem data78 (data : Bytes) (h : data.length = 78) :
    ∃ d, data[4]? = some d ∧
      data = data.take 4 ++ ([d] ++ slice data 5 9 ++ slice data 9 13 ++ slice data 13 45 ++ data.drop 45) := by
  have h4 : 4 < data.length := by omega
  refine ⟨data[4], by simp [h4], ?_⟩
  have e1 := (List.take_append_drop 4 data).symm
  have e2 : data.drop 4 = data[4] :: data.drop 5 := List.drop_eq_getElem_cons h4
  have e3 := drop_split data 5 9 (by omega)
  have e4 := drop_split data 9 13 (by omega)
  have e5 := drop_split data 13 45 (by omega)
  calc data = data.take 4 ++ data.drop 4 := e1
    _ = data.take 4 ++ (data[4] :: (slice data 5 9 ++ (slice data 9 13 ++ (slice data 13 45 ++ data.drop 45)))) := by
        rw [e2, e3, e4, e5]
    _ = _ := by simp

theorem slice_len (data : Bytes) (i j : Nat) (h : j ≤ data.length) : (slice data i j).length = j - i := by
  simp [slice]; omega

theorem isPrefixOf_split' {p d : Bytes} (h : isPrefixOf p d = true) : d = p ++ d.drop p.length := by
  have : d.take p.length = p := by simpa [isPrefixOf] using h
  conv => lhs; rw [← List.take_append_drop p.length d, this]

/-! ## `BIP32Node.deserialize` -/

theorem deserialize_inv {ke : KeyEnv} {kind : Nat} {data : Bytes} {n : NodeObj} (h : deserialize ke kind data = .ok n) :
    ∃ k, deserializeKey ke data = .ok k ∧
      n = ⟨kind, (match data[4]? with | some d => d.toNat | none => 0), slice data 5 9, beNat (slice data 9 13),
        slice data 13 45, k⟩ := by
  unfold deserialize at h
  split at h
  · cases h
  · split at h
    · cases h
    · rename_i k hk
      split at h
      · cases h
      · injection h with h; exact ⟨k, hk, h.symm⟩

theorem deserializeKey_prv {ke : KeyEnv} {data : Bytes} {k : KeyObj} (h : deserializeKey ke data = .ok k)
    (h0 : slice data 45 46 = [0]) : mkPrivateKey ke (beNat (data.drop 46)) true = .ok k := by
  unfold deserializeKey at h
  simpa only [h0, if_true] using h

theorem deserializeKey_pub {ke : KeyEnv} {data : Bytes} {k : KeyObj} (hl : data.length = 78)
    (h : deserializeKey ke data = .ok k) (h0 : slice data 45 46 ≠ [0]) : keyFromSec ke (data.drop 45) = .ok k := by
  unfold deserializeKey at h
  simp only [h0, if_false] at h
  have hlen : (data.drop 45).length = 33 := by simp [hl]
  generalize data.drop 45 = sec at h hlen
  cases hs : secToPublicPair ke sec with
  | error e => simp [hs] at h
  | ok pp =>
    simp only [hs] at h
    unfold keyFromSec
    simp only [hs, bind, Except.bind]
    cases secToPublicPair_inv hs with
    | uncompressed xs ys hx hy _ _ => simp [hx, hy] at hlen
    | compressed b xs hb hx hxp e o hp =>
      have : decide ((b :: xs).take 1 = [2] ∨ (b :: xs).take 1 = [3]) = true := by simpa using hb
      rw [this]; exact h

theorem drop45 (data : Bytes) (h : data.length = 78) (h0 : slice data 45 46 = [0]) :
    data.drop 45 = 0 :: data.drop 46 ∧ (data.drop 46).length = 32 := by
  have e := drop_split data 45 46 (by omega)
  rw [h0] at e
  exact ⟨e, by simp [h]⟩

/-- what an accepted 78-byte blob holds, and that the node serialises back to the last 74 bytes of it — privately when
the key field starts with `00`, publicly otherwise -/
theorem deserialize_canon {ke : KeyEnv} (kl : KeyLaws ke) {kind : Nat} {data : Bytes} {n : NodeObj} (hl : data.length = 78)
    (h : deserialize ke kind data = .ok n) :
    n.kind = kind ∧ n.depth ≤ 255 ∧ n.fingerprint.length = 4 ∧ n.childIndex < 2 ^ 32 ∧ n.chainCode.length = 32 ∧
      n.key.InRange ke ∧ n.key.compressed = true ∧ (n.key.se.isSome ↔ slice data 45 46 = [0]) ∧
      data.take 4 ++ (match nodeSerialize n (n.key.se.isSome) with | .ok b => b | .error _ => []) = data ∧
      (nodeSerialize n (n.key.se.isSome)).isOk = true := by
  obtain ⟨k, hk, rfl⟩ := deserialize_inv h
  obtain ⟨d, hd, hdata⟩ := data78 data hl
  have hfp : (slice data 5 9).length = 4 := by rw [slice_len _ _ _ (by omega)]
  have hidx : (slice data 9 13).length = 4 := by rw [slice_len _ _ _ (by omega)]
  have hcc : (slice data 13 45).length = 32 := by rw [slice_len _ _ _ (by omega)]
  have hidxlt : beNat (slice data 9 13) < 2 ^ 32 := by
    have := beNat_lt (slice data 9 13); rw [hidx] at this
    exact Nat.lt_of_lt_of_le this (by decide)
  have hidxrt : beBytes (beNat (slice data 9 13)) 4 = slice data 9 13 := by
    have := beBytes_beNat (slice data 9 13); rwa [hidx] at this
  have hdep : d.toNat ≤ 255 := by have := d.toNat_lt; omega
  simp only [hd]
  by_cases h0 : slice data 45 46 = [0]
  · have hp := deserializeKey_prv hk h0
    obtain ⟨hr, hse, hcomp, h1, h2⟩ := inRange_private kl hp
    obtain ⟨e45, l46⟩ := drop45 data hl h0
    have hse' : k.se.isSome = true := by rw [hse]; rfl
    refine ⟨trivial, hdep, hfp, hidxlt, hcc, hr, hcomp, by simp [hse', h0], ?_, ?_⟩
    · simp only [nodeSerialize, hse, Option.isSome_some, if_true, Int.toNat_natCast, UInt8.ofNat_toNat, hidxrt, beBytes_beNat32 _ l46]
      conv => rhs; rw [hdata, e45]
    · simp [hse', nodeSerialize, hse, Except.isOk, Except.toBool]
  · have hp := deserializeKey_pub hl hk h0
    obtain ⟨hse, hcomp, hon, a, b, c, e, hsec⟩ := keyFromSec_canon kl hp
    have hlen : (data.drop 45).length = 33 := by simp [hl]
    have hcomp' : k.compressed = true := by
      unfold keyFromSec at hp
      cases hs : secToPublicPair ke (data.drop 45) with
      | error e => simp [hs, bind, Except.bind] at hp
      | ok pp =>
        rw [hcomp]
        generalize data.drop 45 = sec at hs hlen
        cases secToPublicPair_inv hs with
        | uncompressed xs ys hx hy _ _ => simp [hx, hy] at hlen
        | compressed b xs hb hx hxp e o hp => simpa using hb
    have hse' : k.se.isSome = false := by rw [hse]; rfl
    rw [hcomp'] at hsec
    refine ⟨trivial, hdep, hfp, hidxlt, hcc, inRange_sec kl hp, hcomp', by simp [hse', h0], ?_, ?_⟩
    · simp only [hse', nodeSerialize, Bool.false_eq_true, if_false, hsec, bind, Except.bind, pure, Except.pure,
        UInt8.ofNat_toNat, hidxrt]
      conv => rhs; rw [hdata]
    · simp [hse', nodeSerialize, hsec, bind, Except.bind, pure, Except.pure, Except.isOk, Except.toBool]

/-- ★ extended keys: what `hparse` accepts is a node of the requested class holding 78 bytes with in-range contents
(depth one byte, 4-byte fingerprint, child number below 2³², 32-byte chain code; a secret exponent in `[1, n)` or a
compressed public key with `x < p` that has a curve point), and — unless the text is in the class of the open finding
`extkey-version-marker-mismatch` — `hwif` of the node, private or public as the entry point says, is the very text that
was parsed (so `parse (node.hwif()) = node`) -/
theorem hparse_reserialises (env : Env) (laws : CodecLaws env) (ke : KeyEnv) (kl : KeyLaws ke) (net : Network) (hn : net ∈ all)
    (kind : Nat) (prv : Bool) (s : String) (o : Obj) (h : hparse env ke net kind prv s = .ok (some o)) :
    ∃ data n, parseB58Hashed env net s = some data ∧ data.length = 78 ∧ o = .node n ∧ n.kind = kind ∧
      n.depth ≤ 255 ∧ n.fingerprint.length = 4 ∧ n.childIndex < 2 ^ 32 ∧ n.chainCode.length = 32 ∧
      n.key.InRange ke ∧ n.key.compressed = true ∧ (n.key.se.isSome ↔ slice data 45 46 = [0]) ∧
      (¬ MarkerMismatch data prv →
        hwif env net n prv = .ok s ∧ hparse env ke net kind prv s = .ok (some (.node n))) := by
  have h' := h
  unfold hparse at h
  cases hd : parseB58Hashed env net s with
  | none => simp [hd] at h
  | some data =>
    cases hp : nodeParsePrefix net kind prv with
    | none => simp [hd, hp] at h
    | some p =>
      simp only [hd, hp] at h
      split at h
      · cases h
      · rename_i hpre
        have hpre' : isPrefixOf p data = true := by simpa using hpre
        split at h
        · cases h
        · rename_i hlen
          have hl : data.length = 78 := by simpa using hlen
          cases hds : deserialize ke kind data with
          | error e => rw [hds] at h; cases e <;> simp at h
          | ok n =>
            rw [hds] at h
            simp only [Except.ok.injEq, Option.some.injEq] at h
            subst h
            obtain ⟨c1, c2, c3, c4, c5, c6, c7, c8, c9, c10⟩ := deserialize_canon kl hl hds
            refine ⟨data, n, rfl, hl, rfl, c1, c2, c3, c4, c5, c6, c7, c8, ?_⟩
            intro hm
            refine ⟨?_, h'⟩
            obtain ⟨p4, hout, hhash, -⟩ := ext_table net hn kind prv p hp
            have hprv : n.key.se.isSome = prv := by
              unfold MarkerMismatch at hm
              have hm' : (slice data 45 46 = [0] ↔ prv = true) := Classical.not_not.mp hm
              cases hprv : prv with
              | true => exact c8.mpr (hm'.mpr hprv)
              | false =>
                cases hs : n.key.se.isSome with
                | false => rfl
                | true => have := hm'.mp (c8.mp hs); rw [hprv] at this; cases this
            have hb : env.b58cDec net.hashParse s = some data := hd
            have htake : data.take 4 = p := by
              have := isPrefixOf_split' hpre'
              rw [this, ← p4]; simp
            rw [hprv] at c9 c10
            unfold hwif
            cases hser : nodeSerialize n prv with
            | error e => rw [hser] at c10; cases c10
            | ok blob =>
              rw [hser] at c9
              simp only [bind, Except.bind, c1, hout, hhash, b58Text]
              rw [← htake, c9, laws.b58_canon _ _ _ hb]

end Pycoin.Addr
