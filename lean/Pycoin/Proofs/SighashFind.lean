import Pycoin.Proofs.SighashScript
import Pycoin.Proofs.TxWire
/-!
C04 helper lemmas: `_delete_signature` equals Core's `FindAndDelete(scriptCode, CScript() << sig)` on every script.
-/
namespace Pycoin.Sighash
open Pycoin Pycoin.Script Pycoin.Spec.Sighash

/-- `sub` is one whole instruction: decoding it consumes exactly `sub`, whatever follows -/
def IsInstr (sub : Bytes) : Prop :=
  sub ≠ [] ∧ ∀ rest, ∃ o p, Spec.getScriptOp (sub ++ rest) = some (o, p, rest)

theorem isPrefixOf_iff {a s : Bytes} : a.isPrefixOf s = true ↔ ∃ t, s = a ++ t := by
  rw [List.isPrefixOf_iff_prefix]
  constructor
  · rintro ⟨t, ht⟩; exact ⟨t, ht.symm⟩
  · rintro ⟨t, ht⟩; exact ⟨t, ht.symm⟩

/-- a whole instruction is never a prefix of bytes `GetScriptOp` cannot decode -/
theorem not_prefix_of_undecodable {sub s : Bytes} (hsub : IsInstr sub) (hg : Spec.getScriptOp s = none) :
    sub.isPrefixOf s = false := by
  cases hp : sub.isPrefixOf s with
  | false => rfl
  | true =>
    obtain ⟨t, ht⟩ := isPrefixOf_iff.mp hp
    obtain ⟨o, p, hg'⟩ := hsub.2 t
    rw [← ht, hg] at hg'
    cases hg'

/-- FindAndDelete of a whole instruction is the instruction filter on the decodable part; the undecodable rest is
copied as it is -/
theorem findAndDeleteAux_instr (sub : Bytes) (hsub : IsInstr sub) : ∀ (f : Nat) (s : Bytes), s.length ≤ f →
    findAndDeleteAux sub (f + 1) s =
      (((instructions f s).1.map (·.2)).filter (fun x => x ≠ sub)).flatten ++ (instructions f s).2 := by
  have hne := hsub.1
  have hnp : sub.isPrefixOf [] = false := by
    cases sub with
    | nil => exact absurd rfl hne
    | cons a as => rfl
  intro f
  induction f with
  | zero =>
    intro s hl
    have : s = [] := List.eq_nil_of_length_eq_zero (by omega)
    subst this
    simp [findAndDeleteAux, instructions, hnp, Spec.getScriptOp]
  | succ f ih =>
    intro s hl
    unfold instructions
    cases hg : Spec.getScriptOp s with
    | none =>
      simp [findAndDeleteAux, not_prefix_of_undecodable hsub hg, hg]
    | some t =>
      obtain ⟨o, p, rest⟩ := t
      simp only
      obtain ⟨b, r, k, hs, ho, hrest, hk1, hk2, hk⟩ := getScriptOp_some hg
      have hrl : rest.length = s.length - k := by rw [hrest, List.length_drop]
      have hkk : s.length - rest.length = k := by omega
      have hsplit : s = s.take k ++ rest := by rw [hrest, List.take_append_drop]
      have ihr := ih rest (by omega)
      unfold findAndDeleteAux
      by_cases hp : sub.isPrefixOf s = true
      · obtain ⟨t, ht⟩ := isPrefixOf_iff.mp hp
        obtain ⟨o', p', hg'⟩ := hsub.2 t
        rw [← ht, hg] at hg'
        have hrt : rest = t := by injection hg' with h; exact (Prod.mk.inj (Prod.mk.inj h).2).2
        have hsec : s.take k = sub := by
          have h1 : s.take k ++ rest = sub ++ rest := by rw [← hsplit, ht, hrt]
          exact List.append_cancel_right h1
        have hdrop : s.drop sub.length = rest := by rw [ht, List.drop_left, hrt]
        simp only [hp, if_true, hdrop, ihr, List.map_cons, hkk, hsec]
        simp [List.filter_cons]
      · have hsec : s.take k ≠ sub := by
          intro h
          apply hp
          exact isPrefixOf_iff.mpr ⟨rest, by rw [← h]; exact hsplit⟩
        simp only [hp, hg, ihr, List.map_cons, hkk]
        simp [List.filter_cons, hsec]

/-- `FindAndDelete(script, sub)` for a whole instruction `sub`, on **every** script -/
theorem findAndDelete_instr_all (script sub : Bytes) (hsub : IsInstr sub) :
    findAndDelete script sub = ((instrSections script).filter (fun x => x ≠ sub)).flatten ++ instrTail script := by
  unfold findAndDelete
  have : sub.isEmpty = false := by
    cases sub with
    | nil => exact absurd rfl hsub.1
    | cons a as => rfl
  simp only [this]
  exact findAndDeleteAux_instr sub hsub script.length script (Nat.le_refl _)

theorem findAndDelete_instr (script sub : Bytes) (hsub : IsInstr sub) (hc : Complete script) :
    findAndDelete script sub = ((instrSections script).filter (fun x => x ≠ sub)).flatten := by
  have : instrTail script = [] := hc
  rw [findAndDelete_instr_all script sub hsub, this, List.append_nil]

/-! ## `CScript() << sig` is one instruction, and it is what `_delete_signature` looks for -/

theorem pushData_eq_minimal (d : Bytes) (hs : Spec.smallIntOpcode d = none) :
    pushData d = Spec.minimalPush d := by
  unfold pushData Spec.minimalPush
  simp only [hs]
  by_cases h75 : d.length ≤ 75
  · have : d.length < 0x4c := by omega
    simp [h75, this]
  · have h1 : ¬ d.length < 0x4c := by omega
    simp only [h75, h1, if_false]
    by_cases h255 : d.length ≤ 255
    · simp [h255, leBytes, u8_ofNat_mod]
    · simp only [h255, if_false, le_eq_leBytes]

theorem pushData_isInstr (d : Bytes) (hl : d.length < 2 ^ 32) : IsInstr (pushData d) := by
  cases hs : Spec.smallIntOpcode d with
  | none =>
    rw [pushData_eq_minimal d hs]
    refine ⟨?_, fun rest => ?_⟩
    · unfold Spec.minimalPush
      simp only [hs]
      split <;> (try split) <;> (try split) <;> simp
    · obtain ⟨o, p, h, _⟩ := getScriptOp_minimalPush d rest hl
      exact ⟨o, p, h⟩
  | some op =>
    match d, hs with
    | [], _ =>
      refine ⟨by simp [pushData], fun rest => ⟨0, [], ?_⟩⟩
      simp [pushData, getScriptOp_cons, specOp]
    | [x], _ =>
      refine ⟨by simp [pushData], fun rest => ⟨1, [x], ?_⟩⟩
      simp [pushData, getScriptOp_cons, specOp]

/-- the subscript `_delete_signature` removes is `CScript() << sig` -/
theorem deleteSignature_subscript (sig : Bytes) (hl : sig.length < 2 ^ 32) :
    Script.compilePushDataList [some sig] = .ok (Spec.minimalPush sig) ∧
    (if sig.length = 1 then 0x01 :: sig else Spec.minimalPush sig) = pushData sig := by
  constructor
  · simp [Script.compilePushDataList, compilePushData_eq sig hl, bind, Except.bind, pure, Except.pure]
  · by_cases h1 : sig.length = 1
    · simp only [h1, if_true]
      simp [pushData, h1]
    · simp only [h1, if_false]
      cases hs : Spec.smallIntOpcode sig with
      | none => exact (pushData_eq_minimal sig hs).symm
      | some op =>
        match sig, hs, h1 with
        | [], _, _ => rfl
        | [x], _, h1 => exact absurd rfl h1

/-- `_delete_signature(script, sig)` = `FindAndDelete(script, CScript() << sig)` for **every** script -/
theorem deleteSignature_eq_findAndDelete (script sig : Bytes) (hl : sig.length < 2 ^ 32) :
    deleteSignature script sig = .ok (findAndDelete script (pushData sig)) := by
  obtain ⟨h1, h2⟩ := deleteSignature_subscript sig hl
  unfold deleteSignature
  rw [h1]
  simp only [h2]
  rw [deleteSubscript_eq script _, findAndDelete_instr_all script _ (pushData_isInstr sig hl)]

/-- the loop over the signatures of a CHECKMULTISIG is Core's succession of `FindAndDelete` calls -/
theorem deleteSignatures_eq_scriptCodeFor : ∀ (sigs : List Bytes) (script : Bytes), (∀ s ∈ sigs, s.length < 2 ^ 32) →
    deleteSignatures script sigs = .ok (scriptCodeFor script sigs)
  | [], script, _ => rfl
  | s :: ss, script, h => by
    unfold deleteSignatures scriptCodeFor
    rw [deleteSignature_eq_findAndDelete script s (h s (by simp))]
    simp only [List.foldl_cons]
    exact deleteSignatures_eq_scriptCodeFor ss _ (fun x hx => h x (by simp [hx]))

end Pycoin.Sighash
