import Pycoin.Model.ValidateVM
import Pycoin.Proofs.VMVerify3
import Pycoin.Proofs.TamperEval
/-!
C06 — from `is_solution_ok` of the instantiated interpreter (`Validate.stdVM`: pycoin's VM model with `checksig`'s signature
check over the closures of `check_solution`) to `VerifyScript` of the consensus specification (`C03M_verify_eq`), and the
signature check read back as "the signature verifies for the digest of the bytes the closure commits to".
-/
namespace Pycoin.Validate
open Pycoin Pycoin.Sighash Pycoin.Spec.Consensus

/-- `chkOf f` has the early exits `ChkWF` asks for (empty signature, unparsable signature, key of the wrong shape) -/
theorem chkOf_wf (f : Query → Except Sighash.Err Nat) : VM.ChkWF (chkOf f) := by
  intro sig pk code w h
  unfold chkOf at h
  cases hl : sig.getLast? with
  | none => rw [hl] at h; cases h
  | some ht =>
    rw [hl] at h
    simp only at h
    cases hf : f ⟨w, code, [], ht.toNat⟩ with
    | error e => rw [hf] at h; cases h
    | ok z =>
      rw [hf] at h
      simp only [sigVerifies] at h
      cases hk : Spec.Secp256k1.parsePubKey pk with
      | none => rw [hk] at h; cases h
      | some Q =>
        rw [hk] at h
        cases hp : laxDerParse sig.dropLast with
        | none => rw [hp] at h; cases h
        | some rs =>
          refine ⟨(by intro hs; subst hs; cases hl), rfl, ?_⟩
          cases pk with
          | nil => cases hk
          | cons pre rest =>
            simp only [Spec.Secp256k1.parsePubKey] at hk
            unfold VM.pubkeyShapeOk
            split_ifs at hk with h1 h2
            all_goals simp_all [← UInt8.toNat_inj]

theorem vmEnv_eq (f : Query → Except Sighash.Err Nat) : vmEnv f = VM.stdEnv (chkOf f) := rfl

/-- the interpreter of the code accepts only what `VerifyScript` accepts -/
theorem stdVM_ok (c : Coin) (ctx : TxContext) (f : Query → Except Sighash.Err Nat) (h : stdVM c ctx f = .ok) :
    verifyScript (VM.specChk (chkOf f)) ctx.solutionScript ctx.puzzleScript ctx.witnessSolutionStack
      (Flags.ofBits (defaultFlags c)) (VM.specTx (toSolCtx ctx).tx) = none := by
  have heq := VM.verify_eq_full (chkOf f) (chkOf_wf f) (toSolCtx ctx) (defaultFlags c)
  unfold stdVM at h
  rw [vmEnv_eq] at h
  cases hc : VM.checkSolution (VM.stdEnv (chkOf f)) (toSolCtx ctx) (defaultFlags c) with
  | error e =>
    rw [hc] at h
    cases e <;> cases h
  | ok u =>
    rw [hc] at heq
    have : (verifyScript (VM.specChk (chkOf f)) (toSolCtx ctx).solutionScript (toSolCtx ctx).puzzleScript (toSolCtx ctx).witnessPy
      (Flags.ofBits (defaultFlags c)) (VM.specTx (toSolCtx ctx).tx)).isNone = true := by
      rw [← heq]; rfl
    exact Option.isNone_iff_eq_none.mp this

/-- `is_solution_ok(idx) = True` unfolded: the spent output is known and `check_solution` returns -/
theorem isSolutionOk_true (V : VM) (c : Coin) (s : State) (idx : Nat) (h : isSolutionOk V c s idx = .ok true) :
    ∃ o, s.us[idx]?.join = some o ∧ checkSolution V c s idx = .ok := by
  unfold isSolutionOk at h
  by_cases h1 : s.us.length ≤ idx
  · simp [h1] at h
  · simp only [h1, if_false] at h
    cases hj : s.us[idx]?.join with
    | none => simp [hj] at h
    | some o =>
      refine ⟨o, rfl, ?_⟩
      simp only [hj, Option.isNone_some, Bool.false_eq_true, if_false] at h
      cases hc : checkSolution V c s idx with
      | ok => rfl
      | scriptError => rw [hc] at h; cases h
      | raised t => rw [hc] at h; cases h

/-- **the bridge**: if the consensus specification rejects input `idx` of state `s` — its scriptSig, the script of its recorded
spent output, its witness — under the class's default flags with `checksig`'s signature check over the closures of `s`, then
`is_solution_ok(idx)` of the model of the code does not return `True` -/
theorem not_valid_of_spec (c : Coin) (s : State) (idx : Nat) (tin : TxIn) (o : TxOut)
    (hin : s.tx.ins[idx]? = some tin) (hus : s.us[idx]?.join = some o) (hcb : s.tx.isCoinbase = false)
    (hspec : ∀ tx, verifyScript (VM.specChk (chkOf (oracle c s idx))) tin.script o.script tin.witness
      (Flags.ofBits (defaultFlags c)) tx ≠ none) :
    isSolutionOk (stdVM c) c s idx ≠ .ok true := by
  intro hv
  obtain ⟨o', ho', hcs⟩ := isSolutionOk_true _ c s idx hv
  rw [hus] at ho'
  cases ho'
  unfold checkSolution txContextForIdx at hcs
  rw [hin] at hcs
  simp only at hcs
  have hmu : missingUnspent s idx = false := by
    unfold missingUnspent
    have hlt : ¬ s.us.length ≤ idx := by
      intro hle
      rw [List.getElem?_eq_none hle] at hus
      cases hus
    simp [hcb, hlt, hus]
  rw [hmu, hus] at hcs
  have := stdVM_ok c _ _ hcs
  exact hspec _ this

/-- the default flags of every modelled class: P2SH and WITNESS, nothing else -/
theorem defaultFlags_eq (c : Coin) : Flags.ofBits (defaultFlags c) = { p2sh := true, witness := true } := by
  cases c <;> decide

end Pycoin.Validate
