import Mathlib.Tactic.SplitIfs
import Pycoin.Proofs.VMCheckSigOps
import Pycoin.Proofs.VMInstr2
namespace Pycoin.VM
open Pycoin.Spec Pycoin.Gen.VM CondStack Consensus

variable (chk : Bytes → Bytes → Bytes → Bool → Bool) (cfg : Config)

theorem sig_table :
    lookupList[0xac]? = some (.sig_CHECKSIG, false) ∧ lookupList[0xad]? = some (.sig_CHECKSIGVERIFY, false) ∧
    lookupList[0xae]? = some (.sig_CHECKMULTISIG, false) ∧ lookupList[0xaf]? = some (.sig_CHECKMULTISIGVERIFY, false) := by
  decide +kernel

/-- Core's arm of the opcode switch for the CHECKSIG family, pure checker -/
def specSigOp (st : Consensus.State) (op : Nat) : Res Consensus.State :=
  if op == OP_CHECKSIG || op == OP_CHECKSIGVERIFY then specCheckSig chk cfg st op else specCheckMultiSig chk cfg st op

/-- Core's iteration for an opcode of the CHECKSIG family -/
theorem specStep_sig (st : Consensus.State) (op pcNext : Nat) (hs : 0xac ≤ op ∧ op ≤ 0xaf) :
    specStep chk cfg st op [] pcNext =
      if st.nOpCount + 1 > 201 then .error .OP_COUNT
      else if st.vfExec.all id then afterC (specSigOp chk cfg { st with nOpCount := st.nOpCount + 1 } op)
      else afterC (.ok { st with nOpCount := st.nOpCount + 1 }) := by
  obtain ⟨h1, h2⟩ := hs
  have e1 : ¬ op ≤ OP_PUSHDATA4 := by simp [OP_PUSHDATA4]; omega
  have e0 : op > OP_16 := by simp [OP_16]; omega
  have e4 : isDisabledOpcode op = false := by
    interval_cases op <;> rfl
  have e5 : (decide (OP_IF ≤ op) && decide (op ≤ OP_ENDIF)) = false := by
    have : ¬ op ≤ OP_ENDIF := by simp [OP_ENDIF]; omega
    simp [this]
  simp only [specStep, stepM, Id.run, List.length_nil, MAX_SCRIPT_ELEMENT_SIZE, Nat.not_lt_zero, gt_iff_lt, if_false,
    MAX_OPS_PER_SCRIPT, e0, e1, e4, e5, if_true, Bool.and_false, Bool.false_eq_true, decide_false, Bool.or_false, specSigOp,
    specCheckSig, specCheckMultiSig, afterC, Consensus.MAX_STACK_SIZE, pure, bind]
  have hcase : op = 0xac ∨ op = 0xad ∨ op = 0xae ∨ op = 0xaf := by omega
  rcases hcase with rfl | rfl | rfl | rfl <;>
    simp only [OP_CHECKSIG, OP_CHECKSIGVERIFY, OP_CHECKMULTISIG, OP_CHECKMULTISIGVERIFY] <;>
    split_ifs <;> first | rfl | contradiction | (simp_all; done)

theorem specCheckSig_count (st st' : Consensus.State) (op : Nat) (h : specCheckSig chk cfg st op = .ok st') :
    st'.nOpCount = st.nOpCount := by
  rw [specCheckSig_eq] at h
  repeat' split at h
  all_goals first
    | (cases h; rfl)
    | (cases h; done)

/-- the stack-size test `eval_instruction` makes last -/
def sizeCheck (s : State) : M State :=
  if s.stack.length + s.altstack.length > Gen.VM.MAX_STACK_SIZE then .error (scriptErr errno_STACK_SIZE) else .ok s

theorem tail_split (r : M State) :
    (r.bind fun s3 =>
      if s3.opCount > MAX_OP_COUNT then .error (scriptErr errno_OP_COUNT)
      else if s3.stack.length + s3.altstack.length > Gen.VM.MAX_STACK_SIZE then .error (scriptErr errno_STACK_SIZE)
      else .ok s3) = (r.bind cntCheck).bind sizeCheck := by
  cases r with
  | error e => rfl
  | ok s => simp only [Except.bind, cntCheck, sizeCheck]; split_ifs <;> simp_all

theorem size_agree (pcNext : Nat) (r : M State) (c : Res Consensus.State) (h : r.toOption = c.toOption.map (absS · pcNext)) :
    Agree pcNext (r.bind sizeCheck) (afterC c) := by
  unfold Agree
  cases c with
  | error e =>
    obtain ⟨e', he⟩ := (toOption_none_iff r).mp (by simpa [Except.toOption] using h)
    simp [he, Except.bind, afterC, Except.toOption]
  | ok st'' =>
    have hr := (toOption_ok_iff r _).mp (by simpa [Except.toOption] using h)
    simp only [hr, Except.bind, afterC, sizeCheck, absS, Gen.VM.MAX_STACK_SIZE, Consensus.MAX_STACK_SIZE]
    by_cases hs : 1000 < st''.stack.length + st''.alt.length <;> simp [hs, Except.toOption]

/-- handler followed by the op-count test against Core's arm, for the four opcodes -/
theorem sigHandler_agree (hwp : hasFlag cfg.flags VERIFY_WITNESS_PUBKEYTYPE = true → cfg.witness = true) (hchk : ChkWF chk)
    (st : Consensus.State) (pcNext op : Nat) (h : Handler) (hs : 0xac ≤ op ∧ op ≤ 0xaf) (htab : lookupList[op]? = some (h, false))
    (hcnt : ¬ st.nOpCount > 201)
    (hdel : ∀ sigs, (∀ x ∈ sigs, x ∈ st.stack) → DelAgrees cfg st sigs) :
    ((runHandler (stdEnv chk) cfg h (absS st pcNext)).bind cntCheck).toOption =
      (specSigOp chk cfg st op).toOption.map (absS · pcNext) := by
  obtain ⟨t1, t2, t3, t4⟩ := sig_table
  have hcase : op = 0xac ∨ op = 0xad ∨ op = 0xae ∨ op = 0xaf := by omega
  have cnt_ok : ∀ (r : M State) (c : Res Consensus.State), Agree pcNext r c → (∀ st', c = .ok st' → st'.nOpCount = st.nOpCount) →
      (r.bind cntCheck).toOption = c.toOption.map (absS · pcNext) := by
    intro r c hag hc
    unfold Agree at hag
    cases c with
    | error e =>
      obtain ⟨e', he⟩ := (toOption_none_iff r).mp (by simpa [Except.toOption] using hag)
      simp [he, Except.bind, Except.toOption]
    | ok st' =>
      have hr := (toOption_ok_iff r _).mp (by simpa [Except.toOption] using hag)
      have := hc st' rfl
      have h201 : ¬ ((st'.nOpCount : Int) > (MAX_OP_COUNT : Nat)) := by simp only [MAX_OP_COUNT]; omega
      simp [hr, Except.bind, cntCheck, absS, h201, Except.toOption]
  rcases hcase with rfl | rfl | rfl | rfl
  · rw [t1] at htab; cases htab
    exact cnt_ok _ _ (h_CHECKSIG chk cfg hwp hchk st pcNext hdel) (fun st' h => specCheckSig_count chk cfg _ _ _ h)
  · rw [t2] at htab; cases htab
    exact cnt_ok _ _ (h_CHECKSIGVERIFY chk cfg hwp hchk st pcNext hdel) (fun st' h => specCheckSig_count chk cfg _ _ _ h)
  · rw [t3] at htab; cases htab
    exact do_CHECKMULTISIG_spec chk cfg hwp hchk st pcNext hdel
  · rw [t4] at htab; cases htab
    exact do_CHECKMULTISIGVERIFY_spec chk cfg hwp hchk st pcNext hdel

theorem specCMS_over (st : Consensus.State) (op : Nat) (h : st.nOpCount > 201) :
    (specCheckMultiSig chk cfg st op).toOption = none := by
  rw [specCheckMultiSig_eq]
  simp only [MAX_OPS_PER_SCRIPT]
  split
  · rfl
  split
  · rfl
  split
  · rfl
  have hk : ∀ k : Nat, (st.nOpCount + k > 201) = True := fun k => by simp only [gt_iff_lt, eq_iff_iff, iff_true]; omega
  simp only [hk, if_true]
  rfl

/-- past the limit, handler + op-count test fail (pycoin notices after the handler what Core notices before) -/
theorem sigHandler_over (hwp : hasFlag cfg.flags VERIFY_WITNESS_PUBKEYTYPE = true → cfg.witness = true) (hchk : ChkWF chk)
    (st : Consensus.State) (pcNext op : Nat) (h : Handler) (hs : 0xac ≤ op ∧ op ≤ 0xaf) (htab : lookupList[op]? = some (h, false))
    (hcnt : st.nOpCount > 201)
    (hdel : ∀ sigs, (∀ x ∈ sigs, x ∈ st.stack) → DelAgrees cfg st sigs) :
    ((runHandler (stdEnv chk) cfg h (absS st pcNext)).bind cntCheck).toOption = none := by
  obtain ⟨t1, t2, t3, t4⟩ := sig_table
  have hcase : op = 0xac ∨ op = 0xad ∨ op = 0xae ∨ op = 0xaf := by omega
  have cnt_over : ∀ (r : M State) (c : Res Consensus.State), Agree pcNext r c → (∀ st', c = .ok st' → st'.nOpCount = st.nOpCount) →
      (r.bind cntCheck).toOption = none := by
    intro r c hag hc
    unfold Agree at hag
    cases c with
    | error e =>
      obtain ⟨e', he⟩ := (toOption_none_iff r).mp (by simpa [Except.toOption] using hag)
      simp [he, Except.bind, Except.toOption]
    | ok st' =>
      have hr := (toOption_ok_iff r _).mp (by simpa [Except.toOption] using hag)
      have := hc st' rfl
      have h201 : ((st'.nOpCount : Int) > (MAX_OP_COUNT : Nat)) := by simp only [MAX_OP_COUNT]; omega
      simp [hr, Except.bind, cntCheck, absS, h201, Except.toOption]
  rcases hcase with rfl | rfl | rfl | rfl
  · rw [t1] at htab; cases htab
    exact cnt_over _ _ (h_CHECKSIG chk cfg hwp hchk st pcNext hdel) (fun st' h => specCheckSig_count chk cfg _ _ _ h)
  · rw [t2] at htab; cases htab
    exact cnt_over _ _ (h_CHECKSIGVERIFY chk cfg hwp hchk st pcNext hdel) (fun st' h => specCheckSig_count chk cfg _ _ _ h)
  · rw [t3] at htab; cases htab
    have := do_CHECKMULTISIG_spec chk cfg hwp hchk st pcNext hdel
    rw [specCMS_over chk cfg st _ hcnt] at this
    exact this
  · rw [t4] at htab; cases htab
    have := do_CHECKMULTISIGVERIFY_spec chk cfg hwp hchk st pcNext hdel
    rw [specCMS_over chk cfg st _ hcnt] at this
    exact this

theorem delAgrees_count (st : Consensus.State) (k : Nat) (sigs : List Bytes) :
    DelAgrees cfg { st with nOpCount := k } sigs ↔ DelAgrees cfg st sigs := Iff.rfl

/-- **one instruction of the CHECKSIG family**: `eval_instruction` on the pycoin state representing `st` and one
iteration of Core's loop agree -/
theorem instr_sig (hwp : hasFlag cfg.flags VERIFY_WITNESS_PUBKEYTYPE = true → cfg.witness = true) (hchk : ChkWF chk)
    (st : Consensus.State) (pc pcNext op : Nat) (hs : 0xac ≤ op ∧ op ≤ 0xaf)
    (hget : getOpcode cfg.script pc (hasFlag cfg.flags VERIFY_MINIMALDATA && (absS st pc).cond.allIfTrue) = .ok ⟨op, none, pcNext, true⟩)
    (hdel : ∀ sigs, (∀ x ∈ sigs, x ∈ st.stack) → DelAgrees cfg st sigs) :
    Agree pcNext (evalInstruction (stdEnv chk) cfg (absS st pc)) (specStep chk cfg st op [] pcNext) := by
  obtain ⟨t1, t2, t3, t4⟩ := sig_table
  have hcase : op = 0xac ∨ op = 0xad ∨ op = 0xae ∨ op = 0xaf := by omega
  obtain ⟨h, htab⟩ : ∃ h, lookupList[op]? = some (h, false) := by
    rcases hcase with rfl | rfl | rfl | rfl
    · exact ⟨_, t1⟩
    · exact ⟨_, t2⟩
    · exact ⟨_, t3⟩
    · exact ⟨_, t4⟩
  have hget' : getOpcode cfg.script (absS st pc).pc
      (hasFlag cfg.flags VERIFY_MINIMALDATA && (absS st pc).cond.allIfTrue) = .ok ⟨op, none, pcNext, true⟩ := hget
  rw [evalInstr_op (stdEnv chk) cfg (absS st pc) op pcNext h false hget' htab, specStep_sig chk cfg st op pcNext hs, tail_split]
  have hall : (absS st pc).cond.allIfTrue = st.vfExec.all id := absC_allIfTrue st.vfExec
  simp only [hall, Bool.or_false, absS_bump]
  set st1 : Consensus.State := { st with nOpCount := st.nOpCount + 1 } with hst1
  cases hf : st.vfExec.all id
  · -- not executed: only counted
    simp only [Bool.false_eq_true, if_false]
    by_cases hcnt : st.nOpCount + 1 > 201
    · have h201 : ((MAX_OP_COUNT : Nat) : Int) < (st.nOpCount : Int) + 1 := by simp only [MAX_OP_COUNT]; omega
      simp [hcnt, Agree, Except.bind, cntCheck, absS, hst1, h201, Except.toOption]
    · simp only [hcnt, if_false]
      apply size_agree
      have h201 : ¬ (((MAX_OP_COUNT : Nat) : Int) < (st.nOpCount : Int) + 1) := by simp only [MAX_OP_COUNT]; omega
      simp [Except.bind, cntCheck, absS, hst1, h201, Except.toOption]
  · simp only [if_true]
    have hdel1 : ∀ sigs, (∀ x ∈ sigs, x ∈ st1.stack) → DelAgrees cfg st1 sigs := fun sigs hm => hdel sigs hm
    by_cases hcnt : st.nOpCount + 1 > 201
    · -- over the limit: Core fails before the switch, pycoin after the handler
      simp only [hcnt, if_true]
      have hov := sigHandler_over chk cfg hwp hchk st1 pcNext op h hs htab (by simpa [hst1] using hcnt) hdel1
      obtain ⟨e', he⟩ := (toOption_none_iff _).mp hov
      unfold Agree
      rw [he]
      rfl
    · simp only [hcnt, if_false]
      apply size_agree
      exact sigHandler_agree chk cfg hwp hchk st1 pcNext op h hs htab (by simpa [hst1] using hcnt) hdel1
end Pycoin.VM
