import Pycoin.Proofs.GenMul
import Pycoin.Proofs.BIP32Basic
/-!
C09 helper lemmas over the C02 refinement: the generator *object* (`Gen`) computes `e • G` with reduced coordinates.
-/
namespace Pycoin.BIP32
open Pycoin Pycoin.Curve WeierstrassCurve

/-! ### the generator object -/

/-- the object was built by `Generator.__init__` (`Gen.new`): its table is `_powers` of its curve and
`_minus_blinding_factor_g = raw_mul(-bf)` -/
def Gen.WF (g : Gen) : Prop :=
  Curve.powers g.c = .ok g.powers ∧ Curve.rawMul g.c (-g.bf) = .ok g.minusBfG

theorem Gen.rawMul_eq {g : Gen} (h : g.WF) (e : Int) : g.rawMul e = Curve.rawMul g.c e := by
  unfold Gen.rawMul Curve.rawMul
  rw [h.1]

theorem Gen.mul_eq {g : Gen} (h : g.WF) (e : Int) : g.mul e = Curve.mulG g.c g.bf e := by
  unfold Gen.mul Curve.mulG
  rw [Gen.rawMul_eq h, h.2]
  cases Curve.rawMul g.c (e + g.bf) <;> rfl

theorem Gen.new_wf {c : CurveParams} {bf : Int} {g : Gen} (h : Gen.new c bf = .ok g) : g.WF ∧ g.c = c ∧ g.bf = bf := by
  unfold Gen.new at h
  cases hp : Curve.powers c with
  | error e => simp [hp] at h
  | ok tbl =>
    simp only [hp] at h
    cases hm : Gen.rawMul ⟨c, bf, tbl, none⟩ (-bf) with
    | error e => simp [hm] at h
    | ok m =>
      simp only [hm, Except.ok.injEq] at h
      subst h
      refine ⟨⟨hp, ?_⟩, rfl, rfl⟩
      rw [← hm]
      unfold Gen.rawMul Curve.rawMul
      simp [hp]

variable (c : CurveParams) [Good c]

theorem powersLoop_reduced : ∀ (k : Nat) (g : Pt) (l : List Pt), OnCurve c g → Reduced c g →
    powersLoop c k g = .ok l → ∀ x ∈ l, OnCurve c x ∧ Reduced c x := by
  intro k
  induction k with
  | zero => intro g l _ _ h; simp [powersLoop] at h; subst h; intro x hx; cases hx
  | succ k ih =>
    intro g l hg rg h
    obtain ⟨g2, a1, a2, -, -, a4⟩ := add_refines c g g hg hg
    unfold powersLoop at h
    simp only [a1] at h
    cases hr : powersLoop c k g2 with
    | error e => simp [hr] at h
    | ok l' =>
      simp only [hr, Except.ok.injEq] at h
      subst h
      intro x hx
      simp only [List.mem_cons] at hx
      rcases hx with rfl | hx
      · exact ⟨hg, rg⟩
      · exact ih g2 l' a2 (a4 rg rg) hr x hx

theorem rawMulLoop_reduced : ∀ (l : List Pt) (e : Int) (P R : Pt), (∀ x ∈ l, OnCurve c x ∧ Reduced c x) →
    OnCurve c P → Reduced c P → rawMulLoop c l e P = .ok R → Reduced c R := by
  intro l
  induction l with
  | nil => intro e P R _ _ rP h; simp [rawMulLoop] at h; subst h; exact rP
  | cons g gs ih =>
    intro e P R hl hP rP h
    obtain ⟨hg, rg⟩ := hl g (by simp)
    obtain ⟨s, a1, a2, -, -, a4⟩ := add_refines c P g hP hg
    unfold rawMulLoop at h
    simp only [a1] at h
    split at h
    · exact ih _ _ _ (fun x hx => hl x (by simp [hx])) a2 (a4 rP rg) h
    · exact ih _ _ _ (fun x hx => hl x (by simp [hx])) hP rP h

theorem rawMul_reduced (hG : containsXY c c.gx c.gy = true) (hb : Reduced c (basis c)) {e : Int} {R : Pt}
    (h : rawMul c e = .ok R) : Reduced c R := by
  unfold rawMul at h
  split at h
  · cases h
  · cases hp : powers c with
    | error er => simp [hp] at h
    | ok tbl =>
      simp only [hp] at h
      exact rawMulLoop_reduced c tbl _ none R (powersLoop_reduced c 256 (basis c) tbl hG hb hp) rfl trivial h

/-- what the theorems need of the generator object and its curve -/
structure Setting (g : Gen) [Good g.c] : Prop where
  wf : g.WF
  hG : containsXY g.c g.c.gx g.c.gy = true
  hn0 : g.c.n ≠ 0
  hn256 : g.c.n ≤ 2 ^ 256
  hord : (g.c.n : Int) • toPoint g.c (basis g.c) = 0
  hbasis : Reduced g.c (basis g.c)
  hp256 : g.c.p ≤ 2 ^ 256

/-- `Generator.__mul__(e)` never raises and returns the reduced coordinates of `e • G` (or infinity) -/
theorem Gen.mul_spec {g : Gen} [Good g.c] (S : Setting g) (e : Int) :
    ∃ R, g.mul e = .ok R ∧ OnCurve g.c R ∧ Reduced g.c R ∧ toPoint g.c R = e • toPoint g.c (basis g.c) := by
  obtain ⟨A, a1, a2, a3⟩ := rawMul_refines g.c S.hG S.hn0 S.hn256 S.hord (e + g.bf)
  obtain ⟨M, m1, m2, m3⟩ := rawMul_refines g.c S.hG S.hn0 S.hn256 S.hord (-g.bf)
  obtain ⟨R, r1, r2, r3, -, r4⟩ := add_refines g.c A M a2 m2
  refine ⟨R, ?_, r2, r4 (rawMul_reduced g.c S.hG S.hbasis a1) (rawMul_reduced g.c S.hG S.hbasis m1), ?_⟩
  · rw [Gen.mul_eq S.wf]; simp [mulG, a1, m1, r1]
  · rw [r3, a3, m3, ← add_zsmul]; congr 1; ring

end Pycoin.BIP32
