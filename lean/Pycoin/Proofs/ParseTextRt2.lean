import Pycoin.Proofs.ParseTextRt
/-!
C18 — secret exponents, public pairs, Electrum keys and seeds.
-/
namespace Pycoin.Addr
open Pycoin.Gen.Networks

/-! ## secret exponents -/

theorem parseSecretExponent_inv {ke : KeyEnv} {s : String} {o : Obj} (h : parseSecretExponent ke s = .ok (some o)) :
    ∃ v k, asNumber s = some v ∧ mkPrivateKey ke v true = .ok k ∧ o = .key k := by
  unfold parseSecretExponent at h
  split at h
  · rename_i v hv
    split at h
    · cases h
    · split at h
      · rename_i k hk
        simp only [Except.ok.injEq, Option.some.injEq] at h
        exact ⟨v, k, hv, hk, h.symm⟩
      all_goals cases h
  · cases h

/-- the text of a private key object (`as_text()` = `wif()`) parses back to it through `parse.wif` -/
theorem private_key_text_rt (env : Env) (laws : CodecLaws env) (ke : KeyEnv) (kl : KeyLaws ke) (net : Network) (hn : net ∈ all)
    (p : Bytes) (hp : net.parseWif = some p) (v : Int) (c : Bool) (k : KeyObj) (hk : mkPrivateKey ke v c = .ok k) :
    ∃ t, keyText env net k = .ok t ∧ parseWif env ke net t = .ok (some (.key k)) := by
  obtain ⟨h1, h2, hk', -⟩ := mkPrivateKey_inv hk
  obtain ⟨n, rfl⟩ := Int.eq_ofNat_of_zero_le (show (0 : Int) ≤ v by omega)
  obtain ⟨t, t1, t2⟩ := parseWif_wifText env laws ke kl net hn p hp n c k hk
  refine ⟨t, ?_, t2⟩
  have hn0 : n ≠ 0 := by omega
  subst hk'
  simp only [keyText, Int.toNat_natCast, ne_eq, hn0, not_false_eq_true, if_true, t1]

/-- ★ secret exponents: an accepted decimal or hexadecimal text denotes an integer in `[1, n)` (0, negative numbers and
anything from the group order upwards are refused), the key is compressed with public pair `se * G`, and — where the
network has a WIF prefix — `as_text()` of the key parses back to the key -/
theorem parseSecretExponent_reserialises (env : Env) (laws : CodecLaws env) (ke : KeyEnv) (kl : KeyLaws ke) (net : Network)
    (hn : net ∈ all) (s : String) (o : Obj) (h : parseSecretExponent ke s = .ok (some o)) :
    ∃ v k, asNumber s = some v ∧ 1 ≤ v ∧ v < ke.order ∧ o = .key k ∧ k.se = some v.toNat ∧ k.compressed = true ∧
      k.InRange ke ∧
      ∀ p, net.parseWif = some p → ∃ t, keyText env net k = .ok t ∧ parseWif env ke net t = .ok (some (.key k)) := by
  obtain ⟨v, k, hv, hk, rfl⟩ := parseSecretExponent_inv h
  obtain ⟨hr, hse, hc, h1, h2⟩ := inRange_private kl hk
  exact ⟨v, k, hv, h1, h2, rfl, hse, hc, hr, fun p hp => private_key_text_rt env laws ke kl net hn p hp v true k hk⟩

/-- out of range: refused -/
theorem parseSecretExponent_refuses (ke : KeyEnv) (s : String) (v : Int) (hv : asNumber s = some v)
    (hr : v < 1 ∨ v ≥ ke.order) : parseSecretExponent ke s = .ok none := by
  unfold parseSecretExponent
  simp only [hv, mkPrivateKey_range true hr]
  split <;> rfl

/-! ## public pairs -/

/-- a reduced pair with a non-zero `x` -/
def ReducedPt (ke : KeyEnv) (pt : Pt) : Prop := 0 < pt.1 ∧ pt.1 < ke.p ∧ 0 ≤ pt.2 ∧ pt.2 < ke.p

theorem parityPoint_reduced {ke : KeyEnv} (kl : KeyLaws ke) {v0 : Int} {s1 : String} {point r : Option Pt}
    (h0 : 0 < v0 ∧ v0 < ke.p) (hpt : ∀ pt, point = some pt → ReducedPt ke pt)
    (h : parityPoint ke v0 s1 point = .ok r) : ∀ pt, r = some pt → ReducedPt ke pt := by
  unfold parityPoint at h
  split at h
  · split at h
    · rename_i e o hp
      obtain ⟨e1, o1, e2, e3, o2, o3, -, -⟩ := kl.pfx_sound _ e o hp
      injection h with h; subst h
      intro pt hpt'
      injection hpt' with hpt'; subst hpt'
      unfold ReducedPt
      split
      · rw [o1]; exact ⟨h0.1, h0.2, o2, o3⟩
      · rw [e1]; exact ⟨h0.1, h0.2, e2, e3⟩
    · cases h
  · injection h with h; subst h; exact hpt

theorem explicitPoint_reduced {ke : KeyEnv} {v0 : Int} {s1 : String} {point : Option Pt}
    (h0 : 0 < v0 ∧ v0 < ke.p) (hpt : ∀ pt, point = some pt → ReducedPt ke pt) :
    ∀ pt, explicitPoint ke v0 s1 point = some pt → ReducedPt ke pt := by
  unfold explicitPoint
  split
  · exact hpt
  · rename_i v1 _
    split
    · exact hpt
    · rename_i hr
      split
      · intro pt hpt'
        injection hpt' with hpt'; subst hpt'
        have hr' : 0 < v1 ∧ v1 < ke.p := Classical.not_not.mp hr
        exact ⟨h0.1, h0.2, by have := hr'.1; omega, hr'.2⟩
      · exact hpt

theorem publicPairStep_reduced {ke : KeyEnv} (kl : KeyLaws ke) {s : String} {c : Char} {point r : Option Pt}
    (hpt : ∀ pt, point = some pt → ReducedPt ke pt) (h : publicPairStep ke s c point = .ok r) :
    ∀ pt, r = some pt → ReducedPt ke pt := by
  unfold publicPairStep at h
  split at h
  · injection h with h; subst h; exact hpt
  · split at h
    · injection h with h; subst h; exact hpt
    · rename_i v0 _
      split at h
      · injection h with h; subst h; exact hpt
      · rename_i hr
        have h0 : 0 < v0 ∧ v0 < ke.p := Classical.not_not.mp hr
        split at h
        · cases h
        · rename_i pt' hpp
          injection h with h; subst h
          exact explicitPoint_reduced h0 (parityPoint_reduced kl h0 hpt hpp)

theorem publicPairPoint_reduced {ke : KeyEnv} (kl : KeyLaws ke) {s : String} {pt : Pt}
    (h : publicPairPoint ke s = .ok (some pt)) : ReducedPt ke pt := by
  unfold publicPairPoint at h
  split at h
  · cases h
  · rename_i p1 h1
    have r1 := publicPairStep_reduced kl (point := none) (fun _ hh => by cases hh) h1
    exact publicPairStep_reduced kl r1 h pt rfl

theorem parsePublicPair_inv {ke : KeyEnv} {s : String} {o : Obj} (h : parsePublicPair ke s = .ok (some o)) :
    ∃ pt k, publicPairPoint ke s = .ok (some pt) ∧ mkPublicKey ke pt.1 pt.2 true = .ok k ∧ o = .key k := by
  unfold parsePublicPair at h
  split at h
  any_goals cases h
  rename_i pt hpt
  split at h
  any_goals cases h
  rename_i k hk
  exact ⟨pt, k, hpt, hk, rfl⟩

/-- ★ public pairs (`x/y`, `x,y`, `x/even`, `x/odd`): an accepted text gives a compressed public key whose point is on the
curve with `0 < x < p` and `0 ≤ y < p` (coordinates from `p` upwards, an `x` without a curve point, a `y` that does not
fit are refused), and `as_text()` of the key parses back (through `parse.sec`) to the same pair and flag -/
theorem parsePublicPair_reserialises (env : Env) (ke : KeyEnv) (kl : KeyLaws ke) (net : Network) (hn : net ∈ all)
    (s : String) (o : Obj) (h : parsePublicPair ke s = .ok (some o)) :
    ∃ k t, o = .key k ∧ k.se = none ∧ k.compressed = true ∧ ReducedPt ke k.pub ∧ k.InRange ke ∧
      keyText env net k = .ok t ∧ parseSec ke net t = .ok (some (.key k)) := by
  obtain ⟨pt, k, hpt, hk, rfl⟩ := parsePublicPair_inv h
  obtain ⟨rfl, hon⟩ := mkPublicKey_inv hk
  have hr := publicPairPoint_reduced kl hpt
  have hin : KeyObj.InRange ke ⟨none, (pt.1, pt.2), true⟩ :=
    ⟨hon, by have := hr.1; show 0 ≤ pt.1; omega, hr.2.1, hr.2.2.1, hr.2.2.2, fun se hs => by cases hs⟩
  obtain ⟨t, t1, t2⟩ := public_key_text_rt env ke kl net hn _ rfl hin
  exact ⟨_, t, rfl, rfl, rfl, hr, hin, t1, t2⟩

/-! ## Electrum (`E:` + 32 / 64 / 128 hex digits) -/

theorem electrumOut_inv {r : Except Err KeyObj} {o : Obj} (h : electrumOut r = .ok (some o)) : ∃ k, r = .ok k ∧ o = .electrum k := by
  unfold electrumOut at h
  split at h
  any_goals cases h
  exact ⟨_, rfl, rfl⟩

/-- ★ Electrum private forms: an accepted `E:` text carries 16 bytes (a seed, stretched to the master private key) or
32 bytes (the master private key itself); the exponent lies in `[1, n)`, the wallet is an uncompressed key with public
pair `se * G`, and its `as_text()` (the uncompressed WIF) parses back through `parse.wif` to a key with the same exponent,
pair and flag -/
theorem parseElectrumPrv_reserialises (env : Env) (laws : CodecLaws env) (ke : KeyEnv) (kl : KeyLaws ke) (net : Network)
    (hn : net ∈ all) (s : String) (o : Obj)
    (h : parseElectrumPrv ke s = .ok (some o) ∨ parseElectrumSeed ke s = .ok (some o)) :
    ∃ blob k se, electrumBlob s = some blob ∧ o = .electrum k ∧ k.se = some se ∧ 1 ≤ se ∧ se < ke.order ∧
      ((blob.length = 32 ∧ se = beNat blob) ∨ (blob.length = 16 ∧ se = beNat (ke.electrumStretch (b2h blob)))) ∧
      k.compressed = false ∧ k.InRange ke ∧
      ∀ p, net.parseWif = some p → ∃ t, keyText env net k = .ok t ∧ parseWif env ke net t = .ok (some (.key k)) := by
  rcases h with h | h
  · unfold parseElectrumPrv at h
    split at h
    · rename_i blob hb
      split at h
      · rename_i hl
        obtain ⟨k, hk, rfl⟩ := electrumOut_inv h
        obtain ⟨hr, hse, hc, h1, h2⟩ := inRange_private kl hk
        refine ⟨blob, k, beNat blob, hb, rfl, by simpa using hse, by omega, by omega, Or.inl ⟨hl, rfl⟩, hc, hr, ?_⟩
        exact fun p hp => private_key_text_rt env laws ke kl net hn p hp _ false k hk
      · cases h
    · cases h
  · unfold parseElectrumSeed at h
    split at h
    · rename_i blob hb
      split at h
      · rename_i hl
        obtain ⟨k, hk, rfl⟩ := electrumOut_inv h
        obtain ⟨hr, hse, hc, h1, h2⟩ := inRange_private kl hk
        refine ⟨blob, k, _, hb, rfl, by simpa using hse, by omega, by omega, Or.inr ⟨hl, rfl⟩, hc, hr, ?_⟩
        exact fun p hp => private_key_text_rt env laws ke kl net hn p hp _ false k hk
      · cases h
    · cases h

/-- ★ Electrum public form: an accepted `E:` text carries 64 bytes `x ‖ y` with both coordinates below `p` and the point on
the curve; the wallet is an uncompressed public key and its `as_text()` parses back through `parse.sec` to a key with
the same pair and flag -/
theorem parseElectrumPub_reserialises (env : Env) (ke : KeyEnv) (kl : KeyLaws ke) (net : Network) (hn : net ∈ all)
    (s : String) (o : Obj) (h : parseElectrumPub ke s = .ok (some o)) :
    ∃ blob k t, electrumBlob s = some blob ∧ blob.length = 64 ∧ o = .electrum k ∧ k.se = none ∧ k.compressed = false ∧
      k.pub = ((beNat (blob.take 32) : Int), (beNat (blob.drop 32) : Int)) ∧ k.InRange ke ∧
      keyText env net k = .ok t ∧ parseSec ke net t = .ok (some (.key k)) := by
  unfold parseElectrumPub at h
  split at h
  · rename_i blob hb
    split at h
    · rename_i hl
      split at h
      · cases h
      · rename_i hr
        obtain ⟨k, hk, rfl⟩ := electrumOut_inv h
        obtain ⟨rfl, hon⟩ := mkPublicKey_inv hk
        have hin : KeyObj.InRange ke ⟨none, ((beNat (blob.take 32) : Int), (beNat (blob.drop 32) : Int)), false⟩ :=
          ⟨hon, by simp, by simp; omega, by simp, by simp; omega, fun se hs => by cases hs⟩
        obtain ⟨t, t1, t2⟩ := public_key_text_rt env ke kl net hn _ rfl hin
        exact ⟨blob, _, t, hb, hl, rfl, rfl, rfl, rfl, hin, t1, t2⟩
    · cases h
  · cases h

/-- a coordinate from `p` upwards, a wrong payload length: refused -/
theorem parseElectrumPub_refuses (ke : KeyEnv) (s : String) (blob : Bytes) (hb : electrumBlob s = some blob)
    (h : blob.length ≠ 64 ∨ beNat (blob.take 32) ≥ ke.p ∨ beNat (blob.drop 32) ≥ ke.p) :
    parseElectrumPub ke s = .ok none := by
  unfold parseElectrumPub
  simp only [hb]
  rcases h with h | h
  · simp [h]
  · split
    · simp [h]
    · rfl

theorem parseElectrumPrv_refuses (ke : KeyEnv) (s : String) (blob : Bytes) (hb : electrumBlob s = some blob)
    (h : blob.length ≠ 32 ∨ beNat blob = 0 ∨ beNat blob ≥ ke.order) : parseElectrumPrv ke s = .ok none := by
  unfold parseElectrumPrv
  simp only [hb]
  rcases h with h | h
  · simp [h]
  · split
    · rw [mkPrivateKey_range false (by omega)]; rfl
    · rfl

/-! ## seeds (`P:` / `H:`) -/

theorem fromMasterSecret_inv {ke : KeyEnv} {ms : Bytes} {n : NodeObj} (h : fromMasterSecret ke ms = .ok n) :
    ∃ k, mkPrivateKey ke (beNat ((ke.hmacSha512 "Bitcoin seed".toUTF8.toList ms).take 32)) true = .ok k ∧
      n = ⟨32, 0, [0, 0, 0, 0], 0, (ke.hmacSha512 "Bitcoin seed".toUTF8.toList ms).drop 32, k⟩ := by
  unfold fromMasterSecret at h
  split at h
  · cases h
  · rename_i k hk
    injection h with h
    exact ⟨k, hk, h.symm⟩

theorem parseBip32Seed_inv {ke : KeyEnv} {s : String} {o : Obj} (h : parseBip32Seed ke s = .ok (some o)) :
    ∃ tag rest ms n, parseColonPrefix s = some (tag, rest) ∧ (tag = "" ∨ tag = "H" ∨ tag = "P" ∨ tag = "HP") ∧
      seedBytes tag rest = some ms ∧ fromMasterSecret ke ms = .ok n ∧ o = .node n := by
  unfold parseBip32Seed at h
  split at h
  · cases h
  · rename_i tag rest hc
    split at h
    · cases h
    · rename_i htag
      split at h
      · cases h
      · rename_i ms hms
        split at h
        any_goals cases h
        rename_i n hn
        exact ⟨tag, rest, ms, n, hc, Classical.not_not.mp htag, hms, hn, rfl⟩

end Pycoin.Addr

namespace Pycoin.Addr
open Pycoin.Gen.Networks

/-- the 78-byte layout read backwards: the slices of a blob put together from parts of the right lengths are the parts -/
theorem layout_unique (p fp idx cc key : Bytes) (d : UInt8) (hp : p.length = 4) (hfp : fp.length = 4) (hidx : idx.length = 4)
    (hcc : cc.length = 32) (hkey : key.length = 33) :
    let data := p ++ ([d] ++ fp ++ idx ++ cc ++ key)
    data.length = 78 ∧ data[4]? = some d ∧ slice data 5 9 = fp ∧ slice data 9 13 = idx ∧ slice data 13 45 = cc ∧
      data.drop 45 = key ∧ data.take 4 = p := by
  intro data
  have hl : data.length = 78 := by simp [data, hp, hfp, hidx, hcc, hkey]
  obtain ⟨d', hd', hdata⟩ := data78 data hl
  have e : p ++ ([d] ++ fp ++ idx ++ cc ++ key) =
      data.take 4 ++ ([d'] ++ slice data 5 9 ++ slice data 9 13 ++ slice data 13 45 ++ data.drop 45) := hdata
  have l1 : (data.take 4).length = 4 := by simp [hl]
  have l2 := slice_len data 5 9 (by omega)
  have l3 := slice_len data 9 13 (by omega)
  have l4 := slice_len data 13 45 (by omega)
  obtain ⟨e1, e⟩ := List.append_inj e (by rw [hp, l1])
  simp only [List.append_assoc, List.singleton_append] at e
  obtain ⟨ed, e⟩ := List.cons_eq_cons.mp e
  obtain ⟨e2, e⟩ := List.append_inj e (by rw [hfp, l2])
  obtain ⟨e3, e⟩ := List.append_inj e (by rw [hidx, l3])
  obtain ⟨e4, e5⟩ := List.append_inj e (by rw [hcc, l4])
  exact ⟨hl, by rw [hd', ed], e2.symm, e3.symm, e4.symm, e5.symm, e1.symm⟩

/-- `hwif(as_private=True)` of a private node with well-sized fields parses back to the node (text → node direction of
the extended-key round trip, for nodes that were not parsed from text: the masters of `P:`/`H:` seeds) -/
theorem hparse_hwif_private (env : Env) (laws : CodecLaws env) (ke : KeyEnv) (kl : KeyLaws ke) (net : Network) (hn : net ∈ all)
    (n : NodeObj) (p : Bytes) (hp : nodeParsePrefix net n.kind true = some p) (v : Int)
    (hk : mkPrivateKey ke v true = .ok n.key) (hd : n.depth ≤ 255) (hfp : n.fingerprint.length = 4)
    (hidx : n.childIndex < 2 ^ 32) (hcc : n.chainCode.length = 32) :
    ∃ t, hwif env net n true = .ok t ∧ hparse env ke net n.kind true t = .ok (some (.node n)) := by
  obtain ⟨p4, hout, hhash, -⟩ := ext_table net hn n.kind true p hp
  obtain ⟨h1, h2, hkey, -⟩ := mkPrivateKey_inv hk
  obtain ⟨s, rfl⟩ := Int.eq_ofNat_of_zero_le (show (0 : Int) ≤ v by omega)
  have hs : s < 256 ^ 32 := by
    have := kl.order256; rw [pow256_32]
    have : s < ke.order := by exact_mod_cast h2
    omega
  have hse : n.key.se = some s := by rw [hkey]; simp
  obtain ⟨hl, l4, l59, l913, l1345, l45, ltake⟩ :=
    layout_unique p n.fingerprint (beBytes n.childIndex 4) n.chainCode (0 :: beBytes s 32) (UInt8.ofNat n.depth) p4 hfp
      (by simp) hcc (by simp)
  generalize hdata : p ++ ([UInt8.ofNat n.depth] ++ n.fingerprint ++ beBytes n.childIndex 4 ++ n.chainCode ++ 0 :: beBytes s 32) = data
    at hl l4 l59 l913 l1345 l45 ltake
  refine ⟨env.b58cEnc net.hashParse data, ?_, ?_⟩
  · simp only [hwif, nodeSerialize, hse, if_true, bind, Except.bind, b58Text, hout, hhash, hdata]
  · have hdec : parseB58Hashed env net (env.b58cEnc net.hashParse data) = some data := by
      unfold parseB58Hashed
      apply laws.b58_rt
      intro h; rw [h] at hl; simp at hl
    have hpre : isPrefixOf p data = true := by rw [← hdata]; exact isPrefixOf_append' p _
    have h8 : (slice data 5 13).length = 8 := by rw [slice_len _ _ _ (by omega)]
    have h45 : slice data 45 46 = [0] := by
      have : slice data 45 46 = (data.drop 45).take 1 := rfl
      rw [this, l45]; rfl
    have h46 : data.drop 46 = beBytes s 32 := by
      have : data.drop 46 = (data.drop 45).drop 1 := by rw [List.drop_drop]
      rw [this, l45]; rfl
    have hidxv : n.childIndex < 256 ^ 4 := by
      have : (256 : Nat) ^ 4 = 2 ^ 32 := by decide
      omega
    have hdep : (UInt8.ofNat n.depth).toNat = n.depth := by
      rw [UInt8.toNat_ofNat']; omega
    unfold hparse
    simp only [hdec, hp, hpre, Bool.not_true, Bool.false_eq_true, if_false, hl, ne_eq, not_true_eq_false]
    have hds : deserialize ke n.kind data = .ok n := by
      unfold deserialize
      simp only [h8, ne_eq, not_true_eq_false, if_false, deserializeKey, h45, if_true, h46, beNat_beBytes_of_lt hs, hk,
        l1345, hcc, l4, hdep, l59, l913, beNat_beBytes_of_lt hidxv]
    simp only [hds]

/-- ★ seeds: `P:<text>` / `H:<hex>` is accepted exactly with the master node BIP32 defines for the seed bytes
`ms` (UTF-8 of the text, or the bytes of the hex): with `I = HMAC-SHA512(key = "Bitcoin seed", ms)`, secret exponent
`parse256(I_L)` — required to lie in `[1, n)`, otherwise the text is refused —, chain code `I_R`, depth 0, parent
fingerprint `00000000`, child number 0, class BIP32, compressed key; and — where the network has a BIP32 private
prefix — `hwif(as_private=True)` of the node parses back to the node -/
theorem parseBip32Seed_reserialises (env : Env) (laws : CodecLaws env) (ke : KeyEnv) (kl : KeyLaws ke) (net : Network)
    (hn : net ∈ all) (s : String) (o : Obj) (h : parseBip32Seed ke s = .ok (some o)) :
    ∃ tag rest ms n, parseColonPrefix s = some (tag, rest) ∧ seedBytes tag rest = some ms ∧ o = .node n ∧
      fromMasterSecret ke ms = .ok n ∧
      n.kind = 32 ∧ n.depth = 0 ∧ n.fingerprint = [0, 0, 0, 0] ∧ n.childIndex = 0 ∧
      n.chainCode = (ke.hmacSha512 "Bitcoin seed".toUTF8.toList ms).drop 32 ∧
      n.key.se = some (beNat ((ke.hmacSha512 "Bitcoin seed".toUTF8.toList ms).take 32)) ∧
      1 ≤ beNat ((ke.hmacSha512 "Bitcoin seed".toUTF8.toList ms).take 32) ∧
      beNat ((ke.hmacSha512 "Bitcoin seed".toUTF8.toList ms).take 32) < ke.order ∧
      n.key.compressed = true ∧ n.key.InRange ke ∧
      ∀ p, net.parseBip32Prv = some p →
        ∃ t, hwif env net n true = .ok t ∧ hparse env ke net 32 true t = .ok (some (.node n)) := by
  obtain ⟨tag, rest, ms, n, hc, -, hms, hn', rfl⟩ := parseBip32Seed_inv h
  obtain ⟨k, hk, rfl⟩ := fromMasterSecret_inv hn'
  obtain ⟨hr, hse, hcomp, h1, h2⟩ := inRange_private kl hk
  refine ⟨tag, rest, ms, _, hc, hms, rfl, hn', rfl, rfl, rfl, rfl, rfl, by simpa using hse, by omega, by omega, hcomp, hr, ?_⟩
  intro p hp
  exact hparse_hwif_private env laws ke kl net hn _ p (by simpa [nodeParsePrefix] using hp) _ hk (by simp) (by simp) (by simp)
    (by simp [kl.hmac_len])

/-- a seed whose `I_L` is 0 or not below the group order: refused (BIP32: "the master key is invalid") -/
theorem parseBip32Seed_refuses (ke : KeyEnv) (s tag rest : String) (ms : Bytes) (hc : parseColonPrefix s = some (tag, rest))
    (hms : seedBytes tag rest = some ms)
    (h : beNat ((ke.hmacSha512 "Bitcoin seed".toUTF8.toList ms).take 32) = 0 ∨
      beNat ((ke.hmacSha512 "Bitcoin seed".toUTF8.toList ms).take 32) ≥ ke.order) :
    parseBip32Seed ke s = .ok none := by
  unfold parseBip32Seed
  simp only [hc, hms]
  split
  · rfl
  · have := mkPrivateKey_range (ke := ke) (v := (beNat ((ke.hmacSha512 "Bitcoin seed".toUTF8.toList ms).take 32) : Nat)) true
      (by omega)
    simp only [fromMasterSecret, this]

end Pycoin.Addr
