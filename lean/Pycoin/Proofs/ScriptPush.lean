import Pycoin.Proofs.ScriptTables
/-! C12: `get_opcode` refines Core's `GetScriptOp` + `CheckMinimalPush`; `compile_push_data` emits the minimal push. -/

namespace Pycoin.Script
open Pycoin.Gen.Opcodes

/-! ## handlers in terms of the bytes that follow the opcode -/

theorem slice_drop (script r : Bytes) (a n : Nat) (h : script.drop a = r) : slice script a (a + n) = r.take n := by
  simp [slice, h]

theorem take_length_lt (r : Bytes) (n : Nat) : (r.take n).length < n ↔ r.length < n := by
  rw [List.length_take]; omega

theorem sizedHandler_eq (script r : Bytes) (pc n : Nat) (vm : Bool) (h : script.drop (pc + 1) = r) :
    sizedHandler n script pc vm =
      if r.length < n then .ok (pc + 2, none)
      else if vm && decide (r.take n ∈ sizedConstValues) then .error .scriptError
      else .ok (pc + 1 + n, some (r.take n)) := by
  unfold sizedHandler
  simp only [slice_drop script r (pc + 1) n h, take_length_lt]

theorem decodePushdata_eq (script r : Bytes) (pc w : Nat) (h : script.drop (pc + 1) = r) :
    decodePushdata script pc w false =
      if r.length < w then (none, pc + 1) else (some (leNat (r.take w)), pc + 1 + w) := by
  unfold decodePushdata
  simp only [slice_drop script r (pc + 1) w h]
  have : (r.take w).length = w ↔ ¬ r.length < w := by rw [List.length_take]; omega
  by_cases hw : r.length < w
  · have h2 : ¬ (r.take w).length = w := fun hh => (this.mp hh) hw
    rw [if_neg h2, if_pos hw]
  · have h2 : (r.take w).length = w := this.mpr hw
    rw [if_pos h2, if_neg hw]; simp

theorem variableHandler_eq (script r : Bytes) (pc w m : Nat) (vm : Bool) (h : script.drop (pc + 1) = r) :
    variableHandler w false m script pc vm =
      if r.length < w then .ok (pc + 2, none)
      else if (r.drop w).length < leNat (r.take w) then .ok (pc + 1 + w + 1, none)
      else if vm && (decide (leNat (r.take w) ∈ variableSizedValues) || decide (leNat (r.take w) < m)) then .error .scriptError
      else .ok (pc + 1 + w + leNat (r.take w), some ((r.drop w).take (leNat (r.take w)))) := by
  unfold variableHandler
  rw [decodePushdata_eq script r pc w h]
  by_cases hw : r.length < w
  · simp [hw]
  · simp only [hw, if_false]
    have hd : script.drop (pc + 1 + w) = r.drop w := by rw [← h, List.drop_drop]
    simp only [slice_drop script (r.drop w) (pc + 1 + w) _ hd, take_length_lt]

end Pycoin.Script

namespace Pycoin.Script
open Pycoin.Gen.Opcodes

theorem drop_facts {script : Bytes} {pc : Nat} {b : UInt8} {r : Bytes} (hd : script.drop pc = b :: r) :
    script[pc]? = some b ∧ script.drop (pc + 1) = r ∧ script.length = pc + 1 + r.length := by
  have hlen : (script.drop pc).length = r.length + 1 := by rw [hd]; simp
  rw [List.length_drop] at hlen
  have hlt : pc < script.length := by omega
  refine ⟨?_, ?_, by omega⟩
  · have := List.drop_eq_getElem_cons hlt
    rw [hd] at this
    injection this with h1 h2
    simp [List.getElem?_eq_getElem hlt, h1]
  · have : script.drop (pc + 1) = (script.drop pc).drop 1 := by rw [List.drop_drop]
    rw [this, hd]; rfl

/-- `get_opcode` when the table has no handler for the byte -/
theorem getOpcode_of_handler (script : Bytes) (pc : Nat) (vm : Bool) (b : UInt8) (r : Bytes)
    (hd : script.drop pc = b :: r) :
    getOpcode script pc vm =
      match expectedHandler b.toNat with
      | none => .ok ⟨b, none, pc + 1, true⟩
      | some h =>
        match runHandler h script pc vm with
        | .error e => .error e
        | .ok (pc', data) => .ok ⟨b, data, pc', data.isSome⟩ := by
  obtain ⟨hget, _, _⟩ := drop_facts hd
  unfold getOpcode
  rw [hget]
  simp only [decoder_eq]
  cases expectedHandler b.toNat with
  | none => rfl
  | some h =>
    simp only
    cases runHandler h script pc vm with
    | error e => rfl
    | ok p => rfl

end Pycoin.Script

namespace Pycoin.Script
open Pycoin.Gen.Opcodes

/-! ## pycoin's minimal-data tests are `CheckMinimalPush` -/

theorem sized_minimal (d : Bytes) (h1 : 1 ≤ d.length) (h75 : d.length ≤ 75) :
    decide (d ∈ sizedConstValues) = !Spec.checkMinimalPush d.length d := by
  have hmem := mem_sizedConstValues d
  by_cases h2 : 2 ≤ d.length
  · have hnone := constEncoder_long d h2
    have : ¬ d ∈ sizedConstValues := by rw [hmem, hnone]; simp
    have hne0 : ¬ d.length = 0 := by omega
    have hne1 : ¬ d.length = 1 := by omega
    simp [this, Spec.checkMinimalPush, hne0, hne1, h75]
  · obtain ⟨x, rfl⟩ : ∃ x, d = [x] := by
      match d, h1, h2 with
      | [x], _, _ => exact ⟨x, rfl⟩
      | _ :: _ :: _, _, h2 => simp at h2
    · have hx := constEncoder_one x.toNat x.toNat_lt
      simp only [UInt8.ofNat_toNat] at hx
      have hmem' : [x] ∈ sizedConstValues ↔ (expectedConst x.toNat).isSome = true := by rw [mem_sizedConstValues, hx]
      unfold expectedConst at hmem'
      simp only [Spec.checkMinimalPush, List.length_cons, List.length_nil, List.head?_cons, Option.map_some]
      by_cases ha : 1 ≤ x.toNat ∧ x.toNat ≤ 16
      · simp [ha] at hmem' ⊢; exact hmem'
      · by_cases hb : x.toNat = 0x81
        · simp [ha, hb] at hmem' ⊢; exact hmem'
        · simp [ha, hb] at hmem' ⊢; exact hmem'

theorem var_minimal (opc m : Nat) (d : Bytes)
    (h : (opc = 76 ∧ m = 1 ∧ d.length < 256) ∨ (opc = 77 ∧ m = 256 ∧ d.length < 65536) ∨ (opc = 78 ∧ m = 65536)) :
    (decide (d.length ∈ variableSizedValues) || decide (d.length < m)) = !Spec.checkMinimalPush opc d := by
  have hmem := mem_variableSizedValues d.length
  unfold Spec.checkMinimalPush
  rcases h with ⟨ho, hm, hl⟩ | ⟨ho, hm, hl⟩ | ⟨ho, hm⟩ <;> subst ho hm
  all_goals
    by_cases h0 : d.length = 0
    · have : ¬ (d.length ∈ variableSizedValues) := by rw [hmem]; omega
      simp [h0, this]
    · by_cases h75 : d.length ≤ 75
      · have hin : d.length ∈ variableSizedValues := by rw [hmem]; omega
        have : ¬ (76 = d.length) := by omega
        have : ¬ (77 = d.length) := by omega
        have : ¬ (78 = d.length) := by omega
        simp [h0, h75, hin]
        intros; omega
      · have hin : ¬ d.length ∈ variableSizedValues := by rw [hmem]; omega
        have hne1 : ¬ d.length = 1 := by omega
        by_cases h255 : d.length ≤ 255
        · simp [h0, h75, hin, hne1, h255]; try omega
        · by_cases h65535 : d.length ≤ 65535
          · simp [h0, h75, hin, hne1, h255, h65535]; try omega
          · simp [h0, h75, hin, hne1, h255, h65535]; try omega

end Pycoin.Script

namespace Pycoin.Script
open Pycoin.Gen.Opcodes

/-- where the decoder leaves `pc` after a truncated push (`pc + 1` past the point it gave up) -/
def truncPc (pc : Nat) (n : Nat) (r : Bytes) : Nat :=
  if n ≤ 75 then pc + 2
  else
    let w := if n = 76 then 1 else if n = 77 then 2 else 4
    if r.length < w then pc + 2 else pc + 1 + w + 1

/-- what Core's `GetScriptOp` + `CheckMinimalPush` say `get_opcode` must answer -/
def coreAnswer (script : Bytes) (pc : Nat) (vm : Bool) (b : UInt8) (r : Bytes) : Except Err OpResult :=
  match Spec.getScriptOp (b :: r) with
  | none => .ok ⟨b, none, truncPc pc b.toNat r, false⟩
  | some (opc, payload, rest) =>
    if vm && decide (opc ≤ 0x4e) && !Spec.checkMinimalPush opc payload then .error .scriptError
    else .ok ⟨b, Spec.pushValue opc payload, script.length - rest.length, true⟩

theorem take_len {r : Bytes} {n : Nat} (h : ¬ r.length < n) : (r.take n).length = n := by
  rw [List.length_take]; omega

theorem leNat_take_lt (r : Bytes) (w : Nat) : leNat (r.take w) < 256 ^ w := by
  have h1 := leNat_lt (r.take w)
  have h2 : (r.take w).length ≤ w := by rw [List.length_take]; omega
  exact Nat.lt_of_lt_of_le h1 (Nat.pow_le_pow_right (by decide) h2)

/-- `Spec.getScriptOp` on `b :: r`, as a function of the opcode number -/
def specOp (opcode : Nat) (r : Bytes) : Option (Nat × Bytes × Bytes) :=
  if opcode ≤ 0x4e then
    let lenField : Option (Nat × Bytes) :=
      if opcode < 0x4c then some (opcode, r)
      else if opcode = 0x4c then (if r.length < 1 then none else some (leNat (r.take 1), r.drop 1))
      else if opcode = 0x4d then (if r.length < 2 then none else some (leNat (r.take 2), r.drop 2))
      else (if r.length < 4 then none else some (leNat (r.take 4), r.drop 4))
    match lenField with
    | none => none
    | some (n, r) => if r.length < n then none else some (opcode, r.take n, r.drop n)
  else some (opcode, [], r)

theorem getScriptOp_cons (b : UInt8) (r : Bytes) : Spec.getScriptOp (b :: r) = specOp b.toNat r := rfl

/-- **`get_opcode` refines Core's `GetScriptOp` + `CheckMinimalPush`** for every script and `pc` inside it -/
theorem getOpcode_refines (script : Bytes) (pc : Nat) (vm : Bool) (b : UInt8) (r : Bytes)
    (hd : script.drop pc = b :: r) : getOpcode script pc vm = coreAnswer script pc vm b r := by
  obtain ⟨_, hr, hlen⟩ := drop_facts hd
  rw [getOpcode_of_handler script pc vm b r hd]
  unfold coreAnswer
  rw [getScriptOp_cons]
  have hb : b.toNat < 256 := b.toNat_lt
  generalize b.toNat = n at *
  unfold specOp truncPc
  by_cases h0 : n = 0
  · subst h0
    simp [expectedHandler, runHandler, Spec.checkMinimalPush, Spec.pushValue, hlen]
  by_cases h75 : n ≤ 75
  · have e1 : n ≤ 78 := by omega
    have e2 : n < 76 := by omega
    simp only [expectedHandler, h0, h75, if_false, if_true, runHandler, sizedHandler_eq script r pc n vm hr, e1, e2]
    by_cases ht : r.length < n
    · simp [ht]
    · have hl := take_len ht
      have hm := sized_minimal (r.take n) (by omega) (by omega)
      rw [hl] at hm
      simp only [ht, if_false, hm, Spec.pushValue, e1, if_true, decide_true, Bool.and_true]
      have : script.length - (r.drop n).length = pc + 1 + n := by rw [List.length_drop]; omega
      rw [this]
      cases vm <;> cases Spec.checkMinimalPush n (r.take n) <;> simp
  by_cases h76 : n = 76
  · subst h76
    rw [show expectedHandler 76 = some (.varlen 1 false 1) from rfl]
    simp only [runHandler]
    rw [variableHandler_eq script r pc 1 1 vm hr]
    by_cases hw : r.length < 1
    · simp [hw]
    · by_cases ht : (r.drop 1).length < leNat (r.take 1)
      · have ht' : r.length - 1 < leNat (r.take 1) := by simpa [List.length_drop] using ht
        simp [hw, ht']
      · have hl := take_len ht
        have hlt := leNat_take_lt r 1
        have hm := var_minimal 76 1 ((r.drop 1).take (leNat (r.take 1))) (Or.inl ⟨rfl, rfl, by rw [hl]; omega⟩)
        rw [hl] at hm
        have : script.length - ((r.drop 1).drop (leNat (r.take 1))).length = pc + 1 + 1 + leNat (r.take 1) := by
          simp only [List.length_drop] at ht ⊢; omega
        simp only [hw, ht, if_false, hm, Spec.pushValue, this]
        have ht' : ¬ r.length - 1 < leNat (r.take 1) := by simpa [List.length_drop] using ht
        have this' : script.length - (r.length - (1 + leNat (r.take 1))) = pc + 1 + 1 + leNat (r.take 1) := by omega
        cases vm <;> cases hc : Spec.checkMinimalPush 76 ((r.drop 1).take (leNat (r.take 1))) <;>
          (have hc' := hc; (try simp only [List.drop_one] at hc'); simp [ht', hc, hc']; try omega)
  by_cases h77 : n = 77
  · subst h77
    rw [show expectedHandler 77 = some (.varlen 2 false 256) from rfl]
    simp only [runHandler]
    rw [variableHandler_eq script r pc 2 256 vm hr]
    by_cases hw : r.length < 2
    · simp [hw]
    · by_cases ht : (r.drop 2).length < leNat (r.take 2)
      · have ht' : r.length - 2 < leNat (r.take 2) := by simpa [List.length_drop] using ht
        simp [hw, ht']
      · have hl := take_len ht
        have hlt := leNat_take_lt r 2
        have hm := var_minimal 77 256 ((r.drop 2).take (leNat (r.take 2))) (Or.inr (Or.inl ⟨rfl, rfl, by rw [hl]; omega⟩))
        rw [hl] at hm
        have : script.length - ((r.drop 2).drop (leNat (r.take 2))).length = pc + 1 + 2 + leNat (r.take 2) := by
          simp only [List.length_drop] at ht ⊢; omega
        simp only [hw, ht, if_false, hm, Spec.pushValue, this]
        have ht' : ¬ r.length - 2 < leNat (r.take 2) := by simpa [List.length_drop] using ht
        have this' : script.length - (r.length - (2 + leNat (r.take 2))) = pc + 1 + 2 + leNat (r.take 2) := by omega
        cases vm <;> cases hc : Spec.checkMinimalPush 77 ((r.drop 2).take (leNat (r.take 2))) <;>
          (have hc' := hc; (try simp only [List.drop_one] at hc'); simp [ht', hc, hc']; try omega)
  by_cases h78 : n = 78
  · subst h78
    rw [show expectedHandler 78 = some (.varlen 4 false 65536) from rfl]
    simp only [runHandler]
    rw [variableHandler_eq script r pc 4 65536 vm hr]
    by_cases hw : r.length < 4
    · simp [hw]
    · by_cases ht : (r.drop 4).length < leNat (r.take 4)
      · have ht' : r.length - 4 < leNat (r.take 4) := by simpa [List.length_drop] using ht
        simp [hw, ht']
      · have hl := take_len ht
        have hm := var_minimal 78 65536 ((r.drop 4).take (leNat (r.take 4))) (Or.inr (Or.inr ⟨rfl, rfl⟩))
        rw [hl] at hm
        have : script.length - ((r.drop 4).drop (leNat (r.take 4))).length = pc + 1 + 4 + leNat (r.take 4) := by
          simp only [List.length_drop] at ht ⊢; omega
        simp only [hw, ht, if_false, hm, Spec.pushValue, this]
        have ht' : ¬ r.length - 4 < leNat (r.take 4) := by simpa [List.length_drop] using ht
        have this' : script.length - (r.length - (4 + leNat (r.take 4))) = pc + 1 + 4 + leNat (r.take 4) := by omega
        cases vm <;> cases hc : Spec.checkMinimalPush 78 ((r.drop 4).take (leNat (r.take 4))) <;>
          (have hc' := hc; (try simp only [List.drop_one] at hc'); simp [ht', hc, hc']; try omega)
  have e1 : ¬ n ≤ 78 := by omega
  by_cases h79 : n = 79
  · subst h79
    simp [expectedHandler, runHandler, Spec.pushValue, hlen]
  by_cases h80 : n = 80
  · subst h80
    simp [expectedHandler, Spec.pushValue, hlen]
  by_cases h96 : n ≤ 96
  · have e2 : 81 ≤ n := by omega
    simp [expectedHandler, h0, h75, h76, h77, h78, h79, h80, h96, e1, e2, runHandler, Spec.pushValue, hlen]
  · have e2 : ¬ (81 ≤ n ∧ n ≤ 96) := by omega
    simp [expectedHandler, h0, h75, h76, h77, h78, h79, h80, h96, e1, e2, Spec.pushValue, hlen]

end Pycoin.Script

namespace Pycoin.Spec

/-- the constant opcode that stands for data `d`, if any: `OP_0`, `OP_1..OP_16`, `OP_1NEGATE` -/
def smallIntOpcode : Bytes → Option UInt8
  | [] => some 0x00
  | [x] =>
    if 1 ≤ x.toNat ∧ x.toNat ≤ 16 then some (UInt8.ofNat (80 + x.toNat))
    else if x.toNat = 0x81 then some 0x4f
    else none
  | _ :: _ :: _ => none

/-- the push instruction the consensus minimal-push rule demands for data `d` (`|d| < 2^32`):
a constant opcode where one exists, else a direct push up to 75 bytes, else PUSHDATA1 up to 255, PUSHDATA2 up to
65535, else PUSHDATA4 -/
def minimalPush (d : Bytes) : Bytes :=
  match smallIntOpcode d with
  | some op => [op]
  | none =>
    if d.length ≤ 75 then UInt8.ofNat d.length :: d
    else if d.length ≤ 255 then 0x4c :: (leBytes d.length 1 ++ d)
    else if d.length ≤ 65535 then 0x4d :: (leBytes d.length 2 ++ d)
    else 0x4e :: (leBytes d.length 4 ++ d)

end Pycoin.Spec

namespace Pycoin.Script
open Pycoin.Gen.Opcodes

theorem constEncoder_eq (d : Bytes) : dictGet d constEncoder = (Spec.smallIntOpcode d).map fun op => [op] := by
  match d with
  | [] => rw [constEncoder_nil]; rfl
  | [x] =>
    have hx := constEncoder_one x.toNat x.toNat_lt
    simp only [UInt8.ofNat_toNat] at hx
    rw [hx]
    unfold expectedConst Spec.smallIntOpcode
    by_cases ha : 1 ≤ x.toNat ∧ x.toNat ≤ 16
    · simp [ha]
    · by_cases hb : x.toNat = 0x81 <;> simp [ha, hb]
  | a :: b :: t =>
    rw [constEncoder_long _ (by simp)]; rfl

theorem smallInt_none_len {d : Bytes} (h : Spec.smallIntOpcode d = none) : 1 ≤ d.length := by
  match d, h with
  | [x], _ => simp
  | _ :: _ :: _, _ => simp

/-- `compile_push_data d` is the minimal push of `d`, for every `d` shorter than 2^32 bytes -/
theorem compilePushData_eq (d : Bytes) (h : d.length < 2 ^ 32) : compilePushData d = .ok (Spec.minimalPush d) := by
  unfold compilePushData Spec.minimalPush
  rw [constEncoder_eq]
  cases hs : Spec.smallIntOpcode d with
  | some op => rfl
  | none =>
    have h1 := smallInt_none_len hs
    simp only [Option.map_none, sizedEncoder_eq, variableEncoder_eq]
    by_cases h75 : d.length ≤ 75
    · simp [h1, h75]
    · have : ¬ (1 ≤ d.length ∧ d.length ≤ 75) := by omega
      simp only [this, if_false, h75]
      by_cases h255 : d.length ≤ 255
      · have : d.length < 256 ^ 1 := by omega
        simp [pickVariable, h255, packLen, leBytes?, this]
      · by_cases h65535 : d.length ≤ 65535
        · have : d.length < 256 ^ 2 := by omega
          simp [pickVariable, h255, h65535, packLen, leBytes?, this]
        · have : d.length < 256 ^ 4 := by omega
          simp [pickVariable, h255, h65535, packLen, leBytes?, this]

/-- beyond 2^32 - 1 bytes `struct.pack("<L", …)` raises -/
theorem compilePushData_overflow (d : Bytes) (h : 2 ^ 32 ≤ d.length) : compilePushData d = .error .structError := by
  unfold compilePushData
  rw [constEncoder_eq]
  have hs : Spec.smallIntOpcode d = none := by
    match d, h with
    | _ :: _ :: _, _ => rfl
  have : ¬ (1 ≤ d.length ∧ d.length ≤ 75) := by omega
  have h1 : ¬ d.length ≤ 255 := by omega
  have h2 : ¬ d.length ≤ 65535 := by omega
  have h3 : ¬ d.length < 256 ^ 4 := by omega
  simp [hs, sizedEncoder_eq, variableEncoder_eq, this, pickVariable, h1, h2, packLen, leBytes?, h3]

end Pycoin.Script

namespace Pycoin.Script

theorem ofNat_toNat_lt {n : Nat} (h : n < 256) : (UInt8.ofNat n).toNat = n := by
  simp [UInt8.toNat_ofNat']; omega

theorem checkMinimal_direct (d : Bytes) (hs : Spec.smallIntOpcode d = none) (h75 : d.length ≤ 75) :
    Spec.checkMinimalPush d.length d = true := by
  have h1 := smallInt_none_len hs
  unfold Spec.checkMinimalPush
  have h0 : ¬ d.length = 0 := by omega
  match d, hs, h1 with
  | [x], hs, _ =>
    unfold Spec.smallIntOpcode at hs
    by_cases ha : 1 ≤ x.toNat ∧ x.toNat ≤ 16
    · simp [ha] at hs
    · by_cases hb : x.toNat = 0x81
      · simp [ha, hb] at hs
      · simp [ha, hb]
  | a :: b :: t, _, _ =>
    have : ¬ (a :: b :: t).length = 1 := by simp
    simp only [h0, this, false_and, if_false, h75, if_true]
    simp

/-- Core's `GetScriptOp` reads the minimal push of `d` back as `d`, and `CheckMinimalPush` accepts it -/
theorem getScriptOp_minimalPush (d rest : Bytes) (h : d.length < 2 ^ 32) :
    ∃ opc payload, Spec.getScriptOp (Spec.minimalPush d ++ rest) = some (opc, payload, rest) ∧
      Spec.pushValue opc payload = some d ∧ (opc ≤ 0x4e → Spec.checkMinimalPush opc payload = true) := by
  unfold Spec.minimalPush
  cases hs : Spec.smallIntOpcode d with
  | some op =>
    match d, hs with
    | [], hs =>
      cases hs
      exact ⟨0, [], by simp [getScriptOp_cons, specOp], by simp [Spec.pushValue], by simp [Spec.checkMinimalPush]⟩
    | [x], hs =>
      unfold Spec.smallIntOpcode at hs
      have hx : x.toNat < 256 := x.toNat_lt
      by_cases ha : 1 ≤ x.toNat ∧ x.toNat ≤ 16
      · simp only [ha, and_self, if_true] at hs
        cases hs
        have ht : (UInt8.ofNat (80 + x.toNat)).toNat = 80 + x.toNat := ofNat_toNat_lt (by omega)
        refine ⟨80 + x.toNat, [], ?_, ?_, by omega⟩
        · have : ¬ 80 + x.toNat ≤ 78 := by omega
          have hmod : (80 + x.toNat) % 256 = 80 + x.toNat := by omega
          simp [getScriptOp_cons, specOp, hmod, this]
        · have h1 : ¬ 80 + x.toNat ≤ 78 := by omega
          have h2 : ¬ 80 + x.toNat = 79 := by omega
          have h3 : 81 ≤ 80 + x.toNat ∧ 80 + x.toNat ≤ 96 := by omega
          simp [Spec.pushValue, h1, h2, h3]
      · by_cases hb : x.toNat = 0x81
        · simp only [ha, if_false, hb, if_true] at hs
          cases hs
          refine ⟨0x4f, [], by simp [getScriptOp_cons, specOp], ?_, by omega⟩
          have : x = 0x81 := by
            have := congrArg UInt8.ofNat hb
            simpa using this
          simp [Spec.pushValue, this]
        · simp [ha, hb] at hs
  | none =>
    have h1 := smallInt_none_len hs
    simp only
    by_cases h75 : d.length ≤ 75
    · simp only [h75, if_true]
      have ht : (UInt8.ofNat d.length).toNat = d.length := ofNat_toNat_lt (by omega)
      refine ⟨d.length, d, ?_, by simp [Spec.pushValue]; omega, fun _ => checkMinimal_direct d hs h75⟩
      have e1 : d.length ≤ 78 := by omega
      have e2 : d.length < 76 := by omega
      simp [getScriptOp_cons, specOp, ht, e1, e2]
    · have hne1 : ¬ d.length = 1 := by omega
      have hne0 : ¬ d.length = 0 := by omega
      by_cases h255 : d.length ≤ 255
      · simp only [h75, if_false, h255, if_true]
        have hl : leNat (leBytes d.length 1) = d.length := leNat_leBytes_of_lt (by omega)
        refine ⟨0x4c, d, ?_, by simp [Spec.pushValue], fun _ => by simp [Spec.checkMinimalPush, hne0, hne1, h75, h255]⟩
        have e : (List.take 1 (leBytes d.length 1 ++ (d ++ rest))) = leBytes d.length 1 := by
          rw [List.take_left' (by simp)]
        have e' : (List.drop 1 (leBytes d.length 1 ++ (d ++ rest))) = d ++ rest := by
          rw [List.drop_left' (by simp)]
        simp only [List.cons_append, List.append_assoc, getScriptOp_cons, specOp]
        simp [e, e', hl]
      · by_cases h65535 : d.length ≤ 65535
        · simp only [h75, if_false, h255, h65535, if_true]
          have hl : leNat (leBytes d.length 2) = d.length := leNat_leBytes_of_lt (by omega)
          refine ⟨0x4d, d, ?_, by simp [Spec.pushValue], fun _ => by simp [Spec.checkMinimalPush, hne0, hne1, h75, h255, h65535]⟩
          have e : (List.take 2 (leBytes d.length 2 ++ (d ++ rest))) = leBytes d.length 2 := by
            rw [List.take_left' (by simp)]
          have e' : (List.drop 2 (leBytes d.length 2 ++ (d ++ rest))) = d ++ rest := by
            rw [List.drop_left' (by simp)]
          simp only [List.cons_append, List.append_assoc, getScriptOp_cons, specOp]
          have hw2 : ¬ 2 + (d.length + rest.length) < 2 := by omega
          have hw4 : ¬ 4 + (d.length + rest.length) < 4 := by omega
          simp [e, e', hl, hw2, hw4]
        · simp only [h75, if_false, h255, h65535]
          have hl : leNat (leBytes d.length 4) = d.length := leNat_leBytes_of_lt (by omega)
          refine ⟨0x4e, d, ?_, by simp [Spec.pushValue], fun _ => by simp [Spec.checkMinimalPush, hne0, hne1, h75, h255, h65535]⟩
          have e : (List.take 4 (leBytes d.length 4 ++ (d ++ rest))) = leBytes d.length 4 := by
            rw [List.take_left' (by simp)]
          have e' : (List.drop 4 (leBytes d.length 4 ++ (d ++ rest))) = d ++ rest := by
            rw [List.drop_left' (by simp)]
          simp only [List.cons_append, List.append_assoc, getScriptOp_cons, specOp]
          have hw2 : ¬ 2 + (d.length + rest.length) < 2 := by omega
          have hw4 : ¬ 4 + (d.length + rest.length) < 4 := by omega
          simp [e, e', hl, hw2, hw4]

end Pycoin.Script
