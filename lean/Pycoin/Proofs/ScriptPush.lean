import Pycoin.Proofs.ScriptTables
/-! C12: `get_opcode` refines Core's `GetScriptOp` + `CheckMinimalPush`; `compile_push_data` emits the minimal push. -/

namespace Pycoin.Script
open Pycoin.Gen.Opcodes

/-! ## handlers in terms of the bytes that follow the opcode -/

theorem slice_drop (script r : Bytes) (a n : Nat) (h : script.drop a = r) : slice script a (a + n) = r.take n := by
  simp [slice, h]

theorem take_length_lt (r : Bytes) (n : Nat) : (r.take n).length < n ↔ r.length < n := by
  rw [List.length_take]; omega

theorem sizedHandler_eq (script r : Bytes) (pc n : Nat) (vm : Bool) (h : script.drop (pc + 1) = r) :
    sizedHandler n script pc vm =
      if r.length < n then .ok (pc + 2, none)
      else if vm && decide (r.take n ∈ sizedConstValues) then .error .scriptError
      else .ok (pc + 1 + n, some (r.take n)) := by
  unfold sizedHandler
  simp only [slice_drop script r (pc + 1) n h, take_length_lt]

theorem decodePushdata_eq (script r : Bytes) (pc w : Nat) (h : script.drop (pc + 1) = r) :
    decodePushdata script pc w false =
      if r.length < w then (none, pc + 1) else (some (leNat (r.take w)), pc + 1 + w) := by
  unfold decodePushdata
  simp only [slice_drop script r (pc + 1) w h]
  have : (r.take w).length = w ↔ ¬ r.length < w := by rw [List.length_take]; omega
  by_cases hw : r.length < w
  · have h2 : ¬ (r.take w).length = w := fun hh => (this.mp hh) hw
    rw [if_neg h2, if_pos hw]
  · have h2 : (r.take w).length = w := this.mpr hw
    rw [if_pos h2, if_neg hw]; simp

theorem variableHandler_eq (script r : Bytes) (pc w m : Nat) (vm : Bool) (h : script.drop (pc + 1) = r) :
    variableHandler w false m script pc vm =
      if r.length < w then .ok (pc + 2, none)
      else if (r.drop w).length < leNat (r.take w) then .ok (pc + 1 + w + 1, none)
      else if vm && (decide (leNat (r.take w) ∈ variableSizedValues) || decide (leNat (r.take w) < m)) then .error .scriptError
      else .ok (pc + 1 + w + leNat (r.take w), some ((r.drop w).take (leNat (r.take w)))) := by
  unfold variableHandler
  rw [decodePushdata_eq script r pc w h]
  by_cases hw : r.length < w
  · simp [hw]
  · simp only [hw, if_false]
    have hd : script.drop (pc + 1 + w) = r.drop w := by rw [← h, List.drop_drop]
    simp only [slice_drop script (r.drop w) (pc + 1 + w) _ hd, take_length_lt]

end Pycoin.Script

namespace Pycoin.Script
open Pycoin.Gen.Opcodes

theorem drop_facts {script : Bytes} {pc : Nat} {b : UInt8} {r : Bytes} (hd : script.drop pc = b :: r) :
    script[pc]? = some b ∧ script.drop (pc + 1) = r ∧ script.length = pc + 1 + r.length := by
  have hlen : (script.drop pc).length = r.length + 1 := by rw [hd]; simp
  rw [List.length_drop] at hlen
  have hlt : pc < script.length := by omega
  refine ⟨?_, ?_, by omega⟩
  · have := List.drop_eq_getElem_cons hlt
    rw [hd] at this
    injection this with h1 h2
    simp [List.getElem?_eq_getElem hlt, h1]
  · have : script.drop (pc + 1) = (script.drop pc).drop 1 := by rw [List.drop_drop]
    rw [this, hd]; rfl

/-- `get_opcode` when the table has no handler for the byte -/
theorem getOpcode_of_handler (script : Bytes) (pc : Nat) (vm : Bool) (b : UInt8) (r : Bytes)
    (hd : script.drop pc = b :: r) :
    getOpcode script pc vm =
      match expectedHandler b.toNat with
      | none => .ok ⟨b, none, pc + 1, true⟩
      | some h =>
        match runHandler h script pc vm with
        | .error e => .error e
        | .ok (pc', data) => .ok ⟨b, data, pc', data.isSome⟩ := by
  obtain ⟨hget, _, _⟩ := drop_facts hd
  unfold getOpcode
  rw [hget]
  simp only [decoder_eq]
  cases expectedHandler b.toNat with
  | none => rfl
  | some h =>
    simp only
    cases runHandler h script pc vm with
    | error e => rfl
    | ok p => rfl

end Pycoin.Script

namespace Pycoin.Script
open Pycoin.Gen.Opcodes

/-! ## pycoin's minimal-data tests are `CheckMinimalPush` -/

theorem sized_minimal (d : Bytes) (h1 : 1 ≤ d.length) (h75 : d.length ≤ 75) :
    decide (d ∈ sizedConstValues) = !Spec.checkMinimalPush d.length d := by
  have hmem := mem_sizedConstValues d
  by_cases h2 : 2 ≤ d.length
  · have hnone := constEncoder_long d h2
    have : ¬ d ∈ sizedConstValues := by rw [hmem, hnone]; simp
    have hne0 : ¬ d.length = 0 := by omega
    have hne1 : ¬ d.length = 1 := by omega
    simp [this, Spec.checkMinimalPush, hne0, hne1, h75]
  · obtain ⟨x, rfl⟩ : ∃ x, d = [x] := by
      match d, h1, h2 with
      | [x], _, _ => exact ⟨x, rfl⟩
      | _ :: _ :: _, _, h2 => simp at h2
    · have hx := constEncoder_one x.toNat x.toNat_lt
      simp only [UInt8.ofNat_toNat] at hx
      have hmem' : [x] ∈ sizedConstValues ↔ (expectedConst x.toNat).isSome = true := by rw [mem_sizedConstValues, hx]
      unfold expectedConst at hmem'
      simp only [Spec.checkMinimalPush, List.length_cons, List.length_nil, List.head?_cons, Option.map_some]
      by_cases ha : 1 ≤ x.toNat ∧ x.toNat ≤ 16
      · simp [ha] at hmem' ⊢; exact hmem'
      · by_cases hb : x.toNat = 0x81
        · simp [ha, hb] at hmem' ⊢; exact hmem'
        · simp [ha, hb] at hmem' ⊢; exact hmem'

theorem var_minimal (opc m : Nat) (d : Bytes)
    (h : (opc = 76 ∧ m = 1 ∧ d.length < 256) ∨ (opc = 77 ∧ m = 256 ∧ d.length < 65536) ∨ (opc = 78 ∧ m = 65536)) :
    (decide (d.length ∈ variableSizedValues) || decide (d.length < m)) = !Spec.checkMinimalPush opc d := by
  have hmem := mem_variableSizedValues d.length
  unfold Spec.checkMinimalPush
  rcases h with ⟨ho, hm, hl⟩ | ⟨ho, hm, hl⟩ | ⟨ho, hm⟩ <;> subst ho hm
  all_goals
    by_cases h0 : d.length = 0
    · have : ¬ (d.length ∈ variableSizedValues) := by rw [hmem]; omega
      simp [h0, this]
    · by_cases h75 : d.length ≤ 75
      · have hin : d.length ∈ variableSizedValues := by rw [hmem]; omega
        have : ¬ (76 = d.length) := by omega
        have : ¬ (77 = d.length) := by omega
        have : ¬ (78 = d.length) := by omega
        simp [h0, h75, hin]
        intros; omega
      · have hin : ¬ d.length ∈ variableSizedValues := by rw [hmem]; omega
        have hne1 : ¬ d.length = 1 := by omega
        by_cases h255 : d.length ≤ 255
        · simp [h0, h75, hin, hne1, h255]; try omega
        · by_cases h65535 : d.length ≤ 65535
          · simp [h0, h75, hin, hne1, h255, h65535]; try omega
          · simp [h0, h75, hin, hne1, h255, h65535]; try omega

end Pycoin.Script

namespace Pycoin.Script
open Pycoin.Gen.Opcodes

/-- where the decoder leaves `pc` after a truncated push (`pc + 1` past the point it gave up) -/
def truncPc (pc : Nat) (n : Nat) (r : Bytes) : Nat :=
  if n ≤ 75 then pc + 2
  else
    let w := if n = 76 then 1 else if n = 77 then 2 else 4
    if r.length < w then pc + 2 else pc + 1 + w + 1

/-- what Core's `GetScriptOp` + `CheckMinimalPush` say `get_opcode` must answer -/
def coreAnswer (script : Bytes) (pc : Nat) (vm : Bool) (b : UInt8) (r : Bytes) : Except Err OpResult :=
  match Spec.getScriptOp (b :: r) with
  | none => .ok ⟨b, none, truncPc pc b.toNat r, false⟩
  | some (opc, payload, rest) =>
    if vm && decide (opc ≤ 0x4e) && !Spec.checkMinimalPush opc payload then .error .scriptError
    else .ok ⟨b, Spec.pushValue opc payload, script.length - rest.length, true⟩

theorem take_len {r : Bytes} {n : Nat} (h : ¬ r.length < n) : (r.take n).length = n := by
  rw [List.length_take]; omega

theorem leNat_take_lt (r : Bytes) (w : Nat) : leNat (r.take w) < 256 ^ w := by
  have h1 := leNat_lt (r.take w)
  have h2 : (r.take w).length ≤ w := by rw [List.length_take]; omega
  exact Nat.lt_of_lt_of_le h1 (Nat.pow_le_pow_right (by decide) h2)

/-- `Spec.getScriptOp` on `b :: r`, as a function of the opcode number -/
def specOp (opcode : Nat) (r : Bytes) : Option (Nat × Bytes × Bytes) :=
  if opcode ≤ 0x4e then
    let lenField : Option (Nat × Bytes) :=
      if opcode < 0x4c then some (opcode, r)
      else if opcode = 0x4c then (if r.length < 1 then none else some (leNat (r.take 1), r.drop 1))
      else if opcode = 0x4d then (if r.length < 2 then none else some (leNat (r.take 2), r.drop 2))
      else (if r.length < 4 then none else some (leNat (r.take 4), r.drop 4))
    match lenField with
    | none => none
    | some (n, r) => if r.length < n then none else some (opcode, r.take n, r.drop n)
  else some (opcode, [], r)

theorem getScriptOp_cons (b : UInt8) (r : Bytes) : Spec.getScriptOp (b :: r) = specOp b.toNat r := rfl

/-- **`get_opcode` refines Core's `GetScriptOp` + `CheckMinimalPush`** for every script and `pc` inside it -/
theorem getOpcode_refines (script : Bytes) (pc : Nat) (vm : Bool) (b : UInt8) (r : Bytes)
    (hd : script.drop pc = b :: r) : getOpcode script pc vm = coreAnswer script pc vm b r := by
  obtain ⟨_, hr, hlen⟩ := drop_facts hd
  rw [getOpcode_of_handler script pc vm b r hd]
  unfold coreAnswer
  rw [getScriptOp_cons]
  have hb : b.toNat < 256 := b.toNat_lt
  generalize b.toNat = n at *
  unfold specOp truncPc
  by_cases h0 : n = 0
  · subst h0
    simp [expectedHandler, runHandler, Spec.checkMinimalPush, Spec.pushValue, hlen]
  by_cases h75 : n ≤ 75
  · have e1 : n ≤ 78 := by omega
    have e2 : n < 76 := by omega
    simp only [expectedHandler, h0, h75, if_false, if_true, runHandler, sizedHandler_eq script r pc n vm hr, e1, e2]
    by_cases ht : r.length < n
    · simp [ht]
    · have hl := take_len ht
      have hm := sized_minimal (r.take n) (by omega) (by omega)
      rw [hl] at hm
      simp only [ht, if_false, hm, Spec.pushValue, e1, if_true, decide_true, Bool.and_true]
      have : script.length - (r.drop n).length = pc + 1 + n := by rw [List.length_drop]; omega
      rw [this]
      cases vm <;> cases Spec.checkMinimalPush n (r.take n) <;> simp
  by_cases h76 : n = 76
  · subst h76
    rw [show expectedHandler 76 = some (.varlen 1 false 1) from rfl]
    simp only [runHandler]
    rw [variableHandler_eq script r pc 1 1 vm hr]
    by_cases hw : r.length < 1
    · simp [hw]
    · by_cases ht : (r.drop 1).length < leNat (r.take 1)
      · have ht' : r.length - 1 < leNat (r.take 1) := by simpa [List.length_drop] using ht
        simp [hw, ht']
      · have hl := take_len ht
        have hlt := leNat_take_lt r 1
        have hm := var_minimal 76 1 ((r.drop 1).take (leNat (r.take 1))) (Or.inl ⟨rfl, rfl, by rw [hl]; omega⟩)
        rw [hl] at hm
        have : script.length - ((r.drop 1).drop (leNat (r.take 1))).length = pc + 1 + 1 + leNat (r.take 1) := by
          simp only [List.length_drop] at ht ⊢; omega
        simp only [hw, ht, if_false, hm, Spec.pushValue, this]
        have ht' : ¬ r.length - 1 < leNat (r.take 1) := by simpa [List.length_drop] using ht
        have this' : script.length - (r.length - (1 + leNat (r.take 1))) = pc + 1 + 1 + leNat (r.take 1) := by omega
        cases vm <;> cases hc : Spec.checkMinimalPush 76 ((r.drop 1).take (leNat (r.take 1))) <;>
          (have hc' := hc; (try simp only [List.drop_one] at hc'); simp [ht', hc, hc']; try omega)
  by_cases h77 : n = 77
  · subst h77
    rw [show expectedHandler 77 = some (.varlen 2 false 256) from rfl]
    simp only [runHandler]
    rw [variableHandler_eq script r pc 2 256 vm hr]
    by_cases hw : r.length < 2
    · simp [hw]
    · by_cases ht : (r.drop 2).length < leNat (r.take 2)
      · have ht' : r.length - 2 < leNat (r.take 2) := by simpa [List.length_drop] using ht
        simp [hw, ht']
      · have hl := take_len ht
        have hlt := leNat_take_lt r 2
        have hm := var_minimal 77 256 ((r.drop 2).take (leNat (r.take 2))) (Or.inr (Or.inl ⟨rfl, rfl, by rw [hl]; omega⟩))
        rw [hl] at hm
        have : script.length - ((r.drop 2).drop (leNat (r.take 2))).length = pc + 1 + 2 + leNat (r.take 2) := by
          simp only [List.length_drop] at ht ⊢; omega
        simp only [hw, ht, if_false, hm, Spec.pushValue, this]
        have ht' : ¬ r.length - 2 < leNat (r.take 2) := by simpa [List.length_drop] using ht
        have this' : script.length - (r.length - (2 + leNat (r.take 2))) = pc + 1 + 2 + leNat (r.take 2) := by omega
        cases vm <;> cases hc : Spec.checkMinimalPush 77 ((r.drop 2).take (leNat (r.take 2))) <;>
          (have hc' := hc; (try simp only [List.drop_one] at hc'); simp [ht', hc, hc']; try omega)
  by_cases h78 : n = 78
  · subst h78
    rw [show expectedHandler 78 = some (.varlen 4 false 65536) from rfl]
    simp only [runHandler]
    rw [variableHandler_eq script r pc 4 65536 vm hr]
    by_cases hw : r.length < 4
    · simp [hw]
    · by_cases ht : (r.drop 4).length < leNat (r.take 4)
      · have ht' : r.length - 4 < leNat (r.take 4) := by simpa [List.length_drop] using ht
        simp [hw, ht']
      · have hl := take_len ht
        have hm := var_minimal 78 65536 ((r.drop 4).take (leNat (r.take 4))) (Or.inr (Or.inr ⟨rfl, rfl⟩))
        rw [hl] at hm
        have : script.length - ((r.drop 4).drop (leNat (r.take 4))).length = pc + 1 + 4 + leNat (r.take 4) := by
          simp only [List.length_drop] at ht ⊢; omega
        simp only [hw, ht, if_false, hm, Spec.pushValue, this]
        have ht' : ¬ r.length - 4 < leNat (r.take 4) := by simpa [List.length_drop] using ht
        have this' : script.length - (r.length - (4 + leNat (r.take 4))) = pc + 1 + 4 + leNat (r.take 4) := by omega
        cases vm <;> cases hc : Spec.checkMinimalPush 78 ((r.drop 4).take (leNat (r.take 4))) <;>
          (have hc' := hc; (try simp only [List.drop_one] at hc'); simp [ht', hc, hc']; try omega)
  have e1 : ¬ n ≤ 78 := by omega
  by_cases h79 : n = 79
  · subst h79
    simp [expectedHandler, runHandler, Spec.pushValue, hlen]
  by_cases h80 : n = 80
  · subst h80
    simp [expectedHandler, Spec.pushValue, hlen]
  by_cases h96 : n ≤ 96
  · have e2 : 81 ≤ n := by omega
    simp [expectedHandler, h0, h75, h76, h77, h78, h79, h80, h96, e1, e2, runHandler, Spec.pushValue, hlen]
  · have e2 : ¬ (81 ≤ n ∧ n ≤ 96) := by omega
    simp [expectedHandler, h0, h75, h76, h77, h78, h79, h80, h96, e1, e2, Spec.pushValue, hlen]

end Pycoin.Script
