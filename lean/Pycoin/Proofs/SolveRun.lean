import Pycoin.Proofs.SolveFetch
/-!
C05 — the symbolic run (`Solve.runStage`) on the standard templates: the constraints `determine_constraints` collects for
`DUP HASH160 <h> EQUALVERIFY CHECKSIG`, `<key> CHECKSIG`, `m <key>… n CHECKMULTISIG` (by induction on the key list) and the
constraint-free stages `OP_0 <program>`, `HASH160 <h> EQUAL`.
-/
namespace Pycoin.Solve
open Pycoin Pycoin.VM Pycoin.Gen.VM Pycoin.Sign

/-! ## table facts (re-checked against the generated tables on every build) -/

theorem lookup_data : ∀ n, n < 97 → n ≠ 80 →
    lookupList[n]? = some (.noOp, false) ∨ lookupList[n]? = some (.lambda0, false) := by decide +kernel
theorem lookup_14 : lookupList[20]? = some (.noOp, false) := by decide +kernel
theorem lookup_76 : lookupList[0x76]? = some (.stack_DUP, false) := by decide +kernel
theorem lookup_a9 : lookupList[0xa9]? = some (.stack_HASH160, false) := by decide +kernel
theorem lookup_87 : lookupList[0x87]? = some (.int_EQUAL, false) := by decide +kernel
theorem lookup_88 : lookupList[0x88]? = some (.int_EQUALVERIFY, false) := by decide +kernel
theorem lookup_ac : lookupList[0xac]? = some (.sig_CHECKSIG, false) := by decide +kernel
theorem lookup_ae : lookupList[0xae]? = some (.sig_CHECKMULTISIG, false) := by decide +kernel

theorem tweaked_data : ∀ n, n < 97 → Gen.Solve.tweaked.find? (·.1 = n) = none := by decide +kernel
theorem tweaked_76 : Gen.Solve.tweaked.find? (·.1 = 0x76) = none := by decide +kernel
theorem tweaked_a9 : Gen.Solve.tweaked.find? (·.1 = 0xa9) = some (0xa9, .hash160, 1) := by decide +kernel
theorem tweaked_87 : Gen.Solve.tweaked.find? (·.1 = 0x87) = some (0x87, .equal, 2) := by decide +kernel
theorem tweaked_88 : Gen.Solve.tweaked.find? (·.1 = 0x88) = some (0x88, .equalverify, 2) := by decide +kernel
theorem tweaked_ac : Gen.Solve.tweaked.find? (·.1 = 0xac) = some (0xac, .checksig, 0) := by decide +kernel
theorem tweaked_ae : Gen.Solve.tweaked.find? (·.1 = 0xae) = some (0xae, .checkmultisig, 0) := by decide +kernel

theorem hook_data (n : Nat) (h : n < 97) (items : List Term) : hook n items = none := by
  simp [hook, tweaked_data n h]
theorem hook_76 (items : List Term) : hook 0x76 items = none := by simp [hook, tweaked_76]
theorem hook_ac (items : List Term) : hook 0xac items = some .checksig := by simp [hook, tweaked_ac]
theorem hook_ae (items : List Term) : hook 0xae items = some .checkmultisig := by simp [hook, tweaked_ae]
theorem hook_a9_atom (t : Term) (r : List Term) (h : t.isAtom = true) : hook 0xa9 (t :: r) = some .hash160 := by
  simp [hook, tweaked_a9, h]
theorem hook_a9_atomT (a : Atom) (r : List Term) : hook 0xa9 (.atom a :: r) = some .hash160 := by
  simp [hook, tweaked_a9, Term.isAtom]
theorem hook_88_h160 (x t : Term) (r : List Term) : hook 0x88 (x :: .hash160 t :: r) = some .equalverify := by
  simp [hook, tweaked_88, Term.isAtom]
theorem hook_a9_const (b : Bytes) (r : List Term) : hook 0xa9 (.const b :: r) = none := by
  simp [hook, tweaked_a9, Term.isAtom]
theorem hook_88_atom2 (a t : Term) (r : List Term) (h : t.isAtom = true) : hook 0x88 (a :: t :: r) = some .equalverify := by
  simp [hook, tweaked_88, h]
theorem hook_87_const (a b : Bytes) (r : List Term) : hook 0x87 (.const a :: .const b :: r) = none := by
  simp [hook, tweaked_87, Term.isAtom]

theorem maxBlob : MAX_BLOB_LENGTH = 520 := rfl
theorem maxOps : (MAX_OP_COUNT : Int) = 201 := rfl
theorem maxStack : MAX_STACK_SIZE = 1000 := rfl
theorem maxScript : MAX_SCRIPT_LENGTH = 10000 := rfl

/-! ## single steps -/

theorem execAll_append (cfg : StageCfg) (a b : List Instr) (s : St) :
    execAll cfg (a ++ b) s = match execAll cfg a s with | .ok s' => execAll cfg b s' | .error e => .error e := by
  induction a generalizing s with
  | nil => rfl
  | cons i r ih =>
    simp only [List.cons_append, execAll]
    cases step cfg i s with
    | error e => rfl
    | ok s' => exact ih s'

/-- a data instruction appends its data -/
theorem step_data (cfg : StageCfg) (op : Nat) (d : Bytes) (s : St) (hop : op < 97) (hop' : op ≠ 80) (hd : d.length ≤ 520)
    (hc : s.cond.allIfTrue = true) (hsz : s.dyn.items.length + 1 + s.altstack.length ≤ 1000) (hcnt : s.opCount ≤ 201) :
    step cfg ⟨op, some d⟩ s = .ok { s with dyn := s.dyn.push (.const d) } := by
  have hnot : ¬ (d.length > MAX_BLOB_LENGTH) := by rw [maxBlob]; omega
  have hcnt' : ¬ (s.opCount > MAX_OP_COUNT) := by rw [maxOps]; omega
  have hsz' : s.dyn.items.length + 1 + s.altstack.length ≤ MAX_STACK_SIZE := by rw [maxStack]; exact hsz
  rcases lookup_data op hop hop' with hl | hl <;>
    simp [step, hnot, hl, hook_data op hop, hc, realOp, Dyn.push, hcnt', hsz']

theorem step_push (cfg : StageCfg) (d : Bytes) (s : St) (h75 : d.length ≤ 75)
    (hc : s.cond.allIfTrue = true) (hsz : s.dyn.items.length + 1 + s.altstack.length ≤ 1000) (hcnt : s.opCount ≤ 201) :
    step cfg (pushInstr d) s = .ok { s with dyn := s.dyn.push (.const d) } :=
  step_data cfg d.length d s (by omega) (by omega) (by omega) hc hsz hcnt

theorem step_count (cfg : StageCfg) (k : Nat) (s : St) (hk1 : 1 ≤ k) (hk : k ≤ 20)
    (hc : s.cond.allIfTrue = true) (hsz : s.dyn.items.length + 1 + s.altstack.length ≤ 1000) (hcnt : s.opCount ≤ 201) :
    step cfg (countInstr k) s = .ok { s with dyn := s.dyn.push (.const [UInt8.ofNat k]) } := by
  unfold countInstr
  split
  · exact step_data cfg _ _ s (by omega) (by omega) (by simp) hc hsz hcnt
  · exact step_data cfg _ _ s (by omega) (by omega) (by simp) hc hsz hcnt

/-- an opcode the traceback hook swaps for its symbolic version -/
theorem step_sym (cfg : StageCfg) (op : Nat) (s s' : St) (f : Gen.Solve.SymOp) (hdl : Handler × Bool)
    (hl : lookupList[op]? = some hdl) (hh : hook op s.dyn.items = some f) (hc : s.cond.allIfTrue = true)
    (hr : runSym cfg f { s with opCount := s.opCount + 1 } = .ok s')
    (hcnt : s'.opCount ≤ 201) (hsz : s'.dyn.items.length + s'.altstack.length ≤ 1000) :
    step cfg ⟨op, none⟩ s = .ok s' := by
  have hcnt' : ¬ (s'.opCount > MAX_OP_COUNT) := by rw [maxOps]; omega
  have hsz' : ¬ (s'.dyn.items.length + s'.altstack.length > MAX_STACK_SIZE) := by rw [maxStack]; omega
  obtain ⟨h, oc⟩ := hdl
  simp [step, hl, hh, hc, hr, hcnt', hsz']

/-- an opcode the hook leaves to the real function -/
theorem step_real (cfg : StageCfg) (op : Nat) (s s' : St) (h : Handler) (oc : Bool)
    (hl : lookupList[op]? = some (h, oc)) (hh : hook op s.dyn.items = none) (hc : s.cond.allIfTrue = true)
    (hr : realOp cfg h { s with opCount := s.opCount + 1 } = .ok s')
    (hcnt : s'.opCount ≤ 201) (hsz : s'.dyn.items.length + s'.altstack.length ≤ 1000) :
    step cfg ⟨op, none⟩ s = .ok s' := by
  have hcnt' : ¬ (s'.opCount > MAX_OP_COUNT) := by rw [maxOps]; omega
  have hsz' : ¬ (s'.dyn.items.length + s'.altstack.length > MAX_STACK_SIZE) := by rw [maxStack]; omega
  simp [step, hl, hh, hc, hr, hcnt', hsz']

/-- a run of direct pushes -/
theorem execAll_pushes (cfg : StageCfg) : ∀ (items : List Bytes) (s : St), (∀ d ∈ items, d.length ≤ 75) →
    s.cond.allIfTrue = true → s.dyn.items.length + items.length + s.altstack.length ≤ 1000 → s.opCount ≤ 201 →
    execAll cfg (items.map pushInstr) s =
      .ok { s with dyn := { s.dyn with items := items.reverse.map Term.const ++ s.dyn.items } } := by
  intro items
  induction items with
  | nil => intro s _ _ _ _; rfl
  | cons d r ih =>
    intro s hall hc hsz hcnt
    have hsz1 : s.dyn.items.length + 1 + s.altstack.length ≤ 1000 := by
      simp only [List.length_cons] at hsz; omega
    simp only [List.map_cons, execAll]
    rw [step_push cfg d s (hall d (by simp)) hc hsz1 hcnt]
    simp only
    have := ih { s with dyn := s.dyn.push (.const d) } (fun x hx => hall x (List.mem_cons_of_mem _ hx)) hc
      (by simp only [Dyn.push, List.length_cons] at hsz ⊢; omega) hcnt
    rw [this]
    simp [Dyn.push]

/-! ## `Dyn.popEach` -/

/-- the atoms a `DynamicStack` invents from count `c` on -/
def freshAtoms (isW : Bool) (c n : Nat) : List Atom := (List.range' c n).map (Atom.mk isW)

theorem popEach_empty (isW : Bool) : ∀ (n c : Nat),
    Dyn.popEach n ⟨[], c, isW⟩ = ((freshAtoms isW c n).map Term.atom, ⟨[], c + n, isW⟩) := by
  intro n
  induction n with
  | zero => intro c; simp [Dyn.popEach, freshAtoms]
  | succ k ih =>
    intro c
    simp only [Dyn.popEach, Dyn.pop]
    rw [ih (c + 1)]
    simp [freshAtoms, List.range'_succ, Nat.add_assoc, Nat.add_comm 1 k]

theorem popEach_consts (isW : Bool) (c : Nat) : ∀ (l : List Term) (rest : List Term),
    Dyn.popEach l.length ⟨l ++ rest, c, isW⟩ = (l, ⟨rest, c, isW⟩) := by
  intro l
  induction l with
  | nil => intro rest; simp [Dyn.popEach]
  | cons t r ih =>
    intro rest
    simp only [List.length_cons, Dyn.popEach, List.cons_append, Dyn.pop]
    rw [ih rest]

theorem intOf_count : ∀ k, k ≤ 20 → intOf (.const [UInt8.ofNat k]) = (k : Int) := by decide +kernel

theorem allLeaves_consts (l : List Bytes) : allLeaves (l.map Term.const) = some (l.map Leaf.const) := by
  induction l with
  | nil => rfl
  | cons a r ih =>
    simp only [allLeaves, List.map_cons, List.mapM_cons, Term.leaf?] at ih ⊢
    rw [ih]; rfl

theorem allLeaves_atoms (l : List Atom) : allLeaves (l.map Term.atom) = some (l.map Leaf.atom) := by
  induction l with
  | nil => rfl
  | cons a r ih =>
    simp only [allLeaves, List.map_cons, List.mapM_cons, Term.leaf?] at ih ⊢
    rw [ih]; rfl

/-! ## the three base templates -/

/-- the constraints of `DUP HASH160 <h> EQUALVERIFY CHECKSIG` when the key is `k` and the signature `g` -/
def p2pkhConstraints (h : Bytes) (k g : Atom) (wit : Bool) : List Term :=
  [.equal (.const h) (.hash160 (.atom k)), .isPubkey (.atom k), .isSignature (.atom g),
   .sigsCorrect [.atom k] [.atom g] wit (p2pkhScript h)]

theorem cond_empty : ({} : CondStack).allIfTrue = true := rfl
theorem cond_final : ({} : CondStack).checkFinalState = .ok () := rfl

theorem p2pkh_length (h : Bytes) (hlen : h.length = 20) : (p2pkhScript h).length = 25 := by simp [p2pkhScript, hlen]

/-- P2PKH on an empty dynamic stack: the key is the first invented atom, the signature the second -/
theorem runStage_p2pkh_empty (h : Bytes) (hlen : h.length = 20) (flags : Nat) (wit : Bool) (ctx : TxCtx) (r : Nat) (isW : Bool)
    (cons : List Term) :
    runStage ⟨p2pkhScript h, flags, wit, ctx⟩ r isW [] cons =
      .ok (cons ++ p2pkhConstraints h (Atom.mk isW r) (Atom.mk isW (r + 1)) wit) := by
  have hl := p2pkh_length h hlen
  have hnot : ¬ ((p2pkhScript h).length > MAX_SCRIPT_LENGTH) := by rw [hl, maxScript]; omega
  simp only [runStage, hnot, if_false, fetch_p2pkh h hlen, List.reverse_nil]
  have hb : ¬ (h.length > MAX_BLOB_LENGTH) := by rw [maxBlob]; omega
  have hm : ¬ ((1 : Int) > MAX_OP_COUNT) := by rw [maxOps]; omega
  simp [execAll, step, pushInstr, lookup_76, lookup_a9, lookup_88, lookup_ac, lookup_14, hook_76, hook_ac, hook_a9_atomT, hook_88_h160,
    hook_data, hlen, cond_empty, realOp, runSym, Dyn.top, Dyn.fill, Dyn.push, Dyn.pop, Term.isAtom, Term.leaf?, maxBlob, maxOps,
    maxStack, CondStack.allIfTrue, CondStack.checkFinalState, p2pkhConstraints]

/-- P2PKH on the witness stack `[w_1, w_0]` (P2WPKH): the key is `w_0`, the signature `w_1` -/
theorem runStage_p2pkh_witness (h : Bytes) (hlen : h.length = 20) (flags : Nat) (wit : Bool) (ctx : TxCtx) (r : Nat) (isW : Bool)
    (cons : List Term) :
    runStage ⟨p2pkhScript h, flags, wit, ctx⟩ r isW [.atom (.w 1), .atom (.w 0)] cons =
      .ok (cons ++ p2pkhConstraints h (.w 0) (.w 1) wit) := by
  have hl := p2pkh_length h hlen
  have hnot : ¬ ((p2pkhScript h).length > MAX_SCRIPT_LENGTH) := by rw [hl, maxScript]; omega
  simp only [runStage, hnot, if_false, fetch_p2pkh h hlen]
  simp [execAll, step, pushInstr, lookup_76, lookup_a9, lookup_88, lookup_ac, lookup_14, hook_76, hook_ac, hook_a9_atomT, hook_88_h160,
    hook_data, hlen, cond_empty, realOp, runSym, Dyn.top, Dyn.fill, Dyn.push, Dyn.pop, Term.isAtom, Term.leaf?, maxBlob, maxOps,
    maxStack, CondStack.allIfTrue, CondStack.checkFinalState, p2pkhConstraints]

/-- the constraints of `<key> CHECKSIG` -/
def p2pkConstraints (key : Bytes) (g : Atom) (wit : Bool) : List Term :=
  [.isPubkey (.const key), .isSignature (.atom g), .sigsCorrect [.const key] [.atom g] wit (p2pkScript key)]

theorem runStage_p2pk (key : Bytes) (h1 : 1 ≤ key.length) (h75 : key.length ≤ 75) (flags : Nat) (wit : Bool) (ctx : TxCtx)
    (r : Nat) (isW : Bool) (cons : List Term) :
    runStage ⟨p2pkScript key, flags, wit, ctx⟩ r isW [] cons = .ok (cons ++ p2pkConstraints key (Atom.mk isW r) wit) := by
  have hl : (p2pkScript key).length = 2 + key.length := by simp [p2pkScript, directPush]; omega
  have hnot : ¬ ((p2pkScript key).length > MAX_SCRIPT_LENGTH) := by rw [hl, maxScript]; omega
  simp only [runStage, hnot, if_false, fetch_p2pk key h1 h75, List.reverse_nil, execAll]
  rw [step_push _ key _ h75 cond_empty (by simp) (by simp)]
  simp [step, lookup_ac, hook_ac, cond_empty, runSym, Dyn.top, Dyn.fill, Dyn.push, Dyn.pop, Term.isAtom, Term.leaf?, maxOps,
    maxStack, CondStack.allIfTrue, CondStack.checkFinalState, p2pkConstraints]

/-- the constraints of `m <key>… n CHECKMULTISIG`: the keys last first, `m` fresh signature atoms, the dummy -/
def multisigConstraints (m : Nat) (keys : List Bytes) (isW : Bool) (r : Nat) (wit : Bool) : List Term :=
  keys.reverse.map (fun k => .isPubkey (.const k)) ++ (freshAtoms isW r m).map (fun a => .isSignature (.atom a)) ++
    [.equal (.atom (Atom.mk isW (r + m))) (.const []),
     .sigsCorrect (keys.reverse.map Leaf.const) ((freshAtoms isW r m).map Leaf.atom) wit (multisigScriptN m keys)]

theorem multisig_length_le (m : Nat) (keys : List Bytes) (hn : keys.length ≤ 20) (hkeys : ∀ k ∈ keys, k.length ≤ 75) :
    (multisigScriptN m keys).length ≤ 1525 := by
  have := multisigScriptN_length_le m keys hkeys
  omega

theorem runStage_multisig (m : Nat) (keys : List Bytes) (hm1 : 1 ≤ m) (hmn : m ≤ keys.length) (hn : keys.length ≤ 20)
    (hkeys : ∀ k ∈ keys, 1 ≤ k.length ∧ k.length ≤ 75) (flags : Nat) (wit : Bool) (ctx : TxCtx) (r : Nat) (isW : Bool)
    (cons : List Term) :
    runStage ⟨multisigScriptN m keys, flags, wit, ctx⟩ r isW [] cons = .ok (cons ++ multisigConstraints m keys isW r wit) := by
  have hl := multisig_length_le m keys hn (fun k hk => (hkeys k hk).2)
  have hnot : ¬ ((multisigScriptN m keys).length > MAX_SCRIPT_LENGTH) := by rw [maxScript]; omega
  simp only [runStage, hnot, if_false, fetch_multisig m keys hm1 (by omega) (by omega) hn hkeys, List.reverse_nil, execAll]
  rw [step_count _ m _ hm1 (by omega) cond_empty (by simp) (by simp)]
  simp only
  rw [execAll_append, execAll_pushes _ keys _ (fun d hd => (hkeys d hd).2) cond_empty (by simp [Dyn.push]; omega) (by simp)]
  simp only [execAll]
  rw [step_count _ keys.length _ (by omega) hn cond_empty (by simp [Dyn.push]; omega) (by simp)]
  -- OP_CHECKMULTISIG on  n, key_n … key_1, m
  have hkc : (intOf (.const [UInt8.ofNat keys.length])).toNat = (keys.reverse.map Term.const).length := by
    rw [intOf_count _ hn]; simp
  have hsc : (intOf (.const [UInt8.ofNat m])).toNat = m := by rw [intOf_count _ (by omega)]; simp
  simp only [Dyn.push]
  rw [step_sym _ 0xae _
    { dyn := ⟨[.sigsCorrect (keys.reverse.map Leaf.const) ((freshAtoms isW r m).map Leaf.atom) wit (multisigScriptN m keys)],
              r + m + 1, isW⟩,
      opCount := 1, cons := cons ++ (keys.reverse.map (fun k => .isPubkey (.const k)) ++
        (freshAtoms isW r m).map (fun a => .isSignature (.atom a)) ++ [.equal (.atom (Atom.mk isW (r + m))) (.const [])]) }
    .checkmultisig _ lookup_ae (hook_ae _) cond_empty ?_ (by simp) (by simp)]
  · simp [Dyn.top, Term.isAtom, CondStack.checkFinalState, multisigConstraints]
  · simp only [runSym, Dyn.pop]
    rw [hkc, popEach_consts]
    simp only [Dyn.pop, hsc, popEach_empty, allLeaves_consts, allLeaves_atoms, Dyn.push]
    simp [List.map_map, Function.comp_def, Nat.add_assoc]

/-! ## stages that produce no constraint -/

/-- `OP_0 <program>` (the witness program itself, run as a script) -/
theorem runStage_witnessV0 (prog : Bytes) (h1 : 1 ≤ prog.length) (h75 : prog.length ≤ 75) (flags : Nat) (wit : Bool) (ctx : TxCtx)
    (r : Nat) (isW : Bool) (cons : List Term) :
    runStage ⟨witnessV0Script prog, flags, wit, ctx⟩ r isW [] cons = .ok cons := by
  have hl : (witnessV0Script prog).length = 2 + prog.length := by simp [witnessV0Script, directPush]; omega
  have hnot : ¬ ((witnessV0Script prog).length > MAX_SCRIPT_LENGTH) := by rw [hl, maxScript]; omega
  simp only [runStage, hnot, if_false, fetch_witnessV0 prog h1 h75, List.reverse_nil, execAll]
  rw [step_data _ 0 [] _ (by omega) (by omega) (by simp) cond_empty (by simp) (by simp)]
  simp only
  rw [step_push _ prog _ h75 cond_empty (by simp [Dyn.push]) (by simp)]
  simp [Dyn.top, Dyn.push, Term.isAtom, CondStack.checkFinalState]

/-- `HASH160 <h> EQUAL` on the pushed redeem script: real opcodes on constants -/
theorem runStage_p2sh (h u : Bytes) (hlen : h.length = 20) (flags : Nat) (wit : Bool) (ctx : TxCtx) (r : Nat) (isW : Bool)
    (cons : List Term) :
    runStage ⟨p2shScript h, flags, wit, ctx⟩ r isW [.const u] cons = .ok cons := by
  have hl : (p2shScript h).length = 23 := by simp [p2shScript, directPush, hlen]
  have hnot : ¬ ((p2shScript h).length > MAX_SCRIPT_LENGTH) := by rw [hl, maxScript]; omega
  simp only [runStage, hnot, if_false, fetch_p2sh h hlen]
  simp [execAll, step, pushInstr, lookup_a9, lookup_87, lookup_14, hook_a9_const, hook_87_const, hook_data, hlen, cond_empty, realOp,
    Dyn.top, Dyn.push, Dyn.pop, Term.isAtom, maxBlob, maxOps, maxStack, CondStack.allIfTrue, CondStack.checkFinalState]

end Pycoin.Solve
