import Pycoin.Proofs.SignWrapAll
import Pycoin.Proofs.SignReject
/-!
C05 — the consensus verdict on a partially signed m-of-n input in state `sgn`, for each wrapper: accepted when `m` keys have
signed (each signature verifying for its own key), rejected while a placeholder is there (verifying for no listed key).
-/
namespace Pycoin.Sign
open Pycoin Pycoin.Spec.Consensus

/-- the signature variables of state `sgn`, top of stack first: placeholders, then the signatures by key index -/
def stateSigs (n m : Nat) (sg : Nat → Bytes) (ph : Bytes) (sgn : Nat → Bool) : List Bytes :=
  List.replicate (m - card n sgn) ph ++ (signedList n sgn).map sg

theorem stateItems_eq (n m : Nat) (sg : Nat → Bytes) (ph : Bytes) (sgn : Nat → Bool) :
    stateItems n m sg ph sgn = (stateSigs n m sg ph sgn).map some := by
  simp [stateItems, stateSigs]

/-- the solved stack items of state `sgn`, bottom first: the dummy, then the signature variables -/
def stateSolved (n m : Nat) (sg : Nat → Bytes) (ph : Bytes) (sgn : Nat → Bool) : List Bytes :=
  [] :: (stateSigs n m sg ph sgn).reverse

theorem stateSolved_eq (n m : Nat) (sg : Nat → Bytes) (ph : Bytes) (sgn : Nat → Bool) :
    (some ([] : Bytes) :: (stateItems n m sg ph sgn).reverse).filterMap id = stateSolved n m sg ph sgn := by
  simp [stateItems_eq, stateSolved, List.filterMap_map, ← List.map_reverse]

theorem stateSolved_map_some (n m : Nat) (sg : Nat → Bytes) (ph : Bytes) (sgn : Nat → Bool) :
    (stateSolved n m sg ph sgn).map some = some [] :: (stateItems n m sg ph sgn).reverse := by
  simp [stateSolved, stateItems_eq, List.map_reverse]

theorem stateSigs_full (n m : Nat) (sg : Nat → Bytes) (ph : Bytes) (sgn : Nat → Bool) (h : card n sgn = m) :
    stateSigs n m sg ph sgn = (signedList n sgn).map sg := by
  unfold stateSigs; rw [h, Nat.sub_self]; rfl

theorem stateSigs_length (n m : Nat) (sg : Nat → Bytes) (ph : Bytes) (sgn : Nat → Bool) (h : card n sgn ≤ m) :
    (stateSigs n m sg ph sgn).length = m := by
  simp [stateSigs, card] at *; omega

variable (chk : PChk) (w : Wrap) (m : Nat) (keys : List Bytes) (sg : Nat → Bytes) (ph : Bytes) (sgn : Nat → Bool)
  (flags : Flags) (tx : TxCtx)

/-- sizes of what is pushed -/
def SizesOk (keys : List Bytes) (sg : Nat → Bytes) (ph : Bytes) : Prop :=
  (∀ k ∈ keys, 2 ≤ k.length ∧ k.length ≤ 75) ∧ (∀ i, i < keys.reverse.length → 2 ≤ (sg i).length ∧ (sg i).length ≤ 75) ∧
    2 ≤ ph.length ∧ ph.length ≤ 75

theorem stateSolved_items (hs : SizesOk keys sg ph) :
    (∀ d ∈ stateSolved keys.reverse.length m sg ph sgn, d.length = 0 ∨ (2 ≤ d.length ∧ d.length ≤ 75)) := by
  intro d hd
  unfold stateSolved stateSigs at hd
  rcases List.mem_cons.mp hd with h | h
  · left; rw [h]; rfl
  · right
    rcases List.mem_append.mp (List.mem_reverse.mp h) with h | h
    · rw [(List.mem_replicate.mp h).2]; exact hs.2.2
    · obtain ⟨i, hi, rfl⟩ := List.mem_map.mp h; exact hs.2.1 i (mem_signedList.mp hi).1

/-- **`m` keys have signed ⇒ accepted**, whatever the wrapper -/
theorem state_accept (ok : w.Ok (multisigScriptN m keys) flags)
    (hm1 : 1 ≤ m) (hmn : m ≤ keys.length) (hn : keys.length ≤ 20) (hs : SizesOk keys sg ph)
    (hfull : card keys.reverse.length sgn = m)
    (hse : ∀ i, i < keys.reverse.length → sgn i = true → checkSignatureEncoding (sg i) flags = none)
    (hke : ∀ k ∈ keys, checkPubKeyEncoding k flags w.sv = none)
    (hown : ∀ i k, keys.reverse[i]? = some k → sgn i = true →
      chk (sg i) k (scriptCodeFor ⟨multisigScriptN m keys, flags, w.sv, tx⟩ ⟨[], [], [], 0, 0⟩
        (stateSigs keys.reverse.length m sg ph sgn)) w.sv = true) :
    verifyScript chk (w.scriptSig (multisigScriptN m keys) (stateSolved keys.reverse.length m sg ph sgn))
      (w.spk (multisigScriptN m keys)) (w.wit (multisigScriptN m keys) (stateSolved keys.reverse.length m sg ph sgn))
      flags tx = none := by
  have hemb0 := embeds_signedList chk (scriptCodeFor ⟨multisigScriptN m keys, flags, w.sv, tx⟩ ⟨[], [], [], 0, 0⟩
        (stateSigs keys.reverse.length m sg ph sgn)) w.sv sg sgn keys.reverse hown
  have hit := stateSolved_items m keys sg ph sgn hs
  have hs1 := hs.1
  clear hs
  generalize hnK : keys.reverse.length = n at *
  have hlen := stateSigs_length n m sg ph sgn (by omega)
  rw [verifyScript_wrap_eq chk w _ _ flags tx ok hit
    (by simp only [stateSolved, List.length_cons, List.length_reverse, hlen]; omega)]
  have hrev : (stateSolved n m sg ph sgn).reverse = stateSigs n m sg ph sgn ++ [[]] := by
    simp [stateSolved]
  have hsigs : stateSigs n m sg ph sgn = (signedList n sgn).map sg := by
    simp [stateSigs, hfull]
  rw [hrev, evalScript_multisigN chk m keys _ flags tx w.sv hlen hm1 hmn hn hs1]
  · exact w.verdict_true flags
  · apply multisigLoop_accepts chk flags w.sv _ keys.reverse
    · rw [hsigs] at hemb0 ⊢
      exact hemb0
    · intro s hs'
      rw [hsigs] at hs'
      obtain ⟨i, hi, rfl⟩ := List.mem_map.mp hs'
      exact hse i (mem_signedList.mp hi).1 (mem_signedList.mp hi).2
    · intro k hk; exact hke k (List.mem_reverse.mp hk)

/-- **a blob among the signature variables that verifies for no listed key ⇒ rejected**, whatever else is there -/
theorem state_reject_of_bad (ok : w.Ok (multisigScriptN m keys) flags)
    (hm1 : 1 ≤ m) (hmn : m ≤ keys.length) (hn : keys.length ≤ 20) (hs : SizesOk keys sg ph)
    (hle : card keys.reverse.length sgn ≤ m)
    (hbad : ∃ s ∈ stateSigs keys.reverse.length m sg ph sgn, ∀ k ∈ keys,
      chk s k (scriptCodeFor ⟨multisigScriptN m keys, flags, w.sv, tx⟩ ⟨[], [], [], 0, 0⟩
        (stateSigs keys.reverse.length m sg ph sgn)) w.sv = false) :
    verifyScript chk (w.scriptSig (multisigScriptN m keys) (stateSolved keys.reverse.length m sg ph sgn))
      (w.spk (multisigScriptN m keys)) (w.wit (multisigScriptN m keys) (stateSolved keys.reverse.length m sg ph sgn))
      flags tx ≠ none := by
  have hit := stateSolved_items m keys sg ph sgn hs
  have hs1 := hs.1
  clear hs
  generalize hnK : keys.reverse.length = n at *
  have hlen := stateSigs_length n m sg ph sgn hle
  rw [verifyScript_wrap_eq chk w _ _ flags tx ok hit
    (by simp only [stateSolved, List.length_cons, List.length_reverse, hlen]; omega)]
  have hrev : (stateSolved n m sg ph sgn).reverse = stateSigs n m sg ph sgn ++ [[]] := by
    simp [stateSolved]
  rw [hrev]
  apply w.verdict_ne_none flags (rest := [])
  exact evalScript_multisigN_bad chk m keys _ flags tx w.sv hlen hm1 hmn hn hs1 hbad

/-- **fewer than `m` ⇒ rejected**: a placeholder is there, and it verifies for no listed key -/
theorem state_reject (ok : w.Ok (multisigScriptN m keys) flags)
    (hm1 : 1 ≤ m) (hmn : m ≤ keys.length) (hn : keys.length ≤ 20) (hs : SizesOk keys sg ph)
    (hfew : card keys.reverse.length sgn < m)
    (hph : ∀ k ∈ keys, chk ph k (scriptCodeFor ⟨multisigScriptN m keys, flags, w.sv, tx⟩ ⟨[], [], [], 0, 0⟩
        (stateSigs keys.reverse.length m sg ph sgn)) w.sv = false) :
    verifyScript chk (w.scriptSig (multisigScriptN m keys) (stateSolved keys.reverse.length m sg ph sgn))
      (w.spk (multisigScriptN m keys)) (w.wit (multisigScriptN m keys) (stateSolved keys.reverse.length m sg ph sgn))
      flags tx ≠ none := by
  apply state_reject_of_bad chk w m keys sg ph sgn flags tx ok hm1 hmn hn hs (by omega)
  refine ⟨ph, ?_, hph⟩
  unfold stateSigs
  apply List.mem_append_left
  rw [List.mem_replicate]
  exact ⟨by omega, rfl⟩

theorem stateSolved_congr (n m : Nat) (sg : Nat → Bytes) (ph : Bytes) {a b : Nat → Bool}
    (h : signedList n a = signedList n b) : stateSolved n m sg ph a = stateSolved n m sg ph b := by
  unfold stateSolved stateSigs card
  rw [h]

end Pycoin.Sign
