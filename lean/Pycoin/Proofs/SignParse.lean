import Pycoin.Proofs.SignDer
/-!
C05 — pycoin's lax DER reader (`sigdecode_der_lax`, `parse_signature_blob`) reads back what `sigencode_der` writes: the
signatures of earlier passes are parsed as the `(r, s)` they were made from, with their hash type.
-/
namespace Pycoin.Sign
open Pycoin

theorem laxInteger_body (B rest : Bytes) (hB : B.length ≤ 33) :
    laxInteger (0x02 :: UInt8.ofNat B.length :: (B ++ rest)) = some (B, rest) := by
  have t : (UInt8.ofNat B.length).toNat = B.length := by simp [UInt8.toNat_ofNat']; omega
  have h0 : B.length &&& 0x80 = 0 := and128_eq_zero (by omega)
  simp [laxInteger, t, h0]

theorem sigdecodeDerLax_sigLayout (R S : Bytes) (hR : R.length ≤ 33) (hS : S.length ≤ 33) :
    sigdecodeDerLax (sigLayout R S) = some (beNat R, beNat S) := by
  have t : (UInt8.ofNat (4 + R.length + S.length)).toNat = 4 + R.length + S.length := by
    simp [UInt8.toNat_ofNat']; omega
  have h0 : (4 + R.length + S.length) &&& 0x80 = 0 := and128_eq_zero (by omega)
  have e : (0x02 : UInt8) :: UInt8.ofNat S.length :: S = 0x02 :: UInt8.ofNat S.length :: (S ++ []) := by simp
  unfold sigLayout sigdecodeDerLax
  simp only [t, h0]
  simp only [ne_eq, not_true_eq_false, if_false]
  rw [laxInteger_body R _ hR]
  simp only []
  rw [e, laxInteger_body S [] hS]

/-- **`parse_signature_blob` reads the signer's own signatures back**: for `r, s` in `[1, 2^256)` and a one-byte hash type -/
theorem parseSignatureBlob_binarySignature {r s : Nat} {ht : Nat} {sig : Bytes} (hr : 1 ≤ r) (hr' : r < 2 ^ 256) (hs : 1 ≤ s)
    (hs' : s < 2 ^ 256) (h : binarySignature (r : Int) (s : Int) ht = .ok sig) :
    parseSignatureBlob sig = some ((r, s), ht) := by
  obtain ⟨_, hR, hbR, _⟩ := derBody_props hr hr'
  obtain ⟨_, hS, hbS, _⟩ := derBody_props hs hs'
  unfold binarySignature at h
  rw [sigencodeDer_eq hr hr' hs hs'] at h
  simp only [] at h
  split at h
  · cases h
  · rename_i hht
    cases h
    have hto : (UInt8.ofNat ht).toNat = ht := by simp [UInt8.toNat_ofNat']; omega
    unfold parseSignatureBlob
    have hl : (sigLayout (derBody r) (derBody s) ++ [UInt8.ofNat ht]).getLast? = some (UInt8.ofNat ht) := by simp
    rw [hl, List.dropLast_concat]
    simp only []
    rw [sigdecodeDerLax_sigLayout _ _ hR hS, hbR, hbS, hto]

end Pycoin.Sign
