import Pycoin.Proofs.BIP32Basic
import Pycoin.Proofs.Bytes
/-!
C09 helper lemmas (core Lean only): the 78-byte layout; serialize/deserialize round trip of a private node.
-/
namespace Pycoin.BIP32
open Pycoin

theorem slice_eq (pre mid post : Bytes) (i j : Nat) (hi : pre.length = i) (hj : mid.length = j - i) :
    slice (pre ++ (mid ++ post)) i j = mid := by
  unfold slice
  rw [List.drop_left' hi, List.take_left' hj]

/-- the 78-byte layout: 4 version bytes, depth, fingerprint, child number, chain code, 33 bytes of key data -/
theorem layout (ver fp idx cc tail : Bytes) (d : UInt8) (h1 : ver.length = 4) (h2 : fp.length = 4)
    (h3 : idx.length = 4) (h4 : cc.length = 32) :
    slice (ver ++ (d :: (fp ++ idx ++ cc) ++ tail)) 5 13 = fp ++ idx ∧
    slice (ver ++ (d :: (fp ++ idx ++ cc) ++ tail)) 5 9 = fp ∧
    slice (ver ++ (d :: (fp ++ idx ++ cc) ++ tail)) 9 13 = idx ∧
    slice (ver ++ (d :: (fp ++ idx ++ cc) ++ tail)) 13 45 = cc ∧
    slice (ver ++ (d :: (fp ++ idx ++ cc) ++ tail)) 4 5 = [d] ∧
    (ver ++ (d :: (fp ++ idx ++ cc) ++ tail)).drop 45 = tail := by
  refine ⟨?_, ?_, ?_, ?_, ?_, ?_⟩
  · have : ver ++ (d :: (fp ++ idx ++ cc) ++ tail) = (ver ++ [d]) ++ ((fp ++ idx) ++ (cc ++ tail)) := by simp
    rw [this]; exact slice_eq _ _ _ 5 13 (by simp [h1]) (by simp [h2, h3])
  · have : ver ++ (d :: (fp ++ idx ++ cc) ++ tail) = (ver ++ [d]) ++ (fp ++ (idx ++ cc ++ tail)) := by simp
    rw [this]; exact slice_eq _ _ _ 5 9 (by simp [h1]) (by simp [h2])
  · have : ver ++ (d :: (fp ++ idx ++ cc) ++ tail) = (ver ++ [d] ++ fp) ++ (idx ++ (cc ++ tail)) := by simp
    rw [this]; exact slice_eq _ _ _ 9 13 (by simp [h1, h2]) (by simp [h3])
  · have : ver ++ (d :: (fp ++ idx ++ cc) ++ tail) = (ver ++ [d] ++ fp ++ idx) ++ (cc ++ tail) := by simp
    rw [this]; exact slice_eq _ _ _ 13 45 (by simp [h1, h2, h3]) (by simp [h4])
  · have : ver ++ (d :: (fp ++ idx ++ cc) ++ tail) = ver ++ ([d] ++ (fp ++ idx ++ cc ++ tail)) := by simp
    rw [this]; exact slice_eq _ _ _ 4 5 h1 (by simp)
  · have : ver ++ (d :: (fp ++ idx ++ cc) ++ tail) = (ver ++ [d] ++ fp ++ idx ++ cc) ++ tail := by simp
    rw [this]; exact List.drop_left' (by simp [h1, h2, h3, h4])

theorem packL_ok {i : Nat} (h : i < 2 ^ 32) : packL (i : Int) = .ok (beBytes i 4) := by
  unfold packL
  have : ¬ ((i : Int) < 0 ∨ (i : Int) ≥ 2 ^ 32) := by
    have : (i : Int) < 2 ^ 32 := by exact_mod_cast h
    omega
  rw [if_neg this, Int.toNat_natCast]

theorem toBytes32_ok {v : Int} (h0 : 0 ≤ v) (h1 : v < 2 ^ 256) : toBytes32 v = .ok (beBytes v.toNat 32) := by
  unfold toBytes32
  rw [if_neg (by omega)]

theorem ofNat_toNat_of_le {d : Nat} (h : d ≤ 255) : (UInt8.ofNat d).toNat = d := by
  rw [UInt8.toNat_ofNat']; omega

/-- **serialize_rt, private form.** A constructed private node with depth ≤ 255 and child number < 2³² serialises
(with `as_private=True` or `None`) to 74 bytes, and `deserialize` of any 4 version bytes followed by them is the node
itself — every field, including the exponent. -/
theorem serialize_rt_private (g : Gen) (n : Node) (se : Int) (hv : n.Valid g) (hse : n.secretExponent = some se)
    (hd : n.depth ≤ 255) (hi : n.childIndex < 2 ^ 32) (hn : g.c.n ≤ 2 ^ 256) (ver : Bytes) (hver : ver.length = 4)
    (p : Option Bool) (hp : p = some true ∨ p = none) :
    ∃ blob, n.serialize p = .ok blob ∧ blob.length = 74 ∧
      blob = UInt8.ofNat n.depth :: (n.parentFingerprint ++ beBytes n.childIndex 4 ++ n.chainCode) ++
        (0 :: beBytes se.toNat 32) ∧
      deserialize g n.kind (ver ++ blob) = .ok n := by
  have hv' := hv
  unfold Node.Valid at hv'
  rw [hse] at hv'
  obtain ⟨-, -, -, -, -, l1, l2, hk⟩ := mkNode_ok hv'
  obtain ⟨-, s1, s2, -, -⟩ := keyInit_priv_ok hk
  have hse256 : se < 2 ^ 256 := by
    have : (g.c.n : Int) ≤ 2 ^ 256 := by exact_mod_cast hn
    omega
  have hpriv : p.getD n.secretExponent.isSome = true := by
    rcases hp with rfl | rfl <;> simp [hse]
  refine ⟨_, ?_, ?_, rfl, ?_⟩
  · unfold Node.serialize
    simp only [hse, Option.isNone_some, Bool.false_eq_true, false_and, if_false]
    rw [if_neg (by omega), packL_ok hi]
    simp only [toBytes32_ok (by omega : (0 : Int) ≤ se) hse256]
    rw [hse] at hpriv
    rw [if_pos hpriv]
  · simp [l1, l2]
  · obtain ⟨a1, a2, a3, a4, a5, a6⟩ := layout ver n.parentFingerprint (beBytes n.childIndex 4) n.chainCode
      (0 :: beBytes se.toNat 32) (UInt8.ofNat n.depth) hver l2 (by simp) l1
    unfold deserialize
    rw [a1, a2, a3, a4, a5]
    have h8 : ¬ (n.parentFingerprint ++ beBytes n.childIndex 4).length ≠ 8 := by simp [l2]
    rw [if_neg h8]
    simp only
    have h45 : slice (ver ++ (UInt8.ofNat n.depth :: (n.parentFingerprint ++ beBytes n.childIndex 4 ++ n.chainCode) ++
        (0 :: beBytes se.toNat 32))) 45 46 = [0] := by
      unfold slice; rw [a6]; rfl
    have h46 : (ver ++ (UInt8.ofNat n.depth :: (n.parentFingerprint ++ beBytes n.childIndex 4 ++ n.chainCode) ++
        (0 :: beBytes se.toNat 32))).drop 46 = beBytes se.toNat 32 := by
      rw [show 46 = 45 + 1 from rfl, ← List.drop_drop, a6]; rfl
    rw [h45, h46]
    simp only [if_true]
    rw [ofNat_toNat_of_le hd, beNat_beBytes_of_lt hi]
    have : fromBytes32 (beBytes se.toNat 32) = se := by
      unfold fromBytes32
      rw [beNat_beBytes_of_lt (by
        have : (se.toNat : Int) < 2 ^ 256 := by rw [Int.toNat_of_nonneg (by omega)]; exact hse256
        exact_mod_cast this)]
      exact Int.toNat_of_nonneg (by omega)
    rw [this]
    exact hv'

end Pycoin.BIP32
