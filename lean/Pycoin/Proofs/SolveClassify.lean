import Pycoin.Model.Sign
import Pycoin.Proofs.ScriptText
import Pycoin.Proofs.SignWrapAll
import Pycoin.Proofs.SignEvalN
/-!
C05 — the result-level model's template recogniser `Sign.classify` on the scripts the theorems are stated for:
`<key> CHECKSIG` and `m <key>… n CHECKMULTISIG` (keys of 33 or 65 bytes, every `1 ≤ m ≤ n ≤ 20`), through pycoin's
`get_opcodes` (`Script.getOpcodes`).
-/
namespace Pycoin.Sign
open Pycoin Pycoin.Script Pycoin.Gen.Opcodes

/-- the items `get_opcodes` yields for a run of minimal pushes starting at `pc` -/
def pushItems : Nat → List Bytes → List Item
  | _, [] => []
  | pc, d :: r => ⟨pushOpcode d, some d, pc, pc + (Spec.minimalPush d).length⟩ :: pushItems (pc + (Spec.minimalPush d).length) r

/-- `get_opcodes` on minimal pushes followed by one plain opcode -/
theorem getOpcodes_pushes_op : ∀ (items : List Bytes) (pre : Bytes) (op : UInt8), (∀ d ∈ items, d.length < 2 ^ 32) →
    dictGet op decoder = none →
    Script.getOpcodes (pre ++ items.flatMap Spec.minimalPush ++ [op]) false pre.length =
      (pushItems pre.length items ++
        [⟨op, none, pre.length + (items.flatMap Spec.minimalPush).length, pre.length + (items.flatMap Spec.minimalPush).length + 1⟩],
       none) := by
  intro items
  induction items with
  | nil =>
    intro pre op _ hop
    have hg := Script.getOpcode_plain pre [] op false hop
    simp only [List.append_nil] at hg
    simp only [List.flatMap_nil, List.append_nil, List.length_nil, Nat.add_zero, pushItems, List.nil_append]
    rw [Script.getOpcodes_step _ _ _ _ (by simp) hg]
    rw [Script.getOpcodes_end _ _ _ (by simp)]
  | cons d r ih =>
    intro pre op hall hop
    have hd := hall d (by simp)
    have hscript : pre ++ (d :: r).flatMap Spec.minimalPush ++ [op] = pre ++ Spec.minimalPush d ++ (r.flatMap Spec.minimalPush ++ [op]) := by
      simp [List.flatMap_cons]
    have hne := Script.minimalPush_ne_nil d
    have hpos : 0 < (Spec.minimalPush d).length := List.length_pos_iff.mpr hne
    have hlt : pre.length < (pre ++ (d :: r).flatMap Spec.minimalPush ++ [op]).length := by
      rw [hscript]; simp only [List.length_append]; omega
    have hg := Script.getOpcode_minimalPush pre d (r.flatMap Spec.minimalPush ++ [op]) false hd
    rw [← hscript] at hg
    rw [Script.getOpcodes_step _ _ _ _ hlt hg]
    simp only []
    have e : pre.length + (Spec.minimalPush d).length = (pre ++ Spec.minimalPush d).length := by simp
    have hscript' : pre ++ (d :: r).flatMap Spec.minimalPush ++ [op] = (pre ++ Spec.minimalPush d) ++ r.flatMap Spec.minimalPush ++ [op] := by
      simp [List.flatMap_cons]
    rw [hscript', e, ih (pre ++ Spec.minimalPush d) op (fun x hx => hall x (List.mem_cons_of_mem _ hx)) hop]
    simp [pushItems, List.flatMap_cons, Nat.add_assoc]

theorem pushItems_data (pc : Nat) (items : List Bytes) : (pushItems pc items).filterMap (·.data) = items := by
  induction items generalizing pc with
  | nil => rfl
  | cons d r ih => simp [pushItems, ih]

theorem pushItems_append (pc : Nat) (a b : List Bytes) :
    pushItems pc (a ++ b) = pushItems pc a ++ pushItems (pc + (a.flatMap Spec.minimalPush).length) b := by
  induction a generalizing pc with
  | nil => simp [pushItems]
  | cons d r ih => simp [pushItems, ih, List.flatMap_cons, Nat.add_assoc]

theorem pushItems_length (pc : Nat) (items : List Bytes) : (pushItems pc items).length = items.length := by
  induction items generalizing pc with
  | nil => rfl
  | cons d r ih => simp [pushItems, ih]

theorem minimalPush_key (k : Bytes) (hk : k.length = 33 ∨ k.length = 65) : Spec.minimalPush k = directPush k := by
  rw [minimalPush_eq_pushData k (by omega) (by omega), pushData_direct k (by omega)]
  rfl

theorem minimalPush_count (k : Nat) (h1 : 1 ≤ k) (h20 : k ≤ 20) : Spec.minimalPush [UInt8.ofNat k] = countPush k := by
  have : ∀ k, k < 21 → 1 ≤ k → Spec.minimalPush [UInt8.ofNat k] = countPush k := by decide +kernel
  exact this k (by omega) h1

theorem pushOpcode_key (k : Bytes) (hk : k.length = 33 ∨ k.length = 65) : pushOpcode k = UInt8.ofNat k.length := by
  unfold pushOpcode; rw [minimalPush_key k hk]; rfl

theorem pushOpcode_count (k : Nat) (h1 : 1 ≤ k) (h20 : k ≤ 20) :
    pushOpcode [UInt8.ofNat k] ≠ 0x4f ∧ pushOpcode [UInt8.ofNat k] ≠ 0x76 := by
  have : ∀ k, k < 21 → 1 ≤ k → pushOpcode [UInt8.ofNat k] ≠ 0x4f ∧ pushOpcode [UInt8.ofNat k] ≠ 0x76 := by decide +kernel
  exact this k (by omega) h1

theorem isKeyPush_pushItems (pc : Nat) (keys : List Bytes) (hkeys : ∀ k ∈ keys, k.length = 33 ∨ k.length = 65) :
    (pushItems pc keys).all isKeyPush = true := by
  induction keys generalizing pc with
  | nil => rfl
  | cons k r ih =>
    have hk := hkeys k (by simp)
    have hb : (UInt8.ofNat k.length).toNat = k.length := by rw [UInt8.toNat_ofNat']; omega
    simp only [pushItems, List.all_cons, ih _ (fun x hx => hkeys x (List.mem_cons_of_mem _ hx)), Bool.and_true]
    simp only [isKeyPush, pushOpcode_key k hk, hb]
    rcases hk with h | h <;> simp [h]

/-- the 25-byte P2PKH pattern of `classify` does not match a script that does not begin with `OP_DUP` -/
theorem classify_not_dup (b : UInt8) (tl : Bytes) (hb : b ≠ 0x76) :
    classify (b :: tl) =
      match Script.getOpcodes (b :: tl) false 0 with
      | (items, none) =>
        match items with
        | [k, cs] => if isKeyPush k && cs.opcode = 0xac then k.data.map Base.p2pk else none
        | first :: rest =>
          match rest.reverse with
          | cms :: nItem :: keysRev =>
            match smallInt first, smallInt nItem with
            | some m, some n =>
              let keys := keysRev.reverse
              if cms.opcode = 0xae && keys.all isKeyPush && keys.length = n && 1 ≤ m && m ≤ n && n ≤ 20
                 && first.opcode ≠ 0x4f && nItem.opcode ≠ 0x4f then
                some (.multisig m (keys.filterMap (·.data)))
              else none
            | _, _ => none
          | _ => none
        | _ => none
      | _ => none := by
  unfold classify
  split
  · rename_i h
    simp only [List.cons.injEq] at h
    exact absurd h.1 hb
  · rfl

/-- **`classify` recognises `m <key>… n CHECKMULTISIG`** (every `1 ≤ m ≤ n ≤ 20`, keys of 33 or 65 bytes) -/
theorem classify_multisig (m : Nat) (keys : List Bytes) (hm1 : 1 ≤ m) (hmn : m ≤ keys.length) (hn : keys.length ≤ 20)
    (hkeys : ∀ k ∈ keys, k.length = 33 ∨ k.length = 65) :
    classify (multisigScriptN m keys) = some (.multisig m keys) := by
  have hn1 : 1 ≤ keys.length := by omega
  -- the script as a run of minimal pushes and OP_CHECKMULTISIG
  have hflat : ∀ ks : List Bytes, (∀ k ∈ ks, k.length = 33 ∨ k.length = 65) → ks.flatMap Spec.minimalPush = pushesOf ks := by
    intro ks hks
    induction ks with
    | nil => rfl
    | cons k r ih =>
      simp only [List.flatMap_cons, pushesOf] at ih ⊢
      rw [minimalPush_key k (hks k (by simp)), ih (fun x hx => hks x (List.mem_cons_of_mem _ hx))]
  have hscript : multisigScriptN m keys =
      [] ++ ([UInt8.ofNat m] :: (keys ++ [[UInt8.ofNat keys.length]])).flatMap Spec.minimalPush ++ [0xae] := by
    simp only [List.nil_append, List.flatMap_cons, List.flatMap_append, List.flatMap_nil, List.append_nil,
      minimalPush_count m hm1 (by omega), minimalPush_count keys.length hn1 hn, hflat keys hkeys, multisigScriptN, List.append_assoc]
  have hall : ∀ d ∈ ([UInt8.ofNat m] :: (keys ++ [[UInt8.ofNat keys.length]])), d.length < 2 ^ 32 := by
    intro d hd
    simp only [List.mem_cons, List.mem_append, List.mem_singleton, List.not_mem_nil, or_false] at hd
    rcases hd with rfl | h | rfl
    · simp
    · rcases hkeys d h with e | e <;> rw [e] <;> decide
    · simp
  have hget := getOpcodes_pushes_op _ [] 0xae hall (show dictGet (0xae : UInt8) decoder = none by decide +kernel)
  rw [← hscript] at hget
  -- the head is not OP_DUP
  obtain ⟨tail, htail⟩ := Script.minimalPush_cons [UInt8.ofNat m]
  have hhead : multisigScriptN m keys = pushOpcode [UInt8.ofNat m] :: (tail ++ (pushesOf keys ++ (countPush keys.length ++ [0xae]))) := by
    rw [multisigScriptN, ← minimalPush_count m hm1 (by omega), htail]; rfl
  have hop := pushOpcode_count m hm1 (by omega)
  simp only [List.length_nil] at hget
  rw [hhead, classify_not_dup _ _ hop.2, ← hhead, hget]
  -- the items: the count m, the keys, the count n, OP_CHECKMULTISIG
  generalize hp0 : 0 + (Spec.minimalPush [UInt8.ofNat m]).length = p0
  generalize hpe : 0 + (([UInt8.ofNat m] :: (keys ++ [[UInt8.ofNat keys.length]])).flatMap Spec.minimalPush).length = pe
  have hitems : pushItems 0 ([UInt8.ofNat m] :: (keys ++ [[UInt8.ofNat keys.length]])) ++ [⟨0xae, none, pe, pe + 1⟩] =
      ⟨pushOpcode [UInt8.ofNat m], some [UInt8.ofNat m], 0, p0⟩ ::
        (pushItems p0 keys ++ [⟨pushOpcode [UInt8.ofNat keys.length], some [UInt8.ofNat keys.length],
            p0 + (keys.flatMap Spec.minimalPush).length,
            p0 + (keys.flatMap Spec.minimalPush).length + (Spec.minimalPush [UInt8.ofNat keys.length]).length⟩,
          ⟨0xae, none, pe, pe + 1⟩]) := by
    simp only [pushItems, hp0, pushItems_append, List.cons_append, List.append_assoc, List.nil_append]
  rw [hitems]
  generalize hnI : (⟨pushOpcode [UInt8.ofNat keys.length], some [UInt8.ofNat keys.length],
            p0 + (keys.flatMap Spec.minimalPush).length,
            p0 + (keys.flatMap Spec.minimalPush).length + (Spec.minimalPush [UInt8.ofNat keys.length]).length⟩ : Item) = nItem
  generalize hcI : (⟨0xae, none, pe, pe + 1⟩ : Item) = cItem
  generalize hmI : (⟨pushOpcode [UInt8.ofNat m], some [UInt8.ofNat m], 0, p0⟩ : Item) = mItem
  have hklen : (pushItems p0 keys).length = keys.length := pushItems_length p0 keys
  obtain ⟨b, c, l, hrest⟩ : ∃ b c l, pushItems p0 keys ++ [nItem, cItem] = b :: c :: l := by
    cases hk : pushItems p0 keys with
    | nil => rw [hk] at hklen; simp at hklen; omega
    | cons x t =>
      cases t with
      | nil => exact ⟨x, nItem, [cItem], rfl⟩
      | cons y t' => exact ⟨x, y, t' ++ [nItem, cItem], rfl⟩
  have hrev : (b :: c :: l).reverse = cItem :: nItem :: (pushItems p0 keys).reverse := by
    rw [← hrest]; simp
  rw [hrest]
  simp only []
  rw [hrev]
  simp only []
  have hsm : smallInt mItem = some m := by
    rw [← hmI]; simp only [smallInt]; rw [UInt8.toNat_ofNat']; congr 1; omega
  have hsn : smallInt nItem = some keys.length := by
    rw [← hnI]; simp only [smallInt]; rw [UInt8.toNat_ofNat']; congr 1; omega
  rw [hsm, hsn]
  simp only [List.reverse_reverse]
  have hc1 : cItem.opcode = 0xae := by rw [← hcI]
  have hc2 : mItem.opcode ≠ 0x4f := by rw [← hmI]; exact hop.1
  have hc3 : nItem.opcode ≠ 0x4f := by rw [← hnI]; exact (pushOpcode_count keys.length hn1 hn).1
  simp [hc1, hc2, hc3, isKeyPush_pushItems p0 keys hkeys, hklen, hm1, hmn, hn, pushItems_data]

/-- **`classify` recognises `<key> CHECKSIG`** (a key of 33 or 65 bytes) -/
theorem classify_p2pk (key : Bytes) (hk : key.length = 33 ∨ key.length = 65) : classify (p2pkScript key) = some (.p2pk key) := by
  have hb : (UInt8.ofNat key.length).toNat = key.length := by rw [UInt8.toNat_ofNat']; omega
  have hne : UInt8.ofNat key.length ≠ 0x76 := by
    intro h; have := congrArg UInt8.toNat h; rw [hb] at this
    have e : (0x76 : UInt8).toNat = 118 := by decide
    omega
  have hscript : p2pkScript key = [] ++ [key].flatMap Spec.minimalPush ++ [0xac] := by
    simp [p2pkScript, minimalPush_key key hk]
  have hget := getOpcodes_pushes_op [key] [] 0xac (by intro d hd; simp at hd; subst hd; rcases hk with e | e <;> rw [e] <;> decide)
    (show dictGet (0xac : UInt8) decoder = none by decide +kernel)
  rw [← hscript] at hget
  simp only [List.length_nil] at hget
  have hhead : p2pkScript key = UInt8.ofNat key.length :: (key ++ [0xac]) := by simp [p2pkScript, directPush]
  rw [hhead, classify_not_dup _ _ hne, ← hhead, hget]
  simp only [pushItems, List.nil_append, List.cons_append]
  have := isKeyPush_pushItems 0 [key] (by intro k hk'; simp at hk'; subst hk'; exact hk)
  simp only [pushItems, List.all_cons, List.all_nil, Bool.and_true, Nat.zero_add] at this
  simp [this]

end Pycoin.Sign
