import Pycoin.Model.BlockChain
/-! dict / set lemmas for the C15 models (core Lean only) -/
namespace Pycoin.Chain

theorem dget_dset {α} (d : Dict α) (k k' : Nat) (v : α) :
    dget (dset d k v) k' = if k = k' then some v else dget d k' := by
  induction d with
  | nil => simp [dset, dget]
  | cons e r ih =>
    obtain ⟨a, b⟩ := e
    unfold dset
    by_cases h1 : a = k
    · subst h1
      by_cases h2 : a = k' <;> simp [dget, h2]
    · simp only [h1, if_false, dget]
      by_cases h2 : a = k'
      · subst h2; simp [Ne.symm h1]
      · simp [h2, ih]

theorem dget_dset_self {α} (d : Dict α) (k : Nat) (v : α) : dget (dset d k v) k = some v := by
  simp [dget_dset]

theorem dget_dset_ne {α} (d : Dict α) {k k' : Nat} (v : α) (h : k ≠ k') : dget (dset d k v) k' = dget d k' := by
  simp [dget_dset, h]

theorem dget_ddel {α} (d : Dict α) (k k' : Nat) :
    dget (ddel d k) k' = if k = k' then none else dget d k' := by
  induction d with
  | nil => simp [ddel, dget]
  | cons e r ih =>
    obtain ⟨a, b⟩ := e
    unfold ddel at ih ⊢
    by_cases h1 : a = k
    · subst h1
      simp only [List.filter_cons, ne_eq, not_true_eq_false, decide_false, Bool.false_eq_true, if_false]
      rw [ih]
      by_cases h2 : a = k' <;> simp [dget, h2]
    · simp only [List.filter_cons, ne_eq, h1, not_false_eq_true, decide_true, if_true, dget]
      rw [ih]
      by_cases h2 : a = k'
      · subst h2; simp [Ne.symm h1]
      · simp [h2]

theorem dget_ddel_self {α} (d : Dict α) (k : Nat) : dget (ddel d k) k = none := by simp [dget_ddel]
theorem dget_ddel_ne {α} (d : Dict α) {k k' : Nat} (h : k ≠ k') : dget (ddel d k) k' = dget d k' := by
  simp [dget_ddel, h]

theorem dhas_iff {α} (d : Dict α) (k : Nat) : dhas d k = true ↔ ∃ v, dget d k = some v := by
  unfold dhas; cases dget d k <;> simp

theorem dhas_false_iff {α} (d : Dict α) (k : Nat) : dhas d k = false ↔ dget d k = none := by
  unfold dhas; cases dget d k <;> simp

theorem dget_mem {α} (d : Dict α) (k : Nat) (v : α) (h : dget d k = some v) : (k, v) ∈ d := by
  induction d with
  | nil => simp [dget] at h
  | cons e r ih =>
    obtain ⟨a, b⟩ := e
    unfold dget at h
    by_cases h1 : a = k
    · simp [h1] at h; subst h1; subst h; simp
    · simp [h1] at h; exact List.mem_cons_of_mem _ (ih h)

theorem mem_sadd (s : PSet) (x y : Nat) : y ∈ sadd s x ↔ y ∈ s ∨ y = x := by
  unfold sadd
  by_cases h : x ∈ s
  · simp only [h, if_true]
    constructor
    · exact Or.inl
    · rintro (h' | h')
      · exact h'
      · subst h'; exact h
  · simp [h]

theorem mem_sremove (s : PSet) (x y : Nat) : y ∈ sremove s x ↔ y ∈ s ∧ y ≠ x := by
  simp [sremove]

theorem mem_siter (rev : Bool) (s : PSet) (y : Nat) : y ∈ siter rev s ↔ y ∈ s := by
  unfold siter; cases rev <;> simp

theorem mem_foldl_sadd (o : List Nat) (s : PSet) (y : Nat) : y ∈ o.foldl sadd s ↔ y ∈ s ∨ y ∈ o := by
  induction o generalizing s with
  | nil => simp
  | cons a r ih =>
    simp only [List.foldl_cons, ih, mem_sadd, List.mem_cons]
    constructor
    · rintro ((h | h) | h)
      · exact Or.inl h
      · exact Or.inr (Or.inl h)
      · exact Or.inr (Or.inr h)
    · rintro (h | h | h)
      · exact Or.inl (Or.inl h)
      · exact Or.inl (Or.inr h)
      · exact Or.inr h

theorem mem_supdate (rev : Bool) (s o : PSet) (y : Nat) : y ∈ supdate rev s o ↔ y ∈ s ∨ y ∈ o := by
  unfold supdate; rw [mem_foldl_sadd, mem_siter]

theorem pick_mem (rank : List Nat) (s : PSet) (h : Nat) (hp : pick rank s = some h) : h ∈ s := by
  unfold pick at hp
  split at hp
  · rename_i r hr
    have := List.find?_some hr
    injection hp with hp; subst hp
    simpa using this
  · cases s with
    | nil => simp at hp
    | cons a t => simp at hp; subst hp; simp

theorem pick_none (rank : List Nat) (s : PSet) (hp : pick rank s = none) : s = [] := by
  unfold pick at hp
  split at hp
  · cases hp
  · cases s with
    | nil => rfl
    | cons a t => simp at hp

theorem sremove_length_lt (s : PSet) (x : Nat) (h : x ∈ s) : (sremove s x).length < s.length := by
  unfold sremove
  induction s with
  | nil => simp at h
  | cons a t ih =>
    simp only [List.filter_cons]
    by_cases ha : a = x
    · subst ha
      simp only [ne_eq, not_true_eq_false, decide_false, Bool.false_eq_true, if_false, List.length_cons]
      exact Nat.lt_succ_of_le (List.length_filter_le _ _)
    · have hx : x ∈ t := by
        rcases List.mem_cons.mp h with h | h
        · exact absurd h.symm ha
        · exact h
      simp only [ne_eq, ha, not_false_eq_true, decide_true, if_true, List.length_cons]
      exact Nat.succ_lt_succ (ih hx)

end Pycoin.Chain
