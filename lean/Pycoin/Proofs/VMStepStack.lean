import Mathlib.Tactic.SplitIfs
import Pycoin.Proofs.VMStep
/-!
Handler level, executed branch: stack, splice/compare, hash and simple control opcodes.
`Agree pc' (handler (absS st pc')) (execOp … st f opcode pc')` for **every** Core state `st`.
-/
namespace Pycoin.VM
open Pycoin.Spec Pycoin.Gen.VM CondStack Consensus

@[simp] theorem castToBool_one : castToBool [1] = true := by decide
@[simp] theorem castToBool_nil : castToBool [] = false := by decide

/-- split the data stack into its first six cells -/
macro "stackcases" s:ident : tactic => `(tactic| (
  rcases $s:ident with ⟨stk, alt, vf, n, cs⟩
  rcases stk with _ | ⟨a, _ | ⟨b, _ | ⟨c, _ | ⟨d, _ | ⟨e, _ | ⟨g, r⟩⟩⟩⟩⟩⟩))

/-- unfold both sides for a literal opcode -/
macro "opsimp" "[" ts:Lean.Parser.Tactic.simpLemma,* "]" : tactic => `(tactic|
  simp [Agree, absS, peek, pop, popAt, push, pushInt, invalidStack, execOp, Except.toOption, bind, Except.bind, pure, Except.pure,
    boolFromScriptBytes_false, intToScriptBytes_eq, boolToScriptBytes, boolBytes, vchTrue, vchFalse, VM_TRUE, VM_FALSE,
    OP_1NEGATE, OP_1, OP_16, OP_NOP, OP_CHECKLOCKTIMEVERIFY, OP_CHECKSEQUENCEVERIFY, OP_NOP1, OP_NOP4, OP_NOP10, OP_IF, OP_NOTIF,
    OP_ELSE, OP_ENDIF, OP_VERIFY, OP_RETURN, OP_TOALTSTACK, OP_FROMALTSTACK, OP_2DROP, OP_2DUP, OP_3DUP, OP_2OVER, OP_2ROT,
    OP_2SWAP, OP_IFDUP, OP_DEPTH, OP_DROP, OP_DUP, OP_NIP, OP_OVER, OP_PICK, OP_ROLL, OP_ROT, OP_SWAP, OP_TUCK, OP_SIZE,
    OP_EQUAL, OP_EQUALVERIFY, OP_1ADD, OP_1SUB, OP_NEGATE, OP_ABS, OP_NOT, OP_0NOTEQUAL, OP_ADD, OP_MAX, OP_WITHIN,
    OP_RIPEMD160, OP_SHA1, OP_SHA256, OP_HASH160, OP_HASH256, OP_CODESEPARATOR, $ts,*])

variable (cfg : Config) (st : Consensus.State) (pc' : Nat) (f : Bool)

theorem h_NOP : Agree pc' (pure (absS st pc')) (execOp (specEnv cfg) st f 0x61 pc') := by opsimp []
theorem h_RETURN : Agree pc' (.error (scriptErr errno_OP_RETURN)) (execOp (specEnv cfg) st f 0x6a pc') := by opsimp []
theorem h_VERIFY : Agree pc' (do_VERIFY (absS st pc')) (execOp (specEnv cfg) st f 0x69 pc') := by
  stackcases st <;> opsimp [do_VERIFY] <;> split_ifs <;> simp_all
theorem h_TOALTSTACK : Agree pc' (do_TOALTSTACK (absS st pc')) (execOp (specEnv cfg) st f 0x6b pc') := by
  stackcases st <;> opsimp [do_TOALTSTACK]
theorem h_FROMALTSTACK : Agree pc' (do_FROMALTSTACK (absS st pc')) (execOp (specEnv cfg) st f 0x6c pc') := by
  rcases st with ⟨stk, alt, vf, n, cs⟩
  cases alt <;> opsimp [do_FROMALTSTACK]
theorem h_2DROP : Agree pc' (do_2DROP (absS st pc')) (execOp (specEnv cfg) st f 0x6d pc') := by
  stackcases st <;> opsimp [do_2DROP]
theorem h_2DUP : Agree pc' (do_2DUP (absS st pc')) (execOp (specEnv cfg) st f 0x6e pc') := by
  stackcases st <;> opsimp [do_2DUP]
theorem h_3DUP : Agree pc' (do_3DUP (absS st pc')) (execOp (specEnv cfg) st f 0x6f pc') := by
  stackcases st <;> opsimp [do_3DUP]
theorem h_2OVER : Agree pc' (do_2OVER (absS st pc')) (execOp (specEnv cfg) st f 0x70 pc') := by
  stackcases st <;> opsimp [do_2OVER]
theorem h_2ROT : Agree pc' (do_2ROT (absS st pc')) (execOp (specEnv cfg) st f 0x71 pc') := by
  stackcases st <;> opsimp [do_2ROT]
theorem h_2SWAP : Agree pc' (do_2SWAP (absS st pc')) (execOp (specEnv cfg) st f 0x72 pc') := by
  stackcases st <;> opsimp [do_2SWAP]
theorem h_IFDUP : Agree pc' (do_IFDUP_misc (absS st pc')) (execOp (specEnv cfg) st f 0x73 pc') := by
  stackcases st <;> opsimp [do_IFDUP_misc] <;> split_ifs <;> simp_all
theorem h_DEPTH : Agree pc' (do_DEPTH (absS st pc')) (execOp (specEnv cfg) st f 0x74 pc') := by
  opsimp [do_DEPTH]
theorem h_DROP : Agree pc' (do_DROP (absS st pc')) (execOp (specEnv cfg) st f 0x75 pc') := by
  stackcases st <;> opsimp [do_DROP]
theorem h_DUP : Agree pc' (do_DUP (absS st pc')) (execOp (specEnv cfg) st f 0x76 pc') := by
  stackcases st <;> opsimp [do_DUP]
theorem h_NIP : Agree pc' (do_NIP (absS st pc')) (execOp (specEnv cfg) st f 0x77 pc') := by
  stackcases st <;> opsimp [do_NIP]
theorem h_OVER : Agree pc' (do_OVER (absS st pc')) (execOp (specEnv cfg) st f 0x78 pc') := by
  stackcases st <;> opsimp [do_OVER]
theorem h_ROT : Agree pc' (do_ROT (absS st pc')) (execOp (specEnv cfg) st f 0x7b pc') := by
  stackcases st <;> opsimp [do_ROT]
theorem h_SWAP : Agree pc' (do_SWAP (absS st pc')) (execOp (specEnv cfg) st f 0x7c pc') := by
  stackcases st <;> opsimp [do_SWAP]
theorem h_TUCK : Agree pc' (do_TUCK (absS st pc')) (execOp (specEnv cfg) st f 0x7d pc') := by
  stackcases st <;> opsimp [do_TUCK]
theorem h_SIZE : Agree pc' (do_SIZE (absS st pc')) (execOp (specEnv cfg) st f 0x82 pc') := by
  stackcases st <;> opsimp [do_SIZE]
theorem h_EQUAL : Agree pc' (do_EQUAL (absS st pc')) (execOp (specEnv cfg) st f 0x87 pc') := by
  stackcases st <;> opsimp [do_EQUAL] <;> split_ifs <;> simp_all
theorem h_EQUALVERIFY : Agree pc' (do_EQUALVERIFY (absS st pc')) (execOp (specEnv cfg) st f 0x88 pc') := by
  stackcases st <;> opsimp [do_EQUALVERIFY, do_EQUAL] <;> split_ifs <;> simp_all
theorem h_CODESEPARATOR : Agree pc' (do_CODESEPARATOR (absS st pc')) (execOp (specEnv cfg) st f 0xab pc') := by
  opsimp [do_CODESEPARATOR]

/-! hashes (the model's parameters instantiated with the functions the specification uses) -/
variable (chk : Bytes → Bytes → Bytes → Bool → Bool)

theorem h_RIPEMD160 : Agree pc' (do_RIPEMD160 (stdEnv chk) (absS st pc')) (execOp (specEnv cfg) st f 0xa6 pc') := by
  stackcases st <;> opsimp [do_RIPEMD160, hashOp, Consensus.hashOp, stdEnv]
theorem h_SHA1 : Agree pc' (do_SHA1 (stdEnv chk) (absS st pc')) (execOp (specEnv cfg) st f 0xa7 pc') := by
  stackcases st <;> opsimp [do_SHA1, hashOp, Consensus.hashOp, stdEnv]
theorem h_SHA256 : Agree pc' (do_SHA256 (stdEnv chk) (absS st pc')) (execOp (specEnv cfg) st f 0xa8 pc') := by
  stackcases st <;> opsimp [do_SHA256, hashOp, Consensus.hashOp, stdEnv]
theorem h_HASH160 : Agree pc' (do_HASH160 (stdEnv chk) (absS st pc')) (execOp (specEnv cfg) st f 0xa9 pc') := by
  stackcases st <;> opsimp [do_HASH160, hashOp, Consensus.hashOp, stdEnv, Hash.hash160]
theorem h_HASH256 : Agree pc' (do_HASH256 (stdEnv chk) (absS st pc')) (execOp (specEnv cfg) st f 0xaa pc') := by
  stackcases st <;> opsimp [do_HASH256, hashOp, Consensus.hashOp, stdEnv, Hash.dsha256]

end Pycoin.VM
