import Pycoin.Proofs.SolveTop
import Pycoin.Proofs.SignState
import Pycoin.Proofs.ScriptText
/-!
C05 — the machinery on a base script under any of the four wrappers (`Sign.Wrap`), uniformly; and what it writes for a fresh
input in the vocabulary of the end-to-end theorems (`Wrap.scriptSig`, `Wrap.wit`).
-/
namespace Pycoin.Solve
open Pycoin Pycoin.VM Pycoin.Sign

/-- the `p2sh_lookup` holds the scripts the wrapper refers to by hash (what `build_p2sh_lookup` of the redeem / witness scripts gives) -/
def LookupKnows (p2sh : Bytes → Option Bytes) (w : Wrap) (ms : Bytes) : Prop :=
  match w with
  | .bare => True
  | .p2sh => p2sh (Hash.hash160 ms) = some ms
  | .p2wsh => p2sh (Hash.sha256 ms) = some ms
  | .p2shP2wsh => p2sh (Hash.hash160 (witnessV0Script (Hash.sha256 ms))) = some (witnessV0Script (Hash.sha256 ms)) ∧
      p2sh (Hash.sha256 ms) = some ms

/-- what `compile_push_data_list` is given for the scriptSig -/
def wrapPushes (w : Wrap) (ms : Bytes) (items : List (Option Bytes)) : List (Option Bytes) :=
  match w with
  | .bare => items
  | .p2sh => items ++ [some ms]
  | .p2wsh => []
  | .p2shP2wsh => [some (witnessV0Script (Hash.sha256 ms))]

/-- the hash lengths and the 520-byte limit of a pushed redeem script -/
structure WrapSizes (w : Wrap) (ms : Bytes) : Prop where
  h160 : w = .p2sh → (Hash.hash160 ms).length = 20 ∧ ms.length ≤ 520
  sha : w.witness = true → (Hash.sha256 ms).length = 32
  h160w : w = .p2shP2wsh → (Hash.hash160 (witnessV0Script (Hash.sha256 ms))).length = 20

/-- **the machinery under a wrapper** -/
theorem solve_wrap (w : Wrap) (a : SolveArgs) (ctx : TxCtx) (ms : Bytes) (base : Base) (hb : BaseOK a ms base) (script : Bytes)
    (witness : List Bytes) (hk : LookupKnows a.p2sh w ms) (hsz : WrapSizes w ms) (hsh : scriptHash ms = none)
    (hv : witnessProgramVersion ms = none) :
    Solve.solve a ctx (w.spk ms) script witness =
      match existingScript script witness with
      | .error e => .error e
      | .ok existing =>
        match solveBase a.C a.lookup (a.sighash w.witness ms) existing a.ht a.placeholder base with
        | .error e => .error e
        | .ok items =>
          match pushAll (wrapPushes w ms items) with
          | .error e => .error e
          | .ok sc => .ok (sc, if w.witness then some (items ++ [some ms]) else none) := by
  cases w with
  | bare => exact solve_bare a ctx ms base hb script witness hsh hv
  | p2sh =>
    obtain ⟨h20, h520⟩ := hsz.h160 rfl
    exact solve_p2sh a ctx _ ms base hb script witness h20 hk h520 hv
  | p2wsh =>
    have := solve_p2wsh a ctx (Hash.sha256 ms) ms base hb script witness (hsz.sha rfl) hk rfl
    rw [Wrap.spk, this]
    cases existingScript script witness with
    | error e => rfl
    | ok existing =>
      simp only [Wrap.witness, wrapPushes]
      cases solveBase a.C a.lookup (a.sighash true ms) existing a.ht a.placeholder base with
      | error e => rfl
      | ok items => simp [pushAll, Script.compilePushDataList]
  | p2shP2wsh =>
    exact solve_p2sh_p2wsh a ctx _ (Hash.sha256 ms) ms base hb script witness (hsz.h160w rfl) (hsz.sha rfl) hk.1 hk.2 rfl

theorem existingScript_fresh : existingScript [] [] = .ok [] := by
  simp [existingScript, Pycoin.Script.getOpcodes_end [] false 0 (by simp)]

/-- the scriptSig `Solver.solve` compiles from solved items that are all there, in the vocabulary of `Wrap.scriptSig` -/
theorem pushAll_wrap (w : Wrap) (ms : Bytes) (items : List Bytes) (hsz : WrapSizes w ms)
    (hitems : ∀ d ∈ items, d.length = 0 ∨ (2 ≤ d.length ∧ d.length ≤ 75)) (h2 : 2 ≤ ms.length) (h : ms.length ≤ 65535) :
    pushAll (wrapPushes w ms (items.map some)) = .ok (w.scriptSig ms items) := by
  cases w with
  | bare => exact pushAll_direct items hitems
  | p2sh => exact pushAll_items_redeem items ms hitems h2 h
  | p2wsh => simp [wrapPushes, Wrap.scriptSig, pushAll, Script.compilePushDataList]
  | p2shP2wsh =>
    have hl : (witnessV0Script (Hash.sha256 ms)).length = 34 := by
      simp [witnessV0Script, directPush, hsz.sha rfl]
    exact pushAll_direct [witnessV0Script (Hash.sha256 ms)] (by intro d hd; simp at hd; subst hd; right; omega)

end Pycoin.Solve
