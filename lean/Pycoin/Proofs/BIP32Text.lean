import Pycoin.Proofs.BIP32SerPub
import Pycoin.Props.C11
import Pycoin.Proofs.Base58Hash
import Pycoin.Gen.Networks
/-!
C09 helper lemmas: text form round trip (`hwif` / `hparse`) and the prefix table of all networks.
-/
namespace Pycoin.BIP32
open Pycoin Pycoin.Curve Pycoin.Addr

/-- Base58Check text parses back to its payload, for either checksum hash (`Proofs/Base58Hash.lean`) -/
theorem parse_b2aHashed {k : HashKind} {d t : Bytes} (h : Base58.b2aHashedK k d = .ok t) :
    Base58.parseB58HashedK k t = some d := Base58.parse_b2aK h

theorem b2aHashed_ok (k : HashKind) (d : Bytes) : ∃ t, Base58.b2aHashedK k d = .ok t := Base58.b2aK_ok k d

theorem isPrefixOf_append (p b : Bytes) : isPrefixOf p (p ++ b) = true := by
  unfold isPrefixOf; simp

theorem isPrefixOf_other {p q : Bytes} (b : Bytes) (hl : p.length = q.length) (hne : p ≠ q) : isPrefixOf p (q ++ b) = false := by
  unfold isPrefixOf
  rw [hl, List.take_left]
  simp only [beq_eq_false_iff_ne, ne_eq]
  exact fun h => hne h.symm

/-- what the text round trip needs of one network and one prefix kind: the network defines both prefixes or neither;
the closures `bipNN_as_string` prepend the prefixes `ParseAPI` looks for, under the checksum hash `parse_b58_hashed`
accepts; both are 4 bytes long (`deserialize` reads fixed offsets).  Distinctness of the two is *not* needed:
`deserialize` tells private from public by byte 45. -/
def prefixesOk (net : Network) (kind : Kind) : Bool :=
  match parsePrefix net kind true, parsePrefix net kind false with
  | some a, some b =>
    outPrefix net kind true == some a && outPrefix net kind false == some b && a.length == 4 && b.length == 4 &&
      decide (outHash net kind = net.hashParse)
  | none, none => true
  | _, _ => false

theorem prefixesOk_spec {net : Network} {kind : Kind} (h : prefixesOk net kind = true) {a : Bytes}
    (ha : parsePrefix net kind true = some a) :
    ∃ b, parsePrefix net kind false = some b ∧ outPrefix net kind true = some a ∧ outPrefix net kind false = some b ∧
      a.length = 4 ∧ b.length = 4 ∧ outHash net kind = net.hashParse := by
  unfold prefixesOk at h
  rw [ha] at h
  cases hb : parsePrefix net kind false with
  | none => simp [hb] at h
  | some b =>
    simp only [hb, Bool.and_eq_true, beq_iff_eq, decide_eq_true_eq] at h
    obtain ⟨⟨⟨⟨h1, h2⟩, h3⟩, h4⟩, h5⟩ := h
    exact ⟨b, rfl, h1, h2, h3, h4, h5⟩

variable {g : Gen}

/-- text round trip of a private node on a network whose prefixes are consistent -/
theorem hwif_rt_private (net : Network) (n : Node) (se : Int) (hv : n.Valid g)
    (hse : n.secretExponent = some se) (hd : n.depth ≤ 255) (hi : n.childIndex < 2 ^ 32) (hn : g.c.n ≤ 2 ^ 256)
    (hok : prefixesOk net n.kind = true) {a : Bytes} (ha : parsePrefix net n.kind true = some a) :
    ∃ text, hwif net n true = .ok text ∧ parseBip g net n.kind text = .ok (some n) := by
  obtain ⟨b, hb, oa, ob, la, lb, hh⟩ := prefixesOk_spec hok ha
  obtain ⟨blob, s1, s2, -, s4⟩ := serialize_rt_private g n se hv hse hd hi hn a la (some true) (Or.inl rfl)
  obtain ⟨text, ht⟩ := b2aHashed_ok (outHash net n.kind) (a ++ blob)
  refine ⟨text, ?_, ?_⟩
  · unfold hwif
    simp [s1, oa, ht]
  · unfold parseBip hparse
    rw [← hh, parse_b2aHashed ht, ha]
    simp only [isPrefixOf_append, Bool.not_true, Bool.false_eq_true, if_false]
    have : ¬ (a ++ blob).length ≠ 78 := by simp [la, s2]
    rw [if_neg this, s4]

/-- text round trip of the public form of a node -/
theorem hwif_rt_public [Good g.c] (h4 : g.c.p % 4 = 3) (hbc : byteCount g.c.p = 32)
    (net : Network) (n : Node) (hv : n.Valid g)
    (hd : n.depth ≤ 255) (hi : n.childIndex < 2 ^ 32)
    (hx0 : 0 ≤ n.publicPair.1) (hx1 : n.publicPair.1 < 2 ^ 256) (hxp : n.publicPair.1 < g.c.p) (hy0 : 0 < n.publicPair.2)
    (hy1 : n.publicPair.2 < g.c.p) (hok : prefixesOk net n.kind = true) {a : Bytes} (ha : parsePrefix net n.kind true = some a) :
    ∃ text, hwif net n false = .ok text ∧
      parseBip g net n.kind text = .ok (some { n with secretExponent := none }) := by
  obtain ⟨b, hb, oa, ob, la, lb, hh⟩ := prefixesOk_spec hok ha
  obtain ⟨blob, s1, s2, -, s4⟩ := serialize_rt_public h4 hbc n hv hd hi hx0 hx1 hxp hy0 hy1 b lb
  obtain ⟨text, ht⟩ := b2aHashed_ok (outHash net n.kind) (b ++ blob)
  refine ⟨text, ?_, ?_⟩
  · unfold hwif
    simp [s1, ob, ht]
  · have hlen : ¬ (b ++ blob).length ≠ 78 := by simp [lb, s2]
    unfold parseBip hparse
    rw [← hh, parse_b2aHashed ht, ha, hb]
    by_cases hab : a = b
    · -- the two prefixes coincide: the private attempt already succeeds, with the public node (byte 45 decides)
      subst hab
      simp only [isPrefixOf_append, Bool.not_true, Bool.false_eq_true, if_false]
      rw [if_neg hlen, s4]
    · simp only [isPrefixOf_other blob (la.trans lb.symm) hab, Bool.not_false, if_true, isPrefixOf_append, Bool.not_true,
        Bool.false_eq_true, if_false]
      rw [if_neg hlen, s4]

/-- the whole generated table: on EVERY network (Groestlcoin family included) and for each of bip32/bip49/bip84,
either both prefixes are absent, or the producing closures and the parser agree on two 4-byte prefixes and on the
checksum hash -/
theorem prefix_table : ∀ net ∈ Pycoin.Gen.Networks.all,
    prefixesOk net .bip32 = true ∧ prefixesOk net .bip49 = true ∧ prefixesOk net .bip84 = true := by
  decide +kernel

end Pycoin.BIP32
