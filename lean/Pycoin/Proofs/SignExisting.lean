import Pycoin.Model.Sign
import Pycoin.Proofs.ScriptText
/-!
C05 — what the next pass reads from a scriptSig the previous pass wrote: `existing_script` (the data of `get_opcodes`) of
`compile_push_data_list(items)` is `items` again.  (For witness inputs `existing_script` is the witness itself.)
-/
namespace Pycoin.Sign
open Pycoin

theorem getOpcodes_pushes : ∀ (items : List Bytes) (pre : Bytes), (∀ d ∈ items, d.length < 2 ^ 32) →
    ((Script.getOpcodes (pre ++ items.flatMap Spec.minimalPush) false pre.length).1.filterMap (·.data) = items) ∧
    (Script.getOpcodes (pre ++ items.flatMap Spec.minimalPush) false pre.length).2 = none := by
  intro items
  induction items with
  | nil =>
    intro pre _
    rw [Script.getOpcodes_end _ _ _ (by simp)]
    exact ⟨rfl, rfl⟩
  | cons d r ih =>
    intro pre hall
    have hd := hall d (by simp)
    have hscript : pre ++ (d :: r).flatMap Spec.minimalPush = pre ++ Spec.minimalPush d ++ r.flatMap Spec.minimalPush := by
      simp [List.flatMap_cons]
    have hne := Script.minimalPush_ne_nil d
    have hlt : pre.length < (pre ++ (d :: r).flatMap Spec.minimalPush).length := by
      have : 0 < (Spec.minimalPush d).length := List.length_pos_iff.mpr hne
      rw [hscript]; simp only [List.length_append]; omega
    have hg := Script.getOpcode_minimalPush pre d (r.flatMap Spec.minimalPush) false hd
    rw [← hscript] at hg
    rw [Script.getOpcodes_step _ _ _ _ hlt hg]
    simp only []
    have e : pre.length + (Spec.minimalPush d).length = (pre ++ Spec.minimalPush d).length := by simp
    obtain ⟨i1, i2⟩ := ih (pre ++ Spec.minimalPush d) (fun x hx => hall x (List.mem_cons_of_mem _ hx))
    rw [hscript, e]
    refine ⟨?_, i2⟩
    rw [List.filterMap_cons_some (by rfl : (fun x : Script.Item => x.data) _ = some d), i1]

/-- **the next pass reads back what this pass pushed** -/
theorem existingScript_pushAll (items : List Bytes) (hall : ∀ d ∈ items, d.length < 2 ^ 32) (script : Bytes)
    (hs : pushAll (items.map some) = .ok script) : existingScript script [] = .ok items := by
  have hc : ∀ (l : List Bytes), (∀ d ∈ l, d.length < 2 ^ 32) →
      Script.compilePushDataList (l.map some) = .ok (l.flatMap Spec.minimalPush) := by
    intro l
    induction l with
    | nil => intro _; rfl
    | cons d r ih =>
      intro h
      simp only [List.map_cons, Script.compilePushDataList, Script.compilePushData_eq d (h d (by simp)),
        ih (fun x hx => h x (List.mem_cons_of_mem _ hx))]
      rfl
  unfold pushAll at hs
  rw [hc items hall] at hs
  simp only [Except.ok.injEq] at hs
  subst hs
  obtain ⟨h1, h2⟩ := getOpcodes_pushes items [] hall
  simp only [List.nil_append, List.length_nil] at h1 h2
  unfold existingScript
  simp only [List.isEmpty_nil, Bool.not_true, Bool.false_eq_true, if_false]
  cases hgo : Script.getOpcodes (items.flatMap Spec.minimalPush) false 0 with
  | mk its err =>
    rw [hgo] at h1 h2
    simp only at h1 h2
    subst h2
    simp only []
    rw [h1]

/-- for an input with a witness, `existing_script` is the witness -/
theorem existingScript_witness (script : Bytes) (wit : List Bytes) (h : wit ≠ []) : existingScript script wit = .ok wit := by
  unfold existingScript
  cases wit with
  | nil => exact absurd rfl h
  | cons a r => rfl

end Pycoin.Sign
