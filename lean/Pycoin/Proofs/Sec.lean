import Pycoin.Model.Wif
import Pycoin.Proofs.Bytes
import Pycoin.Proofs.Sqrt
/-! Lemmas about the SEC / key-constructor models (`Model/Sec.lean`, `Model/KeyCtor.lean`). -/
namespace Pycoin.Sec
open Pycoin Pycoin.Curve

/-- what the SEC theorems need from the field: coordinates take 32 bytes, `p` is odd -/
structure Field32 (c : CurveParams) : Prop where
  bc : byteCount c = 32
  lt : c.p < 2 ^ 256
  odd : c.p % 2 = 1

theorem pow256_32 : (256 : Nat) ^ 32 = 2 ^ 256 := by decide

theorem toBytes32_ok {v : Int} (h0 : 0 ≤ v) (h1 : v < 2 ^ 256) : toBytes32 v = .ok (beBytes v.toNat 32) := by
  have : ¬ (v < 0 ∨ v ≥ 2 ^ 256) := by omega
  unfold toBytes32
  rw [if_neg this]

theorem toBytes32_inv {v : Int} {b : Bytes} (h : toBytes32 v = .ok b) :
    0 ≤ v ∧ v < 2 ^ 256 ∧ b = beBytes v.toNat 32 := by
  unfold toBytes32 at h
  split at h
  · cases h
  · injection h with h
    refine ⟨by omega, by omega, h.symm⟩

theorem fromBytes32_beBytes {n : Nat} (h : n < 2 ^ 256) : fromBytes32 (beBytes n 32) = (n : Int) := by
  unfold fromBytes32
  rw [beNat_beBytes_of_lt (by rw [pow256_32]; exact h)]

theorem beBytes_fromBytes32 (b : Bytes) (h : b.length = 32) : beBytes (fromBytes32 b).toNat 32 = b := by
  unfold fromBytes32
  have := beBytes_beNat b
  rw [h] at this
  simpa using this

theorem fromBytes32_nonneg (b : Bytes) : 0 ≤ fromBytes32 b := by
  unfold fromBytes32; omega

theorem fromBytes32_lt (b : Bytes) (h : b.length = 32) : fromBytes32 b < 2 ^ 256 := by
  unfold fromBytes32
  have := leNat_lt b.reverse
  simp only [List.length_reverse, h, pow256_32] at this
  unfold beNat
  omega

/-! ## list shapes -/

theorem slice_length (b : Bytes) (i j : Nat) (h : j ≤ b.length) : (slice b i j).length = j - i := by
  simp [slice]; omega

theorem split33 (blob : Bytes) (b : UInt8) (h : blob.length = 33) (h0 : blob.take 1 = [b]) :
    blob = b :: slice blob 1 33 := by
  have h1 : blob = blob.take 1 ++ blob.drop 1 := (List.take_append_drop 1 blob).symm
  have h2 : slice blob 1 33 = blob.drop 1 := by
    unfold slice
    apply List.take_of_length_le
    simp; omega
  rw [h2, h0] at *
  simpa using h1

theorem split65 (blob : Bytes) (b : UInt8) (h : blob.length = 65) (h0 : blob.take 1 = [b]) :
    blob = b :: (slice blob 1 33 ++ slice blob 33 65) := by
  have h1 : blob = blob.take 1 ++ blob.drop 1 := (List.take_append_drop 1 blob).symm
  have h2 : blob.drop 1 = (blob.drop 1).take 32 ++ (blob.drop 1).drop 32 := (List.take_append_drop 32 _).symm
  have h3 : slice blob 33 65 = (blob.drop 1).drop 32 := by
    unfold slice
    rw [List.drop_drop]
    apply List.take_of_length_le
    simp; omega
  have h4 : slice blob 1 33 = (blob.drop 1).take 32 := by simp [slice]
  rw [h3, h4, ← h2]
  rw [h0] at h1
  simpa using h1

/-! ## `points_for_x` -/

theorem fmod2 (a : Int) : fmod a 2 = a % 2 := by
  unfold fmod
  exact Int.fmod_eq_emod_of_nonneg a (by decide)

/-- what a normal return of `points_for_x` looks like -/
theorem pointsForX_ok (c : CurveParams) (hp : 0 < c.p) (x : Int) (p0 p1 : Pt) (h : pointsForX c x = .ok (p0, p1)) :
    ∃ y0 : Int, 0 < y0 ∧ y0 < c.p ∧ containsXY c x y0 = true ∧ containsXY c x (c.p - y0) = true ∧
      ((y0 % 2 = 0 ∧ p0 = some (x, y0) ∧ p1 = some (x, c.p - y0)) ∨
       (y0 % 2 ≠ 0 ∧ p0 = some (x, c.p - y0) ∧ p1 = some (x, y0))) := by
  unfold pointsForX at h
  simp only at h
  generalize hy : modularSqrt c _ = y0 at h
  have hr : 0 ≤ y0 ∧ y0 < c.p := by
    rw [← hy]; unfold modularSqrt
    exact (powMod_spec c.p hp _ _).2
  by_cases hne : y0 = 0
  · rw [if_pos hne] at h; cases h
  · rw [if_neg hne] at h
    unfold mkPoint at h
    by_cases hc0 : containsXY c x y0 = true
    · by_cases hc1 : containsXY c x (c.p - y0) = true
      · simp only [hc0, hc1, if_true] at h
        rw [fmod2] at h
        refine ⟨y0, by omega, hr.2, hc0, hc1, ?_⟩
        by_cases he : y0 % 2 = 0
        · rw [if_pos he] at h
          injection h with h; injection h with h1 h2
          exact Or.inl ⟨he, h1.symm, h2.symm⟩
        · rw [if_neg he] at h
          injection h with h; injection h with h1 h2
          exact Or.inr ⟨he, h1.symm, h2.symm⟩
      · simp only [hc0, hc1, if_true] at h
        simp at h
    · simp only [hc0] at h
      simp at h

/-! ## strictness: an accepted blob is the unique encoding of its point -/

open Pycoin.KeyCtor in
/-- `Key.from_sec(blob)` returns only for the canonical encoding of a reduced curve point -/
theorem keyFromSec_strict (c : CurveParams) (hc : Field32 c) (blob : Bytes) (k : Key)
    (h : keyFromSec c blob = .ok k) :
    k.se = none ∧ 0 ≤ k.pub.1 ∧ k.pub.1 < c.p ∧ 0 ≤ k.pub.2 ∧ k.pub.2 < c.p ∧
    containsXY c k.pub.1 k.pub.2 = true ∧ k.compressed = isSecCompressed blob ∧
    publicPairToSec k.pub.1 k.pub.2 (isSecCompressed blob) = .ok blob ∧
    ((blob.length = 33 ∧ (blob.take 1 = [2] ∨ blob.take 1 = [3])) ∨ (blob.length = 65 ∧ blob.take 1 = [4])) := by
  have hp : 0 < c.p := by have := hc.odd; omega
  have hlt := hc.lt
  unfold keyFromSec at h
  split at h
  · cases h
  · rename_i x y hdec
    unfold keyFromPair at h
    simp only at h
    split at h
    · rename_i hon
      injection h with h
      subst h
      simp only
      unfold secToPublicPair at hdec
      simp only [hc.bc] at hdec
      split at hdec
      · -- uncompressed
        rename_i hlen
        split at hdec
        · rename_i hok
          have h4 : blob.take 1 = [4] := by simpa using hok
          split at hdec
          · cases hdec
          · rename_i hrange
            injection hdec with hdec
            injection hdec with hx hy
            have hl65 : blob.length = 65 := by omega
            have hs1 : (slice blob 1 (1 + 32)).length = 32 := by rw [slice_length _ _ _ (by omega)]
            have hs2 : (slice blob (1 + 32) (1 + 2 * 32)).length = 32 := by rw [slice_length _ _ _ (by omega)]
            have hcomp : isSecCompressed blob = false := by simp [isSecCompressed, h4]
            have hx0 := fromBytes32_nonneg (slice blob 1 (1 + 32))
            have hy0 := fromBytes32_nonneg (slice blob (1 + 32) (1 + 2 * 32))
            have hx1 := fromBytes32_lt _ hs1
            have hy1 := fromBytes32_lt _ hs2
            subst hx; subst hy
            refine ⟨trivial, hx0, by omega, hy0, by omega, hon, trivial, ?_, Or.inr ⟨hl65, h4⟩⟩
            rw [hcomp]
            unfold publicPairToSec
            rw [toBytes32_ok hx0 hx1, toBytes32_ok hy0 hy1]
            simp only [Bool.false_eq_true, if_false]
            rw [beBytes_fromBytes32 _ hs1, beBytes_fromBytes32 _ hs2]
            exact congrArg _ (split65 blob 4 hl65 h4).symm
        · cases hdec
      · split at hdec
        · -- compressed
          rename_i hlen65 hlen
          split at hdec
          · rename_i hpre
            have hpre' : blob.take 1 = [2] ∨ blob.take 1 = [3] := by simpa using hpre
            split at hdec
            · cases hdec
            · rename_i hrange
              have hl33 : blob.length = 33 := by omega
              have hs1 : (slice blob 1 (1 + 32)).length = 32 := by rw [slice_length _ _ _ (by omega)]
              have hx0 := fromBytes32_nonneg (slice blob 1 (1 + 32))
              have hx1 := fromBytes32_lt _ hs1
              have hcomp : isSecCompressed blob = true := by
                rcases hpre' with h2 | h3 <;> simp [isSecCompressed, *]
              split at hdec
              · cases hdec
              · rename_i p0 p1 hpfx
                obtain ⟨y0, hy0, hy0p, hc0, hc1, hsel⟩ := pointsForX_ok c hp _ p0 p1 hpfx
                have hodd := hc.odd
                -- the entry selected by the prefix
                have key : ∀ (b : UInt8) (yy : Int), blob.take 1 = [b] → 0 < yy → yy < c.p →
                    (b.toNat = 2 + (yy % 2).toNat) →
                    (x, y) = (fromBytes32 (slice blob 1 (1 + 32)), yy) →
                    publicPairToSec x y true = .ok blob := by
                  intro b yy hb _ _ hbv hxy
                  injection hxy with hx hy
                  subst hx; subst hy
                  unfold publicPairToSec
                  rw [toBytes32_ok hx0 hx1]
                  simp only [if_true]
                  rw [beBytes_fromBytes32 _ hs1, fmod2]
                  have : UInt8.ofNat (2 + (y % 2).toNat) = b := by
                    rw [← hbv]; simp
                  rw [this]
                  exact congrArg _ (split33 blob b hl33 hb).symm
                rcases hpre' with h2 | h3
                · -- prefix 02: the even entry
                  have hsel0 : (if blob.take 1 ≠ [2] then p1 else p0) = p0 := by simp [h2]
                  rw [hsel0] at hdec
                  rcases hsel with ⟨he, hp0, -⟩ | ⟨he, hp0, -⟩
                  · rw [hp0] at hdec
                    injection hdec with hdec
                    have hxy : (x, y) = (fromBytes32 (slice blob 1 (1 + 32)), y0) := hdec.symm
                    have := key 2 y0 h2 hy0 hy0p (by simp [he]) hxy
                    injection hxy with hx hy
                    subst hx; subst hy
                    exact ⟨trivial, hx0, by omega, by omega, hy0p, hon, trivial, by rw [hcomp]; exact this,
                      Or.inl ⟨hl33, Or.inl h2⟩⟩
                  · rw [hp0] at hdec
                    injection hdec with hdec
                    have hxy : (x, y) = (fromBytes32 (slice blob 1 (1 + 32)), (c.p : Int) - y0) := hdec.symm
                    have hev : ((c.p : Int) - y0) % 2 = 0 := by omega
                    have := key 2 ((c.p : Int) - y0) h2 (by omega) (by omega) (by simp [hev]) hxy
                    injection hxy with hx hy
                    subst hx; subst hy
                    exact ⟨trivial, hx0, by omega, by omega, by omega, hon, trivial, by rw [hcomp]; exact this,
                      Or.inl ⟨hl33, Or.inl h2⟩⟩
                · -- prefix 03: the odd entry
                  have hsel1 : (if blob.take 1 ≠ [2] then p1 else p0) = p1 := by simp [h3]
                  rw [hsel1] at hdec
                  rcases hsel with ⟨he, -, hp1⟩ | ⟨he, -, hp1⟩
                  · rw [hp1] at hdec
                    injection hdec with hdec
                    have hxy : (x, y) = (fromBytes32 (slice blob 1 (1 + 32)), (c.p : Int) - y0) := hdec.symm
                    have hev : ((c.p : Int) - y0) % 2 = 1 := by omega
                    have := key 3 ((c.p : Int) - y0) h3 (by omega) (by omega) (by simp [hev]) hxy
                    injection hxy with hx hy
                    subst hx; subst hy
                    exact ⟨trivial, hx0, by omega, by omega, by omega, hon, trivial, by rw [hcomp]; exact this,
                      Or.inl ⟨hl33, Or.inr h3⟩⟩
                  · rw [hp1] at hdec
                    injection hdec with hdec
                    have hxy : (x, y) = (fromBytes32 (slice blob 1 (1 + 32)), y0) := hdec.symm
                    have hev : y0 % 2 = 1 := by omega
                    have := key 3 y0 h3 hy0 hy0p (by simp [hev]) hxy
                    injection hxy with hx hy
                    subst hx; subst hy
                    exact ⟨trivial, hx0, by omega, by omega, hy0p, hon, trivial, by rw [hcomp]; exact this,
                      Or.inl ⟨hl33, Or.inr h3⟩⟩
          · cases hdec
        · cases hdec
    · cases h

end Pycoin.Sec
