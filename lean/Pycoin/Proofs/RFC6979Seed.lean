import Pycoin.Proofs.RFC6979
/-!
C01 — "the nonce depends on both key and hash", the part that needs no cryptographic assumption.

`deterministic_generate_k(n, d, z)` is a function of the octet string `int2octets(d) ‖ bits2octets(z)` (two fields of
`rlen/8` octets each) it feeds to HMAC — `hmacSeed` below, the code's own computation of it — and of nothing else;
that string is an injective encoding of the pair `(d, bits2int(z) mod n)`.  Hence two `(key, hash)` pairs get the same
HMAC-DRBG input blocks exactly when the keys are equal and the hashes agree after `bits2octets`; for a 256-bit order and
hashes below `2²⁵⁶` that is `z' ∈ {z, z + n, z − n}`.  Anything beyond ("distinct inputs give distinct nonces") is a
property of HMAC-SHA256, an assumption.
-/
namespace Pycoin.RFC6979
open Pycoin Pycoin.Curve Pycoin.Hash

/-- the hash value as it enters `h1`: shifted to `qlen` bits when the hash is longer, then `n` subtracted once -/
def reducedHash (n : Nat) (val : Int) : Int :=
  let bln := bitLength n
  let val := if 8 * hashSize > bln then val >>> (8 * hashSize - bln) else val
  if val ≥ n then val - n else val

/-- `priv + h1`: the two fields `deterministic_generate_k` appends to `V ‖ 0x00` and `V ‖ 0x01` -/
def hmacSeed (n : Nat) (d val : Int) : Except Err Bytes :=
  let orderSize := (bitLength n + 7) / 8
  match toBytesBE d orderSize with
  | .error e => .error e
  | .ok priv =>
    match toBytesBE (reducedHash n val) orderSize with
    | .error e => .error e
    | .ok h1 => .ok (priv ++ h1)

/-- the rest of `deterministic_generate_k`: HMAC-DRBG seeded with `seed` -/
def kFromSeed (fuel n : Nat) (seed : Bytes) : Except Err Int :=
  let bln := bitLength n
  let orderSize := (bln + 7) / 8
  let v : Bytes := List.replicate hashSize 1
  let k : Bytes := List.replicate hashSize 0
  let k := hmacSha256L k (v ++ [0] ++ seed)
  let v := hmacSha256L k v
  let k := hmacSha256L k (v ++ [1] ++ seed)
  let v := hmacSha256L k v
  kLoop n bln orderSize fuel k v

/-- the nonce is a function of the seed `int2octets(d) ‖ bits2octets(z)` alone -/
theorem deterministicK_factors (fuel n : Nat) (d val : Int) :
    deterministicGenerateKFuel fuel n d val =
      match hmacSeed n d val with
      | .error e => .error e
      | .ok seed => kFromSeed fuel n seed := by
  unfold deterministicGenerateKFuel hmacSeed kFromSeed reducedHash
  simp only
  cases toBytesBE d ((bitLength n + 7) / 8) with
  | error e => rfl
  | ok priv =>
    simp only
    split <;> rename_i heq <;> simp only [heq, List.append_assoc]

/-- the first HMAC message `V ‖ 0x00 ‖ seed` (key `0³²`) is an injective function of the seed -/
theorem first_block_inj (v : Bytes) (seed seed' : Bytes) (h : v ++ [0] ++ seed = v ++ [0] ++ seed') : seed = seed' :=
  List.append_cancel_left h

theorem toBytesBE_inj {a b : Int} {k : Nat} {x : Bytes} (ha : toBytesBE a k = .ok x) (hb : toBytesBE b k = .ok x) : a = b := by
  unfold toBytesBE at ha hb
  by_cases h0 : a < 0
  · rw [if_pos h0] at ha; cases ha
  by_cases h1 : b < 0
  · rw [if_pos h1] at hb; cases hb
  rw [if_neg h0] at ha
  rw [if_neg h1] at hb
  unfold beBytes? at ha hb
  by_cases h2 : a.toNat < 256 ^ k
  · by_cases h3 : b.toNat < 256 ^ k
    · rw [if_pos h2] at ha; rw [if_pos h3] at hb
      simp only [Except.ok.injEq] at ha hb
      have := congrArg beNat (ha.trans hb.symm)
      rw [beNat_beBytes_of_lt h2, beNat_beBytes_of_lt h3] at this
      omega
    · rw [if_neg h3] at hb; cases hb
  · rw [if_neg h2] at ha; cases ha

theorem toBytesBE_length {a : Int} {k : Nat} {x : Bytes} (ha : toBytesBE a k = .ok x) : x.length = k := by
  unfold toBytesBE at ha
  by_cases h0 : a < 0
  · rw [if_pos h0] at ha; cases ha
  rw [if_neg h0] at ha
  unfold beBytes? at ha
  by_cases h2 : a.toNat < 256 ^ k
  · rw [if_pos h2] at ha
    simp only [Except.ok.injEq] at ha
    rw [← ha]; simp
  · rw [if_neg h2] at ha; cases ha

/-- **injectivity of the encoding fed to HMAC**: two `(key, hash)` pairs give the same seed exactly when the keys are
equal and the hashes are equal after the code's `bits2octets` (any `n`, any integers, whenever both seeds exist) -/
theorem hmacSeed_eq_iff (n : Nat) (d d' val val' : Int) (x : Bytes) (hx : hmacSeed n d val = .ok x) :
    hmacSeed n d' val' = .ok x ↔
      (d = d' ∧ reducedHash n val = reducedHash n val' ∧ ∃ y, hmacSeed n d' val' = .ok y) := by
  unfold hmacSeed at hx ⊢
  simp only at hx ⊢
  cases hp : toBytesBE d ((bitLength n + 7) / 8) with
  | error e => rw [hp] at hx; cases hx
  | ok priv =>
    rw [hp] at hx; simp only at hx
    cases hh : toBytesBE (reducedHash n val) ((bitLength n + 7) / 8) with
    | error e => rw [hh] at hx; cases hx
    | ok h1 =>
      rw [hh] at hx; simp only [Except.ok.injEq] at hx
      cases hp' : toBytesBE d' ((bitLength n + 7) / 8) with
      | error e => simp
      | ok priv' =>
        simp only
        cases hh' : toBytesBE (reducedHash n val') ((bitLength n + 7) / 8) with
        | error e => simp
        | ok h1' =>
          simp only [Except.ok.injEq]
          constructor
          · intro he
            rw [← hx] at he
            obtain ⟨e1, e2⟩ := List.append_inj he (by rw [toBytesBE_length hp, toBytesBE_length hp'])
            subst e1; subst e2
            exact ⟨toBytesBE_inj hp hp', toBytesBE_inj hh hh', _, rfl⟩
          · rintro ⟨rfl, e2, -⟩
            rw [← e2, hh] at hh'
            rw [hp] at hp'
            injection hp' with hp'; injection hh' with hh'
            rw [← hp', ← hh', hx]

/-- for an order of exactly 256 bits (secp256k1, secp256r1) and hashes in `[0, 2²⁵⁶)`: `bits2octets` identifies `z` with
`z ± n` and nothing else -/
theorem reducedHash_eq_iff_256 (n : Nat) (hbl : bitLength n = 256) (z z' : Nat) (hz : z < 2 ^ 256) (hz' : z' < 2 ^ 256) :
    reducedHash n z = reducedHash n z' ↔ (z = z' ∨ z = z' + n ∨ z' = z + n) := by
  have hn0 : n ≠ 0 := by rintro rfl; simp [bitLength] at hbl
  have hle := two_pow_le n hn0
  rw [hbl] at hle
  unfold reducedHash hashSize
  simp only [hbl]
  norm_num
  split <;> split <;> omega

/-- the seed exists for every key below `n` and every hash below `2²⁵⁶` when `n` has 256 bits -/
theorem hmacSeed_ok_256 (n : Nat) (hbl : bitLength n = 256) (d z : Nat) (hd : d < n) (hz : z < 2 ^ 256) :
    ∃ x, hmacSeed n d z = .ok x := by
  have hn0 : n ≠ 0 := by rintro rfl; simp [bitLength] at hbl
  have hle := two_pow_le n hn0
  have hlt := lt_two_pow_bitLength n
  rw [hbl] at hle hlt
  unfold hmacSeed
  simp only [hbl]
  rw [toBytesBE_ok d _ (by rw [pow256]; omega)]
  simp only
  have hr : ∃ v : Nat, reducedHash n z = (v : Int) ∧ v < 2 ^ 256 := by
    unfold reducedHash hashSize
    simp only [hbl]
    norm_num
    split
    · exact ⟨z - n, by omega, by omega⟩
    · exact ⟨z, rfl, hz⟩
  obtain ⟨v, hv, hv2⟩ := hr
  rw [hv, toBytesBE_ok v _ (by rw [pow256]; omega)]
  exact ⟨_, rfl⟩

/-- **which (key, hash) pairs share their HMAC-DRBG input**, 256-bit order: exactly those with the same key and
`z' ∈ {z, z + n, z − n}` -/
theorem hmacSeed_eq_iff_256 (n : Nat) (hbl : bitLength n = 256) (d d' z z' : Nat) (hd : d < n) (hd' : d' < n)
    (hz : z < 2 ^ 256) (hz' : z' < 2 ^ 256) :
    hmacSeed n d z = hmacSeed n d' z' ↔ (d = d' ∧ (z = z' ∨ z = z' + n ∨ z' = z + n)) := by
  obtain ⟨x, hx⟩ := hmacSeed_ok_256 n hbl d z hd hz
  obtain ⟨x', hx'⟩ := hmacSeed_ok_256 n hbl d' z' hd' hz'
  rw [hx]
  constructor
  · intro h
    obtain ⟨e1, e2, -⟩ := (hmacSeed_eq_iff n d d' z z' x hx).mp h.symm
    exact ⟨by exact_mod_cast e1, (reducedHash_eq_iff_256 n hbl z z' hz hz').mp e2⟩
  · rintro ⟨rfl, h⟩
    exact ((hmacSeed_eq_iff n d d z z' x hx).mpr ⟨rfl, (reducedHash_eq_iff_256 n hbl z z' hz hz').mpr h, x', hx'⟩).symm

/-- the seed is what RFC 6979 prescribes: `int2octets(x) ‖ bits2octets(h1)` of the specification, for every order and
every 32-byte hash -/
theorem hmacSeed_eq_spec (n : Nat) (hn : n ≠ 0) (d : Nat) (hd : d < n) (h1 : Bytes) (hh : h1.length = 32) :
    hmacSeed n (d : Int) (beNat h1 : Int) = .ok (Spec.RFC6979.int2octets n d ++ Spec.RFC6979.bits2octets n h1) := by
  have hq : Spec.RFC6979.qlen n = bitLength n := rfl
  have hlt := lt_two_pow_bitLength n
  have hle := two_pow_le n hn
  have hbpos : 0 < bitLength n := by
    unfold bitLength; rw [if_neg hn]; omega
  have hsz : 2 ^ bitLength n ≤ 256 ^ ((bitLength n + 7) / 8) := by
    rw [pow256]; exact Nat.pow_le_pow_right (by norm_num) (by omega)
  have h2n : 2 ^ bitLength n ≤ 2 * n := by
    have : 2 ^ bitLength n = 2 * 2 ^ (bitLength n - 1) := by
      rw [← pow_succ']; congr 1; omega
    omega
  have hbe : beNat h1 < 2 ^ 256 := by
    have := leNat_lt h1.reverse
    rw [List.length_reverse, hh, pow256] at this
    exact this
  unfold hmacSeed reducedHash
  simp only
  rw [toBytesBE_ok d _ (by omega)]
  simp only
  have hv1 : (if 8 * hashSize > bitLength n then (beNat h1 : Int) >>> (8 * hashSize - bitLength n) else (beNat h1 : Int)) =
      ((Spec.RFC6979.bits2int n h1 : Nat) : Int) := by
    unfold Spec.RFC6979.bits2int hashSize
    simp only [hq, hh]
    by_cases hc : 8 * 32 > bitLength n
    · rw [if_pos hc, if_pos hc, Int.shiftRight_eq_div_pow]; norm_cast
    · rw [if_neg hc, if_neg hc]
  rw [hv1]
  have hb2 : Spec.RFC6979.bits2int n h1 < 2 * n := by
    unfold Spec.RFC6979.bits2int
    simp only [hq, hh]
    by_cases hc : 8 * 32 > bitLength n
    · rw [if_pos hc]
      have : beNat h1 / 2 ^ (8 * 32 - bitLength n) < 2 ^ bitLength n := by
        rw [Nat.div_lt_iff_lt_mul (Nat.two_pow_pos _), ← pow_add]
        rw [show bitLength n + (8 * 32 - bitLength n) = 256 by omega]; exact hbe
      omega
    · rw [if_neg hc]
      have : 2 ^ 256 ≤ 2 ^ bitLength n := Nat.pow_le_pow_right (by norm_num) (by omega)
      omega
  have hv2 : (if ((Spec.RFC6979.bits2int n h1 : Nat) : Int) ≥ (n : Int) then ((Spec.RFC6979.bits2int n h1 : Nat) : Int) - n
      else ((Spec.RFC6979.bits2int n h1 : Nat) : Int)) = ((Spec.RFC6979.bits2int n h1 % n : Nat) : Int) := by
    by_cases hc : Spec.RFC6979.bits2int n h1 ≥ n
    · rw [if_pos (by exact_mod_cast hc)]
      have : Spec.RFC6979.bits2int n h1 % n = Spec.RFC6979.bits2int n h1 - n := by
        rw [Nat.mod_eq_sub_mod hc, Nat.mod_eq_of_lt (by omega)]
      rw [this]; omega
    · rw [if_neg (by exact_mod_cast hc), Nat.mod_eq_of_lt (by omega)]
  rw [hv2, toBytesBE_ok _ _ (by have := Nat.mod_lt (Spec.RFC6979.bits2int n h1) (Nat.pos_of_ne_zero hn); omega)]
  rfl

end Pycoin.RFC6979
