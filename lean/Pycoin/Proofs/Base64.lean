import Pycoin.Model.MsgSigning
import Pycoin.Proofs.Bytes
/-! Lemmas about the base64 model (`b64Groups`, `a2bLoop`) and the byte/str helpers of `Model/MsgSigning.lean`. -/
namespace Pycoin.MsgSigning
open Pycoin

theorem b64Dec_enc : ∀ v, v < 64 → b64Dec? (b64Enc v) = some v := by decide
theorem b64Enc_ne_pad : ∀ v, v < 64 → b64Enc v ≠ 61 := by decide
theorem b64Enc_lt128 : ∀ v, v < 64 → (b64Enc v).toNat < 128 := by decide
theorem b64Enc_notSpace : ∀ v, v < 64 → isAsciiSpace (b64Enc v) = false := by decide

/-- one alphabet character through the decoder loop -/
theorem a2bLoop_enc (v : Nat) (hv : v < 64) (rest : Bytes) (q lc pads : Nat) :
    a2bLoop (b64Enc v :: rest) q lc pads =
      if q = 0 then a2bLoop rest 1 v 0
      else if q = 1 then (a2bLoop rest 2 (v % 16) 0).map (UInt8.ofNat (lc * 4 + v / 16) :: ·)
      else if q = 2 then (a2bLoop rest 3 (v % 4) 0).map (UInt8.ofNat (lc * 16 + v / 4) :: ·)
      else (a2bLoop rest 0 0 0).map (UInt8.ofNat (lc * 64 + v) :: ·) := by
  rw [a2bLoop]
  simp [b64Enc_ne_pad v hv, b64Dec_enc v hv]

theorem a2bLoop_enc0 (v : Nat) (hv : v < 64) (rest : Bytes) (lc pads : Nat) :
    a2bLoop (b64Enc v :: rest) 0 lc pads = a2bLoop rest 1 v 0 := by
  rw [a2bLoop_enc v hv]; simp
theorem a2bLoop_enc1 (v : Nat) (hv : v < 64) (rest : Bytes) (lc pads : Nat) :
    a2bLoop (b64Enc v :: rest) 1 lc pads = (a2bLoop rest 2 (v % 16) 0).map (UInt8.ofNat (lc * 4 + v / 16) :: ·) := by
  rw [a2bLoop_enc v hv]; simp
theorem a2bLoop_enc2 (v : Nat) (hv : v < 64) (rest : Bytes) (lc pads : Nat) :
    a2bLoop (b64Enc v :: rest) 2 lc pads = (a2bLoop rest 3 (v % 4) 0).map (UInt8.ofNat (lc * 16 + v / 4) :: ·) := by
  rw [a2bLoop_enc v hv]; simp
theorem a2bLoop_enc3 (v : Nat) (hv : v < 64) (rest : Bytes) (lc pads : Nat) :
    a2bLoop (b64Enc v :: rest) 3 lc pads = (a2bLoop rest 0 0 0).map (UInt8.ofNat (lc * 64 + v) :: ·) := by
  rw [a2bLoop_enc v hv]; simp

/-- a full group of three bytes decodes to itself -/
theorem a2bLoop_group3 (a b c : UInt8) (rest : Bytes) :
    a2bLoop (b64Enc (a.toNat / 4) :: b64Enc (a.toNat % 4 * 16 + b.toNat / 16) :: b64Enc (b.toNat % 16 * 4 + c.toNat / 64)
      :: b64Enc (c.toNat % 64) :: rest) 0 0 0 = (a2bLoop rest 0 0 0).map (fun r => a :: b :: c :: r) := by
  have ha := a.toNat_lt
  have hb := b.toNat_lt
  have hc := c.toNat_lt
  rw [a2bLoop_enc0 _ (by omega), a2bLoop_enc1 _ (by omega), a2bLoop_enc2 _ (by omega), a2bLoop_enc3 _ (by omega)]
  have h1 : a.toNat / 4 * 4 + (a.toNat % 4 * 16 + b.toNat / 16) / 16 = a.toNat := by omega
  have h2 : (a.toNat % 4 * 16 + b.toNat / 16) % 16 * 16 + (b.toNat % 16 * 4 + c.toNat / 64) / 4 = b.toNat := by omega
  have h3 : (b.toNat % 16 * 4 + c.toNat / 64) % 4 * 64 + c.toNat % 64 = c.toNat := by omega
  rw [h1, h2, h3]
  cases a2bLoop rest 0 0 0 <;> simp [Except.map]

theorem a2bLoop_group2 (a b : UInt8) (rest : Bytes) :
    a2bLoop (b64Enc (a.toNat / 4) :: b64Enc (a.toNat % 4 * 16 + b.toNat / 16) :: b64Enc (b.toNat % 16 * 4) :: 61 :: rest) 0 0 0
      = .ok [a, b] := by
  have ha := a.toNat_lt
  have hb := b.toNat_lt
  rw [a2bLoop_enc0 _ (by omega), a2bLoop_enc1 _ (by omega), a2bLoop_enc2 _ (by omega)]
  have h1 : a.toNat / 4 * 4 + (a.toNat % 4 * 16 + b.toNat / 16) / 16 = a.toNat := by omega
  have h2 : (a.toNat % 4 * 16 + b.toNat / 16) % 16 * 16 + (b.toNat % 16 * 4) / 4 = b.toNat := by omega
  rw [h1, h2]
  simp [a2bLoop, Except.map]

theorem a2bLoop_group1 (a : UInt8) (rest : Bytes) :
    a2bLoop (b64Enc (a.toNat / 4) :: b64Enc (a.toNat % 4 * 16) :: 61 :: 61 :: rest) 0 0 0 = .ok [a] := by
  have ha := a.toNat_lt
  rw [a2bLoop_enc0 _ (by omega), a2bLoop_enc1 _ (by omega)]
  have h1 : a.toNat / 4 * 4 + (a.toNat % 4 * 16) / 16 = a.toNat := by omega
  rw [h1]
  simp [a2bLoop, Except.map]

/-- `a2b_base64(b2a_base64(data))`, with or without the trailing newline, is `data` -/
theorem a2bLoop_b64Groups (b : Bytes) (tail : Bytes) (ht : a2bLoop tail 0 0 0 = .ok []) :
    a2bLoop (b64Groups b ++ tail) 0 0 0 = .ok b := by
  induction b using b64Groups.induct with
  | case1 a b c rest ih =>
    simp only [b64Groups, List.cons_append]
    rw [a2bLoop_group3, ih]; rfl
  | case2 a b => simp only [b64Groups, List.cons_append]; exact a2bLoop_group2 a b _
  | case3 a => simp only [b64Groups, List.cons_append]; exact a2bLoop_group1 a _
  | case4 => simpa [b64Groups] using ht

theorem a2bBase64_b2aBase64 (b : Bytes) : a2bBase64 (b2aBase64 b) = .ok b :=
  a2bLoop_b64Groups b [10] (by simp [a2bLoop, b64Dec?])

theorem a2bBase64_b64Groups (b : Bytes) : a2bBase64 (b64Groups b) = .ok b := by
  have := a2bLoop_b64Groups b [] (by simp [a2bLoop])
  simpa [a2bBase64] using this

/-- every character `b2a_base64` writes before the newline is an alphabet character or `=` -/
theorem b64Groups_chars (b : Bytes) : ∀ x ∈ b64Groups b, x.toNat < 128 ∧ isAsciiSpace x = false := by
  have key : ∀ v, v < 64 → (b64Enc v).toNat < 128 ∧ isAsciiSpace (b64Enc v) = false :=
    fun v hv => ⟨b64Enc_lt128 v hv, b64Enc_notSpace v hv⟩
  have pad : (61 : UInt8).toNat < 128 ∧ isAsciiSpace 61 = false := by decide
  induction b using b64Groups.induct with
  | case1 a b c rest ih =>
    have ha := a.toNat_lt; have hb := b.toNat_lt; have hc := c.toNat_lt
    intro x hx
    simp only [b64Groups, List.mem_cons] at hx
    rcases hx with h | h | h | h | h
    · subst h; exact key _ (by omega)
    · subst h; exact key _ (by omega)
    · subst h; exact key _ (by omega)
    · subst h; exact key _ (by omega)
    · exact ih x h
  | case2 a b =>
    have ha := a.toNat_lt; have hb := b.toNat_lt
    intro x hx
    simp only [b64Groups, List.mem_cons, List.not_mem_nil, or_false] at hx
    rcases hx with h | h | h | h
    · subst h; exact key _ (by omega)
    · subst h; exact key _ (by omega)
    · subst h; exact key _ (by omega)
    · subst h; exact pad
  | case3 a =>
    have ha := a.toNat_lt
    intro x hx
    simp only [b64Groups, List.mem_cons, List.not_mem_nil, or_false] at hx
    rcases hx with h | h | h | h
    · subst h; exact key _ (by omega)
    · subst h; exact key _ (by omega)
    · subst h; exact pad
    · subst h; exact pad
  | case4 => intro x hx; simp [b64Groups] at hx

theorem dropWhile_of_all_false {α} (p : α → Bool) (l : List α) (h : ∀ x ∈ l, p x = false) : l.dropWhile p = l := by
  cases l with
  | nil => rfl
  | cons x t => simp [List.dropWhile, h x (by simp)]

/-- `.strip()` removes exactly the newline `b2a_base64` appends -/
theorem bytesStrip_b2aBase64 (b : Bytes) : bytesStrip (b2aBase64 b) = b64Groups b := by
  have hall := b64Groups_chars b
  unfold bytesStrip b2aBase64
  cases hg : b64Groups b with
  | nil => decide
  | cons x t =>
    have hx : isAsciiSpace x = false := (hall x (by simp [hg])).2
    have h1 : ((x :: t) ++ [10]).dropWhile isAsciiSpace = (x :: t) ++ [10] := by
      simp [hx]
    rw [h1]
    have h2 : ((x :: t) ++ [10]).reverse = 10 :: (x :: t).reverse := by simp
    rw [h2]
    have h3 : (10 :: (x :: t).reverse).dropWhile isAsciiSpace = (x :: t).reverse.dropWhile isAsciiSpace := by
      simp [List.dropWhile, show isAsciiSpace 10 = true by decide]
    rw [h3, dropWhile_of_all_false]
    · simp
    · intro y hy
      have hm : y ∈ x :: t := List.mem_reverse.mp hy
      exact (hall y (hg ▸ hm)).2

theorem charOfNat_toNat : ∀ n, n < 128 → (Char.ofNat n).toNat = n := by decide

theorem asciiBytes_asciiStr (b : Bytes) (h : ∀ x ∈ b, x.toNat < 128) : asciiBytes? (asciiStr b) = some b := by
  induction b with
  | nil => rfl
  | cons x t ih =>
    have hx := h x (by simp)
    have ht := ih (fun y hy => h y (by simp [hy]))
    simp only [asciiBytes?, asciiStr, List.map_cons, List.mapM_cons] at ht ⊢
    have hc : (Char.ofNat x.toNat).toNat = x.toNat := charOfNat_toNat _ hx
    simp [hc, hx, ht]

/-- the text `b2a_base64(data).strip().decode()` decodes back to `data` -/
theorem a2bBase64Str_encode (b : Bytes) : a2bBase64Str (asciiStr (bytesStrip (b2aBase64 b))) = .ok b := by
  rw [bytesStrip_b2aBase64]
  unfold a2bBase64Str
  rw [asciiBytes_asciiStr _ (fun x hx => (b64Groups_chars b x hx).1)]
  exact a2bBase64_b64Groups b

end Pycoin.MsgSigning
