import Pycoin.Proofs.GenMul
/-!
F6 — results of `multiply`, `raw_mul` and `__mul__` have reduced coordinates when their inputs do
(needed where an integer coordinate is read off a result: ECDSA's `x mod n`).
-/
namespace Pycoin.Curve
open Pycoin WeierstrassCurve

variable (c : CurveParams) [Good c]

theorem ladderLoop_reduced {px py : Int} (hP : containsXY c px py = true) (rP : Reduced c (some (px, py)))
    (hy : 0 < py) (e e3 : Nat) :
    ∀ (fuel i : Nat) (r R : Pt), OnCurve c r → Reduced c r →
      ladderLoop c (some (px, py)) e e3 fuel i r = .ok R → Reduced c R := by
  intro fuel
  induction fuel with
  | zero =>
    intro i r R _ hr h
    unfold ladderLoop at h
    by_cases hi : i ≤ 1
    · rw [if_pos hi] at h; cases h; exact hr
    · rw [if_neg hi] at h; cases h
  | succ f ih =>
    intro i r R hc hr h
    unfold ladderLoop at h
    by_cases hi : i ≤ 1
    · rw [if_pos hi] at h; cases h; exact hr
    · rw [if_neg hi] at h
      obtain ⟨r2, hr2, hr2c, -, -, hr2r⟩ := add_refines c r r hc hc
      simp only [hr2] at h
      have r2r := hr2r hr hr
      by_cases h3 : e3 &&& i ≠ 0
      · rw [if_pos h3] at h
        obtain ⟨s, hs, hsc, -, -, hsr⟩ := add_refines c r2 (some (px, py)) hr2c hP
        simp only [hs] at h
        by_cases hb : e &&& i ≠ 0
        · rw [if_pos hb] at h; exact ih _ _ _ hr2c r2r h
        · rw [if_neg hb] at h; exact ih _ _ _ hsc (hsr r2r rP) h
      · rw [if_neg h3] at h
        obtain ⟨hn, hnc, -⟩ := neg_refines c hP
        have rN : Reduced c (some (px, (c.p : Int) - py)) := by
          obtain ⟨a1, a2, a3, a4⟩ := rP
          exact ⟨a1, a2, by omega, by omega⟩
        obtain ⟨s, hs, hsc, -, -, hsr⟩ := add_refines c r2 (some (px, (c.p : Int) - py)) hr2c hnc
        have hsub : sub c r2 (some (px, py)) = .ok s := by simp [sub, hn, hs]
        simp only [hsub] at h
        by_cases hb : e &&& i ≠ 0
        · rw [if_pos hb] at h; exact ih _ _ _ hsc (hsr r2r rN) h
        · rw [if_neg hb] at h; exact ih _ _ _ hr2c r2r h

/-- `multiply` hands back reduced coordinates for a reduced operand whose `y` is not `0` -/
theorem multiply_reduced (P : Pt) (hP : OnCurve c P) (rP : Reduced c P) (hy : ∀ x y, P = some (x, y) → 0 < y)
    (e : Int) (R : Pt) (h : multiply c P e = .ok R) : Reduced c R := by
  unfold multiply at h
  simp only at h
  generalize (if c.n ≠ 0 then fmod e c.n else e) = e' at h
  by_cases h0 : P = none ∨ e' = 0
  · rw [if_pos h0] at h; cases h; trivial
  · rw [if_neg h0] at h
    push Not at h0
    obtain ⟨⟨px, py⟩, rfl⟩ : ∃ q, P = some q := Option.ne_none_iff_exists'.mp h0.1
    cases hl : leftmostBit (3 * e') with
    | error er => rw [hl] at h; cases h
    | ok l =>
      rw [hl] at h
      exact ladderLoop_reduced c hP rP (hy px py rfl) _ _ _ _ _ R hP rP h

/-- a table of reduced points -/
def TableReduced : List Pt → Prop
  | [] => True
  | g :: gs => Reduced c g ∧ TableReduced gs

theorem powersLoop_reduced : ∀ (k : Nat) (g : Pt) (l : List Pt), OnCurve c g → Reduced c g →
    powersLoop c k g = .ok l → TableReduced c l := by
  intro k
  induction k with
  | zero => intro g l _ _ h; cases h; trivial
  | succ k ih =>
    intro g l hg rg h
    obtain ⟨g2, h1, h2, -, -, h4⟩ := add_refines c g g hg hg
    unfold powersLoop at h
    simp only [h1] at h
    split at h
    · cases h
    · rename_i l' hl'
      cases h
      exact ⟨rg, ih g2 l' h2 (h4 rg rg) hl'⟩

theorem rawMulLoop_reduced : ∀ (l : List Pt) (B : (W c).Point) (e : Int) (P R : Pt), IsTable c B l → TableReduced c l →
    OnCurve c P → Reduced c P → rawMulLoop c l e P = .ok R → Reduced c R := by
  intro l
  induction l with
  | nil => intro B e P R _ _ _ rP h; cases h; exact rP
  | cons g gs ih =>
    intro B e P R ht hr hP rP h
    obtain ⟨hg, -, hrest⟩ := ht
    obtain ⟨rg, rrest⟩ := hr
    obtain ⟨s, hs, hsc, -, -, hsr⟩ := add_refines c P g hP hg
    unfold rawMulLoop at h
    simp only [hs] at h
    by_cases hb : fmod e 2 = 1
    · rw [if_pos hb] at h; exact ih _ _ _ _ hrest rrest hsc (hsr rP rg) h
    · rw [if_neg hb] at h; exact ih _ _ _ _ hrest rrest hP rP h

theorem rawMul_reduced (hG : containsXY c c.gx c.gy = true) (rG : Reduced c (basis c)) (e : Int) (R : Pt)
    (h : rawMul c e = .ok R) : Reduced c R := by
  unfold rawMul at h
  split at h
  · cases h
  · obtain ⟨tbl, h1, -, ht⟩ := powersLoop_spec c 256 (basis c) hG
    have hr := powersLoop_reduced c 256 (basis c) tbl hG rG h1
    unfold powers at h
    simp only [h1] at h
    exact rawMulLoop_reduced c tbl _ _ none R ht hr rfl trivial h

theorem mulG_reduced (hG : containsXY c c.gx c.gy = true) (rG : Reduced c (basis c)) (hn0 : c.n ≠ 0)
    (hn256 : c.n ≤ 2 ^ 256) (hn : (c.n : Int) • toPoint c (basis c) = 0) (bf e : Int) (R : Pt)
    (h : mulG c bf e = .ok R) : Reduced c R := by
  obtain ⟨A, a1, a2, -⟩ := rawMul_refines c hG hn0 hn256 hn (e + bf)
  obtain ⟨M, m1, m2, -⟩ := rawMul_refines c hG hn0 hn256 hn (-bf)
  obtain ⟨S, r1, -, -, -, r4⟩ := add_refines c A M a2 m2
  have : mulG c bf e = .ok S := by simp [mulG, a1, m1, r1]
  rw [this] at h; cases h
  exact r4 (rawMul_reduced c hG rG _ _ a1) (rawMul_reduced c hG rG _ _ m1)

end Pycoin.Curve
