import Pycoin.Proofs.TxWire
/-! The prefix law for whole transactions: `bitcoin.Tx.parse` and `LTCTx.parse` undo `Tx.stream` (helper lemmas of C07). -/
namespace Pycoin
open Pycoin.Wire

theorem Tx.stream_parts (tx : Tx) (b : Bytes) (h : tx.stream false true = .ok b) :
    ∃ v nin ins nout outs wit lock,
      streamStruct tbl ['L'] [.int tx.version] = .ok v ∧
      streamSatoshiInt tx.ins.length = .ok nin ∧
      streamList (fun t : TxIn => t.stream) tx.ins = .ok ins ∧
      streamSatoshiInt tx.outs.length = .ok nout ∧
      streamList TxOut.stream tx.outs = .ok outs ∧
      (if tx.hasWitnessData = true then streamList (fun t : TxIn => Tx.streamWitness t.witness) tx.ins else .ok []) = .ok wit ∧
      streamStruct tbl ['L'] [.int tx.lockTime] = .ok lock ∧
      b = v ++ ((if tx.hasWitnessData = true then [0, 1] else []) ++ (nin ++ (ins ++ (nout ++ (outs ++ (wit ++ lock)))))) := by
  unfold Tx.stream at h
  simp only [bind_eq_ok, Bool.true_and] at h
  obtain ⟨v, hv, nin, hnin, ins, hins, nout, hnout, outs, houts, wit, hwit, lock, hlock, h⟩ := h
  simp only [pure, Except.pure] at h
  have h := Except.ok.inj h
  exact ⟨v, nin, ins, nout, outs, wit, lock, hv, streamStruct_I _ _ hnin, hins, streamStruct_I _ _ hnout, houts, hwit, hlock, h.symm⟩

theorem map_strip_of_noWitness : ∀ (ins : List TxIn), (∀ t ∈ ins, t.witness = []) → ins.map TxIn.strip = ins
  | [], _ => rfl
  | a :: as, h => by
    simp only [List.map_cons]
    rw [map_strip_of_noWitness as (fun t ht => h t (by simp [ht]))]
    have := h a (by simp)
    cases a
    simp only at this
    subst this
    rfl

theorem parseSatoshiInt_some (x : UInt8) (r : Bytes) :
    parseSatoshiInt (some x.toNat) r = parseSatoshiInt none (x :: r) := by
  simp [parseSatoshiInt, readByte]

theorem Tx.parseBtc_stream (tx : Tx) (b rest : Bytes)
    (hwf : ∀ t ∈ tx.ins, t.prevHash.length = 32 ∧ LenOk t.script ∧ ∀ w ∈ t.witness, LenOk w)
    (hout : ∀ o ∈ tx.outs, LenOk o.script) (hne : tx.ins ≠ [])
    (h : tx.stream false true = .ok b) : Tx.parseBtc true (b ++ rest) = .ok (tx, rest) := by
  obtain ⟨v, nin, ins, nout, outs, wit, lock, hv, hnin, hins, hnout, houts, hwit, hlock, rfl⟩ := Tx.stream_parts tx b h
  have h1 := parseInt1_L _ _ (((if tx.hasWitnessData = true then [0, 1] else []) ++ (nin ++ (ins ++ (nout ++ (outs ++ (wit ++ lock)))))) ++ rest) hv
  unfold Tx.parseBtc
  simp only [List.append_assoc] at h1 ⊢
  simp only [Gen.Formats.tx_parse_version, h1, bind, Except.bind]
  have hwf1 : ∀ t ∈ tx.ins, t.prevHash.length = 32 ∧ LenOk t.script := fun t ht => ⟨(hwf t ht).1, (hwf t ht).2.1⟩
  by_cases hw : tx.hasWitnessData = true
  · simp only [hw, if_true] at hwit ⊢
    have h2 := (parseSatoshiInt_streamSatoshiInt _ nin (ins ++ (nout ++ (outs ++ (wit ++ (lock ++ rest))))) hnin).1
    have h3 := parseN_txIn tx.ins ins (nout ++ (outs ++ (wit ++ (lock ++ rest)))) hwf1 hins
    have h4 := (parseSatoshiInt_streamSatoshiInt _ nout (outs ++ (wit ++ (lock ++ rest))) hnout).1
    have h5 := parseN_txOut tx.outs outs (wit ++ (lock ++ rest)) hout houts
    have h6 := parseWitnesses_stream tx.ins wit (lock ++ rest) (fun t ht => (hwf t ht).2.2) hwit
    have h7 := parseInt1_L _ _ rest hlock
    rw [Int.toNat_natCast] at h2 h4
    simp only [List.cons_append, List.nil_append, readByte, btcMarker]
    have e1 : (true && UInt8.toNat 0 == 0) = true := by decide
    have e2 : ¬ ((1 : UInt8) = 0) := by decide
    have e3 : UInt8.toNat 1 &&& 1 ≠ 0 := by decide
    simp only [e1, e2, if_true, if_false]
    rw [if_pos e3]
    simp only [h2, h3, h4, h5, h6, if_true, Gen.Formats.tx_parse_lockTime, h7, pure, Except.pure]
  · simp only [hw, if_false] at hwit ⊢
    have hwit := Except.ok.inj hwit
    subst hwit
    have hlen : 1 ≤ tx.ins.length := by
      cases hi : tx.ins with
      | nil => exact absurd hi hne
      | cons _ _ => simp
    obtain ⟨x, t, rfl, hx⟩ := streamSatoshiInt_head _ nin hlen hnin
    have h2 := (parseSatoshiInt_streamSatoshiInt _ (x :: t) (ins ++ (nout ++ (outs ++ ([] ++ (lock ++ rest))))) hnin).1
    have h3 := parseN_txIn tx.ins ins (nout ++ (outs ++ ([] ++ (lock ++ rest)))) hwf1 hins
    have h4 := (parseSatoshiInt_streamSatoshiInt _ nout (outs ++ ([] ++ (lock ++ rest))) hnout).1
    have h5 := parseN_txOut tx.outs outs ([] ++ (lock ++ rest)) hout houts
    have h7 := parseInt1_L _ _ rest hlock
    rw [Int.toNat_natCast] at h2 h4
    have hstrip : tx.ins.map TxIn.strip = tx.ins := map_strip_of_noWitness tx.ins (by
      have : tx.hasWitnessData = false := by simpa using hw
      unfold Tx.hasWitnessData at this
      rw [List.any_eq_false] at this
      intro t ht
      simpa using this t ht)
    rw [hstrip] at h3
    have e1 : (true && x.toNat == 0) = false := by simp [hx]
    simp only [List.cons_append, List.nil_append] at h2 h3 h4 h5 ⊢
    simp only [List.nil_append, readByte, btcMarker, e1, Bool.false_eq_true, if_false, parseSatoshiInt_some, h2, h3, h4, h5,
      Gen.Formats.tx_parse_lockTime, h7, pure, Except.pure]

theorem Tx.parseLtc_stream (tx : Tx) (b rest : Bytes)
    (hwf : ∀ t ∈ tx.ins, t.prevHash.length = 32 ∧ LenOk t.script ∧ ∀ w ∈ t.witness, LenOk w)
    (hout : ∀ o ∈ tx.outs, LenOk o.script) (hne : tx.ins ≠ [])
    (h : tx.stream false true = .ok b) : Tx.parseLtc (b ++ rest) = .ok (tx, rest) := by
  obtain ⟨v, nin, ins, nout, outs, wit, lock, hv, hnin, hins, hnout, houts, hwit, hlock, rfl⟩ := Tx.stream_parts tx b h
  have h1 := parseInt1_L _ _ (((if tx.hasWitnessData = true then [0, 1] else []) ++ (nin ++ (ins ++ (nout ++ (outs ++ (wit ++ lock)))))) ++ rest) hv
  unfold Tx.parseLtc
  simp only [List.append_assoc] at h1 ⊢
  simp only [Gen.Formats.ltcTx_parse_version, h1, bind, Except.bind]
  have hwf1 : ∀ t ∈ tx.ins, t.prevHash.length = 32 ∧ LenOk t.script := fun t ht => ⟨(hwf t ht).1, (hwf t ht).2.1⟩
  by_cases hw : tx.hasWitnessData = true
  · simp only [hw, if_true] at hwit ⊢
    have h2 := (parseSatoshiInt_streamSatoshiInt _ nin (ins ++ (nout ++ (outs ++ (wit ++ (lock ++ rest))))) hnin).1
    have h3 := parseN_txIn tx.ins ins (nout ++ (outs ++ (wit ++ (lock ++ rest)))) hwf1 hins
    have h4 := (parseSatoshiInt_streamSatoshiInt _ nout (outs ++ (wit ++ (lock ++ rest))) hnout).1
    have h5 := parseN_txOut tx.outs outs (wit ++ (lock ++ rest)) hout houts
    have h6 := parseWitnesses_stream tx.ins wit (lock ++ rest) (fun t ht => (hwf t ht).2.2) hwit
    have h7 := parseInt1_L _ _ rest hlock
    rw [Int.toNat_natCast] at h2 h4
    simp only [List.cons_append, List.nil_append, readByte, ltcMarker]
    have e1 : UInt8.toNat 0 = 0 := by decide
    have e2 : ¬ ((1 : UInt8) = 0) := by decide
    have e3 : decide (UInt8.toNat 1 &&& 1 ≠ 0) = true := by decide
    have e4 : decide (UInt8.toNat 1 &&& 8 ≠ 0) = false := by decide
    simp only [e1, e2, e3, e4, if_true, if_false, h2, h3, h4, h5, h6, Bool.false_eq_true,
      Gen.Formats.ltcTx_parse_lockTime, h7, pure, Except.pure]
  · simp only [hw, if_false] at hwit ⊢
    have hwit := Except.ok.inj hwit
    subst hwit
    have hlen : 1 ≤ tx.ins.length := by
      cases hi : tx.ins with
      | nil => exact absurd hi hne
      | cons _ _ => simp
    obtain ⟨x, t, rfl, hx⟩ := streamSatoshiInt_head _ nin hlen hnin
    have h2 := (parseSatoshiInt_streamSatoshiInt _ (x :: t) (ins ++ (nout ++ (outs ++ ([] ++ (lock ++ rest))))) hnin).1
    have h3 := parseN_txIn tx.ins ins (nout ++ (outs ++ ([] ++ (lock ++ rest)))) hwf1 hins
    have h4 := (parseSatoshiInt_streamSatoshiInt _ nout (outs ++ ([] ++ (lock ++ rest))) hnout).1
    have h5 := parseN_txOut tx.outs outs ([] ++ (lock ++ rest)) hout houts
    have h7 := parseInt1_L _ _ rest hlock
    rw [Int.toNat_natCast] at h2 h4
    have hstrip : tx.ins.map TxIn.strip = tx.ins := map_strip_of_noWitness tx.ins (by
      have : tx.hasWitnessData = false := by simpa using hw
      unfold Tx.hasWitnessData at this
      rw [List.any_eq_false] at this
      intro t ht
      simpa using this t ht)
    rw [hstrip] at h3
    have e1 : ¬ (x.toNat = 0) := hx
    simp only [List.cons_append, List.nil_append] at h2 h3 h4 h5 ⊢
    simp only [List.nil_append, readByte, ltcMarker, e1, Bool.false_eq_true, if_false, parseSatoshiInt_some, h2, h3, h4, h5,
      Gen.Formats.ltcTx_parse_lockTime, h7, pure, Except.pure]

end Pycoin
