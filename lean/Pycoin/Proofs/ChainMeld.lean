import Pycoin.Proofs.ChainMeldStep
/-! `meld_new_hashes` / `load_nodes` keep the finder invariant, for every pop order (core Lean only) -/
namespace Pycoin.Chain

theorem siter_ne_nil (rev : Bool) (d : Nat) (ds : List Nat) : siter rev (d :: ds) ≠ [] := by
  cases rev <;> simp [siter]

theorem siter_nodup (rev : Bool) (s : PSet) (h : s.Nodup) : (siter rev s).Nodup := by
  cases rev
  · simpa [siter] using h
  · simp only [siter, if_true]
    simpa [List.Nodup, List.pairwise_reverse, eq_comm] using h

/-- one turn of the outer loop: `h` is popped from `P` and melded -/
theorem meldOne_inv (rev : Bool) (P : List Nat) (cf cf' : CF) (h : Nat)
    (inv : InvX P [] cf) (hP : h ∈ P) (hreg : ∃ v, dget cf.parent h = some v)
    (hr : meldOne rev (sremove P h) cf h = .ok cf') :
    InvX (sremove P h) [] cf' ∧ cf'.parent = cf.parent := by
  unfold meldOne at hr
  obtain ⟨⟨path, cf1⟩, hw, hr⟩ := bind_ok hr
  dsimp only at hr
  have hsub : ∀ z ∈ sremove P h, z ∈ P := fun z hz => ((mem_sremove P h z).mp hz).1
  obtain ⟨ext, e1, up, hpar1, inv1, hne⟩ :=
    walkUp_spec P (sremove P h) hsub _ cf [h] h path cf1 inv (not_mem_sremove_self P h) hw
  obtain ⟨v, hv⟩ := hreg
  have hextne := hne v hv
  have hpath : path = h :: ext := by simpa using e1
  subst hpath
  obtain ⟨top, hl⟩ : ∃ top, ext.getLast? = some top := ⟨ext.getLast hextne, List.getLast?_eq_some_getLast hextne⟩
  have hlast : (h :: ext).getLast? = some top := by
    rw [show h :: ext = [h] ++ ext from rfl, List.getLast?_append, hl]; rfl
  have htopD : (h :: ext).getLastD h = top := by
    rw [List.getLastD_eq_getLast?, hlast]; rfl
  rw [htopD] at hr
  split at hr
  · cases hr
  · rename_i htop
    have D2 := setdefault_get cf1.dbt top
    generalize (if dhas cf1.dbt top = true then cf1.dbt else dset cf1.dbt top []) = dbt2 at hr D2
    have hup : UpQ cf1.parent (sremove P h) (sremove P h) (h :: ext) := by
      rw [hpar1]
      apply UpQ.change_end _ up
      intro x hx
      rw [hlast] at hx; injection hx with hx; subst hx
      rcases UpQ.last _ up top hlast with h1 | h1
      · exact Or.inl h1
      · exact Or.inr ((mem_sremove P h top).mpr ⟨h1, htop⟩)
    have hts : (dget dbt2 top).getD [] = (dget cf1.dbt top).getD [] := by rw [D2]; simp
    have D2h : dget dbt2 h = dget cf1.dbt h := by rw [D2, if_neg htop]
    split at hr
    · rename_i d ds hWeq
      obtain ⟨trees3, hext, hr⟩ := bind_ok hr
      simp only [Except.ok.injEq] at hr; subst hr
      have hW : dget cf1.dbt h = some (d :: ds) := by rw [← D2h]; exact hWeq
      have hnd : (siter rev (d :: ds)).Nodup := siter_nodup rev _ (inv1.nodup h _ hW)
      have hbn : h ∉ siter rev (d :: ds) := by
        rw [mem_siter]; intro hm
        obtain ⟨t, ht, _⟩ := inv1.dsound h _ h hW hm
        exact inv1.key_not_pending h t ht hP
      have T3raw := extendWaiting_spec h (List.drop 1 (h :: ext)) _ _ trees3 hnd hbn hext
      refine ⟨?_, hpar1⟩
      refine final_W rev P h top ext (d :: ds) ((dget cf1.dbt top).getD []) cf1 _ inv1 hP rfl hup hl htop hW
        (by simp) rfl ?_ ?_
      · intro k
        show dget trees3 k = _
        rw [T3raw k]
        by_cases e : k = h
        · simp [e, siter_ne_nil]
        · simp [e, mem_siter, dget_dset_ne _ _ (Ne.symm e)]
      · intro k
        show dget (dset (ddel dbt2 h) top (supdate rev ((dget dbt2 top).getD []) (d :: ds))) k = _
        rw [hts, dget_dset]
        by_cases e : top = k
        · simp [e]
        · rw [if_neg e, if_neg e, dget_ddel]
          by_cases e2 : h = k
          · simp [e2]
          · rw [if_neg e2, if_neg e2, D2, if_neg e]
    · rename_i hNo
      simp only [Except.ok.injEq] at hr; subst hr
      refine ⟨?_, hpar1⟩
      refine final_N P h top ext ((dget cf1.dbt top).getD []) cf1 _ inv1 hP rfl hup hl htop ?_ rfl ?_ ?_
      · intro d ds hd
        exact hNo d ds (by rw [D2h]; exact hd)
      · intro k
        show dget (dset cf1.trees h (h :: ext)) k = _
        rw [dget_dset]
      · intro k
        show dget (dset dbt2 top (sadd ((dget dbt2 top).getD []) h)) k = _
        rw [hts, dget_dset]
        by_cases e : top = k
        · simp [e]
        · rw [if_neg e, if_neg e, D2, if_neg e]

/-- the outer `while`: whatever the ranking, when the set is drained the invariant holds with nothing pending -/
theorem meld_inv (rev : Bool) (rank : List Nat) : ∀ (n : Nat) (P : PSet) (cf cf' : CF),
    InvX P [] cf → (∀ h ∈ P, ∃ v, dget cf.parent h = some v) → P.length ≤ n →
    meld rev rank n P cf = .ok cf' → InvX [] [] cf' ∧ cf'.parent = cf.parent
  | 0, P, cf, cf', inv, _, hl, hr => by
      have : P = [] := List.length_eq_zero_iff.mp (Nat.le_zero.mp hl)
      subst this
      simp only [meld, Except.ok.injEq] at hr; subst hr
      exact ⟨inv, rfl⟩
  | n + 1, P, cf, cf', inv, hreg, hl, hr => by
      unfold meld at hr
      split at hr
      · rename_i hp
        have : P = [] := pick_none rank P hp
        subst this
        simp only [Except.ok.injEq] at hr; subst hr
        exact ⟨inv, rfl⟩
      · rename_i h hp
        have hm := pick_mem rank P h hp
        obtain ⟨cf1, h1, hr⟩ := bind_ok hr
        obtain ⟨inv1, par1⟩ := meldOne_inv rev P cf cf1 h inv hm (hreg h hm) h1
        have hlen := sremove_length_lt P h hm
        obtain ⟨inv2, par2⟩ := meld_inv rev rank n (sremove P h) cf1 cf' inv1
          (by intro h' hh'; rw [par1]; exact hreg h' ((mem_sremove P h h').mp hh').1) (by omega) hr
        exact ⟨inv2, by rw [par2, par1]⟩

/-- **`load_nodes` keeps the invariant**, for every batch, every pop ranking and either iteration order -/
theorem loadNodes_inv (rev : Bool) (rank : List Nat) (cf cf' : CF) (nodes : List (Nat × Nat))
    (inv : InvX [] [] cf) (hr : cf.loadNodes rev rank nodes = .ok cf') : InvX [] [] cf' := by
  unfold CF.loadNodes at hr
  have hnew0 : ∀ x ∈ (register cf.parent [] nodes).2, dget cf.parent x = none := by
    intro x hx
    rcases register_snd nodes cf.parent [] x hx with h | h
    · simp at h
    · exact h
  have inv0 : InvX (register cf.parent [] nodes).2 [] { cf with parent := (register cf.parent [] nodes).1 } := by
    refine ⟨?_, inv.dsound, inv.dcompl, ?_, inv.nodup⟩
    · intro b t hb
      obtain ⟨a1, a2, a3⟩ := inv.tree b t hb
      refine ⟨a1, a2, UpQ.register (fun k v hk => register_ext nodes _ _ k v hk) hnew0 ?_ t a3⟩
      intro x hx
      cases hv : dget (register cf.parent [] nodes).1 x with
      | none => exact Or.inl rfl
      | some v =>
        rcases register_reg nodes _ _ x v hv with h | h
        · rw [hx] at h; cases h
        · exact Or.inr h
    · intro x v hx hxp
      simp only at hx
      rcases register_reg nodes _ _ x v hx with h | h
      · exact inv.covers x v h (by simp)
      · exact absurd h hxp
  exact (meld_inv rev rank _ _ _ cf' inv0
    (register_snd_reg nodes cf.parent [] (by simp)) (Nat.le_refl _) hr).1

theorem InvX.sound {cf : CF} (inv : InvX [] [] cf) : FinderSound cf :=
  ⟨fun b t hb => ⟨(inv.tree b t hb).1, (UpQ_nil_iff _ t).mp (inv.tree b t hb).2.2⟩, inv.dsound⟩

end Pycoin.Chain
