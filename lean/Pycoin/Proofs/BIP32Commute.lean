import Pycoin.Proofs.BIP32Ckd
/-!
C09 helper lemmas: public/private commutation at the level of `BIP32Node._subkey`.
-/
namespace Pycoin.BIP32
open Pycoin Pycoin.Curve WeierstrassCurve

variable {g : Gen} [Good g.c]

theorem fingerprint_publicCopy (n : Node) : ({ n with secretExponent := none } : Node).fingerprint = n.fingerprint := rfl

/-- **commutation, at the level of `BIP32Node`.** -/
theorem ckd_commute_node (S : Setting g) (n child : Node) (i : Int) (fuel fuel' : Nat) (b : Bool)
    (hv : n.Valid g) (se : Int) (hse : n.secretExponent = some se)
    (hfirst : ∃ x, Spec.BIP32.CKDpriv (mathCrypto g.c) ⟨se.toNat, n.chainCode⟩ i.toNat = .ok x)
    (hchild : subkeyRaw g (fuel + 1) n i false true = .ok child) :
    subkeyRaw g fuel' { n with secretExponent := none } i false b = .ok { child with secretExponent := none } := by
  -- the parent key
  unfold Node.Valid at hv
  rw [hse] at hv
  obtain ⟨-, -, -, -, -, -, -, hk⟩ := mkNode_ok hv
  rw [hse] at hk
  obtain ⟨-, s1, s2, hpub, -⟩ := keyInit_priv_ok hk
  obtain ⟨s, rfl⟩ := Int.eq_ofNat_of_zero_le (show (0 : Int) ≤ se by omega)
  have hs : s < g.c.n := by exact_mod_cast s2
  obtain ⟨x, hx⟩ := hfirst
  rw [Int.toNat_natCast] at hx
  -- the private child
  obtain ⟨i0, i1, -⟩ := subkeyRaw_meta hchild
  obtain ⟨j, rfl⟩ := Int.eq_ofNat_of_zero_le i0
  have hj : j < 2 ^ 31 := by
    have : (j : Int) < 2 ^ 31 := by norm_num at i1 ⊢; exact i1
    exact_mod_cast this
  rw [Int.toNat_natCast] at hx
  have hdec : decide ((2 : Int) ^ 31 ≤ (j : Int)) = false := by
    have : ¬ ((2 : Int) ^ 31 ≤ (j : Int)) := by
      have : (j : Int) < 2 ^ 31 := by exact_mod_cast hj
      omega
    exact decide_eq_false this
  have hpriv := ckdPriv_matches S hs hpub n.chainCode (show j < 2 ^ 32 by omega) fuel
  rw [hdec, hx] at hpriv
  simp only at hpriv
  unfold subkeyRaw at hchild ⊢
  have c0 : ¬ ((j : Int) < 0) := by omega
  have c1 : ¬ ((j : Int) ≥ 0x80000000) := by omega
  simp only [c0, c1, if_false, Bool.false_eq_true] at hchild ⊢
  rw [fingerprint_publicCopy]
  cases hfp : n.fingerprint with
  | error e => simp [hfp] at hchild
  | ok fp =>
    simp only [hfp] at hchild ⊢
    unfold subkeyChild at hchild ⊢
    simp only [hse, hpriv, Int.toNat_natCast] at hchild
    simp only [Bool.false_eq_true, if_false, Int.toNat_natCast]
    cases hm : mkNode g n.kind x.c (n.depth + 1) fp j (.priv (x.k : Int)) with
    | error e => simp [hm] at hchild
    | ok key =>
      simp only [hm, if_true, Except.ok.injEq] at hchild
      subst hchild
      obtain ⟨a1, a2, a3, a4, a5, l1, l2, hk'⟩ := mkNode_ok hm
      obtain ⟨k1, -, -, hmul, hcont⟩ := keyInit_priv_ok hk'
      obtain ⟨R, r1, r2⟩ := ckd_commute_fn S hs hpub n.chainCode hj hx
      rw [hmul] at r1
      injection r1 with r1
      subst r1
      simp only at r2
      rw [r2]
      simp only
      have hnew : mkNode g n.kind x.c (n.depth + 1) fp j (.pub (some key.publicPair)) =
          .ok { key with secretExponent := none } := by
        unfold mkNode
        simp only [keyInit, hcont, if_true, l1, l2, ne_eq, not_true_eq_false, if_false]
        congr 1
        cases key
        simp_all
      rw [hnew]
      simp only
      cases b with
      | true => rfl
      | false =>
        simp only [Bool.false_eq_true, if_false]
        have hv2 : ({ key with secretExponent := none } : Node).Valid g := mkNode_valid hnew
        rw [publicCopy_of_valid hv2]

end Pycoin.BIP32
