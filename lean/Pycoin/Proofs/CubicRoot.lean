import Pycoin.Spec.CubicRoot
import Mathlib.FieldTheory.Finite.Basic
import Mathlib.Tactic.LinearCombination
/-!
Soundness of the no-root certificates of `Spec/CubicRoot.lean`:
`certifies p na nb v = true → ∀ r : ZMod p, r³ ≠ na·r + nb` (p prime).

Every operation on coefficient triples is sound *when evaluated at a root* `r` of the cubic (`ev_mulMod`), so the
square-and-multiply `xPow` evaluates to `r^e`; with Fermat (`ZMod.pow_card`) `X^p − X` evaluates to `0`, and an inverse
of it modulo the cubic evaluates `1 = v(r)·0`.
-/
namespace Pycoin.CubicRoot

variable {p : Nat} (na nb : Nat)

/-- the value of a coefficient triple at `r` -/
def ev (u : Tri) (r : ZMod p) : ZMod p := (u.c0 : ZMod p) + (u.c1 : ZMod p) * r + (u.c2 : ZMod p) * r ^ 2

theorem ev_mulMod (r : ZMod p) (hr : r ^ 3 = (na : ZMod p) * r + (nb : ZMod p)) (u v : Tri) :
    ev (mulMod p na nb u v) r = ev u r * ev v r := by
  simp only [ev, mulMod, ZMod.natCast_mod]
  push_cast
  linear_combination (-((u.c1 : ZMod p) * v.c2 + (u.c2 : ZMod p) * v.c1 + (u.c2 : ZMod p) * v.c2 * r)) * hr

theorem ev_one (r : ZMod p) : ev (⟨1 % p, 0, 0⟩ : Tri) r = 1 := by
  simp [ev, ZMod.natCast_mod]

theorem ev_X (r : ZMod p) : ev (⟨0, 1, 0⟩ : Tri) r = r := by
  simp [ev]

theorem ev_xPow (r : ZMod p) (hr : r ^ 3 = (na : ZMod p) * r + (nb : ZMod p)) :
    ∀ (fuel e : Nat), e ≤ fuel → ev (xPow p na nb fuel e) r = r ^ e := by
  intro fuel
  induction fuel with
  | zero =>
    intro e he
    obtain rfl : e = 0 := by omega
    simp only [xPow, pow_zero]; exact ev_one r
  | succ f ih =>
    intro e he
    unfold xPow
    by_cases h0 : e = 0
    · subst h0; simp only [if_true, pow_zero]; exact ev_one r
    · rw [if_neg h0]
      have hrec := ih (e / 2) (by omega)
      have hsplit : r ^ e = r ^ (e / 2) * r ^ (e / 2) * r ^ (e % 2) := by
        rw [← pow_add, ← pow_add]; congr 1; omega
      by_cases h1 : e % 2 = 1
      · rw [if_pos h1, mulX, ev_mulMod na nb r hr, sqMod, ev_mulMod na nb r hr, hrec, ev_X, hsplit, h1, pow_one]
      · rw [if_neg h1, sqMod, ev_mulMod na nb r hr, hrec, hsplit, show e % 2 = 0 by omega, pow_zero, mul_one]

theorem ev_subX (hp : 1 ≤ p) (u : Tri) (r : ZMod p) : ev (subX p u) r = ev u r - r := by
  simp only [ev, subX, ZMod.natCast_mod]
  push_cast [Nat.cast_sub hp]
  rw [ZMod.natCast_self]
  ring

/-- a certificate accepted by the executable checker proves that the cubic `X³ − na·X − nb` has no root in `ZMod p` -/
theorem certifies_sound [Fact p.Prime] (v : Tri) (h : certifies p na nb v = true) (r : ZMod p) :
    r ^ 3 ≠ (na : ZMod p) * r + (nb : ZMod p) := by
  intro hr
  simp only [certifies, Bool.and_eq_true, decide_eq_true_eq] at h
  obtain ⟨hp, hv⟩ := h
  have h1 : ev (mulMod p na nb v (subX p (xPow p na nb p p))) r = 1 := by
    rw [hv]; simp [ev]
  rw [ev_mulMod na nb r hr, ev_subX hp.le, ev_xPow na nb r hr p p le_rfl, ZMod.pow_card, sub_self, mul_zero] at h1
  exact zero_ne_one h1

end Pycoin.CubicRoot
