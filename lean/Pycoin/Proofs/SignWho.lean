import Pycoin.Model.WhoSigned
import Pycoin.Proofs.SignState
/-!
C05 — `who_signed` on a partially signed m-of-n input in state `sgn`: the signers reported are exactly the keys of `sgn`, each
once, in key order; placeholders contribute nothing.
-/
namespace Pycoin.Sign
open Pycoin Pycoin.Curve

/-- the digest `_handle_checkmultisig` attaches to a blob that parses -/
def sigHashOf (dig : Bytes → Nat → Option Int) (b : Bytes) : Int :=
  match parseSignatureBlob b with
  | some (_, t) => (match dig b t with | some z => z | none => 0)
  | none => 0

theorem sigHashes_parsable (dig : Bytes → Nat → Option Int) :
    ∀ (l : List Bytes), (∀ b ∈ l, b ≠ [] ∧ (parseSignatureBlob b).isSome = true) →
      sigHashes dig l = .ok (l.map (fun b => (b, sigHashOf dig b))) := by
  intro l
  induction l with
  | nil => intro _; rfl
  | cons b r ih =>
    intro h
    obtain ⟨hne, hp⟩ := h b (by simp)
    simp only [sigHashes, ih (fun x hx => h x (List.mem_cons_of_mem _ hx)), if_neg hne, List.map_cons, sigHashOf]
    cases hpb : parseSignatureBlob b with
    | none => rw [hpb] at hp; cases hp
    | some v =>
      obtain ⟨rs, t⟩ := v
      simp only []
      cases dig b t <;> rfl

theorem verifiesFor_none (C : Crypto) (z r s : Int) (t : Nat) :
    ∀ (l : List Pt), (∀ Q ∈ l, C.verify Q z r s = .ok false) → verifiesFor C z r s t l = .ok [] := by
  intro l
  induction l with
  | nil => intro _; rfl
  | cons Q rest ih =>
    intro h
    simp [verifiesFor, h Q (by simp), ih (fun x hx => h x (List.mem_cons_of_mem _ hx))]

theorem verifiesFor_idx (C : Crypto) (Q : Nat → Pt) (z r s : Int) (t i : Nat) :
    ∀ (L : List Nat), (∀ j ∈ L, C.verify (Q j) z r s = .ok (decide (i = j))) →
      verifiesFor C z r s t (L.map Q) = .ok ((L.filter (fun j => decide (i = j))).map (fun j => (Q j, t))) := by
  intro L
  induction L with
  | nil => intro _; rfl
  | cons j rest ih =>
    intro h
    simp only [List.map_cons, verifiesFor, h j (by simp), ih (fun x hx => h x (List.mem_cons_of_mem _ hx))]
    by_cases hij : i = j
    · simp [hij]
    · simp [hij]

theorem filter_eq_range (n i : Nat) (hi : i < n) : (List.range n).filter (fun j => decide (i = j)) = [i] := by
  induction n with
  | zero => omega
  | succ k ih =>
    rw [List.range_succ, List.filter_append]
    by_cases hk : i = k
    · subst hk
      have : (List.range i).filter (fun j => decide (i = j)) = [] := by
        rw [List.filter_eq_nil_iff]; intro a ha; simp at ha ⊢; omega
      simp [this]
    · rw [ih (by omega)]
      simp [hk]

/-- every listed key decodes: the public pairs of `public_pairs_for_script` are the `Q j`, in the order of the keys -/
theorem secs_decode (C : Crypto) (Q : Nat → Pt) : ∀ (K : List Bytes) (a : Nat),
    (∀ j kj, K[j]? = some kj → C.secToPair kj = some (Q (a + j))) →
      K.filterMap C.secToPair = (List.range' a K.length).map Q := by
  intro K
  induction K with
  | nil => intro a _; rfl
  | cons k r ih =>
    intro a h
    have h0 := h 0 k rfl
    simp only [Nat.add_zero] at h0
    rw [List.filterMap_cons_some h0, List.length_cons, List.range'_succ, List.map_cons]
    rw [ih (a + 1) (fun j kj hj => by
      have := h (j + 1) kj (by simpa using hj)
      rw [show a + (j + 1) = a + 1 + j by omega] at this; exact this)]

/-- **`who_signed` on a state.**  With the keys `K` (top of stack first) and the signature variables of state `sgn` as the blobs of the
signature operation: the signers reported are the keys of `sgn`, each exactly once, by key index, with the hash type they signed
with.  Hypotheses as for the passes: `hsig` (own key verifies, no other listed key does), `hph` (the placeholder parses and
verifies for nothing), and `hdig`: the digest attached to a signature blob is the digest that was signed. -/
theorem whoSigned_state (C : Crypto) (K : List Bytes) (Q : Nat → Pt) (sg : Nat → Bytes) (ph : Bytes) (m : Nat)
    (sgn : Nat → Bool) (dig : Bytes → Nat → Option Int) (z : Int) (ht : Nat)
    (hdec : ∀ j kj, K[j]? = some kj → C.secToPair kj = some (Q j))
    (hsig : ∀ i, i < K.length → (sg i) ≠ [] ∧ ∃ r s : Nat, parseSignatureBlob (sg i) = some ((r, s), ht) ∧
      ∀ j, j < K.length → C.verify (Q j) z (r : Int) (s : Int) = .ok (decide (i = j)))
    (hdig : ∀ i, i < K.length → dig (sg i) ht = some z)
    (hph : ph ≠ [] ∧ ∃ r s t, parseSignatureBlob ph = some ((r, s), t) ∧ ∀ Q' z', C.verify Q' z' (r : Int) (s : Int) = .ok false) :
    whoSignedBlobs C dig K (stateSigs K.length m sg ph sgn) = .ok ((signedList K.length sgn).map (fun i => (Q i, ht))) := by
  unfold whoSignedBlobs
  have hpairs := secs_decode C Q K 0 (fun j kj hj => by simpa using hdec j kj hj)
  rw [← List.range_eq_range'] at hpairs
  obtain ⟨hphne, rp, sp, tp, hpp, hunf⟩ := hph
  rw [sigHashes_parsable dig]
  · simp only []
    unfold stateSigs
    rw [List.map_append, List.map_replicate]
    generalize (m - card K.length sgn) = k
    induction k with
    | zero =>
      simp only [List.replicate_zero, List.nil_append]
      have hS : ∀ i ∈ signedList K.length sgn, i < K.length := fun i hi => (mem_signedList.mp hi).1
      generalize signedList K.length sgn = S at hS
      induction S with
      | nil => rfl
      | cons i S ih =>
        have hi := hS i (by simp)
        obtain ⟨_, r, s, hp, hv⟩ := hsig i hi
        simp only [List.map_cons, publicPairsSigned, hp, hpairs]
        have hz : sigHashOf dig (sg i) = z := by simp [sigHashOf, hp, hdig i hi]
        rw [hz, verifiesFor_idx C Q z r s ht i (List.range K.length) (fun j hj => hv j (List.mem_range.mp hj)),
          filter_eq_range K.length i hi, ih (fun x hx => hS x (List.mem_cons_of_mem _ hx))]
        rfl
    | succ k ih =>
      rw [List.replicate_succ, List.cons_append]
      simp only [publicPairsSigned, hpp]
      rw [verifiesFor_none C _ rp sp tp _ (fun Q' _ => hunf Q' _), ih]
      rfl
  · intro b hb
    unfold stateSigs at hb
    rcases List.mem_append.mp hb with h | h
    · rw [(List.mem_replicate.mp h).2]; exact ⟨hphne, by rw [hpp]; rfl⟩
    · obtain ⟨i, hi, rfl⟩ := List.mem_map.mp h
      obtain ⟨hne, r, s, hp, _⟩ := hsig i (mem_signedList.mp hi).1
      exact ⟨hne, by rw [hp]; rfl⟩

/-- the signature operation of `m <key>… n CHECKMULTISIG` finds the signature variables of the state on the stack -/
theorem stateSolved_take (n m : Nat) (sg : Nat → Bytes) (ph : Bytes) (sgn : Nat → Bool) (h : card n sgn ≤ m) :
    (stateSolved n m sg ph sgn).reverse.take m = stateSigs n m sg ph sgn := by
  have hl := stateSigs_length n m sg ph sgn h
  simp only [stateSolved, List.reverse_cons, List.reverse_reverse]
  rw [List.take_append_of_le_length (by omega), List.take_of_length_le (by omega)]

end Pycoin.Sign
