import Pycoin.Proofs.Subpaths
import Pycoin.Proofs.BIP32Path
/-!
C09 helper lemmas (core Lean only): `subpaths_for_path_range` is the ordered cartesian product of the expansions.
-/
namespace Pycoin.Subpaths
open Pycoin.BIP32 (split_join)

/-- one comma-separated element of a component, structurally -/
inductive Elem
  | single (r : List Char) (mark : Option Char)
  | range (a b : Nat) (mark : Option Char)

def markText : Option Char → List Char
  | none => []
  | some h => [h]

/-- the text of the element as written in a path range -/
def Elem.text : Elem → List Char
  | .single r m => r ++ markText m
  | .range a b m => showInt (a : Int) ++ '-' :: showInt (b : Int) ++ markText m

def markOut (m : Option Char) : List Char := if m.isSome then ['H'] else []

/-- what the element stands for: itself, or the numbers `a … b` in increasing order; a hardening mark becomes `H` -/
def Elem.expand : Elem → List (List Char)
  | .single r m => [r ++ markOut m]
  | .range a b m => (intRange a b).map fun t => showInt t ++ markOut m

def markOk : Option Char → Prop
  | none => True
  | some h => hardeningChars.contains h = true

/-- well-formed: marks are among `'`, `p`, `H`; a single element's text has no `-`, `,`, `/` and, when it carries no
mark, is non-empty and does not itself end in a mark -/
def Elem.WF : Elem → Prop
  | .single r m => r.contains '-' = false ∧ ',' ∉ r ∧ '/' ∉ r ∧ markOk m ∧
      (m = none → ∃ l, r.getLast? = some l ∧ hardeningChars.contains l = false)
  | .range _ _ m => markOk m

theorem elem_spec (e : Elem) (h : e.WF) : rangeElement hardeningChars e.text = .ok e.expand := by
  cases e with
  | single r m =>
    obtain ⟨h1, -, -, h4, h5⟩ := h
    cases m with
    | none =>
      obtain ⟨l, hl, hnh⟩ := h5 rfl
      simpa [Elem.text, Elem.expand, markText, markOut] using rangeElement_single r l hl hnh h1
    | some c => simpa [Elem.text, Elem.expand, markText, markOut] using rangeElement_single_hardened r c h4 h1
  | range a b m =>
    cases m with
    | none => simpa [Elem.text, Elem.expand, markText, markOut] using rangeElement_range a b
    | some c =>
      have := rangeElement_range_hardened a b c h
      simpa [Elem.text, Elem.expand, markText, markOut] using this

theorem hardening_not_sep {h : Char} (hh : hardeningChars.contains h = true) : h ≠ ',' ∧ h ≠ '/' := by
  simp [hardeningChars] at hh
  rcases hh with rfl | rfl | rfl <;> decide

theorem elem_text_nosep (e : Elem) (h : e.WF) : ',' ∉ e.text ∧ '/' ∉ e.text ∧ e.text ≠ [] := by
  cases e with
  | single r m =>
    obtain ⟨-, h2, h3, h4, h5⟩ := h
    cases m with
    | none =>
      obtain ⟨l, hl, -⟩ := h5 rfl
      refine ⟨by simpa [Elem.text, markText] using h2, by simpa [Elem.text, markText] using h3, ?_⟩
      intro he; simp [Elem.text, markText] at he; subst he; simp at hl
    | some c =>
      obtain ⟨c1, c2⟩ := hardening_not_sep h4
      refine ⟨?_, ?_, by simp [Elem.text, markText]⟩
      · simp only [Elem.text, markText, List.mem_append, List.mem_singleton, not_or]; exact ⟨h2, fun e => c1 e.symm⟩
      · simp only [Elem.text, markText, List.mem_append, List.mem_singleton, not_or]; exact ⟨h3, fun e => c2 e.symm⟩
  | range a b m =>
    have na := (showInt_nat a).1
    have nb := (showInt_nat b).1
    have ha1 : ',' ∉ showInt (a : Int) := fun hm => (na.2 _ hm).2.2.2.2.2.1 rfl
    have ha2 : '/' ∉ showInt (a : Int) := fun hm => (na.2 _ hm).2.2.2.2.2.2 rfl
    have hb1 : ',' ∉ showInt (b : Int) := fun hm => (nb.2 _ hm).2.2.2.2.2.1 rfl
    have hb2 : '/' ∉ showInt (b : Int) := fun hm => (nb.2 _ hm).2.2.2.2.2.2 rfl
    cases m with
    | none =>
      refine ⟨?_, ?_, by simp [Elem.text, markText]⟩ <;>
        simp [Elem.text, markText, ha1, ha2, hb1, hb2]
    | some c =>
      obtain ⟨c1, c2⟩ := hardening_not_sep h
      refine ⟨?_, ?_, by simp [Elem.text, markText]⟩
      · simp [Elem.text, markText, ha1, hb1]; exact fun e => c1 e.symm
      · simp [Elem.text, markText, ha2, hb2]; exact fun e => c2 e.symm

theorem mapMExcept_map {α β γ} (f : β → Except Err γ) (g : α → β) (k : α → γ) (l : List α)
    (h : ∀ x ∈ l, f (g x) = .ok (k x)) : mapMExcept f (l.map g) = .ok (l.map k) := by
  induction l with
  | nil => rfl
  | cons a as ih =>
    simp only [List.map_cons, mapMExcept, h a (by simp), ih (fun x hx => h x (by simp [hx]))]

/-- the text of a component: its elements joined by commas -/
def compText (es : List Elem) : List Char := join ',' (es.map Elem.text)

theorem rangeIterator_spec (es : List Elem) (hne : es ≠ []) (hwf : ∀ e ∈ es, e.WF) :
    rangeIterator hardeningChars (compText es) = .ok (es.flatMap Elem.expand) := by
  unfold rangeIterator compText
  rw [split_join ',' (es.map Elem.text) (by simpa using hne) (by
    intro p hp
    obtain ⟨e, he, rfl⟩ := List.mem_map.mp hp
    exact (elem_text_nosep e (hwf e he)).1)]
  rw [mapMExcept_map (rangeElement hardeningChars) Elem.text Elem.expand es (fun e he => elem_spec e (hwf e he))]
  simp [List.flatMap]

theorem join_nosep (c d : Char) (hcd : c ≠ d) (ps : List (List Char)) (h : ∀ p ∈ ps, d ∉ p) : d ∉ join c ps := by
  induction ps with
  | nil => simp [join]
  | cons p ps ih =>
    cases ps with
    | nil => simpa [join] using h p (by simp)
    | cons q qs =>
      simp only [join, List.mem_append, List.mem_cons, not_or]
      exact ⟨h p (by simp), fun e => hcd e.symm, ih (fun x hx => h x (by simp [hx]))⟩

theorem join_ne_nil' (c : Char) (ps : List (List Char)) (hne : ps ≠ []) (h : ∀ p ∈ ps, p ≠ []) : join c ps ≠ [] := by
  cases ps with
  | nil => exact absurd rfl hne
  | cons p ps =>
    have := h p (by simp)
    cases ps with
    | nil => simpa [join] using this
    | cons q qs => simp [join, this]

/-- **subpaths_spec.** A path range written as components (joined by `/`) of elements (joined by `,`), each element a
plain text or a range `a-b`, optionally followed by a hardening mark: `subpaths_for_path_range` yields, in the order of
`itertools.product` (last component fastest, `product_order`), every way of picking one expansion from each
component (`mem_product`), joined by `/` — the ordered cartesian product of the expansions. -/
theorem subpaths_spec (comps : List (List Elem)) (hne : comps ≠ []) (hne' : ∀ es ∈ comps, es ≠ [])
    (hwf : ∀ es ∈ comps, ∀ e ∈ es, e.WF) :
    subpathsForPathRange (join '/' (comps.map compText)) =
      .ok ((product (comps.map fun es => es.flatMap Elem.expand)).map (join '/')) := by
  have hcomp_nosep : ∀ p ∈ comps.map compText, '/' ∉ p := by
    intro p hp
    obtain ⟨es, hes, rfl⟩ := List.mem_map.mp hp
    exact join_nosep ',' '/' (by decide) _ (by
      intro t ht
      obtain ⟨e, he, rfl⟩ := List.mem_map.mp ht
      exact (elem_text_nosep e (hwf es hes e he)).2.1)
  have hcomp_ne : ∀ p ∈ comps.map compText, p ≠ [] := by
    intro p hp
    obtain ⟨es, hes, rfl⟩ := List.mem_map.mp hp
    exact join_ne_nil' ',' _ (by simpa using hne' es hes) (by
      intro t ht
      obtain ⟨e, he, rfl⟩ := List.mem_map.mp ht
      exact (elem_text_nosep e (hwf es hes e he)).2.2)
  have hnonempty : (join '/' (comps.map compText)).isEmpty = false := by
    have := join_ne_nil' '/' (comps.map compText) (by simpa using hne) hcomp_ne
    cases hj : join '/' (comps.map compText) with
    | nil => exact absurd hj this
    | cons a b => rfl
  unfold subpathsForPathRange
  simp only [hnonempty, Bool.false_eq_true, if_false]
  rw [split_join '/' (comps.map compText) (by simpa using hne) hcomp_nosep]
  rw [mapMExcept_map (rangeIterator hardeningChars) compText (fun es => es.flatMap Elem.expand) comps
    (fun es hes => rangeIterator_spec es (hne' es hes) (hwf es hes))]

/-- the empty path range stands for the empty path -/
theorem subpaths_empty : subpathsForPathRange [] = .ok [[]] := rfl

end Pycoin.Subpaths
