import Pycoin.Proofs.CodecLaws
import Pycoin.Props.C11
import Pycoin.Proofs.Base58Hash
import Pycoin.Model.RealEnv
/-!
`realEnv` (the C11 codec models behind the address model's `Env`) satisfies `CodecLaws`: the glue between Python `str`
values (`String`) and the byte / code-point lists the C11 theorems speak about.
-/
namespace Pycoin.Addr
open Pycoin.Base58 Pycoin.Gen.Codecs

/-! ## ASCII strings and their bytes -/

theorem byte_char_rt (n : Nat) (h : n < 256) : (Char.ofNat n).toNat = n := by
  have hv : n.isValidChar := Or.inl (by omega)
  simp [Char.ofNat, hv, Char.ofNatAux, Char.toNat]

theorem alphabet_ascii : ∀ c ∈ base58Alphabet, c.toNat < 128 := by decide

theorem asciiBytesOf_asciiString (b : Bytes) : asciiBytesOf (asciiString b) = b := by
  simp only [asciiBytesOf, asciiString, String.toList_ofList, List.map_map]
  conv => rhs; rw [← List.map_id b]
  apply List.map_congr_left
  intro x _
  simp only [Function.comp, id, byte_char_rt x.toNat x.toNat_lt, UInt8.ofNat_toNat]

theorem isAscii_asciiString (b : Bytes) (h : ∀ c ∈ b, c.toNat < 128) : isAscii (asciiString b) = true := by
  simp only [isAscii, asciiString, String.toList_ofList, List.all_map, List.all_eq_true, Function.comp, decide_eq_true_eq]
  intro x hx
  rw [byte_char_rt x.toNat x.toNat_lt]; exact h x hx

theorem asciiString_asciiBytesOf (s : String) (h : isAscii s = true) : asciiString (asciiBytesOf s) = s := by
  simp only [isAscii, List.all_eq_true, decide_eq_true_eq] at h
  have : (s.toList.map (fun c => UInt8.ofNat c.toNat)).map (fun x => Char.ofNat x.toNat) = s.toList := by
    rw [List.map_map]
    conv => rhs; rw [← List.map_id s.toList]
    apply List.map_congr_left
    intro c hc
    have := h c hc
    simp only [Function.comp, id, UInt8.toNat_ofNat']
    rw [Nat.mod_eq_of_lt (by omega), Char.ofNat_toNat]
  simp only [asciiString, asciiBytesOf, this, String.ofList_toList]

/-! ## Base58Check -/

theorem real_b58_rt (k : HashKind) (d : Bytes) (_hd : d ≠ []) : realEnv.b58cDec k (realEnv.b58cEnc k d) = some d := by
  obtain ⟨s, h1, h3, h2⟩ := parseK_b2aK k d
  have hasc : isAscii (asciiString s) = true := isAscii_asciiString s (fun c hc => alphabet_ascii c (h3 c hc))
  simp only [realEnv, h1, hasc, if_true, asciiBytesOf_asciiString, h2]

theorem real_b58_canon (k : HashKind) (s : String) (d : Bytes) (h : realEnv.b58cDec k s = some d) :
    realEnv.b58cEnc k d = s := by
  simp only [realEnv] at h
  split at h
  · rename_i hasc
    have henc := b2aK_parseK k _ _ h
    simp only [realEnv, henc, asciiString_asciiBytesOf s hasc]
  · cases h

theorem real_b58_laws : B58Laws realEnv := ⟨real_b58_rt, real_b58_canon⟩

/-! ## segwit addresses -/

open Pycoin.Bech32 in
/-- what `bech32m.decode(hrp, t)` accepts, `parseable_str.parse_bech32(t)` reads the same way -/
theorem parse_of_decode (hrp t : List Char) (v : Nat) (p : List Nat) (h : decode hrp t = some (v, p)) :
    parseBech32 t = some (hrp, v, p, specOf v) := by
  cases hraw : bech32Decode t with
  | none => unfold decode at h; rw [hraw] at h; cases h
  | some r =>
    obtain ⟨hrpgot, data, spec⟩ := r
    rw [decode_of_raw hrp t hrpgot data spec hraw] at h
    unfold parseBech32
    rw [hraw]
    split at h
    · cases h
    · rename_i hh
      have hh' : hrpgot = hrp := by simpa using hh
      cases data with
      | nil => cases h
      | cons ver rest =>
        simp only at h ⊢
        cases hc : convertbits rest 5 8 pos8 false with
        | none => rw [hc] at h; cases h
        | some decoded =>
          rw [hc] at h
          simp only at h
          split at h
          · cases h
          · split at h
            · cases h
            · split at h
              · cases h
              · split at h
                · cases h
                · rename_i hspec
                  injection h with h; injection h with hv hp; subst hv; subst hp
                  simp only [Option.getD_some, hh', Option.some.injEq, Prod.mk.injEq, true_and]
                  unfold specOf
                  by_cases h0 : ver = 0
                  · simp only [h0, if_true]
                    cases spec <;> simp_all
                  · simp only [h0, if_false]
                    cases spec <;> simp_all

open Pycoin.Bech32 in
theorem decode_of_parse (t hrp : List Char) (ver : Nat) (dec : List Nat) (spec : Encoding)
    (h : parseBech32 t = some (hrp, ver, dec, spec)) (hv : ver ≤ 16) (hl : dec.length = 20 ∨ dec.length = 32)
    (h0 : ver = 0 → spec = .bech32) (h1 : ver ≠ 0 → spec = .bech32m) :
    decode hrp t = some (ver, dec) := by
  unfold parseBech32 at h
  cases hraw : bech32Decode t with
  | none => rw [hraw] at h; cases h
  | some r =>
    obtain ⟨hrpgot, data, spec'⟩ := r
    rw [hraw] at h
    rw [decode_of_raw hrp t hrpgot data spec' hraw]
    cases data with
    | nil => cases h
    | cons ver' rest =>
      simp only [Option.some.injEq, Prod.mk.injEq] at h
      obtain ⟨rfl, rfl, hd, rfl⟩ := h
      simp only [ne_eq, not_true_eq_false, if_false]
      cases hc : convertbits rest 5 8 pos8 false with
      | none => rw [hc] at hd; simp at hd; subst hd; simp at hl
      | some decoded =>
        rw [hc] at hd; simp only [Option.getD_some] at hd; subst hd
        simp only
        have c1 : ¬ (decoded.length < 2 ∨ decoded.length > 40) := by omega
        have c2 : ¬ (ver' > 16) := by omega
        have c3 : ¬ (ver' = 0 ∧ decoded.length ≠ 20 ∧ decoded.length ≠ 32) := by omega
        have c4 : ¬ ((ver' = 0 ∧ spec' ≠ .bech32) ∨ (ver' ≠ 0 ∧ spec' ≠ .bech32m)) := by
          intro hc4
          rcases hc4 with ⟨a, b⟩ | ⟨a, b⟩
          · exact b (h0 a)
          · exact b (h1 a)
        rw [if_neg c1, if_neg c2, if_neg c3, if_neg c4]

theorem map_ofNat_toNat (b : Bytes) : (b.map (·.toNat)).map UInt8.ofNat = b := by
  rw [List.map_map]; conv => rhs; rw [← List.map_id b]
  apply List.map_congr_left; intro x _; simp [Function.comp]

theorem map_toNat_ofNat (l : List Nat) (h : ∀ x ∈ l, x < 256) : (l.map UInt8.ofNat).map (·.toNat) = l := by
  rw [List.map_map]; conv => rhs; rw [← List.map_id l]
  apply List.map_congr_left; intro x hx
  simp only [Function.comp, id, UInt8.toNat_ofNat']; exact Nat.mod_eq_of_lt (h x hx)

theorem real_seg_rt (hrp : String) (ver : Nat) (prog : Bytes) (s : String) (hok : hrpOk hrp = true) (hv : ver ≤ 16)
    (hl : prog.length = 20 ∨ prog.length = 32) (h : realEnv.segwitEnc hrp ver prog = some s) :
    realEnv.bech32Parse s = some (hrp, ver, prog, if ver = 0 then .bech32 else .bech32m) := by
  simp only [hrpOk, Bool.and_eq_true, Bool.not_eq_true', List.all_eq_true, decide_eq_true_eq] at hok
  obtain ⟨⟨hne, hch⟩, hlen⟩ := hok
  have hall : Bech32.Allowed hrp.toList ver (prog.map (·.toNat)) := by
    refine ⟨?_, ?_, hv, ?_, ?_, ?_, ?_, ?_⟩
    · intro h0; rw [h0] at hne; simp at hne
    · intro c hc; simpa [Bech32.hrpCharOk] using hch c hc
    · intro b hb; obtain ⟨x, _, rfl⟩ := List.mem_map.mp hb; exact x.toNat_lt
    · simp; omega
    · simp; omega
    · intro _; simpa using hl
    · simp only [List.length_map, String.length_toList]; omega
  obtain ⟨cs, he, hd⟩ := Bech32.C11_segwit_rt _ _ _ hall
  simp only [realEnv, he, Option.some.injEq] at h
  subst h
  have hp := parse_of_decode _ _ _ _ hd
  simp only [realEnv, String.toList_ofList, hp, String.ofList_toList, map_ofNat_toNat, Bech32.specOf]
  by_cases h0 : ver = 0 <;> simp [h0]

theorem real_seg_canon (s hrp : String) (ver : Nat) (prog : Bytes) (spec : BechSpec)
    (h : realEnv.bech32Parse s = some (hrp, ver, prog, spec))
    (h0 : ver = 0 → spec = .bech32) (h1 : ver ≠ 0 → spec = .bech32m) (hl : prog.length = 20 ∨ prog.length = 32) (hv : ver ≤ 16) :
    realEnv.segwitEnc hrp ver prog = some (asciiLower s) := by
  simp only [realEnv] at h
  cases hp : Bech32.parseBech32 s.toList with
  | none => rw [hp] at h; cases h
  | some r =>
    obtain ⟨hrpL, ver', dec, spec'⟩ := r
    rw [hp] at h
    simp only [Option.some.injEq, Prod.mk.injEq] at h
    obtain ⟨rfl, rfl, rfl, hs⟩ := h
    have hl' : dec.length = 20 ∨ dec.length = 32 := by simpa using hl
    have hd := decode_of_parse s.toList hrpL ver' dec spec' hp hv hl'
      (by
        intro a; have hb := h0 a; rw [← hs] at hb
        cases spec' with
        | bech32 => rfl
        | bech32m => cases hb)
      (by
        intro a; have hb := h1 a; rw [← hs] at hb
        cases spec' with
        | bech32 => cases hb
        | bech32m => rfl)
    obtain ⟨hall, henc, _⟩ := Bech32.C11_segwit_rt_conv _ _ _ _ hd
    simp only [realEnv, String.toList_ofList, map_toNat_ofNat dec hall.2.2.2.1, henc]
    rfl

theorem real_laws : CodecLaws realEnv :=
  { b58_rt := real_b58_rt, b58_canon := real_b58_canon, seg_rt := real_seg_rt, seg_canon := real_seg_canon }

end Pycoin.Addr
