import Pycoin.Proofs.NativeContract
import Pycoin.Proofs.Reduced
/-!
The OpenSSL class under the contract `LibCryptoSpec`: `inverse_mod`, `multiply`, `raw_mul` and, through them,
`Curve.add` and the blinded `Generator.__mul__` of that class return what the pure-Python class returns.
-/
namespace Pycoin.Native
open Pycoin Pycoin.Curve WeierstrassCurve

/-! ### pure `inverse_mod` on operands without an inverse -/

theorem inverseMod_not_coprime (a m : Int) (hm : 1 < m) (hg : Int.gcd a m ≠ 1) :
    Curve.inverseMod a m = .error .assertion := by
  unfold Curve.inverseMod
  obtain ⟨a', ha', ha0, ham, hmod⟩ : ∃ a', (if a < 0 ∨ m ≤ a then fmod a m else a) = a' ∧ 0 ≤ a' ∧ a' < m ∧
      a' = a % m := by
    by_cases h : a < 0 ∨ m ≤ a
    · exact ⟨a % m, by simp [h, fmod_eq_emod a (by omega : (0:Int) ≤ m)], Int.emod_nonneg a (by omega),
        Int.emod_lt_of_pos a (by omega), rfl⟩
    · exact ⟨a, by simp [h], by omega, by omega, (Int.emod_eq_of_lt (by omega) (by omega)).symm⟩
  simp only [ha']
  have hg' : Int.gcd a' m = Int.gcd a m := by rw [hmod, Int.gcd_emod]
  have inv0 : EInv a' m a' m 1 0 0 1 1 := by
    refine ⟨ha0, ham, by ring, by ring, Or.inl rfl, by norm_num, by norm_num, by ring, by norm_num, rfl⟩
  obtain ⟨d', ud', hrun, hd', -, -, -⟩ := egcdLoop_spec a' m (a'.toNat + 1) a' m 1 0 0 1 1 inv0 (by omega)
  rw [hrun]
  simp only
  have : d' ≠ 1 := by
    rw [hd', hg']
    intro h
    exact hg (by exact_mod_cast h)
  rw [if_pos this]

/-- an inverse modulo `m` in `[0, m)` is unique -/
theorem inverse_unique {a m r r' : Int} (h0 : 0 ≤ r) (h1 : r < m) (h0' : 0 ≤ r') (h1' : r' < m)
    (h : (a * r) % m = 1) (h' : (a * r') % m = 1) : r = r' := by
  have e1 : (r * (a * r')) % m = r % m := by
    rw [Int.mul_emod, h', mul_one, Int.emod_emod]
  have e2 : (r' * (a * r)) % m = r' % m := by
    rw [Int.mul_emod, h, mul_one, Int.emod_emod]
  have e3 : r * (a * r') = r' * (a * r) := by ring
  rw [e3, e2] at e1
  rw [Int.emod_eq_of_lt h0' h1', Int.emod_eq_of_lt h0 h1] at e1
  exact e1.symm

variable {c : CurveParams} [Good c] {L : LibCrypto} {den : L.EcPoint → Pt}

/-- `Optimizations.inverse_mod(a, m) = Curve.inverse_mod(a, m)` for EVERY operand `a` and modulus `m > 1` (that fit a
bignum): the inverse when one exists, `AssertionError` when none does -/
theorem ossl_inverseMod_eq (spec : LibCryptoSpec c L den) (a m : Int) (hm : 1 < m) (fa : Fits a) (fm : Fits m) :
    Ossl.inverseMod L a m = Curve.inverseMod a m := by
  obtain ⟨ba, hba, va⟩ := bnInit_spec spec a fa
  obtain ⟨bm, hbm, vm⟩ := bnInit_spec spec m fm
  unfold Ossl.inverseMod
  simp only [hba, hbm]
  by_cases hg : Int.gcd a m = 1
  · obtain ⟨r, hr, r0, r1, r2⟩ := spec.inv_ok ba bm a m va vm hm hg
    obtain ⟨q, hq, q0, q1, q2⟩ := inverseMod_spec a m hm hg
    rw [hr, hq]
    simp only
    rw [inverse_unique r0 r1 (by omega) q1 r2 q2]
  · rw [spec.inv_none ba bm a m va vm hm hg, inverseMod_not_coprime a m hm hg]

/-- before the repair the operand itself came back when no inverse exists -/
theorem ossl_inverseModUnchecked_not_coprime (spec : LibCryptoSpec c L den) (a m : Int) (hm : 1 < m) (fa : Fits a)
    (fm : Fits m) (hg : Int.gcd a m ≠ 1) : Ossl.inverseModUnchecked L a m = .ok a := by
  obtain ⟨ba, hba, va⟩ := bnInit_spec spec a fa
  obtain ⟨bm, hbm, vm⟩ := bnInit_spec spec m fm
  unfold Ossl.inverseModUnchecked
  simp only [hba, hbm]
  rw [spec.inv_none ba bm a m va vm hm hg]
  simp only [va]

/-! ### `Curve.add` of the OpenSSL class -/

/-- coordinates that leave one bit of headroom: `2·y` and `x₁ − x₀` fit a bignum -/
def CoordFits : Pt → Prop
  | none => True
  | some (x, y) => Pycoin.RFC6979.bitLength x.natAbs + 1 ≤ bnBits ∧ Pycoin.RFC6979.bitLength y.natAbs + 1 ≤ bnBits

theorem fits_two_mul {y : Int} (h : Pycoin.RFC6979.bitLength y.natAbs + 1 ≤ bnBits) : Fits (2 * y) := by
  refine fits_of_lt (k := Pycoin.RFC6979.bitLength y.natAbs + 1) ?_ h
  have := lt_two_pow_bitLength y.natAbs
  have h2 : (2 * y).natAbs = 2 * y.natAbs := by rw [Int.natAbs_mul]; rfl
  rw [h2, pow_succ]; omega

theorem bitLength_sub_le {x0 x1 : Int} {k : Nat} (h0 : Pycoin.RFC6979.bitLength x0.natAbs + 1 ≤ k)
    (h1 : Pycoin.RFC6979.bitLength x1.natAbs + 1 ≤ k) : Pycoin.RFC6979.bitLength (x1 - x0).natAbs ≤ k := by
  have a0 := (bitLength_le_iff x0.natAbs (k - 1)).mp (by omega)
  have a1 := (bitLength_le_iff x1.natAbs (k - 1)).mp (by omega)
  rw [bitLength_le_iff]
  have hk : k - 1 + 1 = k := by omega
  have : (2 : Nat) ^ k = 2 * 2 ^ (k - 1) := by
    rw [← pow_succ', hk]
  rw [this]
  omega

theorem fits_sub {x0 x1 : Int} (h0 : Pycoin.RFC6979.bitLength x0.natAbs + 1 ≤ bnBits)
    (h1 : Pycoin.RFC6979.bitLength x1.natAbs + 1 ≤ bnBits) : Fits (x1 - x0) :=
  bitLength_sub_le h0 h1

theorem fits_p (fits : CurveFits c) : Fits (c.p : Int) := by
  unfold Fits; simp only [Int.natAbs_natCast]; have := fits.1; omega

theorem fits_n (fits : CurveFits c) : Fits (c.n : Int) := by
  unfold Fits; simp only [Int.natAbs_natCast]; have := fits.2; omega

theorem one_lt_p : (1 : Int) < c.p := by
  have := (Good.prime (c := c)).one_lt; exact_mod_cast this

theorem coordFits_of_reduced (fits : CurveFits c) {P : Pt} (rP : Reduced c P) : CoordFits P := by
  match P, rP with
  | none, _ => trivial
  | some (x, y), ⟨h1, h2, h3, h4⟩ =>
    have hp := lt_two_pow_bitLength c.p
    have f := fits.1
    constructor
    · have : Pycoin.RFC6979.bitLength x.natAbs ≤ Pycoin.RFC6979.bitLength c.p :=
        (bitLength_le_iff _ _).mpr (by omega)
      omega
    · have : Pycoin.RFC6979.bitLength y.natAbs ≤ Pycoin.RFC6979.bitLength c.p :=
        (bitLength_le_iff _ _).mpr (by omega)
      omega

/-- `Point + Point` in the OpenSSL class (`Curve.add` with `self.inverse_mod` resolved to OpenSSL's) equals the pure
`Curve.add`, for all operands whose coordinates fit (on or off the curve) -/
theorem ossl_add_eq (spec : LibCryptoSpec c L den) (fits : CurveFits c) (P Q : Pt) (fP : CoordFits P) (fQ : CoordFits Q) :
    Gen.add (Ossl.methods L c) c P Q = Curve.add c P Q := by
  match P, Q, fP, fQ with
  | none, Q, _, _ => cases Q <;> rfl
  | some _, none, _, _ => rfl
  | some (x0, y0), some (x1, y1), fP, fQ =>
    unfold Gen.add Curve.add
    simp only [Ossl.methods]
    rw [ossl_inverseMod_eq spec (2 * y0) c.p one_lt_p (fits_two_mul fP.2) (fits_p fits),
      ossl_inverseMod_eq spec (x1 - x0) c.p one_lt_p (fits_sub fP.1 fQ.1) (fits_p fits)]
    rfl

/-! ### `multiply`, `raw_mul` -/

omit [Good c] in
theorem fmod_p_range (hp : 0 < c.p) (x : Int) : 0 ≤ fmod x c.p ∧ fmod x c.p < c.p := fmod_range c.p hp x

theorem containsXY_fmod (x y : Int) : containsXY c (fmod x c.p) (fmod y c.p) = containsXY c x y := by
  rw [Bool.eq_iff_iff, containsXY_iff, containsXY_iff, intCast_fmod, intCast_fmod]

theorem onCurve_reducePt {P : Pt} (hP : OnCurve c P) : OnCurve c (reducePt c P) := by
  match P, hP with
  | none, h => exact h
  | some (x, y), hP =>
    show containsXY c (fmod x c.p) (fmod y c.p) = true
    rw [containsXY_fmod]; exact hP

theorem reduced_reducePt (P : Pt) : Reduced c (reducePt c P) := by
  match P with
  | none => trivial
  | some (x, y) =>
    have hx := fmod_p_range (p_pos c) x
    have hy := fmod_p_range (p_pos c) y
    exact ⟨hx.1, hx.2, hy.1, hy.2⟩

theorem toPoint_reducePt {P : Pt} (hP : OnCurve c P) : toPoint c (reducePt c P) = toPoint c P := by
  match P, hP with
  | none, _ => rfl
  | some (x, y), hP =>
    have h' : containsXY c (fmod x c.p) (fmod y c.p) = true := by rw [containsXY_fmod]; exact hP
    show toPoint c (some (fmod x c.p, fmod y c.p)) = _
    rw [toPoint_some c h', toPoint_some c hP]
    exact some_congr c _ _ (intCast_fmod _ _) (intCast_fmod _ _)

theorem reducePt_of_reduced {P : Pt} (rP : Reduced c P) : reducePt c P = P := by
  match P, rP with
  | none, _ => rfl
  | some (x, y), ⟨h1, h2, h3, h4⟩ =>
    show some (fmod x c.p, fmod y c.p) = _
    rw [fmod_natCast, fmod_natCast, Int.emod_eq_of_lt h1 h2, Int.emod_eq_of_lt h3 h4]

/-- in a group, a point killed by a prime `n` and by some `0 < e < n` is zero -/
theorem eq_zero_of_smul_eq_zero {A : Type*} [AddCommGroup A] {n : Nat} (hn : n.Prime) {T : A}
    (hT : (n : Int) • T = 0) {e : Int} (he0 : 0 < e) (hen : e < n) (h : e • T = 0) : T = 0 := by
  have hcop : Int.gcd e n = 1 := by
    have : Nat.Coprime e.natAbs n := by
      apply Nat.Coprime.symm
      rw [hn.coprime_iff_not_dvd]
      intro hd
      have := Nat.le_of_dvd (by omega) hd
      omega
    simpa [Int.gcd] using this
  have hb := Int.gcd_eq_gcd_ab e n
  rw [hcop] at hb
  have : (1 : Int) • T = 0 := by
    have h1 : ((1 : Nat) : Int) = e * Int.gcdA e n + (n : Int) * Int.gcdB e n := hb
    have h2 : (1 : Int) = e * Int.gcdA e n + (n : Int) * Int.gcdB e n := by exact_mod_cast h1
    rw [h2, add_zsmul, mul_comm e, mul_zsmul, h, zsmul_zero, mul_comm (n : Int), mul_zsmul, hT, zsmul_zero, add_zero]
  simpa using this

/-- **`Optimizations.multiply(P, e)`** for a curve point `P` (coordinates possibly unreduced or negative, or infinity)
of the `n`-torsion, `n` prime, and EVERY integer `e`: never raises, returns a reduced curve point denoting `e • P`.
The `e == 0` / infinity guards and the reduction of the coordinates are what the proof uses the contract for. -/
theorem ossl_multiply_spec (spec : LibCryptoSpec c L den) (fits : CurveFits c) (hn : c.n.Prime) (P : Pt) (hP : OnCurve c P)
    (hT : (c.n : Int) • toPoint c P = 0) (e : Int) :
    ∃ R, Ossl.multiply L c P e = .ok R ∧ OnCurve c R ∧ Reduced c R ∧ toPoint c R = e • toPoint c P := by
  have hn0 : c.n ≠ 0 := hn.pos.ne'
  have hnpos : (0 : Int) < c.n := by exact_mod_cast hn.pos
  unfold Ossl.multiply
  simp only [hn0, ne_eq, not_false_eq_true, if_true, fmod_natCast]
  have hsm : (e % (c.n : Int)) • toPoint c P = e • toPoint c P := by
    conv_rhs => rw [← Int.emod_add_mul_ediv e c.n, add_zsmul, mul_comm (c.n : Int), mul_zsmul, hT, zsmul_zero, add_zero]
  match P, hP, hT, hsm with
  | none, _, _, _ => exact ⟨none, rfl, rfl, trivial, by rw [toPoint_none, zsmul_zero]⟩
  | some (px, py), hP, hT, hsm =>
    simp only
    by_cases he : e % (c.n : Int) = 0
    · rw [if_pos he]
      refine ⟨none, rfl, rfl, trivial, ?_⟩
      rw [← hsm, he, zero_zsmul, toPoint_none]
    · rw [if_neg he]
      have he0 : 0 < e % (c.n : Int) := lt_of_le_of_ne (Int.emod_nonneg e hnpos.ne') (Ne.symm he)
      have hen : e % (c.n : Int) < c.n := Int.emod_lt_of_pos e hnpos
      have hx := fmod_p_range (p_pos c) px
      have hy := fmod_p_range (p_pos c) py
      rw [fmod_natCast] at hx hy
      have fx : Fits (px % (c.p : Int)) := fits_of_lt_four_mul (m := c.p) (by omega) fits.1
      have fy : Fits (py % (c.p : Int)) := fits_of_lt_four_mul (m := c.p) (by omega) fits.1
      have fe : Fits (e % (c.n : Int)) := fits_of_lt_four_mul (m := c.n) (by omega) fits.2
      obtain ⟨bx, hbx, vx⟩ := bnInit_spec spec _ fx
      obtain ⟨by_, hby, vy⟩ := bnInit_spec spec _ fy
      obtain ⟨be, hbe, ve⟩ := bnInit_spec spec _ fe
      simp only [hbx, hby, hbe]
      -- the reduced operand
      have hP' : containsXY c (px % (c.p : Int)) (py % (c.p : Int)) = true := by
        have := containsXY_fmod (c := c) px py
        rw [fmod_natCast, fmod_natCast] at this
        rw [this]; exact hP
      have hden : toPoint c (some (px % (c.p : Int), py % (c.p : Int))) = toPoint c (some (px, py)) := by
        have := toPoint_reducePt (c := c) (P := some (px, py)) hP
        simpa [reducePt, fmod_natCast] using this
      obtain ⟨s1, s2⟩ := spec.set_ok L.ecPointNew bx by_ _ _ vx vy hx.1 hx.2 hy.1 hy.2 hP'
      generalize (L.setAffine L.ecPointNew bx by_).2 = pt at s2
      have ptne : den pt ≠ none := by rw [s2]; simp
      obtain ⟨m1, m2, m3, m4⟩ := spec.mul_ok L.ecPointNew pt be _ ptne (by rw [s2]; exact hP')
        (by rw [s2]; exact ⟨hx.1, hx.2, hy.1, hy.2⟩) ve he0 hen
      generalize (L.ecMul L.ecPointNew pt be).2 = res at m2 m3 m4
      rw [s2, hden, hsm] at m4
      -- the product is not the point at infinity
      have hne : den res ≠ none := by
        intro h0
        rw [h0, toPoint_none] at m4
        have hz : toPoint c (some (px, py)) = 0 :=
          eq_zero_of_smul_eq_zero hn hT he0 hen (by rw [hsm]; exact m4.symm)
        rw [toPoint_some c hP] at hz
        exact Affine.Point.some_ne_zero _ hz
      obtain ⟨⟨rx, ry⟩, hr⟩ : ∃ q, den res = some q := Option.ne_none_iff_exists'.mp hne
      obtain ⟨g1, g2, g3⟩ := spec.get_ok res bx by_ rx ry hr
      rw [g2, g3]
      rw [hr] at m2 m3 m4
      refine ⟨some (rx, ry), ?_, m2, m3, m4⟩
      have : containsXY c rx ry = true := m2
      simp [mkPoint, this]

/-- **identical coordinates**: the OpenSSL `multiply` returns the coordinates the pure ladder returns, reduced mod `p`
(the pure ladder hands the operand back as given when `e ≡ 1`) -/
theorem ossl_multiply_eq_map (spec : LibCryptoSpec c L den) (fits : CurveFits c) (hn : c.n.Prime) (P : Pt)
    (hP : OnCurve c P) (hT : (c.n : Int) • toPoint c P = 0) (e : Int) :
    Ossl.multiply L c P e = (Curve.multiply c P e).map (reducePt c) := by
  obtain ⟨R, h1, h2, h3, h4⟩ := ossl_multiply_spec spec fits hn P hP hT e
  obtain ⟨R', q1, q2, q3⟩ := multiply_refines c P hP e (fun _ => hT) (fun h => absurd h hn.pos.ne')
  rw [h1, q1]
  show _ = Except.ok (reducePt c R')
  congr 1
  exact toPoint_inj c h2 (onCurve_reducePt q2) h3 (reduced_reducePt R') (by rw [h4, toPoint_reducePt q2, q3])

/-- … and exactly the same pair for a reduced operand (`n` an odd prime) -/
theorem ossl_multiply_eq (spec : LibCryptoSpec c L den) (fits : CurveFits c) (ok : ECDSAOk c) (P : Pt)
    (hP : OnCurve c P) (rP : Reduced c P) (hT : (c.n : Int) • toPoint c P = 0) (e : Int) :
    Ossl.multiply L c P e = Curve.multiply c P e := by
  rw [ossl_multiply_eq_map spec fits ok.nprime P hP hT e]
  obtain ⟨R', q1, -, -⟩ := multiply_refines c P hP e (fun _ => hT) (fun h => absurd h ok.nprime.pos.ne')
  have br : Reduced c R' := multiply_reduced c P hP rP
    (fun x y h => by subst h; exact y_pos_of_torsion ok hP rP.2.2.1 hT) e R' q1
  rw [q1]
  show Except.ok (reducePt c R') = _
  rw [reducePt_of_reduced br]

/-- **`Optimizations.raw_mul(e) = Generator.raw_mul(e)`** for every integer `e` -/
theorem ossl_rawMul_eq (spec : LibCryptoSpec c L den) (fits : CurveFits c) (ok : ECDSAOk c) (e : Int) :
    Ossl.rawMul L c e = Curve.rawMul c e := by
  obtain ⟨R, h1, h2, h3, h4⟩ := ossl_multiply_spec spec fits ok.nprime (basis c) ok.gOn ok.gOrd e
  obtain ⟨R', q1, q2, q3⟩ := rawMul_refines c ok.gOn ok.nprime.pos.ne' ok.n256 ok.gOrd e
  have r' := rawMul_reduced c ok.gOn ok.gRed e R' q1
  unfold Ossl.rawMul
  rw [h1, q1, toPoint_inj c h2 q2 h3 r' (by rw [h4, q3])]

/-- **blinded generator multiplication agrees for every blinding factor** -/
theorem ossl_mulG_eq (spec : LibCryptoSpec c L den) (fits : CurveFits c) (ok : ECDSAOk c) (bf e : Int) :
    Gen.mulG (Ossl.methods L c) c bf e = Curve.mulG c bf e := by
  unfold Gen.mulG Curve.mulG
  simp only [Ossl.methods]
  rw [ossl_rawMul_eq spec fits ok, ossl_rawMul_eq spec fits ok]
  cases h1 : Curve.rawMul c (e + bf) with
  | error er => rfl
  | ok a =>
    cases h2 : Curve.rawMul c (-bf) with
    | error er => rfl
    | ok m =>
      simp only
      exact ossl_add_eq spec fits a m (coordFits_of_reduced fits (rawMul_reduced c ok.gOn ok.gRed _ _ h1))
        (coordFits_of_reduced fits (rawMul_reduced c ok.gOn ok.gRed _ _ h2))

end Pycoin.Native
