import Pycoin.Proofs.ChainAdd
/-! `lock_to_index` preserves the BlockChain invariant (core Lean only) -/
namespace Pycoin.Chain

theorem mkItems_map_fst (w : Dict Nat) : ∀ (l : List Nat) (prev : Nat), (mkItems w prev l).map (·.1) = l
  | [], _ => rfl
  | h :: r, prev => by simp [mkItems, mkItems_map_fst w r h]

theorem lockTree_spec (pl : Dict Nat) : ∀ (t ex : List Nat),
    ∀ x p, (x, p) ∈ (lockTree pl t ex).2 → dget pl x = some p ∧ x ∉ ex
  | [], ex, x, p, h => by simp [lockTree] at h
  | c :: r, ex, x, p, h => by
      unfold lockTree at h
      by_cases hc : c ∈ ex
      · simp [hc] at h
      · simp only [hc, if_false] at h
        have ih := lockTree_spec pl r (c :: ex) x p
        cases hd : dget pl c with
        | none =>
          simp only [hd] at h
          obtain ⟨a, b⟩ := ih h
          exact ⟨a, fun hx => b (List.mem_cons_of_mem _ hx)⟩
        | some q =>
          simp only [hd] at h
          rcases List.mem_cons.mp h with h | h
          · injection h with e1 e2; subst e1; subst e2; exact ⟨hd, hc⟩
          · obtain ⟨a, b⟩ := ih h
            exact ⟨a, fun hx => b (List.mem_cons_of_mem _ hx)⟩

theorem lockTree_ex (pl : Dict Nat) : ∀ (t ex : List Nat), ∀ y ∈ ex, y ∈ (lockTree pl t ex).1
  | [], ex, y, h => by simpa [lockTree] using h
  | c :: r, ex, y, h => by
      unfold lockTree
      by_cases hc : c ∈ ex
      · simpa [hc] using h
      · simp only [hc, if_false]
        have ih := lockTree_ex pl r (c :: ex) y (List.mem_cons_of_mem _ h)
        cases hd : dget pl c with
        | none => simpa [hd] using ih
        | some q => simpa [hd] using ih

theorem lockNodes_spec (pl : Dict Nat) : ∀ (ts : List (List Nat)) (ex : List Nat),
    ∀ x p, (x, p) ∈ lockNodes pl ts ex → dget pl x = some p ∧ x ∉ ex
  | [], ex, x, p, h => by simp [lockNodes] at h
  | t :: ts, ex, x, p, h => by
      unfold lockNodes at h
      rcases List.mem_append.mp h with h | h
      · exact lockTree_spec pl t ex x p h
      · obtain ⟨a, b⟩ := lockNodes_spec pl ts _ x p h
        exact ⟨a, fun hx => b (lockTree_ex pl t ex x hx)⟩

theorem reverse_split (c : List Nat) (k : Nat) (hk : k ≤ c.length) :
    (c.take (c.length - k)).reverse = c.reverse.drop k := by
  have h1 : c.reverse = (c.drop (c.length - k)).reverse ++ (c.take (c.length - k)).reverse := by
    rw [← List.reverse_append, List.take_append_drop]
  have hl : ((c.drop (c.length - k)).reverse).length = k := by simp; omega
  rw [h1, List.drop_left' hl]

theorem lockToIndex_good (anchor0 : Nat) (rev : Bool) (rank : List Nat) (bc bc' : BC) (c : List Nat)
    (index : Nat) (cb : Option (List Item × Nat))
    (g : Good anchor0 bc c)
    (hr : bc.lockToIndex rev rank index = .ok (cb, bc'))
    (hp : ∀ c', bc'.cache = some c' → UpPath bc'.finder.parent (c' ++ [bc'.parentHash])) :
    ∃ c', Good anchor0 bc' c' ∧ lockedHashes bc' ++ c'.reverse = lockedHashes bc ++ c.reverse := by
  unfold BC.lockToIndex at hr
  obtain ⟨⟨old, bc1⟩, h1, hr⟩ := bind_ok hr
  have e1 := h1.symm.trans (longest_of_cur rev bc c g.cur)
  simp only [Except.ok.injEq, Prod.mk.injEq] at e1
  obtain ⟨e1a, e1b⟩ := e1
  subst e1b
  have e1a' := e1a.symm
  subst e1a'
  try simp only at hr
  split at hr
  · simp only [Except.ok.injEq, Prod.mk.injEq] at hr
    obtain ⟨_, rfl⟩ := hr
    exact ⟨c, ⟨Or.inl rfl, g.path, g.exact, g.nodup, g.lockedUnreg, g.weights, g.anchorUnreg, g.parentIs⟩, rfl⟩
  · rename_i hidx
    split at hr
    · cases hr
    · rename_i hk
      obtain ⟨finder', h2, hr⟩ := bind_ok hr
      simp only [Except.ok.injEq, Prod.mk.injEq] at hr
      obtain ⟨_, rfl⟩ := hr
      simp only at hp
      generalize hkk : index - bc.locked.length = k at *
      have hk1 : 1 ≤ k := by omega
      have hk2 : k ≤ c.length := by omega
      generalize htaken : c.reverse.take k = taken at *
      have hLH : ∀ (ph : Nat) (m : Dict Int) (w : Dict Nat) (f : CF) (ca : Option (List Nat)),
          lockedHashes ⟨ph, m, w, f, ca, bc.locked ++ mkItems bc.weight bc.parentHash taken⟩ = lockedHashes bc ++ taken := by
        intros; simp [lockedHashes, mkItems_map_fst]
      have hL : (lockedHashes bc ++ taken) ++ (c.take (c.length - k)).reverse = lockedHashes bc ++ c.reverse := by
        rw [reverse_split c k hk2, ← htaken, List.append_assoc, List.take_append_drop]
      have hpl := loadNodes_parent rev rank CF.empty finder' _ h2
      have Fnew : ∀ x v, dget finder'.parent x = some v → dget bc.finder.parent x = some v ∧ x ∉ taken := by
        intro x v hv
        rw [hpl] at hv
        rcases register_new _ _ _ _ _ hv with h | h
        · simp [CF.empty, dget] at h
        · obtain ⟨a, b⟩ := lockNodes_spec _ _ _ x v h
          exact ⟨a, fun hx => b (List.mem_reverse.mpr hx)⟩
      have unreg : ∀ x, (dget bc.finder.parent x = none ∨ x ∈ taken) → dget finder'.parent x = none := by
        intro x hx
        cases hv : dget finder'.parent x with
        | none => rfl
        | some v =>
          obtain ⟨a, b⟩ := Fnew x v hv
          rcases hx with hx | hx
          · rw [hx] at a; cases a
          · exact absurd hx b
      have htne : taken ≠ [] := by
        rw [← htaken]; intro h
        have hl : (c.reverse.take k).length = k := by
          rw [List.length_take, List.length_reverse]; omega
        rw [h] at hl; simp at hl; omega
      refine ⟨c.take (c.length - k), ⟨Or.inl rfl, hp _ rfl, ?_, ?_, ?_, ?_, ?_, ?_⟩, ?_⟩
      · show Exact bc.h2i (lockedHashes _ ++ _)
        rw [hLH, hL]; exact g.exact
      · show (lockedHashes _ ++ _).Nodup
        rw [hLH, hL]; exact g.nodup
      · intro h hm
        rw [hLH] at hm
        rcases List.mem_append.mp hm with hm | hm
        · exact unreg h (Or.inl (g.lockedUnreg h hm))
        · exact unreg h (Or.inr hm)
      · intro h hh
        obtain ⟨v, hv⟩ := (dhas_iff _ _).mp hh
        exact g.weights h ((dhas_iff _ _).mpr ⟨v, (Fnew h v hv).1⟩)
      · exact unreg anchor0 (Or.inl g.anchorUnreg)
      · show taken.getLastD bc.parentHash = ((lockedHashes _).getLast?).getD anchor0
        rw [hLH]
        obtain ⟨ys, z, hz⟩ : ∃ ys z, taken = ys ++ [z] := by
          rcases List.eq_nil_or_concat taken with h | ⟨ys, z, h⟩
          · exact absurd h htne
          · exact ⟨ys, z, by simpa using h⟩
        rw [hz, ← List.append_assoc]
        simp [List.getLastD_eq_getLast?]
      · rw [hLH, hL]

end Pycoin.Chain
