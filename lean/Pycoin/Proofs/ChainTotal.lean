import Pycoin.Proofs.ChainFull
/-! the finder never raises and its walks end within the fuel, for an acyclic parent relation (core Lean only) -/
namespace Pycoin.Chain

/-- `parent_lookup` is acyclic: some rank decreases along every link -/
def AcyclicPl (f : Nat → Nat) (pl : Dict Nat) : Prop := ∀ k v, dget pl k = some v → f v < f k

/-- how many entries lie at or below `x` -/
def below (f : Nat → Nat) (pl : Dict Nat) (x : Nat) : Nat := (dkeys pl).countP (fun k => f k ≤ f x)

theorem countP_lt_of_witness {p q : Nat → Bool} : ∀ (l : List Nat) (x : Nat), (∀ k, p k = true → q k = true) → x ∈ l →
    q x = true → p x = false → l.countP p < l.countP q
  | [], _, _, hx, _, _ => by simp at hx
  | a :: r, x, himp, hx, hq, hp => by
      have hle : r.countP p ≤ r.countP q := List.countP_mono_left (fun k _ hk => himp k hk)
      rcases List.mem_cons.mp hx with e | e
      · subst e
        simp only [List.countP_cons, hq, hp, if_true]
        simp; omega
      · have ih := countP_lt_of_witness r x himp e hq hp
        simp only [List.countP_cons]
        by_cases ha : p a = true
        · simp [ha, himp a ha]; omega
        · by_cases hqa : q a = true
          · simp [ha, hqa]; omega
          · simp [ha, hqa]; omega

theorem mem_dkeys_of_dget {α} (d : Dict α) (k : Nat) (v : α) (h : dget d k = some v) : k ∈ dkeys d := by
  have := dget_mem d k v h
  exact List.mem_map.mpr ⟨(k, v), this, rfl⟩

theorem below_lt {f : Nat → Nat} {pl : Dict Nat} (hac : AcyclicPl f pl) (x p : Nat) (h : dget pl x = some p) :
    below f pl p < below f pl x := by
  unfold below
  apply countP_lt_of_witness (dkeys pl) x
  · intro k hk
    have := hac x p h
    simp only [decide_eq_true_eq] at hk ⊢; omega
  · exact mem_dkeys_of_dget pl x p h
  · simp
  · have := hac x p h
    simp only [decide_eq_false_iff_not]; omega

theorem below_le_length (f : Nat → Nat) (pl : Dict Nat) (x : Nat) : below f pl x ≤ pl.length := by
  unfold below dkeys
  have := List.countP_le_length (p := fun k => decide (f k ≤ f x)) (l := pl.map (·.1))
  simpa using this

/-- the inner walk ends within its fuel and does not raise -/
theorem walkUp_ok (f : Nat → Nat) (P P' : List Nat) : ∀ (fuel : Nat) (cf : CF) (path : List Nat) (x : Nat),
    InvX P [] cf → AcyclicPl f cf.parent → below f cf.parent x + 1 ≤ fuel →
    ∃ res, walkUp P' fuel cf path x = .ok res
  | 0, _, _, _, _, _, hf => by omega
  | fuel + 1, cf, path, x, inv, hac, hf => by
      unfold walkUp
      cases hp : dget cf.parent x with
      | none => exact ⟨_, rfl⟩
      | some p =>
        simp only
        cases ht : dget cf.trees p with
        | none =>
          simp only
          by_cases hpend : p ∈ P'
          · simp [hpend]
          · simp only [hpend, if_false]
            exact walkUp_ok f P P' fuel cf _ p inv hac (by have := below_lt hac x p hp; omega)
        | some t =>
          cases t with
          | nil =>
            simp only
            by_cases hpend : p ∈ P'
            · simp [hpend]
            · simp only [hpend, if_false]
              exact walkUp_ok f P P' fuel cf _ p inv hac (by have := below_lt hac x p hp; omega)
          | cons b pre =>
            dsimp only
            obtain ⟨hhead, _, _⟩ := inv.tree p (b :: pre) ht
            have hb : b = p := by simpa using hhead
            obtain ⟨top, s, hl, hd, hm⟩ := inv.dcompl p (b :: pre) ht
            have htop : (b :: pre).getLast (by simp) = top := by
              have := List.getLast?_eq_some_getLast (l := b :: pre) (by simp)
              rw [hl] at this; injection this with this; exact this.symm
            rw [htop, hd]
            simp [hb, hm]

/-- along a path of links the rank drops -/
theorem UpQ.rank_drop {f : Nat → Nat} {pl : Dict Nat} {Pin Pend : List Nat} (hac : AcyclicPl f pl) :
    ∀ (x : Nat) (ext : List Nat), UpQ pl Pin Pend (x :: ext) → ∀ top, ext.getLast? = some top → f top < f x
  | _, [], _, top, h => by simp at h
  | x, [y], hu, top, h => by
      simp at h; subst h
      simp only [UpQ] at hu; exact hac x y hu.1
  | x, y :: z :: r, hu, top, h => by
      simp only [UpQ] at hu
      have h1 := hac x y hu.1
      have h2 := UpQ.rank_drop hac y (z :: r) hu.2.2 top (by simpa [List.getLast?_cons_cons] using h)
      omega

theorem extendWaiting_ok (bottom : Nat) (ext : List Nat) : ∀ (ws : List Nat) (trees : Dict (List Nat)),
    (∀ w ∈ ws, ∃ t, dget trees w = some t) → bottom ∉ ws →
    ∃ trees', extendWaiting bottom ext ws trees = .ok trees'
  | [], trees, _, _ => ⟨trees, rfl⟩
  | d :: ds, trees, hall, hb => by
      obtain ⟨prior, hprior⟩ := hall d (by simp)
      unfold extendWaiting
      rw [hprior]
      simp only
      apply extendWaiting_ok bottom ext ds
      · intro w hw
        have hwb : bottom ≠ w := fun e => hb (e ▸ List.mem_cons_of_mem _ hw)
        rw [dget_ddel_ne _ hwb, dget_dset]
        by_cases e : d = w
        · simp [e]
        · simp only [e, if_false]; exact hall w (List.mem_cons_of_mem _ hw)
      · exact fun h => hb (List.mem_cons_of_mem _ h)

/-- one turn of the melding loop does not raise -/
theorem meldOne_ok (f : Nat → Nat) (rev : Bool) (P : List Nat) (cf : CF) (h : Nat)
    (inv : InvX P [] cf) (hac : AcyclicPl f cf.parent) (hP : h ∈ P) (hreg : ∃ v, dget cf.parent h = some v) :
    ∃ cf', meldOne rev (sremove P h) cf h = .ok cf' := by
  obtain ⟨⟨path, cf1⟩, hw⟩ := walkUp_ok f P (sremove P h) (cf.parent.length + 1) cf [h] h inv hac
    (by have := below_le_length f cf.parent h; omega)
  have hsub : ∀ z ∈ sremove P h, z ∈ P := fun z hz => ((mem_sremove P h z).mp hz).1
  obtain ⟨ext, e1, up, hpar1, inv1, hne⟩ :=
    walkUp_spec P (sremove P h) hsub _ cf [h] h path cf1 inv (not_mem_sremove_self P h) hw
  obtain ⟨v, hv⟩ := hreg
  have hextne := hne v hv
  have hpath : path = h :: ext := by simpa using e1
  subst hpath
  obtain ⟨top, hl⟩ : ∃ top, ext.getLast? = some top := ⟨ext.getLast hextne, List.getLast?_eq_some_getLast hextne⟩
  have hlast : (h :: ext).getLast? = some top := by
    rw [show h :: ext = [h] ++ ext from rfl, List.getLast?_append, hl]; rfl
  have htopD : (h :: ext).getLastD h = top := by
    rw [List.getLastD_eq_getLast?, hlast]; rfl
  have htop : ¬ top = h := by
    have := UpQ.rank_drop hac h ext up top hl
    intro e; rw [e] at this; omega
  unfold meldOne
  rw [hw]
  simp only [bind, Except.bind]
  rw [htopD]
  simp only [htop, if_false]
  have D2 := setdefault_get cf1.dbt top
  generalize (if dhas cf1.dbt top = true then cf1.dbt else dset cf1.dbt top []) = dbt2 at D2 ⊢
  have D2h : dget dbt2 h = dget cf1.dbt h := by rw [D2, if_neg htop]
  cases hW : dget dbt2 h with
  | none => exact ⟨_, rfl⟩
  | some W =>
    cases W with
    | nil => exact ⟨_, rfl⟩
    | cons d ds =>
      simp only
      have hW1 : dget cf1.dbt h = some (d :: ds) := by rw [← D2h]; exact hW
      obtain ⟨trees', ht'⟩ := extendWaiting_ok h (List.drop 1 (h :: ext)) (siter rev (d :: ds)) (dset cf1.trees h (h :: ext))
        (by
          intro w hw
          rw [mem_siter] at hw
          obtain ⟨t, ht, _⟩ := inv1.dsound h _ w hW1 hw
          have hwh : h ≠ w := by
            intro e; subst e; exact inv1.key_not_pending h t ht hP
          exact ⟨t, by rw [dget_dset_ne _ _ hwh]; exact ht⟩)
        (by
          rw [mem_siter]; intro hm
          obtain ⟨t, ht, _⟩ := inv1.dsound h _ h hW1 hm
          exact inv1.key_not_pending h t ht hP)
      rw [ht']
      exact ⟨_, rfl⟩

theorem meld_ok (f : Nat → Nat) (rev : Bool) (rank : List Nat) : ∀ (n : Nat) (P : PSet) (cf : CF),
    InvX P [] cf → AcyclicPl f cf.parent → (∀ h ∈ P, ∃ v, dget cf.parent h = some v) →
    ∃ cf', meld rev rank n P cf = .ok cf'
  | 0, _, cf, _, _, _ => ⟨cf, rfl⟩
  | n + 1, P, cf, inv, hac, hreg => by
      unfold meld
      cases hp : pick rank P with
      | none => exact ⟨cf, rfl⟩
      | some h =>
        simp only
        have hm := pick_mem rank P h hp
        obtain ⟨cf1, h1⟩ := meldOne_ok f rev P cf h inv hac hm (hreg h hm)
        obtain ⟨inv1, par1⟩ := meldOne_inv rev P cf cf1 h inv hm (hreg h hm) h1
        obtain ⟨cf', h2⟩ := meld_ok f rev rank n (sremove P h) cf1 inv1 (par1 ▸ hac)
          (by intro h' hh'; rw [par1]; exact hreg h' ((mem_sremove P h h').mp hh').1)
        exact ⟨cf', by rw [h1]; exact h2⟩

/-- **`load_nodes` never raises and its walks end**, when the parent relation after registration is acyclic -/
theorem loadNodes_ok (f : Nat → Nat) (rev : Bool) (rank : List Nat) (cf : CF) (nodes : List (Nat × Nat))
    (inv : InvX [] [] cf) (hac : AcyclicPl f (register cf.parent [] nodes).1) :
    ∃ cf', cf.loadNodes rev rank nodes = .ok cf' := by
  unfold CF.loadNodes
  have hnew0 : ∀ x ∈ (register cf.parent [] nodes).2, dget cf.parent x = none := by
    intro x hx
    rcases register_snd nodes cf.parent [] x hx with h | h
    · simp at h
    · exact h
  have inv0 : InvX (register cf.parent [] nodes).2 [] { cf with parent := (register cf.parent [] nodes).1 } := by
    refine ⟨?_, inv.dsound, inv.dcompl, ?_, inv.nodup⟩
    · intro b t hb
      obtain ⟨a1, a2, a3⟩ := inv.tree b t hb
      refine ⟨a1, a2, UpQ.register (fun k v hk => register_ext nodes _ _ k v hk) hnew0 ?_ t a3⟩
      intro x hx
      cases hv : dget (register cf.parent [] nodes).1 x with
      | none => exact Or.inl rfl
      | some v =>
        rcases register_reg nodes _ _ x v hv with h | h
        · rw [hx] at h; cases h
        · exact Or.inr h
    · intro x v hx hxp
      simp only at hx
      rcases register_reg nodes _ _ x v hx with h | h
      · exact inv.covers x v h (by simp)
      · exact absurd h hxp
  exact meld_ok f rev rank _ _ _ inv0 hac (register_snd_reg nodes cf.parent [] (by simp))

end Pycoin.Chain
