import Pycoin.Proofs.Bech32Poly
/-!
Error detection of the Bech32 checksum, reduced by linearity to syndromes of error words.
Core Lean only.
-/
namespace Pycoin.Bech32
open Pycoin.Gen.Codecs

/-- the syndrome of an error word: `bech32_polymod` run from 0 instead of 1 -/
def syndrome (e : List Nat) : Nat := e.foldl polymodStep 0

/-- symbol-wise xor of a word and an error word -/
def corrupt (xs e : List Nat) : List Nat := List.zipWith (· ^^^ ·) xs e

/-- **reduction.** The polymod of a corrupted word is the polymod of the word xor the syndrome of the error. -/
theorem polymod_corrupt (xs e : List Nat) (h : xs.length = e.length) :
    polymod (corrupt xs e) = polymod xs ^^^ syndrome e := by
  have := foldl_polymodStep_xor xs e h 1 0
  rw [Nat.xor_zero] at this
  exact this

theorem polymodStep_zero_zero : polymodStep 0 0 = 0 := by
  rw [polymodStep_small 0 0 (by decide) (by decide)]

theorem syndrome_zeros (n : Nat) (c : Nat) (hc : c = 0) : (List.replicate n 0).foldl polymodStep c = 0 := by
  subst hc
  induction n with
  | zero => rfl
  | succ n ih => rw [List.replicate_succ, List.foldl_cons, polymodStep_zero_zero, ih]

/-- leading zeros of an error word do not matter -/
theorem syndrome_replicate_append (n : Nat) (e : List Nat) : syndrome (List.replicate n 0 ++ e) = syndrome e := by
  unfold syndrome
  rw [List.foldl_append, syndrome_zeros n 0 rfl]

/-- syndrome of the single error `v` followed by `j` unchanged symbols -/
def single (j v : Nat) : Nat := syndrome (v :: List.replicate j 0)

/-- the syndromes of all single errors `v ∈ 1..31` at distance `j < n` from the end, computed incrementally
(`single (j+1) v = polymodStep (single j v) 0`) -/
def singlesRow (v : Nat) : Nat → Nat → List Nat
  | 0, _ => []
  | n + 1, c => c :: singlesRow v n (polymodStep c 0)

def allSingles (n : Nat) : List Nat :=
  (List.range 31).flatMap (fun v => singlesRow (v + 1) n (polymodStep 0 (v + 1)))

theorem single_succ (j v : Nat) : single (j + 1) v = polymodStep (single j v) 0 := by
  unfold single syndrome
  rw [List.replicate_succ', ← List.cons_append, List.foldl_append]
  rfl

theorem mem_singlesRow (v n c : Nat) (j0 : Nat) (hc : c = single j0 v) (j : Nat) (hj : j < n) :
    single (j0 + j) v ∈ singlesRow v n c := by
  induction n generalizing c j0 j with
  | zero => omega
  | succ n ih =>
    rw [singlesRow]
    cases j with
    | zero => rw [Nat.add_zero, ← hc]; exact List.mem_cons_self
    | succ j =>
      apply List.mem_cons_of_mem
      have := ih (polymodStep c 0) (j0 + 1) (by rw [hc, single_succ]) j (by omega)
      rwa [show j0 + 1 + j = j0 + (j + 1) by omega] at this

theorem single_mem_allSingles (n j v : Nat) (hj : j < n) (hv1 : 1 ≤ v) (hv : v < 32) :
    single j v ∈ allSingles n := by
  unfold allSingles
  rw [List.mem_flatMap]
  refine ⟨v - 1, List.mem_range.mpr (by omega), ?_⟩
  have hv' : v - 1 + 1 = v := by omega
  rw [hv']
  have := mem_singlesRow v n (polymodStep 0 v) 0 (by simp [single, syndrome]) j hj
  rwa [Nat.zero_add] at this

end Pycoin.Bech32
