import Pycoin.Proofs.Bech32Poly
/-!
Error detection of the Bech32 checksum, reduced by linearity to syndromes of error words.
Core Lean only.
-/
namespace Pycoin.Bech32
open Pycoin.Gen.Codecs

/-- the syndrome of an error word: `bech32_polymod` run from 0 instead of 1 -/
def syndrome (e : List Nat) : Nat := e.foldl polymodStep 0

/-- symbol-wise xor of a word and an error word -/
def corrupt (xs e : List Nat) : List Nat := List.zipWith (· ^^^ ·) xs e

/-- **reduction.** The polymod of a corrupted word is the polymod of the word xor the syndrome of the error. -/
theorem polymod_corrupt (xs e : List Nat) (h : xs.length = e.length) :
    polymod (corrupt xs e) = polymod xs ^^^ syndrome e := by
  have := foldl_polymodStep_xor xs e h 1 0
  rw [Nat.xor_zero] at this
  exact this

theorem polymodStep_zero_zero : polymodStep 0 0 = 0 := by
  rw [polymodStep_small 0 0 (by decide) (by decide)]

theorem syndrome_zeros (n : Nat) (c : Nat) (hc : c = 0) : (List.replicate n 0).foldl polymodStep c = 0 := by
  subst hc
  induction n with
  | zero => rfl
  | succ n ih => rw [List.replicate_succ, List.foldl_cons, polymodStep_zero_zero, ih]

/-- leading zeros of an error word do not matter -/
theorem syndrome_replicate_append (n : Nat) (e : List Nat) : syndrome (List.replicate n 0 ++ e) = syndrome e := by
  unfold syndrome
  rw [List.foldl_append, syndrome_zeros n 0 rfl]

/-- syndrome of the single error `v` followed by `j` unchanged symbols -/
def single (j v : Nat) : Nat := syndrome (v :: List.replicate j 0)

/-- the syndromes of all single errors `v ∈ 1..31` at distance `j < n` from the end, computed incrementally
(`single (j+1) v = polymodStep (single j v) 0`) -/
def singlesRow (v : Nat) : Nat → Nat → List Nat
  | 0, _ => []
  | n + 1, c => c :: singlesRow v n (polymodStep c 0)

def allSingles (n : Nat) : List Nat :=
  (List.range 31).flatMap (fun v => singlesRow (v + 1) n (polymodStep 0 (v + 1)))

theorem single_succ (j v : Nat) : single (j + 1) v = polymodStep (single j v) 0 := by
  unfold single syndrome
  rw [List.replicate_succ', ← List.cons_append, List.foldl_append]
  rfl

theorem mem_singlesRow (v n c : Nat) (j0 : Nat) (hc : c = single j0 v) (j : Nat) (hj : j < n) :
    single (j0 + j) v ∈ singlesRow v n c := by
  induction n generalizing c j0 j with
  | zero => omega
  | succ n ih =>
    rw [singlesRow]
    cases j with
    | zero => rw [Nat.add_zero, ← hc]; exact List.mem_cons_self
    | succ j =>
      apply List.mem_cons_of_mem
      have := ih (polymodStep c 0) (j0 + 1) (by rw [hc, single_succ]) j (by omega)
      rwa [show j0 + 1 + j = j0 + (j + 1) by omega] at this

theorem single_mem_allSingles (n j v : Nat) (hj : j < n) (hv1 : 1 ≤ v) (hv : v < 32) :
    single j v ∈ allSingles n := by
  unfold allSingles
  rw [List.mem_flatMap]
  refine ⟨v - 1, List.mem_range.mpr (by omega), ?_⟩
  have hv' : v - 1 + 1 = v := by omega
  rw [hv']
  have := mem_singlesRow v n (polymodStep 0 v) 0 (by simp [single, syndrome]) j hj
  rwa [Nat.zero_add] at this

/-! ### index-carrying table of single-error syndromes and the bucketed pair check -/

/-- `(j, v, single j v)` for `j = j0, j0+1, …` (`n` entries) -/
def rowIdx (v : Nat) : Nat → Nat → Nat → List (Nat × Nat × Nat)
  | 0, _, _ => []
  | n + 1, j0, c => (j0, v, c) :: rowIdx v n (j0 + 1) (polymodStep c 0)

def tableIdx (n : Nat) : List (Nat × Nat × Nat) :=
  (List.range 31).flatMap (fun v => rowIdx (v + 1) n 0 (polymodStep 0 (v + 1)))

theorem mem_rowIdx (v n c j0 : Nat) (hc : c = single j0 v) (j : Nat) (hj : j < n) :
    (j0 + j, v, single (j0 + j) v) ∈ rowIdx v n j0 c := by
  induction n generalizing c j0 j with
  | zero => omega
  | succ n ih =>
    rw [rowIdx]
    cases j with
    | zero =>
      show (j0, v, single j0 v) ∈ _
      rw [← hc]; exact List.mem_cons_self
    | succ j =>
      apply List.mem_cons_of_mem
      have := ih (polymodStep c 0) (j0 + 1) (by rw [hc, single_succ]) j (by omega)
      rwa [show j0 + 1 + j = j0 + (j + 1) by omega] at this

theorem mem_tableIdx (n j v : Nat) (hj : j < n) (hv1 : 1 ≤ v) (hv : v < 32) :
    (j, v, single j v) ∈ tableIdx n := by
  unfold tableIdx
  rw [List.mem_flatMap]
  refine ⟨v - 1, List.mem_range.mpr (by omega), ?_⟩
  have hv' : v - 1 + 1 = v := by omega
  rw [hv']
  have := mem_rowIdx v n (polymodStep 0 v) 0 (by simp [single, syndrome]) j hj
  rwa [Nat.zero_add] at this

/-- no two entries of `l` have the same syndrome (quadratic; used per bucket) -/
def distinctB : List (Nat × Nat × Nat) → Bool
  | [] => true
  | x :: xs => xs.all (fun y => x.2.2 != y.2.2) && distinctB xs

theorem distinctB_sound (l : List (Nat × Nat × Nat)) (h : distinctB l = true)
    (a b : Nat × Nat × Nat) (ha : a ∈ l) (hb : b ∈ l) (hs : a.2.2 = b.2.2) : a = b := by
  induction l with
  | nil => cases ha
  | cons x xs ih =>
    rw [distinctB, Bool.and_eq_true, List.all_eq_true] at h
    rcases List.mem_cons.mp ha with rfl | ha' <;> rcases List.mem_cons.mp hb with rfl | hb'
    · rfl
    · have := h.1 b hb'; simp [hs] at this
    · have := h.1 a ha'; simp [hs] at this
    · exact ih h.2 ha' hb'

/-- the pair check, bucketed by `syndrome mod m`: within `l`, syndromes are pairwise distinct and no syndrome is
another one xor `T` -/
def pairCheck (m T : Nat) (l : List (Nat × Nat × Nat)) : Bool :=
  (List.range m).all (fun k =>
    let A := l.filter (fun x => x.2.2 % m == k)
    let B := l.filter (fun x => (x.2.2 ^^^ T) % m == k)
    distinctB A && B.all (fun x => A.all (fun y => (x.2.2 ^^^ T) != y.2.2)))

theorem pairCheck_sound (m T : Nat) (hm : 0 < m) (l : List (Nat × Nat × Nat)) (h : pairCheck m T l = true)
    (a b : Nat × Nat × Nat) (ha : a ∈ l) (hb : b ∈ l) :
    (a.2.2 = b.2.2 → a = b) ∧ a.2.2 ^^^ T ≠ b.2.2 := by
  unfold pairCheck at h
  rw [List.all_eq_true] at h
  have hk := h (b.2.2 % m) (List.mem_range.mpr (Nat.mod_lt _ hm))
  simp only [Bool.and_eq_true, List.all_eq_true] at hk
  have hbA : b ∈ l.filter (fun x => x.2.2 % m == b.2.2 % m) := by
    rw [List.mem_filter]; exact ⟨hb, by simp⟩
  constructor
  · intro hs
    have haA : a ∈ l.filter (fun x => x.2.2 % m == b.2.2 % m) := by
      rw [List.mem_filter]; exact ⟨ha, by simp [hs]⟩
    exact distinctB_sound _ hk.1 a b haA hbA hs
  · intro hs
    have haB : a ∈ l.filter (fun x => (x.2.2 ^^^ T) % m == b.2.2 % m) := by
      rw [List.mem_filter]; exact ⟨ha, by simp [hs]⟩
    have := hk.2 a haB b hbA
    simp [hs] at this

/-- the other checksum constant, as a syndrome: `1 xor BECH32M_CONST` -/
def crossT : Nat := 1 ^^^ bech32mConst

/-- kernel evaluation over the 89 × 31 single-error syndromes: none is 0 or `crossT` -/
theorem singles_table_w1 :
    (tableIdx 89).all (fun x => x.2.2 != 0 && x.2.2 != crossT) = true := by decide +kernel

/-- kernel evaluation: the single-error syndromes are pairwise distinct and none is another xor `crossT` -/
theorem singles_table_w2 : pairCheck 64 crossT (tableIdx 89) = true := by decide +kernel

theorem single_ne (j v : Nat) (hj : j < 89) (hv1 : 1 ≤ v) (hv : v < 32) :
    single j v ≠ 0 ∧ single j v ≠ crossT := by
  have h := singles_table_w1
  rw [List.all_eq_true] at h
  have := h _ (mem_tableIdx 89 j v hj hv1 hv)
  simpa using this

theorem single_pair_ne (j1 v1 j2 v2 : Nat) (hj1 : j1 < 89) (hv1 : 1 ≤ v1) (hv1' : v1 < 32)
    (hj2 : j2 < 89) (hv2 : 1 ≤ v2) (hv2' : v2 < 32) (hne : j1 ≠ j2) :
    single j1 v1 ^^^ single j2 v2 ≠ 0 ∧ single j1 v1 ^^^ single j2 v2 ≠ crossT := by
  have h := pairCheck_sound 64 crossT (by decide) _ singles_table_w2 _ _
    (mem_tableIdx 89 j1 v1 hj1 hv1 hv1') (mem_tableIdx 89 j2 v2 hj2 hv2 hv2')
  simp only at h
  constructor
  · intro h0
    have : single j1 v1 = single j2 v2 := by
      have := congrArg (· ^^^ single j2 v2) h0
      simp only [Nat.xor_assoc, Nat.xor_self, Nat.xor_zero, Nat.zero_xor] at this
      exact this
    have := h.1 this
    simp only [Prod.mk.injEq] at this
    exact hne this.1
  · intro hT
    apply h.2
    have := congrArg (single j1 v1 ^^^ ·) hT
    simp only [← Nat.xor_assoc, Nat.xor_self, Nat.zero_xor] at this
    rw [← this]

/-! ### error words with one and with two non-zero symbols -/

theorem syndrome_single_word (a j v : Nat) :
    syndrome (List.replicate a 0 ++ v :: List.replicate j 0) = single j v :=
  syndrome_replicate_append a _

theorem foldl_zeros_single (g k v : Nat) :
    (List.replicate k 0).foldl polymodStep (single g v) = single (g + k) v := by
  unfold single syndrome
  rw [← List.replicate_append_replicate, ← List.cons_append, List.foldl_append]

theorem zipWith_zeros (l : List Nat) : List.zipWith (· ^^^ ·) (List.replicate l.length 0) l = l := by
  induction l with
  | nil => rfl
  | cons x xs ih => rw [List.length_cons, List.replicate_succ, List.zipWith_cons_cons, ih, Nat.zero_xor]

theorem syndrome_double_word (a g j v1 v2 : Nat) :
    syndrome (List.replicate a 0 ++ v1 :: (List.replicate g 0 ++ v2 :: List.replicate j 0)) =
      single (g + (j + 1)) v1 ^^^ single j v2 := by
  rw [syndrome_replicate_append]
  unfold syndrome
  rw [← List.cons_append, List.foldl_append]
  have hfold : (v1 :: List.replicate g 0).foldl polymodStep 0 = single g v1 := rfl
  rw [hfold]
  have hlin := foldl_polymodStep_xor (List.replicate (j + 1) 0) (v2 :: List.replicate j 0) (by simp) (single g v1) 0
  rw [Nat.xor_zero] at hlin
  have hz : List.zipWith (· ^^^ ·) (List.replicate (j + 1) 0) (v2 :: List.replicate j 0) = v2 :: List.replicate j 0 := by
    have := zipWith_zeros (v2 :: List.replicate j 0)
    simpa using this
  rw [hz] at hlin
  rw [hlin, foldl_zeros_single]
  rfl

end Pycoin.Bech32
