import Pycoin.Proofs.NativePure
import Pycoin.Proofs.NativeSecpPure
import Pycoin.Proofs.CurveFacts.secp256k1
import Pycoin.Proofs.CurveFacts.secp256r1
import Pycoin.Proofs.CurveFacts.Order
/-!
The side conditions of the native-glue theorems on the two curves that have native classes (constants as generated from
the code now), and the non-vacuity witnesses of the contract.
-/
namespace Pycoin.Native
open Pycoin Pycoin.Curve Pycoin.Gen.Curves

theorem ecdsaOk_secp256k1 : ECDSAOk secp256k1 :=
  ⟨prime_n_secp256k1, by decide +kernel, by decide +kernel, G_on_curve_secp256k1,
    by unfold Reduced basis; decide +kernel, order_G_secp256k1⟩

theorem ecdsaOk_secp256r1 : ECDSAOk secp256r1 :=
  ⟨prime_n_secp256r1, by decide +kernel, by decide +kernel, G_on_curve_secp256r1,
    by unfold Reduced basis; decide +kernel, order_G_secp256r1⟩

theorem curveFits_secp256k1 : CurveFits secp256k1 := by
  unfold CurveFits bnBits Pycoin.RFC6979.bitLength; decide +kernel

theorem curveFits_secp256r1 : CurveFits secp256r1 := by
  unfold CurveFits bnBits Pycoin.RFC6979.bitLength; decide +kernel

theorem pureLib_ok_secp256k1 : LibCryptoOk (pureLib secp256k1) secp256k1 :=
  pureLib_ok secp256k1 (by decide +kernel) (fun _ _ => order_all_secp256k1 _)

theorem pureLib_ok_secp256r1 : LibCryptoOk (pureLib secp256r1) secp256r1 :=
  pureLib_ok secp256r1 (by decide +kernel) (fun _ _ => order_all_secp256r1 _)

theorem pureSecp_ok_secp256k1 : LibSecpOk (pureSecp secp256k1) secp256k1 :=
  pureSecp_ok secp256k1 ecdsaOk_secp256k1 (by decide +kernel) (fun _ _ => order_all_secp256k1 _)

end Pycoin.Native
