import Pycoin.Proofs.BIP32Ckd
/-!
C09 helper lemmas: coordinates of the public pair of a constructed private key (`0 ≤ x, y < p`, `y ≠ 0`).
-/
namespace Pycoin.BIP32
open Pycoin Pycoin.Curve WeierstrassCurve

variable {g : Gen} [Good g.c]

/-- a multiple of `G` has no zero ordinate when the order is odd (a point with `y = 0` has order 2) -/
theorem y_ne_zero_of_multiple (S : Setting g) (hodd : g.c.n % 2 = 1) {x y : Int} {k : Int}
    (hon : containsXY g.c x y = true) (hk : toPoint g.c (some (x, y)) = k • toPoint g.c (basis g.c)) :
    (y : ZMod g.c.p) ≠ 0 := by
  intro hy
  have hneg : - toPoint g.c (some (x, y)) = toPoint g.c (some (x, y)) := by
    rw [toPoint_some g.c hon, Affine.Point.neg_some]
    apply some_congr g.c _ _ rfl
    simp [Affine.negY, hy]
  have h2 : (2 : Int) • toPoint g.c (some (x, y)) = 0 := by
    rw [two_zsmul]; nth_rewrite 1 [← hneg]; exact neg_add_cancel _
  have hn : (g.c.n : Int) • toPoint g.c (some (x, y)) = 0 := by
    rw [hk, smul_comm, S.hord, zsmul_zero]
  have h1 : toPoint g.c (some (x, y)) = 0 := by
    have : (1 : Int) = (g.c.n : Int) - 2 * ((g.c.n : Int) / 2) := by
      have : (g.c.n : Int) % 2 = 1 := by exact_mod_cast hodd
      omega
    calc toPoint g.c (some (x, y)) = (1 : Int) • toPoint g.c (some (x, y)) := (one_zsmul _).symm
      _ = ((g.c.n : Int) - 2 * ((g.c.n : Int) / 2)) • toPoint g.c (some (x, y)) := by rw [← this]
      _ = 0 := by rw [sub_zsmul, hn, mul_comm, mul_zsmul, h2, zsmul_zero]; simp
  rw [toPoint_some g.c hon] at h1
  exact absurd h1 (Affine.Point.some_ne_zero _)

/-- the public pair of a constructed private key: coordinates in `[0, p)`, `y ≠ 0` -/
theorem pub_coords (S : Setting g) (hodd : g.c.n % 2 = 1) {s : Nat} {pp : Int × Int}
    (hpub : g.mul (s : Int) = .ok (some pp)) :
    0 ≤ pp.1 ∧ pp.1 < g.c.p ∧ 0 < pp.2 ∧ pp.2 < g.c.p := by
  obtain ⟨hon, hred, hpt, -⟩ := sec_of_pub S hpub
  obtain ⟨x, y⟩ := pp
  obtain ⟨x0, x1, y0, y1⟩ := hred
  have := y_ne_zero_of_multiple S hodd hon hpt
  refine ⟨x0, x1, ?_, y1⟩
  rcases Int.lt_or_eq_of_le y0 with h | h
  · exact h
  · exfalso; apply this; rw [← h]; simp

end Pycoin.BIP32
