import Pycoin.Proofs.SignEval
import Pycoin.Proofs.SignDer
import Pycoin.Proofs.ScriptPush
/-!
C05 — lemmas tying what the signer model writes (`pushAll`, `public_pair_to_sec`) to the shapes the evaluation lemmas of
`Proofs/SignEval.lean` are stated for.
-/
namespace Pycoin.Sign
open Pycoin Pycoin.Spec.Consensus

theorem valid_sig_length {sig : Bytes} (h : isValidSignatureEncoding sig = true) : 9 ≤ sig.length ∧ sig.length ≤ 73 := by
  unfold isValidSignatureEncoding at h
  simp only at h
  by_cases h1 : sig.length < 9
  · rw [if_pos h1] at h; cases h
  · by_cases h2 : sig.length > 73
    · rw [if_neg h1, if_pos h2] at h; cases h
    · omega

/-- pycoin's `compile_push_data_list` writes items of 0 or 2..75 bytes as direct pushes -/
theorem pushAll_direct : ∀ (items : List Bytes), (∀ d ∈ items, d.length = 0 ∨ (2 ≤ d.length ∧ d.length ≤ 75)) →
    pushAll (items.map some) = .ok (pushesOf items) := by
  intro items
  induction items with
  | nil => intro _; simp [pushAll, Script.compilePushDataList, pushesOf]
  | cons d r ih =>
    intro hall
    have hr := ih (fun x hx => hall x (List.mem_cons_of_mem _ hx))
    have hd := hall d (by simp)
    unfold pushAll at hr ⊢
    simp only [List.map_cons, Script.compilePushDataList]
    have hc : Script.compilePushData d = .ok (directPush d) := by
      rw [Script.compilePushData_eq d (by omega)]
      rcases hd with h0 | ⟨h2, h75⟩
      · have : d = [] := List.eq_nil_of_length_eq_zero h0
        subst this; rfl
      · match d, h2 with
        | a :: b :: t, _ =>
          simp only [Spec.minimalPush, Spec.smallIntOpcode]
          rw [if_pos h75]; rfl
    rw [hc]
    cases hrr : Script.compilePushDataList (List.map some r) with
    | error e => rw [hrr] at hr; cases hr
    | ok b =>
      rw [hrr] at hr
      simp only [Except.ok.injEq] at hr
      simp [bind, Except.bind, pure, Except.pure, hr, pushesOf]

/-- what `public_pair_to_sec` returns is a key the consensus rules call compressed-or-uncompressed (and compressed when asked) -/
theorem publicPairToSec_shape {x y : Int} {c : Bool} {sec : Bytes} (h : publicPairToSec x y c = .ok sec) :
    isCompressedOrUncompressedPubKey sec = true ∧ (c = true → isCompressedPubKey sec = true) ∧
    (sec.length = 33 ∨ sec.length = 65) := by
  unfold publicPairToSec at h
  have tb : ∀ v b, toBytes32 v = .ok b → b.length = 32 := by
    intro v b hv
    unfold toBytes32 at hv
    split at hv
    · cases hv
    · split at hv
      · cases hv
      · rename_i bb hb
        cases hv
        unfold beBytes? at hb
        split at hb
        · cases hb; simp
        · cases hb
  split at h
  · cases h
  · rename_i xs hx
    have hxl := tb _ _ hx
    split at h
    · rename_i hc
      cases h
      have hp : fmod y 2 = 0 ∨ fmod y 2 = 1 := by
        unfold fmod; have := Int.fmod_nonneg_of_pos y (show (0:Int) < 2 by omega)
        have := Int.fmod_lt_of_pos y (show (0:Int) < 2 by omega); omega
      rcases hp with hp | hp <;> simp [hp, isCompressedOrUncompressedPubKey, isCompressedPubKey, hxl]
    · rename_i hc
      split at h
      · cases h
      · rename_i ys hy
        have hyl := tb _ _ hy
        cases h
        simp [isCompressedOrUncompressedPubKey, hxl, hyl, hc]

end Pycoin.Sign
