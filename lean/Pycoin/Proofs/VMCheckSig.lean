import Mathlib.Tactic.SplitIfs
import Pycoin.Proofs.VMDerLax
import Pycoin.Proofs.VMInstr
/-!
`checksigops.py` against Core's `CheckSignatureEncoding` / `CheckPubKeyEncoding` / the OP_CHECKMULTISIG matching loop:
`parse_and_check_signature_blob`, `checksig`, and the two nested `while` loops of `checksigs` (pycoin pops keys and
signatures from the end) = Core's loop, for all signature and key lists with `#sigs ≤ #keys`, every flag set.
The signature check proper is the shared parameter `chk`; all that is asked of it is `ChkWF` (the early exits of
`CheckSig`).
-/
namespace Pycoin.VM
open Pycoin.Spec Pycoin.Gen.VM CondStack Consensus

theorem hasFlag_or (n a b : Nat) : hasFlag n (a ||| b) = (hasFlag n a || hasFlag n b) := by
  unfold hasFlag
  rw [Nat.and_or_distrib_left]
  generalize n &&& a = x
  generalize n &&& b = y
  by_cases h1 : x = 0
  · subst h1; simp
  · have : x ||| y ≠ 0 := by
      intro h; apply h1
      exact (Nat.or_eq_zero_iff.mp h).1
    have a : (x ||| y != 0) = true := by simpa using this
    have b : (x != 0) = true := by simpa using h1
    rw [a, b]; rfl

theorem flag_strictenc (n : Nat) : hasFlag n VERIFY_STRICTENC = (Flags.ofBits n).strictenc := hasFlag_pow n 1
theorem flag_dersig (n : Nat) : hasFlag n VERIFY_DERSIG = (Flags.ofBits n).dersig := hasFlag_pow n 2
theorem flag_lowS (n : Nat) : hasFlag n VERIFY_LOW_S = (Flags.ofBits n).lowS := hasFlag_pow n 3
theorem flag_nulldummy (n : Nat) : hasFlag n VERIFY_NULLDUMMY = (Flags.ofBits n).nulldummy := hasFlag_pow n 4
theorem flag_nullfail (n : Nat) : hasFlag n VERIFY_NULLFAIL = (Flags.ofBits n).nullfail := hasFlag_pow n 14
theorem flag_wpk (n : Nat) : hasFlag n VERIFY_WITNESS_PUBKEYTYPE = (Flags.ofBits n).witnessPubkeytype := hasFlag_pow n 15

theorem order_eq : generatorOrder = secp256k1N := by decide


theorem lowS_agree (r s : Nat) :
    (checkLowDerSignature r s).toOption.isSome = decide ((normSig (r, s)).2 ≤ secp256k1N / 2) := by
  unfold checkLowDerSignature normSig
  rw [order_eq]
  by_cases h1 : r ≥ secp256k1N
  · simp [h1, pure, Except.pure, Except.toOption]
  by_cases h2 : s ≥ secp256k1N
  · simp [h2, pure, Except.pure, Except.toOption]
  by_cases h3 : s > secp256k1N / 2
  · have : ¬ s ≤ secp256k1N / 2 := by omega
    simp [h1, h2, h3, this, Except.toOption]
  · have : s ≤ secp256k1N / 2 := by omega
    simp [h1, h2, h3, this, pure, Except.pure, Except.toOption]

/-- `parse_and_check_signature_blob` against `CheckSignatureEncoding`: it raises exactly when Core rejects the encoding;
otherwise it yields a signature pair exactly when the blob is non-empty and the lax parser reads it -/
theorem parse_cases (sig : Bytes) (n : Nat) :
    (∃ e, parseAndCheckSignatureBlob sig n = .error e ∧ (checkSignatureEncoding sig (Flags.ofBits n)).isSome = true) ∨
    (∃ p, parseAndCheckSignatureBlob sig n = .ok p ∧ checkSignatureEncoding sig (Flags.ofBits n) = none ∧
        (p == .parsed) = (!sig.isEmpty && (laxDerParse sig.dropLast).isSome)) := by
  rcases sig with _ | ⟨b, t⟩
  · right; exact ⟨.unparseable, by simp [parseAndCheckSignatureBlob, pure, Except.pure], by simp [checkSignatureEncoding], by decide⟩
  have hne : (b :: t) ≠ [] := by simp
  have hlen : ¬ (b :: t).length = 0 := by simp
  unfold parseAndCheckSignatureBlob checkSignatureEncoding
  simp only [hlen, if_false, hasFlag_or, flag_dersig, flag_lowS, flag_strictenc, validSignature_eq,
    definedHashtype_eq _ hne, List.isEmpty_cons, Bool.false_eq_true, Bool.not_false, Bool.true_and,
    sigdecodeDerLax_spec, checkLowS]
  generalize (Flags.ofBits n).dersig = fd
  generalize (Flags.ofBits n).lowS = fl
  generalize (Flags.ofBits n).strictenc = fs
  cases hv : isValidSignatureEncoding (b :: t)
  · -- invalid encoding: an error under any of DERSIG / LOW_S / STRICTENC, no check at all otherwise
    cases hD : sigdecodeDerLax (b :: t).dropLast <;>
    cases fd <;> cases fl <;> cases fs <;>
    simp [bind, Except.bind, pure, Except.pure, sigDer]
  · obtain ⟨r, s, hD⟩ := valid_decodes _ hv
    rw [hD]
    have hl := lowS_agree r s
    cases hH : isDefinedHashtypeSignature (b :: t) <;>
    cases fd <;> cases fl <;> cases fs <;>
    simp [bind, Except.bind, pure, Except.pure, sigDer]
    all_goals first
      | (split <;> rfl)
      | (cases hc : checkLowDerSignature r s <;> simp [hc, Except.toOption] at hl ⊢ <;> omega)

/-- the early exits of `BaseSignatureChecker::CheckSig` (`GenericTransactionSignatureChecker::CheckSig`: an empty
signature, a signature the lax DER parser rejects, and a public key whose length does not fit its first byte
(`CPubKey::IsValid`) never verify) — the only thing the refinement needs to know about the shared parameter -/
def ChkWF (chk : Bytes → Bytes → Bytes → Bool → Bool) : Prop :=
  ∀ sig pk code w, chk sig pk code w = true →
    sig ≠ [] ∧ (laxDerParse sig.dropLast).isSome = true ∧ pubkeyShapeOk pk = true

/-- what Core does with one (signature, key) pair: both encodings, then the check -/
def corePair (chk : Bytes → Bytes → Bytes → Bool → Bool) (cfg : Config) (sig pk code : Bytes) : Res Bool :=
  match checkSignatureEncoding sig (Flags.ofBits cfg.flags) with
  | some e => .error e
  | none =>
    match checkPubKeyEncoding pk (Flags.ofBits cfg.flags) (specEnv cfg).sigversion with
    | some e => .error e
    | none => .ok (specChk chk sig pk code (specEnv cfg).sigversion)

theorem specChk_env (chk : Bytes → Bytes → Bytes → Bool → Bool) (cfg : Config) (sig pk code : Bytes) :
    specChk chk sig pk code (specEnv cfg).sigversion = chk sig pk code cfg.witness := by
  unfold specChk specEnv; cases cfg.witness <;> rfl

variable (chk : Bytes → Bytes → Bytes → Bool → Bool) (cfg : Config)

/-- `checksig(...)` for a signature whose encoding Core accepts = Core's treatment of the pair -/
theorem checksig_agree (hwp : hasFlag cfg.flags VERIFY_WITNESS_PUBKEYTYPE = true → cfg.witness = true) (hchk : ChkWF chk)
    (sig pk c : Bytes) (parsed : Bool) (hp : parsed = (!sig.isEmpty && (laxDerParse sig.dropLast).isSome))
    (henc : checkSignatureEncoding sig (Flags.ofBits cfg.flags) = none) :
    (checksig (stdEnv chk) cfg parsed sig pk (.ok c)).toOption = (corePair chk cfg sig pk c).toOption := by
  unfold checksig corePair checkPubKeyEncoding
  rw [henc, specChk_env]
  have hsv : ((specEnv cfg).sigversion == SigVersion.witnessV0) = cfg.witness := by
    unfold specEnv; cases cfg.witness <;> rfl
  have hw2 : (Flags.ofBits cfg.flags).witnessPubkeytype = true → cfg.witness = true := by
    rw [← flag_wpk]; exact hwp
  have hck : (parsed = false ∨ pubkeyShapeOk pk = false) → chk sig pk c cfg.witness = false := by
    intro h
    cases hc : chk sig pk c cfg.witness with
    | false => rfl
    | true =>
      obtain ⟨h1, h2, h3⟩ := hchk _ _ _ _ hc
      rcases h with h | h
      · rw [hp] at h
        have : sig.isEmpty = false := by cases sig <;> simp_all
        simp [this, h2] at h
      · rw [h3] at h; cases h
  simp only [flag_strictenc, flag_wpk, pubkeyEncoding_eq, compressedKey_eq, hsv, stdEnv]
  generalize (Flags.ofBits cfg.flags).strictenc = fs at *
  generalize (Flags.ofBits cfg.flags).witnessPubkeytype = fw at *
  generalize isCompressedOrUncompressedPubKey pk = k1 at *
  generalize isCompressedPubKey pk = k2 at *
  generalize hsh : pubkeyShapeOk pk = k3 at *
  generalize hcv : chk sig pk c cfg.witness = v at *
  clear hp henc hchk hwp hsv
  cases hwit : cfg.witness
  · have : fw = false := by cases fw <;> simp_all
    subst this
    cases fs <;> cases k1 <;> cases parsed <;> cases k3 <;>
      simp_all [bind, Except.bind, pure, Except.pure, Except.toOption]
  · cases fs <;> cases fw <;> cases k1 <;> cases k2 <;> cases parsed <;> cases k3 <;>
      simp_all [bind, Except.bind, pure, Except.pure, Except.toOption]

/-- Core's matching loop of OP_CHECKMULTISIG with the pure checker -/
def specMulti (code : Bytes) (sigs keys : List Bytes) : Res Bool :=
  Id.run (multisigLoop (m := Id) (fun a b c d => pure (specChk chk a b c d)) (Flags.ofBits cfg.flags)
    (specEnv cfg).sigversion code sigs keys)

theorem specMulti_nil (code : Bytes) (keys : List Bytes) : specMulti chk cfg code [] keys = .ok true := by
  cases keys <;> rfl

theorem specMulti_cons_nil (code sig : Bytes) (sigs : List Bytes) : specMulti chk cfg code (sig :: sigs) [] = .ok false := rfl

theorem specMulti_cons (code sig pk : Bytes) (sigs keys : List Bytes) :
    specMulti chk cfg code (sig :: sigs) (pk :: keys) =
      match corePair chk cfg sig pk code with
      | .error e => .error e
      | .ok fOk =>
        if (if fOk then sigs else sig :: sigs).length > keys.length then .ok false
        else specMulti chk cfg code (if fOk then sigs else sig :: sigs) keys := by
  simp only [specMulti, multisigLoop, corePair, Id.run]
  cases checkSignatureEncoding sig (Flags.ofBits cfg.flags) with
  | some e => rfl
  | none =>
    cases checkPubKeyEncoding pk (Flags.ofBits cfg.flags) (specEnv cfg).sigversion with
    | some e => rfl
    | none =>
      simp only [bind, pure]

theorem matchKeys_len (env : Env) (parsed : Bool) (sig : Bytes) (code : M Bytes) (n : Nat) :
    ∀ (pubs p' : List Bytes), matchKeys env cfg parsed sig code n pubs = .ok (some p') → n ≤ p'.length := by
  intro pubs
  induction pubs with
  | nil => intro p' h; simp [matchKeys, pure, Except.pure] at h
  | cons pk rest ih =>
    intro p' h
    unfold matchKeys at h
    by_cases hn : n < rest.length + 1
    · simp only [hn, if_true, bind, Except.bind] at h
      cases hc : checksig env cfg parsed sig pk code with
      | error e => rw [hc] at h; cases h
      | ok b =>
        rw [hc] at h
        cases b
        · exact ih p' h
        · simp only [if_true, pure, Except.pure, Except.ok.injEq, Option.some.injEq] at h
          subst h; omega
    · simp [hn, pure, Except.pure] at h

/-- the inner `while` loop of `checksigs` (one signature against the keys, from the top) against Core's loop -/
theorem matchKeys_spec (hwp : hasFlag cfg.flags VERIFY_WITNESS_PUBKEYTYPE = true → cfg.witness = true) (hchk : ChkWF chk)
    (sig c : Bytes) (rem : List Bytes) (parsed : Bool)
    (hp : parsed = (!sig.isEmpty && (laxDerParse sig.dropLast).isSome))
    (henc : checkSignatureEncoding sig (Flags.ofBits cfg.flags) = none) :
    ∀ pubs : List Bytes, rem.length < pubs.length →
      (specMulti chk cfg c (sig :: rem) pubs).toOption =
        match matchKeys (stdEnv chk) cfg parsed sig (.ok c) rem.length pubs with
        | .error _ => none
        | .ok none => some false
        | .ok (some p') => (specMulti chk cfg c rem p').toOption := by
  intro pubs
  induction pubs with
  | nil => intro h; simp at h
  | cons pk rest ih =>
    intro hlen
    simp only [List.length_cons] at hlen
    have hag := checksig_agree chk cfg hwp hchk sig pk c parsed hp henc
    rw [specMulti_cons]
    unfold matchKeys
    have hn : rem.length < rest.length + 1 := hlen
    simp only [hn, if_true, bind, Except.bind]
    cases hc : checksig (stdEnv chk) cfg parsed sig pk (.ok c) with
    | error e =>
      rw [hc] at hag
      cases hcp : corePair chk cfg sig pk c with
      | error e' => rfl
      | ok v => rw [hcp] at hag; simp [Except.toOption] at hag
    | ok b =>
      rw [hc] at hag
      cases hcp : corePair chk cfg sig pk c with
      | error e' => rw [hcp] at hag; simp [Except.toOption] at hag
      | ok v =>
        rw [hcp] at hag
        simp only [Except.toOption, Option.some.injEq] at hag
        subst hag
        cases b
        · -- no match: the key is used up
          simp only [Bool.false_eq_true, if_false, List.length_cons]
          by_cases hr : rem.length < rest.length
          · have : ¬ (rem.length + 1 > rest.length) := by omega
            simp only [this, if_false]
            exact ih hr
          · have : rem.length + 1 > rest.length := by omega
            simp only [this, if_true]
            cases rest with
            | nil => simp [matchKeys, pure, Except.pure, Except.toOption]
            | cons pk2 rest2 =>
              have : ¬ (rem.length < rest2.length + 1) := by simpa using hr
              simp [matchKeys, this, pure, Except.pure, Except.toOption]
        · have : ¬ (rem.length > rest.length) := by omega
          simp only [if_true, this, if_false, pure, Except.pure]

/-- **checksigs_eq** (the loops): pycoin's pop-from-the-end matching (`while sigs: … while len(sigs) < len(keys): …`)
and Core's `while (fSuccess && nSigsCount > 0)` loop give the same verdict for all signature and key lists with
`#sigs ≤ #keys`, by induction on the signature list (inner induction on the key list: `matchKeys_spec`) -/
theorem checksigsLoop_spec (hwp : hasFlag cfg.flags VERIFY_WITNESS_PUBKEYTYPE = true → cfg.witness = true) (hchk : ChkWF chk)
    (c : Bytes) : ∀ (sigs pubs : List Bytes), sigs.length ≤ pubs.length →
      (checksigsLoop (stdEnv chk) cfg (.ok c) sigs pubs).toOption = (specMulti chk cfg c sigs pubs).toOption := by
  intro sigs
  induction sigs with
  | nil => intro pubs _; rw [specMulti_nil]; rfl
  | cons sig rem ih =>
    intro pubs hlen
    simp only [List.length_cons] at hlen
    unfold checksigsLoop
    rcases parse_cases sig cfg.flags with ⟨e, he, hs⟩ | ⟨p, hpk, henc, hp⟩
    · -- Core rejects the encoding of this signature at the first key it is tried against
      cases pubs with
      | nil => simp at hlen
      | cons pk rest =>
        rw [specMulti_cons]
        simp only [he, bind, Except.bind, corePair]
        cases hx : checkSignatureEncoding sig (Flags.ofBits cfg.flags) with
        | none => rw [hx] at hs; cases hs
        | some e' => rfl
    · have hm := matchKeys_spec chk cfg hwp hchk sig c rem (p == .parsed) hp henc pubs (by omega)
      rw [hm]
      simp only [hpk, bind, Except.bind]
      cases hmk : matchKeys (stdEnv chk) cfg (p == SigParse.parsed) sig (.ok c) rem.length pubs with
      | error e => rfl
      | ok o =>
        cases o with
        | none => rfl
        | some p' =>
          simp only []
          exact ih p' (matchKeys_len cfg _ _ _ _ _ _ _ hmk)
end Pycoin.VM
