import Mathlib.Tactic.SplitIfs
import Pycoin.Proofs.VMStepArith
/-!
Handler level: OP_PICK / OP_ROLL (operand bounded to 4 bytes since the repair 09cb70c).
-/
namespace Pycoin.VM
open Pycoin.Spec Pycoin.Gen.VM CondStack Consensus

theorem decode_bound (x : Bytes) (h : x.length ≤ 4) :
    -2147483648 < scriptNumDecode x ∧ scriptNumDecode x < 2147483648 := by
  cases hr : x.reverse with
  | nil =>
    have : x = [] := by simpa using hr
    subst this; decide
  | cons i rest =>
    have hx := snoc_of_reverse hr
    rw [hx, decode_snoc]
    have hn : rest.reverse.length ≤ 3 := by
      have : x.length = rest.reverse.length + 1 := by rw [hx]; simp
      omega
    have hl := leNat_lt rest.reverse
    have hp : 256 ^ rest.reverse.length ≤ 256 ^ 3 := Nat.pow_le_pow_right (by decide) hn
    have hi : i.toNat % 128 ≤ 127 := by omega
    have hm := Nat.mul_le_mul_right (256 ^ rest.reverse.length) hi
    generalize 256 ^ rest.reverse.length = P at hl hp hm
    generalize i.toNat % 128 * P = t at hm
    generalize leNat rest.reverse = L at hl
    have : (256 : Nat) ^ 3 = 16777216 := by decide
    split_ifs <;> constructor <;> omega

theorem pyNum4_bound (n : Nat) (x : Bytes) (v : Int) (h : pyNum n x 4 = .ok v) : -2147483648 < v ∧ v < 2147483648 := by
  unfold pyNum at h
  by_cases hl : x.length > 4
  · simp [hl] at h
  · simp only [hl, if_false] at h
    have hb := decode_bound x (by omega)
    cases hm : hasFlag n VERIFY_MINIMALDATA <;> rw [hm] at h
    · rw [intFromScriptBytes_false] at h; cases h; exact hb
    · rw [intFromScriptBytes_true] at h
      split_ifs at h
      cases h; exact hb

theorem getInt_id (v : Int) (h : -2147483648 < v ∧ v < 2147483648) : scriptNumGetInt v = v := by
  unfold scriptNumGetInt; split_ifs <;> omega

variable (cfg : Config) (st : Consensus.State) (pc' : Nat) (f : Bool)

theorem h_PICK : Agree pc' (do_PICK cfg.flags (absS st pc')) (execOp (specEnv cfg) st f 0x79 pc') := by
  rcases st with ⟨stk, alt, vf, n, cs⟩
  rcases stk with _ | ⟨x, _ | ⟨y, r⟩⟩
  · opsimp [do_PICK, popNonnegative, popInt_nil]
  · rcases num_cases cfg.flags x 4 with ⟨v, h1, h2⟩ | ⟨e, h1, h2⟩ <;>
    opsimp [do_PICK, popNonnegative, popInt_cons, maxIntSize_eq, h1, Except.map]
    split_ifs <;> simp
  · rcases num_cases cfg.flags x 4 with ⟨v, h1, h2⟩ | ⟨e, h1, h2⟩
    · have hb := pyNum4_bound _ _ _ h1
      have hg := getInt_id v hb
      by_cases hneg : v < 0
      · opsimp [do_PICK, popNonnegative, popInt_cons, maxIntSize_eq, h1, h2, hg, hneg, num, specEnv, Except.map]
      · have hnn : ¬ (v < 0) := hneg
        by_cases hlen : v ≥ ((r.length + 1 : Nat) : Int)
        · have hnone : (y :: r)[v.toNat]? = none := by
            apply List.getElem?_eq_none; simp; omega
          have hlen' : (r.length : Int) + 1 ≤ v := by push_cast at hlen; omega
          opsimp [do_PICK, popNonnegative, popInt_cons, maxIntSize_eq, h1, h2, hg, hnn, num, specEnv, Except.map, hnone, hlen']
        · have hlt : v.toNat < (y :: r).length := by simp only [List.length_cons]; omega
          have hsome : (y :: r)[v.toNat]? = some ((y :: r)[v.toNat]) := List.getElem?_eq_getElem hlt
          have hlen' : ¬ ((r.length : Int) + 1 ≤ v) := by push_cast at hlen; omega
          opsimp [do_PICK, popNonnegative, popInt_cons, maxIntSize_eq, h1, h2, hg, hnn, num, specEnv, Except.map, hsome, hlen']
    · opsimp [do_PICK, popNonnegative, popInt_cons, maxIntSize_eq, h1, h2, num, specEnv, Except.map]

theorem eraseAt_eq (l : List Bytes) (n : Nat) : eraseAt l n = l.eraseIdx n := by
  unfold eraseAt; rw [List.eraseIdx_eq_take_drop_succ]

theorem h_ROLL : Agree pc' (do_ROLL cfg.flags (absS st pc')) (execOp (specEnv cfg) st f 0x7a pc') := by
  rcases st with ⟨stk, alt, vf, n, cs⟩
  rcases stk with _ | ⟨x, _ | ⟨y, r⟩⟩
  · opsimp [do_ROLL, popNonnegative, popInt_nil]
  · rcases num_cases cfg.flags x 4 with ⟨v, h1, h2⟩ | ⟨e, h1, h2⟩ <;>
    opsimp [do_ROLL, popNonnegative, popInt_cons, maxIntSize_eq, h1, Except.map]
    split_ifs <;> simp
    split_ifs <;> simp
  · rcases num_cases cfg.flags x 4 with ⟨v, h1, h2⟩ | ⟨e, h1, h2⟩
    · have hb := pyNum4_bound _ _ _ h1
      have hg := getInt_id v hb
      by_cases hneg : v < 0
      · opsimp [do_ROLL, popNonnegative, popInt_cons, maxIntSize_eq, h1, h2, hg, hneg, num, specEnv, Except.map]
      · have hnn : ¬ (v < 0) := hneg
        have hsmall : ¬ ((9223372036854775808 : Nat) ≤ v.toNat) := by omega
        by_cases hlen : v ≥ ((r.length + 1 : Nat) : Int)
        · have hnone : (y :: r)[v.toNat]? = none := by
            apply List.getElem?_eq_none; simp; omega
          have hlen' : (r.length : Int) + 1 ≤ v := by push_cast at hlen; omega
          opsimp [do_ROLL, popNonnegative, popInt_cons, maxIntSize_eq, h1, h2, hg, hnn, num, specEnv, Except.map, hnone, hlen',
            hsmall]
        · have hlt : v.toNat < (y :: r).length := by simp only [List.length_cons]; omega
          have hsome : (y :: r)[v.toNat]? = some ((y :: r)[v.toNat]) := List.getElem?_eq_getElem hlt
          have hlen' : ¬ ((r.length : Int) + 1 ≤ v) := by push_cast at hlen; omega
          opsimp [do_ROLL, popNonnegative, popInt_cons, maxIntSize_eq, h1, h2, hg, hnn, num, specEnv, Except.map, hsome, hlen',
            hsmall, eraseAt_eq]
    · opsimp [do_ROLL, popNonnegative, popInt_cons, maxIntSize_eq, h1, h2, num, specEnv, Except.map]

end Pycoin.VM
