import Pycoin.Spec.ScriptBasics
/-!
Lemmas about `CScriptNum` serialisation in the consensus specification (`Spec/ScriptBasics.lean`):
`scriptNumDecode ∘ scriptNumEncode = id` and minimality of `scriptNumEncode`.  Helper lemmas for `Props/C03.lean` (and C12).
-/
namespace Pycoin.Spec.Consensus
open Pycoin

theorem leNat_natLEAux : ∀ (f n : Nat), n ≤ f → leNat (natLEAux f n) = n := by
  intro f
  induction f with
  | zero => intro n h; have : n = 0 := by omega
            subst this; rfl
  | succ k ih =>
    intro n h
    simp only [natLEAux]
    split
    · next h0 => subst h0; rfl
    · next h0 =>
      simp only [leNat, UInt8.toNat_ofNat']
      rw [ih (n / 256) (by omega)]
      omega

theorem leNat_natLE (n : Nat) : leNat (natLE n) = n := leNat_natLEAux n n (Nat.le_refl n)

theorem leNat_append (a b : Bytes) : leNat (a ++ b) = leNat a + 256 ^ a.length * leNat b := by
  induction a with
  | nil => simp [leNat]
  | cons x xs ih =>
    simp only [List.cons_append, leNat, ih, List.length_cons, Nat.pow_succ]
    rw [Nat.mul_add, ← Nat.mul_assoc, Nat.mul_comm 256 (256 ^ xs.length), Nat.add_assoc]

/-- the last byte of the minimal encoding of a positive number is not zero -/
theorem natLEAux_last : ∀ (f n : Nat), n ≤ f → 0 < n → ∃ b, (natLEAux f n).getLast? = some b ∧ b ≠ 0 := by
  intro f
  induction f with
  | zero => intro n h hp; omega
  | succ k ih =>
    intro n h hp
    simp only [natLEAux]
    have h0 : n ≠ 0 := by omega
    simp only [h0, if_false]
    by_cases hq : n / 256 = 0
    · have hlt : n < 256 := by omega
      cases k with
      | zero => refine ⟨UInt8.ofNat (n % 256), by simp [natLEAux], ?_⟩
                intro hb
                have := congrArg UInt8.toNat hb
                simp [UInt8.toNat_ofNat'] at this
                omega
      | succ j =>
        refine ⟨UInt8.ofNat (n % 256), by simp [natLEAux, hq], ?_⟩
        intro hb
        have := congrArg UInt8.toNat hb
        simp [UInt8.toNat_ofNat'] at this
        omega
    · obtain ⟨b, hb, hne⟩ := ih (n / 256) (by omega) (by omega)
      refine ⟨b, ?_, hne⟩
      rw [List.getLast?_cons]
      simp [hb]

theorem u8_facts : ∀ n, n < 256 → (UInt8.ofNat n &&& 0x80 != 0) = false →
    ((UInt8.ofNat n ||| 0x80).toNat = n + 128 ∧ ((UInt8.ofNat n ||| 0x80) &&& 0x80 != 0) = true) := by decide +kernel

theorem u8_or80 (b : UInt8) (h : (b &&& 0x80 != 0) = false) :
    (b ||| 0x80).toNat = b.toNat + 128 ∧ ((b ||| 0x80) &&& 0x80 != 0) = true := by
  have := u8_facts b.toNat b.toNat_lt
  rw [UInt8.ofNat_toNat] at this
  exact this h

theorem decode_snoc (l : Bytes) (x : UInt8) :
    scriptNumDecode (l ++ [x]) =
      if x &&& 0x80 != 0 then - Int.ofNat (leNat l + 256 ^ l.length * x.toNat - 0x80 * 256 ^ l.length)
      else Int.ofNat (leNat l + 256 ^ l.length * x.toNat) := by
  simp [scriptNumDecode, leNat_append, leNat]

theorem scriptNum_roundtrip (v : Int) : scriptNumDecode (scriptNumEncode v) = v := by
  unfold scriptNumEncode
  by_cases hv : v = 0
  · subst hv; rfl
  · simp only [hv, if_false]
    have hpos : 0 < v.natAbs := Int.natAbs_pos.mpr hv
    obtain ⟨last, hlast, hne⟩ := natLEAux_last v.natAbs v.natAbs (Nat.le_refl _) hpos
    have hmag : leNat (natLE v.natAbs) = v.natAbs := leNat_natLE _
    have hsplit : (natLE v.natAbs).dropLast ++ [last] = natLE v.natAbs := by
      have hne' : natLE v.natAbs ≠ [] := by
        intro h; simp [natLE] at h; rw [h] at hlast; simp at hlast
      have := List.dropLast_concat_getLast hne'
      have hl : (natLE v.natAbs).getLast hne' = last := by
        have h2 := List.getLast?_eq_some_getLast hne'
        simp only [natLE] at h2 hlast
        rw [hlast] at h2
        exact (Option.some.inj h2).symm
      rw [hl] at this
      exact this
    simp only [natLE] at hlast hmag hsplit ⊢
    rw [hlast]
    simp only
    cases hb : (last &&& 0x80 != 0)
    · -- top bit clear
      simp only [Bool.false_eq_true, if_false]
      by_cases hneg : v < 0
      · simp only [hneg, if_true]
        rw [decode_snoc]
        obtain ⟨h1, h2⟩ := u8_or80 last hb
        simp only [h2, if_true, h1]
        have := congrArg leNat hsplit
        rw [leNat_append, hmag] at this
        simp only [leNat, Nat.mul_zero, Nat.add_zero] at this
        generalize 256 ^ (List.dropLast (natLEAux v.natAbs v.natAbs)).length = P at this ⊢
        generalize leNat (List.dropLast (natLEAux v.natAbs v.natAbs)) = A at this ⊢
        rw [Nat.mul_add]
        simp only [Int.ofNat_eq_natCast]
        have : A + P * last.toNat + P * 128 - 128 * P = v.natAbs := by omega
        rw [Nat.add_assoc] at this
        rw [this]
        omega
      · simp only [hneg, if_false]
        rw [← hsplit, decode_snoc, hb]
        simp only [Bool.false_eq_true, if_false]
        have := congrArg leNat hsplit
        rw [leNat_append, hmag] at this
        simp only [leNat, Nat.mul_zero, Nat.add_zero] at this
        rw [this]
        simp only [Int.ofNat_eq_natCast]
        omega
    · simp only [if_true]
      rw [decode_snoc]
      by_cases hneg : v < 0
      · simp [hneg, hmag]; omega
      · simp [hneg, hmag]; omega

theorem u8_facts2 : ∀ n, n < 256 → UInt8.ofNat n ≠ 0 → (UInt8.ofNat n &&& 0x80 != 0) = false →
    ((UInt8.ofNat n &&& 0x7f == 0) = false ∧ ((UInt8.ofNat n ||| 0x80) &&& 0x7f == 0) = false) := by decide +kernel

theorem u8_low7 (b : UInt8) (hne : b ≠ 0) (h : (b &&& 0x80 != 0) = false) :
    (b &&& 0x7f == 0) = false ∧ ((b ||| 0x80) &&& 0x7f == 0) = false := by
  have := u8_facts2 b.toNat b.toNat_lt
  rw [UInt8.ofNat_toNat] at this
  exact this hne h

theorem isMinimalNum_snoc (l : Bytes) (x : UInt8) :
    isMinimalNum (l ++ [x]) =
      if x &&& 0x7f == 0 then (match l.reverse with | [] => false | b2 :: _ => b2 &&& 0x80 != 0) else true := by
  simp [isMinimalNum]
  rfl

theorem scriptNumEncode_minimal (v : Int) : isMinimalNum (scriptNumEncode v) = true := by
  unfold scriptNumEncode
  by_cases hv : v = 0
  · subst hv; rfl
  · simp only [hv, if_false]
    have hpos : 0 < v.natAbs := Int.natAbs_pos.mpr hv
    obtain ⟨last, hlast, hne⟩ := natLEAux_last v.natAbs v.natAbs (Nat.le_refl _) hpos
    have hsplit : (natLE v.natAbs).dropLast ++ [last] = natLE v.natAbs := by
      have hne' : natLE v.natAbs ≠ [] := by
        intro h; simp [natLE] at h; rw [h] at hlast; simp at hlast
      have := List.dropLast_concat_getLast hne'
      have hl : (natLE v.natAbs).getLast hne' = last := by
        have h2 := List.getLast?_eq_some_getLast hne'
        simp only [natLE] at h2 hlast
        rw [hlast] at h2
        exact (Option.some.inj h2).symm
      rw [hl] at this
      exact this
    simp only [natLE] at hlast hsplit ⊢
    rw [hlast]
    simp only
    cases hb : (last &&& 0x80 != 0)
    · obtain ⟨h1, h2⟩ := u8_low7 last hne hb
      simp only [Bool.false_eq_true, if_false]
      by_cases hneg : v < 0
      · simp only [hneg, if_true]
        rw [isMinimalNum_snoc, h2]; rfl
      · simp only [hneg, if_false]
        rw [← hsplit, isMinimalNum_snoc, h1]; rfl
    · simp only [if_true]
      rw [isMinimalNum_snoc, ← hsplit]
      by_cases hneg : v < 0
      · simp [hneg, hb]
      · simp [hneg, hb]
end Pycoin.Spec.Consensus
