import Pycoin.Model.MsgSigning
import Pycoin.Model.PyErr
namespace Pycoin.MsgSigning
open Pycoin Pycoin.Gen.MsgSigning

/-! ## `split` / `join` on one-character separators -/

theorem splitOn1_append (sep : Char) (a b : Str) :
    splitOn1 sep (a ++ sep :: b) = ((splitOn1 sep a).1, (splitOn1 sep a).2 ++ splitOn sep b) := by
  induction a with
  | nil => simp [splitOn1, splitOn]
  | cons c t ih =>
    simp only [List.cons_append, splitOn1, ih]
    by_cases h : c = sep <;> simp [h, splitOn]

theorem splitOn_append (sep : Char) (a b : Str) : splitOn sep (a ++ sep :: b) = splitOn sep a ++ splitOn sep b := by
  simp [splitOn, splitOn1_append]

theorem splitOn1_noSep (sep : Char) (a : Str) (h : sep ∉ a) : splitOn1 sep a = (a, []) := by
  induction a with
  | nil => rfl
  | cons c t ih =>
    have hc : c ≠ sep := fun e => h (by simp [e])
    have ht : sep ∉ t := fun e => h (by simp [e])
    simp [splitOn1, ih ht, hc]

theorem splitOn_noSep (sep : Char) (a : Str) (h : sep ∉ a) : splitOn sep a = [a] := by
  simp [splitOn, splitOn1_noSep sep a h]

theorem joinWith_cons_cons (sep : Str) (c : Char) (a : Str) (rest : List Str) :
    joinWith sep ((c :: a) :: rest) = c :: joinWith sep (a :: rest) := by
  cases rest <;> simp [joinWith]

theorem joinLines_splitLines (s : Str) : joinLines (splitLines s) = s := by
  unfold joinLines splitLines splitOn
  induction s with
  | nil => rfl
  | cons c t ih =>
    simp only [splitOn1]
    by_cases h : c = '\n'
    · simp only [h, if_true, joinWith, List.nil_append, List.singleton_append, ih]
    · simp only [h, if_false, joinWith_cons_cons, ih]

theorem joinLines_cons2 (a b : Str) (rest : List Str) : joinLines (a :: b :: rest) = a ++ '\n' :: joinLines (b :: rest) := by
  simp [joinLines, joinWith]

theorem splitLines_joinLines (ls : List Str) (hne : ls ≠ []) (h : ∀ l ∈ ls, '\n' ∉ l) : splitLines (joinLines ls) = ls := by
  induction ls with
  | nil => exact absurd rfl hne
  | cons a rest ih =>
    cases rest with
    | nil => simpa [joinLines, joinWith, splitLines] using splitOn_noSep '\n' a (h a (by simp))
    | cons b rest' =>
      rw [joinLines_cons2]
      unfold splitLines at ih ⊢
      rw [splitOn_append, splitOn_noSep '\n' a (h a (by simp)), ih (by simp) (fun l hl => h l (by simp [hl]))]
      rfl

theorem splitOn1_noSep_mem (sep : Char) (s : Str) : sep ∉ (splitOn1 sep s).1 ∧ ∀ l ∈ (splitOn1 sep s).2, sep ∉ l := by
  induction s with
  | nil => simp [splitOn1]
  | cons c t ih =>
    simp only [splitOn1]
    by_cases h : c = sep
    · simp only [h, if_true]
      refine ⟨by simp, ?_⟩
      intro l hl
      simp only [List.mem_cons] at hl
      rcases hl with rfl | hl
      · exact ih.1
      · exact ih.2 l hl
    · simp only [h, if_false]
      refine ⟨?_, ih.2⟩
      intro hm
      simp only [List.mem_cons] at hm
      rcases hm with e | hm
      · exact h e.symm
      · exact ih.1 hm

theorem splitLines_noNL (s : Str) : ∀ l ∈ splitLines s, '\n' ∉ l := by
  intro l hl
  simp only [splitLines, splitOn, List.mem_cons] at hl
  rcases hl with rfl | hl
  · exact (splitOn1_noSep_mem '\n' s).1
  · exact (splitOn1_noSep_mem '\n' s).2 l hl

theorem splitLines_ne_nil (s : Str) : splitLines s ≠ [] := by simp [splitLines, splitOn]

/-! ## `mapInit`, `anyInit` -/

theorem mapInit_append {α} (f : α → α) (a b : List α) (hb : b ≠ []) : mapInit f (a ++ b) = a.map f ++ mapInit f b := by
  induction a with
  | nil => rfl
  | cons x t ih =>
    cases t with
    | nil =>
      cases b with
      | nil => exact absurd rfl hb
      | cons y b' => simp [mapInit]
    | cons y t' =>
      simp only [List.cons_append, mapInit, List.map_cons] at ih ⊢
      rw [ih]

theorem anyInit_append {α} (p : α → Bool) (a b : List α) (hb : b ≠ []) : anyInit p (a ++ b) = (a.any p || anyInit p b) := by
  induction a with
  | nil => simp
  | cons x t ih =>
    cases t with
    | nil =>
      cases b with
      | nil => exact absurd rfl hb
      | cons y b' => simp [anyInit]
    | cons y t' =>
      simp only [List.cons_append, anyInit, List.any_cons] at ih ⊢
      rw [ih]; simp [Bool.or_assoc]

theorem anyInit_false {α} (p : α → Bool) (l : List α) (h : ∀ x ∈ l, p x = false) : anyInit p l = false := by
  induction l with
  | nil => rfl
  | cons x t ih =>
    cases t with
    | nil => rfl
    | cons y t' =>
      simp only [anyInit, h x (by simp), Bool.false_or]
      exact ih (fun z hz => h z (by simp [hz]))

theorem mapInit_id_of {α} (f : α → α) (l : List α) (h : ∀ x ∈ l, f x = x) : mapInit f l = l := by
  induction l with
  | nil => rfl
  | cons x t ih =>
    cases t with
    | nil => rfl
    | cons y t' =>
      simp only [mapInit, h x (by simp)]
      rw [ih (fun z hz => h z (by simp [hz]))]

end Pycoin.MsgSigning
