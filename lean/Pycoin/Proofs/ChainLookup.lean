import Pycoin.Proofs.ChainDeliv
/-! the lookups of a `BlockChain` in a good state, all fields of `tuple_for_index`, `int` indices, the length
observers, `is_hash_known`, `preload_locked_blocks` (core Lean only) -/
namespace Pycoin.Chain
open Pycoin.Spec.Chain

theorem tupleForIndex_locked (rev : Bool) (bc : BC) (i : Nat) (hi : i < bc.locked.length) :
    bc.tupleForIndex rev i = .ok bc.locked[i] := by
  unfold BC.tupleForIndex
  simp [hi]

/-- `tuple_for_index` in the unlocked part: the hash, the hash below it (the anchor for the first one) and
`weight_lookup.get(hash)` -/
theorem tupleForIndex_unlocked {anchor0 : Nat} {bc : BC} {c : List Nat} (rev : Bool) (g : Good anchor0 bc c)
    (j : Nat) (hj : j < c.length) :
    ∃ x p, c.reverse[j]? = some x ∧ (bc.parentHash :: c.reverse)[j]? = some p ∧
      bc.tupleForIndex rev (bc.locked.length + j) = .ok (x, p, dget bc.weight x) := by
  unfold BC.tupleForIndex
  have hlt : ¬ (bc.locked.length + j < bc.locked.length) := by omega
  simp only [hlt, dite_false]
  rw [longest_of_cur rev bc c g.cur]
  simp only [bind, Except.bind, Nat.add_sub_cancel_left]
  have hnot : ¬ (j ≥ c.length) := by omega
  simp only [hnot, if_false]
  have h1 : c.length - 1 - j < c.length := by omega
  rw [List.getElem?_eq_getElem h1]
  simp only
  have hx : c.reverse[j]? = some c[c.length - 1 - j] := by
    rw [List.getElem?_reverse hj, List.getElem?_eq_getElem h1]
  by_cases hz : j = 0
  · subst hz
    exact ⟨_, bc.parentHash, hx, by simp, by simp [pure, Except.pure]⟩
  · have h2 : c.length - j < c.length := by omega
    refine ⟨_, c[c.length - j], hx, ?_, by simp [hz, List.getElem?_eq_getElem h2, pure, Except.pure]⟩
    obtain ⟨j', rfl⟩ : ∃ j', j = j' + 1 := ⟨j - 1, by omega⟩
    simp only [List.getElem?_cons_succ]
    rw [List.getElem?_reverse (by omega), List.getElem?_eq_getElem (by omega)]
    congr 2; omega

/-! ### `int` indices -/

theorem pyIndex_nonneg {α} (l : List α) (i : Nat) (hi : i < l.length) : pyIndex l (i : Int) = .ok l[i] := by
  unfold pyIndex
  have : ¬ ((i : Int) < 0) := by omega
  simp [this, List.getElem?_eq_getElem hi]

/-- `tuple_for_index(i)` for `0 ≤ i` is the lookup at `i`; for `-length() ≤ i < 0` it is the lookup at
`length() + i` -/
theorem tupleForIndexI_spec {anchor0 : Nat} {bc : BC} {c : List Nat} (rev : Bool) (g : Good anchor0 bc c) (i : Int) :
    (0 ≤ i → bc.tupleForIndexI rev i = bc.tupleForIndex rev i.toNat) ∧
    (i < 0 → 0 ≤ ((lockedHashes bc ++ c.reverse).length : Int) + i →
      bc.tupleForIndexI rev i = bc.tupleForIndex rev (((lockedHashes bc ++ c.reverse).length : Int) + i).toNat) := by
  constructor
  · intro h0
    unfold BC.tupleForIndexI
    have : ¬ (i < 0) := by omega
    simp [this, bind, Except.bind, pure, Except.pure]
  · intro hneg hin
    unfold BC.tupleForIndexI
    rw [length_good rev g]
    have : ¬ (((lockedHashes bc ++ c.reverse).length : Int) + i < 0) := by omega
    simp only [hneg, if_true, bind, Except.bind, pure, Except.pure, this, if_false]

/-- `last_block_hash()` as written (through `hash_for_index(-1)`) is the model's `lastBlockHash` -/
theorem lastBlockHashI_eq {anchor0 : Nat} {bc : BC} {c : List Nat} (rev : Bool) (g : Good anchor0 bc c) :
    bc.lastBlockHashI rev = bc.lastBlockHash rev := by
  unfold BC.lastBlockHashI BC.lastBlockHash
  rw [length_good rev g]
  simp only [bind, Except.bind]
  by_cases hz : (lockedHashes bc ++ c.reverse).length = 0
  · simp [hz]
  · simp only [hz, if_false]
    unfold BC.hashForIndexI BC.hashForIndex
    have := (tupleForIndexI_spec rev g (-1)).2 (by omega) (by omega)
    rw [this]
    have e : (((lockedHashes bc ++ c.reverse).length : Int) + -1).toNat = (lockedHashes bc ++ c.reverse).length - 1 := by
      omega
    rw [e]

/-- `last_block_hash()` is the last hash of the reported chain, the first anchor when it is empty -/
theorem lastBlockHash_good {anchor0 : Nat} {bc : BC} {c : List Nat} (rev : Bool) (g : Good anchor0 bc c) :
    bc.lastBlockHash rev = .ok (((lockedHashes bc ++ c.reverse).getLast?).getD anchor0) := by
  unfold BC.lastBlockHash
  rw [length_good rev g]
  simp only [bind, Except.bind]
  by_cases hz : (lockedHashes bc ++ c.reverse).length = 0
  · have hnil : lockedHashes bc ++ c.reverse = [] := List.length_eq_zero_iff.mp hz
    have hl : lockedHashes bc = [] := (List.append_eq_nil_iff.mp hnil).1
    simp only [hz, if_true, hnil]
    rw [g.parentIs, hl]; simp
  · simp only [hz, if_false]
    have hi : (lockedHashes bc ++ c.reverse).length - 1 < (lockedHashes bc ++ c.reverse).length := by omega
    obtain ⟨t, ht, e⟩ := tupleForIndex_good rev g _ hi
    simp only [BC.hashForIndex, ht, bind, Except.bind, e]
    rw [List.getLast?_eq_getElem?, List.getElem?_eq_getElem hi]; rfl

/-! ### lengths and membership -/

theorem unlockedLength_good {anchor0 : Nat} {bc : BC} {c : List Nat} (rev : Bool) (g : Good anchor0 bc c) :
    bc.unlockedLength rev = .ok c.length := by
  unfold BC.unlockedLength
  rw [longest_of_cur rev bc c g.cur]
  rfl

theorem isHashKnown_good {anchor0 : Nat} {bc : BC} {c : List Nat} (g : Good anchor0 bc c) (h : Nat) :
    bc.isHashKnown h = true ↔ h ∈ lockedHashes bc ++ c.reverse := by
  unfold BC.isHashKnown
  rw [dhas_iff]
  constructor
  · rintro ⟨i, hi⟩
    obtain ⟨n, _, hn⟩ := (g.exact h i).mp hi
    exact List.mem_of_getElem? hn
  · intro hm
    obtain ⟨n, hn, e⟩ := List.getElem_of_mem hm
    exact ⟨(n : Int), (g.exact h n).mpr ⟨n, rfl, by rw [List.getElem?_eq_getElem hn, e]⟩⟩

/-! ### `preload_locked_blocks` on a fresh object -/

theorem preloadIdx_exact : ∀ (hdrs : List Header) (L : List Nat) (m : Dict Int), Exact m L →
    (L ++ hdrs.map (·.hash)).Nodup → Exact (preloadIdx L.length hdrs m) (L ++ hdrs.map (·.hash))
  | [], L, m, he, _ => by simpa [preloadIdx] using he
  | hd :: r, L, m, he, hn => by
      have hx : hd.hash ∉ L := by
        intro hx
        have := (List.nodup_append.mp hn).2.2 hd.hash hx hd.hash (by simp)
        exact this rfl
      have := preloadIdx_exact r (L ++ [hd.hash]) _ (he.push hx) (by simpa using hn)
      simpa [preloadIdx] using this

/-- a fresh object with a preloaded locked prefix (distinct hashes, none of them the anchor) is in a good state:
every theorem about histories from a good state applies to it -/
theorem preload_full (anchor0 : Nat) (hdrs : List Header) (hn : (hdrs.map (·.hash)).Nodup) :
    Full anchor0 ((BC.new anchor0).preload hdrs) [] := by
  have hex := preloadIdx_exact hdrs [] [] Exact.nil (by simpa using hn)
  refine ⟨⟨Or.inr ⟨rfl, rfl, rfl⟩, ?_, ?_, ?_, ?_, ?_, ?_, ?_⟩, FinderOK.empty, ?_⟩
  · simp [BC.preload, BC.new, CF.empty, UpPath, dget]
  · simpa [BC.preload, BC.new, lockedHashes, Function.comp_def] using hex
  · simpa [BC.preload, BC.new, lockedHashes, Function.comp_def] using hn
  · intro h _; simp [BC.preload, BC.new, CF.empty, dget]
  · intro h hh; simp [BC.preload, BC.new, CF.empty, dhas, dget] at hh
  · simp [BC.preload, BC.new, CF.empty, dget]
  · simp [BC.preload, BC.new, lockedHashes, Function.comp_def]
  · intro c'' hu
    cases c'' with
    | nil => simp
    | cons x r =>
      obtain ⟨v, hv⟩ := UpPath.registered (x :: r) _ hu x (by simp)
      simp [BC.preload, BC.new, CF.empty, dget] at hv

/-- the preloaded headers as items: a chain from the anchor when they are one -/
theorem preload_items (D : List Header) : ∀ (hdrs : List Header) (a : Nat), (∀ hd ∈ hdrs, hd ∈ D) →
    IsChainFrom (hdrs.map Header.toHdr) a (hdrs.map Header.toHdr) →
    ItemsFrom D a (hdrs.map fun hd => (hd.hash, hd.parent, some hd.weight))
  | [], _, _, _ => trivial
  | hd :: r, a, hs, hc => by
      cases hc with
      | cons hm hp hrest =>
        refine ⟨hp, ⟨hd, hs hd (by simp), rfl, rfl⟩, ⟨hd, hs hd (by simp), rfl, rfl⟩, ?_⟩
        refine preload_items D r hd.hash (fun x hx => hs x (List.mem_cons_of_mem _ hx)) ?_
        exact IsChainFrom.restrict hrest (fun x hx => hx)

theorem preload_rec (anchor0 : Nat) (hdrs : List Header) (hav : ∀ hd ∈ hdrs, hd.hash ≠ anchor0)
    (hc : IsChainFrom (hdrs.map Header.toHdr) anchor0 (hdrs.map Header.toHdr)) :
    Rec anchor0 hdrs ((BC.new anchor0).preload hdrs) := by
  refine ⟨?_, ?_, ?_, ?_, ?_, hav⟩
  · intro h p hp; simp [BC.preload, BC.new, CF.empty, dget] at hp
  · intro hd hm hnl
    exact absurd (List.mem_map.mpr ⟨(hd.hash, hd.parent, some hd.weight), by
      simp only [BC.preload]; exact List.mem_map.mpr ⟨hd, hm, rfl⟩, rfl⟩) hnl
  · intro h w hw; simp [BC.preload, BC.new, dget] at hw
  · intro hd hm hnl
    exact absurd (List.mem_map.mpr ⟨(hd.hash, hd.parent, some hd.weight), by
      simp only [BC.preload]; exact List.mem_map.mpr ⟨hd, hm, rfl⟩, rfl⟩) hnl
  · exact preload_items hdrs hdrs anchor0 (fun _ h => h) hc

end Pycoin.Chain
