import Pycoin.Proofs.ChainPath
import Pycoin.Spec.Chain
/-! chains of the specification are chains of the finder's parent relation (core Lean only) -/
namespace Pycoin.Chain
open Pycoin.Spec.Chain

/-- consecutive elements are linked by `parent_lookup` (no condition on the last one) -/
def Links (pl : Dict Nat) : List Nat → Prop
  | [] => True
  | [_] => True
  | x :: y :: r => dget pl x = some y ∧ Links pl (y :: r)

theorem Links.snoc {pl : Dict Nat} : ∀ (t : List Nat) (x a : Nat), Links pl (t ++ [x]) → dget pl x = some a →
    Links pl (t ++ [x] ++ [a])
  | [], x, a, _, h => by simpa [Links] using h
  | [y], x, a, hl, h => by
      simp only [List.cons_append, List.nil_append, Links] at hl ⊢
      exact ⟨hl.1, h, trivial⟩
  | y :: z :: r, x, a, hl, h => by
      simp only [List.cons_append, Links] at hl ⊢
      exact ⟨hl.1, by simpa using Links.snoc (z :: r) x a (by simpa using hl.2) h⟩

theorem UpPath.of_links {pl : Dict Nat} : ∀ (t : List Nat), t ≠ [] → Links pl t →
    (∀ x, t.getLast? = some x → dget pl x = none) → UpPath pl t
  | [], h, _, _ => absurd rfl h
  | [x], _, _, hl => by simp only [UpPath]; exact hl x (by simp)
  | x :: y :: r, _, hk, hl => by
      simp only [Links] at hk
      simp only [UpPath]
      refine ⟨hk.1, UpPath.of_links (y :: r) (by simp) hk.2 ?_⟩
      intro z hz
      exact hl z (by simpa [List.getLast?_cons_cons] using hz)

theorem chainWeight_append' (w : Dict Nat) (a b : List Nat) :
    chainWeight w (a ++ b) = chainWeight w a + chainWeight w b := by
  simp [chainWeight]

/-- a chain of the specification (index order, `Hdr`s) is, tip first and followed by the anchor, a chain of
links in any parent dict that records the delivered headers; its weight is what `weight_lookup` sums to -/
theorem spec_chain_links (D : List Hdr) (pl w : Dict Nat)
    (hpl : ∀ hd ∈ D, dget pl hd.hash = some hd.parent ∧ dget w hd.hash = some hd.weight) :
    ∀ (a : Nat) (c : List Hdr), IsChainFrom D a c →
      Links pl ((c.map (·.hash)).reverse ++ [a]) ∧ totalWeight c = chainWeight w (c.map (·.hash)).reverse := by
  intro a c hc
  induction hc with
  | nil a => simp [Links, totalWeight, chainWeight]
  | @cons a hd rest hm hp _ ih =>
    obtain ⟨i1, i2⟩ := ih
    constructor
    · have := Links.snoc (rest.map (·.hash)).reverse hd.hash a i1 (by rw [← hp]; exact (hpl hd hm).1)
      simpa using this
    · simp only [List.map_cons, List.reverse_cons, chainWeight_append', totalWeight, List.sum_cons]
      simp only [totalWeight] at i2
      rw [i2]
      simp [chainWeight, (hpl hd hm).2, Nat.add_comm]

end Pycoin.Chain
