import Pycoin.DriverLib.CachedGen
import Pycoin.Proofs.NativeGen
/-!
The cached-table method table of the driver is the pure method table: what the driver evaluates for `sign`, `verify`,
`recover`, `keysign_der`, … is the pure model the C01 theorems are about.  Core Lean only.
-/
namespace Pycoin.DriverLib.CachedGen
open Pycoin Pycoin.Curve Pycoin.Native

theorem rawMulTbl_powers (c : CurveParams) : rawMulTbl c (powers c) = rawMul c := by
  funext e
  unfold rawMulTbl rawMul
  rfl

theorem methodsFor_eq (c : CurveParams) : methodsFor c = pureMethods c := by
  unfold methodsFor
  split
  · rename_i h; subst h
    unfold tblK1 pureMethods
    rw [rawMulTbl_powers]
  · split
    · rename_i h; subst h
      unfold tblR1 pureMethods
      rw [rawMulTbl_powers]
    · rfl

theorem signF_eq (c : CurveParams) : signF c = Pycoin.RFC6979.sign c 0 := by
  funext d val
  unfold signF Pycoin.RFC6979.sign
  rw [methodsFor_eq, Gen.sign_pure]

theorem signRecidF_eq (c : CurveParams) : signRecidF c = Pycoin.RFC6979.signWithRecid c 0 := by
  funext d val
  unfold signRecidF Pycoin.RFC6979.signWithRecid
  rw [methodsFor_eq, Gen.signWithRecid_pure]

theorem verifyF_eq (c : CurveParams) : verifyF c = Curve.verify c 0 := by
  funext Q val r s
  unfold verifyF
  rw [methodsFor_eq, Gen.verify_pure]

theorem recoverF_eq (c : CurveParams) : recoverF c = Curve.possiblePublicPairsForSignature c 0 := by
  funext val r s par
  unfold recoverF
  rw [methodsFor_eq, Gen.recover_pure]

theorem mulGF_eq (c : CurveParams) : mulGF c = Curve.mulG c 0 := by
  funext e
  unfold mulGF
  rw [methodsFor_eq, Gen.mulG_pure]

end Pycoin.DriverLib.CachedGen
