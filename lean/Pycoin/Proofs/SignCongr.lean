import Pycoin.Proofs.RFC6979Seed
import Pycoin.Proofs.Field
/-!
C01 — `z` and `z + n` (both below `2²⁵⁶`, `n` of 256 bits): RFC 6979's `bits2octets` maps them to the same octets, so
`deterministic_generate_k` returns the same nonce; and since `s = k⁻¹(z + d·r) mod n` sees `z` modulo `n` only, the two
SIGNATURES are the same triple.  A nonce shared between two hashes that are congruent modulo `n` reveals nothing: the two
signing equations coincide.
-/
namespace Pycoin.RFC6979
open Pycoin Pycoin.Curve

/-- the retry loop sees the hash modulo `n` only -/
theorem signLoop_add_n (c : CurveParams) (bf d z : Int) : ∀ (fuel : Nat) (k : Int),
    signLoop c bf d (z + c.n) fuel k = signLoop c bf d z fuel k := by
  intro fuel
  induction fuel with
  | zero => intro k; rfl
  | succ f ih =>
    intro k
    unfold signLoop
    have e : ∀ kInv r : Int, fmod (kInv * (z + (c.n : Int) + fmod (d * r) c.n)) c.n = fmod (kInv * (z + fmod (d * r) c.n)) c.n := by
      intro kInv r
      simp only [fmod_natCast]
      have : kInv * (z + (c.n : Int) + d * r % (c.n : Int)) = kInv * (z + d * r % (c.n : Int)) + kInv * (c.n : Int) := by ring
      rw [this, Int.add_mul_emod_self_right]
    simp only [e, ih]

/-- the nonce of `z + n` is the nonce of `z` (256-bit order, both hashes in `[0, 2²⁵⁶)`): RFC 6979 prescribes it -/
theorem deterministicK_add_n (fuel n : Nat) (hbl : bitLength n = 256) (d z : Nat) (hd : d < n) (hz : z + n < 2 ^ 256) :
    deterministicGenerateKFuel fuel n d ((z : Int) + n) = deterministicGenerateKFuel fuel n d z := by
  rw [deterministicK_factors, deterministicK_factors]
  have := (hmacSeed_eq_iff_256 n hbl d d (z + n) z hd hd hz (by omega)).mpr ⟨rfl, Or.inr (Or.inl rfl)⟩
  have e : ((z + n : Nat) : Int) = (z : Int) + n := by push_cast; rfl
  rw [e] at this
  rw [this]

/-- … and so is the whole signature: `sign_with_recid(d, z + n) = sign_with_recid(d, z)` -/
theorem signWithRecid_add_n (c : CurveParams) (hbl : bitLength c.n = 256) (bf : Int) (d z : Nat) (hd : d < c.n)
    (hz0 : 0 < z) (hz : z + c.n < 2 ^ 256) :
    signWithRecid c bf d ((z : Int) + c.n) = signWithRecid c bf d z := by
  unfold signWithRecid Curve.signWithRecid
  rw [if_neg (by omega), if_neg (by omega)]
  unfold deterministicGenerateK
  rw [deterministicK_add_n defaultFuel c.n hbl d z hd hz]
  cases deterministicGenerateKFuel defaultFuel c.n d z with
  | error e => rfl
  | ok k => exact signLoop_add_n c bf d z _ k

end Pycoin.RFC6979
