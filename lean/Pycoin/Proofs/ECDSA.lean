import Pycoin.Proofs.Reduced
import Pycoin.Model.RFC6979
/-!
C01 — ECDSA over the refined group: `verify`, `sign_with_recid`.
-/
namespace Pycoin.Curve
open Pycoin WeierstrassCurve

/-- what the ECDSA theorems assume of a generator, beyond `Good`: `n` an odd prime at most `2²⁵⁶`,
`G` a reduced curve point with `n • G = ∞`.  All proved for secp256k1 / secp256r1 / BLS12-381 in C02. -/
structure ECDSAOk (c : CurveParams) [Good c] : Prop where
  nprime : Nat.Prime c.n
  n2 : c.n ≠ 2
  n256 : c.n ≤ 2 ^ 256
  gOn : containsXY c c.gx c.gy = true
  gRed : Reduced c (basis c)
  gOrd : (c.n : Int) • toPoint c (basis c) = 0

variable (c : CurveParams) [Good c]

/-- the generator as a group element -/
noncomputable abbrev G : (W c).Point := toPoint c (basis c)

/-- scalar action of `ZMod n` on points (used on the `n`-torsion, where it is well defined) -/
noncomputable def zsm (a : ZMod c.n) (T : (W c).Point) : (W c).Point := (a.val : Int) • T

variable {c}

theorem zsmul_eq_zsm [NeZero c.n] {T : (W c).Point} (hT : (c.n : Int) • T = 0) (u : Int) :
    u • T = zsm c (u : ZMod c.n) T := by
  unfold zsm
  rw [ZMod.val_intCast]
  conv_lhs => rw [← Int.emod_add_mul_ediv u c.n]
  rw [add_zsmul, mul_comm, mul_zsmul, hT, zsmul_zero, add_zero]

theorem zsm_torsion [NeZero c.n] {T : (W c).Point} (hT : (c.n : Int) • T = 0) (a : ZMod c.n) :
    (c.n : Int) • zsm c a T = 0 := by
  unfold zsm; rw [smul_comm, hT, zsmul_zero]

theorem zsm_add [NeZero c.n] {T : (W c).Point} (hT : (c.n : Int) • T = 0) (a b : ZMod c.n) :
    zsm c (a + b) T = zsm c a T + zsm c b T := by
  have : zsm c (a + b) T = ((a.val : Int) + (b.val : Int)) • T := by
    rw [zsmul_eq_zsm hT]; congr 1; push_cast; simp
  rw [this, add_zsmul]; rfl

theorem zsm_neg [NeZero c.n] {T : (W c).Point} (hT : (c.n : Int) • T = 0) (a : ZMod c.n) :
    zsm c (-a) T = - zsm c a T := by
  have : zsm c (-a) T = (-(a.val : Int)) • T := by
    rw [zsmul_eq_zsm hT]; congr 1; push_cast; simp
  rw [this, neg_zsmul]; rfl

theorem zsm_mul [NeZero c.n] {T : (W c).Point} (hT : (c.n : Int) • T = 0) (a b : ZMod c.n) :
    zsm c (a * b) T = zsm c a (zsm c b T) := by
  have : zsm c (a * b) T = ((a.val : Int) * (b.val : Int)) • T := by
    rw [zsmul_eq_zsm hT]; congr 1; push_cast; simp
  rw [this, mul_zsmul]; unfold zsm; rfl

theorem zsm_one [NeZero c.n] (hn1 : 1 < c.n) (T : (W c).Point) : zsm c 1 T = T := by
  unfold zsm
  have : Fact (1 < c.n) := ⟨hn1⟩
  rw [ZMod.val_one]; simp

theorem zsm_zero (T : (W c).Point) : zsm c 0 T = 0 := by
  unfold zsm; simp

/-- `x mod n` of a group element; infinity has none -/
noncomputable def xModN (c : CurveParams) : (W c).Point → Option Int
  | .zero => none
  | .some x _ _ => some ((x.val : Int) % c.n)

theorem xModN_toPoint_some {x y : Int} (h : containsXY c x y = true) (hx0 : 0 ≤ x) (hxp : x < c.p) :
    xModN c (toPoint c (some (x, y))) = some (x % c.n) := by
  rw [toPoint_some c h]
  simp only [xModN]
  have : NeZero c.p := ⟨(p_pos c).ne'⟩
  rw [ZMod.val_intCast, Int.emod_eq_of_lt hx0 hxp]

omit [Good c] in
theorem xModN_neg (T : (W c).Point) : xModN c (-T) = xModN c T := by
  cases T with
  | zero => rfl
  | some x y h => rfl

variable (ok : ECDSAOk c)
include ok

theorem ECDSAOk.neZero : NeZero c.n := ⟨ok.nprime.pos.ne'⟩
theorem ECDSAOk.fact : Fact (Nat.Prime c.n) := ⟨ok.nprime⟩

/-- `Generator.inverse(s)` for `s ≢ 0 (mod n)`: the inverse in `ZMod n` -/
theorem inverseN_spec (s : Int) (hs : (s : ZMod c.n) ≠ 0) :
    ∃ si, inverseN c s = .ok si ∧ (si : ZMod c.n) = (s : ZMod c.n)⁻¹ := by
  have := ok.fact
  obtain ⟨r, h1, -, -, h4⟩ := inverseMod_prime c.n s hs
  exact ⟨r, by simp [inverseN, ok.nprime.pos.ne', h1], h4⟩

omit [Good c] ok in
theorem intCast_ne_zero_of_range (s : Int) (h1 : 1 ≤ s) (h2 : s < c.n) : (s : ZMod c.n) ≠ 0 := by
  rw [Ne, ZMod.intCast_zmod_eq_zero_iff_dvd]
  intro h
  have := Int.le_of_dvd (by omega) h
  omega

/-- a point of the `n`-torsion (n odd) with `y ≡ 0` would be 2-torsion, hence infinity -/
theorem y_pos_of_torsion {x y : Int} (h : containsXY c x y = true) (hy0 : 0 ≤ y)
    (hT : (c.n : Int) • toPoint c (some (x, y)) = 0) : 0 < y := by
  by_contra hcon
  have hy : y = 0 := by omega
  subst hy
  have hneg : - toPoint c (some (x, 0)) = toPoint c (some (x, 0)) := by
    rw [toPoint_some c h, Affine.Point.neg_some]
    exact some_congr c _ _ rfl (by simp [Affine.negY])
  have h2 : (2 : Int) • toPoint c (some (x, 0)) = 0 := by
    rw [two_zsmul]; nth_rewrite 1 [← hneg]; exact neg_add_cancel _
  have hodd : c.n % 2 = 1 := by
    rcases ok.nprime.eq_two_or_odd with h | h
    · exact absurd h ok.n2
    · exact h
  have : toPoint c (some (x, 0)) = 0 := by
    have e1 : ((c.n : Int) - 2 * ((c.n : Int) / 2)) • toPoint c (some (x, 0)) = 0 := by
      rw [sub_zsmul, hT, mul_comm, mul_zsmul, h2, zsmul_zero]; simp
    have e2 : (c.n : Int) - 2 * ((c.n : Int) / 2) = 1 := by omega
    rw [e2, one_zsmul] at e1; exact e1
  rw [toPoint_some c h] at this
  exact Affine.Point.some_ne_zero _ this

/-- `Generator.verify(Q, z, (r, s))` for a reduced on-curve `Q` of the `n`-torsion and `z ≠ 0`: never raises, and
returns `True` exactly when `1 ≤ r, s < n` and `x((z/s)•G + (r/s)•Q) mod n = r`, the right side in Mathlib's group. -/
theorem verify_iff (bf : Int) (Q : Pt) (hQ : OnCurve c Q) (rQ : Reduced c Q) (hQn : (c.n : Int) • toPoint c Q = 0)
    (z r s : Int) (hz : z ≠ 0) :
    ∃ b, verify c bf Q z r s = .ok b ∧
      (b = true ↔ 1 ≤ r ∧ r < c.n ∧ 1 ≤ s ∧ s < c.n ∧
        xModN c (zsm c ((z : ZMod c.n) * (s : ZMod c.n)⁻¹) (G c) + zsm c ((r : ZMod c.n) * (s : ZMod c.n)⁻¹) (toPoint c Q)) = some r) := by
  have := ok.neZero
  unfold verify
  rw [if_neg hz]
  by_cases hr : r < 1 ∨ r ≥ c.n ∨ s < 1 ∨ s ≥ c.n
  · rw [if_pos hr]
    exact ⟨false, rfl, by constructor <;> intro h <;> [cases h; omega]⟩
  · rw [if_neg hr]
    push Not at hr
    obtain ⟨hr1, hr2, hs1, hs2⟩ := hr
    obtain ⟨si, hsi, hsic⟩ := inverseN_spec ok s (intCast_ne_zero_of_range s hs1 hs2)
    simp only [hsi]
    obtain ⟨A, a1, a2, a3⟩ := mulG_refines c ok.gOn ok.nprime.pos.ne' ok.n256 ok.gOrd bf (z * si)
    have ar := mulG_reduced c ok.gOn ok.gRed ok.nprime.pos.ne' ok.n256 ok.gOrd bf (z * si) A a1
    simp only [a1]
    have hQ' : containsPoint c Q = true := hQ
    simp only [hQ', not_true_eq_false, if_false]
    obtain ⟨B, b1, b2, b3⟩ := multiply_refines c Q hQ (r * si) (fun _ => hQn) (fun h => absurd h ok.nprime.pos.ne')
    have br : Reduced c B := multiply_reduced c Q hQ rQ
      (fun x y h => by subst h; exact y_pos_of_torsion ok hQ rQ.2.2.1 hQn) (r * si) B b1
    simp only [b1]
    obtain ⟨S, s1, s2, s3, -, s4⟩ := add_refines c A B a2 b2
    have sr := s4 ar br
    have hsum : toPoint c S = zsm c ((z : ZMod c.n) * (s : ZMod c.n)⁻¹) (G c) +
        zsm c ((r : ZMod c.n) * (s : ZMod c.n)⁻¹) (toPoint c Q) := by
      rw [s3, a3, b3, zsmul_eq_zsm ok.gOrd, zsmul_eq_zsm hQn]
      push_cast; rw [hsic]
    rw [← hsum]
    simp only [s1]
    have hrange : 1 ≤ r ∧ r < c.n ∧ 1 ≤ s ∧ s < c.n := ⟨hr1, hr2, hs1, hs2⟩
    match S, s2, sr with
    | none, _, _ =>
      exact ⟨false, rfl, by constructor <;> intro h <;> [cases h; (rw [toPoint_none] at h; exact absurd h.2.2.2.2 (by simp [xModN]))]⟩
    | some (x, y), s2, sr =>
      refine ⟨decide (fmod x c.n = r), rfl, ?_⟩
      rw [xModN_toPoint_some s2 sr.1 sr.2.1, fmod_natCast]
      simp only [decide_eq_true_eq, Option.some.injEq]
      tauto

/-- what one pass of the `sign_with_recid` loop computes from the nonce `k` -/
theorem signLoop_sound (bf d z : Int) : ∀ (fuel : Nat) (k r s v : Int), signLoop c bf d z fuel k = .ok (r, s, v) →
    1 ≤ r ∧ r < c.n ∧ 1 ≤ s ∧ s < c.n ∧
    ∃ k' x y : Int, (k' : ZMod c.n) ≠ 0 ∧ mulG c bf k' = .ok (some (x, y)) ∧ r = x % c.n ∧
      v = y % 2 + (if x > c.n then 2 else 0) ∧
      (s : ZMod c.n) = (k' : ZMod c.n)⁻¹ * ((z : ZMod c.n) + (d : ZMod c.n) * (r : ZMod c.n)) := by
  have := ok.neZero
  have hnpos : (0 : Int) < c.n := by exact_mod_cast ok.nprime.pos
  intro fuel
  induction fuel with
  | zero => intro k r s v h; simp [signLoop] at h
  | succ f ih =>
    intro k r s v h
    unfold signLoop at h
    obtain ⟨A, a1, a2, a3⟩ := mulG_refines c ok.gOn ok.nprime.pos.ne' ok.n256 ok.gOrd bf k
    simp only [a1] at h
    match A, a1, a2, a3 with
    | none, _, _, _ => simp at h
    | some (x, y), a1, a2, a3 =>
      simp only at h
      -- k is not a multiple of n, otherwise k•G would be infinity
      have hk : (k : ZMod c.n) ≠ 0 := by
        intro hk0
        have : toPoint c (some (x, y)) = 0 := by
          rw [a3, zsmul_eq_zsm ok.gOrd, hk0, zsm_zero]
        rw [toPoint_some c a2] at this
        exact Affine.Point.some_ne_zero _ this
      obtain ⟨ki, hki, hkic⟩ := inverseN_spec ok k hk
      simp only [hki] at h
      by_cases hrs : fmod x c.n ≠ 0 ∧ fmod (ki * (z + fmod (d * fmod x c.n) c.n)) c.n ≠ 0
      · rw [if_pos hrs] at h
        simp only [Except.ok.injEq, Prod.mk.injEq] at h
        obtain ⟨rfl, rfl, rfl⟩ := h
        simp only [fmod_natCast] at hrs ⊢
        have r0 := Int.emod_nonneg x hnpos.ne'
        have r1 := Int.emod_lt_of_pos x hnpos
        have s0 := Int.emod_nonneg (ki * (z + d * (x % c.n) % c.n)) hnpos.ne'
        have s1 := Int.emod_lt_of_pos (ki * (z + d * (x % c.n) % c.n)) hnpos
        refine ⟨by omega, r1, by omega, s1, k, x, y, hk, a1, rfl, ?_, ?_⟩
        · rw [fmod_eq_emod _ (by norm_num)]
        · rw [ZMod.intCast_mod]; push_cast; rw [hkic]
      · rw [if_neg hrs] at h
        exact ih (k + 1) r s v h

/-- the public key `d•G` as the code computes it -/
theorem pubkey_spec (bf d : Int) :
    ∃ Q, mulG c bf d = .ok Q ∧ OnCurve c Q ∧ Reduced c Q ∧ toPoint c Q = zsm c (d : ZMod c.n) (G c) ∧
      (c.n : Int) • toPoint c Q = 0 := by
  have := ok.neZero
  obtain ⟨Q, q1, q2, q3⟩ := mulG_refines c ok.gOn ok.nprime.pos.ne' ok.n256 ok.gOrd bf d
  have hq : toPoint c Q = zsm c (d : ZMod c.n) (G c) := by rw [q3, zsmul_eq_zsm ok.gOrd]
  exact ⟨Q, q1, q2, mulG_reduced c ok.gOn ok.gRed ok.nprime.pos.ne' ok.n256 ok.gOrd bf d Q q1, hq,
    by rw [hq]; exact zsm_torsion ok.gOrd _⟩

/-- whatever `sign_with_recid` returns — with any nonce function — lies in range and verifies under `d•G` -/
theorem sign_verifies (genK : Nat → Int → Int → Except Err Int) (bf bf' bf'' d z r s v : Int)
    (h : signWithRecid c bf genK d z = .ok (r, s, v)) :
    z ≠ 0 ∧ 1 ≤ r ∧ r < c.n ∧ 1 ≤ s ∧ s < c.n ∧
    ∃ Q, mulG c bf' d = .ok Q ∧ verify c bf'' Q z r s = .ok true := by
  have := ok.neZero
  have := ok.fact
  unfold signWithRecid at h
  by_cases hz : z = 0
  · rw [if_pos hz] at h; cases h
  · rw [if_neg hz] at h
    cases hk : genK c.n d z with
    | error e => rw [hk] at h; cases h
    | ok k0 =>
      rw [hk] at h
      simp only at h
      obtain ⟨r1, r2, s1, s2, k', x, y, hk', hm, hrx, -, hs⟩ := signLoop_sound ok bf d z _ _ _ _ _ h
      obtain ⟨Q, q1, q2, q3, q4, q5⟩ := pubkey_spec ok bf' d
      refine ⟨hz, r1, r2, s1, s2, Q, q1, ?_⟩
      obtain ⟨b, hb, hiff⟩ := verify_iff ok bf'' Q q2 q3 q5 z r s hz
      rw [hb]
      congr 1
      rw [hiff]
      refine ⟨r1, r2, s1, s2, ?_⟩
      -- the group computation: (z/s)G + (r/s)(dG) = k'G
      have hsne : (s : ZMod c.n) ≠ 0 := intCast_ne_zero_of_range s s1 s2
      have hkey : (z : ZMod c.n) * (s : ZMod c.n)⁻¹ + (r : ZMod c.n) * (s : ZMod c.n)⁻¹ * (d : ZMod c.n) = (k' : ZMod c.n) := by
        have hzd : (z : ZMod c.n) + (d : ZMod c.n) * (r : ZMod c.n) = (k' : ZMod c.n) * (s : ZMod c.n) := by
          rw [hs]; field_simp
        field_simp
        linear_combination hzd
      rw [q4, ← zsm_mul ok.gOrd, ← zsm_add ok.gOrd, hkey]
      obtain ⟨A, a1, a2, a3⟩ := mulG_refines c ok.gOn ok.nprime.pos.ne' ok.n256 ok.gOrd bf k'
      rw [hm] at a1; cases a1
      have ar := mulG_reduced c ok.gOn ok.gRed ok.nprime.pos.ne' ok.n256 ok.gOrd bf k' _ hm
      rw [← zsmul_eq_zsm ok.gOrd, ← a3, xModN_toPoint_some a2 ar.1 ar.2.1, hrx]

omit [Good c] ok in
/-- if the first nonce `k` already gives `r ≠ 0` and `s ≠ 0`, the signature is the textbook ECDSA signature with
that nonce: `r = x(k•G) mod n`, `s = k⁻¹(z + d·r) mod n` -/
theorem sign_first_nonce (genK : Nat → Int → Int → Except Err Int) (bf d z k x y ki : Int) (hz : z ≠ 0)
    (hk : genK c.n d z = .ok k) (hm : mulG c bf k = .ok (some (x, y))) (hki : inverseN c k = .ok ki)
    (hr : x % c.n ≠ 0) (hs : (ki * (z + d * (x % c.n) % c.n)) % c.n ≠ 0) :
    signWithRecid c bf genK d z =
      .ok (x % c.n, (ki * (z + d * (x % c.n) % c.n)) % c.n, y % 2 + (if x > c.n then 2 else 0)) := by
  unfold signWithRecid
  rw [if_neg hz, hk]
  simp only
  unfold signLoop
  simp only [hm, hki, fmod_natCast]
  rw [if_pos ⟨hr, hs⟩, fmod_eq_emod _ (by norm_num)]

/-- `verify` does not distinguish `s` from `n − s` (what a low-S normalising backend may return) -/
theorem verify_neg_s (bf : Int) (Q : Pt) (hQ : OnCurve c Q) (rQ : Reduced c Q) (hQn : (c.n : Int) • toPoint c Q = 0)
    (z r s : Int) (hz : z ≠ 0) :
    verify c bf Q z r ((c.n : Int) - s) = verify c bf Q z r s := by
  have := ok.neZero
  have := ok.fact
  obtain ⟨b, hb, hiff⟩ := verify_iff ok bf Q hQ rQ hQn z r s hz
  obtain ⟨b', hb', hiff'⟩ := verify_iff ok bf Q hQ rQ hQn z r ((c.n : Int) - s) hz
  rw [hb, hb']
  congr 1
  rw [Bool.eq_iff_iff, hiff, hiff']
  have hcast : (((c.n : Int) - s : Int) : ZMod c.n) = -(s : ZMod c.n) := by push_cast; simp
  have hpt : zsm c ((z : ZMod c.n) * (((c.n : Int) - s : Int) : ZMod c.n)⁻¹) (G c) +
      zsm c ((r : ZMod c.n) * (((c.n : Int) - s : Int) : ZMod c.n)⁻¹) (toPoint c Q) =
      -(zsm c ((z : ZMod c.n) * (s : ZMod c.n)⁻¹) (G c) + zsm c ((r : ZMod c.n) * (s : ZMod c.n)⁻¹) (toPoint c Q)) := by
    rw [hcast, inv_neg, mul_neg, mul_neg, zsm_neg ok.gOrd, zsm_neg hQn, neg_add]
  rw [hpt, xModN_neg]
  constructor
  · rintro ⟨h1, h2, h3, h4, h5⟩; exact ⟨h1, h2, by omega, by omega, h5⟩
  · rintro ⟨h1, h2, h3, h4, h5⟩; exact ⟨h1, h2, by omega, by omega, h5⟩

end Pycoin.Curve
