import Pycoin.Proofs.NativeSecp
/-!
Non-vacuity of the contract on libsecp256k1: the executable `pureSecp c` (the library played by the pure-Python model)
satisfies `LibSecpSpec` on every curve with `p, n ≤ 2²⁵⁶` all of whose points are killed by the odd prime order.
-/
namespace Pycoin.Native
open Pycoin Pycoin.Curve WeierstrassCurve

variable (c : CurveParams) [Good c]

theorem beNat_be32 {v : Int} (h0 : 0 ≤ v) (h1 : v < 2 ^ 256) : ((beNat (be32 v) : Nat) : Int) = v :=
  fromBytes32_be32 h0 h1

theorem mul_emod_congr {n : Nat} {a b A : Int} (h : (a : ZMod n) = (b : ZMod n)) : (a * A) % n = (b * A) % n := by
  have := (ZMod.intCast_eq_intCast_iff a b n).mp h
  exact (this.mul_right A)


/-! unfolding lemmas (abstract arguments, so `rfl` does not evaluate byte strings) -/

theorem pureSecp_create (pk : Pt) (b : Bytes) : (pureSecp c).pubkeyCreate pk b =
    (if 0 < ((beNat b : Nat) : Int) ∧ ((beNat b : Nat) : Int) < c.n then
      match Curve.rawMul c ((beNat b : Nat) : Int) with
      | .ok R => (true, R)
      | .error _ => (false, pk)
    else (false, pk)) := rfl

theorem pureSecp_parse (pk : Pt) (buf : Bytes) (len : Nat) : (pureSecp c).pubkeyParse pk buf len =
    (if len = 65 ∧ buf.length = 65 ∧ buf.headD 0 = 4 ∧ ((beNat (slice buf 1 33) : Nat) : Int) < c.p ∧
        ((beNat (buf.drop 33) : Nat) : Int) < c.p ∧
        containsXY c ((beNat (slice buf 1 33) : Nat) : Int) ((beNat (buf.drop 33) : Nat) : Int) = true
      then (true, some (((beNat (slice buf 1 33) : Nat) : Int), ((beNat (buf.drop 33) : Nat) : Int))) else (false, pk)) := rfl

theorem pureSecp_tweak (pk : Pt) (b : Bytes) : (pureSecp c).pubkeyTweakMul pk b =
    (if 0 < ((beNat b : Nat) : Int) ∧ ((beNat b : Nat) : Int) < c.n then
      match Curve.multiply c pk ((beNat b : Nat) : Int) with
      | .ok R => (true, R)
      | .error _ => (false, pk)
    else (false, pk)) := rfl

/-- the signing step of `pureSecp` once the nonce is known -/
def pureSignWith (c : CurveParams) (sig : Int × Int) (z d k : Int) : Bool × (Int × Int) :=
  match Curve.rawMul c k, Curve.inverseN c k with
  | .ok (some (x, _)), .ok ki =>
    (true, (x % (c.n : Int),
      if (ki * (z + d * (x % (c.n : Int)) % (c.n : Int))) % (c.n : Int) > (c.n : Int) / 2
      then (c.n : Int) - (ki * (z + d * (x % (c.n : Int)) % (c.n : Int))) % (c.n : Int)
      else (ki * (z + d * (x % (c.n : Int)) % (c.n : Int))) % (c.n : Int)))
  | _, _ => (false, sig)

theorem pureSecp_sign_some (sig : Int × Int) (msg key k32 : Bytes) : (pureSecp c).ecdsaSign sig msg key (some k32) =
    pureSignWith c sig ((beNat msg : Nat) : Int) ((beNat key : Nat) : Int) ((beNat k32 : Nat) : Int) := rfl

theorem pureSecp_sign_none (sig : Int × Int) (msg key : Bytes) : (pureSecp c).ecdsaSign sig msg key none =
    (match Pycoin.RFC6979.deterministicGenerateK c.n ((beNat key : Nat) : Int) ((beNat msg : Nat) : Int) with
      | .ok k => pureSignWith c sig ((beNat msg : Nat) : Int) ((beNat key : Nat) : Int) k
      | .error _ => (false, sig)) := by
  show (match (match Pycoin.RFC6979.deterministicGenerateK c.n ((beNat key : Nat) : Int) ((beNat msg : Nat) : Int) with
      | .ok k => some k
      | .error _ => none : Option Int) with
    | none => (false, sig)
    | some k => pureSignWith c sig ((beNat msg : Nat) : Int) ((beNat key : Nat) : Int) k) = _
  cases Pycoin.RFC6979.deterministicGenerateK c.n ((beNat key : Nat) : Int) ((beNat msg : Nat) : Int) <;> rfl

theorem pureSecp_parseCompact (sig : Int × Int) (buf : Bytes) : (pureSecp c).sigParseCompact sig buf =
    (if ((beNat (buf.take 32) : Nat) : Int) < c.n ∧ ((beNat (buf.drop 32) : Nat) : Int) < c.n
      then (true, (((beNat (buf.take 32) : Nat) : Int), ((beNat (buf.drop 32) : Nat) : Int))) else (false, sig)) := rfl

theorem pureSecp_verify (sig : Int × Int) (msg : Bytes) (pk : Pt) : (pureSecp c).ecdsaVerify sig msg pk =
    (match Curve.verify c 0 pk ((beNat msg : Nat) : Int) sig.1 sig.2 with
      | .ok true => if sig.2 ≤ (c.n : Int) / 2 then 1 else 0
      | _ => 0) := rfl

theorem pureSecp_spec (ok : ECDSAOk c) (hp256 : c.p ≤ 2 ^ 256)
    (htors : ∀ P : Pt, OnCurve c P → (c.n : Int) • toPoint c P = 0) :
    LibSecpSpec c (pureSecp c) (fun P => P) (fun s => s) where
  create_ok := by
    intro pk e e0 en
    have hn256 : (c.n : Int) ≤ 2 ^ 256 := by exact_mod_cast ok.n256
    obtain ⟨R, h1, h2, h3⟩ := rawMul_refines c ok.gOn ok.nprime.pos.ne' ok.n256 ok.gOrd e
    have hr := rawMul_reduced c ok.gOn ok.gRed e R h1
    have : (pureSecp c).pubkeyCreate pk (be32 e) = (true, R) := by
      refine (pureSecp_create c pk _).trans ?_
      rw [beNat_be32 e0.le (by omega), if_pos ⟨e0, en⟩, h1]
    rw [this]
    exact ⟨rfl, h2, hr, h3⟩
  serialize_ok := by
    intro pk x y h
    have hpk : pk = some (x, y) := h
    subst hpk
    rfl
  parse_ok := by
    intro pk x y x0 x1 y0 y1 hc
    have hp : (c.p : Int) ≤ 2 ^ 256 := by exact_mod_cast hp256
    have : (pureSecp c).pubkeyParse pk ((4 : UInt8) :: (be32 x ++ be32 y)) 65 = (true, some (x, y)) := by
      refine (pureSecp_parse c pk _ _).trans ?_
      rw [slice_pub_x _ _ (be32_length x), drop_pub_y _ _ (be32_length x), beNat_be32 x0 (by omega), beNat_be32 y0 (by omega)]
      rw [if_pos ⟨rfl, by simp [be32_length], rfl, x1, y1, hc⟩]
    rw [this]
    exact ⟨rfl, rfl⟩
  parse_fail := by
    intro pk x y x0 x1 y0 y1 hnot
    have : (pureSecp c).pubkeyParse pk ((4 : UInt8) :: (be32 x ++ be32 y)) 65 = (false, pk) := by
      refine (pureSecp_parse c pk _ _).trans ?_
      rw [slice_pub_x _ _ (be32_length x), drop_pub_y _ _ (be32_length x), beNat_be32 x0 x1, beNat_be32 y0 y1]
      rw [if_neg (fun h => hnot ⟨h.2.2.2.1, h.2.2.2.2.1, h.2.2.2.2.2⟩)]
      rfl
    rw [this]
  tweak_ok := by
    intro pk t hne hon hred t0 tn
    have hn256 : (c.n : Int) ≤ 2 ^ 256 := by exact_mod_cast ok.n256
    obtain ⟨R, h1, h2, h3⟩ := multiply_refines c pk hon t (fun _ => htors pk hon) (fun h => absurd h ok.nprime.pos.ne')
    have hr : Reduced c R := multiply_reduced c pk hon hred
      (fun x y h => by subst h; exact y_pos_of_torsion ok hon hred.2.2.1 (htors _ hon)) t R h1
    have : (pureSecp c).pubkeyTweakMul pk (be32 t) = (true, R) := by
      refine (pureSecp_tweak c pk _).trans ?_
      rw [beNat_be32 t0.le (by omega), if_pos ⟨t0, tn⟩, h1]
    rw [this]
    exact ⟨rfl, h2, hr, h3⟩
  sign_ok := by
    intro sig z d k x y ki z0 z1 d1 dn k1 kn hc hred hpt hki hr hs
    have hn256 : (c.n : Int) ≤ 2 ^ 256 := by exact_mod_cast ok.n256
    obtain ⟨R, h1, h2, h3⟩ := rawMul_refines c ok.gOn ok.nprime.pos.ne' ok.n256 ok.gOrd k
    have hrr := rawMul_reduced c ok.gOn ok.gRed k R h1
    have hR : R = some (x, y) := toPoint_inj c h2 hc hrr hred (by rw [h3, hpt])
    subst hR
    obtain ⟨ki', hki', hkic⟩ := inverseN_spec ok k (intCast_ne_zero_of_range k k1 kn)
    have hcong : (ki' * (z + d * (x % c.n) % c.n)) % (c.n : Int) = (ki * (z + d * (x % c.n) % c.n)) % (c.n : Int) :=
      mul_emod_congr (by rw [hkic, hki])
    have : (pureSecp c).ecdsaSign sig (be32 z) (be32 d) (some (be32 k)) =
        (true, (x % (c.n : Int), lowS c.n ((ki * (z + d * (x % c.n) % c.n)) % c.n))) := by
      refine (pureSecp_sign_some c sig _ _ _).trans ?_
      unfold pureSignWith
      rw [beNat_be32 (by omega) (by omega), beNat_be32 z0 z1, beNat_be32 (by omega) (by omega)]
      simp only [h1, hki']
      rw [hcong]
      rfl
    rw [this]
    exact ⟨rfl, rfl⟩
  sign_default := by
    intro sig h1 d k hh hzn d1 dn hk
    have hn256 : (c.n : Int) ≤ 2 ^ 256 := by exact_mod_cast ok.n256
    have hk' : Pycoin.RFC6979.deterministicGenerateK c.n (d : Int) (beNat h1 : Int) = .ok (k : Int) := by
      unfold Pycoin.RFC6979.deterministicGenerateK
      rw [Pycoin.RFC6979.deterministicK_eq_spec Pycoin.RFC6979.defaultFuel c.n (by omega) d dn h1 hh, hk]
    have hkr := deterministicGenerateK_range c.n d (beNat h1) k hk'
    have hd : ((beNat (be32 (d : Int)) : Nat) : Int) = d := beNat_be32 (by omega) (by
      have : (d : Int) < c.n := by exact_mod_cast dn
      omega)
    have hkb : ((beNat (be32 (k : Int)) : Nat) : Int) = k := beNat_be32 (by omega) (by omega)
    refine (pureSecp_sign_none c sig _ _).trans (Eq.trans ?_ (pureSecp_sign_some c sig _ _ _).symm)
    rw [hd, hk', hkb]
  compact_ok := by
    intro sig
    rfl
  parse_compact_ok := by
    intro sig r s r0 rn s0 sn
    have hn256 : (c.n : Int) ≤ 2 ^ 256 := by exact_mod_cast ok.n256
    have : (pureSecp c).sigParseCompact sig (be32 r ++ be32 s) = (true, (r, s)) := by
      refine (pureSecp_parseCompact c sig _).trans ?_
      rw [take_sig_r _ _ (be32_length r), drop_sig_s _ _ (be32_length r), beNat_be32 r0 (by omega), beNat_be32 s0 (by omega),
        if_pos ⟨rn, sn⟩]
    rw [this]
    exact ⟨rfl, rfl⟩
  parse_compact_fail := by
    intro sig r s r0 r1 s0 s1 hbad
    have : (pureSecp c).sigParseCompact sig (be32 r ++ be32 s) = (false, sig) := by
      refine (pureSecp_parseCompact c sig _).trans ?_
      rw [take_sig_r _ _ (be32_length r), drop_sig_s _ _ (be32_length r), beNat_be32 r0 r1, beNat_be32 s0 s1,
        if_neg (by omega)]
      rfl
    rw [this]
  normalize_ok := by
    intro sig
    rfl
  verify_ok := by
    intro sig pk z z1 z2 hne hon hred
    obtain ⟨r, s⟩ := sig
    obtain ⟨b, hb, hiff⟩ := verify_iff ok 0 pk hon hred (htors pk hon) z r s (by omega)
    have hpk : (pureSecp c).ecdsaVerify (r, s) (be32 z) pk =
        (if b = true then (if s ≤ (c.n : Int) / 2 then 1 else 0) else 0) := by
      refine (pureSecp_verify c _ _ _).trans ?_
      simp only
      rw [beNat_be32 (by omega) z2, hb]
      cases b <;> rfl
    rw [hpk]
    simp only
    cases b with
    | false =>
      rw [if_neg (by decide)]
      constructor
      · intro h; exact absurd h (by norm_num)
      · rintro ⟨a1, a2, a3, a4, a5⟩
        have hnpos : (0 : Int) < c.n := by exact_mod_cast ok.nprime.pos
        have : (false = true) := hiff.mpr ⟨a1, a2, a3, by omega, a5⟩
        cases this
    | true =>
      obtain ⟨a1, a2, a3, a4, a5⟩ := hiff.mp rfl
      rw [if_pos rfl]
      constructor
      · intro h
        by_cases hs : s ≤ (c.n : Int) / 2
        · exact ⟨a1, a2, a3, hs, a5⟩
        · rw [if_neg hs] at h; exact absurd h (by norm_num)
      · rintro ⟨_, _, _, hs, _⟩
        rw [if_pos hs]

/-- the contract on libsecp256k1 is satisfiable -/
theorem pureSecp_ok (ok : ECDSAOk c) (hp256 : c.p ≤ 2 ^ 256)
    (htors : ∀ P : Pt, OnCurve c P → (c.n : Int) • toPoint c P = 0) : LibSecpOk (pureSecp c) c :=
  ⟨fun P => P, fun s => s, pureSecp_spec c ok hp256 htors⟩

end Pycoin.Native
