import Pycoin.Proofs.NativeBN
import Pycoin.Proofs.ECDSA
/-!
THE TRUSTED STATEMENT about libcrypto: `LibCryptoOk L c` — what the functions the OpenSSL glue calls are ASSUMED to
compute, for the group `EC_GROUP_new_by_curve_name(NID)` being the curve `c` the Python class was constructed with.  It is
a hypothesis of every `C02_openssl_*` / `C01_native_*` theorem, never an axiom; `pureLib_ok` (`Proofs/NativePure.lean`)
shows it is satisfiable by an executable instance; the clauses observable from Python are probed on the real library
on every run (harness op `ossl_probe`).
-/
namespace Pycoin.Native
open Pycoin Pycoin.Curve

/-- the contract, relative to an abstraction `den` of `EC_POINT` contents as affine coordinates / infinity -/
structure LibCryptoSpec (c : CurveParams) [Good c] (L : LibCrypto) (den : L.EcPoint → Pt) : Prop where
  /-- `BN_mpi2bn` decodes the documented MPI format (any length a C `int` holds), and `to_int` over the words and the
  `neg` flag the structure then holds gives that integer back (LP64: `c_ulong` is `BN_ULONG`) -/
  mpi : ∀ (buf : Bytes) (len v : Int), mpiDecode buf len = some v → ∃ b, L.mpi2bn buf len = some b ∧ Ossl.toInt L b = v
  /-- `EC_POINT_set_affine_coordinates` accepts reduced coordinates of a curve point -/
  set_ok : ∀ (pt : L.EcPoint) (bx by_ : BN) (x y : Int), Ossl.toInt L bx = x → Ossl.toInt L by_ = y →
    0 ≤ x → x < c.p → 0 ≤ y → y < c.p → containsXY c x y = true →
    (L.setAffine pt bx by_).1 = true ∧ den (L.setAffine pt bx by_).2 = some (x, y)
  /-- `EC_POINT_mul(group, r, NULL, P, e, ctx)` for a finite curve point `P` and `0 < e < n`: `r` becomes `e • P` -/
  mul_ok : ∀ (res pt : L.EcPoint) (be : BN) (e : Int), den pt ≠ none → OnCurve c (den pt) → Reduced c (den pt) →
    Ossl.toInt L be = e → 0 < e → e < c.n →
    (L.ecMul res pt be).1 = true ∧ OnCurve c (den (L.ecMul res pt be).2) ∧ Reduced c (den (L.ecMul res pt be).2) ∧
      toPoint c (den (L.ecMul res pt be).2) = e • toPoint c (den pt)
  /-- `EC_POINT_get_affine_coordinates` of a finite point: its coordinates, in `[0, p)` -/
  get_ok : ∀ (pt : L.EcPoint) (bx by_ : BN) (x y : Int), den pt = some (x, y) →
    (L.getAffine pt bx by_).1 = true ∧ Ossl.toInt L (L.getAffine pt bx by_).2.1 = x ∧
      Ossl.toInt L (L.getAffine pt bx by_).2.2 = y
  /-- … of the point at infinity: failure (0), and the output bignums are left as they were -/
  get_inf : ∀ (pt : L.EcPoint) (bx by_ : BN), den pt = none → L.getAffine pt bx by_ = (false, bx, by_)
  /-- `BN_mod_inverse` for coprime operands, modulus `> 1`: the inverse in `[0, m)` -/
  inv_ok : ∀ (ba bm : BN) (a m : Int), Ossl.toInt L ba = a → Ossl.toInt L bm = m → 1 < m → Int.gcd a m = 1 →
    ∃ r, L.modInverse ba bm = some r ∧ 0 ≤ Ossl.toInt L r ∧ Ossl.toInt L r < m ∧ (a * Ossl.toInt L r) % m = 1
  /-- … NULL when no inverse exists -/
  inv_none : ∀ (ba bm : BN) (a m : Int), Ossl.toInt L ba = a → Ossl.toInt L bm = m → 1 < m → Int.gcd a m ≠ 1 →
    L.modInverse ba bm = none

/-- **the assumption on libcrypto** -/
def LibCryptoOk (L : LibCrypto) (c : CurveParams) [Good c] : Prop := ∃ den : L.EcPoint → Pt, LibCryptoSpec c L den

/-! ### sizes: what fits the `int len` of `BN_mpi2bn` -/

/-- bits available to a bignum built by `BignumType(n)`: `(bits + 7) // 8 + 5 < 2³¹` -/
def bnBits : Nat := 8 * (2 ^ 31 - 6)

def Fits (v : Int) : Prop := Pycoin.RFC6979.bitLength v.natAbs ≤ bnBits

/-- the curve's `p` and `n` leave two bits of headroom (every sum / difference / double of reduced values then fits) -/
def CurveFits (c : CurveParams) : Prop :=
  Pycoin.RFC6979.bitLength c.p + 2 ≤ bnBits ∧ Pycoin.RFC6979.bitLength c.n + 2 ≤ bnBits

theorem bitLength_le_iff (n k : Nat) : Pycoin.RFC6979.bitLength n ≤ k ↔ n < 2 ^ k := by
  unfold Pycoin.RFC6979.bitLength
  by_cases h : n = 0
  · subst h; simp
  · simp only [h, if_false]
    rw [← Nat.log2_lt h]; omega

theorem fits_of_lt {v : Int} {k : Nat} (h : v.natAbs < 2 ^ k) (hk : k ≤ bnBits) : Fits v := by
  unfold Fits
  exact le_trans ((bitLength_le_iff _ _).mpr h) hk

theorem lt_two_pow_bitLength (n : Nat) : n < 2 ^ Pycoin.RFC6979.bitLength n :=
  (bitLength_le_iff n _).mp le_rfl

/-- `|v| < 4·m` fits when `m` has two bits of headroom -/
theorem fits_of_lt_four_mul {v : Int} {m : Nat} (h : v.natAbs < 4 * m) (hm : Pycoin.RFC6979.bitLength m + 2 ≤ bnBits) :
    Fits v := by
  refine fits_of_lt (k := Pycoin.RFC6979.bitLength m + 2) ?_ hm
  have := lt_two_pow_bitLength m
  rw [pow_add]
  omega

variable {c : CurveParams} [Good c] {L : LibCrypto} {den : L.EcPoint → Pt}

/-- `BignumType(n)` holds `n` (for every `n` that fits) -/
theorem bnInit_spec (spec : LibCryptoSpec c L den) (n : Int) (hn : Fits n) :
    ∃ b, Ossl.bnInit L n = .ok b ∧ Ossl.toInt L b = n := by
  have hsz : (Pycoin.RFC6979.bitLength n.natAbs + 7) / 8 + 5 < 2 ^ 31 := by
    unfold Fits bnBits at hn; omega
  obtain ⟨buf, theLen, h1, h2, h3⟩ := mpiOf_decode n hsz
  rw [← h2] at hsz
  obtain ⟨b, hb, hv⟩ := spec.mpi buf _ n h3
  refine ⟨b, ?_, hv⟩
  unfold Ossl.bnInit
  rw [h1]
  simp only
  rw [cInt_small _ (by omega) (by omega), hb]

end Pycoin.Native
