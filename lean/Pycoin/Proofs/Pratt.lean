import Pycoin.Spec.Pratt
import Mathlib.NumberTheory.LucasPrimality
/-!
F5 — soundness of the Pratt-certificate checker of `Spec/Pratt.lean`:
`certifies cert n = true → Nat.Prime n` (Lucas' test, `lucas_primality`).
-/
namespace Pycoin.Pratt

theorem npowMod_eq (a m : Nat) : ∀ (fuel e : Nat), e ≤ fuel → npowMod a m fuel e = a ^ e % m := by
  intro fuel
  induction fuel with
  | zero => intro e he; obtain rfl : e = 0 := by omega
            simp [npowMod]
  | succ f ih =>
    intro e he
    unfold npowMod
    by_cases h0 : e = 0
    · subst h0; simp
    · rw [if_neg h0, ih (e / 2) (by omega)]
      have hsplit : a ^ e = (a ^ (e / 2)) ^ 2 * a ^ (e % 2) := by
        rw [← pow_mul, ← pow_add]; congr 1; omega
      have hx : (a ^ (e / 2) % m) ^ 2 % m = (a ^ (e / 2)) ^ 2 % m := (Nat.pow_mod _ _ _).symm
      by_cases h1 : e % 2 = 1
      · rw [if_pos h1, hsplit, h1, pow_one, hx, Nat.mod_mul_mod]
      · rw [if_neg h1, hsplit, show e % 2 = 0 by omega, pow_zero, mul_one, hx]

theorem powMod_eq (a e m : Nat) : powMod a e m = a ^ e % m := npowMod_eq a m e e le_rfl

theorem prime_dvd_prodPow {r : Nat} (hr : r.Prime) :
    ∀ (fs : List (Nat × Nat)), (∀ fe ∈ fs, Nat.Prime fe.1) → r ∣ prodPow fs → ∃ fe ∈ fs, fe.1 = r := by
  intro fs
  induction fs with
  | nil => intro _ h; simp [prodPow] at h; exact absurd h hr.one_lt.ne'
  | cons fe rest ih =>
    intro hp h
    obtain ⟨f, e⟩ := fe
    simp only [prodPow] at h
    rcases (Nat.Prime.dvd_mul hr).mp h with h1 | h1
    · have := hr.dvd_of_dvd_pow h1
      have hf : Nat.Prime f := hp (f, e) (by simp)
      exact ⟨(f, e), by simp, ((Nat.prime_dvd_prime_iff_eq hr hf).mp this).symm⟩
    · obtain ⟨fe, hm, he⟩ := ih (fun fe h => hp fe (by simp [h])) h1
      exact ⟨fe, by simp [hm], he⟩

theorem checkEntry_sound (known : List Nat) (hk : ∀ k ∈ known, Nat.Prime k) (en : Entry)
    (h : checkEntry known en = true) : Nat.Prime en.q := by
  simp only [checkEntry, Bool.and_eq_true, decide_eq_true_eq, List.all_eq_true] at h
  obtain ⟨⟨⟨⟨hq, hfs⟩, hprod⟩, hone⟩, hne⟩ := h
  have hprime : ∀ fe ∈ en.fs, Nat.Prime fe.1 := fun fe hm => hk _ (by simpa using hfs fe hm)
  apply lucas_primality en.q (en.a : ZMod en.q)
  · rw [powMod_eq] at hone
    have : ((en.a ^ (en.q - 1) : Nat) : ZMod en.q) = ((1 : Nat) : ZMod en.q) := by
      rw [ZMod.natCast_eq_natCast_iff']; rw [hone]; exact (Nat.mod_eq_of_lt hq).symm
    simpa using this
  · intro r hr hdvd hcontra
    rw [← hprod] at hdvd
    obtain ⟨fe, hm, rfl⟩ := prime_dvd_prodPow hr en.fs hprime hdvd
    have := hne fe hm
    rw [powMod_eq] at this
    apply this
    have h2 : ((en.a ^ ((en.q - 1) / fe.1) : Nat) : ZMod en.q) = ((1 : Nat) : ZMod en.q) := by
      push_cast; exact hcontra
    rw [ZMod.natCast_eq_natCast_iff'] at h2
    rw [h2, Nat.mod_eq_of_lt hq]

theorem run_sound : ∀ (cert : List Entry) (known ks : List Nat), (∀ k ∈ known, Nat.Prime k) →
    run cert known = some ks → ∀ k ∈ ks, Nat.Prime k := by
  intro cert
  induction cert with
  | nil => intro known ks hk h; simp [run] at h; subst h; exact hk
  | cons en rest ih =>
    intro known ks hk h
    unfold run at h
    by_cases hc : checkEntry known en = true
    · rw [if_pos hc] at h
      apply ih (en.q :: known) ks _ h
      intro k hkm
      rcases List.mem_cons.mp hkm with rfl | hkm
      · exact checkEntry_sound known hk en hc
      · exact hk k hkm
    · rw [if_neg hc] at h; cases h

/-- a certificate accepted by the executable checker proves primality -/
theorem certifies_sound (cert : List Entry) (n : Nat) (h : certifies cert n = true) : Nat.Prime n := by
  unfold certifies at h
  split at h
  · rename_i ks hrun
    have := run_sound cert [2] ks (by simp [Nat.prime_two]) hrun
    exact this n (by simpa using h)
  · cases h

end Pycoin.Pratt
