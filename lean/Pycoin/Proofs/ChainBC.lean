import Pycoin.Proofs.ChainFinderFacts
/-! the BlockChain invariant and its preservation by `add_headers` (core Lean only) -/
namespace Pycoin.Chain

def lockedHashes (bc : BC) : List Nat := bc.locked.map (·.1)

/-- what `_longest_local_block_chain()` returns: the cache, or `[]` on a fresh object -/
def curChain (bc : BC) (c : List Nat) : Prop :=
  bc.cache = some c ∨ (bc.cache = none ∧ bc.finder.dbt = [] ∧ c = [])

theorem longest_of_cur (rev : Bool) (bc : BC) (c : List Nat) (h : curChain bc c) :
    bc.longest rev = .ok (c, { bc with cache := some c }) := by
  rcases h with h | ⟨h1, h2, h3⟩
  · cases bc with
    | mk ph h2i w f cache locked =>
      simp only at h; subst h
      simp [BC.longest]
  · subst h3
    simp [BC.longest, h1, CF.allChainsEndingAt, h2, dget, pickBest, bind, Except.bind]

/-- the invariant of a `BlockChain` whose unlocked chain (tip first) is `c` -/
structure Good (anchor0 : Nat) (bc : BC) (c : List Nat) : Prop where
  cur : curChain bc c
  path : UpPath bc.finder.parent (c ++ [bc.parentHash])
  exact : Exact bc.h2i (lockedHashes bc ++ c.reverse)
  nodup : (lockedHashes bc ++ c.reverse).Nodup
  lockedUnreg : ∀ h ∈ lockedHashes bc, dget bc.finder.parent h = none
  weights : ∀ h, dhas bc.finder.parent h = true → dhas bc.weight h = true
  anchorUnreg : dget bc.finder.parent anchor0 = none
  parentIs : bc.parentHash = ((lockedHashes bc).getLast?).getD anchor0

theorem Good.init (anchor0 : Nat) : Good anchor0 (BC.new anchor0) [] := by
  refine ⟨Or.inr ⟨rfl, rfl, rfl⟩, ?_, ?_, ?_, ?_, ?_, ?_, ?_⟩ <;>
    simp [BC.new, CF.empty, lockedHashes, UpPath, dget, Exact, dhas]

theorem feed_spec (h2i : Dict Int) (ls : Nat) : ∀ (batch : List Header) (w : Dict Nat),
    (∀ k, dhas w k = true → dhas (feed h2i ls w batch).1 k = true) ∧
    (∀ k p, (k, p) ∈ (feed h2i ls w batch).2 →
      dhas (feed h2i ls w batch).1 k = true ∧ ¬ ((dget h2i k).getD ls < (ls : Int)) ∧
      ∃ hd ∈ batch, hd.hash = k ∧ hd.parent = p)
  | [], w => by simp [feed]
  | hd :: r, w => by
      unfold feed
      by_cases hskip : (dget h2i hd.hash).getD ls < (ls : Int)
      · simp only [hskip, if_true]
        obtain ⟨i1, i2⟩ := feed_spec h2i ls r w
        refine ⟨i1, ?_⟩
        intro k p hk
        obtain ⟨a, b, hd', hm, e1, e2⟩ := i2 k p hk
        exact ⟨a, b, hd', List.mem_cons_of_mem _ hm, e1, e2⟩
      · simp only [hskip, if_false]
        obtain ⟨i1, i2⟩ := feed_spec h2i ls r (dset w hd.hash hd.weight)
        have hset : dhas (dset w hd.hash hd.weight) hd.hash = true := by
          rw [dhas_iff]; exact ⟨_, dget_dset_self _ _ _⟩
        refine ⟨?_, ?_⟩
        · intro k hk
          apply i1
          rw [dhas_iff] at hk ⊢
          obtain ⟨v, hv⟩ := hk
          rw [dget_dset]
          by_cases e : hd.hash = k
          · simp [e]
          · simp [e, hv]
        · intro k p hk
          rcases List.mem_cons.mp hk with hk | hk
          · injection hk with e1 e2
            subst e1; subst e2
            exact ⟨i1 _ hset, hskip, hd, by simp, rfl, rfl⟩
          · obtain ⟨a, b, hd', hm, e1, e2⟩ := i2 k p hk
            exact ⟨a, b, hd', List.mem_cons_of_mem _ hm, e1, e2⟩

theorem take_succ_of_getElem? (l : List Nat) (j z : Nat) (h : l[j]? = some z) : l.take (j + 1) = l.take j ++ [z] := by
  rw [List.take_add_one, h]; rfl

/-- `find_ancestral_path` on the tips of two chains above the same anchor splits both at their common part -/
theorem findAncestral_split (cf : CF) (hs : FinderSound cf) (c n : List Nat) (a x y : Nat)
    (h1 : UpPath cf.parent (c ++ [a])) (h2 : UpPath cf.parent (n ++ [a]))
    (hx : c.head? = some x) (hy : n.head? = some y) (pa pb : List Nat)
    (hr : cf.findAncestralPath x y = .ok (pa, pb)) :
    ∃ s, c = pa.dropLast ++ s ∧ n = pb.dropLast ++ s := by
  unfold CF.findAncestralPath at hr
  obtain ⟨p1, hp1, hr⟩ := bind_ok hr
  obtain ⟨p2, hp2, hr⟩ := bind_ok hr
  have e1 : p1 = c ++ [a] := by
    obtain ⟨u, hh⟩ := maximumPath_spec cf hs x p1 hp1
    apply UpPath.det _ _ u h1
    rw [hh]; cases c with
    | nil => simp at hx
    | cons q r => simpa using hx.symm
  have e2 : p2 = n ++ [a] := by
    obtain ⟨u, hh⟩ := maximumPath_spec cf hs y p2 hp2
    apply UpPath.det _ _ u h2
    rw [hh]; cases n with
    | nil => simp at hy
    | cons q r => simpa using hy.symm
  have hl : ¬ (p1.getLast? ≠ p2.getLast?) := by rw [e1, e2]; simp
  simp only [hl, if_false] at hr
  split at hr
  · cases hr
  · rename_i k hk
    injection hr with hr
    injection hr with ea eb
    obtain ⟨z, z1, z2⟩ := scanEq_spec _ _ k hk
    rw [List.getElem?_drop] at z1 z2
    generalize hj1 : p1.length - min p1.length p2.length + k = j1 at *
    generalize hj2 : p2.length - min p1.length p2.length + k = j2 at *
    have hsfx := UpPath.common_suffix p1 p2 (e1 ▸ h1) (e2 ▸ h2) j1 j2 z z1 z2
    have l1 : j1 < p1.length := by
      rcases Nat.lt_or_ge j1 p1.length with h | h
      · exact h
      · rw [List.getElem?_eq_none h] at z1; cases z1
    have l2 : j2 < p2.length := by
      rcases Nat.lt_or_ge j2 p2.length with h | h
      · exact h
      · rw [List.getElem?_eq_none h] at z2; cases z2
    have d1 : p1.drop j1 ≠ [] := by simp; omega
    have d2 : p2.drop j2 ≠ [] := by simp; omega
    refine ⟨(p1.drop j1).dropLast, ?_, ?_⟩
    · have : c = p1.dropLast := by rw [e1]; simp
      rw [this, ← ea, take_succ_of_getElem? p1 j1 z z1, List.dropLast_concat]
      conv => lhs; rw [← List.take_append_drop j1 p1]
      rw [List.dropLast_append_of_ne_nil d1]
    · have : n = p2.dropLast := by rw [e2]; simp
      rw [this, ← eb, take_succ_of_getElem? p2 j2 z z2, List.dropLast_concat, hsfx]
      conv => lhs; rw [← List.take_append_drop j2 p2]
      rw [List.dropLast_append_of_ne_nil d2]

end Pycoin.Chain
